(* Proofs_voigt3.v -- aggregate consequences for the Voigt average (whole result, any numbers
   of snapshots / minerals / grains): the per-grain lemmas of Proofs_voigt2 are lifted through
   the nested sums.
   * avg_moduli: K and G of the averaged matrix are the phase-fraction weighted single-crystal
     moduli (texture independent);
   * avg_corotates: A -> A.Q^T for every grain rotates the whole result by Q;
   * voigt_ok_iff: exactly when voigt_averages succeeds;
   * avg_order_independent / avg_assemblage_order_independent: the order of the mineral list
     and a simultaneous permutation of (assemblage, fractions) change neither success nor
     the result. *)
From Coq Require Import Reals ZArith List Lra Lia Arith Bool Permutation.
From PV Require Import Num NumR Model_voigt Model_decomp Proofs_tensors_alg Proofs_tensors_rot
  Proofs_tensors_maps Proofs_tensors_proj Inst_tensors Proofs_voigt Proofs_decomp Proofs_voigt2.
From PV.gen Require Import Gen_tensors.
Import ListNotations.
Open Scope R_scope.

(* ---------------------------------------------------------------------- *)
(* finite sums                                                             *)
(* ---------------------------------------------------------------------- *)
Lemma rsum_cons x l : rsum (x :: l) = x + rsum l.
Proof. reflexivity. Qed.

Lemma rsum_map_ext_in {A} (f g : A -> R) l :
  (forall x, In x l -> f x = g x) -> rsum (map f l) = rsum (map g l).
Proof.
  induction l as [|a l IH]; intros H; cbn [map]; [reflexivity|].
  rewrite !rsum_cons, IH, (H a) by (try (left; reflexivity); intros; apply H; right; assumption).
  reflexivity.
Qed.

Lemma rsum_scal_r {A} (f : A -> R) c l : rsum (map (fun x => f x * c) l) = rsum (map f l) * c.
Proof. induction l as [|a l IH]; cbn [map]; rewrite ?rsum_cons, ?IH; [cbn; ring | ring]. Qed.

(* a double sum is a single sum over the pairs *)
Lemma rsum_flat {A B} (g : A -> B -> R) la lb :
  rsum (map (fun a => rsum (map (g a) lb)) la)
  = rsum (map (fun p => g (fst p) (snd p)) (list_prod la lb)).
Proof.
  induction la as [|a la IH]; cbn [map list_prod]; [reflexivity|].
  rewrite rsum_cons, map_app, rsum_app, map_map, IH. cbn [fst snd]. reflexivity.
Qed.

(* ---------------------------------------------------------------------- *)
(* K and G are linear functionals that read entries below 36 only          *)
(* ---------------------------------------------------------------------- *)
Lemma Kof_formula (M : RA) :
  Kof M = (M 0%nat + M 6%nat + M 12%nat + (M 1%nat + M 7%nat + M 13%nat) + (M 2%nat + M 8%nat + M 14%nat)) / 9.
Proof. apply KG_formula. Qed.
Lemma Gof_formula (M : RA) :
  Gof M = ((M 0%nat + M 28%nat + M 35%nat) + (M 7%nat + M 21%nat + M 35%nat) + (M 14%nat + M 21%nat + M 28%nat) - 3 * Kof M) / 10.
Proof. apply KG_formula. Qed.

Lemma Kof_ext (M M' : RA) : (forall k, (k < 36)%nat -> M k = M' k) -> Kof M = Kof M'.
Proof. intros H. rewrite (Kof_formula M), (Kof_formula M'). rewrite !H by lia. reflexivity. Qed.
Lemma Gof_ext (M M' : RA) : (forall k, (k < 36)%nat -> M k = M' k) -> Gof M = Gof M'.
Proof.
  intros H. rewrite (Gof_formula M), (Gof_formula M'), (Kof_ext M M' H). rewrite !H by lia. reflexivity.
Qed.

Lemma Kof_lin c (M N : RA) : Kof (fun k => c * M k + N k) = c * Kof M + Kof N.
Proof. rewrite !Kof_formula. field. Qed.
Lemma Gof_lin c (M N : RA) : Gof (fun k => c * M k + N k) = c * Gof M + Gof N.
Proof. rewrite !Gof_formula, !Kof_formula. field. Qed.
Lemma Kof_zero : Kof (fun _ => 0) = 0.
Proof. rewrite Kof_formula. field. Qed.
Lemma Gof_zero : Gof (fun _ => 0) = 0.
Proof. rewrite Gof_formula, Kof_formula. field. Qed.

Lemma Kof_rsum {X} (c : X -> R) (M : X -> RA) l :
  Kof (fun k => rsum (map (fun x => c x * M x k) l)) = rsum (map (fun x => c x * Kof (M x)) l).
Proof.
  induction l as [|x l IH]; cbn [map]; [apply Kof_zero|].
  rewrite rsum_cons, <- IH, <- Kof_lin. apply Kof_ext; intros; reflexivity.
Qed.
Lemma Gof_rsum {X} (c : X -> R) (M : X -> RA) l :
  Gof (fun k => rsum (map (fun x => c x * M x k) l)) = rsum (map (fun x => c x * Gof (M x)) l).
Proof.
  induction l as [|x l IH]; cbn [map]; [apply Gof_zero|].
  rewrite rsum_cons, <- IH, <- Gof_lin. apply Gof_ext; intros; reflexivity.
Qed.

(* ---------------------------------------------------------------------- *)
(* the weighted sum as ONE sum over the (mineral, grain) pairs             *)
(* ---------------------------------------------------------------------- *)
Definition wcoef (assemblage : list Z) (phis : list R) (i : nat) (p : MIN * nat) : R :=
  g_frac (fst p) i (snd p) * m_phi assemblage phis (fst p).

Lemma weighted_sum_flat tensors assemblage phis (ms : list MIN) ng i k :
  weighted_sum tensors assemblage phis ms ng i k
  = rsum (map (fun p => wcoef assemblage phis i p * grain_voigt tensors (fst p) i (snd p) k)
              (list_prod ms (seq 0 ng))).
Proof.
  unfold weighted_sum.
  apply (rsum_flat (fun m n => gterm tensors assemblage phis m i n k)).
Qed.

(* ---------------------------------------------------------------------- *)
(* C10 avg_moduli                                                          *)
(* ---------------------------------------------------------------------- *)
Theorem avg_moduli tensors assemblage phis (ms : list MIN) res :
  voigt_averages ms assemblage phis tensors = Ok res ->
  (forall m, In m ms -> sym6 (m_C tensors m)) ->
  forall i, (i < n_steps ms)%nat ->
  (forall m n, In m ms -> (n < n_grains ms)%nat -> orth (mat3 (transpose3 (g_orient m i n)))) ->
  (forall m, In m ms -> rsum (map (fun n => g_frac m i n) (seq 0 (n_grains ms))) = 1) ->
  Kof (nth i res zeroA) = rsum (map (fun m => m_phi assemblage phis m * Kof (m_C tensors m)) ms) /\
  Gof (nth i res zeroA) = rsum (map (fun m => m_phi assemblage phis m * Gof (m_C tensors m)) ms).
Proof.
  intros H Hs i Hi Ho Hf. destruct (avg_is_weighted_sum _ _ _ _ _ H) as (_ & Hw).
  set (ng := n_grains ms) in *.
  assert (E: forall k, (k < 36)%nat -> nth i res zeroA k
             = rsum (map (fun p => wcoef assemblage phis i p * grain_voigt tensors (fst p) i (snd p) k)
                         (list_prod ms (seq 0 ng)))).
  { intros k Hk. rewrite Hw by assumption. apply weighted_sum_flat. }
  assert (Hin: forall p, In p (list_prod ms (seq 0 ng)) -> In (fst p) ms /\ (snd p < ng)%nat).
  { intros [m n] Hp. apply in_prod_iff in Hp. destruct Hp as (Hm & Hn). apply in_seq in Hn.
    cbn [fst snd]. split; [assumption | lia]. }
  split.
  - rewrite (Kof_ext _ _ E), Kof_rsum.
    rewrite (rsum_map_ext_in _ (fun p => wcoef assemblage phis i p * Kof (m_C tensors (fst p)))).
    2:{ intros p Hp. destruct (Hin p Hp) as (Hm & Hn). f_equal.
        apply (grain_moduli tensors (fst p) i (snd p)); [apply Hs, Hm | apply Ho; assumption]. }
    unfold wcoef.
    rewrite <- (rsum_flat (fun m n => g_frac m i n * m_phi assemblage phis m * Kof (m_C tensors m))).
    apply rsum_map_ext_in. intros m Hm.
    rewrite (rsum_map_ext_in _ (fun n => g_frac m i n * (m_phi assemblage phis m * Kof (m_C tensors m))))
      by (intros; ring).
    rewrite (rsum_scal_r (fun n => g_frac m i n)), (Hf m Hm). ring.
  - rewrite (Gof_ext _ _ E), Gof_rsum.
    rewrite (rsum_map_ext_in _ (fun p => wcoef assemblage phis i p * Gof (m_C tensors (fst p)))).
    2:{ intros p Hp. destruct (Hin p Hp) as (Hm & Hn). f_equal.
        apply (grain_moduli tensors (fst p) i (snd p)); [apply Hs, Hm | apply Ho; assumption]. }
    unfold wcoef.
    rewrite <- (rsum_flat (fun m n => g_frac m i n * m_phi assemblage phis m * Gof (m_C tensors m))).
    apply rsum_map_ext_in. intros m Hm.
    rewrite (rsum_map_ext_in _ (fun n => g_frac m i n * (m_phi assemblage phis m * Gof (m_C tensors m))))
      by (intros; ring).
    rewrite (rsum_scal_r (fun n => g_frac m i n)), (Hf m Hm). ring.
Qed.

(* with phase fractions that sum to one the right-hand side is a weighted MEAN: if all the
   single crystals share the modulus K0 (G0), the average has exactly K0 (G0) *)
Corollary avg_moduli_mean tensors assemblage phis (ms : list MIN) res K0 G0 :
  voigt_averages ms assemblage phis tensors = Ok res ->
  (forall m, In m ms -> sym6 (m_C tensors m)) ->
  forall i, (i < n_steps ms)%nat ->
  (forall m n, In m ms -> (n < n_grains ms)%nat -> orth (mat3 (transpose3 (g_orient m i n)))) ->
  (forall m, In m ms -> rsum (map (fun n => g_frac m i n) (seq 0 (n_grains ms))) = 1) ->
  rsum (map (fun m => m_phi assemblage phis m) ms) = 1 ->
  (forall m, In m ms -> Kof (m_C tensors m) = K0 /\ Gof (m_C tensors m) = G0) ->
  Kof (nth i res zeroA) = K0 /\ Gof (nth i res zeroA) = G0.
Proof.
  intros H Hs i Hi Ho Hf Hp HK. destruct (avg_moduli _ _ _ _ _ H Hs i Hi Ho Hf) as (EK & EG).
  rewrite EK, EG. split.
  - rewrite (rsum_map_ext_in _ (fun m => m_phi assemblage phis m * K0))
      by (intros m Hm; rewrite (proj1 (HK m Hm)); reflexivity).
    rewrite (rsum_scal_r (fun m => m_phi assemblage phis m)), Hp. ring.
  - rewrite (rsum_map_ext_in _ (fun m => m_phi assemblage phis m * G0))
      by (intros m Hm; rewrite (proj2 (HK m Hm)); reflexivity).
    rewrite (rsum_scal_r (fun m => m_phi assemblage phis m)), Hp. ring.
Qed.

(* ---------------------------------------------------------------------- *)
(* linearity of rot4 and of voigt_to_elastic_tensor over finite sums       *)
(* ---------------------------------------------------------------------- *)
Lemma rot4_zero Rm : eq4 (rot4 (fun _ _ _ _ => 0) Rm) (fun _ _ _ _ => 0).
Proof. intros i j k l. unfold rot4, mp1, mp2, mp3, mp4, sum3; ring. Qed.

Lemma rot4_add_scal (f g : T4) c Rm :
  eq4 (rot4 (fun a b p q => c * f a b p q + g a b p q) Rm)
      (fun a b p q => c * rot4 f Rm a b p q + rot4 g Rm a b p q).
Proof. intros i j k l. unfold rot4, mp1, mp2, mp3, mp4, sum3; ring. Qed.

Lemma rot4_rsum {X} (c : X -> R) (F : X -> T4) l Rm :
  eq4 (rot4 (fun a b p q => rsum (map (fun x => c x * F x a b p q) l)) Rm)
      (fun a b p q => rsum (map (fun x => c x * rot4 (F x) Rm a b p q) l)).
Proof.
  induction l as [|x l IH]; [apply rot4_zero|].
  eapply eq4_trans;
    [apply (rot4_add_scal (F x) (fun a b p q => rsum (map (fun x => c x * F x a b p q) l)) (c x))|].
  intros a b p q. cbn [map]. rewrite rsum_cons, (IH a b p q). reflexivity.
Qed.

Lemma vte_extb (M M' : RA) : (forall k, (k < 36)%nat -> M k = M' k) ->
  eq4b (t4 (k_voigt_to_elastic_tensor M)) (t4 (k_voigt_to_elastic_tensor M')).
Proof.
  intros H p q r s Hp Hq Hr Hs. rewrite !vte_index_exhaustive by assumption. unfold mat6.
  apply H. pose proof (vidx_lt p q Hp Hq). pose proof (vidx_lt r s Hr Hs). lia.
Qed.

Lemma vte_rsum {X} (c : X -> R) (M : X -> RA) l :
  eq4b (t4 (@k_voigt_to_elastic_tensor NumR (fun k => rsum (map (fun x => c x * M x k) l))))
       (fun a b p q => rsum (map (fun x => c x * t4 (k_voigt_to_elastic_tensor (M x)) a b p q) l)).
Proof.
  intros p q r s Hp Hq Hr Hs. rewrite vte_index_exhaustive by assumption. unfold mat6.
  apply rsum_map_ext_in. intros x _. rewrite vte_index_exhaustive by assumption. reflexivity.
Qed.

(* if every term co-rotates, the linear combination co-rotates *)
Lemma lcomb_corot {X} (idx : list X) (c : X -> R) (M M' : X -> RA) (Q : M3) :
  (forall x, In x idx -> eq4b (t4 (k_voigt_to_elastic_tensor (M' x)))
                              (rot4 (t4 (k_voigt_to_elastic_tensor (M x))) Q)) ->
  eq4b (t4 (@k_voigt_to_elastic_tensor NumR (fun k => rsum (map (fun x => c x * M' x k) idx))))
       (rot4 (t4 (@k_voigt_to_elastic_tensor NumR (fun k => rsum (map (fun x => c x * M x k) idx)))) Q).
Proof.
  intros H.
  eapply eq4b_trans; [apply vte_rsum|].
  eapply eq4b_trans; [|apply eq4b_sym, rot4_extb, vte_rsum].
  eapply eq4b_trans; [|apply eq4b_sym, eq4_eq4b, rot4_rsum].
  intros a b p q Ha Hb Hp Hq. apply rsum_map_ext_in. intros x Hx.
  rewrite (H x Hx a b p q) by assumption. reflexivity.
Qed.

(* ---------------------------------------------------------------------- *)
(* C10 avg_corotates                                                       *)
(* ---------------------------------------------------------------------- *)
(* the mineral seen from a frame rotated by Q: every orientation A becomes A.Q^T *)
Definition rot_orient (Q o : RA) : RA := matmul3 o (transpose3 Q).
Definition rot_mineral (Q : RA) (m : MIN) : MIN :=
  @mkMineral NumR (m_phase m) (m_ngrains m) (map (map (rot_orient Q)) (m_orients m)) (m_fracs m).

Lemma n_steps_rot Q ms : n_steps (map (rot_mineral Q) ms) = n_steps ms.
Proof. destruct ms as [|m ms]; [reflexivity|]. cbn [map n_steps rot_mineral m_orients]. apply map_length. Qed.
Lemma n_grains_rot Q ms : n_grains (map (rot_mineral Q) ms) = n_grains ms.
Proof. destruct ms as [|m ms]; reflexivity. Qed.

Lemma orients_rot Q (m : MIN) i :
  nth i (m_orients (rot_mineral Q m)) [] = map (rot_orient Q) (nth i (m_orients m) []).
Proof.
  cbn [rot_mineral m_orients].
  pose proof (map_nth (map (rot_orient Q)) (m_orients m) [] i) as E. cbn [map] in E. exact E.
Qed.

Lemma g_orient_rot Q (m : MIN) i n :
  eq2b (mat3 (g_orient (rot_mineral Q m) i n)) (mat3 (matmul3 (g_orient m i n) (transpose3 Q))).
Proof.
  unfold g_orient. rewrite orients_rot. set (l := nth i (m_orients m) []).
  destruct (lt_dec n (length l)) as [Hn|Hn].
  - rewrite (nth_indep (map (rot_orient Q) l) zeroA (rot_orient Q zeroA)) by (rewrite map_length; exact Hn).
    rewrite map_nth. intros a b _ _. reflexivity.
  - rewrite !nth_overflow by (rewrite ?map_length; lia).
    intros a b Ha Hb. nine a b Ha Hb;
    cbv [mat3 matmul3 zeroA mk_arr nth Nat.add Nat.mul]; numR; ring.
Qed.

Lemma transpose3_ext (A B : RA) : eq2b (mat3 A) (mat3 B) -> eq2b (mat3 (transpose3 A)) (mat3 (transpose3 B)).
Proof.
  intros H a b Ha Hb. rewrite (mat3_transpose3 A a b Ha Hb), (mat3_transpose3 B a b Ha Hb).
  unfold tr3. apply H; assumption.
Qed.

(* one grain, in the form needed by lcomb_corot *)
Lemma grain_voigt_rot tensors Q (m : MIN) i n : sym6 (m_C tensors m) ->
  eq4b (t4 (k_voigt_to_elastic_tensor (grain_voigt tensors (rot_mineral Q m) i n)))
       (rot4 (t4 (k_voigt_to_elastic_tensor (grain_voigt tensors m i n))) (mat3 Q)).
Proof.
  intros Hs. unfold grain_voigt.
  change (m_C tensors (rot_mineral Q m)) with (m_C tensors m).
  eapply eq4b_trans.
  { apply vte_extb. apply etv_extb. apply rotate_extQ. apply transpose3_ext. apply g_orient_rot. }
  eapply eq4b_trans; [apply (grain_corotates (m_C tensors m) (g_orient m i n) Q Hs)|].
  apply rotate_is_mode_products.
Qed.

Lemma weighted_sum_rot_flat tensors assemblage phis Q (ms : list MIN) ng i k :
  weighted_sum tensors assemblage phis (map (rot_mineral Q) ms) ng i k
  = rsum (map (fun p => wcoef assemblage phis i p * grain_voigt tensors (rot_mineral Q (fst p)) i (snd p) k)
              (list_prod ms (seq 0 ng))).
Proof.
  unfold weighted_sum. rewrite map_map.
  apply (rsum_flat (fun m n => gterm tensors assemblage phis (rot_mineral Q m) i n k)).
Qed.

(* value part: both runs succeed -> the result seen from the rotated frame is the rotated result *)
Theorem avg_corotates_values tensors assemblage phis (ms : list MIN) (Q : RA) res res' :
  voigt_averages ms assemblage phis tensors = Ok res ->
  voigt_averages (map (rot_mineral Q) ms) assemblage phis tensors = Ok res' ->
  (forall m, In m ms -> sym6 (m_C tensors m)) ->
  forall i, (i < n_steps ms)%nat ->
  eq4b (t4 (k_voigt_to_elastic_tensor (nth i res' zeroA)))
       (t4 (k_rotate (k_voigt_to_elastic_tensor (nth i res zeroA)) Q)).
Proof.
  intros H H' Hs i Hi.
  destruct (avg_is_weighted_sum _ _ _ _ _ H) as (_ & Hw).
  destruct (avg_is_weighted_sum _ _ _ _ _ H') as (_ & Hw').
  rewrite n_steps_rot, n_grains_rot in Hw'. set (ng := n_grains ms) in *.
  eapply eq4b_trans.
  { apply vte_extb. intros k Hk. rewrite (Hw' i k Hi Hk). apply weighted_sum_rot_flat. }
  eapply eq4b_trans; [|apply eq4b_sym, rotate_is_mode_products].
  eapply eq4b_trans.
  2:{ apply eq4b_sym, rot4_extb, vte_extb. intros k Hk. rewrite (Hw i k Hi Hk). apply weighted_sum_flat. }
  apply (lcomb_corot (list_prod ms (seq 0 ng)) (wcoef assemblage phis i)
           (fun p => grain_voigt tensors (fst p) i (snd p))
           (fun p => grain_voigt tensors (rot_mineral Q (fst p)) i (snd p))).
  intros [m n] Hp. apply in_prod_iff in Hp. cbn [fst snd]. apply grain_voigt_rot, Hs, Hp.
Qed.

(* ---------------------------------------------------------------------- *)
(* exactly when voigt_averages succeeds                                    *)
(* ---------------------------------------------------------------------- *)
Lemma loop_ok_iff {A X} (step : X -> A -> res A) (okx : X -> Prop) :
  (forall x a, (exists r, step x a = Ok r) <-> okx x) ->
  forall xs a, (exists r, loop step xs a = Ok r) <-> Forall okx xs.
Proof.
  intros Hs. induction xs as [|x xs IH]; intros a; cbn [loop].
  - split; [constructor | eexists; reflexivity].
  - split.
    + intros [r H]. destruct (step x a) as [a'|e] eqn:E; [|discriminate].
      constructor; [apply (Hs x a); eexists; exact E | apply (IH a'); eexists; exact H].
    + intros HF. inversion HF as [|? ? H1 H2]; subst.
      destruct (proj2 (Hs x a) H1) as [r E]. rewrite E. apply IH, H2.
Qed.

Lemma all_ok_iff {A X} (f : X -> res A) l :
  (exists r, all_ok (map f l) = Ok r) <-> Forall (fun x => exists r, f x = Ok r) l.
Proof.
  induction l as [|x l IH]; cbn [map all_ok].
  - split; [constructor | eexists; reflexivity].
  - split.
    + intros [r H]. destruct (f x) as [a|e] eqn:E; [|discriminate].
      destruct (all_ok (map f l)) as [r'|e] eqn:E'; [|discriminate].
      constructor; [eexists; exact E | apply IH; eexists; reflexivity].
    + intros HF. inversion HF as [|? ? H1 H2]; subst. destruct H1 as [a E]. rewrite E.
      destruct (proj2 IH H2) as [r' E']. rewrite E'. eexists; reflexivity.
Qed.

(* the innermost expression evaluates without error *)
Definition gok (pt : list RA) (assemblage : list Z) (phis : list R) (m : MIN) (i n : nat) : Prop :=
  exists v, grain_val pt assemblage phis m i n = Ok v.

Section OkIff.
  Variables (pt : list RA) (assemblage : list Z) (phis : list NumR).

  Lemma grain_step_ok m i n a :
    (exists r, grain_step pt assemblage phis m i n a = Ok r) <-> gok pt assemblage phis m i n.
  Proof.
    unfold grain_step, gok. destruct (grain_val pt assemblage phis m i n) as [v|e].
    - split; intros _; eexists; reflexivity.
    - split; intros [r H]; discriminate.
  Qed.

  Lemma mineral_step_ok ng i m a :
    (exists r, mineral_step pt assemblage phis ng i m a = Ok r)
    <-> Forall (gok pt assemblage phis m i) (seq 0 ng).
  Proof. unfold mineral_step. apply loop_ok_iff. intros n a'. apply grain_step_ok. Qed.

  Lemma snapshot_ok ms ng i :
    (exists r, snapshot_avg pt assemblage phis ms ng i = Ok r)
    <-> Forall (fun m => Forall (gok pt assemblage phis m i) (seq 0 ng)) ms.
  Proof. unfold snapshot_avg. apply loop_ok_iff. intros m a. apply mineral_step_ok. Qed.
End OkIff.

Definition all_grains_ok tensors assemblage phis (ms : list MIN) : Prop :=
  Forall (fun i => Forall (fun m =>
      Forall (gok (map (@k_voigt_to_elastic_tensor NumR) tensors) assemblage phis m i)
             (seq 0 (n_grains ms))) ms) (seq 0 (n_steps ms)).

Theorem voigt_ok_iff tensors assemblage phis (ms : list MIN) :
  (exists res, voigt_averages ms assemblage phis tensors = Ok res)
  <-> consistent ms /\ all_grains_ok tensors assemblage phis ms.
Proof.
  split.
  - intros [res H]. split; [apply (avg_accepts_only_consistent _ _ _ _ _ H)|].
    unfold voigt_averages in H. destruct ms as [|m0 rest]; [discriminate|].
    destruct (negb (forallb _ rest)); [discriminate|].
    destruct (negb (forallb _ rest)); [discriminate|].
    destruct (negb (forallb _ (m0 :: rest))); [discriminate|].
    unfold all_grains_ok. cbn [n_steps n_grains].
    assert (E: exists r, all_ok (map (snapshot_avg (map (@k_voigt_to_elastic_tensor NumR) tensors)
                 assemblage phis (m0 :: rest) (m_ngrains m0)) (seq 0 (length (m_orients m0)))) = Ok r)
      by (eexists; exact H).
    apply all_ok_iff in E. eapply Forall_impl; [|exact E].
    intros i Hi. apply snapshot_ok in Hi. exact Hi.
  - intros (Hc & Hg). unfold voigt_averages. destruct ms as [|m0 rest]; [contradiction|].
    cbn [consistent] in Hc. destruct Hc as (H1 & H2 & H3).
    rewrite (proj2 (forallb_Forall _ _ _ (fun x => Nat.eqb_eq _ _)) H1).
    rewrite (proj2 (forallb_Forall _ _ _ (fun x => Nat.eqb_eq _ _)) H2).
    rewrite (proj2 (forallb_Forall _ _ _ (fun x => Nat.eqb_eq _ _)) H3).
    cbn [negb]. apply all_ok_iff. unfold all_grains_ok in Hg. cbn [n_steps n_grains] in Hg.
    eapply Forall_impl; [|exact Hg]. intros i Hi. apply snapshot_ok. exact Hi.
Qed.

(* ---------------------------------------------------------------------- *)
(* C10 avg_corotates, with success                                         *)
(* ---------------------------------------------------------------------- *)
Lemma consistent_rot Q ms : consistent ms -> consistent (map (rot_mineral Q) ms).
Proof.
  destruct ms as [|m0 rest]; [exact (fun H => H)|]. cbn [consistent map].
  intros (H1 & H2 & H3). repeat split.
  - apply Forall_map. eapply Forall_impl; [|exact H1]. intros m Hm. exact Hm.
  - apply Forall_map. eapply Forall_impl; [|exact H2]. intros m Hm.
    cbn [rot_mineral m_orients]. rewrite !map_length. exact Hm.
  - apply (Forall_map (rot_mineral Q) _ (m0 :: rest)). eapply Forall_impl; [|exact H3]. intros m Hm.
    cbn [rot_mineral m_orients m_fracs]. rewrite map_length. exact Hm.
Qed.

Lemma gok_rot pt assemblage phis Q (m : MIN) i n :
  gok pt assemblage phis m i n -> gok pt assemblage phis (rot_mineral Q m) i n.
Proof.
  unfold gok, grain_val. rewrite orients_rot, nth_error_map.
  change (m_phase (rot_mineral Q m)) with (m_phase m).
  change (m_fracs (rot_mineral Q m)) with (m_fracs m).
  destruct (Z.ltb (m_phase m) 0); [intros [v H]; discriminate|].
  destruct (nth_error pt (Z.to_nat (m_phase m))); [|intros [v H]; discriminate].
  destruct (nth_error (nth i (m_orients m) []) n); [|intros [v H]; discriminate]. cbn [option_map].
  destruct (nth_error (nth i (m_fracs m) []) n); [|intros [v H]; discriminate].
  destruct (index_of (m_phase m) assemblage) as [k|]; [|intros [v H]; discriminate].
  destruct (@nth_error (T NumR) phis k); [|intros [v H]; discriminate].
  intros _. eexists; reflexivity.
Qed.

(* C10: replacing every orientation A by A.Q^T (ANY 3x3 matrix Q) succeeds iff the original
   call does, and the result is the rotated result: vte(avg') = rotate(vte(avg), Q) *)
Theorem avg_corotates tensors assemblage phis (ms : list MIN) (Q : RA) res :
  voigt_averages ms assemblage phis tensors = Ok res ->
  (forall m, In m ms -> sym6 (m_C tensors m)) ->
  exists res', voigt_averages (map (rot_mineral Q) ms) assemblage phis tensors = Ok res' /\
    length res' = length res /\
    forall i, (i < n_steps ms)%nat ->
      eq4b (t4 (k_voigt_to_elastic_tensor (nth i res' zeroA)))
           (t4 (k_rotate (k_voigt_to_elastic_tensor (nth i res zeroA)) Q)).
Proof.
  intros H Hs.
  assert (Hex: exists res', voigt_averages (map (rot_mineral Q) ms) assemblage phis tensors = Ok res').
  { apply voigt_ok_iff.
    destruct (proj1 (voigt_ok_iff tensors assemblage phis ms) (ex_intro _ res H)) as (Hc & Hg).
    split; [apply consistent_rot, Hc|].
    unfold all_grains_ok in *. rewrite n_steps_rot, n_grains_rot.
    eapply Forall_impl; [|exact Hg]. intros i Hi. apply Forall_map.
    eapply Forall_impl; [|exact Hi]. intros m Hm.
    eapply Forall_impl; [|exact Hm]. intros n Hn. apply gok_rot, Hn. }
  destruct Hex as [res' H']. exists res'. split; [exact H'|]. split.
  - destruct (avg_is_weighted_sum _ _ _ _ _ H) as (-> & _).
    destruct (avg_is_weighted_sum _ _ _ _ _ H') as (-> & _). apply n_steps_rot.
  - apply (avg_corotates_values _ _ _ _ _ _ _ H H' Hs).
Qed.

(* ---------------------------------------------------------------------- *)
(* C10 avg_order_independent: the mineral list                             *)
(* ---------------------------------------------------------------------- *)
Definition uniform (ng ns : nat) (m : MIN) : Prop :=
  m_ngrains m = ng /\ length (m_orients m) = ns /\ length (m_fracs m) = ns.

Lemma consistent_iff ms :
  consistent ms <-> ms <> [] /\ Forall (uniform (n_grains ms) (n_steps ms)) ms.
Proof.
  destruct ms as [|m0 rest]; cbn [consistent n_grains n_steps].
  - split; [contradiction | intros (H & _); apply H; reflexivity].
  - split.
    + intros (H1 & H2 & H3). split; [discriminate|].
      inversion H3 as [|? ? H30 H3r]; subst.
      constructor; [repeat split; assumption|].
      rewrite Forall_forall in *. intros m Hm. repeat split; [apply H1 | apply H2 | apply H3r]; exact Hm.
    + intros (_ & HF). inversion HF as [|? ? H0 Hr]; subst.
      rewrite Forall_forall in Hr. repeat split.
      * apply Forall_forall. intros m Hm. apply (Hr m Hm).
      * apply Forall_forall. intros m Hm. apply (Hr m Hm).
      * constructor; [apply H0|]. apply Forall_forall. intros m Hm. apply (Hr m Hm).
Qed.

Lemma consistent_perm ms ms' : Permutation ms ms' -> consistent ms ->
  consistent ms' /\ n_grains ms' = n_grains ms /\ n_steps ms' = n_steps ms.
Proof.
  intros Hp Hc. apply consistent_iff in Hc. destruct Hc as (Hne & HF).
  assert (HF': Forall (uniform (n_grains ms) (n_steps ms)) ms') by (eapply Permutation_Forall; eassumption).
  destruct ms' as [|m0' rest'].
  { apply Permutation_sym, Permutation_nil in Hp. contradiction. }
  inversion HF' as [|? ? (U1 & U2 & U3) Hr]; subst.
  assert (E1: n_grains (m0' :: rest') = n_grains ms) by exact U1.
  assert (E2: n_steps (m0' :: rest') = n_steps ms) by exact U2.
  split; [|split; assumption].
  apply consistent_iff. split; [discriminate|]. rewrite E1, E2. exact HF'.
Qed.

Theorem avg_order_independent tensors assemblage phis (ms ms' : list MIN) res :
  Permutation ms ms' ->
  voigt_averages ms assemblage phis tensors = Ok res ->
  exists res', voigt_averages ms' assemblage phis tensors = Ok res' /\
    length res' = length res /\
    forall i k, (i < n_steps ms)%nat -> (k < 36)%nat -> nth i res' zeroA k = nth i res zeroA k.
Proof.
  intros Hp H.
  destruct (proj1 (voigt_ok_iff tensors assemblage phis ms) (ex_intro _ res H)) as (Hc & Hg).
  destruct (consistent_perm _ _ Hp Hc) as (Hc' & Eg & Es).
  assert (Hex: exists res', voigt_averages ms' assemblage phis tensors = Ok res').
  { apply voigt_ok_iff. split; [exact Hc'|]. unfold all_grains_ok in *. rewrite Eg, Es.
    eapply Forall_impl; [|exact Hg]. intros i Hi. eapply Permutation_Forall; eassumption. }
  destruct Hex as [res' H']. exists res'. split; [exact H'|].
  destruct (avg_is_weighted_sum _ _ _ _ _ H) as (L & Hw).
  destruct (avg_is_weighted_sum _ _ _ _ _ H') as (L' & Hw').
  split; [rewrite L, L'; exact Es|].
  intros i k Hi Hk. rewrite Hw by assumption. rewrite Hw' by (rewrite ?Es; assumption).
  rewrite Eg. symmetry. apply weighted_sum_perm, Hp.
Qed.

(* ---------------------------------------------------------------------- *)
(* C10 avg_order_independent: the phase assemblage with its fractions      *)
(* ---------------------------------------------------------------------- *)
Lemma index_of_some p l : forall k, index_of p l = Some k -> nth_error l k = Some p.
Proof.
  induction l as [|q l IH]; intros k H; cbn [index_of] in H; [discriminate|].
  destruct (Z.eqb q p) eqn:E.
  - apply Z.eqb_eq in E. inversion H; subst. reflexivity.
  - destruct (index_of p l) as [k'|]; [|discriminate]. inversion H; subst. cbn. apply IH. reflexivity.
Qed.

Lemma index_of_none p l : index_of p l = None -> ~ In p l.
Proof.
  induction l as [|q l IH]; intros H; cbn [index_of] in H; [intros []|].
  destruct (Z.eqb q p) eqn:E; [discriminate|].
  destruct (index_of p l) as [k'|]; [discriminate|].
  apply Z.eqb_neq in E. intros [Hq|Hin]; [contradiction | apply (IH eq_refl Hin)].
Qed.

Lemma index_of_in_combine {B} p (l : list Z) (l' : list B) x : forall k,
  index_of p l = Some k -> nth_error l' k = Some x -> In (p, x) (combine l l').
Proof.
  revert l'; induction l as [|q l IH]; intros l' k H Hx; cbn [index_of] in H; [discriminate|].
  destruct l' as [|y l']; [destruct k; discriminate|].
  destruct (Z.eqb q p) eqn:E.
  - apply Z.eqb_eq in E. inversion H; subst. cbn in Hx. inversion Hx; subst. left; reflexivity.
  - destruct (index_of p l) as [k'|] eqn:E'; [|discriminate]. inversion H; subst. cbn in Hx.
    right. apply (IH l' k' eq_refl Hx).
Qed.

Lemma in_combine_index_of {B} p (l : list Z) (l' : list B) x :
  NoDup l -> In (p, x) (combine l l') ->
  exists k, index_of p l = Some k /\ nth_error l' k = Some x.
Proof.
  revert l'; induction l as [|q l IH]; intros l' Hnd Hin; [contradiction|].
  destruct l' as [|y l']; [contradiction|]. cbn [combine] in Hin. cbn [index_of].
  inversion Hnd as [|? ? Hq Hnd']; subst.
  destruct Hin as [E|Hin].
  - inversion E; subst. rewrite Z.eqb_refl. exists 0%nat. split; reflexivity.
  - destruct (Z.eqb q p) eqn:E.
    + apply Z.eqb_eq in E; subst. exfalso. apply Hq. apply (in_combine_l _ _ _ _ Hin).
    + destruct (IH l' Hnd' Hin) as [k (Hk & Hx)]. rewrite Hk. exists (S k). split; [reflexivity | exact Hx].
Qed.

Lemma lookup_transfer (ass ass' : list Z) (phis phis' : list R) p k x :
  NoDup ass' -> Permutation (combine ass phis) (combine ass' phis') ->
  index_of p ass = Some k -> nth_error phis k = Some x ->
  exists k', index_of p ass' = Some k' /\ nth_error phis' k' = Some x.
Proof.
  intros Hnd' Hp Hk Hx. apply in_combine_index_of; [exact Hnd'|].
  eapply Permutation_in; [exact Hp|]. eapply index_of_in_combine; eassumption.
Qed.

Lemma lookup_total (ass : list Z) (phis : list R) p k : length ass = length phis ->
  index_of p ass = Some k -> exists x, nth_error phis k = Some x.
Proof.
  intros Hl Hk. apply index_of_some in Hk.
  assert (k < length ass)%nat by (apply nth_error_Some; rewrite Hk; discriminate).
  destruct (nth_error phis k) as [x|] eqn:E; [eexists; reflexivity|].
  apply nth_error_None in E. lia.
Qed.

Lemma m_phi_perm (ass ass' : list Z) (phis phis' : list R) (m : MIN) :
  NoDup ass -> NoDup ass' -> length ass = length phis -> length ass' = length phis' ->
  Permutation (combine ass phis) (combine ass' phis') ->
  m_phi ass phis m = m_phi ass' phis' m.
Proof.
  intros Hnd Hnd' Hl Hl' Hp. unfold m_phi.
  destruct (index_of (m_phase m) ass) as [k|] eqn:E.
  - destruct (lookup_total ass phis _ _ Hl E) as [x Hx].
    destruct (lookup_transfer ass ass' phis phis' _ _ _ Hnd' Hp E Hx) as [k' (E' & Hx')].
    rewrite E'. rewrite (nth_error_nth _ _ 0 _ Hx), (nth_error_nth _ _ 0 _ Hx'). reflexivity.
  - destruct (index_of (m_phase m) ass') as [k'|] eqn:E'; [|reflexivity].
    exfalso. destruct (lookup_total ass' phis' _ _ Hl' E') as [x Hx].
    destruct (lookup_transfer ass' ass phis' phis _ _ _ Hnd (Permutation_sym Hp) E' Hx) as [k (Ek & _)].
    rewrite Ek in E. discriminate.
Qed.

Ltac gok_step :=
  match goal with
  | |- (exists v, match ?t with _ => _ end = Ok v) -> _ => destruct t eqn:?
  end; try (intros [? ?]; discriminate).

Lemma gok_assemblage pt (ass ass' : list Z) (phis phis' : list R) (m : MIN) i n :
  NoDup ass' -> Permutation (combine ass phis) (combine ass' phis') ->
  gok pt ass phis m i n -> gok pt ass' phis' m i n.
Proof.
  intros Hnd' Hp. unfold gok, grain_val. do 4 gok_step.
  destruct (index_of (m_phase m) ass) as [k|] eqn:E; [|intros [v H]; discriminate].
  destruct (@nth_error (T NumR) phis k) as [x|] eqn:Ex; [|intros [v H]; discriminate].
  intros _. destruct (lookup_transfer ass ass' phis phis' _ _ _ Hnd' Hp E Ex) as [k' (E' & Hx')].
  change R with (T NumR) in Hx'. rewrite E', Hx'. eexists; reflexivity.
Qed.

Lemma map_fst_combine {A B} (l : list A) (l' : list B) : length l = length l' -> map fst (combine l l') = l.
Proof.
  revert l'; induction l as [|a l IH]; intros [|b l'] H; cbn in *; try reflexivity; try discriminate.
  rewrite IH by lia. reflexivity.
Qed.

(* simultaneous permutation of the phase assemblage and of its fractions: both lookups are by
   phase identity, so neither success nor any entry of the result changes *)
Theorem avg_assemblage_order_independent tensors (ass ass' : list Z) (phis phis' : list R) (ms : list MIN) res :
  NoDup ass -> length ass = length phis -> length ass' = length phis' ->
  Permutation (combine ass phis) (combine ass' phis') ->
  voigt_averages ms ass phis tensors = Ok res ->
  exists res', voigt_averages ms ass' phis' tensors = Ok res' /\
    length res' = length res /\
    forall i k, (i < n_steps ms)%nat -> (k < 36)%nat -> nth i res' zeroA k = nth i res zeroA k.
Proof.
  intros Hnd Hl Hl' Hp H.
  assert (Hnd': NoDup ass').
  { rewrite <- (map_fst_combine ass' phis' Hl'). eapply Permutation_NoDup.
    - apply Permutation_map, Hp.
    - rewrite (map_fst_combine ass phis Hl). exact Hnd. }
  destruct (proj1 (voigt_ok_iff tensors ass phis ms) (ex_intro _ res H)) as (Hc & Hg).
  assert (Hex: exists res', voigt_averages ms ass' phis' tensors = Ok res').
  { apply voigt_ok_iff. split; [exact Hc|]. unfold all_grains_ok in *.
    eapply Forall_impl; [|exact Hg]. intros i Hi.
    eapply Forall_impl; [|exact Hi]. intros m Hm.
    eapply Forall_impl; [|exact Hm]. intros n Hn. eapply gok_assemblage; eassumption. }
  destruct Hex as [res' H']. exists res'. split; [exact H'|].
  destruct (avg_is_weighted_sum _ _ _ _ _ H) as (L & Hw).
  destruct (avg_is_weighted_sum _ _ _ _ _ H') as (L' & Hw').
  split; [rewrite L, L'; reflexivity|].
  intros i k Hi Hk. rewrite Hw, Hw' by assumption. unfold weighted_sum.
  apply rsum_map_ext. intros m. apply rsum_map_ext. intros n. unfold gterm.
  rewrite (m_phi_perm ass ass' phis phis' m Hnd Hnd' Hl Hl' Hp). reflexivity.
Qed.

(* ---------------------------------------------------------------------- *)
(* the hypotheses of the aggregate theorems are satisfiable                *)
(* ---------------------------------------------------------------------- *)
Definition C_example : RA := fun _ => 1.
Lemma C10_nonvacuous_agg_proof :
  (exists res, voigt_averages [m_example] [0%Z] [1] [C_example] = Ok res) /\
  (forall m, In m [m_example] -> sym6 (m_C [C_example] m)) /\
  (forall m n, In m [m_example] -> (n < n_grains [m_example])%nat ->
      orth (mat3 (transpose3 (g_orient m 0 n)))) /\
  (forall m, In m [m_example] ->
      rsum (map (fun n => g_frac m 0 n) (seq 0 (n_grains [m_example]))) = 1) /\
  rsum (map (fun m => m_phi [0%Z] [1] m) [m_example]) = 1 /\
  (0 < n_steps [m_example])%nat /\
  NoDup [0%Z; 1%Z] /\
  Permutation (combine [0%Z; 1%Z] [1/4; 3/4]) (combine [1%Z; 0%Z] [3/4; 1/4]).
Proof.
  destruct C10_nonvacuous_proof as (Hc & _ & _ & _ & Ho).
  split; [|split; [|split; [|split; [|split; [|split; [|split]]]]]].
  - apply voigt_ok_iff. split; [exact Hc|].
    unfold all_grains_ok. cbn [n_steps n_grains m_example m_orients m_ngrains length seq].
    repeat constructor. unfold gok. eexists. reflexivity.
  - intros m [<-|[]]. intros a b _ _. reflexivity.
  - intros m n [<-|[]] Hn. cbn [n_grains m_example m_ngrains] in Hn.
    destruct n as [|n]; [exact Ho | lia].
  - intros m [<-|[]]. cbn. lra.
  - cbn. lra.
  - cbn. lia.
  - constructor; [intros [H|[]]; discriminate|]. constructor; [intros []|constructor].
  - cbn [combine]. apply perm_swap.
Qed.

Lemma rot_mineral_spec (Q : RA) (m : MIN) :
  m_phase (rot_mineral Q m) = m_phase m /\ m_ngrains (rot_mineral Q m) = m_ngrains m /\
  m_fracs (rot_mineral Q m) = m_fracs m /\
  m_orients (rot_mineral Q m) = map (map (fun A => matmul3 A (transpose3 Q))) (m_orients m).
Proof. repeat split. Qed.
