(* Model_memo.v -- a function behind a result cache (functools.lru_cache / a module-level memo dictionary), as a state machine over
   call histories.  `same` is the equality the cache compares keys with (Python: == and hash); `aliased` says whether the cache hands
   out the stored object itself (the caller can then overwrite it in place: operation Scribble) or a fresh copy.  No proofs here. *)
From Coq Require Import List Bool.
Import ListNotations.

Section Memo.
  Context {Arg Res : Type} (f : Arg -> Res) (same : Arg -> Arg -> bool).

  Definition table := list (Arg * Res).

  Fixpoint lookup (tbl : table) (a : Arg) : option Res :=
    match tbl with
    | [] => None
    | (k, r) :: t => if same k a then Some r else lookup t a
    end.

  (* one call through the cache *)
  Definition call (tbl : table) (a : Arg) : table * Res :=
    match lookup tbl a with
    | Some r => (tbl, r)
    | None => let r := f a in (tbl ++ [(a, r)], r)
    end.

  (* what the program does: calls, and in-place edits by the CALLER of the object a previous call with argument a returned *)
  Inductive op := Call (a : Arg) | Scribble (a : Arg) (r : Res).

  Definition overwrite (tbl : table) (a : Arg) (r : Res) : table :=
    map (fun kr => if same (fst kr) a then (fst kr, r) else kr) tbl.

  Definition step (aliased : bool) (tbl : table) (o : op) : table * option Res :=
    match o with
    | Call a => let '(t, r) := call tbl a in (t, Some r)
    | Scribble a r => ((if aliased then overwrite tbl a r else tbl), None)
    end.

  Fixpoint run (aliased : bool) (tbl : table) (ops : list op) : list Res :=
    match ops with
    | [] => []
    | o :: rest => let '(t, out) := step aliased tbl o in
                   match out with Some r => r :: run aliased t rest | None => run aliased t rest end
    end.

  (* the specification: every call is the function of its argument; edits of returned objects concern the caller only *)
  Fixpoint spec (ops : list op) : list Res :=
    match ops with
    | [] => []
    | Call a :: rest => f a :: spec rest
    | Scribble _ _ :: rest => spec rest
    end.
End Memo.
