(* Inst_core.v -- kernel-checked instance lemmas: the *generated* derivatives at
   n_grains = 1, 2, 3 (every regime ordinal, every phase/fabric, every path) coincide
   with the hand-written list model Model_core.derivs on the corresponding lists. *)
From Coq Require Import Reals ZArith List Bool Lra Lia.
From PV Require Import Num NumR Model_core.
From PV.gen Require Import Gen_core.
Import ListNotations.
Open Scope R_scope.

Definition res_match (n : nat) (r1 : res (arr R * arr R)) (r2 : res (list (arr R) * list R)) : Prop :=
  match r1, r2 with
  | Ok (a, f), Ok (la, lf) =>
      length la = n /\ length lf = n /\
      (forall g k, (g < n)%nat -> (k < 9)%nat -> a (9 * g + k)%nat = nth g la (fun _ => 0) k) /\
      (forall g, (g < n)%nat -> f g = nth g lf 0)
  | Err e1, Err e2 => e1 = e2
  | _, _ => False
  end.

Ltac small_nat g :=
  repeat (destruct g as [|g]; [ | try (exfalso; lia) ]); try (exfalso; lia).

Ltac inst_tac :=
  intros;
  cbv [derivs grains slice9 map seq Nat.add Nat.mul];
  repeat match goal with
  | |- context [Z.eqb ?r ?k] => destruct (Z.eqb r k) eqn:?
  end;
  repeat match goal with
  | |- context [k_get_rotation_and_strain ?a ?b ?c ?d ?e ?f ?g ?h] =>
      destruct (k_get_rotation_and_strain a b c d e f g h) as [[? ?]|?] eqn:?
  end;
  cbv [res_match]; try reflexivity.
Ltac inst_tac2 :=
  (split; [reflexivity | split; [reflexivity | split ] ]);
  [ intros g k Hg Hk; small_nat g; small_nat k;
    cbv [mk_arr nth map fst snd scale9 copy9 zeros9 three_tenths Nat.add Nat.mul]; numR;
    try reflexivity; try field
  | intros g Hg; small_nat g;
    cbv [mk_arr nth map fst snd frac_rates sumf map2 fold_left three_tenths]; numR;
    try reflexivity; try field ].

Lemma derivs_inst_1 regime phase fabric (O f D L S : arr NumR) (p n lam M phi : R) :
  res_match 1 (k_derivatives_n1 regime phase fabric O f D L S p n lam M phi)
    (derivs regime phase fabric [slice9 O 0] [f 0%nat] D L S p n lam M phi).
Proof. unfold k_derivatives_n1. inst_tac. all: inst_tac2. Qed.

Lemma derivs_inst_2 regime phase fabric (O f D L S : arr NumR) (p n lam M phi : R) :
  res_match 2 (k_derivatives_n2 regime phase fabric O f D L S p n lam M phi)
    (derivs regime phase fabric [slice9 O 0; slice9 O 1] [f 0%nat; f 1%nat] D L S p n lam M phi).
Proof. unfold k_derivatives_n2. inst_tac. all: inst_tac2. Qed.

Lemma derivs_inst_3 regime phase fabric (O f D L S : arr NumR) (p n lam M phi : R) :
  res_match 3 (k_derivatives_n3 regime phase fabric O f D L S p n lam M phi)
    (derivs regime phase fabric [slice9 O 0; slice9 O 1; slice9 O 2]
            [f 0%nat; f 1%nat; f 2%nat] D L S p n lam M phi).
Proof. unfold k_derivatives_n3. inst_tac. all: inst_tac2. Qed.
