(* Proofs_diag_inst.v -- kernel-checked instance lemmas for the eigenvalue-based diagnostics (tie T).

   coq/gen/Gen_diag.v is regenerated from the current source on every run by
   translator/specs_diag.py (pydrex.stats._scatter_matrix, pydrex.diagnostics.symmetry_pgr /
   coaxial_index / bingham_average / finite_strain, pydrex.utils.angle_fse_simpleshear, traced as
   they are).  LAPACK stays a FUNCTION PARAMETER of the generated definitions
       eigvalsh : arr F -> arr F            eigh : arr F -> arr F * arr F
   (3x3 row-major in; eigenvalues, and the row-major matrix V whose columns are the vectors, out).

   The lemmas below state, for EVERY such array-level function `eg` and every input array, that
   the generated definition at n = 1, 2, 3 grains coincides with the hand-written list model of
   Model_diag.v evaluated on the grains read off the array, with the model-level oracle
       ev_lower eg S = (first three entries of) eg (the 3x3 array with S in the lower triangle, 0 above)
       eh_full  eg S = eg (the symmetric 3x3 array of S)                      [finite_strain]
   So which matrix is handed to LAPACK (scatter matrix of which row; F.F^T and not F^T.F), which
   entries of its result are used afterwards (descending order for P, G, R; the LAST column of V),
   the axis-letter -> row mapping and the ValueError for any other specifier, the division by the
   eigenvalue sum, the normalisation, sqrt(.) - 1: all are proof obligations here.  An edit of the
   source changes Gen_diag.v and one of these proofs stops compiling. *)
From Coq Require Import Reals ZArith List Bool Lra Lia.
From PV Require Import Num NumR Model_diag Proofs_diag.
From PV.gen Require Import Gen_diag.
Import ListNotations.
Open Scope R_scope.

Notation A := (@mk_arr R 0).
Notation AR := (arr R).

(* ---- reading grains / matrices / vectors off flat row-major arrays ---- *)
Definition vec_at (a : AR) (k : nat) : V3 := (a k, a (k + 1)%nat, a (k + 2)%nat).
Definition mat_at (a : AR) (k : nat) : M3 := (vec_at a k, vec_at a (k + 3)%nat, vec_at a (k + 6)%nat).
Definition grains_arr (n : nat) (O : AR) : list M3 := map (fun g => mat_at O (9 * g)%nat) (seq 0 n).

Definition flat3 (v : V3) : list R := [vx v; vy v; vz v].
Definition flat9 (o : M3) : list R := let '(a, b, c) := o in flat3 a ++ flat3 b ++ flat3 c.

(* the array stats._scatter_matrix returns: S in the lower triangle, zeros above *)
Definition lower_arr (S : S3) : AR :=
  let '(s00, s10, s11, s20, s21, s22) := S in A [s00; 0; 0; s10; s11; 0; s20; s21; s22].
(* the symmetric array of S *)
Definition full_arr (S : S3) : AR :=
  let '(s00, s10, s11, s20, s21, s22) := S in A [s00; s10; s20; s10; s11; s21; s20; s21; s22].
(* what LAPACK reads with lower=True (the default) *)
Definition lower6 (m : AR) : S3 := (m 0, m 3, m 4, m 6, m 7, m 8)%nat.

(* eigenvalues (ascending, as returned) and eigenvectors = COLUMNS of the row-major V *)
Definition vals_of (l : AR) : V3 := (l 0, l 1, l 2)%nat.
Definition cols_of_arr (V : AR) : V3 * V3 * V3 :=
  ((V 0, V 3, V 6), (V 1, V 4, V 7), (V 2, V 5, V 8))%nat.

(* model-level oracles induced by an array-level one *)
Definition ev_lower (eg : AR -> AR) : S3 -> V3 := fun S => vals_of (eg (lower_arr S)).
Definition eh_lower (eg : AR -> AR * AR) : S3 -> EV :=
  fun S => (vals_of (fst (eg (lower_arr S))), cols_of_arr (snd (eg (lower_arr S)))).
Definition eh_full (eg : AR -> AR * AR) : S3 -> EV :=
  fun S => (vals_of (fst (eg (full_arr S))), cols_of_arr (snd (eg (full_arr S)))).

Lemma lower6_lower_arr S : lower6 (lower_arr S) = S.
Proof. d6 S. reflexivity. Qed.
Lemma lower6_full_arr S : lower6 (full_arr S) = S.
Proof. d6 S. reflexivity. Qed.

Lemma cons_eq {X} (a b : X) l1 l2 : a = b -> l1 = l2 -> a :: l1 = b :: l2.
Proof. intros -> ->; reflexivity. Qed.
Lemma arr_eq (l l' : list R) : l = l' -> A l = A l'.
Proof. intros ->; reflexivity. Qed.
Ltac list_eq tac := repeat (apply cons_eq; [ tac | ]); try reflexivity.

(* ------------------------------------------------------------------------- *)
(* stats._scatter_matrix                                                      *)
(* ------------------------------------------------------------------------- *)
Ltac scatter_tac :=
  solve [ intros; cbv [lower_arr scatter grains_arr seq map rowv mat_at vec_at dsum fold_left vx vy vz fst snd
                       Nat.mul Nat.add];
          apply arr_eq; numR; list_eq ltac:(first [ reflexivity | ring ]) ].

Lemma scatter_inst_1_r0 (O : AR) : @k_scatter_matrix_n1_r0 NumR O = lower_arr (@scatter NumR (grains_arr 1 O) 0).
Proof. unfold k_scatter_matrix_n1_r0. scatter_tac. Qed.
Lemma scatter_inst_1_r1 (O : AR) : @k_scatter_matrix_n1_r1 NumR O = lower_arr (@scatter NumR (grains_arr 1 O) 1).
Proof. unfold k_scatter_matrix_n1_r1. scatter_tac. Qed.
Lemma scatter_inst_1_r2 (O : AR) : @k_scatter_matrix_n1_r2 NumR O = lower_arr (@scatter NumR (grains_arr 1 O) 2).
Proof. unfold k_scatter_matrix_n1_r2. scatter_tac. Qed.
Lemma scatter_inst_2_r0 (O : AR) : @k_scatter_matrix_n2_r0 NumR O = lower_arr (@scatter NumR (grains_arr 2 O) 0).
Proof. unfold k_scatter_matrix_n2_r0. scatter_tac. Qed.
Lemma scatter_inst_2_r1 (O : AR) : @k_scatter_matrix_n2_r1 NumR O = lower_arr (@scatter NumR (grains_arr 2 O) 1).
Proof. unfold k_scatter_matrix_n2_r1. scatter_tac. Qed.
Lemma scatter_inst_2_r2 (O : AR) : @k_scatter_matrix_n2_r2 NumR O = lower_arr (@scatter NumR (grains_arr 2 O) 2).
Proof. unfold k_scatter_matrix_n2_r2. scatter_tac. Qed.
Lemma scatter_inst_3_r0 (O : AR) : @k_scatter_matrix_n3_r0 NumR O = lower_arr (@scatter NumR (grains_arr 3 O) 0).
Proof. unfold k_scatter_matrix_n3_r0. scatter_tac. Qed.
Lemma scatter_inst_3_r1 (O : AR) : @k_scatter_matrix_n3_r1 NumR O = lower_arr (@scatter NumR (grains_arr 3 O) 1).
Proof. unfold k_scatter_matrix_n3_r1. scatter_tac. Qed.
Lemma scatter_inst_3_r2 (O : AR) : @k_scatter_matrix_n3_r2 NumR O = lower_arr (@scatter NumR (grains_arr 3 O) 2).
Proof. unfold k_scatter_matrix_n3_r2. scatter_tac. Qed.

(* ------------------------------------------------------------------------- *)
(* axis specifier -> row                                                      *)
(* ------------------------------------------------------------------------- *)
Definition on_axis {X} (axis : Z) (f : nat -> X) : res X :=
  match row_of_axis axis with Err e => Err e | Ok r => Ok (f r) end.

Ltac axis_cases axis :=
  cbv [on_axis row_of_axis];
  destruct (Z.eqb axis 0); [ | destruct (Z.eqb axis 1); [ | destruct (Z.eqb axis 2); [ | reflexivity ] ] ].

Lemma pair3_eq (a a' b b' c c' : R) : a = a' -> b = b' -> c = c' -> (a, b, c) = (a', b', c').
Proof. intros -> -> ->; reflexivity. Qed.
Lemma div_eq (a a' b b' : R) : a = a' -> b = b' -> a / b = a' / b'.
Proof. intros -> ->; reflexivity. Qed.
Ltac quot := first [ reflexivity | (apply div_eq; ring) | ring ].

(* ------------------------------------------------------------------------- *)
(* symmetry_pgr                                                               *)
(* ------------------------------------------------------------------------- *)
Ltac pgr_branch L :=
  solve [ rewrite L; cbv zeta; f_equal;
          cbv [symmetry_pgr ev_lower pgr_of vals_of]; numR; apply pair3_eq; quot ].

Lemma symmetry_pgr_inst_1 (eg : AR -> AR) axis (O : AR) :
  @k_symmetry_pgr_n1 NumR eg axis O = on_axis axis (symmetry_pgr (ev_lower eg) (grains_arr 1 O)).
Proof.
  unfold k_symmetry_pgr_n1. axis_cases axis.
  - pgr_branch scatter_inst_1_r0.
  - pgr_branch scatter_inst_1_r1.
  - pgr_branch scatter_inst_1_r2.
Qed.
Lemma symmetry_pgr_inst_2 (eg : AR -> AR) axis (O : AR) :
  @k_symmetry_pgr_n2 NumR eg axis O = on_axis axis (symmetry_pgr (ev_lower eg) (grains_arr 2 O)).
Proof.
  unfold k_symmetry_pgr_n2. axis_cases axis.
  - pgr_branch scatter_inst_2_r0.
  - pgr_branch scatter_inst_2_r1.
  - pgr_branch scatter_inst_2_r2.
Qed.
Lemma symmetry_pgr_inst_3 (eg : AR -> AR) axis (O : AR) :
  @k_symmetry_pgr_n3 NumR eg axis O = on_axis axis (symmetry_pgr (ev_lower eg) (grains_arr 3 O)).
Proof.
  unfold k_symmetry_pgr_n3. axis_cases axis.
  - pgr_branch scatter_inst_3_r0.
  - pgr_branch scatter_inst_3_r1.
  - pgr_branch scatter_inst_3_r2.
Qed.

(* called without an axis argument: the a-axis *)
Lemma symmetry_pgr_default_inst (eg : AR -> AR) (O : AR) :
  @k_symmetry_pgr_n1_default NumR eg O = symmetry_pgr (ev_lower eg) (grains_arr 1 O) 0.
Proof.
  unfold k_symmetry_pgr_n1_default. rewrite scatter_inst_1_r0; cbv zeta.
  cbv [symmetry_pgr ev_lower pgr_of vals_of]; numR; apply pair3_eq; quot.
Qed.

(* ------------------------------------------------------------------------- *)
(* coaxial_index                                                              *)
(* ------------------------------------------------------------------------- *)
Definition on_axes {X} (a1 a2 : Z) (f : nat -> nat -> X) : res X :=
  match row_of_axis a1 with
  | Err e => Err e
  | Ok r1 => match row_of_axis a2 with Err e => Err e | Ok r2 => Ok (f r1 r2) end
  end.

Ltac coaxial_tac L :=
  solve [ rewrite !L; cbv [on_axis on_axes];
          repeat match goal with |- context [row_of_axis ?a] => destruct (row_of_axis a) end; try reflexivity;
          cbv [coaxial_index ba_of half];
          repeat match goal with |- context [symmetry_pgr ?e ?o ?r] => destruct (symmetry_pgr e o r) as [[? ?] ?] end;
          f_equal; numR; first [ reflexivity | ring ] ].

Lemma coaxial_index_inst_1 (eg : AR -> AR) a1 a2 (O : AR) :
  @k_coaxial_index_n1 NumR eg a1 a2 O = on_axes a1 a2 (coaxial_index (ev_lower eg) (grains_arr 1 O)).
Proof. unfold k_coaxial_index_n1. coaxial_tac symmetry_pgr_inst_1. Qed.
Lemma coaxial_index_inst_2 (eg : AR -> AR) a1 a2 (O : AR) :
  @k_coaxial_index_n2 NumR eg a1 a2 O = on_axes a1 a2 (coaxial_index (ev_lower eg) (grains_arr 2 O)).
Proof. unfold k_coaxial_index_n2. coaxial_tac symmetry_pgr_inst_2. Qed.
Lemma coaxial_index_inst_3 (eg : AR -> AR) a1 a2 (O : AR) :
  @k_coaxial_index_n3 NumR eg a1 a2 O = on_axes a1 a2 (coaxial_index (ev_lower eg) (grains_arr 3 O)).
Proof. unfold k_coaxial_index_n3. coaxial_tac symmetry_pgr_inst_3. Qed.

(* called without axis arguments: axis1 = "b", axis2 = "a" *)
Lemma coaxial_index_default_inst (eg : AR -> AR) (O : AR) :
  @k_coaxial_index_n1_default NumR eg O = Ok (coaxial_index (ev_lower eg) (grains_arr 1 O) 1 0).
Proof.
  unfold k_coaxial_index_n1_default. rewrite !symmetry_pgr_inst_1.
  cbv [on_axis row_of_axis Z.eqb Pos.eqb coaxial_index ba_of half].
  repeat match goal with |- context [symmetry_pgr ?e ?o ?r] => destruct (symmetry_pgr e o r) as [[? ?] ?] end.
  f_equal; numR; first [ reflexivity | ring ].
Qed.

(* ------------------------------------------------------------------------- *)
(* bingham_average                                                            *)
(* ------------------------------------------------------------------------- *)
Ltac bingham_body :=
  cbv [bingham_average eh_lower normalize norm3 dot3 last_vec cols_of_arr flat3 vx vy vz];
  match goal with |- context [?eg (lower_arr ?S)] => destruct (eg (lower_arr S)) as [? ?] end;
  cbv beta iota; cbv [fst snd]; first [ apply arr_eq | (apply f_equal; apply arr_eq) ]; numR;
  list_eq ltac:(first [ reflexivity | (apply div_eq; [ reflexivity | f_equal; ring ]) ]).

Ltac bingham_branch L := solve [ rewrite L; cbv zeta; bingham_body ].

Lemma bingham_average_inst_1 (eg : AR -> AR * AR) axis (O : AR) :
  @k_bingham_average_n1 NumR eg axis O =
  on_axis axis (fun r => A (flat3 (bingham_average (eh_lower eg) (grains_arr 1 O) r))).
Proof.
  unfold k_bingham_average_n1. axis_cases axis.
  - bingham_branch scatter_inst_1_r0.
  - bingham_branch scatter_inst_1_r1.
  - bingham_branch scatter_inst_1_r2.
Qed.
Lemma bingham_average_inst_2 (eg : AR -> AR * AR) axis (O : AR) :
  @k_bingham_average_n2 NumR eg axis O =
  on_axis axis (fun r => A (flat3 (bingham_average (eh_lower eg) (grains_arr 2 O) r))).
Proof.
  unfold k_bingham_average_n2. axis_cases axis.
  - bingham_branch scatter_inst_2_r0.
  - bingham_branch scatter_inst_2_r1.
  - bingham_branch scatter_inst_2_r2.
Qed.
Lemma bingham_average_inst_3 (eg : AR -> AR * AR) axis (O : AR) :
  @k_bingham_average_n3 NumR eg axis O =
  on_axis axis (fun r => A (flat3 (bingham_average (eh_lower eg) (grains_arr 3 O) r))).
Proof.
  unfold k_bingham_average_n3. axis_cases axis.
  - bingham_branch scatter_inst_3_r0.
  - bingham_branch scatter_inst_3_r1.
  - bingham_branch scatter_inst_3_r2.
Qed.

Lemma bingham_average_default_inst (eg : AR -> AR * AR) (O : AR) :
  @k_bingham_average_n1_default NumR eg O = A (flat3 (bingham_average (eh_lower eg) (grains_arr 1 O) 0)).
Proof.
  unfold k_bingham_average_n1_default. rewrite scatter_inst_1_r0; cbv zeta. solve [ bingham_body ].
Qed.

(* ------------------------------------------------------------------------- *)
(* finite_strain                                                              *)
(* ------------------------------------------------------------------------- *)
Ltac fse_tac0 Fa :=
  cbv zeta;
  match goal with |- context [?eg (mk_arr _ ?l)] =>
    replace (mk_arr (@nzero NumR) l) with (full_arr (left_cauchy_green (mat_at Fa 0)))
      by (cbv [full_arr left_cauchy_green mat_at vec_at dot3 vx vy vz fst snd Nat.add];
          apply arr_eq; numR; list_eq ltac:(first [ reflexivity | ring ]))
  end;
  cbv [finite_strain eh_full last_val last_vec];
  match goal with |- context [?eg (full_arr ?S)] => destruct (eg (full_arr S)) as [l V] end;
  cbv [fst snd vals_of cols_of_arr flat3 vx vy vz]; numR; reflexivity.
Ltac fse_tac Fa := solve [ fse_tac0 Fa ].

Lemma finite_strain_inst (eg : AR -> AR * AR) (Fa : AR) :
  @k_finite_strain NumR eg Fa =
  let '(v, ax) := finite_strain (eh_full eg) (mat_at Fa 0) in (v, A (flat3 ax)).
Proof. unfold k_finite_strain. fse_tac Fa. Qed.

(* with an explicit driver= argument (passed through to LAPACK): the same function *)
Lemma finite_strain_driver_inst (eg : AR -> AR * AR) (Fa : AR) :
  @k_finite_strain_driver NumR eg Fa =
  let '(v, ax) := finite_strain (eh_full eg) (mat_at Fa 0) in (v, A (flat3 ax)).
Proof. unfold k_finite_strain_driver. fse_tac Fa. Qed.

(* ------------------------------------------------------------------------- *)
(* utils.angle_fse_simpleshear                                                *)
(* ------------------------------------------------------------------------- *)
Lemma angle_fse_simpleshear_inst (s : R) : @k_angle_fse_simpleshear NumR s = @angle_fse_simpleshear NumR s.
Proof.
  unfold k_angle_fse_simpleshear, angle_fse_simpleshear, rad2deg. numR.
  field. apply PI_neq0.
Qed.

(* ------------------------------------------------------------------------- *)
(* arrays built from grain lists                                              *)
(* ------------------------------------------------------------------------- *)
Lemma grains_arr_flat_1 (o1 : M3) : grains_arr 1 (A (flat9 o1)) = [o1].
Proof. dm o1. reflexivity. Qed.
Lemma grains_arr_flat_2 (o1 o2 : M3) : grains_arr 2 (A (flat9 o1 ++ flat9 o2)) = [o1; o2].
Proof. dm o1. dm o2. reflexivity. Qed.
Lemma grains_arr_flat_3 (o1 o2 o3 : M3) : grains_arr 3 (A (flat9 o1 ++ flat9 o2 ++ flat9 o3)) = [o1; o2; o3].
Proof. dm o1. dm o2. dm o3. reflexivity. Qed.
Lemma mat_at_flat (o : M3) : mat_at (A (flat9 o)) 0 = o.
Proof. dm o. reflexivity. Qed.

(* ========================================================================= *)
(* the generated definitions indexed by the number of grains, and what the   *)
(* theorems of Proofs_diag.v say about THEM                                  *)
(* ========================================================================= *)
Definition small (n : nat) : Prop := n = 1%nat \/ n = 2%nat \/ n = 3%nat.

Definition gen_scatter (n r : nat) : AR -> AR :=
  match n, r with
  | 1%nat, 0%nat => @k_scatter_matrix_n1_r0 NumR | 1%nat, 1%nat => @k_scatter_matrix_n1_r1 NumR
  | 1%nat, _ => @k_scatter_matrix_n1_r2 NumR
  | 2%nat, 0%nat => @k_scatter_matrix_n2_r0 NumR | 2%nat, 1%nat => @k_scatter_matrix_n2_r1 NumR
  | 2%nat, _ => @k_scatter_matrix_n2_r2 NumR
  | _, 0%nat => @k_scatter_matrix_n3_r0 NumR | _, 1%nat => @k_scatter_matrix_n3_r1 NumR
  | _, _ => @k_scatter_matrix_n3_r2 NumR
  end.
Definition gen_pgr (n : nat) : (AR -> AR) -> Z -> AR -> res (R * R * R) :=
  match n with 1%nat => @k_symmetry_pgr_n1 NumR | 2%nat => @k_symmetry_pgr_n2 NumR | _ => @k_symmetry_pgr_n3 NumR end.
Definition gen_coaxial (n : nat) : (AR -> AR) -> Z -> Z -> AR -> res R :=
  match n with 1%nat => @k_coaxial_index_n1 NumR | 2%nat => @k_coaxial_index_n2 NumR | _ => @k_coaxial_index_n3 NumR end.
Definition gen_bingham (n : nat) : (AR -> AR * AR) -> Z -> AR -> res AR :=
  match n with 1%nat => @k_bingham_average_n1 NumR | 2%nat => @k_bingham_average_n2 NumR | _ => @k_bingham_average_n3 NumR end.

Ltac small_cases H := destruct H as [-> | [-> | ->]].
Lemma Ok_inj {X} (a b : X) : Ok a = Ok b -> a = b.
Proof. intros H; injection H; auto. Qed.

Theorem gen_scatter_is_model n r (O : AR) : small n -> (r < 3)%nat ->
  gen_scatter n r O = lower_arr (@scatter NumR (grains_arr n O) r).
Proof.
  intros Hn Hr. small_cases Hn; (destruct r as [|[|[|r]]]; [ | | | exfalso; lia ]); cbn [gen_scatter].
  - apply scatter_inst_1_r0. - apply scatter_inst_1_r1. - apply scatter_inst_1_r2.
  - apply scatter_inst_2_r0. - apply scatter_inst_2_r1. - apply scatter_inst_2_r2.
  - apply scatter_inst_3_r0. - apply scatter_inst_3_r1. - apply scatter_inst_3_r2.
Qed.

Theorem gen_pgr_is_model n (eg : AR -> AR) axis (O : AR) : small n ->
  gen_pgr n eg axis O = on_axis axis (symmetry_pgr (ev_lower eg) (grains_arr n O)).
Proof.
  intros Hn. small_cases Hn; cbn [gen_pgr].
  - apply symmetry_pgr_inst_1. - apply symmetry_pgr_inst_2. - apply symmetry_pgr_inst_3.
Qed.

Theorem gen_coaxial_is_model n (eg : AR -> AR) a1 a2 (O : AR) : small n ->
  gen_coaxial n eg a1 a2 O = on_axes a1 a2 (coaxial_index (ev_lower eg) (grains_arr n O)).
Proof.
  intros Hn. small_cases Hn; cbn [gen_coaxial].
  - apply coaxial_index_inst_1. - apply coaxial_index_inst_2. - apply coaxial_index_inst_3.
Qed.

Theorem gen_bingham_is_model n (eg : AR -> AR * AR) axis (O : AR) : small n ->
  gen_bingham n eg axis O =
  on_axis axis (fun r => A (flat3 (bingham_average (eh_lower eg) (grains_arr n O) r))).
Proof.
  intros Hn. small_cases Hn; cbn [gen_bingham].
  - apply bingham_average_inst_1. - apply bingham_average_inst_2. - apply bingham_average_inst_3.
Qed.

Theorem gen_defaults (ev : AR -> AR) (eh : AR -> AR * AR) (O Fa : AR) :
  Ok (@k_symmetry_pgr_n1_default NumR ev O) = gen_pgr 1 ev 0 O /\
  @k_coaxial_index_n1_default NumR ev O = gen_coaxial 1 ev 1 0 O /\
  Ok (@k_bingham_average_n1_default NumR eh O) = gen_bingham 1 eh 0 O /\
  @k_finite_strain_driver NumR eh Fa = @k_finite_strain NumR eh Fa.
Proof.
  split; [ | split; [ | split ] ].
  - rewrite symmetry_pgr_default_inst. cbn [gen_pgr]. rewrite symmetry_pgr_inst_1. reflexivity.
  - rewrite coaxial_index_default_inst. cbn [gen_coaxial]. rewrite coaxial_index_inst_1. reflexivity.
  - rewrite bingham_average_default_inst. cbn [gen_bingham]. rewrite bingham_average_inst_1. reflexivity.
  - rewrite finite_strain_driver_inst, finite_strain_inst. reflexivity.
Qed.

(* ---- the axis specifier: "a" "b" "c" (0 1 2) select rows 0 1 2, anything else is ValueError ---- *)
Lemma row_of_axis_cases axis :
  (axis = 0%Z /\ row_of_axis axis = Ok 0%nat) \/ (axis = 1%Z /\ row_of_axis axis = Ok 1%nat) \/
  (axis = 2%Z /\ row_of_axis axis = Ok 2%nat) \/
  (axis <> 0%Z /\ axis <> 1%Z /\ axis <> 2%Z /\ row_of_axis axis = Err ValueError).
Proof.
  unfold row_of_axis.
  destruct (Z.eqb_spec axis 0); [ left; split; [assumption|reflexivity] | ].
  destruct (Z.eqb_spec axis 1); [ right; left; split; [assumption|reflexivity] | ].
  destruct (Z.eqb_spec axis 2); [ right; right; left; split; [assumption|reflexivity] | ].
  right; right; right. repeat split; assumption.
Qed.

Theorem gen_axis_letters n (ev : AR -> AR) (eh : AR -> AR * AR) axis axis' (O : AR) : small n ->
  (axis <> 0%Z -> axis <> 1%Z -> axis <> 2%Z ->
     gen_pgr n ev axis O = Err ValueError /\ gen_bingham n eh axis O = Err ValueError /\
     gen_coaxial n ev axis axis' O = Err ValueError /\
     (axis' = 0%Z \/ axis' = 1%Z \/ axis' = 2%Z -> gen_coaxial n ev axis' axis O = Err ValueError)) /\
  (forall r, (r < 3)%nat ->
     gen_pgr n ev (Z.of_nat r) O = Ok (symmetry_pgr (ev_lower ev) (grains_arr n O) r) /\
     gen_bingham n eh (Z.of_nat r) O = Ok (A (flat3 (bingham_average (eh_lower eh) (grains_arr n O) r)))).
Proof.
  intros Hn. split.
  - intros H0 H1 H2.
    rewrite gen_pgr_is_model, gen_bingham_is_model, !gen_coaxial_is_model by assumption.
    destruct (row_of_axis_cases axis) as [[E _]|[[E _]|[[E _]|(_ & _ & _ & E)]]]; try contradiction.
    cbv [on_axis on_axes]. rewrite E. repeat split.
    intros [ -> | [ -> | -> ] ]; reflexivity.
  - intros r Hr. rewrite gen_pgr_is_model, gen_bingham_is_model by assumption.
    destruct r as [|[|[|r]]]; [ | | | exfalso; lia ]; split; reflexivity.
Qed.

(* ---- P, G, R of the generated code ---- *)
Theorem gen_pgr_sum_range n (eg : AR -> AR) axis (O : AR) P G Rn : small n ->
  let os := grains_arr n O in
  Forall unit_rows os ->
  (forall r, row_of_axis axis = Ok r -> vals_spec (scatter os r) (ev_lower eg (scatter os r))) ->
  gen_pgr n eg axis O = Ok (P, G, Rn) ->
  P + G + Rn = 1 /\ in01 P /\ in01 G /\ in01 Rn.
Proof.
  intros Hn os Hu Hs. rewrite gen_pgr_is_model by assumption. unfold on_axis.
  destruct (row_of_axis axis) as [r|e]; [ | discriminate ].
  intros E. apply Ok_inj in E.
  assert (Hne : os <> []) by (subst os; small_cases Hn; discriminate).
  pose proof (pgr_sum_range (ev_lower eg) os r Hne Hu (Hs r eq_refl)) as Hp.
  fold os in E. rewrite E in Hp. exact Hp.
Qed.

Theorem gen_pgr_invariant n (eg eg' : AR -> AR) axis (O O' : AR) : small n ->
  let os := grains_arr n O in let os' := grains_arr n O' in
  equivalent_texture os os' ->
  (forall r, row_of_axis axis = Ok r -> vals_spec (scatter os r) (ev_lower eg (scatter os r))) ->
  (forall r, row_of_axis axis = Ok r -> vals_spec (scatter os' r) (ev_lower eg' (scatter os' r))) ->
  gen_pgr n eg' axis O' = gen_pgr n eg axis O.
Proof.
  intros Hn os os' He Hs Hs'. rewrite !gen_pgr_is_model by assumption. unfold on_axis.
  destruct (row_of_axis axis) as [r|e]; [ | reflexivity ].
  f_equal. apply pgr_invariant; auto.
Qed.

Theorem gen_coaxial_range_invariant n (eg eg' : AR -> AR) a1 a2 (O O' : AR) ba : small n ->
  let os := grains_arr n O in let os' := grains_arr n O' in
  Forall unit_rows os ->
  (forall r, row_of_axis a1 = Ok r \/ row_of_axis a2 = Ok r ->
     vals_spec (scatter os r) (ev_lower eg (scatter os r)) /\ anisotropic (ev_lower eg (scatter os r))) ->
  gen_coaxial n eg a1 a2 O = Ok ba ->
  in01 ba /\
  (equivalent_texture os os' ->
   (forall r, row_of_axis a1 = Ok r \/ row_of_axis a2 = Ok r ->
      vals_spec (scatter os' r) (ev_lower eg' (scatter os' r))) ->
   gen_coaxial n eg' a1 a2 O' = Ok ba).
Proof.
  intros Hn os os' Hu Hs. rewrite !gen_coaxial_is_model by assumption. unfold on_axes.
  destruct (row_of_axis a1) as [r1|e]; [ | discriminate ].
  destruct (row_of_axis a2) as [r2|e]; [ | discriminate ].
  intros E. apply Ok_inj in E.
  assert (Hne : os <> []) by (subst os; small_cases Hn; discriminate).
  destruct (Hs r1 (or_introl eq_refl)) as [V1 A1]. destruct (Hs r2 (or_intror eq_refl)) as [V2 A2].
  split.
  - rewrite <- E. apply coaxial_range; auto.
  - intros He Hs'. f_equal. rewrite <- E. apply coaxial_invariant; auto.
Qed.

(* ---- the Bingham mean of the generated code ---- *)
Theorem gen_bingham_principal n (eg : AR -> AR * AR) axis (O b : AR) : small n ->
  let os := grains_arr n O in
  (forall r, row_of_axis axis = Ok r -> eig_spec (scatter os r) (eh_lower eg (scatter os r))) ->
  gen_bingham n eg axis O = Ok b ->
  exists r, row_of_axis axis = Ok r /\
    let S := scatter os r in let v := vec_at b 0 in
    b = A (flat3 v) /\ dot3 v v = 1 /\
    v = last_vec (eh_lower eg S) /\ symv S v = scale3 (last_val (eh_lower eg S)) v /\
    (forall x, charpoly S x = 0 -> x <= last_val (eh_lower eg S)) /\
    (forall u : V3, dot3 u u = 1 -> qf S u <= qf S v).
Proof.
  intros Hn os Hs. rewrite gen_bingham_is_model by assumption. unfold on_axis.
  destruct (row_of_axis axis) as [r|e]; [ | discriminate ].
  intros E. apply Ok_inj in E. exists r. split; [reflexivity|].
  pose proof (bingham_is_principal (eh_lower eg) os r (Hs r eq_refl)) as (B1 & B2 & B3 & B4).
  pose proof (bingham_unit (eh_lower eg) os r (Hs r eq_refl)) as B0. cbv zeta in B0.
  fold os in E.
  assert (Ev : vec_at b 0 = bingham_average (eh_lower eg) os r).
  { rewrite <- E. destruct (bingham_average (eh_lower eg) os r) as [[x y] z]. reflexivity. }
  cbv zeta. rewrite Ev. repeat split; try assumption. symmetry; exact E.
Qed.

Theorem gen_bingham_corotates n (eg eg' : AR -> AR * AR) axis (Q : M3) (O O' b b' : AR) : small n ->
  let os := grains_arr n O in let os' := grains_arr n O' in
  orthogonal Q -> os' = map (rotate_frame Q) os ->
  (forall r, row_of_axis axis = Ok r ->
     eig_spec (scatter os r) (eh_lower eg (scatter os r)) /\
     eig_spec (scatter os' r) (eh_lower eg' (scatter os' r)) /\
     simple_top (eh_lower eg (scatter os r))) ->
  gen_bingham n eg axis O = Ok b -> gen_bingham n eg' axis O' = Ok b' ->
  up_to_sign (vec_at b' 0) (mulv Q (vec_at b 0)).
Proof.
  intros Hn os os' HQ Hos Hs. rewrite !gen_bingham_is_model by assumption. unfold on_axis.
  destruct (row_of_axis axis) as [r|e]; [ | discriminate ].
  destruct (Hs r eq_refl) as (Hs1 & Hs' & Ht).
  intros E E'. apply Ok_inj in E. apply Ok_inj in E'.
  fold os in E. fold os' in E'.
  assert (Ev : vec_at b 0 = bingham_average (eh_lower eg) os r).
  { rewrite <- E. destruct (bingham_average (eh_lower eg) os r) as [[x y] z]. reflexivity. }
  assert (Ev' : vec_at b' 0 = bingham_average (eh_lower eg') os' r).
  { rewrite <- E'. destruct (bingham_average (eh_lower eg') os' r) as [[x y] z]. reflexivity. }
  rewrite Ev, Ev'. revert Hs'. rewrite Hos.
  intros H'. apply bingham_corotates; auto.
Qed.

(* ---- finite strain of the generated code ---- *)
Theorem gen_fse_value (eg : AR -> AR * AR) (Fa : AR) :
  let Fm := mat_at Fa 0 in let B := left_cauchy_green Fm in
  eig_spec B (eh_full eg B) ->
  let l := last_val (eh_full eg B) in
  let ax := vec_at (snd (@k_finite_strain NumR eg Fa)) 0 in
  fst (@k_finite_strain NumR eg Fa) = sqrt l - 1 /\
  snd (@k_finite_strain NumR eg Fa) = A (flat3 ax) /\
  charpoly B l = 0 /\ (forall x, charpoly B x = 0 -> x <= l) /\
  symv B ax = scale3 l ax /\ dot3 ax ax = 1 /\
  (forall u : V3, dot3 u u = 1 -> dot3 (mulv (transpose Fm) u) (mulv (transpose Fm) u) <= l) /\
  (invertible Fm -> 0 < l).
Proof.
  intros Fm B Hs l ax. subst ax. rewrite finite_strain_inst. fold Fm.
  pose proof (fse_value (eh_full eg) Fm Hs) as (E & C1 & C2 & C3 & C4 & _ & C6 & _ & C8).
  fold B in E. rewrite E. cbn [fst snd].
  assert (Ev : vec_at (A (flat3 (last_vec (eh_full eg B)))) 0 = last_vec (eh_full eg B)).
  { destruct (last_vec (eh_full eg B)) as [[x y] z]. reflexivity. }
  rewrite Ev. repeat split; assumption.
Qed.

(* ---- non-vacuity: one grain aligned with the frame, a-axis, an explicit array-level oracle ---- *)
Definition ex_eg : AR -> AR * AR := fun _ => (A [0; 0; 1], A [0; 0; 1; 1; 0; 0; 0; 1; 0]).
Definition ex_ev : AR -> AR := fun _ => A [0; 0; 1].

Lemma nonvacuous_gen :
  small 1 /\ small 2 /\ small 3 /\
  grains_arr 1 (A (flat9 I3)) = [I3] /\ Forall unit_rows (grains_arr 1 (A (flat9 I3))) /\
  (forall r, row_of_axis 0 = Ok r ->
     eig_spec (scatter [I3] r) (eh_lower ex_eg (scatter [I3] r)) /\ simple_top (eh_lower ex_eg (scatter [I3] r))) /\
  (forall r, row_of_axis 0 = Ok r \/ row_of_axis 0 = Ok r ->
     vals_spec (scatter [I3] r) (ev_lower ex_ev (scatter [I3] r)) /\ anisotropic (ev_lower ex_ev (scatter [I3] r))) /\
  equivalent_texture [I3] (map (rotate_frame I3) [I3]) /\
  (exists v, gen_pgr 1 ex_ev 0 (A (flat9 I3)) = Ok v) /\
  (exists b, gen_bingham 1 ex_eg 0 (A (flat9 I3)) = Ok b) /\
  (exists c, gen_coaxial 1 ex_ev 0 0 (A (flat9 I3)) = Ok c).
Proof.
  destruct nonvacuous_diag as (_ & Hu & Ho & _ & He & Ht & Ha & _).
  assert (Hr : forall r, row_of_axis 0 = Ok r -> r = 0%nat).
  { intros r H. cbv in H. injection H; auto. }
  split; [left; reflexivity|]. split; [right; left; reflexivity|]. split; [right; right; reflexivity|].
  split; [apply grains_arr_flat_1|]. split; [rewrite grains_arr_flat_1; exact Hu|].
  split. { intros r H. rewrite (Hr r H). split; [exact He|exact Ht]. }
  split. { intros r [H|H]; rewrite (Hr r H); (split; [ | exact Ha ]);
           change (ev_lower ex_ev (scatter [I3] 0)) with (fst ex_eig);
           destruct He as (V & _); exact V. }
  split; [apply eqv_frame; exact Ho|].
  split; [eexists; rewrite gen_pgr_is_model by (left; reflexivity); reflexivity|].
  split; [eexists; rewrite gen_bingham_is_model by (left; reflexivity); reflexivity|].
  eexists; rewrite gen_coaxial_is_model by (left; reflexivity); reflexivity.
Qed.
