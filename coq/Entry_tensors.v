(* Entry_tensors.v -- flat-list entry points (list F -> res (list F)) of the generated
   pydrex.tensors kernels and of the hand-written models Model_voigt / Model_decomp, used
   by the extracted OCaml driver for the correspondence runs. *)
From Coq Require Import ZArith List Bool Arith.
From PV Require Import Num Model_voigt Model_decomp Model_decomp_series.
From PV.gen Require Import Gen_tensors Gen_polar.
Import ListNotations.

Section Entry.
  Context {F : Num}.
  Definition aol (l : list F) : arr F := mk_arr zero l.
  Definition take (k : nat) (st : list F) : list F * list F := (firstn k st, skipn k st).
  Definition need (n : nat) (xs : list F) (k : arr F -> res (list F)) : res (list F) :=
    if Nat.eqb (length xs) n then k (aol xs) else Err OtherError.
  Definition out (n : nat) (a : arr F) : res (list F) := Ok (arr_to_list n a).
  Definition outr (n : nat) (r : res (arr F)) : res (list F) :=
    match r with Ok a => Ok (arr_to_list n a) | Err e => Err e end.

  Definition run_invariants xs := need 9 xs (fun a =>
    let '(i1, i2, i3) := k_invariants_second_order a in Ok [i1; i2; i3]).
  Definition run_decompose xs := need 36 xs (fun a =>
    let '(d, v) := k_voigt_decompose a in Ok (arr_to_list 9 d ++ arr_to_list 9 v)).
  Definition run_mono xs := need 21 xs (fun a => out 21 (k_mono_project a)).
  Definition run_ortho xs := need 21 xs (fun a => out 21 (k_ortho_project a)).
  Definition run_tetr xs := need 21 xs (fun a => out 21 (k_tetr_project a)).
  Definition run_hex xs := need 21 xs (fun a => outr 21 (k_hex_project a)).
  Definition run_upper3 xs := need 9 xs (fun a => out 9 (k_upper_tri_to_symmetric_3 a)).
  Definition run_upper6 xs := need 36 xs (fun a => out 36 (k_upper_tri_to_symmetric_6 a)).
  Definition run_vte xs := need 36 xs (fun a => out 81 (k_voigt_to_elastic_tensor a)).
  Definition run_etv xs := need 81 xs (fun a => out 36 (k_elastic_tensor_to_voigt a)).
  Definition run_m2v xs := need 36 xs (fun a => out 21 (k_voigt_matrix_to_vector a)).
  Definition run_v2m xs := need 21 xs (fun a => outr 36 (k_voigt_vector_to_matrix a)).
  Definition run_rotate (xs : list F) : res (list F) :=
    if Nat.eqb (length xs) 90 then
      let '(t, r) := take 81 xs in out 81 (rotate4 (aol t) (aol r))
    else Err OtherError.
  (* polar_decompose over the recorded SVD:  M(9) U(9) S(3) Vh(9) -- the GENERATED definitions of
     Gen_polar (tie T); Inst_polar.polar_left_inst / polar_right_inst equate them with
     Model_decomp.polar_left / polar_right, on which the theorems are stated *)
  Definition run_polar_left (xs : list F) : res (list F) :=
    if Nat.eqb (length xs) 30 then
      let '(m, r0) := take 9 xs in let '(u, r) := take 9 r0 in let '(s, vh) := take 3 r in
      let '(R, P) := k_polar_decompose_left (aol m) (aol u) (aol s) (aol vh) in
      Ok (arr_to_list 9 R ++ arr_to_list 9 P)
    else Err OtherError.
  Definition run_polar_right (xs : list F) : res (list F) :=
    if Nat.eqb (length xs) 30 then
      let '(m, r0) := take 9 xs in let '(u, r) := take 9 r0 in let '(s, vh) := take 3 r in
      match k_polar_decompose_right (aol m) (aol u) (aol s) (aol vh) with
      | Err e => Err e
      | Ok (R, Um) => Ok (arr_to_list 9 R ++ arr_to_list 9 Um)
      end
    else Err OtherError.

  (* ---- pydrex.minerals.voigt_averages ----
     ints : nm na np nt, assemblage(na), then per mineral: phase n_grains n_orient_snaps n_frac_snaps grains_per_snapshot
     floats: phis(np), tensors(36 each, phase-ordinal order), per mineral: orientations, fractions *)
  Fixpoint chunksL {A} (w n : nat) (l : list A) : list (list A) :=
    match n with O => [] | S n' => firstn w l :: chunksL w n' (skipn w l) end.

  Fixpoint parse_minerals (hdr : list Z) (xs : list F) : list mineral :=
    match hdr with
    | ph :: ng :: nos :: nfs :: gsz :: hdr' =>
        let gs := Z.to_nat gsz in let no := Z.to_nat nos in let nf := Z.to_nat nfs in
        let os := map (fun snap => map aol (chunksL 9 gs snap)) (chunksL (gs * 9) no xs) in
        let xs1 := skipn (no * gs * 9) xs in
        let fs := chunksL gs nf xs1 in
        mkMineral ph (Z.to_nat ng) os fs :: parse_minerals hdr' (skipn (nf * gs) xs1)
    | _ => []
    end.

  Definition run_voigt (is : list Z) (xs : list F) : res (list F) :=
    match is with
    | nm :: na :: np :: nt :: rest =>
        let na := Z.to_nat na in let np := Z.to_nat np in let nt := Z.to_nat nt in
        let asm := firstn na rest in
        let hdr := skipn na rest in
        let phis := firstn np xs in
        let tensors := map aol (chunksL 36 nt (skipn np xs)) in
        let ms := parse_minerals hdr (skipn (np + 36 * nt) xs) in
        match voigt_averages ms asm phis tensors with
        | Err e => Err e
        | Ok r => Ok (flat_map (arr_to_list 36) r)
        end
    | _ => Err OtherError
    end.

  (* pydrex.diagnostics.elasticity_components for one matrix: M(36) Ed(9) Ev(9) *)
  Definition run_decomp (xs : list F) : res (list F) :=
    if Nat.eqb (length xs) 54 then
      let '(m, r) := take 36 xs in let '(ed, ev) := take 9 r in
      elasticity_components1 (aol m) (aol ed) (aol ev)
    else Err OtherError.

  (* pydrex.diagnostics.elasticity_components for a series of n matrices: n x [M(36) Ed(9) Ev(9)];
     output: per row a flag (1 = row written, 0 = row left as allocated) followed by the 11 values *)
  Definition parse_ecin (xs : list F) : ecin :=
    let '(m, r) := take 36 xs in let '(ed, ev) := take 9 r in (aol m, aol ed, aol ev).
  Definition flat_row (r : ecrow) : list F :=
    match r with Some l => one :: l | None => zero :: repeat zero 11 end.
  Definition run_decomp_series (xs : list F) : res (list F) :=
    let n := Nat.div (length xs) 54 in
    if Nat.eqb (length xs) (n * 54) then
      match elasticity_components_series (map parse_ecin (chunksL 54 n xs)) with
      | Err e => Err e
      | Ok tab => Ok (flat_map flat_row tab)
      end
    else Err OtherError.
End Entry.
