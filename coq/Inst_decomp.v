(* Inst_decomp.v -- tie T for pydrex.diagnostics.elasticity_components (C12), part 3: the whole function.
   coq/gen/Gen_decomp.v is regenerated on every run from the real function over the `eigh` ORACLE, which stays a
   function parameter of the generated definitions (translator/specs_decomp.py):
     k_ec_row eigh M                       one pass of the loop over the series (K, G, isotropic vector, percent
                                           anisotropy, the two eigh calls, the three calls of the pairing-loop
                                           iterations, the three candidate frames, the nested projections, the
                                           strict-< selection, the row written to the nine output arrays)
     k_elasticity_components_n1 / _n2      the public function on a series of one / two matrices
   Kernel-checked instance lemmas, for ALL matrices and ALL oracles (no hypothesis on eigh):
     ec_row_inst   k_ec_row eigh M = enc_row (elasticity_components1_chk M Ed Ev)   with
                   (d, v) = voigt_decompose(upper_tri_to_symmetric M), Ed = eigh(d)[1], Ev = eigh(v)[1]
                   -- which matrix each eigh call is applied to, and that only its eigenvector matrix is used, is part
                   of the statement;
     ec_n1_inst, ec_n2_inst   the series functions = Model_decomp_series.elasticity_components_series on the one /
                   two entries (when smallest_angle does not raise, i.e. no eigenvector column is the zero vector).
   No tactic mentions a generated variable name. *)
From Coq Require Import Reals ZArith List Bool Lra Lia.
From PV Require Import Num NumR Model_voigt Model_decomp Proofs_tensors_alg Inst_tensors Inst_decomp_base
  Inst_decomp_seg0 Inst_decomp_seg1 Inst_decomp_seg2.
From PV.gen Require Import Gen_tensors Gen_decomp.
Import ListNotations.
Open Scope R_scope.

Definition enc_row (r : res (list R)) : res (arr R * arr R) :=
  match r with
  | Ok l => Ok (mk_arr 0 [1], mk_arr 0 l)
  | Err NonFinite => Ok (mk_arr 0 [0], mk_arr 0 [0; 0; 0; 0; 0; 0; 0; 0; 0; 0; 0])
  | Err e => Err e
  end.

Lemma rot_aeq (T Q : arr NumR) n : (n < 81)%nat -> @rotate4 NumR T Q n = @k_rotate NumR T Q n.
Proof.
  intros Hn. pose proof (rotate4_is_k_rotate T Q) as H. unfold eq4b, t4 in H.
  replace n with (27 * (n / 27) + 9 * ((n / 9) mod 3) + 3 * ((n / 3) mod 3) + n mod 3)%nat at 1 2.
  - apply H.
    + apply Nat.div_lt_upper_bound; lia.
    + apply Nat.mod_upper_bound; lia.
    + apply Nat.mod_upper_bound; lia.
    + apply Nat.mod_upper_bound; lia.
  - clear H. do 81 (destruct n as [|n]; [reflexivity|]). lia.
Qed.

Lemma etv_ext (a b : arr NumR) : (forall n, (n < 81)%nat -> a n = b n) ->
  @k_elastic_tensor_to_voigt NumR a = @k_elastic_tensor_to_voigt NumR b.
Proof.
  intros H. cbv beta delta [k_elastic_tensor_to_voigt]. rewrite !H by lia. reflexivity.
Qed.
Lemma etv_rot (T Q : arr NumR) :
  @k_elastic_tensor_to_voigt NumR (@rotate4 NumR T Q) = @k_elastic_tensor_to_voigt NumR (@k_rotate NumR T Q).
Proof. apply etv_ext, rot_aeq. Qed.

Lemma norm21_expl (a : arr NumR) :
  @norm21 NumR a = sqrt (a 0%nat * a 0%nat + a 1%nat * a 1%nat + a 2%nat * a 2%nat + a 3%nat * a 3%nat + a 4%nat * a 4%nat + a 5%nat * a 5%nat + a 6%nat * a 6%nat
    + a 7%nat * a 7%nat + a 8%nat * a 8%nat + a 9%nat * a 9%nat + a 10%nat * a 10%nat + a 11%nat * a 11%nat + a 12%nat * a 12%nat + a 13%nat * a 13%nat + a 14%nat * a 14%nat
    + a 15%nat * a 15%nat + a 16%nat * a 16%nat + a 17%nat * a 17%nat + a 18%nat * a 18%nat + a 19%nat * a 19%nat + a 20%nat * a 20%nat).
Proof. cbv [norm21 fold_left seq]. numR. f_equal. ring. Qed.

Lemma norm21_vsub_expl (a b : arr NumR) :
  @norm21 NumR (vsub21 a b) = sqrt (
    (a 0%nat - b 0%nat) * (a 0%nat - b 0%nat) + (a 1%nat - b 1%nat) * (a 1%nat - b 1%nat)
  + (a 2%nat - b 2%nat) * (a 2%nat - b 2%nat) + (a 3%nat - b 3%nat) * (a 3%nat - b 3%nat)
  + (a 4%nat - b 4%nat) * (a 4%nat - b 4%nat) + (a 5%nat - b 5%nat) * (a 5%nat - b 5%nat)
  + (a 6%nat - b 6%nat) * (a 6%nat - b 6%nat) + (a 7%nat - b 7%nat) * (a 7%nat - b 7%nat)
  + (a 8%nat - b 8%nat) * (a 8%nat - b 8%nat) + (a 9%nat - b 9%nat) * (a 9%nat - b 9%nat)
  + (a 10%nat - b 10%nat) * (a 10%nat - b 10%nat) + (a 11%nat - b 11%nat) * (a 11%nat - b 11%nat)
  + (a 12%nat - b 12%nat) * (a 12%nat - b 12%nat) + (a 13%nat - b 13%nat) * (a 13%nat - b 13%nat)
  + (a 14%nat - b 14%nat) * (a 14%nat - b 14%nat) + (a 15%nat - b 15%nat) * (a 15%nat - b 15%nat)
  + (a 16%nat - b 16%nat) * (a 16%nat - b 16%nat) + (a 17%nat - b 17%nat) * (a 17%nat - b 17%nat)
  + (a 18%nat - b 18%nat) * (a 18%nat - b 18%nat) + (a 19%nat - b 19%nat) * (a 19%nat - b 19%nat)
  + (a 20%nat - b 20%nat) * (a 20%nat - b 20%nat)).
Proof. cbv [norm21 vsub21 tab21 fold_left seq map mk_arr nth]. numR. f_equal. ring. Qed.

Definition row_eigs (eigh : arr NumR -> arr NumR * arr NumR) (M : arr NumR) : arr NumR * arr NumR :=
  let '(d, v) := @k_voigt_decompose NumR (@k_upper_tri_to_symmetric_6 NumR M) in (snd (eigh d), snd (eigh v)).

Lemma hex_ok (t : arr NumR) : exists h, @k_hex_project NumR t = Ok h.
Proof.
  cbv beta delta [k_hex_project]. cbv zeta.
  destruct (@neqb NumR (@nsqrt NumR (@nofZ NumR 2%Z)) (@nzero NumR)) eqn:E.
  - exfalso. numR. apply Reqb_true in E. pose proof (sqrt_lt_R0 2 ltac:(lra)). lra.
  - eexists; reflexivity.
Qed.

Ltac eqR := first [ reflexivity | ring | (progress f_equal; eqR) ].
Ltac row_elt := cbv [iso_vector trace3 mk_arr nth]; numR; eqR.
Ltac row_leaf :=
  cbv beta iota delta [enc_row];
  first [ reflexivity
        | (f_equal; apply pair_eq2; [ reflexivity | apply mk_arr_eq; repeat (apply cons_eq2; [ timeout 60 row_elt | ]); reflexivity ]) ].

Theorem ec_row_inst (eigh : arr NumR -> arr NumR * arr NumR) (M : arr NumR) :
  @k_ec_row NumR eigh M
  = enc_row (@elasticity_components1_chk NumR M (fst (row_eigs eigh M)) (snd (row_eigs eigh M))).
Proof.
  (* ---- the model side, while the generated term is still folded *)
  unfold row_eigs, elasticity_components1_chk, elasticity_components1, bulk_shear.
  set (vm := @k_upper_tri_to_symmetric_6 NumR M).
  destruct (@k_voigt_decompose NumR vm) as [d v] eqn:Edv.
  destruct (eigh d) as [wd Ed] eqn:Eed. destruct (eigh v) as [wv Ev] eqn:Eev.
  cbv beta iota delta [fst snd].
  unfold angle_raises.
  assert (LHS : @k_ec_row NumR eigh M =
    match (if @sccs_raises NumR Ed Ev 0 then Err DivZero else Ok (@sccs_col NumR Ed Ev 0)) with
    | Err e => Err e | Ok c0 =>
    match (if @sccs_raises NumR Ed Ev 1 then Err DivZero else Ok (@sccs_col NumR Ed Ev 1)) with
    | Err e => Err e | Ok c1 =>
    match (if @sccs_raises NumR Ed Ev 2 then Err DivZero else Ok (@sccs_col NumR Ed Ev 2)) with
    | Err e => Err e | Ok c2 => @k_ec_row NumR eigh M end end end).
  { destruct (@sccs_raises NumR Ed Ev 0) eqn:R0;
    [ | destruct (@sccs_raises NumR Ed Ev 1) eqn:R1; [ | destruct (@sccs_raises NumR Ed Ev 2) eqn:R2 ] ];
    try reflexivity;
    cbv beta delta [k_ec_row]; fold vm; rewrite Edv; cbv beta iota; rewrite Eed, Eev; cbv beta iota;
    rewrite sccs_col_inst_0, ?sccs_col_inst_1, ?sccs_col_inst_2, ?R0, ?R1, ?R2; reflexivity. }
  rewrite LHS; clear LHS.
  destruct (@sccs_raises NumR Ed Ev 0) eqn:R0; [reflexivity|].
  destruct (@sccs_raises NumR Ed Ev 1) eqn:R1; [reflexivity|].
  destruct (@sccs_raises NumR Ed Ev 2) eqn:R2; [reflexivity|].
  cbv beta iota delta [orb].
  set (c0 := @sccs_col NumR Ed Ev 0). set (c1 := @sccs_col NumR Ed Ev 1). set (c2 := @sccs_col NumR Ed Ev 2).
  set (T4 := @k_voigt_to_elastic_tensor NumR vm).
  set (x := @k_voigt_matrix_to_vector NumR vm).
  set (Rt0 := @mk_arr (T NumR) (@nzero NumR) [c0 0%nat; c0 1%nat; c0 2%nat; c1 0%nat; c1 1%nat; c1 2%nat; c2 0%nat; c2 1%nat; c2 2%nat]).
  set (Rt1 := @mk_arr (T NumR) (@nzero NumR) [c1 0%nat; c1 1%nat; c1 2%nat; c2 0%nat; c2 1%nat; c2 2%nat; c0 0%nat; c0 1%nat; c0 2%nat]).
  set (Rt2 := @mk_arr (T NumR) (@nzero NumR) [c2 0%nat; c2 1%nat; c2 2%nat; c0 0%nat; c0 1%nat; c0 2%nat; c1 0%nat; c1 1%nat; c1 2%nat]).
  cbv beta iota zeta delta [fold_left frame_parts].
  change (@sccs_rotation NumR Ed Ev 0) with Rt0.
  change (@sccs_rotation NumR Ed Ev 1) with Rt1.
  change (@sccs_rotation NumR Ed Ev 2) with Rt2.
  fold T4. rewrite (etv_rot T4 Rt0), (etv_rot T4 Rt1), (etv_rot T4 Rt2).
  set (rv0 := @k_voigt_matrix_to_vector NumR (@k_elastic_tensor_to_voigt NumR (@k_rotate NumR T4 Rt0))).
  set (rv1 := @k_voigt_matrix_to_vector NumR (@k_elastic_tensor_to_voigt NumR (@k_rotate NumR T4 Rt1))).
  set (rv2 := @k_voigt_matrix_to_vector NumR (@k_elastic_tensor_to_voigt NumR (@k_rotate NumR T4 Rt2))).
  set (mono0 := @k_mono_project NumR rv0). set (mono1 := @k_mono_project NumR rv1). set (mono2 := @k_mono_project NumR rv2).
  set (ortho0 := @k_ortho_project NumR mono0). set (ortho1 := @k_ortho_project NumR mono1). set (ortho2 := @k_ortho_project NumR mono2).
  set (tetr0 := @k_tetr_project NumR ortho0). set (tetr1 := @k_tetr_project NumR ortho1). set (tetr2 := @k_tetr_project NumR ortho2).
  destruct (hex_ok tetr0) as [hex0 H0]. destruct (hex_ok tetr1) as [hex1 H1]. destruct (hex_ok tetr2) as [hex2 H2].
  rewrite H0, H1, H2.
  cbv beta iota.
  rewrite !norm21_vsub_expl, !norm21_expl.
  (* ---- the generated side *)
  cbv beta iota zeta delta [k_ec_row].
  fold vm. rewrite Edv. cbv beta iota. rewrite Eed, Eev. cbv beta iota.
  rewrite sccs_col_inst_0, sccs_col_inst_1, sccs_col_inst_2, R0, R1, R2.
  cbv beta iota.
  change (@sccs_col NumR Ed Ev 0) with c0. change (@sccs_col NumR Ed Ev 1) with c1. change (@sccs_col NumR Ed Ev 2) with c2.
  fold T4. fold x. fold Rt0. fold Rt1. fold Rt2. fold rv0. fold rv1. fold rv2. fold mono0. fold mono1. fold mono2.
  fold ortho0. fold ortho1. fold ortho2. fold tetr0. fold tetr1. fold tetr2.
  rewrite H0. cbv beta iota. rewrite H1. cbv beta iota. rewrite H2. cbv beta iota.
  clear H0 H1 H2. clearbody rv0 rv1 rv2 mono0 mono1 mono2 ortho0 ortho1 ortho2 tetr0 tetr1 tetr2 x.
  numR.
  repeat (split_if; cbv beta iota).
  all: row_leaf.
Qed.

(* the same with everything spelled out *)
Theorem ec_row_inst_explicit (eigh : arr NumR -> arr NumR * arr NumR) (M : arr NumR) :
  @k_ec_row NumR eigh M
  = let '(d, v) := @k_voigt_decompose NumR (@k_upper_tri_to_symmetric_6 NumR M) in
    match @elasticity_components1_chk NumR M (snd (eigh d)) (snd (eigh v)) with
    | Ok l => Ok (mk_arr 0 [1], mk_arr 0 l)
    | Err NonFinite => Ok (mk_arr 0 [0], mk_arr 0 [0; 0; 0; 0; 0; 0; 0; 0; 0; 0; 0])
    | Err e => Err e
    end.
Proof.
  rewrite ec_row_inst. unfold row_eigs, enc_row.
  destruct (@k_voigt_decompose NumR (@k_upper_tri_to_symmetric_6 NumR M)) as [d v]. reflexivity.
Qed.

(* ---------------------------------------------------------------------- *)
(* the public function on a series of one / two matrices                   *)
(* ---------------------------------------------------------------------- *)
From PV Require Import Model_decomp_series.

Definition enc_rows (rows : list (@ecrow NumR)) : arr R * arr R :=
  (mk_arr 0 (map (fun r : @ecrow NumR => match r with Some _ => 1 | None => 0 end) rows),
   mk_arr 0 (flat_map (fun r : @ecrow NumR => match r with Some l => l | None => repeat 0 11 end) rows)).
Definition enc_series (r : res (list (@ecrow NumR))) : res (arr R * arr R) :=
  match r with Ok rows => Ok (enc_rows rows) | Err e => Err e end.

(* the entry of the series model that the generated code builds for matrix M *)
Definition entry_of (eigh : arr NumR -> arr NumR * arr NumR) (M : arr NumR) : @ecin NumR :=
  (M, fst (row_eigs eigh M), snd (row_eigs eigh M)).
Definition entry_ok (x : @ecin NumR) : Prop := let '(_, Ed, Ev) := x in @angle_raises NumR Ed Ev = false.

Lemma ec1_length (M Ed Ev : arr NumR) l : @elasticity_components1 NumR M Ed Ev = Ok l -> length l = 11%nat.
Proof.
  unfold elasticity_components1. destruct (@bulk_shear NumR _) as [K G].
  cbv beta iota zeta delta [fold_left].
  repeat match goal with
  | |- context [@frame_parts NumR ?a ?b ?c] =>
      destruct (@frame_parts NumR a b c) as [[? [[[[? ?] ?] ?] ?]]|?]; cbv beta iota
  | |- context [if ?c then _ else _] => destruct c; cbv beta iota
  end; intros H; inversion H; reflexivity.
Qed.

Lemma row_of_entry eigh M : entry_ok (entry_of eigh M) ->
  @k_ec_row NumR eigh M = enc_row (@ec1 NumR (entry_of eigh M)).
Proof.
  unfold entry_ok, entry_of, ec1. intros H. rewrite ec_row_inst. unfold elasticity_components1_chk.
  rewrite H. reflexivity.
Qed.

Theorem ec_n1_inst eigh M0 : entry_ok (entry_of eigh M0) ->
  @k_elasticity_components_n1 NumR eigh M0 = enc_series (@elasticity_components_series NumR [entry_of eigh M0]).
Proof.
  intros H0. cbv beta delta [k_elasticity_components_n1]. rewrite (row_of_entry _ _ H0).
  unfold elasticity_components_series.
  cbv beta iota delta [length seq combine fold_left series_step repeat upd fst snd].
  destruct (@ec1 NumR (entry_of eigh M0)) as [l0|e0].
  - cbv beta iota delta [enc_row enc_series enc_rows map flat_map]. rewrite app_nil_r. reflexivity.
  - destruct e0; reflexivity.
Qed.

Ltac explode11 l H := apply ec1_length in H;
  do 11 (destruct l as [|? l]; [discriminate H|]); destruct l; [|discriminate H].

Theorem ec_n2_inst eigh M0 M1 : entry_ok (entry_of eigh M0) -> entry_ok (entry_of eigh M1) ->
  @k_elasticity_components_n2 NumR eigh M0 M1
  = enc_series (@elasticity_components_series NumR [entry_of eigh M0; entry_of eigh M1]).
Proof.
  intros H0 H1. cbv beta delta [k_elasticity_components_n2].
  rewrite (row_of_entry _ _ H0), (row_of_entry _ _ H1).
  unfold elasticity_components_series.
  cbv beta iota delta [length seq combine fold_left series_step repeat upd fst snd].
  unfold ec1 at 1 3. unfold entry_of at 1 3.
  destruct (@elasticity_components1 NumR M0 _ _) as [l0|e0] eqn:E0.
  - explode11 l0 E0.
    unfold ec1, entry_of.
    destruct (@elasticity_components1 NumR M1 _ _) as [l1|e1] eqn:E1.
    + explode11 l1 E1. reflexivity.
    + destruct e1; reflexivity.
  - destruct e0; try reflexivity.
    unfold ec1, entry_of.
    destruct (@elasticity_components1 NumR M1 _ _) as [l1|e1] eqn:E1.
    + explode11 l1 E1. reflexivity.
    + destruct e1; reflexivity.
Qed.

Theorem ec_series_inst (eigh : arr NumR -> arr NumR * arr NumR) (M0 M1 : arr NumR) :
  entry_ok (entry_of eigh M0) ->
  @k_elasticity_components_n1 NumR eigh M0 = enc_series (@elasticity_components_series NumR [entry_of eigh M0]) /\
  (entry_ok (entry_of eigh M1) ->
   @k_elasticity_components_n2 NumR eigh M0 M1
   = enc_series (@elasticity_components_series NumR [entry_of eigh M0; entry_of eigh M1])).
Proof. intros H0. split; [apply ec_n1_inst, H0 | intros H1; apply ec_n2_inst; assumption]. Qed.
