(* Inst_density_all.v -- the generated point_density definitions of gen/Gen_density.v as ONE family, and the
   C20 density theorems about every member of it (the list-model theorems of Proofs_density.v transported
   through the instance lemmas). *)
From Coq Require Import Reals ZArith List Bool Lra Lia Permutation.
From PV Require Import Num NumR Model_density Proofs_geometry Proofs_density Inst_density Inst_density_kamb Inst_density_exp Inst_density_inv.
From PV.gen Require Import Gen_geometry Gen_density.
Import ListNotations.
Open Scope R_scope.

(* `generated_density k axial g n gen`: gen is the definition regenerated from point_density(x, y, z, gridsteps=g,
   weights=w, kernel=<k>, axial=<axial>[, σ=sigma]) for n data vectors (k: 0 kamb_count, 1 schmidt_count,
   2 exponential_kamb, 3 linear_inverse_kamb, 4 square_inverse_kamb); schmidt_count has no failing path, its
   definitions are wrapped in Ok *)
Inductive generated_density : Z -> bool -> nat -> nat ->
    (arr R -> arr R -> arr R -> R -> R -> res (arr R * arr R * arr R)) -> Prop :=
| gd_k0_a1_g2_n1 : generated_density 0 true 2 1 (@k_point_density_k0_a1_g2_n1 NumR)
| gd_k0_a1_g2_n2 : generated_density 0 true 2 2 (@k_point_density_k0_a1_g2_n2 NumR)
| gd_k0_a0_g2_n1 : generated_density 0 false 2 1 (@k_point_density_k0_a0_g2_n1 NumR)
| gd_k0_a0_g2_n2 : generated_density 0 false 2 2 (@k_point_density_k0_a0_g2_n2 NumR)
| gd_k1_a1_g2_n1 : generated_density 1 true 2 1 (fun x y z s w => Ok (@k_point_density_k1_a1_g2_n1 NumR x y z s w))
| gd_k1_a1_g2_n2 : generated_density 1 true 2 2 (fun x y z s w => Ok (@k_point_density_k1_a1_g2_n2 NumR x y z s w))
| gd_k1_a0_g2_n1 : generated_density 1 false 2 1 (fun x y z s w => Ok (@k_point_density_k1_a0_g2_n1 NumR x y z s w))
| gd_k1_a0_g2_n2 : generated_density 1 false 2 2 (fun x y z s w => Ok (@k_point_density_k1_a0_g2_n2 NumR x y z s w))
| gd_k2_a1_g2_n1 : generated_density 2 true 2 1 (@k_point_density_k2_a1_g2_n1 NumR)
| gd_k2_a1_g2_n2 : generated_density 2 true 2 2 (@k_point_density_k2_a1_g2_n2 NumR)
| gd_k2_a0_g2_n1 : generated_density 2 false 2 1 (@k_point_density_k2_a0_g2_n1 NumR)
| gd_k2_a0_g2_n2 : generated_density 2 false 2 2 (@k_point_density_k2_a0_g2_n2 NumR)
| gd_k0_a1_g3_n1 : generated_density 0 true 3 1 (@k_point_density_k0_a1_g3_n1 NumR)
| gd_k1_a1_g3_n1 : generated_density 1 true 3 1 (fun x y z s w => Ok (@k_point_density_k1_a1_g3_n1 NumR x y z s w))
| gd_k2_a1_g3_n1 : generated_density 2 true 3 1 (@k_point_density_k2_a1_g3_n1 NumR)
| gd_k3_a1_g2_n1 : generated_density 3 true 2 1 (@k_point_density_k3_a1_g2_n1 NumR)
| gd_k3_a0_g2_n1 : generated_density 3 false 2 1 (@k_point_density_k3_a0_g2_n1 NumR)
| gd_k4_a1_g2_n1 : generated_density 4 true 2 1 (@k_point_density_k4_a1_g2_n1 NumR)
| gd_k4_a0_g2_n1 : generated_density 4 false 2 1 (@k_point_density_k4_a0_g2_n1 NumR).

Theorem generated_density_is_model k axial g n gen : generated_density k axial g n gen ->
  forall (xs ys zs : RL) (sigma w : R),
    length xs = n -> length ys = n -> length zs = n -> sigma <> 0 ->
    gen (A xs) (A ys) (A zs) sigma w = Ok (pack3 (@point_density NumR k sigma w axial g (zip3 xs ys zs))).
Proof.
  destruct 1; intros xs ys zs sigma w Hx Hy Hz Hs.
  - exact (point_density_inst_k0_a1_g2_n1 xs ys zs sigma w Hx Hy Hz Hs).
  - exact (point_density_inst_k0_a1_g2_n2 xs ys zs sigma w Hx Hy Hz Hs).
  - exact (point_density_inst_k0_a0_g2_n1 xs ys zs sigma w Hx Hy Hz Hs).
  - exact (point_density_inst_k0_a0_g2_n2 xs ys zs sigma w Hx Hy Hz Hs).
  - f_equal. exact (point_density_inst_k1_a1_g2_n1 xs ys zs sigma w Hx Hy Hz).
  - f_equal. exact (point_density_inst_k1_a1_g2_n2 xs ys zs sigma w Hx Hy Hz).
  - f_equal. exact (point_density_inst_k1_a0_g2_n1 xs ys zs sigma w Hx Hy Hz).
  - f_equal. exact (point_density_inst_k1_a0_g2_n2 xs ys zs sigma w Hx Hy Hz).
  - exact (point_density_inst_k2_a1_g2_n1 xs ys zs sigma w Hx Hy Hz Hs).
  - exact (point_density_inst_k2_a1_g2_n2 xs ys zs sigma w Hx Hy Hz Hs).
  - exact (point_density_inst_k2_a0_g2_n1 xs ys zs sigma w Hx Hy Hz Hs).
  - exact (point_density_inst_k2_a0_g2_n2 xs ys zs sigma w Hx Hy Hz Hs).
  - exact (point_density_inst_k0_a1_g3_n1 xs ys zs sigma w Hx Hy Hz Hs).
  - f_equal. exact (point_density_inst_k1_a1_g3_n1 xs ys zs sigma w Hx Hy Hz).
  - exact (point_density_inst_k2_a1_g3_n1 xs ys zs sigma w Hx Hy Hz Hs).
  - exact (point_density_inst_k3_a1_g2_n1 xs ys zs sigma w Hx Hy Hz Hs).
  - exact (point_density_inst_k3_a0_g2_n1 xs ys zs sigma w Hx Hy Hz Hs).
  - exact (point_density_inst_k4_a1_g2_n1 xs ys zs sigma w Hx Hy Hz Hs).
  - exact (point_density_inst_k4_a0_g2_n1 xs ys zs sigma w Hx Hy Hz Hs).
Qed.

Section Transfer.
  Variables (k : Z) (axial : bool) (g n : nat).
  Variable gen : arr R -> arr R -> arr R -> R -> R -> res (arr R * arr R * arr R).
  Hypothesis G : generated_density k axial g n gen.
  Variables (sigma w : R).
  Hypothesis Hs : sigma <> 0.

  (* order independence on generated code: the same data in another order give the same three grids *)
  Theorem generated_density_perm (xs ys zs xs' ys' zs' : RL) :
    length xs = n -> length ys = n -> length zs = n -> length xs' = n -> length ys' = n -> length zs' = n ->
    Permutation (zip3 xs ys zs) (zip3 xs' ys' zs') ->
    gen (A xs) (A ys) (A zs) sigma w = gen (A xs') (A ys') (A zs') sigma w.
  Proof.
    intros H1 H2 H3 H4 H5 H6 P.
    rewrite (generated_density_is_model _ _ _ _ _ G xs ys zs sigma w H1 H2 H3 Hs).
    rewrite (generated_density_is_model _ _ _ _ _ G xs' ys' zs' sigma w H4 H5 H6 Hs).
    destruct (density_perm_proof k sigma w axial g _ _ P) as [_ E]. rewrite E. reflexivity.
  Qed.

  (* every returned total is >= 0, and the totals are the clipped normalisation of raw totals whose
     normalisation has grid mean 1 (guard: raw grid mean <> 0); the grid lies in the closed unit disk *)
  Theorem generated_density_shape (xs ys zs : RL) X Y T :
    length xs = n -> length ys = n -> length zs = n ->
    gen (A xs) (A ys) (A zs) sigma w = Ok (X, Y, T) ->
    exists Xl Yl raw,
      X = A Xl /\ Y = A Yl /\ T = A (@clip NumR (@normalise NumR raw)) /\
      raw = @raw_totals NumR k sigma w axial g (zip3 xs ys zs) /\
      length Xl = (g * g)%nat /\ length (@clip NumR (@normalise NumR raw)) = (g * g)%nat /\
      Forall2 (fun a b : R => a * a + b * b <= 1) Xl Yl /\
      Forall (fun t => 0 <= t) (@clip NumR (@normalise NumR raw)) /\
      (@mean_list NumR raw <> 0 -> @mean_list NumR (@normalise NumR raw) = 1).
  Proof.
    intros H1 H2 H3. rewrite (generated_density_is_model _ _ _ _ _ G xs ys zs sigma w H1 H2 H3 Hs).
    intros E. injection E as <- <- <-.
    pose proof (grid_in_disk_proof k sigma w axial g (zip3 xs ys zs)) as (D1 & D2 & D3).
    cbv zeta in D1, D2, D3.
    remember (@point_density NumR k sigma w axial g (zip3 xs ys zs)) as pd eqn:Epd.
    destruct pd as [[Xl Yl] Tl]. cbn [fst snd pack3] in *.
    unfold point_density in Epd. injection Epd as EX EY ET.
    exists Xl, Yl, (@raw_totals NumR k sigma w axial g (zip3 xs ys zs)).
    rewrite ET in *. subst Xl Yl.
    split; [reflexivity|]. split; [reflexivity|]. split; [reflexivity|]. split; [reflexivity|].
    split; [exact D2|]. split; [exact D3|]. split; [exact D1|].
    split; [apply density_nonneg_proof | apply density_mean_one_proof].
  Qed.
End Transfer.

(* axial sign independence on generated code (axial = true, every kernel incl. schmidt_count) *)
Theorem generated_density_axial_sign k g n gen : generated_density k true g n gen ->
  forall (sigma w : R) (xs ys zs xs' ys' zs' : RL), sigma <> 0 ->
    length xs = n -> length ys = n -> length zs = n -> length xs' = n -> length ys' = n -> length zs' = n ->
    Forall2 flipped (zip3 xs ys zs) (zip3 xs' ys' zs') ->
    gen (A xs') (A ys') (A zs') sigma w = gen (A xs) (A ys) (A zs) sigma w.
Proof.
  intros G sigma w xs ys zs xs' ys' zs' Hs H1 H2 H3 H4 H5 H6 P.
  rewrite (generated_density_is_model _ _ _ _ _ G xs ys zs sigma w H1 H2 H3 Hs).
  rewrite (generated_density_is_model _ _ _ _ _ G xs' ys' zs' sigma w H4 H5 H6 Hs).
  destruct (density_axial_sign_proof k sigma w g _ _ P) as [_ E]. rewrite E. reflexivity.
Qed.

(* ---- poles on several orientations ---- *)
Inductive generated_poles_batch : Z -> nat -> (arr R -> arr R -> res (arr R * arr R * arr R)) -> Prop :=
| gp_xz_n2 : generated_poles_batch 1 2 (@k_poles_batch_xz_n2 NumR)
| gp_xz_n3 : generated_poles_batch 1 3 (@k_poles_batch_xz_n3 NumR)
| gp_yx_n2 : generated_poles_batch 2 2 (@k_poles_batch_yx_n2 NumR).

Theorem generated_poles_batch_is_map ax n gen : generated_poles_batch ax n gen ->
  forall os hkl : RL, length os = (9 * n)%nat -> length hkl = 3%nat ->
    gen (A os) (A hkl) = pack_poles (@poles_all NumR ax (chunks9 n os) (A hkl)).
Proof.
  destruct 1; intros os hkl Ho Hh.
  - exact (poles_batch_inst_xz_n2 os hkl Ho Hh).
  - exact (poles_batch_inst_xz_n3 os hkl Ho Hh).
  - exact (poles_batch_inst_yx_n2 os hkl Ho Hh).
Qed.

(* non-vacuity: a member of the family, data satisfying the hypotheses (one datum and its negative) *)
Lemma generated_density_nonvacuous :
  generated_density 1 true 2 1 (fun x y z s w => Ok (@k_point_density_k1_a1_g2_n1 NumR x y z s w)) /\
  generated_density 3 true 2 1 (@k_point_density_k3_a1_g2_n1 NumR) /\
  (10 : R) <> 0 /\
  Forall2 flipped (zip3 [1] [0] [0]) (zip3 [-1] [-0] [-0]) /\
  Permutation (zip3 [1; 0] [0; 1] [0; 0]) (zip3 [0; 1] [1; 0] [0; 0]) /\
  generated_poles_batch 1 2 (@k_poles_batch_xz_n2 NumR).
Proof.
  split; [constructor|]. split; [constructor|]. split; [lra|]. split; [|split; [|constructor]].
  - constructor; [|constructor]. right. cbv [neg3]. numR. reflexivity.
  - cbn [zip3]. apply perm_swap.
Qed.
