(* Entry_resample.v -- flat entry point of Model_stats.resample (group `resample`) for the
   extracted OCaml driver.
     ints   : rank_o so_1..so_rank_o  rank_f sf_1..sf_rank_f  has_n n  pi (N*M entries)
     floats : fractions (N*M)  orientations (N*M*9)  variates (N*n_samples)
   with N = sf_1, M = sf_2.  The oracles are table look-ups: argsort i _ = i-th row of pi,
   draw i _ = i-th row of the variates (the harness regenerates both with NumPy and checks
   the oracle hypotheses on them).  Output: orientations (N*n*9) ++ volumes (N*n). *)
From Coq Require Import ZArith List Bool Arith.
From PV Require Import Num Model_stats Model_stats_session.
Import ListNotations.

Section Entry.
  Context {F : Num}.

  Fixpoint chunk {A} (w k : nat) (l : list A) : list (list A) :=
    match k with
    | O => []
    | S k' => firstn w l :: chunk w k' (skipn w l)
    end.

  Definition znat (z : Z) : nat := Z.to_nat z.

  Definition run_resample (is : list Z) (xs : list F) : res (list F) :=
    match is with
    | ro :: r1 =>
        let ro := znat ro in
        let so := map znat (firstn ro r1) in
        match skipn ro r1 with
        | rf :: r2 =>
            let rf := znat rf in
            let sf := map znat (firstn rf r2) in
            match skipn rf r2 with
            | has_n :: n :: pis =>
                let N := nth 0 sf 0%nat in
                let M := nth 1 sf 0%nat in
                let ns := if (has_n =? 0)%Z then None else Some n in
                let ncount := match ns with None => M | Some z => znat z end in
                let fs := chunk M N (firstn (N * M) xs) in
                let os := chunk M N (chunk 9 (N * M) (firstn (N * M * 9) (skipn (N * M) xs))) in
                let uss := chunk ncount N (skipn (N * M * 10) xs) in
                let pit := chunk M N (map znat pis) in
                match resample (fun i _ => nth i pit []) (fun i _ => nth i uss []) faithful so sf os fs ns with
                | Err e => Err e
                | Ok (oo, ff) => Ok (concat (concat oo) ++ concat ff)
                end
            | _ => Err OtherError
            end
        | [] => Err OtherError
        end
    | [] => Err OtherError
    end.

  (* ---- call histories (Model_stats_session.v) ---------------------------------------------
       ints   : memo nb_o nb_f N M nops, then per step
                  0 a                      O_a[...] = <N*M*9 floats>
                  1 b                      f_b[...] = <N*M floats>
                  2 b i j                  f_b[i, j] = <1 float>
                  3 b                      f_b *= <1 float>
                  4 a b p_0 .. p_(M-1)     grains of O_a and f_b reordered by p
                  5 a b has_n n has_seed seed  pi (N*M entries)     a call; <N*n_eff floats> = its variates
       floats : initial contents of the nb_o orientation objects (N*M*9 each), of the nb_f volume
                objects (N*M each), then the payloads of the steps in order.
     All objects have shape (N, M, 3, 3) / (N, M).  The oracles are tables per CALL: argsort k i _ =
     row i of the pi of the k-th call, draw k i _ = row i of its variates.
     Output: per call  1 :: orientations ++ volumes   or   0 :: error code. *)
  Definition err_code (e : err) : F :=
    match e with ValueError => ofZ 1 | IndexError => ofZ 2 | TypeError => ofZ 3 | _ => ofZ 9 end.

  Definition enc_result (r : res (list (list (list F)) * list (list F))) : list F :=
    match r with
    | Ok (oo, ff) => one :: concat (concat oo) ++ concat ff
    | Err e => [zero; err_code e]
    end.

  Fixpoint parse_steps (fuel N M : nat) (is : list Z) (xs : list F)
           (h : list (@sop F (list F))) (pits : list (list (list nat))) (uss : list (list (list F)))
    : list (@sop F (list F)) * list (list (list nat)) * list (list (list F)) :=
    match fuel with
    | O => (rev h, rev pits, rev uss)
    | S fuel' =>
        match is with
        | 0%Z :: a :: r =>
            parse_steps fuel' N M r (skipn (N * M * 9) xs)
                        (SFillO (znat a) (chunk M N (chunk 9 (N * M) (firstn (N * M * 9) xs))) :: h) pits uss
        | 1%Z :: b :: r =>
            parse_steps fuel' N M r (skipn (N * M) xs) (SFillF (znat b) (chunk M N (firstn (N * M) xs)) :: h) pits uss
        | 2%Z :: b :: i :: j :: r =>
            parse_steps fuel' N M r (skipn 1 xs) (SSetF (znat b) (znat i) (znat j) (nth 0 xs zero) :: h) pits uss
        | 3%Z :: b :: r =>
            parse_steps fuel' N M r (skipn 1 xs) (SScaleF (znat b) (nth 0 xs zero) :: h) pits uss
        | 4%Z :: a :: b :: r =>
            parse_steps fuel' N M (skipn M r) xs (SPermute (znat a) (znat b) (map znat (firstn M r)) :: h) pits uss
        | 5%Z :: a :: b :: has_n :: n :: has_seed :: seed :: r =>
            let ns := if (has_n =? 0)%Z then None else Some n in
            let ncount := match ns with None => M | Some z => znat z end in
            parse_steps fuel' N M (skipn (N * M) r) (skipn (N * ncount) xs)
                        (SCall (znat a) (znat b) ns (if (has_seed =? 0)%Z then None else Some seed) :: h)
                        (chunk M N (map znat (firstn (N * M) r)) :: pits)
                        (chunk ncount N (firstn (N * ncount) xs) :: uss)
        | _ => (rev h, rev pits, rev uss)
        end
    end.

  Definition run_session (is : list Z) (xs : list F) : res (list F) :=
    match is with
    | memo :: nbo :: nbf :: N :: M :: nops :: r =>
        let nbo := znat nbo in let nbf := znat nbf in let N := znat N in let M := znat M in
        let os := map (fun blk => ([N; M; 3; 3]%nat, chunk M N (chunk 9 (N * M) blk)))
                      (chunk (N * M * 9) nbo (firstn (nbo * (N * M * 9)) xs)) in
        let xs1 := skipn (nbo * (N * M * 9)) xs in
        let fs := map (fun blk => ([N; M], chunk M N blk)) (chunk (N * M) nbf (firstn (nbf * (N * M)) xs1)) in
        let xs2 := skipn (nbf * (N * M)) xs1 in
        let '(h, pits, uss) := parse_steps (znat nops) N M r xs2 [] [] [] in
        Ok (flat_map enc_result
              (run (fun k i _ => nth i (nth k pits []) []) (fun k i _ => nth i (nth k uss []) [])
                   (negb (memo =? 0)%Z) ((os, fs), 0%nat, None) h))
    | _ => Err OtherError
    end.
End Entry.
