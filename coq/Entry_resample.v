(* Entry_resample.v -- flat entry point of Model_stats.resample (group `resample`) for the
   extracted OCaml driver.
     ints   : rank_o so_1..so_rank_o  rank_f sf_1..sf_rank_f  has_n n  pi (N*M entries)
     floats : fractions (N*M)  orientations (N*M*9)  variates (N*n_samples)
   with N = sf_1, M = sf_2.  The oracles are table look-ups: argsort i _ = i-th row of pi,
   draw i _ = i-th row of the variates (the harness regenerates both with NumPy and checks
   the oracle hypotheses on them).  Output: orientations (N*n*9) ++ volumes (N*n). *)
From Coq Require Import ZArith List Bool Arith.
From PV Require Import Num Model_stats.
Import ListNotations.

Section Entry.
  Context {F : Num}.

  Fixpoint chunk {A} (w k : nat) (l : list A) : list (list A) :=
    match k with
    | O => []
    | S k' => firstn w l :: chunk w k' (skipn w l)
    end.

  Definition znat (z : Z) : nat := Z.to_nat z.

  Definition run_resample (is : list Z) (xs : list F) : res (list F) :=
    match is with
    | ro :: r1 =>
        let ro := znat ro in
        let so := map znat (firstn ro r1) in
        match skipn ro r1 with
        | rf :: r2 =>
            let rf := znat rf in
            let sf := map znat (firstn rf r2) in
            match skipn rf r2 with
            | has_n :: n :: pis =>
                let N := nth 0 sf 0%nat in
                let M := nth 1 sf 0%nat in
                let ns := if (has_n =? 0)%Z then None else Some n in
                let ncount := match ns with None => M | Some z => znat z end in
                let fs := chunk M N (firstn (N * M) xs) in
                let os := chunk M N (chunk 9 (N * M) (firstn (N * M * 9) (skipn (N * M) xs))) in
                let uss := chunk ncount N (skipn (N * M * 10) xs) in
                let pit := chunk M N (map znat pis) in
                match resample (fun i _ => nth i pit []) (fun i _ => nth i uss []) faithful so sf os fs ns with
                | Err e => Err e
                | Ok (oo, ff) => Ok (concat (concat oo) ++ concat ff)
                end
            | _ => Err OtherError
            end
        | [] => Err OtherError
        end
    | [] => Err OtherError
    end.
End Entry.
