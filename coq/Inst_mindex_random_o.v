(* Inst_mindex_random_o.v -- random_inst_orthorhombic (see Inst_mindex_random.v; one file per large
   decision tree so that make -j builds them side by side) *)
From Coq Require Import Reals ZArith List Bool Lra Lia.
From PV Require Import Num NumR Model_mindex Proofs_mindex Inst_mindex_random.
From PV.gen Require Import Gen_mindex.
Import ListNotations.
Open Scope R_scope.

Lemma random_inst_orthorhombic (low high : R) :
  @k_misorientations_random_orthorhombic NumR low high = @misorientations_random NumR low high Orthorhombic.
Proof. random_tac (@k_misorientations_random_orthorhombic) Orthorhombic. Qed.
