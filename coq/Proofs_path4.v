(* Proofs_path4.v -- C01: the clip-inactive hypothesis of the `_partial` theorems of Proofs_path2 / Proofs_path3 is
   discharged.  Along any exact solution of the modelled texture ODE on [a,b] whose rates of grain g are bounded
   there (every C^1 solution on a compact interval), a grain that is orthonormal at a is orthonormal at every
   t in [a,b], its entries stay in [-1,1] (extract_vars' clip never becomes active) and its determinant is
   constant: a proper rotation stays a proper rotation.  Uses the Gronwall invariance theorem of
   Proofs_gronwall on the vector field's skewness with respect to the CLIPPED orientation (C03). *)
From Coq Require Import Reals ZArith List Bool Lra Lia.
From Coquelicot Require Import Coquelicot.
From PV Require Import Num NumR Model_core Model_minerals Proofs_core Proofs_total Proofs_minerals Proofs_rhs Proofs_flow
                       Proofs_path Proofs_path2 Proofs_path3 Proofs_gronwall.
Import ListNotations.
Open Scope R_scope.

Lemma clip11_is_clipR x : @clip11 NumR x = clipR x.
Proof.
  unfold clip11, m_one. numR.
  destruct (Rltb x (- (1))) eqn:H1; bool2prop.
  - symmetry. apply clipR_lo. lra.
  - destruct (Rltb 1 x) eqn:H2; bool2prop.
    + symmetry. apply clipR_hi. lra.
    + symmetry. apply clipR_id. lra.
Qed.

Section Invariant.
  Variables (regime ph fb : Z) (n : nat) (ass : list Z) (frs : list R) (Sd : list R) (p nn lam M : R).
  Local Notation vfm := (vf regime ph fb n ass frs Sd p nn lam M).

  (* the rate of grain g is skew with respect to the CLIPPED entries of grain g -- at EVERY state, no
     hypothesis on the entries (generalises Proofs_path2.vf_gram_rate) *)
  Lemma vf_skew_clipped (L : list R) (s : R) (y : nat -> R) g r r' :
    dislocation_regime regime -> (g < n)%nat -> (r < 3)%nat -> (r' < 3)%nat ->
    let A := fun i j : nat => clipR (y (9 + 9 * g + (3 * i + j))%nat) in
    let Ad := fun i j : nat => vfm L s y (9 + 9 * g + (3 * i + j))%nat in
    Ad r 0%nat * A r' 0%nat + Ad r 1%nat * A r' 1%nat + Ad r 2%nat * A r' 2%nat
    + (A r 0%nat * Ad r' 0%nat + A r 1%nat * Ad r' 1%nat + A r 2%nat * Ad r' 2%nat) = 0.
  Proof.
    intros Hreg Hg Hr Hr' A Ad. subst A Ad. cbv beta.
    destruct (vf_cases regime ph fb n ass frs Sd p nn lam M L s y) as [Hz | [Hs [phi [Ads [fds [Hl [Hd Hv]]]]]]].
    - rewrite !Hz by lia. ring.
    - pose proof (derivs_skew _ _ _ _ _ _ _ _ _ _ _ _ _ _ _ Hreg Hd) as Hsk.
      destruct (derivs_lengths regime ph fb p nn lam M _ _ _ _ _ _ _ _
                  (eq_trans (fs_of_length n y) (eq_sym (os_of_length n y))) Hd) as [HlA _].
      rewrite os_of_length in HlA.
      pose (o := nth g (os_of n y) (@zeros9 NumR)). pose (Ag := nth g Ads (@zeros9 NumR)).
      assert (Hog : skew_wrt o Ag).
      { apply Forall2_nth; [exact Hsk|]. rewrite os_of_length. exact Hg. }
      assert (HA : forall k, (k < 9)%nat -> clipR (y (9 + 9 * g + k)%nat) = o k).
      { intros k Hk. unfold o. rewrite os_of_entry by assumption. symmetry. apply clip11_is_clipR. }
      assert (HAd : forall k, (k < 9)%nat -> vfm L s y (9 + 9 * g + k)%nat = Ag k * s).
      { intros k Hk. rewrite Hv.
        rewrite nth_orient; [|reflexivity|rewrite map_length, flat9_length; change (T NumR) with R in *; nia].
        rewrite (nth_map_in (fun x => x * s) _ _ 0 0) by (rewrite flat9_length; change (T NumR) with R in *; nia).
        rewrite (flat9_nth Ads (@zeros9 NumR)) by (try exact Hk; change (T NumR) with R in *; lia).
        reflexivity. }
      rewrite !HA, !HAd by lia.
      pose proof (Hog r r' Hr Hr') as H0. unfold sym_defect, m3 in H0.
      match goal with |- ?lhs = 0 => replace lhs with (s * 0) by (rewrite <- H0; ring) end. ring.
  Qed.

  Variable Lh : R -> list R.
  Variable sh : R -> R.
  Local Notation fm := (f regime ph fb n ass frs Sd p nn lam M Lh sh).

  Section OneGrain.
    Variables (y : nat -> R -> R) (a b B : R) (g : nat).
    Hypothesis Hreg : dislocation_regime regime.
    Hypothesis Hab : a <= b.
    Hypothesis Hg : (g < n)%nat.
    Hypothesis Hsol : forall i t, a <= t <= b -> is_derive (y i) t (fm t (fun j => y j t) i).
    (* the rates of grain g are bounded on [a,b] *)
    Hypothesis Hbound : forall k t, (k < 9)%nat -> a <= t <= b ->
      Rabs (fm t (fun j => y j t) (9 + 9 * g + k)%nat) <= B.
    Hypothesis Horth : forall r r', (r < 3)%nat -> (r' < 3)%nat ->
      gram (grainA y g) r r' a = if Nat.eqb r r' then 1 else 0.

    Let Ag (i j : nat) (t : R) : R := grainA y g i j t.
    Let Adg (i j : nat) (t : R) : R := fm t (fun k => y k t) (9 + 9 * g + (3 * i + j))%nat.

    Lemma grain_invariance_hyps :
      (forall i j t, (i < 3)%nat -> (j < 3)%nat -> a <= t <= b -> is_derive (Ag i j) t (Adg i j t)) /\
      (forall i j t, (i < 3)%nat -> (j < 3)%nat -> a <= t <= b -> Rabs (Adg i j t) <= B) /\
      (forall r r' t, (r < 3)%nat -> (r' < 3)%nat -> a <= t <= b ->
         Adg r 0%nat t * clipR (Ag r' 0%nat t) + Adg r 1%nat t * clipR (Ag r' 1%nat t) + Adg r 2%nat t * clipR (Ag r' 2%nat t)
         + (clipR (Ag r 0%nat t) * Adg r' 0%nat t + clipR (Ag r 1%nat t) * Adg r' 1%nat t
            + clipR (Ag r 2%nat t) * Adg r' 2%nat t) = 0).
    Proof.
      split; [|split].
      - intros i j t _ _ Ht. unfold Ag, Adg, grainA. apply Hsol. exact Ht.
      - intros i j t Hi Hj Ht. unfold Adg. apply Hbound; [lia|exact Ht].
      - intros r r' t Hr Hr' Ht. unfold Ag, Adg, grainA, f.
        exact (vf_skew_clipped (Lh t) (sh t) (fun j => y j t) g r r' Hreg Hg Hr Hr').
    Qed.

    (* orthonormal at a => orthonormal at every t of [a,b]; NO assumption that the clip is inactive *)
    Theorem solution_orthonormal_invariant :
      forall t, a <= t <= b -> forall r r', (r < 3)%nat -> (r' < 3)%nat ->
        gram (grainA y g) r r' t = if Nat.eqb r r' then 1 else 0.
    Proof.
      intros t Ht r r' Hr Hr'.
      destruct grain_invariance_hyps as [H1 [H2 H3]].
      exact (orthonormal_invariant Ag Adg a b B Hab H1 H2 H3 Horth t Ht r r' Hr Hr').
    Qed.

    (* ... hence the clip of extract_vars is never active on grain g along the solution *)
    Theorem solution_clip_inactive :
      forall k t, (k < 9)%nat -> a <= t <= b -> -1 <= y (9 + 9 * g + k)%nat t <= 1.
    Proof.
      intros k t Hk Ht.
      destruct grain_invariance_hyps as [H1 [H2 H3]].
      pose proof (entries_in_range Ag Adg a b B Hab H1 H2 H3 Horth t Ht (k / 3) (k mod 3)) as H.
      unfold Ag, grainA in H.
      replace (3 * (k / 3) + k mod 3)%nat with k in H by (apply Nat.div_mod; lia).
      apply H; [apply Nat.div_lt_upper_bound; lia|apply Nat.mod_upper_bound; lia].
    Qed.

    (* ... and the determinant is constant: a proper rotation stays a proper rotation on the whole of [a,b] *)
    Theorem solution_rotation_invariant :
      grain_det y g a = 1 ->
      forall t, a <= t <= b ->
        (forall r r', (r < 3)%nat -> (r' < 3)%nat -> gram (grainA y g) r r' t = if Nat.eqb r r' then 1 else 0)
        /\ grain_det y g t = 1.
    Proof.
      intros Hd t Ht. split; [apply solution_orthonormal_invariant; exact Ht|].
      rewrite <- Hd.
      apply (solution_det_constant regime ph fb n ass frs Sd p nn lam M Lh sh y a t g Hreg (proj1 Ht) Hg).
      - intros i u Hu. apply Hsol. lra.
      - intros k u Hk Hu. apply solution_clip_inactive; [exact Hk|lra].
    Qed.
  End OneGrain.
End Invariant.

(* non-vacuity: the constant state y0_example (olivine A-type, 2 grains, regime 4, L = 0) meets every hypothesis
   of solution_rotation_invariant for grain 1 with B = 0 *)
Lemma invariance_nonvacuous_proof :
  let y := fun (i : nat) (_ : R) => y0_example i in
  dislocation_regime 4 /\
  (forall i t, is_derive (y i) t
     (f 4 0 0 2 [0%Z] [1] [] 1.5 3.5 30 125 (fun _ => repeat 0 9) (fun _ => 0) t (fun j => y j t) i)) /\
  (forall k t, Rabs (f 4 0 0 2 [0%Z] [1] [] 1.5 3.5 30 125 (fun _ => repeat 0 9) (fun _ => 0) t
                       (fun j => y j t) (9 + 9 * 1 + k)%nat) <= 0) /\
  (forall r r', (r < 3)%nat -> (r' < 3)%nat -> gram (grainA y 1) r r' 0 = if Nat.eqb r r' then 1 else 0) /\
  grain_det y 1 0 = 1.
Proof.
  cbv zeta.
  destruct solution_hyps_nonvacuous_proof as [H1 [H2 [_ [_ [_ H6]]]]].
  split; [exact H1|]. split; [exact H2|]. split.
  - intros k t. unfold f. rewrite vf_zero_L. rewrite Rabs_R0. lra.
  - split; [exact H6|]. exact (proj2 handedness_nonvacuous_proof).
Qed.
