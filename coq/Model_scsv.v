(* Model_scsv.v -- hand-written executable model of the SCSV reader/writer of
   /repo/src/pydrex/io.py: _validate_scsv_schema, _parse_scsv_bool, _parse_scsv_cell,
   save_scsv (+ write_scsv_header's validation), read_scsv, parse_scsv_schema.
   Literal transcription, odd branches included.  No proofs in this file.

   Python `str` is modelled as a Coq `string` holding the UTF-8 bytes.
   Text layers are NOT modelled; they enter through the record `oracles`:
     csv.writer -> text file -> line splitting of read_scsv -> csv.reader   (o_transport)
     csv's acceptance of a delimiter                                        (o_delim_err)
     str(int), str(complex)                                                 (o_str_int, o_str_cplx)
     int(str), float(str), complex(str)                                     (o_int_of, o_float_of, o_cplx_of)
     int == float comparison                                                (o_zf_eq)
     str.isidentifier, collections.namedtuple's acceptance of field names   (o_is_ident, o_nt_ok)
   PyYAML is not modelled either: `read` receives the loaded header as data (`yres`). *)
From Coq Require Import String Ascii List ZArith Bool NArith.
Import ListNotations.
Open Scope string_scope.

(* ---------------------------------------------------------------- errors *)
Inductive err :=
| SCSV          (* pydrex.exceptions.SCSVError *)
| EValue        (* ValueError *)
| EType         (* TypeError *)
| EKey          (* KeyError *)
| EIndex        (* IndexError *)
| EAttr         (* AttributeError *)
| EOverflow     (* OverflowError *)
| EYaml         (* yaml.YAMLError *)
| EStop         (* StopIteration *)
| ECsv          (* _csv.Error *)
| EUnmodelled.  (* input outside the modelled domain (never produced by the generator) *)

Inductive res (A : Type) := Ok (a : A) | Err (e : err).
Arguments Ok {A}. Arguments Err {A}.

Definition bind {A B} (r : res A) (f : A -> res B) : res B :=
  match r with Ok a => f a | Err e => Err e end.
Notation "x <- r ;; k" := (bind r (fun x => k)) (at level 61, r at next level, right associativity).

(* a ValueError raised inside save_scsv's outer `try` comes out as SCSVError *)
Definition value_to_scsv {A} (r : res A) : res A :=
  match r with Err EValue => Err SCSV | _ => r end.

(* ---------------------------------------------------------------- values *)
(* binary64 values as tokens: a finite float is named by its Python repr *)
Inductive ftok := FNan | FInf (neg : bool) | FFin (repr : string).

Inductive cell :=
| CStr (s : string) | CInt (z : Z) | CFloat (f : ftok) | CBool (b : bool) | CCplx (re im : ftok).

(* a scalar of the schema dictionary (as given by the caller, or as loaded by PyYAML) *)
Inductive yval := YNull | YStr (s : string) | YInt (z : Z) | YFloat (f : ftok) | YBool (b : bool) | YOther.

Inductive ty := TStr | TInt | TFloat | TBool | TCplx.

Record field := mkField {
  fname : option yval;      (* field["name"]; None = key absent *)
  ftype : option string;    (* field.get("type") *)
  ffill : option yval }.    (* field.get("fill"); "unit" is never looked at by the code under study *)

Record schema := mkSchema {
  sdelim : option string; smissing : option string; sfields : option (list field) }.

(* result of yaml.safe_load(header)["schema"] *)
Inductive yres := YFail | YLoaded (s : schema).

Record oracles := mkO {
  o_is_ident : string -> bool;
  o_nt_ok : list string -> bool;
  o_delim_err : string -> option err;
  o_str_int : Z -> string;
  o_str_cplx : ftok -> ftok -> string;
  o_int_of : string -> res Z;
  o_float_of : string -> res ftok;
  o_cplx_of : string -> res (ftok * ftok);
  o_zf_eq : Z -> ftok -> bool;
  o_transport : string -> list (list string) -> res (list (list string)) }.

(* ---------------------------------------------------------------- text helpers *)
Definition is_ws (c : ascii) : bool :=
  let n := N_of_ascii c in
  (N.leb 9 n && N.leb n 13) || (N.leb 28 n && N.leb n 32).

Fixpoint lstrip (s : string) : string :=
  match s with
  | EmptyString => EmptyString
  | String c r => if is_ws c then lstrip r else s
  end.

Fixpoint rstrip (s : string) : string :=
  match s with
  | EmptyString => EmptyString
  | String c r =>
      match rstrip r with
      | EmptyString => if is_ws c then EmptyString else String c EmptyString
      | r' => String c r'
      end
  end.

Definition strip (s : string) : string := rstrip (lstrip s).

Definition is_break (c : ascii) : bool :=
  let n := N_of_ascii c in N.eqb n 10 || N.eqb n 13.

Fixpoint no_break (s : string) : bool :=
  match s with EmptyString => true | String c r => negb (is_break c) && no_break r end.

(* no surrounding white space, no line break *)
Definition plain (s : string) : bool := String.eqb (strip s) s && no_break s.

Definition lower_ascii (c : ascii) : ascii :=
  let n := N_of_ascii c in
  if N.leb 65 n && N.leb n 90 then ascii_of_N (n + 32) else c.

Fixpoint lower (s : string) : string :=
  match s with EmptyString => EmptyString | String c r => String (lower_ascii c) (lower r) end.

(* number of code points of a UTF-8 byte string *)
Fixpoint utf8_len (s : string) : nat :=
  match s with
  | EmptyString => 0
  | String c r => let n := N_of_ascii c in
                  (if N.leb 128 n && N.leb n 191 then 0 else 1) + utf8_len r
  end.

(* Python `d in m` on strings *)
Fixpoint contains (m d : string) : bool :=
  String.prefix d m || match m with EmptyString => false | String _ r => contains r d end.

Fixpoint mem_str (x : string) (l : list string) : bool :=
  match l with [] => false | y :: r => String.eqb x y || mem_str x r end.

Fixpoint list_str_eqb (a b : list string) : bool :=
  match a, b with
  | [], [] => true
  | x :: a', y :: b' => String.eqb x y && list_str_eqb a' b'
  | _, _ => false
  end.

(* ---------------------------------------------------------------- float tokens *)
Definition fstr (f : ftok) : string :=
  match f with FNan => "nan" | FInf false => "inf" | FInf true => "-inf" | FFin r => r end.

Definition f_isnan (f : ftok) : bool := match f with FNan => true | _ => false end.

Definition zero_repr (r : string) : bool := String.eqb r "0.0" || String.eqb r "-0.0".

Definition f_iszero (f : ftok) : bool := match f with FFin r => zero_repr r | _ => false end.

(* Python == on floats *)
Definition feq (x y : ftok) : bool :=
  match x, y with
  | FInf a, FInf b => Bool.eqb a b
  | FFin a, FFin b => String.eqb a b || (zero_repr a && zero_repr b)
  | _, _ => false
  end.

Definition fzero : ftok := FFin "0.0".
Definition fone : ftok := FFin "1.0".

Definition ty_eqb (a b : ty) : bool :=
  match a, b with
  | TStr, TStr | TInt, TInt | TFloat, TFloat | TBool, TBool | TCplx, TCplx => true
  | _, _ => false
  end.

(* SCSV_TYPEMAP *)
Definition typemap (t : string) : option ty :=
  if String.eqb t "string" then Some TStr
  else if String.eqb t "integer" then Some TInt
  else if String.eqb t "float" then Some TFloat
  else if String.eqb t "boolean" then Some TBool
  else if String.eqb t "complex" then Some TCplx
  else None.

Definition default_type : string := "string".      (* _SCSV_DEFAULT_TYPE *)
Definition default_fill : yval := YStr "".          (* _SCSV_DEFAULT_FILL *)

Definition type_of (f : field) : string := match ftype f with Some t => t | None => default_type end.
Definition fill_of (f : field) : yval := match ffill f with Some v => v | None => default_fill end.
Definition has_fill (f : field) : bool := match ffill f with Some _ => true | None => false end.
Definition name_str (f : field) : string := match fname f with Some (YStr n) => n | _ => "" end.

Section Model.
Variable O : oracles.

(* ---------------------------------------------------------------- _validate_scsv_schema *)
Fixpoint validate_fields (fs : list field) : res bool :=
  match fs with
  | [] => Ok true
  | f :: r =>
      match fname f with
      | None => Err EKey                                  (* field["name"] *)
      | Some (YStr n) =>
          if negb (o_is_ident O n) then Ok false
          else match typemap (type_of f) with
               | None => Ok false
               | Some t =>
                   if negb (ty_eqb t TStr || ty_eqb t TBool) && negb (has_fill f) then Ok false
                   else validate_fields r
               end
      | Some _ => Err EAttr                               (* .isidentifier() of a non-string *)
      end
  end.

Definition validate_schema (s : schema) : res bool :=
  match sdelim s, smissing s, sfields s with
  | Some d, Some m, Some fs =>
      if negb (Nat.eqb (length fs) 0) && negb (String.eqb d m) && negb (contains m d)
      then validate_fields fs else Ok false
  | _, _, _ => Ok false
  end.

(* ---------------------------------------------------------------- conversions t(x) *)
Definition bool_str (b : bool) : string := if b then "True" else "False".

Definition pystr (d : cell) : string :=
  match d with
  | CStr s => s
  | CInt z => o_str_int O z
  | CFloat f => fstr f
  | CBool b => bool_str b
  | CCplx re im => o_str_cplx O re im
  end.

Definition float_of_int (z : Z) : res ftok := o_float_of O (o_str_int O z).

(* func(fillval) for func = SCSV_TYPEMAP[type] and fillval a schema scalar *)
Definition conv (t : ty) (v : yval) : res cell :=
  match t, v with
  | _, YOther => Err EUnmodelled
  | TStr, YNull => Ok (CStr "None")
  | TStr, YStr s => Ok (CStr s)
  | TStr, YInt z => Ok (CStr (o_str_int O z))
  | TStr, YFloat f => Ok (CStr (fstr f))
  | TStr, YBool b => Ok (CStr (bool_str b))
  | TInt, YNull => Err EType
  | TInt, YStr s => z <- o_int_of O s ;; Ok (CInt z)
  | TInt, YInt z => Ok (CInt z)
  | TInt, YFloat FNan => Err EValue
  | TInt, YFloat (FInf _) => Err EOverflow
  | TInt, YFloat (FFin _) => Err EUnmodelled
  | TInt, YBool b => Ok (CInt (if b then 1 else 0))
  | TFloat, YNull => Err EType
  | TFloat, YStr s => f <- o_float_of O s ;; Ok (CFloat f)
  | TFloat, YInt z => f <- float_of_int z ;; Ok (CFloat f)
  | TFloat, YFloat f => Ok (CFloat f)
  | TFloat, YBool b => Ok (CFloat (if b then fone else fzero))
  | TBool, YNull => Ok (CBool false)
  | TBool, YStr s => Ok (CBool (negb (String.eqb s "")))
  | TBool, YInt z => Ok (CBool (negb (Z.eqb z 0)))
  | TBool, YFloat f => Ok (CBool (negb (f_iszero f)))
  | TBool, YBool b => Ok (CBool b)
  | TCplx, YNull => Err EType
  | TCplx, YStr s => p <- o_cplx_of O s ;; Ok (CCplx (fst p) (snd p))
  | TCplx, YInt z => f <- float_of_int z ;; Ok (CCplx f fzero)
  | TCplx, YFloat f => Ok (CCplx f fzero)
  | TCplx, YBool b => Ok (CCplx (if b then fone else fzero) fzero)
  end.

(* func(np.nan) *)
Definition conv_nan (t : ty) : res cell :=
  match t with
  | TStr => Ok (CStr "nan")
  | TInt => Err EValue
  | TFloat => Ok (CFloat FNan)
  | TBool => Ok (CBool true)
  | TCplx => Ok (CCplx FNan fzero)
  end.

Definition is_NaN_text (v : yval) : bool :=
  match v with YStr s => String.eqb s "NaN" | _ => false end.

(* value substituted for a missing cell: `func(np.nan) if fillval == "NaN" else func(fillval)` *)
Definition read_fill (t : ty) (v : yval) : res cell :=
  if is_NaN_text v then conv_nan t else conv t v.

(* _parse_scsv_bool *)
Definition parse_bool (x : string) : bool := mem_str (lower x) ["yes"; "true"; "t"; "1"].

(* _parse_scsv_cell(func, data, missingstr, fillval) *)
Definition parse_cell (t : ty) (data missing : string) (fill : yval) : res cell :=
  if String.eqb (strip data) missing then read_fill t fill
  else match t with
       | TBool => Ok (CBool (parse_bool data))            (* data is not stripped here *)
       | _ => conv t (YStr (strip data))
       end.

(* ---------------------------------------------------------------- == and np.isnan on cells *)
Inductive num := NInt (z : Z) | NFlt (f : ftok) | NCplx (re im : ftok).

Definition num_of (d : cell) : option num :=
  match d with
  | CStr _ => None
  | CInt z => Some (NInt z)
  | CFloat f => Some (NFlt f)
  | CBool b => Some (NInt (if b then 1 else 0))
  | CCplx re im => Some (NCplx re im)
  end.

Definition num_eq (a b : num) : bool :=
  match a, b with
  | NInt x, NInt y => Z.eqb x y
  | NInt z, NFlt f | NFlt f, NInt z => o_zf_eq O z f
  | NFlt x, NFlt y => feq x y
  | NCplx re im, NInt z | NInt z, NCplx re im => o_zf_eq O z re && f_iszero im
  | NCplx re im, NFlt f | NFlt f, NCplx re im => feq re f && f_iszero im
  | NCplx a1 a2, NCplx b1 b2 => feq a1 b1 && feq a2 b2
  end.

(* Python d == e *)
Definition cell_eq (d e : cell) : bool :=
  match d, e with
  | CStr x, CStr y => String.eqb x y
  | _, _ => match num_of d, num_of e with Some a, Some b => num_eq a b | _, _ => false end
  end.

(* np.isnan(d); TypeError on a str *)
Definition cell_isnan (d : cell) : res bool :=
  match d with
  | CStr _ => Err EType
  | CInt z => if Z.ltb z (- 2 ^ 63) || Z.leb (2 ^ 64) z then Err EType else Ok false
                                               (* integers outside int64/uint64 become object arrays *)
  | CBool _ => Ok false
  | CFloat f => Ok (f_isnan f)
  | CCplx re im => Ok (f_isnan re || f_isnan im)
  end.

(* ---------------------------------------------------------------- save_scsv *)
(* the branch chain that decides whether the missing marker is written *)
Definition substituted (t : ty) (fill : yval) (d : cell) : res bool :=
  match t with
  | TFloat | TCplx =>
      a <- cell_isnan d ;;
      both <- (if a then (tf <- conv t fill ;; cell_isnan tf) else Ok false) ;;
      if both then Ok true
      else tf <- conv t fill ;; Ok (cell_eq d tf)
  | TInt | TStr => tf <- conv t fill ;; Ok (cell_eq d tf)
  | TBool => Ok false
  end.

(* body of the inner loop: what is appended to `row`, as csv.writer will stringify it *)
Definition save_cell (missing : string) (t : ty) (fill : yval) (d : cell) : res string :=
  match parse_cell t (pystr d) missing fill with
  | Err EValue => Err SCSV                        (* except ValueError: raise SCSVError *)
  | Err e => Err e
  | Ok _ =>
      sub <- value_to_scsv (substituted t fill d) ;;
      Ok (if sub then missing else pystr d)
  end.

(* for d, t, f in zip(col, types, fills, strict=True) *)
Fixpoint save_row (missing : string) (tfs : list (ty * yval)) (row : list cell) : res (list string) :=
  match row, tfs with
  | [], [] => Ok []
  | d :: row', (t, f) :: tfs' =>
      x <- save_cell missing t f d ;;
      r <- save_row missing tfs' row' ;;
      Ok (x :: r)
  | _, _ => Err SCSV                              (* zip(strict=True) ValueError -> SCSVError *)
  end.

Fixpoint map_res {A B} (f : A -> res B) (l : list A) : res (list B) :=
  match l with
  | [] => Ok []
  | x :: r => y <- f x ;; ys <- map_res f r ;; Ok (y :: ys)
  end.

(* first elements of all lists; None when one of them is empty *)
Fixpoint heads {A} (xss : list (list A)) : option (list A) :=
  match xss with
  | [] => Some []
  | [] :: _ => None
  | (x :: _) :: r => match heads r with Some hs => Some (x :: hs) | None => None end
  end.

(* zip( *xss), at most n tuples *)
Fixpoint zipn {A} (n : nat) (xss : list (list A)) : list (list A) :=
  match n with
  | 0 => []
  | S n' => match heads xss with
            | Some hs => hs :: zipn n' (map (@tl A) xss)
            | None => []
            end
  end.

Definition field_types (fs : list field) : res (list (ty * yval)) :=
  map_res (fun f => match typemap (type_of f) with
                    | Some t => Ok (t, fill_of f)
                    | None => Err EKey end) fs.

(* rows handed to csv.writer (header row first), or the exception *)
Definition save (s : schema) (data : list (list cell)) : res (list (list string)) :=
  match data with
  | [] => Err EIndex                                            (* len(data[0]) *)
  | c0 :: rest =>
      if existsb (fun c => negb (Nat.eqb (length c) (length c0))) rest then Err SCSV
      else
        v <- validate_schema s ;;
        if negb v then Err SCSV
        else match sdelim s, smissing s, sfields s with
             | Some d, Some m, Some fs =>
                 tfs <- field_types fs ;;
                 match o_delim_err O d with
                 | Some e => value_to_scsv (Err e)               (* csv.writer(...) *)
                 | None =>
                     rows <- map_res (save_row m tfs) (zipn (length c0) data) ;;
                     Ok (map name_str fs :: rows)
                 end
             | _, _, _ => Err SCSV
             end
  end.

(* ---------------------------------------------------------------- read_scsv *)
Fixpoint all_nil {A} (xss : list (list A)) : bool :=
  match xss with [] => true | [] :: r => all_nil r | _ => false end.

(* zip(coltypes, fillvals, zip( *rows, strict=True), strict=True), parsed column by column *)
Fixpoint read_cols (missing : string) (tfs : list (ty * yval)) (body : list (list string))
  : res (list (list cell)) :=
  match tfs with
  | [] => if all_nil body then Ok [] else Err EValue
  | (t, f) :: tfs' =>
      match body with
      | [] => Err EValue
      | _ => match heads body with
             | None => Err EValue
             | Some hs =>
                 col <- map_res (fun x => parse_cell t x missing f) hs ;;
                 rest <- read_cols missing tfs' (map (@tl string) body) ;;
                 Ok (col :: rest)
             end
      end
  end.

(* y: the loaded YAML header; rows: what csv.reader yields for the non-YAML lines *)
Definition read (y : yres) (rows : list (list string)) : res (list string * list (list cell)) :=
  match y with
  | YFail => Err EYaml
  | YLoaded s =>
      v <- validate_schema s ;;
      if negb v then Err SCSV
      else match sdelim s, smissing s, sfields s with
           | Some d, Some m, Some fs =>
               match o_delim_err O d with
               | Some e => Err e                                 (* csv.reader(...) *)
               | None =>
                   match rows with
                   | [] => Err EStop                             (* next(reader) *)
                   | hdr :: body =>
                       let names := map name_str fs in
                       if negb (list_str_eqb names (map strip hdr)) then Err SCSV
                       else if negb (o_nt_ok O names) then Err EValue     (* namedtuple(...) *)
                       else
                         tfs <- field_types fs ;;
                         cols <- read_cols m tfs body ;;
                         Ok (names, cols)
                   end
               end
           | _, _, _ => Err SCSV
           end
  end.

(* save_scsv -> file -> read_scsv *)
Definition read_back (s : schema) (y : yres) (data : list (list cell))
  : res (list string * list (list cell)) :=
  rows <- save s data ;;
  match sdelim s with
  | Some d => rows' <- o_transport O d rows ;; read y rows'
  | None => Err SCSV
  end.

(* ---------------------------------------------------------------- the domain of the round trip *)
Definition cell_eqb (a b : cell) : bool :=
  let feqb x y := match x, y with
                  | FNan, FNan => true
                  | FInf a, FInf b => Bool.eqb a b
                  | FFin a, FFin b => String.eqb a b
                  | _, _ => false end in
  match a, b with
  | CStr x, CStr y => String.eqb x y
  | CInt x, CInt y => Z.eqb x y
  | CFloat x, CFloat y => feqb x y
  | CBool x, CBool y => Bool.eqb x y
  | CCplx x1 x2, CCplx y1 y2 => feqb x1 y1 && feqb x2 y2
  | _, _ => false
  end.

Definition res_cell_eqb (r : res cell) (c : cell) : bool :=
  match r with Ok x => cell_eqb x c | Err _ => false end.

Definition kind_ok (t : ty) (d : cell) : bool :=
  match t, d with
  | TStr, CStr _ | TInt, CInt _ | TFloat, CFloat _ | TBool, CBool _ | TCplx, CCplx _ _ => true
  | _, _ => false
  end.

(* clauses of `representable`, per cell of a column of declared type t, fill value v *)
(* (1) the cell has the declared type *)
Definition cl_typed (t : ty) (d : cell) : bool := kind_ok t d.
(* (2) its text has no surrounding white space and no line break *)
Definition cl_plain (d : cell) : bool := plain (pystr d).
(* (3) the text layer round-trips it: t(str(d)) = d   (oracle hypothesis, instance-wise) *)
Definition cl_text_rt (t : ty) (d : cell) : bool :=
  match t with
  | TBool => match d with CBool b => Bool.eqb (parse_bool (pystr d)) b | _ => false end
  | _ => res_cell_eqb (conv t (YStr (pystr d))) d
  end.
(* (4) a cell that is written as the missing marker is identical to the fill value
       (not merely ==: signed zeros, complex NaNs) *)
Definition cl_fill_exact (t : ty) (v : yval) (d : cell) : bool :=
  match substituted t v d with
  | Ok true => res_cell_eqb (conv t v) d
  | Ok false => true
  | Err _ => false
  end.
(* (5) its text differs from the missing marker *)
Definition cl_not_missing (m : string) (d : cell) : bool := negb (String.eqb (pystr d) m).
(* (6) a one-column row is not the YAML fence *)
Definition out_text (m : string) (t : ty) (v : yval) (d : cell) : string :=
  match substituted t v d with Ok true => m | _ => pystr d end.
Definition cl_no_fence (ncols : nat) (m : string) (t : ty) (v : yval) (d : cell) : bool :=
  negb (Nat.eqb ncols 1 && String.eqb (out_text m t v d) "---").

Definition cell_ok (ncols : nat) (m : string) (t : ty) (v : yval) (d : cell) : bool :=
  cl_typed t d && cl_plain d && cl_text_rt t d && cl_fill_exact t v d
  && cl_not_missing m d && cl_no_fence ncols m t v d.

Fixpoint cols_ok (ncols nrows : nat) (m : string) (tfs : list (ty * yval)) (data : list (list cell)) : bool :=
  match tfs, data with
  | [], [] => true
  | (t, v) :: tfs', c :: data' =>
      Nat.eqb (length c) nrows && forallb (cell_ok ncols m t v) c && cols_ok ncols nrows m tfs' data'
  | _, _ => false                                   (* (7) one column per field *)
  end.

(* CSV-legal delimiter: one character, not a space (skipinitialspace), not the quote
   character, not a line break *)
Definition csv_legal (d : string) : bool :=
  Nat.eqb (utf8_len d) 1 && negb (mem_str d [" "; """"; String (ascii_of_N 10) ""; String (ascii_of_N 13) ""]).

Definition nrows_of (data : list (list cell)) : nat :=
  match data with c :: _ => length c | [] => 0 end.

(* schema-level clauses + per-cell clauses; nrows >= 1 *)
Definition representable (s : schema) (data : list (list cell)) : bool :=
  match sdelim s, smissing s, sfields s with
  | Some d, Some m, Some fs =>
      match field_types fs with
      | Ok tfs =>
          csv_legal d && plain m && negb (Nat.eqb (nrows_of data) 0)
          && forallb (fun n => plain n && negb (String.eqb n "---")) (map name_str fs)
          && o_nt_ok O (map name_str fs)
          && cols_ok (length fs) (nrows_of data) m tfs data
      | Err _ => false
      end
  | _, _, _ => false
  end.

(* the loaded header s' means what the caller's schema s meant *)
Fixpoint fills_faithful (fs fs' : list field) : bool :=
  match fs, fs' with
  | [], [] => true
  | f :: r, f' :: r' =>
      String.eqb (name_str f) (name_str f')
      && match typemap (type_of f), typemap (type_of f') with
         | Some t, Some t' =>
             ty_eqb t t'
             && (ty_eqb t TBool        (* a boolean field's fill is never written by save *)
                 || match conv t (fill_of f) with
                    | Ok c => res_cell_eqb (read_fill t (fill_of f')) c
                    | Err _ => false
                    end)
         | _, _ => false
         end
      && fills_faithful r r'
  | _, _ => false
  end.

Definition header_faithful (s : schema) (y : yres) : bool :=
  match y with
  | YFail => false
  | YLoaded s' =>
      match validate_schema s' with Ok true => true | _ => false end
      && match sdelim s, sdelim s', smissing s, smissing s', sfields s, sfields s' with
         | Some d, Some d', Some m, Some m', Some fs, Some fs' =>
             String.eqb d d' && String.eqb m m' && fills_faithful fs fs'
         | _, _, _, _, _, _ => false
         end
  end.

(* ---------------------------------------------------------------- parse_scsv_schema (terse) *)
(* str.find(c) for a one-character needle, below position `stop` *)
Fixpoint find_char (c : ascii) (s : string) (stop : nat) : option nat :=
  match stop with
  | 0 => None
  | S stop' => match s with
               | EmptyString => None
               | String x r => if Ascii.eqb x c then Some 0
                               else match find_char c r stop' with Some k => Some (S k) | None => None end
               end
  end.

(* the first k bytes of s are ASCII: up to k, byte offsets (what find_char returns) are code-point offsets (what
   Python's str.find returns and the comparisons `i_cols < 4`, `i_missing < 2` of parse_scsv_schema are about).
   Where this fails the position is outside the model (Err EUnmodelled), never a made-up number *)
Fixpoint ascii_prefix (s : string) (k : nat) : bool :=
  match k with
  | 0 => true
  | S k' => match s with
            | EmptyString => true
            | String c r => N.ltb (N_of_ascii c) 128 && ascii_prefix r k'
            end
  end.

(* s.split(c) for a one-character separator; `p` holds the piece being read *)
Fixpoint split_on (p : ascii -> bool) (s : string) : list string :=
  match s with
  | EmptyString => [EmptyString]
  | String x r =>
      if p x then EmptyString :: split_on p r
      else match split_on p r with
           | h :: t => String x h :: t
           | [] => [String x EmptyString]
           end
  end.

Definition is_paren (c : ascii) : bool := Ascii.eqb c "("%char || Ascii.eqb c ")"%char.
Definition is_colon (c : ascii) : bool := Ascii.eqb c ":"%char.

(* SCSV_TERSEMAP *)
Definition tersemap (t : string) : option string :=
  if String.eqb t "s" then Some "string"
  else if String.eqb t "i" then Some "integer"
  else if String.eqb t "f" then Some "float"
  else if String.eqb t "b" then Some "boolean"
  else if String.eqb t "c" then Some "complex"
  else None.

(* one (name, spec) pair of itertools.batched(raw_colspecs, 2) *)
Definition terse_field (name spec : string) : res field :=
  let sp := split_on is_colon spec in
  let t0 := hd "" sp in
  ty_name <- (if String.eqb t0 "" then Ok default_type
              else match tersemap t0 with Some t => Ok t | None => Err SCSV end) ;;
  Ok (mkField (Some (YStr name)) (Some ty_name)
              (Some (match sp with _ :: f :: _ => YStr f | _ => default_fill end))).

Fixpoint terse_fields (l : list string) : res (list field) :=
  match l with
  | name :: spec :: r => f <- terse_field name spec ;; fs <- terse_fields r ;; Ok (f :: fs)
  | _ => Ok []
  end.

Definition parse_terse (t : string) : res schema :=
  match t with
  | String "d"%char _ =>
      let n := String.length t in
      match find_char ":"%char t n with
      | None => Err SCSV                                  (* find = -1 < 4 *)
      | Some i_cols =>
          if negb (ascii_prefix t i_cols) then Err EUnmodelled      (* non-ASCII text before the first ':' *)
          else if Nat.ltb i_cols 4 then Err SCSV
          else match find_char "m"%char t i_cols with
               | None => Err SCSV
               | Some i_missing =>
                   if Nat.ltb i_missing 2 then Err SCSV
                   else
                     let delimiter := substring 1 (i_missing - 1) t in
                     let missing := substring (S i_missing) (i_cols - i_missing - 1) t in
                     let raw := removelast (split_on is_paren (substring (S i_cols) (n - i_cols - 1) t)) in
                     if Nat.ltb (length raw) 2 then Err SCSV
                     else if negb (Nat.even (length raw)) then Err SCSV
                     else fs <- terse_fields raw ;;
                          Ok (mkSchema (Some delimiter) (Some missing) (Some fs))
               end
      end
  | _ => Err SCSV
  end.

End Model.
