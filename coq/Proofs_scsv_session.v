(* Proofs_scsv_session.v -- `_parse_scsv_cell` behind a result cache (Model_memo): transparent on every call history iff the cache's
   key equality separates arguments with different results; Python's == / hash on the fill value does not (0 == 0.0 == -0.0 == False),
   so an lru_cache on (type, text, missing marker, fill) returns the fill of an EARLIER file (seeded change C16f). *)
From Coq Require Import String List ZArith Bool.
From PV Require Import Model_scsv Proofs_scsv Model_memo Proofs_memo.
Import ListNotations.
Open Scope string_scope.

Definition cellarg := (ty * string * string * yval)%type.

Definition pc (O : oracles) (a : cellarg) : res cell :=
  let '(t, d, m, v) := a in parse_cell O t d m v.

Definition ty_code (t : ty) : nat := match t with TStr => 0 | TInt => 1 | TFloat => 2 | TBool => 3 | TCplx => 4 end.

(* Python's == (and hash) on schema scalars, for the class of zeros and for strings -- all that the witness needs *)
Definition py_zero (v : yval) : bool :=
  match v with
  | YInt z => Z.eqb z 0
  | YBool b => negb b
  | YFloat (FFin s) => String.eqb s "0.0" || String.eqb s "-0.0"
  | _ => false
  end.
Definition py_eq (u v : yval) : bool :=
  (py_zero u && py_zero v) || match u, v with YStr a, YStr b => String.eqb a b | YNull, YNull => true | _, _ => false end.

Definition py_same (a b : cellarg) : bool :=
  let '(t1, d1, m1, v1) := a in let '(t2, d2, m2, v2) := b in
  Nat.eqb (ty_code t1) (ty_code t2) && String.eqb d1 d2 && String.eqb m1 m2 && py_eq v1 v2.

Theorem parse_cell_cache_transparent (O : oracles) (same : cellarg -> cellarg -> bool) :
  (forall a b, same a b = true -> pc O a = pc O b) ->
  forall ops, run (pc O) same false [] ops = spec (pc O) ops.
Proof. intros H ops. now apply memo_transparent_from_empty. Qed.

Definition wit_a : cellarg := (TStr, "NA", "NA", YInt 0).
Definition wit_b : cellarg := (TStr, "NA", "NA", YFloat (FFin "0.0")).

Theorem parse_cell_cache_python_equality_refuted :
  py_same wit_a wit_b = true /\
  run (pc toyO) py_same false [] [Call wit_a; Call wit_b] = [Ok (CStr "0"); Ok (CStr "0")] /\
  spec (pc toyO) [Call wit_a; Call wit_b] = [Ok (CStr "0"); Ok (CStr "0.0")].
Proof. repeat split; vm_compute; reflexivity. Qed.

(* signed zeros in a float column: -0.0 comes back as +0.0 *)
Theorem parse_cell_cache_signed_zero_refuted :
  let a : cellarg := (TFloat, "NA", "NA", YFloat (FFin "0.0")) in
  let b : cellarg := (TFloat, "NA", "NA", YFloat (FFin "-0.0")) in
  py_same a b = true /\
  run (pc toyO) py_same false [] [Call a; Call b] = [Ok (CFloat (FFin "0.0")); Ok (CFloat (FFin "0.0"))] /\
  spec (pc toyO) [Call a; Call b] = [Ok (CFloat (FFin "0.0")); Ok (CFloat (FFin "-0.0"))].
Proof. repeat split; vm_compute; reflexivity. Qed.
