(* Proofs_tensors_alg.v -- algebra of 4th-order tensors over R, independent of the
   generated code: single-index ("mode") products, the rotation as four mode products,
   composition, norm preservation, symmetry preservation.  Tensors are curried functions
   of four indices; only indices 0,1,2 matter. *)
From Coq Require Import Reals List Lra Lia Arith.
Import ListNotations.
Open Scope R_scope.

Definition T4 := nat -> nat -> nat -> nat -> R.
Definition M3 := nat -> nat -> R.

Definition sum3 (f : nat -> R) : R := f 0%nat + f 1%nat + f 2%nat.

Lemma sum3_ext f g : (forall a, (a < 3)%nat -> f a = g a) -> sum3 f = sum3 g.
Proof. intros H; unfold sum3; rewrite !H by lia; reflexivity. Qed.

Lemma sum3_swap (g : nat -> nat -> R) :
  sum3 (fun a => sum3 (fun b => g a b)) = sum3 (fun b => sum3 (fun a => g a b)).
Proof. unfold sum3; ring. Qed.

Lemma sum3_plus f g : sum3 (fun a => f a + g a) = sum3 f + sum3 g.
Proof. unfold sum3; ring. Qed.

Lemma sum3_scal c f : sum3 (fun a => c * f a) = c * sum3 f.
Proof. unfold sum3; ring. Qed.

(* pointwise equality, everywhere and on the index range *)
Definition eq4 (f g : T4) : Prop := forall a b c d, f a b c d = g a b c d.
Definition eq4b (f g : T4) : Prop :=
  forall a b c d, (a < 3)%nat -> (b < 3)%nat -> (c < 3)%nat -> (d < 3)%nat -> f a b c d = g a b c d.
Definition eq2b (A B : M3) : Prop :=
  forall a b, (a < 3)%nat -> (b < 3)%nat -> A a b = B a b.

Lemma eq4_eq4b f g : eq4 f g -> eq4b f g.
Proof. intros H a b c d _ _ _ _; apply H. Qed.
Lemma eq4b_refl f : eq4b f f.
Proof. intros a b c d _ _ _ _; reflexivity. Qed.
Lemma eq4b_sym f g : eq4b f g -> eq4b g f.
Proof. intros H a b c d ? ? ? ?; symmetry; apply H; assumption. Qed.
Lemma eq4b_trans f g h : eq4b f g -> eq4b g h -> eq4b f h.
Proof. intros H1 H2 a b c d ? ? ? ?; rewrite H1, H2 by assumption; reflexivity. Qed.

(* mode products:  (mp1 f Q)[i,b,c,d] = sum_a Q[i,a] f[a,b,c,d]  etc. *)
Definition mp1 (f : T4) (Q : M3) : T4 := fun i b c d => sum3 (fun a => Q i a * f a b c d).
Definition mp2 (f : T4) (Q : M3) : T4 := fun a j c d => sum3 (fun b => Q j b * f a b c d).
Definition mp3 (f : T4) (Q : M3) : T4 := fun a b k d => sum3 (fun c => Q k c * f a b c d).
Definition mp4 (f : T4) (Q : M3) : T4 := fun a b c l => sum3 (fun d => Q l d * f a b c d).

Definition rot4 (f : T4) (Q : M3) : T4 := mp4 (mp3 (mp2 (mp1 f Q) Q) Q) Q.

(* the textbook transformation law, as one 81-term sum *)
Definition rot4_law (f : T4) (Q : M3) : T4 := fun i j k l =>
  sum3 (fun a => sum3 (fun b => sum3 (fun c => sum3 (fun d =>
    Q i a * Q j b * Q k c * Q l d * f a b c d)))).

Lemma rot4_is_law f Q : eq4 (rot4 f Q) (rot4_law f Q).
Proof. intros i j k l; unfold rot4, rot4_law, mp1, mp2, mp3, mp4, sum3; ring. Qed.

Definition mm (A B : M3) : M3 := fun i j => sum3 (fun k => A i k * B k j).
Definition tr3 (A : M3) : M3 := fun i j => A j i.
Definition id3 : M3 := fun i j => if Nat.eqb i j then 1 else 0.

(* extensionality on the index range *)
Lemma mp1_extb f g Q : eq4b f g -> eq4b (mp1 f Q) (mp1 g Q).
Proof. intros H i b c d ? ? ? ?; unfold mp1; apply sum3_ext; intros a ?; rewrite H by assumption; reflexivity. Qed.
Lemma mp2_extb f g Q : eq4b f g -> eq4b (mp2 f Q) (mp2 g Q).
Proof. intros H a j c d ? ? ? ?; unfold mp2; apply sum3_ext; intros b ?; rewrite H by assumption; reflexivity. Qed.
Lemma mp3_extb f g Q : eq4b f g -> eq4b (mp3 f Q) (mp3 g Q).
Proof. intros H a b k d ? ? ? ?; unfold mp3; apply sum3_ext; intros c ?; rewrite H by assumption; reflexivity. Qed.
Lemma mp4_extb f g Q : eq4b f g -> eq4b (mp4 f Q) (mp4 g Q).
Proof. intros H a b c l ? ? ? ?; unfold mp4; apply sum3_ext; intros d ?; rewrite H by assumption; reflexivity. Qed.

Lemma rot4_extb f g Q : eq4b f g -> eq4b (rot4 f Q) (rot4 g Q).
Proof. intros H; unfold rot4; apply mp4_extb, mp3_extb, mp2_extb, mp1_extb, H. Qed.

Lemma mp1_extR f A B : eq2b A B -> eq4b (mp1 f A) (mp1 f B).
Proof. intros H i b c d ? ? ? ?; unfold mp1; apply sum3_ext; intros a ?; rewrite H by assumption; reflexivity. Qed.
Lemma mp2_extR f A B : eq2b A B -> eq4b (mp2 f A) (mp2 f B).
Proof. intros H a j c d ? ? ? ?; unfold mp2; apply sum3_ext; intros b ?; rewrite H by assumption; reflexivity. Qed.
Lemma mp3_extR f A B : eq2b A B -> eq4b (mp3 f A) (mp3 f B).
Proof. intros H a b k d ? ? ? ?; unfold mp3; apply sum3_ext; intros c ?; rewrite H by assumption; reflexivity. Qed.
Lemma mp4_extR f A B : eq2b A B -> eq4b (mp4 f A) (mp4 f B).
Proof. intros H a b c l ? ? ? ?; unfold mp4; apply sum3_ext; intros d ?; rewrite H by assumption; reflexivity. Qed.

Lemma rot4_extR f A B : eq2b A B -> eq4b (rot4 f A) (rot4 f B).
Proof.
  intros H; unfold rot4.
  eapply eq4b_trans; [apply mp4_extR, H|]. apply mp4_extb.
  eapply eq4b_trans; [apply mp3_extR, H|]. apply mp3_extb.
  eapply eq4b_trans; [apply mp2_extR, H|]. apply mp2_extb.
  apply mp1_extR, H.
Qed.

(* everywhere-extensionality (for chaining the generic identities) *)
Lemma mp1_ext f g Q : eq4 f g -> eq4 (mp1 f Q) (mp1 g Q).
Proof. intros H i b c d; unfold mp1, sum3; rewrite !H; reflexivity. Qed.
Lemma mp2_ext f g Q : eq4 f g -> eq4 (mp2 f Q) (mp2 g Q).
Proof. intros H i b c d; unfold mp2, sum3; rewrite !H; reflexivity. Qed.
Lemma mp3_ext f g Q : eq4 f g -> eq4 (mp3 f Q) (mp3 g Q).
Proof. intros H i b c d; unfold mp3, sum3; rewrite !H; reflexivity. Qed.
Lemma mp4_ext f g Q : eq4 f g -> eq4 (mp4 f Q) (mp4 g Q).
Proof. intros H i b c d; unfold mp4, sum3; rewrite !H; reflexivity. Qed.
Lemma eq4_trans f g h : eq4 f g -> eq4 g h -> eq4 f h.
Proof. intros H1 H2 a b c d; rewrite H1, H2; reflexivity. Qed.
Lemma eq4_sym f g : eq4 f g -> eq4 g f.
Proof. intros H a b c d; symmetry; apply H. Qed.

(* same mode: composition is the matrix product; different modes commute *)
Lemma mp1_mp1 f A B : eq4 (mp1 (mp1 f A) B) (mp1 f (mm B A)).
Proof. intros i b c d; unfold mp1, mm, sum3; ring. Qed.
Lemma mp2_mp2 f A B : eq4 (mp2 (mp2 f A) B) (mp2 f (mm B A)).
Proof. intros i b c d; unfold mp2, mm, sum3; ring. Qed.
Lemma mp3_mp3 f A B : eq4 (mp3 (mp3 f A) B) (mp3 f (mm B A)).
Proof. intros i b c d; unfold mp3, mm, sum3; ring. Qed.
Lemma mp4_mp4 f A B : eq4 (mp4 (mp4 f A) B) (mp4 f (mm B A)).
Proof. intros i b c d; unfold mp4, mm, sum3; ring. Qed.

Lemma mp1_mp2 f A B : eq4 (mp1 (mp2 f A) B) (mp2 (mp1 f B) A).
Proof. intros i b c d; unfold mp1, mp2, sum3; ring. Qed.
Lemma mp1_mp3 f A B : eq4 (mp1 (mp3 f A) B) (mp3 (mp1 f B) A).
Proof. intros i b c d; unfold mp1, mp3, sum3; ring. Qed.
Lemma mp1_mp4 f A B : eq4 (mp1 (mp4 f A) B) (mp4 (mp1 f B) A).
Proof. intros i b c d; unfold mp1, mp4, sum3; ring. Qed.
Lemma mp2_mp3 f A B : eq4 (mp2 (mp3 f A) B) (mp3 (mp2 f B) A).
Proof. intros i b c d; unfold mp2, mp3, sum3; ring. Qed.
Lemma mp2_mp4 f A B : eq4 (mp2 (mp4 f A) B) (mp4 (mp2 f B) A).
Proof. intros i b c d; unfold mp2, mp4, sum3; ring. Qed.
Lemma mp3_mp4 f A B : eq4 (mp3 (mp4 f A) B) (mp4 (mp3 f B) A).
Proof. intros i b c d; unfold mp3, mp4, sum3; ring. Qed.

(* rotate (rotate f A) B = rotate f (B.A), for all matrices A, B *)
Theorem rot4_compose f A B : eq4 (rot4 (rot4 f A) B) (rot4 f (mm B A)).
Proof.
  unfold rot4.
  set (C := mm B A).
  (* bring each  mp_k _ B  next to  mp_k _ A *)
  apply eq4_trans with (mp4 (mp3 (mp2 (mp4 (mp3 (mp2 (mp1 (mp1 f A) B) A) A) A) B) B) B).
  { apply mp4_ext, mp3_ext, mp2_ext.
    eapply eq4_trans; [apply mp1_mp4|]. apply mp4_ext.
    eapply eq4_trans; [apply mp1_mp3|]. apply mp3_ext.
    apply mp1_mp2. }
  apply eq4_trans with (mp4 (mp3 (mp4 (mp3 (mp2 (mp2 (mp1 (mp1 f A) B) A) B) A) A) B) B).
  { apply mp4_ext, mp3_ext.
    eapply eq4_trans; [apply mp2_mp4|]. apply mp4_ext.
    apply mp2_mp3. }
  apply eq4_trans with (mp4 (mp4 (mp3 (mp3 (mp2 (mp2 (mp1 (mp1 f A) B) A) B) A) B) A) B).
  { apply mp4_ext. apply mp3_mp4. }
  eapply eq4_trans; [apply mp4_mp4|]. apply mp4_ext.
  eapply eq4_trans; [apply mp3_mp3|]. apply mp3_ext.
  eapply eq4_trans; [apply mp2_mp2|]. apply mp2_ext.
  apply mp1_mp1.
Qed.

(* identity *)
Ltac three_cases a := destruct a as [|[|[|a]]]; [ | | | exfalso; lia ].
Lemma mp1_id f : eq4b (mp1 f id3) f.
Proof. intros a b c d Ha _ _ _; three_cases a; unfold mp1, sum3, id3; cbn [Nat.eqb]; ring. Qed.
Lemma mp2_id f : eq4b (mp2 f id3) f.
Proof. intros a b c d _ Hb _ _; three_cases b; unfold mp2, sum3, id3; cbn [Nat.eqb]; ring. Qed.
Lemma mp3_id f : eq4b (mp3 f id3) f.
Proof. intros a b c d _ _ Hc _; three_cases c; unfold mp3, sum3, id3; cbn [Nat.eqb]; ring. Qed.
Lemma mp4_id f : eq4b (mp4 f id3) f.
Proof. intros a b c d _ _ _ Hd; three_cases d; unfold mp4, sum3, id3; cbn [Nat.eqb]; ring. Qed.

Lemma rot4_id f : eq4b (rot4 f id3) f.
Proof.
  unfold rot4.
  eapply eq4b_trans; [apply mp4_id|]. eapply eq4b_trans; [apply mp3_id|].
  eapply eq4b_trans; [apply mp2_id|]. apply mp1_id.
Qed.

(* ---------------------------------------------------------------------- *)
(* norm                                                                    *)
(* ---------------------------------------------------------------------- *)
Definition norm4 (f : T4) : R :=
  sum3 (fun a => sum3 (fun b => sum3 (fun c => sum3 (fun d => f a b c d * f a b c d)))).

Lemma norm4_extb f g : eq4b f g -> norm4 f = norm4 g.
Proof.
  intros H; unfold norm4. apply sum3_ext; intros a ?. apply sum3_ext; intros b ?.
  apply sum3_ext; intros c ?. apply sum3_ext; intros d ?. rewrite H by assumption. reflexivity.
Qed.

(* R^T R = I  (orthonormal columns) *)
Definition orth (Q : M3) : Prop :=
  forall a e, (a < 3)%nat -> (e < 3)%nat ->
    sum3 (fun i => Q i a * Q i e) = if Nat.eqb a e then 1 else 0.

Lemma orth_vec Q (v : nat -> R) : orth Q ->
  sum3 (fun i => sum3 (fun a => Q i a * v a) * sum3 (fun a => Q i a * v a))
  = sum3 (fun a => v a * v a).
Proof.
  intros H.
  pose proof (H 0 0 ltac:(lia) ltac:(lia))%nat as H00. pose proof (H 0 1 ltac:(lia) ltac:(lia))%nat as H01.
  pose proof (H 0 2 ltac:(lia) ltac:(lia))%nat as H02. pose proof (H 1 1 ltac:(lia) ltac:(lia))%nat as H11.
  pose proof (H 1 2 ltac:(lia) ltac:(lia))%nat as H12. pose proof (H 2 2 ltac:(lia) ltac:(lia))%nat as H22.
  cbn [Nat.eqb] in *. unfold sum3 in *.
  transitivity (
    (Q 0%nat 0%nat * Q 0%nat 0%nat + Q 1%nat 0%nat * Q 1%nat 0%nat + Q 2%nat 0%nat * Q 2%nat 0%nat) * (v 0%nat * v 0%nat)
    + (Q 0%nat 1%nat * Q 0%nat 1%nat + Q 1%nat 1%nat * Q 1%nat 1%nat + Q 2%nat 1%nat * Q 2%nat 1%nat) * (v 1%nat * v 1%nat)
    + (Q 0%nat 2%nat * Q 0%nat 2%nat + Q 1%nat 2%nat * Q 1%nat 2%nat + Q 2%nat 2%nat * Q 2%nat 2%nat) * (v 2%nat * v 2%nat)
    + 2 * (Q 0%nat 0%nat * Q 0%nat 1%nat + Q 1%nat 0%nat * Q 1%nat 1%nat + Q 2%nat 0%nat * Q 2%nat 1%nat) * (v 0%nat * v 1%nat)
    + 2 * (Q 0%nat 0%nat * Q 0%nat 2%nat + Q 1%nat 0%nat * Q 1%nat 2%nat + Q 2%nat 0%nat * Q 2%nat 2%nat) * (v 0%nat * v 2%nat)
    + 2 * (Q 0%nat 1%nat * Q 0%nat 2%nat + Q 1%nat 1%nat * Q 1%nat 2%nat + Q 2%nat 1%nat * Q 2%nat 2%nat) * (v 1%nat * v 2%nat)).
  { ring. }
  rewrite H00, H01, H02, H11, H12, H22. ring.
Qed.

Lemma norm4_mp1 f Q : orth Q -> norm4 (mp1 f Q) = norm4 f.
Proof.
  intros H.
  transitivity (sum3 (fun b => sum3 (fun c => sum3 (fun d => sum3 (fun i =>
                  mp1 f Q i b c d * mp1 f Q i b c d))))).
  { unfold norm4, sum3; ring. }
  transitivity (sum3 (fun b => sum3 (fun c => sum3 (fun d => sum3 (fun a => f a b c d * f a b c d))))).
  { apply sum3_ext; intros b _. apply sum3_ext; intros c _. apply sum3_ext; intros d _.
    unfold mp1. apply (orth_vec Q (fun a => f a b c d) H). }
  unfold norm4, sum3; ring.
Qed.

Lemma norm4_mp2 f Q : orth Q -> norm4 (mp2 f Q) = norm4 f.
Proof.
  intros H.
  transitivity (sum3 (fun a => sum3 (fun c => sum3 (fun d => sum3 (fun j =>
                  mp2 f Q a j c d * mp2 f Q a j c d))))).
  { unfold norm4, sum3; ring. }
  transitivity (sum3 (fun a => sum3 (fun c => sum3 (fun d => sum3 (fun b => f a b c d * f a b c d))))).
  { apply sum3_ext; intros a _. apply sum3_ext; intros c _. apply sum3_ext; intros d _.
    unfold mp2. apply (orth_vec Q (fun b => f a b c d) H). }
  unfold norm4, sum3; ring.
Qed.

Lemma norm4_mp3 f Q : orth Q -> norm4 (mp3 f Q) = norm4 f.
Proof.
  intros H.
  transitivity (sum3 (fun a => sum3 (fun b => sum3 (fun d => sum3 (fun k =>
                  mp3 f Q a b k d * mp3 f Q a b k d))))).
  { unfold norm4, sum3; ring. }
  transitivity (sum3 (fun a => sum3 (fun b => sum3 (fun d => sum3 (fun c => f a b c d * f a b c d))))).
  { apply sum3_ext; intros a _. apply sum3_ext; intros b _. apply sum3_ext; intros d _.
    unfold mp3. apply (orth_vec Q (fun c => f a b c d) H). }
  unfold norm4, sum3; ring.
Qed.

Lemma norm4_mp4 f Q : orth Q -> norm4 (mp4 f Q) = norm4 f.
Proof.
  intros H. unfold norm4.
  apply sum3_ext; intros a _. apply sum3_ext; intros b _. apply sum3_ext; intros c _.
  unfold mp4. apply (orth_vec Q (fun d => f a b c d) H).
Qed.

Theorem norm4_rot4 f Q : orth Q -> norm4 (rot4 f Q) = norm4 f.
Proof.
  intros H; unfold rot4.
  rewrite norm4_mp4, norm4_mp3, norm4_mp2, norm4_mp1 by assumption. reflexivity.
Qed.

(* ---------------------------------------------------------------------- *)
(* symmetries                                                              *)
(* ---------------------------------------------------------------------- *)
Definition sw12 (f : T4) : T4 := fun a b c d => f b a c d.
Definition sw34 (f : T4) : T4 := fun a b c d => f a b d c.
Definition swMaj (f : T4) : T4 := fun a b c d => f c d a b.

Lemma rot4_sw12 f Q : eq4 (rot4 (sw12 f) Q) (sw12 (rot4 f Q)).
Proof.
  unfold rot4, sw12. intros i j k l.
  change (mp4 (mp3 (mp2 (mp1 (fun a b c d => f b a c d) Q) Q) Q) Q i j k l
          = mp4 (mp3 (mp2 (mp1 f Q) Q) Q) Q j i k l).
  unfold mp1, mp2, mp3, mp4, sum3; ring.
Qed.

Lemma rot4_sw34 f Q : eq4 (rot4 (sw34 f) Q) (sw34 (rot4 f Q)).
Proof. unfold rot4, sw34. intros i j k l. unfold mp1, mp2, mp3, mp4, sum3; ring. Qed.

Lemma rot4_swMaj f Q : eq4 (rot4 (swMaj f) Q) (swMaj (rot4 f Q)).
Proof. unfold rot4, swMaj. intros i j k l. unfold mp1, mp2, mp3, mp4, sum3; ring. Qed.

(* elastic symmetries (minor, minor, major) on the index range *)
Definition elastic_sym (f : T4) : Prop :=
  eq4b (sw12 f) f /\ eq4b (sw34 f) f /\ eq4b (swMaj f) f.

Lemma sw12_b f g : eq4b f g -> eq4b (sw12 f) (sw12 g).
Proof. intros H a b c d ? ? ? ?; unfold sw12; apply H; assumption. Qed.
Lemma sw34_b f g : eq4b f g -> eq4b (sw34 f) (sw34 g).
Proof. intros H a b c d ? ? ? ?; unfold sw34; apply H; assumption. Qed.
Lemma swMaj_b f g : eq4b f g -> eq4b (swMaj f) (swMaj g).
Proof. intros H a b c d ? ? ? ?; unfold swMaj; apply H; assumption. Qed.

Theorem rot4_elastic_sym f Q : elastic_sym f -> elastic_sym (rot4 f Q).
Proof.
  intros (H1 & H2 & H3). repeat split.
  - eapply eq4b_trans; [apply eq4b_sym, eq4_eq4b, rot4_sw12|]. apply rot4_extb, H1.
  - eapply eq4b_trans; [apply eq4b_sym, eq4_eq4b, rot4_sw34|]. apply rot4_extb, H2.
  - eapply eq4b_trans; [apply eq4b_sym, eq4_eq4b, rot4_swMaj|]. apply rot4_extb, H3.
Qed.

(* linearity of the rotation in the tensor *)
Lemma rot4_linear f g (c e : R) Rm :
  eq4 (rot4 (fun a b p q => c * f a b p q + e * g a b p q) Rm)
      (fun a b p q => c * rot4 f Rm a b p q + e * rot4 g Rm a b p q).
Proof. intros i j k l. unfold rot4, mp1, mp2, mp3, mp4, sum3; ring. Qed.

(* full contractions  d_ij = f_ijkk,  v_ik = f_ijkj  and how they rotate *)
Definition dil4 (f : T4) : M3 := fun i j => sum3 (fun k => f i j k k).
Definition dev4 (f : T4) : M3 := fun i k => sum3 (fun j => f i j k j).

Lemma orth_rows_pair Q (g : nat -> nat -> R) : orth Q ->
  sum3 (fun k => sum3 (fun c => sum3 (fun d => Q k c * Q k d * g c d))) = sum3 (fun c => g c c).
Proof.
  intros H.
  pose proof (H 0 0 ltac:(lia) ltac:(lia))%nat as H00. pose proof (H 0 1 ltac:(lia) ltac:(lia))%nat as H01.
  pose proof (H 0 2 ltac:(lia) ltac:(lia))%nat as H02. pose proof (H 1 1 ltac:(lia) ltac:(lia))%nat as H11.
  pose proof (H 1 2 ltac:(lia) ltac:(lia))%nat as H12. pose proof (H 2 2 ltac:(lia) ltac:(lia))%nat as H22.
  cbn [Nat.eqb] in *. unfold sum3 in *.
  transitivity (
    (Q 0%nat 0%nat * Q 0%nat 0%nat + Q 1%nat 0%nat * Q 1%nat 0%nat + Q 2%nat 0%nat * Q 2%nat 0%nat) * (g 0%nat 0%nat)
    + (Q 0%nat 1%nat * Q 0%nat 1%nat + Q 1%nat 1%nat * Q 1%nat 1%nat + Q 2%nat 1%nat * Q 2%nat 1%nat) * (g 1%nat 1%nat)
    + (Q 0%nat 2%nat * Q 0%nat 2%nat + Q 1%nat 2%nat * Q 1%nat 2%nat + Q 2%nat 2%nat * Q 2%nat 2%nat) * (g 2%nat 2%nat)
    + (Q 0%nat 0%nat * Q 0%nat 1%nat + Q 1%nat 0%nat * Q 1%nat 1%nat + Q 2%nat 0%nat * Q 2%nat 1%nat) * (g 0%nat 1%nat + g 1%nat 0%nat)
    + (Q 0%nat 0%nat * Q 0%nat 2%nat + Q 1%nat 0%nat * Q 1%nat 2%nat + Q 2%nat 0%nat * Q 2%nat 2%nat) * (g 0%nat 2%nat + g 2%nat 0%nat)
    + (Q 0%nat 1%nat * Q 0%nat 2%nat + Q 1%nat 1%nat * Q 1%nat 2%nat + Q 2%nat 1%nat * Q 2%nat 2%nat) * (g 1%nat 2%nat + g 2%nat 1%nat)).
  { ring. }
  rewrite H00, H01, H02, H11, H12, H22. ring.
Qed.

(* flat row-major arrays seen as curried tensors / matrices *)
Definition t4 (a : nat -> R) : T4 := fun p q r s => a (27 * p + 9 * q + 3 * r + s)%nat.
Definition mat3 (a : nat -> R) : M3 := fun i j => a (3 * i + j)%nat.
Definition mat6 (a : nat -> R) : nat -> nat -> R := fun i j => a (6 * i + j)%nat.
