(* Entry.v -- flat-list entry points of the executable models, used by the extracted
   OCaml driver for the correspondence runs (inputs and outputs are flat float lists). *)
From Coq Require Import ZArith List Bool.
From PV Require Import Num Model_core Spec_drex Model_minerals.
From PV.gen Require Import Gen_core.
Import ListNotations.

Section Entry.
  Context {F : Num}.
  Definition aol (l : list F) : arr F := mk_arr zero l.

  Fixpoint chunks (w n : nat) (l : list F) : list (arr F) :=
    match n with
    | O => []
    | S n' => aol (firstn w l) :: chunks w n' (skipn w l)
    end.

  Definition take (k : nat) (st : list F) : list F * list F := (firstn k st, skipn k st).

  (* pydrex.core.derivatives, any n: O(9n) f(n) D(9) L(9) S(9) p n lam M phi *)
  Definition run_derivs (regime phase fabric : Z) (n : nat) (xs : list F) : res (list F) :=
    let os := chunks 9 n xs in
    let '(fs, r) := take n (skipn (9 * n) xs) in
    let '(D, r) := take 9 r in
    let '(L, r) := take 9 r in
    let '(Sp, r) := take 9 r in
    match r with
    | [p; nn; lam; M; phi] =>
        match derivs regime phase fabric os fs (aol D) (aol L) (aol Sp) p nn lam M phi with
        | Err e => Err e
        | Ok (ads, fds) => Ok (flat_map (arr_to_list 9) ads ++ fds)
        end
    | _ => Err OtherError
    end.

  (* the published model (Spec_drex), same calling convention *)
  Definition run_spec_derivs (regime phase fabric : Z) (n : nat) (xs : list F) : res (list F) :=
    let os := chunks 9 n xs in
    let '(fs, r) := take n (skipn (9 * n) xs) in
    let '(D, r) := take 9 r in
    let '(L, r) := take 9 r in
    let '(Sp, r) := take 9 r in
    match r with
    | [p; nn; lam; M; phi] =>
        match spec_derivs regime phase fabric os fs (aol D) (aol L) p nn lam M phi with
        | Err e => Err e
        | Ok (ads, fds) => Ok (flat_map (arr_to_list 9) ads ++ fds)
        end
    | _ => Err OtherError
    end.

  (* the generated fixed-size versions, same calling convention *)
  Definition run_kderivs (regime phase fabric : Z) (n : nat) (xs : list F) : res (list F) :=
    let O := aol (firstn (9 * n) xs) in
    let '(fs, r) := take n (skipn (9 * n) xs) in
    let '(D, r) := take 9 r in
    let '(L, r) := take 9 r in
    let '(Sp, r) := take 9 r in
    match r with
    | [p; nn; lam; M; phi] =>
        let k := match n with
                 | 1%nat => Some (k_derivatives_n1 regime phase fabric O (aol fs) (aol D) (aol L) (aol Sp) p nn lam M phi)
                 | 2%nat => Some (k_derivatives_n2 regime phase fabric O (aol fs) (aol D) (aol L) (aol Sp) p nn lam M phi)
                 | 3%nat => Some (k_derivatives_n3 regime phase fabric O (aol fs) (aol D) (aol L) (aol Sp) p nn lam M phi)
                 | _ => None
                 end in
        match k with
        | Some (Ok (a, f)) => Ok (arr_to_list (9 * n) a ++ arr_to_list n f)
        | Some (Err e) => Err e
        | None => Err OtherError
        end
    | _ => Err OtherError
    end.

  (* ---- minerals glue ---------------------------------------------------------- *)
  (* extract_vars: y(9+10n) -> F(9) ++ o(9n) ++ f(n) *)
  Definition run_extract_vars (n : nat) (xs : list F) : res (list F) :=
    Ok (ev_F xs ++ ev_o xs n ++ ev_f xs n).

  (* apply_gbs: chi, o(9n), f(n), prev(9n) -> o'(9n) ++ f'(n) *)
  Definition run_apply_gbs (n : nat) (xs : list F) : res (list F) :=
    match xs with
    | chi :: r =>
        let '(o, r) := take (9 * n) r in
        let '(f, r) := take n r in
        let '(pv, r) := take (9 * n) r in
        Ok (concat (gbs_orient chi n (chunks9 o n) (chunks9 pv n) f) ++ gbs_fracs chi n f)
    | _ => Err OtherError
    end.

  (* update: chi, prev_o(9n), y(9+10n) -> F(9) ++ o(9n) ++ f(n) *)
  Definition run_update (n : nat) (xs : list F) : res (list F) :=
    match xs with
    | chi :: r =>
        let '(pv, r) := take (9 * n) r in
        let '(Fb, s) := update n chi {| sn_o := chunks9 pv n; sn_f := [] |} r in
        Ok (Fb ++ concat (sn_o s) ++ sn_f s)
    | _ => Err OtherError
    end.

  (* eval_rhs: ints regime ph fb n a1..ak ; floats fractions(k) L(9) s Sd(9) p nn lam M y *)
  Definition run_rhs (regime ph fb : Z) (n : nat) (assemblage : list Z) (xs : list F) : res (list F) :=
    let '(fr, r) := take (length assemblage) xs in
    let '(L, r) := take 9 r in
    match r with
    | s :: r =>
        let '(Sd, r) := take 9 r in
        match r with
        | p :: nn :: lam :: M :: y => rhs regime ph fb n assemblage fr L s Sd p nn lam M y
        | _ => Err OtherError
        end
    | _ => Err OtherError
    end.
  (* the LSODA problem instance: Fd(9), prev_o(9n), prev_f(n), t0, t1 ->
     t0, y0(9+10n), t_bound, atol(9+10n), rtol, first_step *)
  Definition run_problem (n : nat) (xs : list F) : res (list F) :=
    let '(Fd, r) := take 9 xs in
    let '(o, r) := take (9 * n) r in
    let '(f, r) := take n r in
    match r with
    | [t0; t1] =>
        let P := lsoda_problem_of Fd {| sn_o := chunks9 o n; sn_f := f |} t0 t1 in
        Ok (lp_t0 P :: lp_y0 P ++ lp_tb P :: lp_atol P ++ [lp_rtol P; lp_first P])
    | _ => Err OtherError
    end.
End Entry.
