(* Findings/C18_cell.v -- KNOWN FINDING C18:cell_2d:gradient-vertical-row-exchanged.
   The full statements "the gradient callable of cell_2d is the Jacobian of its velocity
   callable" and "... is trace-free" are FALSE of the generated kernels: witness
   horizontal X, vertical Z, velocity_edge 1, edge_length 2, the cell centre (0, 0, 0)
   (the doctest of cell_2d pins exactly this matrix).  What does hold is C18_cell_partial.
   This file stops compiling when the defect is repaired in /repo. *)
From Coq Require Import Reals ZArith List Lra Lia.
From Coquelicot Require Import Coquelicot.
From PV Require Import Num NumR Model_pathlines Proofs_velocity.
From PV.gen Require Import Gen_velocity.
Import ListNotations.
Open Scope R_scope.

Theorem C18_cell_grad_is_jacobian_refuted :
  exists (t : R) (x : arr R) (G : arr R),
    @wrapper_gradient NumR 1 0 2 [1; 2] t x = Ok G /\
    (* the [Z, Z] entry is -pi/2 but d u_Z / d x_Z = 0 at the centre *)
    G 8%nat = - (PI / 2) /\
    is_derive (fun s => cell_field 0 2 1 2 (upd x 2 s) 2) (x 2%nat) 0 /\
    ~ is_derive (fun s => cell_field 0 2 1 2 (upd x 2 s) 2) (x 2%nat) (G 8%nat) /\
    (* and the trace is not zero *)
    G 0%nat + G 4%nat + G 8%nat = - (PI / 2) /\ G 0%nat + G 4%nat + G 8%nat <> 0.
Proof.
  pose proof PI_RGT_0 as Hpi.
  exists 0, (fun _ => 0).
  assert (E : @wrapper_indices NumR 1 0 2 [1; 2] = Ok (0%nat, 2%nat)).
  { rewrite axes_map_proof; [reflexivity| | |]; unfold letter_ok, no_neg_edge; try lia; lra. }
  assert (Hp : pair_ok 0 2) by (unfold pair_ok; lia).
  assert (Hin : in_cell 2 0 0).
  { unfold in_cell. rewrite Rabs_R0. repeat split; lra. }
  destruct (cell_gradient_char 0 2 1 2 0 (fun _ => 0) Hp Hin) as (G & EG & HG).
  exists G. unfold wrapper_gradient. rewrite E. split; [exact EG|].
  assert (E8 : G 8%nat = - (PI / 2)).
  { pose proof (HG 2 2 ltac:(lia) ltac:(lia))%nat as H8. cbn [Nat.mul Nat.add] in H8. rewrite H8.
    unfold planar_mat, cell_dh_uv. cbn [Nat.eqb]. change (T NumR) with R.
    replace (PI * 0 / 2) with 0 by field. rewrite cos_0. field. }
  assert (D : is_derive (fun s => cell_field 0 2 1 2 (upd (fun _ => 0) 2 s) 2) 0 0).
  { pose proof (cell_jacobian 0 2 1 2 (fun _ => 0) ltac:(lia) ltac:(lra) 2%nat 2%nat) as H.
    cbn [planar_mat Nat.eqb] in H. unfold cell_dv_uv in H.
    replace (PI * 0 / 2) with 0 in H by field. rewrite sin_0 in H.
    replace (1 * (PI / 2) * 0 * 0) with 0 in H by ring. exact H. }
  pose proof (cell_trace 0 2 1 2 0 (fun _ => 0) G Hp Hin EG) as Ht. cbv beta in Ht.
  replace (PI * 0 / 2 - PI * 0 / 2) with 0 in Ht by field. rewrite cos_0 in Ht.
  split; [exact E8|]. split; [exact D|]. split; [|split].
  - intros H. apply is_derive_unique in H. apply is_derive_unique in D. rewrite D in H. lra.
  - rewrite Ht. field.
  - rewrite Ht. lra.
Qed.
