(* Findings/C14_quat.v -- open findings about utils.quat_product / symmetry_operations, as
   theorems about the faithful model (Dropped variant). *)
From Coq Require Import Reals ZArith List Lra.
From PV Require Import Num NumR Model_mindex Proofs_mindex.
Import ListNotations.
Open Scope R_scope.

(* the product the source computes loses the cross term and is not norm preserving *)
Theorem C14_dropped_product_is_not_hamilton :
  @qprod NumR Dropped (1, 0, 0, 0) (0, 1, 0, 0) <> hmul (1, 0, 0, 0) (0, 1, 0, 0).
Proof.
  destruct dropped_product_refuted as (A & B & _). rewrite A, B. intros E. injection E; intros; lra.
Qed.

(* under the Dropped product a two-fold "rotation" operator is a projection: it maps the
   unit quaternion (1,0,0,0) to 0, so the operator-multiplied quaternions are not unit *)
Theorem C14_dropped_operator_not_isometry :
  qnorm2 (apply_op Dropped (@Rot NumR (0, 0, 1, 0)) (1, 0, 0, 0)) = 0.
Proof. unfold qnorm2. cbv [apply_op qprod qdot qx qy qz qw fst snd]. numR. ring. Qed.
