(* Findings/C14_gen.v -- the open findings of C14 as theorems about the GENERATED code
   (coq/gen/Gen_mindex.v, regenerated from the source on every run). *)
From Coq Require Import Reals ZArith List Lra.
From PV Require Import Num NumR Model_mindex Proofs_mindex Proofs_mindex_mass Inst_mindex Proofs_mindex_gen.
From PV.gen Require Import Gen_mindex.
Import ListNotations.
Open Scope R_scope.

(* the generated quat_product is not the quaternion product *)
Theorem C14_gen_quat_product_is_not_hamilton :
  qat (@k_quat_product NumR (mk_arr 0 [1; 0; 0; 0]) (mk_arr 0 [0; 1; 0; 0])) 0 <> hmul (1, 0, 0, 0) (0, 1, 0, 0).
Proof.
  destruct gen_quat_product_refuted as [A B]. rewrite B. unfold qat.
  rewrite !A by repeat constructor. intros E. injection E; intros; lra.
Qed.

(* the generated densities: tetragonal and hexagonal do not integrate to 1, rhombohedral raises *)
Theorem C14_gen_theory_mass_tetragonal_refuted :
  exists th, gen_theory Tetragonal = Ok th /\ rsum th <= 95 / 100.
Proof. rewrite gen_theory_inst. exact (ex_intro _ _ (conj theory_tetragonal mass_tetragonal)). Qed.

Theorem C14_gen_theory_mass_hexagonal_refuted :
  exists th, gen_theory Hexagonal = Ok th /\ rsum th <= 98 / 100.
Proof. rewrite gen_theory_inst. exact (ex_intro _ _ (conj theory_hexagonal mass_hexagonal)). Qed.

Theorem C14_gen_rhombohedral_raises : exists e, gen_theory Rhombohedral = Err e.
Proof. exact gen_rhombohedral_raises. Qed.
