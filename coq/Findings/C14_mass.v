(* Findings/C14_mass.v -- open findings about stats.misorientations_random, as theorems about
   the faithful model: the tetragonal and hexagonal densities do not integrate to 1. *)
From Coq Require Import Reals ZArith List.
From PV Require Import Num NumR Model_mindex Proofs_mindex Proofs_mindex_mass.
Import ListNotations.
Open Scope R_scope.

Theorem C14_theory_mass_tetragonal_refuted :
  exists th, @theory NumR Tetragonal = Ok th /\ rsum th <= 95 / 100.
Proof. exact (ex_intro _ _ (conj theory_tetragonal mass_tetragonal)). Qed.

Theorem C14_theory_mass_hexagonal_refuted :
  exists th, @theory NumR Hexagonal = Ok th /\ rsum th <= 98 / 100.
Proof. exact (ex_intro _ _ (conj theory_hexagonal mass_hexagonal)). Qed.

(* rhombohedral: misorientations_random raises AssertionError for the edge 105 (every bin from
   104 on), so the theoretical histogram -- and the index -- is an error *)
Theorem C14_rhombohedral_density_undefined :
  @density_edge NumR Rhombohedral (edge 105) = Err AssertionError /\
  exists e, @theory NumR Rhombohedral = Err e.
Proof. exact (conj density_rhombohedral_105 theory_rhombohedral_error). Qed.
