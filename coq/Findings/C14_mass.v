(* Findings/C14_mass.v -- open findings about stats.misorientations_random, as theorems about
   the faithful model: the tetragonal and hexagonal densities do not integrate to 1. *)
From Coq Require Import Reals ZArith List Lra.
From PV Require Import Num NumR Model_mindex Proofs_mindex Proofs_mindex_mass
  Proofs_mindex_single_tm Proofs_mindex_single_thm.
Import ListNotations.
Open Scope R_scope.

Theorem C14_theory_mass_tetragonal_refuted :
  exists th, @theory NumR Tetragonal = Ok th /\ rsum th <= 95 / 100.
Proof. exact (ex_intro _ _ (conj theory_tetragonal mass_tetragonal)). Qed.

Theorem C14_theory_mass_hexagonal_refuted :
  exists th, @theory NumR Hexagonal = Ok th /\ rsum th <= 98 / 100.
Proof. exact (ex_intro _ _ (conj theory_hexagonal mass_hexagonal)). Qed.

(* rhombohedral: misorientations_random raises AssertionError for the edge 105 (every bin from
   104 on), so the theoretical histogram -- and the index -- is an error *)
Theorem C14_rhombohedral_density_undefined :
  @density_edge NumR Rhombohedral (edge 105) = Err AssertionError /\
  exists e, @theory NumR Rhombohedral = Err e.
Proof. exact (conj density_rhombohedral_105 theory_rhombohedral_error). Qed.

(* consequence for "close to 1 for a single-orientation texture": with all grains equal the
   tetragonal index is at most 0.975 and the hexagonal one at most 0.99 (code: 0.9726, 0.9883) *)
Theorem C14_single_orientation_tetragonal_hexagonal :
  forall (as_quat : list R -> Q4) v (os : list (list R)) o,
  (2 <= length os)%nat -> Forall (eq o) os -> qnorm2 (as_quat o) = 1 ->
  (exists m, @misorientation_index NumR as_quat v Tetragonal os = Ok m /\ m <= 975 / 1000) /\
  (exists m, @misorientation_index NumR as_quat v Hexagonal os = Ok m /\ m <= 99 / 100).
Proof.
  intros as_quat v os o Hn Hall Hq. split.
  - destruct (mindex_single_upper as_quat v Tetragonal os o _ (95 / 100) Hn Hall Hq theory_tetragonal
                theory_tetragonal_nonneg) as (m & Hm & Hb).
    + eapply Rle_trans; [apply first_bin_tetragonal|lra].
    + exact mass_tetragonal.
    + exists m. split; [exact Hm|lra].
  - destruct (mindex_single_upper as_quat v Hexagonal os o _ (98 / 100) Hn Hall Hq theory_hexagonal
                theory_hexagonal_nonneg) as (m & Hm & Hb).
    + eapply Rle_trans; [apply first_bin_hexagonal|lra].
    + exact mass_hexagonal.
    + exists m. split; [exact Hm|lra].
Qed.
