(* Findings/C14_mass.v -- open findings about stats.misorientations_random, as theorems about
   the faithful model: the tetragonal and hexagonal densities do not integrate to 1. *)
From Coq Require Import Reals ZArith List.
From PV Require Import Num NumR Model_mindex Proofs_mindex Proofs_mindex_mass.
Import ListNotations.
Open Scope R_scope.

Theorem C14_theory_mass_tetragonal_refuted :
  exists th, @theory NumR Tetragonal = Ok th /\ rsum th <= 95 / 100.
Proof. exact (ex_intro _ _ (conj theory_tetragonal mass_tetragonal)). Qed.

Theorem C14_theory_mass_hexagonal_refuted :
  exists th, @theory NumR Hexagonal = Ok th /\ rsum th <= 98 / 100.
Proof. exact (ex_intro _ _ (conj theory_hexagonal mass_hexagonal)). Qed.
