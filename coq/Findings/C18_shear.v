(* Findings/C18_shear.v -- KNOWN FINDING C18:simple_shear_2d:gradient=2*jacobian.
   The full statement "the gradient callable of simple_shear_2d is the Jacobian of its
   velocity callable" is FALSE of the generated kernels: witness direction X, plane Z,
   strain_rate 1, any point.  (What does hold is C18_shear_partial in Properties/C18.v.)
   This file stops compiling when the defect is repaired in /repo. *)
From Coq Require Import Reals ZArith List Lra Lia.
From Coquelicot Require Import Coquelicot.
From PV Require Import Num NumR Model_pathlines Proofs_velocity.
From PV.gen Require Import Gen_velocity.
Import ListNotations.
Open Scope R_scope.

Theorem C18_shear_grad_is_jacobian_refuted :
  exists (rate t : R) (x : arr R) (G : arr R),
    @wrapper_gradient NumR 0 0 2 [rate] t x = Ok G /\
    (* entry [X, Z] of the gradient callable is 2 * strain_rate ... *)
    G 2%nat = 2 * rate /\
    (* ... while d u_X / d x_Z = strain_rate: G is not the Jacobian *)
    is_derive (fun s => shear_field 0 2 rate (upd x 2 s) 0) (x 2%nat) rate /\
    ~ is_derive (fun s => shear_field 0 2 rate (upd x 2 s) 0) (x 2%nat) (G 2%nat).
Proof.
  exists 1, 0, (fun _ => 0).
  assert (E : @wrapper_indices NumR 0 0 2 [1] = Ok (0%nat, 2%nat)).
  { rewrite axes_map_proof; [reflexivity| | |exact I]; unfold letter_ok; lia. }
  unfold wrapper_gradient. rewrite E. cbn [kernel_gradient].
  eexists. split; [reflexivity|].
  assert (D : is_derive (fun s => shear_field 0 2 1 (upd (fun _ => 0) 2 s) 0) 0 1).
  { pose proof (shear_jacobian 0 2 1 (fun _ => 0) ltac:(lia) 0%nat 2%nat) as H.
    cbn [planar_mat Nat.eqb] in H. exact H. }
  split; [|split; [exact D|]].
  - unfold k_simple_shear_2d_grad_02, mk_arr. numR. cbn [nth]. reflexivity.
  - intros H. apply is_derive_unique in H. apply is_derive_unique in D. rewrite D in H.
    unfold k_simple_shear_2d_grad_02, mk_arr in H. numR. cbn [nth] in H. lra.
Qed.
