(* Model_diag_session.v -- the texture diagnostics inside a process: a history of calls on
   live ndarray objects that the caller modifies IN PLACE between the calls (group `diag`, C13).

   Model_diag.symmetry_pgr / bingham_average / coaxial_index model ONE call on one value.
   Post-processing code calls them many times on the same objects: a preallocated snapshot
   buffer is refilled (`buf[...] = next_texture`), a texture is rotated into another frame in
   place (`np.matmul(o, Q.T, out=o)`), grains are reordered or relabelled in place, several
   diagnostics and several crystal axes are evaluated for the same object.  Whether a result
   can depend on what was called earlier, or on WHICH object holds the values, is not
   expressible in the one-call model; it is expressed here:

   * `store`      the live orientation arrays; the position in the list is the identity of the
                  object (`id(array)`), the entry its current contents;
   * `sop`        one step of a history: an in-place modification of an object or a diagnostic
                  call on an object;
   * `sstate`     everything that persists in the process: the store and a table of scatter
                  matrices remembered per (object, crystal axis);
   * `step memo`  the transition.  `memo = false` is the source as it is (every call
                  recomputes `stats._scatter_matrix` from the current contents; the table is
                  never read or written).  `memo = true` is an implementation that remembers the
                  scatter matrix per (object identity, row) and never invalidates it when the
                  contents change (the session theorems are refuted for it:
                  Proofs_diag_session.memo_refuted) -- it shows that the session semantics can
                  express a dependence on the call history;
   * `sout`       what a diagnostic call does that is observable: the matrix it hands to LAPACK
                  and the value it returns.

   Tied to /repo by the call-sequence correspondence of harness/props/c13.py: the same
   histories are executed in ONE Python process on the same ndarray objects, the matrices
   handed to LAPACK are compared with `session_scatters` (extracted), the returned values with
   the one-call entries evaluated on the CURRENT contents.  No proofs in this file. *)
From Coq Require Import ZArith List Bool.
From PV Require Import Num Model_diag.
Import ListNotations.
Local Open Scope num_scope.

Section Session.
  Context {F : Num}.

  Definition buffer : Type := list (@mat3 F).
  Definition store : Type := list buffer.

  Definition buf (st : store) (b : nat) : buffer := nth b st [].

  (* writing through an object that does not exist is not generated; it leaves the store alone *)
  Fixpoint set_buf (st : store) (b : nat) (os : buffer) : store :=
    match st, b with
    | [], _ => []
    | _ :: t, O => os :: t
    | x :: t, S b' => x :: set_buf t b' os
    end.

  Definition zero_m3 : @mat3 F := ((zero, zero, zero), (zero, zero, zero), (zero, zero, zero)).

  (* buf[...] = buf[p] *)
  Definition permute (p : list nat) (os : buffer) : buffer :=
    map (fun i => nth i os zero_m3) p.

  (* buf[i, k, :] *= s_ik : every crystal axis of every grain multiplied by its own factor
     (+-1 in the histories that are generated: sign flips, two-fold relabellings) *)
  Definition scalev (s : F) (v : @vec3 F) : @vec3 F := (s * vx v, s * vy v, s * vz v).
  Definition flip_rows (s : @vec3 F) (o : @mat3 F) : @mat3 F :=
    let '(a, b, c) := o in (scalev (vx s) a, scalev (vy s) b, scalev (vz s) c).
  Fixpoint flip_all (ss : list (@vec3 F)) (os : buffer) : buffer :=
    match ss, os with
    | s :: ss', o :: os' => flip_rows s o :: flip_all ss' os'
    | _, _ => os
    end.

  Inductive sop :=
  | SFill (b : nat) (os : buffer)          (* buf[...] = os              (same shape) *)
  | SRotate (b : nat) (Q : @mat3 F)        (* np.matmul(buf, Q.T, out=buf) *)
  | SPermute (b : nat) (p : list nat)      (* buf[...] = buf[p] *)
  | SFlip (b : nat) (ss : list (@vec3 F))  (* buf *= signs[:, :, None] *)
  | SCopy (b src : nat)                    (* buf_b[...] = buf_src *)
  | SPgr (b r : nat)                       (* symmetry_pgr(buf, axis) *)
  | SBingham (b r : nat)                   (* bingham_average(buf, axis) *)
  | SCoaxial (b r1 r2 : nat).              (* coaxial_index(buf, axis1, axis2) *)

  Definition is_mutation (o : sop) : bool :=
    match o with SPgr _ _ | SBingham _ _ | SCoaxial _ _ _ => false | _ => true end.

  Definition mutate (st : store) (o : sop) : store :=
    match o with
    | SFill b os => set_buf st b os
    | SRotate b Q => set_buf st b (map (rotate_frame Q) (buf st b))
    | SPermute b p => set_buf st b (permute p (buf st b))
    | SFlip b ss => set_buf st b (flip_all ss (buf st b))
    | SCopy b src => set_buf st b (buf st src)
    | SPgr _ _ | SBingham _ _ | SCoaxial _ _ _ => st
    end.

  Definition store_after (st : store) (h : list sop) : store := fold_left mutate h st.

  (* observable effect of a diagnostic call: matrix handed to LAPACK, returned value *)
  Inductive sout :=
  | OPgr (M : @sym3 F) (v : @vec3 F)
  | OBingham (M : @sym3 F) (v : @vec3 F)
  | OCoaxial (M1 M2 : @sym3 F) (x : F).

  Definition cache : Type := list (nat * nat * @sym3 F).
  Definition sstate : Type := (store * cache)%type.

  Fixpoint lookup (c : cache) (b r : nat) : option (@sym3 F) :=
    match c with
    | [] => None
    | (b', r', M) :: t => if Nat.eqb b b' && Nat.eqb r r' then Some M else lookup t b r
    end.

  (* the scatter matrix a call on object b, row r works with *)
  Definition scatter_of (memo : bool) (st : store) (c : cache) (b r : nat) : @sym3 F * cache :=
    if memo then
      match lookup c b r with
      | Some M => (M, c)
      | None => let M := scatter (buf st b) r in (M, (b, r, M) :: c)
      end
    else (scatter (buf st b) r, c).

  (* the LAPACK oracle (one run of the process) *)
  Variable eigvalsh : @sym3 F -> @eigvals F.
  Variable eigh : @sym3 F -> @eigres F.

  Definition step (memo : bool) (s : sstate) (o : sop) : sstate * list sout :=
    let '(st, c) := s in
    match o with
    | SPgr b r =>
        let '(M, c1) := scatter_of memo st c b r in
        ((st, c1), [OPgr M (pgr_of (eigvalsh M))])
    | SBingham b r =>
        let '(M, c1) := scatter_of memo st c b r in
        ((st, c1), [OBingham M (normalize (last_vec (eigh M)))])
    | SCoaxial b r1 r2 =>
        let '(M1, c1) := scatter_of memo st c b r1 in
        let '(M2, c2) := scatter_of memo st c1 b r2 in
        ((st, c2), [OCoaxial M1 M2 (ba_of (pgr_of (eigvalsh M1)) (pgr_of (eigvalsh M2)))])
    | _ => ((mutate st o, c), [])
    end.

  Fixpoint run (memo : bool) (s : sstate) (h : list sop) : list sout :=
    match h with
    | [] => []
    | o :: t => let '(s', out) := step memo s o in out ++ run memo s' t
    end.

  (* the reading of the property: every call is the ONE-CALL model function (Model_diag) of the
     contents its argument has at the time of the call -- nothing else *)
  Definition pure_out (st : store) (o : sop) : list sout :=
    match o with
    | SPgr b r => [OPgr (scatter (buf st b) r) (symmetry_pgr eigvalsh (buf st b) r)]
    | SBingham b r => [OBingham (scatter (buf st b) r) (bingham_average eigh (buf st b) r)]
    | SCoaxial b r1 r2 =>
        [OCoaxial (scatter (buf st b) r1) (scatter (buf st b) r2)
                  (coaxial_index eigvalsh (buf st b) r1 r2)]
    | _ => []
    end.

  Fixpoint pure_run (st : store) (h : list sop) : list sout :=
    match h with
    | [] => []
    | o :: t => pure_out st o ++ pure_run (mutate st o) t
    end.

  (* two calls of the same diagnostic with the same axes, on objects with equal contents *)
  Definition same_call (st st' : store) (o o' : sop) : Prop :=
    match o, o' with
    | SPgr b r, SPgr b' r' => r = r' /\ buf st b = buf st' b'
    | SBingham b r, SBingham b' r' => r = r' /\ buf st b = buf st' b'
    | SCoaxial b r1 r2, SCoaxial b' r1' r2' => r1 = r1' /\ r2 = r2' /\ buf st b = buf st' b'
    | _, _ => False
    end.

  (* the matrices handed to LAPACK, in call order *)
  Definition scatters_of (l : list sout) : list (@sym3 F) :=
    flat_map (fun o => match o with
                       | OPgr M _ | OBingham M _ => [M]
                       | OCoaxial M1 M2 _ => [M1; M2]
                       end) l.
End Session.
