(* Extract_npz.v -- extraction of the archive model (group `npz`, ExtrOcamlBasic only). *)
From Coq Require Import Extraction ExtrOcamlBasic.
From PV Require Import Num Model_npz Entry_npz.
Extraction Language OCaml.
(* nzero is listed so that the record type `num` expected by the generic driver exists *)
Extraction "model_npz.ml" run_npz nzero.
