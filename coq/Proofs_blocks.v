From Coq Require Import List Arith Lia.
From PV Require Import Model_blocks.
Import ListNotations.

Lemma chunks_aux_concat {A} (b : nat) : 0 < b -> forall fuel (l : list A), length l <= fuel -> concat (chunks_aux fuel b l) = l.
Proof.
  intros Hb fuel; induction fuel as [|f IH]; intros l Hl.
  - destruct l; [reflexivity | simpl in Hl; lia].
  - destruct l as [|x xs]; [reflexivity|].
    cbn [chunks_aux concat]. rewrite IH.
    + apply firstn_skipn.
    + rewrite skipn_length. simpl length in *. lia.
Qed.

Theorem concat_chunks {A} (b : nat) (l : list A) : 0 < b -> concat (chunks b l) = l.
Proof. intros Hb. apply chunks_aux_concat; auto. Qed.

Lemma chunks_aux_fuel {A} (b : nat) : 0 < b -> forall f1 f2 (l : list A), length l <= f1 -> length l <= f2 ->
  chunks_aux f1 b l = chunks_aux f2 b l.
Proof.
  intros Hb f1; induction f1 as [|f1 IH]; intros f2 l H1 H2.
  - destruct l; [destruct f2; reflexivity | simpl in H1; lia].
  - destruct l as [|x xs]; [destruct f2; reflexivity|].
    destruct f2 as [|f2]; [simpl in H2; lia|].
    cbn [chunks_aux]. f_equal. apply IH; rewrite skipn_length; simpl length in *; lia.
Qed.

Lemma chunks_cons {A} (b : nat) (l : list A) : 0 < b -> l <> [] -> chunks b l = firstn b l :: chunks b (skipn b l).
Proof.
  intros Hb Hl. unfold chunks. destruct l as [|x xs]; [congruence|].
  cbn [length chunks_aux]. f_equal. apply chunks_aux_fuel; [exact Hb | rewrite skipn_length; simpl length; lia | lia].
Qed.

Lemma firstn_add {A} (a c : nat) (l : list A) : firstn (a + c) l = firstn a l ++ firstn c (skipn a l).
Proof. revert l; induction a as [|a IH]; intros l; [reflexivity|]. destruct l as [|x xs]; [simpl; now rewrite firstn_nil|]. simpl. now rewrite IH. Qed.

Lemma concat_firstn_chunks {A} (b : nat) : 0 < b -> forall k (l : list A), b * k <= length l ->
  concat (firstn k (chunks b l)) = firstn (b * k) l.
Proof.
  intros Hb k; induction k as [|k IH]; intros l Hk.
  - rewrite Nat.mul_0_r. reflexivity.
  - rewrite Nat.mul_succ_r in *.
    assert (Hl : l <> []) by (destruct l; [simpl in Hk; lia | congruence]).
    rewrite (chunks_cons b l Hb Hl). cbn [firstn concat].
    rewrite IH by (rewrite skipn_length; lia).
    rewrite (Nat.add_comm (b * k) b). now rewrite firstn_add.
Qed.

Theorem concat_full_blocks {A} (b : nat) (l : list A) : 0 < b -> concat (full_blocks b l) = firstn (b * (length l / b)) l.
Proof. intros Hb. unfold full_blocks. apply concat_firstn_chunks; auto. apply Nat.mul_div_le. lia. Qed.

Theorem full_blocks_drop_tail {A} (b : nat) (l : list A) : 0 < b -> length l mod b <> 0 ->
  length (concat (full_blocks b l)) < length l.
Proof.
  intros Hb Hm. rewrite concat_full_blocks by auto. rewrite firstn_length.
  pose proof (Nat.div_mod (length l) b ltac:(lia)) as E. lia.
Qed.

Theorem full_blocks_exact {A} (b : nat) (l : list A) : 0 < b -> length l mod b = 0 -> concat (full_blocks b l) = l.
Proof.
  intros Hb Hm. rewrite concat_full_blocks by auto.
  pose proof (Nat.div_mod (length l) b ltac:(lia)) as E. rewrite Hm, Nat.add_0_r in E. rewrite <- E. apply firstn_all.
Qed.

(* a ROW-WISE computation (f = map g) evaluated in blocks of any positive size, tail included, is the computation on the whole stack *)
Theorem blocked_rowwise {A B} (b : nat) (g : A -> B) (l : list A) : 0 < b -> blocked b (map g) l = map g l.
Proof. intros Hb. unfold blocked. rewrite <- concat_map. now rewrite concat_chunks. Qed.

(* the floor-division variant computes only the first b * (n / b) rows *)
Theorem blocked_floor_rowwise {A B} (b : nat) (g : A -> B) (l : list A) : 0 < b ->
  blocked_floor b (map g) l = map g (firstn (b * (length l / b)) l).
Proof. intros Hb. unfold blocked_floor. rewrite <- concat_map. now rewrite concat_full_blocks. Qed.

Theorem blocked_floor_loses_rows {A B} (b : nat) (g : A -> B) (l : list A) : 0 < b -> length l mod b <> 0 ->
  length (blocked_floor b (map g) l) < length (map g l).
Proof.
  intros Hb Hm. rewrite blocked_floor_rowwise by auto. rewrite !map_length, firstn_length.
  pose proof (Nat.div_mod (length l) b ltac:(lia)) as E. lia.
Qed.

Example blocked_floor_witness : blocked_floor 2 (map S) [1; 2; 3] = [2; 3] /\ blocked 2 (map S) [1; 2; 3] = [2; 3; 4].
Proof. split; reflexivity. Qed.
