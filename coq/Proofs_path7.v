(* Proofs_path7.v -- C07: zero boundary mobility (or a zero phase fraction) leaves every volume fraction constant
   along exact solutions of the modelled texture ODE, under ANY velocity-gradient history, in every regime. *)
From Coq Require Import Reals ZArith List Bool Lra Lia.
From Coquelicot Require Import Coquelicot.
From PV Require Import Num NumR Model_core Model_minerals Proofs_core Proofs_total Proofs_minerals Proofs_rhs Proofs_flow
                       Proofs_path Proofs_path2.
Import ListNotations.
Open Scope R_scope.

Lemma map_const_zero_nth {A} (l : list A) i : nth i (map (fun _ => 0) l) 0 = 0.
Proof. revert i; induction l as [|x l IH]; intros [|i]; cbn [map nth]; auto. Qed.

Lemma frac_rates_zero_PM c phi M fs es i : phi * M = 0 -> nth i (@frac_rates NumR c phi M fs es) 0 = 0.
Proof.
  intros H0. unfold frac_rates. set (em := @sumf NumR (map2 (@mul NumR) fs es)). clearbody em.
  revert es i. induction fs as [|x fs IH]; intros [|e es] [|i]; cbn [map2 nth]; try reflexivity.
  - destruct c as [c|]; numR; rewrite H0; ring.
  - apply IH.
Qed.

(* whatever the kernel returns, the volume rates vanish when phi * M = 0 *)
Lemma derivs_fds_zero regime ph fb os fs (D L S : arr R) p n lam M phi Ads fds i :
  phi * M = 0 ->
  @derivs NumR regime ph fb os fs D L S p n lam M phi = Ok (Ads, fds) -> nth i fds 0 = 0.
Proof.
  intros H0 H. unfold derivs in H.
  repeat match type of H with (if ?c then _ else _) = _ => destruct c end; try discriminate;
    try (inversion H; subst; apply map_const_zero_nth);
    destruct (@grains NumR ph fb os D L p n lam) as [rs|]; try discriminate;
    inversion H; subst; apply frac_rates_zero_PM; exact H0.
Qed.

Section ZeroMobility.
  Variables (regime ph fb : Z) (n : nat) (ass : list Z) (frs : list R) (Sd : list R) (p nn lam M : R).
  Local Notation vfm := (vf regime ph fb n ass frs Sd p nn lam M).

  (* the fraction block of the vector field vanishes when M = 0 *)
  Lemma vf_zero_mobility (L : list R) (s : R) (y : nat -> R) g :
    M = 0 -> (g < n)%nat -> vfm L s y (9 + 9 * n + g)%nat = 0.
  Proof.
    intros HM Hg.
    destruct (vf_cases regime ph fb n ass frs Sd p nn lam M L s y) as [Hz | [Hs [phi [Ads [fds [Hl [Hd Hv]]]]]]].
    - apply Hz. lia.
    - destruct (derivs_lengths regime ph fb p nn lam M _ _ _ _ _ _ _ _
                  (eq_trans (fs_of_length n y) (eq_sym (os_of_length n y))) Hd) as [HlA _].
      rewrite os_of_length in HlA.
      rewrite Hv. rewrite nth_vol; [|reflexivity|rewrite map_length, flat9_length; change (T NumR) with R in *; lia].
      destruct (Nat.lt_ge_cases g (length fds)) as [Hlt|Hge].
      + rewrite (nth_map_in (fun x => x * s) _ _ 0 0) by exact Hlt.
        assert (H0 : phi * M = 0) by (rewrite HM; ring).
        pose proof (derivs_fds_zero _ _ _ _ _ _ _ _ _ _ _ _ _ _ _ g H0 Hd) as Hz0.
        match goal with |- ?x * s = 0 => replace x with 0 by (symmetry; exact Hz0); ring end.
      + apply nth_overflow. rewrite map_length. exact Hge.
  Qed.

  Variable Lh : R -> list R.
  Variable sh : R -> R.

  (* C07: M* = 0  =>  every volume fraction is constant along any exact solution, whatever the flow *)
  Theorem zero_mobility_fractions_constant (y : nat -> R -> R) (a b : R) g :
    M = 0 -> a <= b -> (g < n)%nat ->
    (forall t, a <= t <= b ->
       is_derive (y (9 + 9 * n + g)%nat) t
                 (f regime ph fb n ass frs Sd p nn lam M Lh sh t (fun j => y j t) (9 + 9 * n + g)%nat)) ->
    y (9 + 9 * n + g)%nat b = y (9 + 9 * n + g)%nat a.
  Proof.
    intros HM Hab Hg Hsol. apply zero_derivative_constant; [exact Hab|]. intros t Ht.
    pose proof (Hsol t Ht) as Hd. unfold f in Hd. rewrite (vf_zero_mobility _ _ _ g HM Hg) in Hd. exact Hd.
  Qed.
End ZeroMobility.
