(* Proofs_pathline_exact.v -- what the right-hand side handed to solve_ivp implies for EXACT solutions:
   a trajectory of dx/dt = _ivp_func(x) that ends inside the (closed) box never is outside it.
   (_ivp_func is exactly zero outside the box, so a point outside cannot move any more; had the
   trajectory been outside at some earlier time it would still be there at t = 0.)
   This is the "stays inside the domain box" clause of C18 for the exact solution of the problem that
   get_pathline poses; that LSODA's numerical trajectory stays within tolerance of it is measured. *)
From Coq Require Import Reals ZArith List Bool Lra Lia Classical_Prop Classical_Pred_Type.
From Coquelicot Require Import Coquelicot.
From PV Require Import Num NumR Model_pathlines Proofs_pathlines Inst_pathlines.
From PV.gen Require Import Gen_pathlines.
Import ListNotations.
Open Scope R_scope.

(* ------------------------------------------------------------------------- *)
(* one coordinate: a function that cannot change while it is below c stays below c *)
(* ------------------------------------------------------------------------- *)
Lemma stuck_below (h : R -> R) (t1 c : R) :
  (forall t, t1 <= t <= 0 -> ex_derive h t) ->
  (forall t, t1 <= t <= 0 -> h t < c -> Derive h t = 0) ->
  h t1 < c -> forall t, t1 <= t <= 0 -> h t < c.
Proof.
  intros Hd Hz H1 t0 Ht0.
  destruct (Rlt_dec (h t0) c) as [|Hge]; [assumption|exfalso].
  apply Rnot_lt_le in Hge.
  (* E = the times of [t1, 0] at which h >= c; its greatest lower bound tau *)
  set (E := fun s => t1 <= s <= 0 /\ c <= h s).
  set (E' := fun m => E (- m)).
  assert (HB : bound E').
  { exists (- t1). intros m [[Hm _] _]. lra. }
  assert (HN : exists m, E' m).
  { exists (- t0). unfold E', E. rewrite Ropp_involutive. split; assumption. }
  destruct (completeness E' HB HN) as [m [Hub Hlub]].
  set (tau := - m).
  assert (Hlow : forall s, E s -> tau <= s).
  { intros s Hs. assert (E' (- s)) by (unfold E'; rewrite Ropp_involutive; exact Hs).
    specialize (Hub _ H). unfold tau. lra. }
  assert (Hnear : forall eps, 0 < eps -> exists s, E s /\ s < tau + eps).
  { intros eps He. apply NNPP. intros Hno.
    assert (is_upper_bound E' (m - eps)).
    { intros y Hy. destruct (Rle_dec y (m - eps)) as [|Hn]; [assumption|exfalso].
      apply Hno. exists (- y). split; [exact Hy|]. unfold tau. lra. }
    specialize (Hlub _ H). lra. }
  assert (Htau : t1 <= tau <= 0).
  { split.
    - assert (is_upper_bound E' (- t1)) by (intros y [[Hy _] _]; lra).
      specialize (Hlub _ H). unfold tau. lra.
    - apply Rle_trans with t0; [apply Hlow; split; assumption|apply Ht0]. }
  (* h tau >= c, by continuity *)
  assert (Hc : c <= h tau).
  { destruct (Rle_dec c (h tau)) as [|Hlt]; [assumption|exfalso]. apply Rnot_le_lt in Hlt.
    assert (Hcont : continuous h tau).
    { apply (ex_derive_continuous (K := R_AbsRing) (V := R_NormedModule)). apply Hd. exact Htau. }
    assert (Hpos : 0 < c - h tau) by lra.
    pose proof (proj1 (filterlim_locally h (h tau)) Hcont (mkposreal _ Hpos)) as [d Hdelta].
    destruct (Hnear d (cond_pos d)) as (s & [Hs1 Hs2] & Hs3).
    assert (tau <= s) by (apply Hlow; split; assumption).
    assert (Hb : ball tau d s).
    { unfold ball; cbn. unfold AbsRing_ball, abs, minus, plus, opp; cbn.
      rewrite Rabs_right by lra. lra. }
    specialize (Hdelta s Hb). unfold ball in Hdelta; cbn in Hdelta.
    unfold AbsRing_ball, abs, minus, plus, opp in Hdelta; cbn in Hdelta.
    apply Rabs_def2 in Hdelta. lra. }
  assert (Hlt : t1 < tau).
  { destruct (Req_dec t1 tau) as [Heq|]; [rewrite <- Heq in Hc; lra|lra]. }
  (* mean value theorem on [t1, tau]: the derivative vanishes at the intermediate point *)
  destruct (MVT_cor2 h (Derive h) t1 tau Hlt) as (xi & Hmv & Hxi).
  { intros s Hs. apply is_derive_Reals. apply Derive_correct. apply Hd. lra. }
  assert (Hbelow : h xi < c).
  { destruct (Rlt_dec (h xi) c) as [|Hn]; [assumption|exfalso]. apply Rnot_lt_le in Hn.
    assert (tau <= xi) by (apply Hlow; split; [lra|assumption]). lra. }
  rewrite (Hz xi) in Hmv by (try assumption; lra). lra.
Qed.

Lemma stuck_above (h : R -> R) (t1 c : R) :
  (forall t, t1 <= t <= 0 -> ex_derive h t) ->
  (forall t, t1 <= t <= 0 -> c < h t -> Derive h t = 0) ->
  c < h t1 -> forall t, t1 <= t <= 0 -> c < h t.
Proof.
  intros Hd Hz H1 t Ht.
  assert (Hg : (fun s => - h s) t < - c).
  { apply (stuck_below (fun s => - h s) t1 (- c)); try assumption.
    - intros s Hs. destruct (Hd s Hs) as [l Hl]. exists (- l).
      exact (is_derive_opp (K := R_AbsRing) (V := R_NormedModule) h s l Hl).
    - intros s Hs Hlt. rewrite Derive_opp. rewrite Hz; [ring|exact Hs|lra].
    - lra. }
  cbv beta in Hg. lra.
Qed.

(* ------------------------------------------------------------------------- *)
(* the box as a statement about coordinates                                  *)
(* ------------------------------------------------------------------------- *)
Lemma in_box_nth (pt mn mx : list R) : length pt = length mn -> length mn = length mx ->
  (in_box pt mn mx <-> forall k, (k < length mn)%nat -> nth k mn 0 <= nth k pt 0 <= nth k mx 0).
Proof.
  revert mn mx. induction pt as [|p pt IH]; intros [|a mn] [|b mx] H1 H2;
    try discriminate H1; try discriminate H2; cbn [in_box length].
  - split; [intros _ k Hk; lia|trivial].
  - injection H1 as H1. injection H2 as H2. rewrite (IH mn mx H1 H2). split.
    + intros [Hab Hr] [|k] Hk; cbn [nth]; [exact Hab|apply Hr; lia].
    + intros H. split; [exact (H 0%nat ltac:(lia))|]. intros k Hk. exact (H (S k) ltac:(lia)).
Qed.

(* ------------------------------------------------------------------------- *)
(* exact solutions of the problem get_pathline poses                         *)
(* ------------------------------------------------------------------------- *)
(* x : time -> point solves dx/dt = _ivp_func(x) on [a, 0] (the model's ivp_func with any velocity
   callable `gv`, any box), and ends inside the box: then it is inside the box at every time *)
Theorem exact_pathline_stays_in_box (gv : list R -> res (list R)) (mn mx : list R) (x : R -> list R) (a : R) :
  length mn = length mx ->
  (forall t, a <= t <= 0 -> length (x t) = length mn /\
     exists v, @ivp_func NumR gv mn mx (x t) = Ok v /\
       forall k, (k < length mn)%nat -> is_derive (fun s => nth k (x s) 0) t (nth k v 0)) ->
  in_box (x 0) mn mx ->
  forall t, a <= t <= 0 -> in_box (x t) mn mx.
Proof.
  intros HL Hsol H0 t1 Ht1.
  destruct (classic (in_box (x t1) mn mx)) as [|Hout]; [assumption|exfalso].
  assert (Hlen : forall t, a <= t <= 0 -> length (x t) = length mn) by (intros t Ht; apply (Hsol t Ht)).
  assert (Ha0 : a <= 0 <= 0) by lra.
  (* outside the box every coordinate has derivative 0 *)
  assert (Hzero : forall t, a <= t <= 0 -> ~ in_box (x t) mn mx ->
                  forall k, (k < length mn)%nat -> Derive (fun s => nth k (x s) 0) t = 0).
  { intros t Ht Hn k Hk. destruct (Hsol t Ht) as (Hl & v & Ev & Hv).
    destruct (proj2 (ivp_func_spec_proof gv (x t) mn mx Hl HL) Hn) as (z & Ez & Hzl & Hz).
    rewrite Ez in Ev. injection Ev as Ev. subst v.
    assert (E0 : nth k z 0 = 0).
    { destruct (nth_in_or_default k z 0) as [Hin|E]; [|exact E].
      rewrite Forall_forall in Hz. exact (Hz _ Hin). }
    pose proof (Hv k Hk) as Hd'. rewrite E0 in Hd'. exact (is_derive_unique _ _ _ Hd'). }
  assert (Hex : forall t, a <= t <= 0 -> forall k, (k < length mn)%nat -> ex_derive (fun s => nth k (x s) 0) t).
  { intros t Ht k Hk. destruct (Hsol t Ht) as (_ & v & _ & Hv). eexists. apply (Hv k Hk). }
  (* a violated coordinate at t1 *)
  rewrite (in_box_nth (x t1) mn mx (Hlen t1 Ht1) HL) in Hout.
  apply not_all_ex_not in Hout. destruct Hout as (k & Hk).
  apply imply_to_and in Hk. destruct Hk as (Hk & Hviol).
  rewrite (in_box_nth (x 0) mn mx (Hlen 0 Ha0) HL) in H0. specialize (H0 k Hk).
  assert (Hcase : nth k (x t1) 0 < nth k mn 0 \/ nth k mx 0 < nth k (x t1) 0).
  { destruct (Rlt_dec (nth k (x t1) 0) (nth k mn 0)); [left; assumption|].
    destruct (Rlt_dec (nth k mx 0) (nth k (x t1) 0)); [right; assumption|]. exfalso. apply Hviol. lra. }
  assert (Hsub : forall t, t1 <= t <= 0 -> a <= t <= 0) by (intros; lra).
  destruct Hcase as [Hlo|Hhi].
  - assert (nth k (x 0) 0 < nth k mn 0); [|lra].
    apply (stuck_below (fun s => nth k (x s) 0) t1 (nth k mn 0)); try assumption; try lra.
    + intros t Ht. apply Hex; [apply Hsub; exact Ht|exact Hk].
    + intros t Ht Hb. apply Hzero; [apply Hsub; exact Ht| |exact Hk].
      rewrite (in_box_nth (x t) mn mx (Hlen t (Hsub t Ht)) HL). intros Hall. specialize (Hall k Hk). lra.
  - assert (nth k mx 0 < nth k (x 0) 0); [|lra].
    apply (stuck_above (fun s => nth k (x s) 0) t1 (nth k mx 0)); try assumption; try lra.
    + intros t Ht. apply Hex; [apply Hsub; exact Ht|exact Hk].
    + intros t Ht Hb. apply Hzero; [apply Hsub; exact Ht| |exact Hk].
      rewrite (in_box_nth (x t) mn mx (Hlen t (Hsub t Ht)) HL). intros Hall. specialize (Hall k Hk). lra.
Qed.

(* the same about the right-hand side GENERATED from the source, dimension 3 *)
Theorem gen_exact_pathline_stays_in_box (gv : list R -> res (list R)) (gg : arr R -> res (arr R))
        (mn mx : list R) (x : R -> list R) (a : R) :
  length mn = 3%nat -> length mx = 3%nat ->
  (forall t, a <= t <= 0 -> length (x t) = 3%nat /\
     exists v, @k_ivp_func_n3 NumR t (A (x t)) (lift_v 3 gv) gg (A mn) (A mx) = Ok v /\
       forall k, (k < 3)%nat -> is_derive (fun s => nth k (x s) 0) t (v k)) ->
  in_box (x 0) mn mx ->
  forall t, a <= t <= 0 -> in_box (x t) mn mx.
Proof.
  intros H2 H3 Hsol. apply (exact_pathline_stays_in_box gv mn mx x a); [rewrite H2, H3; reflexivity|].
  intros t Ht. destruct (Hsol t Ht) as (Hl & v & Ev & Hv). rewrite H2. split; [exact Hl|].
  rewrite (ivp_func_inst_3 t gv gg (x t) mn mx Hl H2 H3) in Ev.
  destruct (@ivp_func NumR gv mn mx (x t)) as [w|e]; [|discriminate Ev].
  cbn [res_map] in Ev. injection Ev as <-. exists w. split; [reflexivity|exact Hv].
Qed.

(* non-vacuity: the constant trajectory at an interior stagnation point *)
Lemma exact_hypotheses_satisfiable :
  let gv := fun _ : list R => Ok [0; 0; 0] in let x := fun _ : R => [0; 0; 0] in
  let mn := [-1; -1; -1] in let mx := [1; 1; 1] in
  forall t : R, -1 <= t <= 0 -> length (x t) = length mn /\
     exists v, @ivp_func NumR gv mn mx (x t) = Ok v /\
       forall k, (k < length mn)%nat -> is_derive (fun s => nth k (x s) 0) t (nth k v 0).
Proof.
  cbv zeta. intros t Ht. split; [reflexivity|]. exists [0; 0; 0]. split.
  - unfold ivp_func, is_inside. cbn [length Nat.eqb andb negb any2]. numR.
    repeat match goal with |- context [Rltb ?p ?q] => destruct (Rltb p q) eqn:?; bool2prop; try lra end.
    reflexivity.
  - intros k Hk. cbn [length] in Hk.
    destruct k as [|[|[|k]]]; try lia; cbn [nth]; apply (is_derive_const (K := R_AbsRing) (V := R_NormedModule)).
Qed.
