(* Extract_tensors.v -- extraction of the tensors group to OCaml (ExtrOcamlBasic only). *)
From Coq Require Import Extraction ExtrOcamlBasic.
From PV Require Import Num Model_voigt Model_decomp Model_decomp_series Entry_tensors.
From PV.gen Require Import Gen_tensors Gen_polar.
Extraction Language OCaml.
Extraction "model_tensors.ml" run_invariants run_decompose run_mono run_ortho run_tetr run_hex
  run_upper3 run_upper6 run_vte run_etv run_m2v run_v2m run_rotate run_polar_left run_polar_right run_voigt run_decomp run_decomp_series.
