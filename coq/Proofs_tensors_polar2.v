(* Proofs_tensors_polar2.v -- polar decomposition, second part:
   * the theorems of Proofs_tensors_polar transferred to the GENERATED definitions of
     gen/Gen_polar.v (tie T) through Inst_polar.polar_left_inst / polar_right_inst;
   * the stretch is THE positive semi-definite square root:  P.P = M.M^T  (left),
     U_m.U_m = M^T.M (right);  so a symmetric input with a negative direction is never its
     own stretch (the statement a "symmetric fast path" violates);
   * the right variant succeeds exactly on the non-singular matrices (finding: for a singular
     M it raises), while  R = U.Vh  is an orthogonal factor with R.U_m = M for EVERY matrix
     (the proposed repair, fixes/C11-polar-right-singular.patch). *)
From Coq Require Import Reals ZArith List Lra Lia Bool.
From PV Require Import Num NumR Model_voigt Model_decomp Proofs_tensors_alg Proofs_tensors_rot
  Proofs_tensors_polar Inst_polar.
From PV.gen Require Import Gen_tensors Gen_polar.
Import ListNotations.
Open Scope R_scope.

(* ---------------------------------------------------------------------- *)
(* determinants of 3x3 matrices given as functions                          *)
(* ---------------------------------------------------------------------- *)
Definition detm (A : M3) : R :=
  A 0%nat 0%nat * (A 1%nat 1%nat * A 2%nat 2%nat - A 1%nat 2%nat * A 2%nat 1%nat)
  - A 0%nat 1%nat * (A 1%nat 0%nat * A 2%nat 2%nat - A 1%nat 2%nat * A 2%nat 0%nat)
  + A 0%nat 2%nat * (A 1%nat 0%nat * A 2%nat 1%nat - A 1%nat 1%nat * A 2%nat 0%nat).

Lemma detm_mm A B : detm (mm A B) = detm A * detm B.
Proof. unfold detm, mm, sum3; ring. Qed.
Lemma detm_tr3 A : detm (tr3 A) = detm A.
Proof. unfold detm, tr3; ring. Qed.
Lemma detm_ext A B : eq2b A B -> detm A = detm B.
Proof. intros H; unfold detm; rewrite !H by lia; reflexivity. Qed.
Lemma detm_id3 : detm id3 = 1.
Proof. unfold detm, id3; cbn [Nat.eqb]; ring. Qed.
Lemma detm_diagm s : detm (diagm s) = s 0%nat * s 1%nat * s 2%nat.
Proof. unfold detm, diagm; cbn [Nat.eqb]; ring. Qed.
Lemma det3_detm (X : arr NumR) : @det3 NumR X = detm (mat3 X).
Proof. cbv [det3 detm mat3 Nat.mul Nat.add]; numR; reflexivity. Qed.

Lemma orth_det_sq Q : orth Q -> detm Q * detm Q = 1.
Proof.
  intros H. rewrite <- (detm_tr3 Q) at 1. rewrite <- detm_mm, <- detm_id3.
  apply detm_ext, orth_def, H.
Qed.

Section PolarOracle2.
  Variables M U S Vh : arr NumR.
  Hypothesis HU1 : orth (mat3 U).
  Hypothesis HU2 : orth (tr3 (mat3 U)).
  Hypothesis HV1 : orth (mat3 Vh).
  Hypothesis HV2 : orth (tr3 (mat3 Vh)).
  Hypothesis HS : forall i, (i < 3)%nat -> 0 <= S i.
  Hypothesis HM : eq2b (mat3 M) (mm (mat3 U) (mm (diagm S) (mat3 Vh))).

  Let Pl := snd (polar_left U S Vh).
  Let Um := matmul3 (transpose3 Vh) (matmul3 (diag3 S) Vh).

  Lemma Pl_mm2 : eq2b (mat3 Pl) (mm (mat3 U) (mm (diagm S) (tr3 (mat3 U)))).
  Proof.
    unfold Pl, polar_left, snd.
    eapply eq2b_trans; [apply mat3_matmul3|]. apply mm_extR.
    eapply eq2b_trans; [apply mat3_matmul3|].
    eapply eq2b_trans; [apply mm_extL, mat3_diag3|]. apply mm_extR, mat3_transpose3.
  Qed.

  Lemma VVt : eq2b (mm (mat3 Vh) (tr3 (mat3 Vh))) id3.
  Proof.
    intros a e Ha He. pose proof (HV2 a e Ha He) as Hv. unfold tr3, sum3 in Hv.
    unfold mm, tr3, sum3, id3. rewrite <- Hv. reflexivity.
  Qed.

  (* P . P = M . M^T : the left stretch is a square root of M M^T *)
  Theorem polar_left_stretch_squared :
    eq2b (mm (mat3 Pl) (mat3 Pl)) (mm (mat3 M) (tr3 (mat3 M))).
  Proof.
    set (Uu := mat3 U). set (D := diagm S). set (V := mat3 Vh).
    apply eq2b_trans with (mm Uu (mm D (mm D (tr3 Uu)))).
    { apply eq2b_trans with (mm (mm Uu (mm D (tr3 Uu))) (mm Uu (mm D (tr3 Uu)))).
      { eapply eq2b_trans; [apply mm_extL, Pl_mm2|]. apply mm_extR, Pl_mm2. }
      apply eq2b_trans with (mm Uu (mm D (mm (mm (tr3 Uu) Uu) (mm D (tr3 Uu))))).
      { apply eq2b_all; intros i j. unfold mm, tr3, sum3; ring. }
      apply mm_extR, mm_extR.
      eapply eq2b_trans; [apply mm_extL, orth_def, HU1|]. apply mm_id_l. }
    apply eq2b_sym.
    apply eq2b_trans with (mm (mm Uu (mm D V)) (tr3 (mm Uu (mm D V)))).
    { eapply eq2b_trans; [apply mm_extL, HM|]. apply mm_extR, tr3_ext, HM. }
    apply eq2b_trans with (mm Uu (mm D (mm (mm V (tr3 V)) (mm D (tr3 Uu))))).
    { apply eq2b_all; intros i j. unfold mm, tr3, D, diagm, sum3; cbn [Nat.eqb]; ring. }
    apply mm_extR, mm_extR.
    eapply eq2b_trans; [apply mm_extL, VVt|]. apply mm_id_l.
  Qed.

  (* a matrix with a negative direction is never its own stretch -- whatever its symmetry *)
  Theorem polar_stretch_not_input_when_indefinite :
    (exists x, quad (mat3 M) x < 0) -> ~ eq2b (mat3 Pl) (mat3 M).
  Proof.
    intros [x Hx] E.
    pose proof (polar_left_psd U S Vh HS x) as Hp. fold Pl in Hp.
    assert (quad (mat3 Pl) x = quad (mat3 M) x) by (unfold quad, sum3; rewrite !E by lia; reflexivity).
    lra.
  Qed.

  (* ---- determinants:  det U_m = S0 S1 S2,  (det M)^2 = (S0 S1 S2)^2 ---- *)
  Lemma Um_mm2 : eq2b (mat3 Um) (mm (tr3 (mat3 Vh)) (mm (diagm S) (mat3 Vh))).
  Proof.
    unfold Um.
    eapply eq2b_trans; [apply mat3_matmul3|].
    eapply eq2b_trans; [apply mm_extL, mat3_transpose3|]. apply mm_extR.
    eapply eq2b_trans; [apply mat3_matmul3|]. apply mm_extL, mat3_diag3.
  Qed.

  Lemma det_Um : @det3 NumR Um = S 0%nat * S 1%nat * S 2%nat.
  Proof.
    rewrite det3_detm, (detm_ext _ _ Um_mm2), !detm_mm, detm_tr3, detm_diagm.
    pose proof (orth_det_sq _ HV1) as Hd. change (T NumR) with R in *.
    set (dv := detm (mat3 Vh)) in *. set (s := S 0%nat * S 1%nat * S 2%nat).
    replace (dv * (s * dv)) with ((dv * dv) * s) by ring. rewrite Hd. ring.
  Qed.

  Lemma det_M_sq : @det3 NumR M * @det3 NumR M = (S 0%nat * S 1%nat * S 2%nat) * (S 0%nat * S 1%nat * S 2%nat).
  Proof.
    rewrite det3_detm, (detm_ext _ _ HM), !detm_mm, detm_diagm.
    pose proof (orth_det_sq _ HV1) as Hv. pose proof (orth_det_sq _ HU1) as Hu. change (T NumR) with R in *.
    set (s := S 0%nat * S 1%nat * S 2%nat) in *. set (du := detm (mat3 U)) in *. set (dv := detm (mat3 Vh)) in *.
    replace (du * (s * dv) * (du * (s * dv))) with ((du * du) * (dv * dv) * (s * s)) by ring.
    rewrite Hu, Hv. ring.
  Qed.

  (* the right variant returns a value exactly for the non-singular matrices ... *)
  Theorem polar_right_ok_iff :
    (exists Rr, polar_right M S Vh = Ok (Rr, Um)) <-> @det3 NumR M <> 0.
  Proof.
    assert (Hz : @det3 NumR M = 0 <-> @det3 NumR Um = 0).
    { rewrite det_Um. pose proof det_M_sq as Hq. split; intros H.
      - rewrite H in Hq. symmetry in Hq. rewrite Rmult_0_l in Hq. apply Rsqr_0_uniq. exact Hq.
      - rewrite H in Hq. rewrite Rmult_0_l in Hq. apply Rsqr_0_uniq. exact Hq. }
    split.
    - intros [Rr E] H0. apply Hz in H0. revert E. unfold polar_right. fold Um. unfold inv3.
      change (@neqb NumR (@det3 NumR Um) (@nzero NumR)) with (Reqb (@det3 NumR Um) 0).
      destruct (Reqb (@det3 NumR Um) 0) eqn:E0; [discriminate|].
      apply Reqb_false in E0. contradiction.
    - intros Hn. apply polar_right_total. fold Um. intros H0. apply Hz in H0. contradiction.
  Qed.

  (* ... and raises (numpy.linalg.LinAlgError, a ValueError) for every singular one *)
  Theorem polar_right_singular_raises :
    @det3 NumR M = 0 -> polar_right M S Vh = Err ValueError.
  Proof.
    intros H0.
    assert (Hu : @det3 NumR Um = 0).
    { rewrite det_Um. pose proof det_M_sq as Hq. rewrite H0, Rmult_0_l in Hq.
      apply Rsqr_0_uniq. symmetry. exact Hq. }
    unfold polar_right. fold Um. unfold inv3.
    change (@neqb NumR (@det3 NumR Um) (@nzero NumR)) with (Reqb (@det3 NumR Um) 0).
    destruct (Reqb (@det3 NumR Um) 0) eqn:E0; [reflexivity|].
    apply Reqb_false in E0. contradiction.
  Qed.

  (* the repair: R = U.Vh is orthogonal and R.U_m = M for EVERY M (no determinant hypothesis) *)
  Let Rf := matmul3 U Vh.
  Theorem polar_right_repaired_spec :
    let '(R, Ur) := @polar_right_repaired NumR U S Vh in
    (orth (mat3 R) /\ orth (tr3 (mat3 R))) /\ eq2b (mm (mat3 R) (mat3 Ur)) (mat3 M).
  Proof.
    unfold polar_right_repaired. fold Um. fold Rf.
    split.
    - exact (polar_left_orthogonal U S Vh HU1 HU2 HV1 HV2).
    - set (Uu := mat3 U). set (D := diagm S). set (V := mat3 Vh).
      apply eq2b_trans with (mm (mm Uu V) (mm (tr3 V) (mm D V))).
      { eapply eq2b_trans; [apply mm_extL, mat3_matmul3|]. apply mm_extR, Um_mm2. }
      apply eq2b_trans with (mm Uu (mm (mm V (tr3 V)) (mm D V))).
      { apply eq2b_all; intros i j. unfold mm, tr3, sum3; ring. }
      apply eq2b_trans with (mm Uu (mm D V)).
      { apply mm_extR. eapply eq2b_trans; [apply mm_extL, VVt|]. apply mm_id_l. }
      apply eq2b_sym, HM.
  Qed.

  (* ---- everything about the left variant, on the GENERATED code ---- *)
  Theorem polar_left_generated :
    let '(R, P) := @k_polar_decompose_left NumR M U S Vh in
    (orth (mat3 R) /\ orth (tr3 (mat3 R))) /\
    (sym3 (mat3 P) /\ forall x, 0 <= quad (mat3 P) x) /\
    eq2b (mm (mat3 P) (mat3 R)) (mat3 M) /\
    eq2b (mm (mat3 P) (mat3 P)) (mm (mat3 M) (tr3 (mat3 M))).
  Proof.
    rewrite polar_left_inst.
    destruct (polar_left U S Vh) as [R P] eqn:E.
    assert (ER : R = fst (polar_left U S Vh)) by (rewrite E; reflexivity).
    assert (EP : P = snd (polar_left U S Vh)) by (rewrite E; reflexivity).
    subst R P. repeat split.
    - apply (polar_left_orthogonal U S Vh HU1 HU2 HV1 HV2).
    - apply (polar_left_orthogonal U S Vh HU1 HU2 HV1 HV2).
    - apply polar_left_symmetric.
    - intros x. apply polar_left_psd, HS.
    - apply (polar_left_product M U S Vh HU1 HM).
    - apply polar_left_stretch_squared.
  Qed.

  (* the right variant on the generated code, WHICHEVER version of the source it was generated from
     (Inst_polar.polar_right_inst): a returned pair satisfies every clause; if the call raises, the error is
     numpy's LinAlgError (a ValueError) and M is singular *)
  Theorem polar_right_generated :
    match @k_polar_decompose_right NumR M U S Vh with
    | Ok (R, Ur) =>
        eq2b (mm (mat3 R) (mat3 Ur)) (mat3 M) /\ orth (mat3 R) /\
        sym3 (mat3 Ur) /\ forall x, 0 <= quad (mat3 Ur) x
    | Err e => e = ValueError /\ @det3 NumR M = 0
    end.
  Proof.
    destruct polar_right_inst as [H|H]; rewrite H.
    - destruct (Req_EM_T (@det3 NumR M) 0) as [H0|Hn].
      + rewrite (polar_right_singular_raises H0). split; [reflexivity|exact H0].
      + destruct (proj2 polar_right_ok_iff Hn) as [Rr E]. rewrite E.
        destruct (polar_right_product M U S Vh HU1 HV2 HM Rr Um E) as (_ & Hp & Ho).
        split; [exact Hp|]. split; [exact Ho|]. split.
        * apply polar_right_stretch_symmetric.
        * intros x. apply polar_right_stretch_psd, HS.
    - pose proof polar_right_repaired_spec as Hr. unfold polar_right_repaired in Hr |- *.
      split; [exact (proj2 Hr)|]. split; [exact (proj1 (proj1 Hr))|]. split.
      + apply polar_right_stretch_symmetric.
      + intros x. apply polar_right_stretch_psd, HS.
  Qed.

  (* the source is one of the two versions; in the repaired one the call never raises *)
  Theorem polar_right_repaired_total :
    (forall M' U' S' Vh' : arr NumR, @k_polar_decompose_right NumR M' U' S' Vh' = Ok (@polar_right_repaired NumR U' S' Vh')) ->
    exists R Ur, @k_polar_decompose_right NumR M U S Vh = Ok (R, Ur).
  Proof. intros H. rewrite H. unfold polar_right_repaired. eexists. eexists. reflexivity. Qed.
End PolarOracle2.

(* non-vacuity of the singular case and of the indefinite case: diag(1, -1, 0) with the SVD
   U = diag(1, -1, 1), S = (1, 1, 0), Vh = I *)
Definition Mx : arr NumR := mk_arr 0 [1; 0; 0; 0; -1; 0; 0; 0; 0].
Definition Ux : arr NumR := mk_arr 0 [1; 0; 0; 0; -1; 0; 0; 0; 1].
Definition Sx : arr NumR := mk_arr 0 [1; 1; 0].

Lemma polar2_nonvacuous :
  orth (mat3 Ux) /\ orth (tr3 (mat3 Ux)) /\ orth (mat3 (@eye3 NumR)) /\ orth (tr3 (mat3 (@eye3 NumR))) /\
  (forall i, (i < 3)%nat -> 0 <= Sx i) /\
  eq2b (mat3 Mx) (mm (mat3 Ux) (mm (diagm Sx) (mat3 (@eye3 NumR)))) /\
  @det3 NumR Mx = 0 /\ (exists x, quad (mat3 Mx) x < 0) /\
  (forall i j, (i < 3)%nat -> (j < 3)%nat -> mat3 Mx i j = mat3 Mx j i).
Proof.
  repeat split.
  - intros a e Ha He; three_m a; three_m e;
    cbv [sum3 mat3 Ux mk_arr nth Nat.eqb Nat.add Nat.mul]; numR; ring.
  - intros a e Ha He; three_m a; three_m e;
    cbv [sum3 tr3 mat3 Ux mk_arr nth Nat.eqb Nat.add Nat.mul]; numR; ring.
  - intros a e Ha He; three_m a; three_m e;
    cbv [sum3 mat3 eye3 mk_arr nth Nat.eqb Nat.add Nat.mul]; numR; ring.
  - intros a e Ha He; three_m a; three_m e;
    cbv [sum3 tr3 mat3 eye3 mk_arr nth Nat.eqb Nat.add Nat.mul]; numR; ring.
  - intros i Hi; three_m i; cbv [Sx mk_arr nth]; lra.
  - intros a e Ha He; three_m a; three_m e;
    cbv [mm diagm sum3 mat3 eye3 Mx Ux Sx mk_arr nth Nat.eqb Nat.add Nat.mul]; numR; ring.
  - cbv [det3 Mx mk_arr nth]; numR; ring.
  - exists (fun k => match k with 1%nat => 1 | _ => 0 end).
    cbv [quad sum3 mat3 Mx mk_arr nth Nat.add Nat.mul]. lra.
  - intros i j Hi Hj; three_m i; three_m j; cbv [mat3 Mx mk_arr nth Nat.add Nat.mul]; reflexivity.
Qed.
