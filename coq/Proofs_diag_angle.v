(* Proofs_diag_angle.v -- pydrex.diagnostics.smallest_angle: instance lemmas (generated = model)
   and what the function computes: the angle in [0, 90] degrees whose cosine is |v.a| / (|v||a|),
   unchanged by the sign (and any non-zero scaling) of either argument; ZeroDivisionError exactly
   when the (projected) vector or the axis vanishes. *)
From Coq Require Import Reals ZArith List Bool Lra Lia Psatz.
From PV Require Import Num NumR Model_diag Proofs_diag Proofs_diag_more Proofs_diag_inst.
From PV.gen Require Import Gen_diag.
Import ListNotations.
Open Scope R_scope.

Lemma rad2deg_alt x : x * 180 / PI = x * (180 / PI).
Proof. field. apply PI_neq0. Qed.

(* ---- tie T ----
   The proofs are SEMANTIC: both sides are split on their comparisons (innermost first) and every
   case is closed by linear arithmetic over the shared non-linear atoms, so a rewrite of the source
   that computes the same function (`>= 90` for `> 90`, a reordered clip) still passes, while one that
   changes a value does not. *)
Ltac split_ifs :=
  repeat match goal with
  | |- context [if ?b then _ else _] =>
      lazymatch b with context [if _ then _ else _] => fail | _ => idtac end;
      let E := fresh "E" in destruct b eqn:E
  end.

Ltac angle_inst_tac :=
  solve [ numR; cbv zeta; rewrite ?rad2deg_alt; split_ifs; bool2prop;
          first [ reflexivity | (f_equal; lra) | (exfalso; lra) ] ].

Lemma smallest_angle_inst (v a : AR) :
  @k_smallest_angle NumR v a = @smallest_angle NumR (vec_at v 0) (vec_at a 0) None.
Proof.
  unfold k_smallest_angle.
  cbv [smallest_angle smallest_angle_core clip rad2deg norm3 dot3 vec_at vx vy vz fst snd Nat.add].
  angle_inst_tac.
Qed.

Lemma smallest_angle_plane_inst (v a p : AR) :
  @k_smallest_angle_plane NumR v a p =
  @smallest_angle NumR (vec_at v 0) (vec_at a 0) (Some (vec_at p 0)).
Proof.
  unfold k_smallest_angle_plane.
  cbv [smallest_angle smallest_angle_core project_out clip rad2deg norm3 dot3 vec_at vx vy vz fst snd Nat.add].
  angle_inst_tac.
Qed.

Lemma smallest_angle_insts (v a p : AR) :
  @k_smallest_angle NumR v a = @smallest_angle NumR (vec_at v 0) (vec_at a 0) None /\
  @k_smallest_angle_plane NumR v a p = @smallest_angle NumR (vec_at v 0) (vec_at a 0) (Some (vec_at p 0)).
Proof. split; [apply smallest_angle_inst|apply smallest_angle_plane_inst]. Qed.

(* ---- the value ---- *)
Definition len (v : V3) : R := sqrt (dot3 v v).
Definition cosang (v a : V3) : R := dot3 v a / (len v * len a).

Lemma len_nonneg v : 0 <= len v.
Proof. apply sqrt_pos. Qed.
Lemma len_sq v : len v * len v = dot3 v v.
Proof. unfold len. apply sqrt_sqrt. d3 v. dunf. nra. Qed.
Lemma len_zero v : len v = 0 <-> v = (0, 0, 0).
Proof.
  split.
  - intros H. apply dot3_self_zero. rewrite <- len_sq, H. change (T NumR) with R. lra.
  - intros ->. unfold len. dunf. replace (0 * 0 + 0 * 0 + 0 * 0) with 0 by ring. apply sqrt_0.
Qed.

Lemma cauchy_schwarz (v a : V3) : dot3 v a * dot3 v a <= dot3 v v * dot3 a a.
Proof.
  pose proof (dot3_self_nonneg (cross3 v a)) as H.
  assert (E : dot3 (cross3 v a) (cross3 v a) = dot3 v v * dot3 a a - dot3 v a * dot3 v a).
  { d3 v. d3 a. cbv [cross3]. dunf. ring. }
  change (T NumR) with R in *. lra.
Qed.

Lemma cosang_range v a : len v * len a <> 0 -> -1 <= cosang v a <= 1.
Proof.
  intros Hd. unfold cosang.
  pose proof (len_nonneg v). pose proof (len_nonneg a).
  set (d := len v * len a) in *. set (c := dot3 v a).
  assert (Hp : 0 < d) by (subst d; nra).
  pose proof (cauchy_schwarz v a) as Hc. rewrite <- !len_sq in Hc. fold c in Hc.
  assert (Hcd : c * c <= d * d) by (subst d; change (T NumR) with R in *; nra).
  assert (Hb : - d <= c <= d) by (split; nra).
  split; apply (Rmult_le_reg_r d); try assumption; unfold Rdiv; rewrite Rmult_assoc, Rinv_l by lra; lra.
Qed.

Lemma clip_id x : -1 <= x <= 1 -> @clip NumR x (-1) 1 = x.
Proof.
  intros [A B]. cbv [clip]. numR.
  destruct (Rltb x (-1)) eqn:E1; bool2prop; [lra|].
  destruct (Rltb 1 x) eqn:E2; bool2prop; [lra|]. reflexivity.
Qed.

(* fold an angle in [0, 180] into [0, 90] *)
Definition fold90 (t : R) : R := if Rltb 90 t then 180 - t else t.

Lemma smallest_angle_core_R (v a : V3) :
  @smallest_angle_core NumR v a =
  if Reqb (len v * len a) 0 then Err DivZero
  else Ok (fold90 (acos (cosang v a) * (180 / PI))).
Proof.
  cbv [smallest_angle_core norm3 rad2deg]. numR.
  change (sqrt (dot3 v v)) with (len v). change (sqrt (dot3 a a)) with (len a).
  destruct (Reqb (len v * len a) 0) eqn:E; [reflexivity|]. bool2prop.
  change (IZR (-1)) with (-1). rewrite clip_id by (apply cosang_range; assumption).
  change (dot3 v a / (len v * len a)) with (cosang v a). unfold fold90.
  destruct (Rltb 90 (acos (cosang v a) * (180 / PI))); reflexivity.
Qed.

Lemma deg_pos : 0 < 180 / PI.
Proof. apply Rdiv_lt_0_compat; [lra|apply PI_RGT_0]. Qed.

Lemma deg_PI : PI * (180 / PI) = 180.
Proof. field. apply PI_neq0. Qed.

Lemma deg_bound t : 0 <= t <= PI -> 0 <= t * (180 / PI) <= 180.
Proof.
  intros [A B]. pose proof deg_pos. split; [nra|].
  assert (Hm : t * (180 / PI) <= PI * (180 / PI)) by (apply Rmult_le_compat_r; lra).
  rewrite deg_PI in Hm. exact Hm.
Qed.

Lemma fold90_range t : 0 <= t <= 180 -> 0 <= fold90 t <= 90.
Proof. intros [A B]. unfold fold90. destruct (Rltb 90 t) eqn:E; bool2prop; lra. Qed.

Lemma fold90_flip t : fold90 (180 - t) = fold90 t.
Proof.
  unfold fold90. destruct (Rltb 90 (180 - t)) eqn:E1; destruct (Rltb 90 t) eqn:E2; bool2prop; lra.
Qed.

(* result in [0, 90] *)
Theorem smallest_angle_range (v a : V3) plane x :
  @smallest_angle NumR v a plane = Ok x -> 0 <= x <= 90.
Proof.
  unfold smallest_angle. rewrite smallest_angle_core_R.
  destruct (Reqb _ 0); [discriminate|]. intros E. apply Ok_inj in E. subst x.
  apply fold90_range, deg_bound, acos_bound.
Qed.

(* ZeroDivisionError exactly when the (projected) vector or the axis is the zero vector *)
Theorem smallest_angle_error (v a : V3) plane :
  let w := match plane with Some p => @project_out NumR v p | None => v end in
  (@smallest_angle NumR v a plane = Err DivZero <-> (w = (0, 0, 0) \/ a = (0, 0, 0))) /\
  (forall e, @smallest_angle NumR v a plane = Err e -> e = DivZero).
Proof.
  intros w. unfold smallest_angle. fold w. rewrite smallest_angle_core_R.
  destruct (Reqb (len w * len a) 0) eqn:E; bool2prop.
  - split; [|intros e H; injection H; auto]. split; [|reflexivity]. intros _.
    apply Rmult_integral in E as [E|E]; [left|right]; now apply len_zero.
  - split; [|discriminate]. split; [discriminate|]. intros [H|H]; apply len_zero in H; rewrite H in E; lra.
Qed.

Lemma dot3_neg_r (v a : V3) : dot3 v (neg3 a) = - dot3 v a.
Proof. d3 v. d3 a. cbv [neg3 scale3]. dunf. ring. Qed.
Lemma dot3_neg_l (v a : V3) : dot3 (neg3 v) a = - dot3 v a.
Proof. d3 v. d3 a. cbv [neg3 scale3]. dunf. ring. Qed.
Lemma len_neg (v : V3) : len (neg3 v) = len v.
Proof. unfold len. rewrite dot3_neg_r, dot3_neg_l. f_equal. ring. Qed.

Lemma cosang_neg_r v a : cosang v (neg3 a) = - cosang v a.
Proof. unfold cosang. rewrite dot3_neg_r, len_neg. unfold Rdiv. ring. Qed.
Lemma cosang_neg_l v a : cosang (neg3 v) a = - cosang v a.
Proof. unfold cosang. rewrite dot3_neg_l, len_neg. unfold Rdiv. ring. Qed.

Lemma deg_flip t : (PI - t) * (180 / PI) = 180 - t * (180 / PI).
Proof. field. apply PI_neq0. Qed.

(* the axis is bidirectional, and so is the vector *)
Theorem smallest_angle_core_sign (v a : V3) :
  @smallest_angle_core NumR v (neg3 a) = @smallest_angle_core NumR v a /\
  @smallest_angle_core NumR (neg3 v) a = @smallest_angle_core NumR v a.
Proof.
  rewrite !smallest_angle_core_R, !len_neg, cosang_neg_r, cosang_neg_l.
  destruct (Reqb (len v * len a) 0); [split; reflexivity|].
  rewrite acos_opp, deg_flip, fold90_flip. split; reflexivity.
Qed.

Lemma project_out_neg_p (v p : V3) : @project_out NumR v (neg3 p) = @project_out NumR v p.
Proof. d3 v. d3 p. cbv [project_out neg3 scale3]. dunf. split_tuple; ring. Qed.
Lemma project_out_neg_v (v p : V3) : @project_out NumR (neg3 v) p = neg3 (@project_out NumR v p).
Proof. d3 v. d3 p. cbv [project_out neg3 scale3]. dunf. split_tuple; ring. Qed.

Theorem smallest_angle_sign (v a : V3) plane :
  @smallest_angle NumR v (neg3 a) plane = @smallest_angle NumR v a plane /\
  @smallest_angle NumR (neg3 v) a plane = @smallest_angle NumR v a plane /\
  (forall p, plane = Some p -> @smallest_angle NumR v a (Some (neg3 p)) = @smallest_angle NumR v a plane).
Proof.
  unfold smallest_angle. split; [ | split ].
  - exact (proj1 (smallest_angle_core_sign _ a)).
  - destruct plane as [p|].
    + rewrite project_out_neg_v. exact (proj2 (smallest_angle_core_sign _ a)).
    + exact (proj2 (smallest_angle_core_sign v a)).
  - intros p ->. now rewrite project_out_neg_p.
Qed.

(* the value: the angle in [0, 90] degrees whose cosine is |v.a| / (|v| |a|) *)
Theorem smallest_angle_core_cos (v a : V3) x :
  @smallest_angle_core NumR v a = Ok x ->
  0 <= x <= 90 /\ cos (x * (PI / 180)) = Rabs (cosang v a).
Proof.
  rewrite smallest_angle_core_R. destruct (Reqb (len v * len a) 0) eqn:E; [discriminate|]. bool2prop.
  intros H. apply Ok_inj in H. subst x.
  pose proof (cosang_range v a E) as Hc. pose proof (acos_bound (cosang v a)) as Hb.
  split; [apply fold90_range, deg_bound, Hb|].
  assert (Hback : forall t, t * (180 / PI) * (PI / 180) = t) by (intros; field; apply PI_neq0).
  unfold fold90. destruct (Rltb 90 (acos (cosang v a) * (180 / PI))) eqn:E9; bool2prop.
  - (* obtuse: acos c > pi/2, so c < 0 *)
    rewrite <- deg_flip, Hback, <- acos_opp, cos_acos by lra.
    assert (Hlt : PI / 2 < acos (cosang v a)).
    { apply (Rmult_lt_reg_r (180 / PI)); [apply deg_pos|].
      replace (PI / 2 * (180 / PI)) with 90 by (field; apply PI_neq0). exact E9. }
    assert (Hneg : cosang v a <= 0).
    { destruct (Rle_or_lt (cosang v a) 0) as [|Hpos]; [assumption|].
      assert (acos (cosang v a) <= acos 0).
      { rewrite acos_0. rewrite <- (cos_acos (cosang v a)) in Hpos by lra.
        destruct (Rle_or_lt (acos (cosang v a)) (PI / 2)) as [|Hgt]; [assumption|].
        exfalso. assert (cos (acos (cosang v a)) < 0).
        { apply cos_lt_0; lra. }
        lra. }
      rewrite acos_0 in *. lra. }
    rewrite Rabs_left1 by assumption. reflexivity.
  - rewrite Hback, cos_acos by lra.
    assert (Hle : acos (cosang v a) <= PI / 2).
    { apply (Rmult_le_reg_r (180 / PI)); [apply deg_pos|].
      replace (PI / 2 * (180 / PI)) with 90 by (field; apply PI_neq0). exact E9. }
    assert (Hpos : 0 <= cosang v a).
    { rewrite <- (cos_acos (cosang v a)) by lra. apply cos_ge_0; lra. }
    rewrite Rabs_right by lra. reflexivity.
Qed.

(* for a unit plane normal the projected vector is orthogonal to it *)
Lemma project_out_orth (v p : V3) : dot3 p p = 1 -> dot3 (@project_out NumR v p) p = 0.
Proof.
  d3 v. d3 p. cbv [project_out]. dunf. intros H.
  match goal with |- ?l = 0 =>
    replace l with ((x * x0 + y * y0 + z * z0) * (1 - (x0 * x0 + y0 * y0 + z0 * z0))) by ring end.
  rewrite H. ring.
Qed.

Lemma nonvacuous_angle :
  @smallest_angle NumR (1, 0, 0) (0, 1, 0) None = Ok 90 /\
  @smallest_angle NumR (1, 0, 0) (-1, 0, 0) None = Ok 0 /\
  @smallest_angle NumR (0, 0, 0) (1, 0, 0) None = Err DivZero /\
  @smallest_angle NumR (0, 0, 1) (1, 0, 0) (Some (0, 0, 1)) = Err DivZero.
Proof.
  unfold smallest_angle. rewrite !smallest_angle_core_R.
  assert (L1 : len (1, 0, 0) = 1) by (unfold len; dunf; replace (1 * 1 + 0 * 0 + 0 * 0) with 1 by ring; apply sqrt_1).
  assert (L2 : len (0, 1, 0) = 1) by (unfold len; dunf; replace (0 * 0 + 1 * 1 + 0 * 0) with 1 by ring; apply sqrt_1).
  assert (L3 : len (-1, 0, 0) = 1) by (unfold len; dunf; replace (-1 * -1 + 0 * 0 + 0 * 0) with 1 by ring; apply sqrt_1).
  assert (L0 : len (0, 0, 0) = 0) by (apply len_zero; reflexivity).
  assert (P0 : @project_out NumR (0, 0, 1) (0, 0, 1) = (0, 0, 0)) by (cbv [project_out]; dunf; split_tuple; ring).
  rewrite P0, L0, L1, L2, L3.
  assert (Z1 : Reqb (1 * 1) 0 = false) by (apply Reqb_false; lra).
  assert (Z0 : Reqb (0 * 1) 0 = true) by (apply Reqb_true; lra).
  rewrite Z1, Z0. repeat split.
  - unfold cosang. rewrite L1, L2. dunf. replace ((1 * 0 + 0 * 1 + 0 * 0) / (1 * 1)) with 0 by field.
    rewrite acos_0. replace (PI / 2 * (180 / PI)) with 90 by (field; apply PI_neq0).
    unfold fold90. destruct (Rltb 90 90) eqn:E; bool2prop; [lra|reflexivity].
  - unfold cosang. rewrite L1, L3. dunf. replace ((1 * -1 + 0 * 0 + 0 * 0) / (1 * 1)) with (Ropp 1) by field.
    rewrite acos_opp, acos_1. replace ((PI - 0) * (180 / PI)) with 180 by (field; apply PI_neq0).
    unfold fold90. destruct (Rltb 90 180) eqn:E; bool2prop; [f_equal; lra|lra].
Qed.
