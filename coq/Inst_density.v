(* Inst_density.v -- kernel-checked instance lemmas for pydrex.stats.point_density and for
   pydrex.geometry.poles on several orientations (tie T, C20).

   coq/gen/Gen_density.v is regenerated from the current source on every run by
   translator/specs_density.py: the PUBLIC function point_density is executed as it is -- counting grid
   (np.mgrid, arcsin, to_cartesian), the loop over counters, np.dot, abs for axial data, the kernel
   looked up in SPHERICAL_COUNTING_KERNELS and called with the caller's keyword arguments (the five real
   kernel functions with _kamb_radius / _kamb_units), the weights, (sum - 0.5) / scale, the division by
   the grid mean, the clip and lambert_equal_area -- on g x g grids with n symbolic data vectors;
   to_cartesian / lambert_equal_area stay calls of the generated scalar definitions of Gen_geometry.
   The lemmas state that each generated definition equals the hand-written list model
   Model_density.point_density for ALL data, weights and sigma <> 0.  An edit of the source changes
   Gen_density.v and one of these proofs stops compiling. *)
From Coq Require Import Reals ZArith List Bool Lra Lia.
From PV Require Import Num NumR Model_density.
From PV.gen Require Import Gen_geometry Gen_density.
Import ListNotations.
Open Scope R_scope.

Notation RL := (list R).
Notation A := (@mk_arr R 0).

Ltac explode l H :=
  repeat (destruct l as [|? l]; [ cbn in H; discriminate H | ]);
  destruct l; [ clear H | cbn in H; discriminate H ].

Fixpoint zip3 (xs ys zs : RL) : list (R * R * R) :=
  match xs, ys, zs with
  | x :: xs', y :: ys', z :: zs' => (x, y, z) :: zip3 xs' ys' zs'
  | _, _, _ => []
  end.

Definition pack3 (r : RL * RL * RL) : arr R * arr R * arr R :=
  let '(X, Y, T) := r in (A X, A Y, A T).

Definition density_stmt (k : Z) (axial : bool) (g n : nat)
    (gen : arr R -> arr R -> arr R -> R -> R -> res (arr R * arr R * arr R)) : Prop :=
  forall (xs ys zs : RL) (sigma w : R),
    length xs = n -> length ys = n -> length zs = n -> sigma <> 0 ->
    gen (A xs) (A ys) (A zs) sigma w = Ok (pack3 (@point_density NumR k sigma w axial g (zip3 xs ys zs))).

Ltac norm :=
  cbv -[Rltb Rleb Reqb Rplus Rminus Rmult Rdiv Ropp Rinv IZR PI acos cos sin sqrt exp Rabs
        k_to_cartesian k_lambert_equal_area].

Ltac calls :=
  repeat match goal with
  | |- context [@k_to_cartesian ?F ?a ?b ?c] => destruct (@k_to_cartesian F a b c) as [[? ?] ?]; cbv beta iota
  end;
  repeat match goal with
  | |- context [@k_lambert_equal_area ?F ?a ?b ?c] => destruct (@k_lambert_equal_area F a b c) as [? ?]; cbv beta iota
  end.

Lemma div_zero_inv a d : d <> 0 -> a / d = 0 -> a = 0.
Proof. intros Hd H. apply (f_equal (fun t => t * d)) in H. unfold Rdiv in H. rewrite Rmult_assoc, Rinv_l, Rmult_1_r, Rmult_0_l in H; assumption. Qed.

Lemma sq_nonzero s : s <> 0 -> s * s <> 0.
Proof. intros H E. apply Rmult_integral in E. tauto. Qed.

Lemma nsq_pos n s : 0 < n -> n + s * s <> 0.
Proof. intros Hn. pose proof (Rle_0_sqr s) as H. unfold Rsqr in H. lra. Qed.

(* zero denominators of the Python scalar divisions cannot occur (sigma <> 0) *)
Ltac side_cond Hs :=
  let Z := fresh "Hzero" in
  intros Z;
  repeat match type of Z with
  | ?a * ?a = 0 => let Z' := fresh in assert (Z' : a = 0) by (destruct (Rmult_integral _ _ Z); assumption);
                   clear Z; rename Z' into Z
  end;
  first
  [ revert Z; apply nsq_pos; lra
  | revert Z; apply sq_nonzero; exact Hs
  | match type of Z with
    | context [?s * ?s / (?n + ?s * ?s)] =>
        let Q := fresh "Hq" in
        assert (Q : s * s / (n + s * s) = 0) by lra;
        apply (sq_nonzero s Hs); apply (div_zero_inv _ (n + s * s)); [ apply nsq_pos; lra | exact Q ]
    | context [?n / (?s * ?s)] =>
        let P := fresh "Hp" in let Q := fresh "Hq" in
        assert (P : 0 < s * s) by (pose proof (Rle_0_sqr s) as P; unfold Rsqr in P; pose proof (sq_nonzero s Hs); lra);
        assert (Q : 0 < n / (s * s)) by (apply Rdiv_lt_0_compat; lra);
        first [ lra | nra ]
    end
  | exact (Hs Z) ].

Ltac no_div0 Hs :=
  repeat match goal with
  | |- context [Reqb ?a 0] =>
      let E := fresh "E" in
      destruct (Reqb a 0) eqn:E;
      [ exfalso; apply Reqb_true in E; revert E; side_cond Hs | cbv beta iota ]
  end.

Ltac forks :=
  repeat match goal with
  | |- (if Rleb ?a ?b then _ else _) = _ => destruct (Rleb a b) eqn:?; norm
  end.

Definition density_stmt_pure (k : Z) (axial : bool) (g n : nat)
    (gen : arr R -> arr R -> arr R -> R -> R -> arr R * arr R * arr R) : Prop :=
  forall (xs ys zs : RL) (sigma w : R),
    length xs = n -> length ys = n -> length zs = n ->
    gen (A xs) (A ys) (A zs) sigma w = pack3 (@point_density NumR k sigma w axial g (zip3 xs ys zs)).

(* schmidt_count: Python folds 0.5 / n and n * 0.01 into one binary64 literal (exact for n = 1, 2) *)
Ltac schmidt_consts :=
  try replace (1 / 2 / 1) with (1 / 2) by lra;
  try replace (1 / 2 / 2) with (1 / 4) by lra;
  try replace (1 * (5764607523034235 / 576460752303423488)) with (5764607523034235 / 576460752303423488) by lra;
  try replace (2 * (5764607523034235 / 576460752303423488)) with (5764607523034235 / 288230376151711744) by lra.

Ltac differs := fail 1 "the definition regenerated from pydrex.stats.point_density differs from Model_density.point_density".

Ltac density_tac g :=
  let xs := fresh "xs" in let ys := fresh "ys" in let zs := fresh "zs" in
  let Hx := fresh in let Hy := fresh in let Hz := fresh in let Hs := fresh "Hs" in
  intros xs ys zs ? ? Hx Hy Hz Hs; explode xs Hx; explode ys Hy; explode zs Hz;
  unfold g, pack3, point_density; norm; calls; no_div0 Hs; forks; first [ reflexivity | differs ].

Ltac density_pure_tac g :=
  let xs := fresh "xs" in let ys := fresh "ys" in let zs := fresh "zs" in
  let Hx := fresh in let Hy := fresh in let Hz := fresh in
  intros xs ys zs ? ? Hx Hy Hz; explode xs Hx; explode ys Hy; explode zs Hz;
  unfold g, pack3, point_density; norm; calls; schmidt_consts; first [ reflexivity | differs ].

(* ---- schmidt_count (1) ---- *)
Lemma point_density_inst_k1_a1_g2_n1 : density_stmt_pure 1 true 2 1 (@k_point_density_k1_a1_g2_n1 NumR).
Proof. density_pure_tac @k_point_density_k1_a1_g2_n1. Qed.
Lemma point_density_inst_k1_a1_g2_n2 : density_stmt_pure 1 true 2 2 (@k_point_density_k1_a1_g2_n2 NumR).
Proof. density_pure_tac @k_point_density_k1_a1_g2_n2. Qed.
Lemma point_density_inst_k1_a0_g2_n1 : density_stmt_pure 1 false 2 1 (@k_point_density_k1_a0_g2_n1 NumR).
Proof. density_pure_tac @k_point_density_k1_a0_g2_n1. Qed.
Lemma point_density_inst_k1_a0_g2_n2 : density_stmt_pure 1 false 2 2 (@k_point_density_k1_a0_g2_n2 NumR).
Proof. density_pure_tac @k_point_density_k1_a0_g2_n2. Qed.
Lemma point_density_inst_k1_a1_g3_n1 : density_stmt_pure 1 true 3 1 (@k_point_density_k1_a1_g3_n1 NumR).
Proof. density_pure_tac @k_point_density_k1_a1_g3_n1. Qed.
(* ---- poles on several orientations: the batch is the one-orientation function, grain by grain ---- *)
Definition pack_poles (r : res (list (R * R * R))) : res (arr R * arr R * arr R) :=
  match r with
  | Err e => Err e
  | Ok ps => Ok (A (map (fun p => fst (fst p)) ps), A (map (fun p => snd (fst p)) ps), A (map (fun p => snd p) ps))
  end.

Fixpoint chunks9 (n : nat) (l : RL) : list (arr R) :=
  match n with O => [] | S n' => A (firstn 9 l) :: chunks9 n' (skipn 9 l) end.

Definition poles_stmt (ax : Z) (n : nat) (gen : arr R -> arr R -> res (arr R * arr R * arr R)) : Prop :=
  forall os hkl : RL, length os = (9 * n)%nat -> length hkl = 3%nat ->
    gen (A os) (A hkl) = pack_poles (@poles_all NumR ax (chunks9 n os) (A hkl)).

Ltac poles_tac g :=
  let os := fresh "os" in let hkl := fresh "hkl" in let Ho := fresh in let Hh := fresh in
  intros os hkl Ho Hh; explode os Ho; explode hkl Hh;
  unfold g, pack_poles, poles_all, poles_one;
  cbv -[Rltb Rleb Reqb Rplus Rminus Rmult Rdiv Ropp Rinv IZR sqrt];
  repeat match goal with |- context [Reqb ?a ?b] => destruct (Reqb a b) eqn:?; cbv beta iota end;
  first [ reflexivity | fail 1 "the batch definition regenerated from pydrex.geometry.poles differs from the map of the one-orientation function" ].

Lemma poles_batch_inst_xz_n2 : poles_stmt 1 2 (@k_poles_batch_xz_n2 NumR).
Proof. poles_tac @k_poles_batch_xz_n2. Qed.
Lemma poles_batch_inst_xz_n3 : poles_stmt 1 3 (@k_poles_batch_xz_n3 NumR).
Proof. poles_tac @k_poles_batch_xz_n3. Qed.
Lemma poles_batch_inst_yx_n2 : poles_stmt 2 2 (@k_poles_batch_yx_n2 NumR).
Proof. poles_tac @k_poles_batch_yx_n2. Qed.
