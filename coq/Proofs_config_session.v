(* Proofs_config_session.v -- parse_config / as_dict() over call histories with live, edited results
   (group `config`, C19).  Statements about `as_source` (the source as it is) hold for EVERY history
   and every well-formed process state; the two `_refuted` lemmas show that implementations which keep
   module-level tables and hand them out violate them on three-step histories. *)
From Coq Require Import Floats ZArith String List Bool Lia.
From PV.gen Require Import Gen_tables_params.
From PV Require Import Model_config Model_config_session.
Import ListNotations.
Open Scope string_scope.
Open Scope list_scope.

(* ------------------------------------------------------------------ induction over nested values *)
Section ValueInd.
  Variable P : value -> Prop.
  Hypothesis Hleaf : forall v, (forall l, v <> VList l) -> (forall t, v <> VTable t) -> P v.
  Hypothesis Hlist : forall l, Forall P l -> P (VList l).
  Hypothesis Htable : forall t, Forall (fun kv => P (snd kv)) t -> P (VTable t).
  Lemma value_nested_ind : forall v, P v.
  Proof.
    fix IH 1. destruct v; try (apply Hleaf; intros; discriminate).
    - apply Hlist. induction l as [|x r IHr]; constructor; [apply IH|apply IHr].
    - apply Htable. induction kv as [|[k x] r IHr]; constructor; [apply IH|apply IHr].
  Qed.
End ValueInd.

Section LvalueInd.
  Variable P : lvalue -> Prop.
  Hypothesis Himm : forall v, P (LImm v).
  Hypothesis Hlist : forall l items, Forall P items -> P (LList l items).
  Hypothesis Hdict : forall l items, Forall (fun kv => P (snd kv)) items -> P (LDict l items).
  Lemma lvalue_nested_ind : forall x, P x.
  Proof.
    fix IH 1. destruct x.
    - apply Himm.
    - apply Hlist. induction items as [|x r IHr]; constructor; [apply IH|apply IHr].
    - apply Hdict. induction items as [|[k x] r IHr]; constructor; [apply IH|apply IHr].
  Qed.
End LvalueInd.

(* ------------------------------------------------------------------ label: contents kept, identities new *)
Lemma label_VList : forall l n,
  label (VList l) n = (let '(l', n') := label_list l (S n) in (LList n l', n')).
Proof. reflexivity. Qed.
Lemma label_VTable : forall t n,
  label (VTable t) n = (let '(t', n') := label_items t (S n) in (LDict n t', n')).
Proof. reflexivity. Qed.
Lemma label_leaf : forall v n, (forall l, v <> VList l) -> (forall t, v <> VTable t) -> label v n = (LImm v, n).
Proof. intros v n H1 H2. destruct v; try reflexivity; [elim (H1 l)|elim (H2 kv)]; reflexivity. Qed.

Definition items_labels (t : list (string * lvalue)) : list loc :=
  flat_map (fun kv => match kv with (_, y) => labels y end) t.
Definition items_erase (t : list (string * lvalue)) : list (string * value) :=
  map (fun kv => match kv with (k, y) => (k, erase y) end) t.

(* the containers of a freshly labelled value are exactly the labels n, n+1, ..., n'-1 *)
Definition label_spec (v : value) : Prop :=
  forall n, erase (fst (label v n)) = v /\ n <= snd (label v n) /\
            labels (fst (label v n)) = seq n (snd (label v n) - n).

Lemma seq_split : forall a b c, a <= b -> b <= c -> seq a (b - a) ++ seq b (c - b) = seq a (c - a).
Proof. intros. replace (c - a) with ((b - a) + (c - b)) by lia. rewrite seq_app. f_equal. f_equal. lia. Qed.

Lemma label_list_spec : forall l, Forall label_spec l -> forall n,
  map erase (fst (label_list l n)) = l /\ n <= snd (label_list l n) /\
  flat_map labels (fst (label_list l n)) = seq n (snd (label_list l n) - n).
Proof.
  induction 1 as [|x r Hx _ IH]; intros n; simpl.
  - split; [reflexivity|]. split; [lia|]. now rewrite Nat.sub_diag.
  - destruct (Hx n) as (E1 & B1 & L1). destruct (label x n) as [x' n1] eqn:Ex. simpl in *.
    destruct (IH n1) as (E2 & B2 & L2). destruct (label_list r n1) as [r' n2] eqn:Er. simpl in *.
    split; [now rewrite E1, E2|]. split; [lia|]. rewrite L1, L2. apply seq_split; lia.
Qed.

Lemma label_items_spec : forall t, Forall (fun kv => label_spec (snd kv)) t -> forall n,
  items_erase (fst (label_items t n)) = t /\ n <= snd (label_items t n) /\
  items_labels (fst (label_items t n)) = seq n (snd (label_items t n) - n).
Proof.
  induction 1 as [|[k x] r Hx _ IH]; intros n; simpl.
  - split; [reflexivity|]. split; [lia|]. now rewrite Nat.sub_diag.
  - simpl in Hx. destruct (Hx n) as (E1 & B1 & L1). destruct (label x n) as [x' n1] eqn:Ex. simpl in *.
    destruct (IH n1) as (E2 & B2 & L2). destruct (label_items r n1) as [r' n2] eqn:Er. simpl in *.
    split; [now rewrite E1, E2|]. split; [lia|]. rewrite L1, L2. apply seq_split; lia.
Qed.

Lemma label_ok : forall v, label_spec v.
Proof.
  intros v. induction v as [v H1 H2|l H|t H] using value_nested_ind; intros n.
  -  rewrite (label_leaf v n H1 H2). simpl. split; [reflexivity|]. split; [lia|].
    now rewrite Nat.sub_diag.
  - rewrite label_VList. destruct (label_list_spec l H (S n)) as (E & B & L).
    destruct (label_list l (S n)) as [l' n'] eqn:El. simpl in *. split; [now rewrite E|]. split; [lia|].
    rewrite L. replace (n' - n) with (S (n' - S n)) by lia. reflexivity.
  - rewrite label_VTable. destruct (label_items_spec t H (S n)) as (E & B & L).
    destruct (label_items t (S n)) as [t' n'] eqn:El. simpl in *. fold (items_erase t'). fold (items_labels t').
    split; [now rewrite E|]. split; [lia|].
    rewrite L. replace (n' - n) with (S (n' - S n)) by lia. reflexivity.
Qed.

Lemma label_erase : forall v n x n', label v n = (x, n') -> erase x = v.
Proof. intros v n x n' E. destruct (label_ok v n) as (H & _). now rewrite E in H. Qed.
Lemma label_mono : forall v n x n', label v n = (x, n') -> n <= n'.
Proof. intros v n x n' E. destruct (label_ok v n) as (_ & H & _). now rewrite E in H. Qed.
Lemma label_labels : forall v n x n', label v n = (x, n') -> labels x = seq n (n' - n).
Proof. intros v n x n' E. destruct (label_ok v n) as (_ & _ & H). now rewrite E in H. Qed.
Lemma label_count : forall v n x n', label v n = (x, n') -> n' = n + length (labels x).
Proof.
  intros v n x n' E. pose proof (label_mono _ _ _ _ E). rewrite (label_labels _ _ _ _ E), seq_length. lia.
Qed.
Lemma label_range : forall v n x n' l, label v n = (x, n') -> In l (labels x) -> n <= l < n'.
Proof.
  intros v n x n' l E H. rewrite (label_labels _ _ _ _ E) in H. apply in_seq in H.
  pose proof (label_mono _ _ _ _ E). lia.
Qed.

(* ------------------------------------------------------------------ edits *)
Lemma update_at_frame : forall l m x, ~ In l (labels x) -> update_at l m x = x.
Proof.
  intros l m x. induction x as [v|l' items IH|l' items IH] using lvalue_nested_ind; intros H.
  - reflexivity.
  - simpl in *.
    assert (E : map (update_at l m) items = items).
    { assert (H' : ~ In l (flat_map labels items)) by (intro C; apply H; now right). clear - IH H'.
      induction IH as [|y r Hy _ IHr]; simpl in *; [reflexivity|].
      rewrite Hy, IHr; auto; intro C; apply H'; apply in_or_app; auto. }
    rewrite E. destruct (Nat.eqb l l') eqn:El; [|reflexivity].
    apply Nat.eqb_eq in El. subst. elim H. now left.
  - simpl in *.
    assert (E : map (fun kv => match kv with (k, y) => (k, update_at l m y) end) items = items).
    { assert (H' : ~ In l (items_labels items)) by (intro C; apply H; now right). clear - IH H'.
      induction IH as [|[k y] r Hy _ IHr]; simpl in *; [reflexivity|].
      rewrite Hy, IHr; auto; intro C; apply H'; apply in_or_app; auto. }
    rewrite E. destruct (Nat.eqb l l') eqn:El; [|reflexivity].
    apply Nat.eqb_eq in El. subst. elim H. now left.
Qed.

Lemma ldset_labels : forall k v t l, In l (items_labels (ldset k (LImm v) t)) -> In l (items_labels t).
Proof.
  induction t as [|[k' y] r IH]; simpl; intros l H; [auto|].
  destruct (String.eqb k k'); simpl in *.
  - apply in_or_app. now right.
  - apply in_app_or in H. apply in_or_app. destruct H; auto.
Qed.
Lemma lremove_labels : forall k t l, In l (items_labels (lremove k t)) -> In l (items_labels t).
Proof.
  induction t as [|[k' y] r IH]; simpl; intros l H; [auto|].
  destruct (String.eqb k k'); simpl in *.
  - apply in_or_app. right. auto.
  - apply in_app_or in H. apply in_or_app. destruct H; auto.
Qed.
Lemma set_nth_labels : forall i v t l, In l (flat_map labels (set_nth i (LImm v) t)) -> In l (flat_map labels t).
Proof.
  induction i; intros v t l H; destruct t as [|y r]; simpl in *; auto.
  - apply in_or_app. now right.
  - apply in_app_or in H. apply in_or_app. destruct H; [now left|right; eauto].
Qed.

Lemma apply_mut_labels : forall m x l, In l (labels (apply_mut m x)) -> In l (labels x).
Proof.
  intros m x l H. destruct x as [v|l' items|l' items]; destruct m; simpl in *; auto.
  all: try (destruct H as [H|H]; [now left|right]).
  all: try solve [elim H].
  all: try solve [eapply set_nth_labels; eauto].
  all: try solve [rewrite flat_map_app in H; apply in_app_or in H; destruct H as [H|H]; [auto|elim H]].
  all: try solve [apply ldset_labels in H; exact H].
  all: try solve [apply lremove_labels in H; exact H].
Qed.

Local Arguments apply_mut : simpl never.

(* an edit never makes a container reachable that was not reachable before *)
Lemma update_at_labels : forall l m x l0, In l0 (labels (update_at l m x)) -> In l0 (labels x).
Proof.
  intros l m x. induction x as [v|l' items IH|l' items IH] using lvalue_nested_ind; intros l0 H.
  - auto.
  - simpl in H.
    assert (S : forall l1, In l1 (labels (LList l' (map (update_at l m) items))) -> In l1 (labels (LList l' items))).
    { clear - IH. simpl. intros l1 [H|H]; [now left|right].
      induction IH as [|y r Hy _ IHr]; simpl in *; [auto|].
      apply in_app_or in H. apply in_or_app. destruct H; auto. }
    destruct (Nat.eqb l l'); [apply apply_mut_labels in H|]; auto.
  - simpl in H.
    assert (S : forall l1, In l1 (labels (LDict l' (map (fun kv => match kv with (k, y) => (k, update_at l m y) end) items))) ->
                           In l1 (labels (LDict l' items))).
    { clear - IH. simpl. intros l1 [H|H]; [now left|right].
      induction IH as [|[k y] r Hy _ IHr]; simpl in *; [auto|].
      apply in_app_or in H. apply in_or_app. destruct H; auto. }
    destruct (Nat.eqb l l'); [apply apply_mut_labels in H|]; auto.
Qed.

Lemma lget_labels : forall k t y l, lget k t = Some y -> In l (labels y) -> In l (items_labels t).
Proof.
  induction t as [|[k' y'] r IH]; simpl; intros y l H Hl; [discriminate|].
  apply in_or_app. destruct (String.eqb k k'); [inversion H; subst; auto|right; eauto].
Qed.

(* a path leads to a container of the result it starts from *)
Lemma resolve_in : forall path x l, resolve path x = Some l -> In l (labels x).
Proof.
  induction path as [|k rest IH]; intros x l H; simpl in H.
  - destruct x; inversion H; subst; simpl; auto.
  - destruct x as [?|? ?|l' items]; try discriminate.
    destruct (lget k items) as [y|] eqn:E; [|discriminate].
    simpl. right. eapply lget_labels; eauto.
Qed.

(* ------------------------------------------------------------------ well-formed process states *)
Fixpoint disjoint_cells (cs : list lvalue) : Prop :=
  match cs with
  | [] => True
  | x :: r => (forall y, In y r -> forall l, In l (labels x) -> ~ In l (labels y)) /\ disjoint_cells r
  end.

Definition bounded (n : loc) (cs : list lvalue) : Prop :=
  forall x, In x cs -> forall l, In l (labels x) -> l < n.

(* no container is part of two live objects, and the label counter is ahead of all of them *)
Definition wf (s : sstate) : Prop := bounded s.(s_next) (all_cells s) /\ disjoint_cells (all_cells s).

Lemma disjoint_cells_map : forall f cs,
  (forall x l, In l (labels (f x)) -> In l (labels x)) -> disjoint_cells cs -> disjoint_cells (map f cs).
Proof.
  induction cs as [|x r IH]; simpl; intros Hf D; [auto|]. destruct D as [H1 H2]. split; [|auto].
  intros y Hy l Hl C. apply in_map_iff in Hy. destruct Hy as (y0 & <- & Hy0).
  apply (H1 y0 Hy0 l); auto.
Qed.

Lemma bounded_map : forall f n cs,
  (forall x l, In l (labels (f x)) -> In l (labels x)) -> bounded n cs -> bounded n (map f cs).
Proof.
  intros f n cs Hf B x Hx l Hl. apply in_map_iff in Hx. destruct Hx as (x0 & <- & Hx0). eauto.
Qed.

Lemma disjoint_cells_snoc : forall cs x n,
  bounded n cs -> (forall l, In l (labels x) -> n <= l) -> disjoint_cells cs -> disjoint_cells (cs ++ [x]).
Proof.
  induction cs as [|y r IH]; simpl; intros x n B Hx D.
  - split; [intros ? []|exact I].
  - destruct D as [D1 D2]. split.
    + intros z Hz l Hl C. apply in_app_or in Hz. destruct Hz as [Hz|[<-|[]]].
      * eapply D1; eauto.
      * assert (l < n) by (eapply B; [left; reflexivity|exact Hl]). apply Hx in C. lia.
    + eapply IH; eauto. intros z Hz. apply B. now right.
Qed.

Lemma bounded_snoc : forall cs x n n',
  n <= n' -> bounded n cs -> (forall l, In l (labels x) -> l < n') -> bounded n' (cs ++ [x]).
Proof.
  intros cs x n n' Hn B Hx y Hy l Hl. apply in_app_or in Hy. destruct Hy as [Hy|[<-|[]]]; [|auto].
  specialize (B y Hy l Hl). lia.
Qed.

Lemma all_cells_push : forall s n x, all_cells (push s n x) = all_cells s ++ [x].
Proof. intros. unfold all_cells, push, inst_cells. simpl. now rewrite app_assoc. Qed.

Lemma all_cells_mutate : forall l m s, all_cells (mutate_all l m s) = map (update_at l m) (all_cells s).
Proof. intros. unfold all_cells, mutate_all, inst_cells. simpl. rewrite map_app, !map_map. reflexivity. Qed.

Lemma wf_push_fresh : forall s v x n', wf s -> label v s.(s_next) = (x, n') -> wf (push s n' x).
Proof.
  intros s v x n' [B D] E. pose proof (label_mono _ _ _ _ E) as Hm. split.
  - rewrite all_cells_push. change (s_next (push s n' x)) with n'. eapply bounded_snoc; eauto.
    intros l Hl. pose proof (label_range _ _ _ _ _ E Hl). lia.
  - rewrite all_cells_push. eapply disjoint_cells_snoc; eauto.
    intros l Hl. pose proof (label_range _ _ _ _ _ E Hl). lia.
Qed.

Lemma wf_push_imm : forall s v, wf s -> wf (push s s.(s_next) (LImm v)).
Proof.
  intros s v [B D]. split; rewrite all_cells_push.
  - change (s_next (push s (s_next s) (LImm v))) with (s_next s). eapply bounded_snoc; eauto. intros l [].
  - eapply disjoint_cells_snoc; eauto. intros l [].
Qed.

Lemma wf_mutate : forall l m s, wf s -> wf (mutate_all l m s).
Proof.
  intros l m s [B D]. split; rewrite all_cells_mutate.
  - change (s_next (mutate_all l m s)) with (s_next s). apply bounded_map; auto. intros; eapply update_at_labels; eauto.
  - apply disjoint_cells_map; auto. intros; eapply update_at_labels; eauto.
Qed.

(* a new record: an empty slot, no container *)
Definition add_instance (s : sstate) (c : nat) : sstate :=
  mkS s.(s_next) s.(s_defaults) (s.(s_instances) ++ [(c, LImm VNone)]) s.(s_results).

Lemma disjoint_cells_insert_imm : forall a b v, disjoint_cells (a ++ b) -> disjoint_cells (a ++ LImm v :: b).
Proof.
  induction a as [|x r IH]; simpl; intros b v D.
  - split; [intros y Hy l []|exact D].
  - destruct D as [D1 D2]. split; [|auto]. intros y Hy l Hl C. apply in_app_or in Hy.
    destruct Hy as [Hy|[<-|Hy]]; [| elim C |]; eapply D1; eauto; apply in_or_app; auto.
Qed.

Lemma wf_add_instance : forall s c, wf s -> wf (add_instance s c).
Proof.
  intros s c [B D]. unfold wf, all_cells, inst_cells, add_instance in *. simpl in *.
  rewrite map_app. simpl. rewrite <- app_assoc. simpl. split.
  - intros x Hx l Hl. destruct Hx as [<-|Hx]; [eapply B; [left; reflexivity|exact Hl]|].
    apply in_app_or in Hx. destruct Hx as [Hx|[<-|Hx]]; [|elim Hl|]; (eapply B; [right; apply in_or_app; eauto|exact Hl]).
  - destruct D as [D1 D2]. split.
    + intros y Hy l Hl C. apply in_app_or in Hy. destruct Hy as [Hy|[<-|Hy]]; [|elim C|];
        (eapply D1; [apply in_or_app; eauto|exact Hl|exact C]).
    + now apply disjoint_cells_insert_imm.
Qed.

Lemma step_parse : forall s toml, step as_source s (SParse toml) =
  match parse_config v_fixed toml with
  | COk cfg => let '(x, n) := label (config_value cfg) (s_next s) in (push s n x, [OParse (COk cfg) (length (labels x))])
  | CErr e => (push s (s_next s) (LImm VNone), [OParse (CErr e) 0])
  end.
Proof. reflexivity. Qed.
Lemma step_asdict : forall s c, step as_source s (SAsDict c) =
  (let '(x, n) := label (VTable (asdict_of c)) (s_next s) in (push s n x, [OAsDict (asdict_of c) (length (labels x))])).
Proof. reflexivity. Qed.
Lemma step_new : forall s c, step as_source s (SNew c) = (add_instance s c, []).
Proof. reflexivity. Qed.
Lemma step_asdict_of : forall s i, step as_source s (SAsDictOf i) =
  (let '(x, n) := label (VTable (asdict_of (inst_class s i))) (s_next s) in
   (push s n x, [OAsDict (asdict_of (inst_class s i)) (length (labels x))])).
Proof. reflexivity. Qed.
Lemma step_attrs : forall s i, step as_source s (SAttrs i) = (s, [OAttrs (instance_of (inst_class s i))]).
Proof. reflexivity. Qed.
Lemma step_mutate : forall s r path m, step as_source s (SMutate r path m) =
  match resolve path (result s r) with Some l => (mutate_all l m s, []) | None => (s, []) end.
Proof. reflexivity. Qed.
Lemma step_read : forall s r, step as_source s (SRead r) = (s, [ORead (erase (result s r))]).
Proof. reflexivity. Qed.

Lemma step_wf : forall s o, wf s -> wf (fst (step as_source s o)).
Proof.
  intros s o W. destruct o as [toml|c|c|i|i|r path m|r].
  - rewrite step_parse. destruct (parse_config v_fixed toml) as [cfg|e]; [|now apply wf_push_imm].
    destruct (label (config_value cfg) (s_next s)) as [x n] eqn:E. eapply wf_push_fresh; eauto.
  - rewrite step_asdict. destruct (label (VTable (asdict_of c)) (s_next s)) as [x n] eqn:E. eapply wf_push_fresh; eauto.
  - rewrite step_new. now apply wf_add_instance.
  - rewrite step_asdict_of. destruct (label (VTable (asdict_of (inst_class s i))) (s_next s)) as [x n] eqn:E.
    eapply wf_push_fresh; eauto.
  - rewrite step_attrs. auto.
  - rewrite step_mutate. destruct (resolve path (result s r)); [now apply wf_mutate|auto].
  - rewrite step_read. auto.
Qed.

Lemma session_wf : forall h s, wf s -> wf (state_after as_source s h).
Proof. induction h as [|o t IH]; simpl; intros s W; [auto|]. apply IH. now apply step_wf. Qed.

(* the state of a fresh process is well-formed (whatever the generated class tables contain) *)
Lemma init_wf : wf init.
Proof.
  unfold init. destruct (label (VTable (asdict_of 0)) 0) as [d n] eqn:Ed.
  unfold wf, all_cells, inst_cells. simpl. split.
  - intros x [<-|[]] l Hl. pose proof (label_range _ _ _ _ _ Ed Hl). lia.
  - split; [intros y []|exact I].
Qed.

(* ------------------------------------------------------------------ every call is the pure function of its argument *)
Definition inst_classes (s : sstate) : list nat := map fst s.(s_instances).

Lemma inst_class_nth : forall s i, inst_class s i = nth i (inst_classes s) 0.
Proof. intros. unfold inst_class, inst_classes. now rewrite (map_nth fst _ (0, LImm VNone)). Qed.

Lemma inst_classes_mutate : forall l m s, inst_classes (mutate_all l m s) = inst_classes s.
Proof. intros. unfold inst_classes, mutate_all. simpl. rewrite map_map. reflexivity. Qed.

(* parses return the one-call result for the file, as_dict() / attribute reads the tables of the record's
   class -- through ANY history: `pure_run` never looks at an edit, at what was parsed before, or at the
   contents of any live object *)
Lemma session_calls_pure : forall h s, flat_map call_out (run as_source s h) = pure_run (inst_classes s) h.
Proof.
  induction h as [|o t IH]; intros s; [reflexivity|]. cbn [run].
  destruct (step as_source s o) as [s' out] eqn:E. rewrite flat_map_app, IH.
  destruct o as [toml|c|c|i|i|r path m|r];
    [rewrite step_parse in E|rewrite step_asdict in E|rewrite step_new in E|rewrite step_asdict_of in E
     |rewrite step_attrs in E|rewrite step_mutate in E|rewrite step_read in E]; cbn [pure_run].
  - destruct (parse_config v_fixed toml) as [cfg|e].
    + destruct (label (config_value cfg) (s_next s)) as [x n]. inversion E; subst. reflexivity.
    + inversion E; subst. reflexivity.
  - destruct (label (VTable (asdict_of c)) (s_next s)) as [x n]. inversion E; subst. reflexivity.
  - inversion E; subst. unfold inst_classes, add_instance. simpl. now rewrite map_app.
  - destruct (label (VTable (asdict_of (inst_class s i))) (s_next s)) as [x n]. inversion E; subst.
    simpl. now rewrite inst_class_nth.
  - inversion E; subst. simpl. now rewrite inst_class_nth.
  - destruct (resolve path (result s r)); inversion E; subst; simpl; [now rewrite inst_classes_mutate|reflexivity].
  - inversion E; subst. reflexivity.
Qed.

(* explicitly: deleting every edit from a history changes no call's result *)
Lemma pure_run_ignores_edits : forall h cs, pure_run cs (filter (fun o => negb (is_edit o)) h) = pure_run cs h.
Proof.
  induction h as [|o t IH]; intros cs; [reflexivity|].
  destruct o; cbn [filter is_edit negb pure_run]; rewrite ?IH; reflexivity.
Qed.

Lemma session_edits_invisible : forall h s,
  flat_map call_out (run as_source s h) = flat_map call_out (run as_source s (filter (fun o => negb (is_edit o)) h)).
Proof. intros. now rewrite !session_calls_pure, pure_run_ignores_edits. Qed.

Lemma pure_run_app : forall h1 h2 cs, exists cs', pure_run cs (h1 ++ h2) = pure_run cs h1 ++ pure_run cs' h2.
Proof.
  induction h1 as [|o t IH]; intros h2 cs; [exists cs; reflexivity|].
  destruct o; cbn [app pure_run];
    try (destruct (IH h2 cs) as [cs' E]; exists cs'; rewrite E; reflexivity).
  destruct (IH h2 (cs ++ [c])) as [cs' E]. exists cs'. now rewrite E.
Qed.

(* parse a file, do anything (edit what came back, parse other files, take parameter dictionaries), parse
   it again: the same result, and it is the one-call result *)
Lemma session_reparse : forall toml h s, exists mid,
  flat_map call_out (run as_source s (SParse toml :: h ++ [SParse toml])) =
  inl (parse_config v_fixed toml) :: mid ++ [inl (parse_config v_fixed toml)].
Proof.
  intros. rewrite session_calls_pure. cbn [app pure_run].
  destruct (pure_run_app h [SParse toml] (inst_classes s)) as [cs' E]. rewrite E.
  exists (pure_run (inst_classes s) h). reflexivity.
Qed.

(* the same for a record the caller keeps: rec.as_dict(), anything, rec.as_dict() again *)
Lemma session_asdict_again : forall i h s, i < length (s_instances s) -> exists mid,
  flat_map call_out (run as_source s (SAsDictOf i :: h ++ [SAsDictOf i])) =
  inr (asdict_of (inst_class s i)) :: mid ++ [inr (asdict_of (inst_class s i))].
Proof.
  intros i h s Hi. rewrite session_calls_pure. cbn [app pure_run]. rewrite <- inst_class_nth.
  assert (G : forall h cs, nth i cs 0 = inst_class s i -> i < length cs ->
              exists mid, pure_run cs (h ++ [SAsDictOf i]) = mid ++ [inr (asdict_of (inst_class s i))]).
  { clear. induction h as [|o t IH]; intros cs Hc Hi.
    - exists []. simpl. now rewrite Hc.
    - destruct o; cbn [app pure_run];
        try (destruct (IH cs Hc Hi) as [mid E]; rewrite E; (now exists mid) || (eexists (_ :: mid); reflexivity)).
      destruct (IH (cs ++ [c])) as [mid E]; [now rewrite app_nth1|rewrite app_length; lia|].
      rewrite E. now exists mid. }
  destruct (G h (inst_classes s)) as [mid E]; [now rewrite inst_class_nth|unfold inst_classes; now rewrite map_length|].
  rewrite E. now exists mid.
Qed.

(* ------------------------------------------------------------------ results are new objects *)
Definition fresh_in (s : sstate) (x : lvalue) : Prop :=
  labels x = seq s.(s_next) (length (labels x)) /\
  forall y, In y (all_cells s) -> forall l, In l (labels x) -> ~ In l (labels y).

Lemma label_fresh_in : forall s v x n', wf s -> label v s.(s_next) = (x, n') -> fresh_in s x.
Proof.
  intros s v x n' [B D] E. split.
  - rewrite (label_labels _ _ _ _ E) at 1. f_equal. rewrite (label_count _ _ _ _ E). lia.
  - intros y Hy l Hl C. pose proof (label_range _ _ _ _ _ E Hl). specialize (B y Hy l C). lia.
Qed.

(* a successful parse appends ONE new live object: its contents are the returned configuration, its
   containers (the dictionary itself, the three tables, every list in them) are pairwise distinct
   new objects -- none of them is a module-level container, a record's slot or part of an earlier result *)
Lemma session_parse_fresh : forall s toml cfg,
  wf s -> parse_config v_fixed toml = COk cfg ->
  exists x, s_results (fst (step as_source s (SParse toml))) = s_results s ++ [x] /\
            snd (step as_source s (SParse toml)) = [OParse (COk cfg) (length (labels x))] /\
            erase x = config_value cfg /\ NoDup (labels x) /\ fresh_in s x.
Proof.
  intros s toml cfg W E. rewrite step_parse, E.
  destruct (label (config_value cfg) (s_next s)) as [x n] eqn:El. exists x.
  split; [reflexivity|]. split; [reflexivity|]. split; [eapply label_erase; eauto|].
  split; [rewrite (label_labels _ _ _ _ El); apply seq_NoDup|eapply label_fresh_in; eauto].
Qed.

(* so does as_dict(), of a new record and of a record the caller keeps *)
Lemma session_asdict_fresh : forall s c,
  wf s ->
  exists x, s_results (fst (step as_source s (SAsDict c))) = s_results s ++ [x] /\
            snd (step as_source s (SAsDict c)) = [OAsDict (asdict_of c) (length (labels x))] /\
            erase x = VTable (asdict_of c) /\ NoDup (labels x) /\ fresh_in s x.
Proof.
  intros s c W. rewrite step_asdict.
  destruct (label (VTable (asdict_of c)) (s_next s)) as [x n] eqn:El. exists x.
  split; [reflexivity|]. split; [reflexivity|]. split; [eapply label_erase; eauto|].
  split; [rewrite (label_labels _ _ _ _ El); apply seq_NoDup|eapply label_fresh_in; eauto].
Qed.

Lemma session_asdict_of_fresh : forall s i,
  wf s ->
  exists x, s_results (fst (step as_source s (SAsDictOf i))) = s_results s ++ [x] /\
            s_instances (fst (step as_source s (SAsDictOf i))) = s_instances s /\
            snd (step as_source s (SAsDictOf i)) = [OAsDict (asdict_of (inst_class s i)) (length (labels x))] /\
            erase x = VTable (asdict_of (inst_class s i)) /\ NoDup (labels x) /\ fresh_in s x.
Proof.
  intros s i W. rewrite step_asdict_of.
  destruct (label (VTable (asdict_of (inst_class s i))) (s_next s)) as [x n] eqn:El. exists x.
  split; [reflexivity|]. split; [reflexivity|]. split; [reflexivity|]. split; [eapply label_erase; eauto|].
  split; [rewrite (label_labels _ _ _ _ El); apply seq_NoDup|eapply label_fresh_in; eauto].
Qed.

(* ------------------------------------------------------------------ edits stay in the object they are made to *)
Lemma disjoint_cells_nth : forall cs i j x y,
  disjoint_cells cs -> i <> j -> nth_error cs i = Some x -> nth_error cs j = Some y ->
  forall l, In l (labels x) -> ~ In l (labels y).
Proof.
  induction cs as [|c r IH]; intros i j x y D Hij Hi Hj l Hl C; [destruct i; discriminate|].
  destruct D as [D1 D2]. destruct i as [|i], j as [|j]; simpl in *.
  - lia.
  - inversion Hi; subst. apply nth_error_In in Hj. eapply D1; eauto.
  - inversion Hj; subst. apply nth_error_In in Hi. eapply D1; eauto.
  - eapply (IH i j x y); eauto.
Qed.

Lemma result_nth_error : forall s r, r < length (s_results s) -> nth_error (s_results s) r = Some (result s r).
Proof. intros. unfold result. now apply nth_error_nth'. Qed.

Lemma inst_cells_length : forall s, length (inst_cells s) = length (s_instances s).
Proof. intros. unfold inst_cells. apply map_length. Qed.

Lemma all_cells_result : forall s r, r < length (s_results s) ->
  nth_error (all_cells s) (S (length (s_instances s)) + r) = Some (result s r).
Proof.
  intros s r H. unfold all_cells. simpl. rewrite nth_error_app2 by (rewrite inst_cells_length; lia).
  rewrite inst_cells_length.
  replace (length (s_instances s) + r - length (s_instances s)) with r by lia. now apply result_nth_error.
Qed.

Lemma all_cells_slot : forall s c x, nth_error (inst_cells s) c = Some x ->
  nth_error (all_cells s) (S c) = Some x.
Proof.
  intros s c x H. unfold all_cells. simpl. rewrite nth_error_app1; auto.
  apply nth_error_Some. congruence.
Qed.

Lemma map_frame : forall l m cs, (forall x, In x cs -> ~ In l (labels x)) -> map (update_at l m) cs = cs.
Proof.
  induction cs as [|x r IH]; simpl; intros H; [reflexivity|].
  rewrite update_at_frame, IH; auto.
Qed.

Lemma instances_frame : forall l m (cs : list (nat * lvalue)),
  (forall x, In x (map snd cs) -> ~ In l (labels x)) ->
  map (fun ci => (fst ci, update_at l m (snd ci))) cs = cs.
Proof.
  induction cs as [|[c x] r IH]; simpl; intros H; [reflexivity|].
  rewrite update_at_frame, IH; auto.
Qed.

(* an edit made through result r changes no other live result, no record and no module-level container *)
Lemma session_mutation_local : forall s r path m,
  wf s ->
  let s' := fst (step as_source s (SMutate r path m)) in
  s_defaults s' = s_defaults s /\ s_instances s' = s_instances s /\
  length (s_results s') = length (s_results s) /\
  forall r', r' <> r -> result s' r' = result s r'.
Proof.
  intros s r path m [B D]. cbv zeta. rewrite step_mutate.
  destruct (resolve path (result s r)) as [l|] eqn:E; [|simpl; auto].
  change (fst (mutate_all l m s, @nil sout)) with (mutate_all l m s).
  change (s_defaults (mutate_all l m s)) with (update_at l m (s_defaults s)).
  change (s_instances (mutate_all l m s)) with (map (fun ci => (fst ci, update_at l m (snd ci))) (s_instances s)).
  change (s_results (mutate_all l m s)) with (map (update_at l m) (s_results s)).
  assert (Hr : r < length (s_results s)).
  { destruct (Nat.lt_ge_cases r (length (s_results s))); auto.
    unfold result in E. rewrite nth_overflow in E by lia. destruct path; discriminate. }
  pose proof (resolve_in _ _ _ E) as Hl. pose proof (all_cells_result s r Hr) as Nr.
  split; [|split; [|split]].
  - apply update_at_frame. intro C.
    eapply (disjoint_cells_nth (all_cells s) (S (length (s_instances s)) + r) 0); eauto; [lia|reflexivity].
  - apply instances_frame. intros x Hx C. apply In_nth_error in Hx. destruct Hx as [c Hc].
    eapply (disjoint_cells_nth (all_cells s) (S (length (s_instances s)) + r) (S c)); eauto.
    + assert (c < length (inst_cells s)) by (apply nth_error_Some; unfold inst_cells; congruence).
      rewrite inst_cells_length in *. lia.
    + now apply all_cells_slot.
  - now rewrite map_length.
  - intros r' Hne. unfold result at 1.
    change (s_results (mutate_all l m s)) with (map (update_at l m) (s_results s)).
    destruct (Nat.lt_ge_cases r' (length (s_results s))) as [Hr'|Hr'].
    + rewrite (nth_indep _ _ (update_at l m (LImm VNone))) by (rewrite map_length; lia).
      rewrite map_nth. fold (result s r'). apply update_at_frame. intro C.
      eapply (disjoint_cells_nth (all_cells s) (S (length (s_instances s)) + r) (S (length (s_instances s)) + r')); eauto.
      * lia.
      * now apply all_cells_result.
    + unfold result. rewrite !nth_overflow; auto. rewrite map_length. lia.
Qed.

Definition edits (r : nat) (o : sop) : bool :=
  match o with SMutate r' _ _ => Nat.eqb r r' | _ => false end.

Lemma step_results_grow : forall s o r, r < length (s_results s) -> edits r o = false -> wf s ->
  r < length (s_results (fst (step as_source s o))) /\ result (fst (step as_source s o)) r = result s r.
Proof.
  intros s o r Hr He W. destruct o as [toml|c|c|i|i|r' path m|r'].
  - rewrite step_parse. destruct (parse_config v_fixed toml) as [cfg|e]; [destruct (label (config_value cfg) (s_next s))|];
      unfold result, push; cbn [fst s_results]; rewrite app_length, app_nth1 by lia; split; auto; lia.
  - rewrite step_asdict. destruct (label (VTable (asdict_of c)) (s_next s)).
    unfold result, push; cbn [fst s_results]; rewrite app_length, app_nth1 by lia; split; auto; lia.
  - rewrite step_new. auto.
  - rewrite step_asdict_of. destruct (label (VTable (asdict_of (inst_class s i))) (s_next s)).
    unfold result, push; cbn [fst s_results]; rewrite app_length, app_nth1 by lia; split; auto; lia.
  - rewrite step_attrs. auto.
  - simpl in He. apply Nat.eqb_neq in He.
    destruct (session_mutation_local s r' path m W) as (_ & _ & L & F). split; [lia|]. now apply F.
  - rewrite step_read. auto.
Qed.

(* a result the caller does not edit keeps its contents AND identity through any history, whatever is
   done to the other results *)
Lemma session_untouched_result : forall h s r,
  wf s -> r < length (s_results s) -> forallb (fun o => negb (edits r o)) h = true ->
  result (state_after as_source s h) r = result s r.
Proof.
  induction h as [|o t IH]; simpl; intros s r W Hr Hh; [reflexivity|].
  apply andb_true_iff in Hh. destruct Hh as [Ho Ht]. apply negb_true_iff in Ho.
  destruct (step_results_grow s o r Hr Ho W) as [Hr' E]. rewrite IH; auto. now apply step_wf.
Qed.

(* ------------------------------------------------------------------ implementations that keep tables *)
Definition shared_defaults := mkVS true false.
Definition cached_asdict := mkVS false true.

Definition param_of (k : string) (o : cres config + table) : option value :=
  match o with
  | inl (COk c) => get k c.(c_params)
  | inl (CErr _) => None
  | inr t => get k t
  end.

Definition minimal_toml : table := [("input", VTable [("timestep", VFloat 1)])].
Definition trial_history : list sop :=
  [SParse minimal_toml; SMutate 0 ["parameters"] (MSet "number_of_grains" (VInt 500)); SParse minimal_toml; SRead 0; SRead 1].

(* the table of defaults handed out by reference: the edit of the first result is the "default" of the
   second parse of the same file, although no call in the history is anything but ordinary use *)
Lemma shared_defaults_refuted :
  map (param_of "number_of_grains") (flat_map call_out (run shared_defaults init trial_history)) =
    [Some (VInt 3500); Some (VInt 500)] /\
  map (param_of "number_of_grains") (pure_run [] trial_history) = [Some (VInt 3500); Some (VInt 3500)] /\
  flat_map call_out (run shared_defaults init trial_history) <> pure_run [] trial_history.
Proof.
  assert (A : map (param_of "number_of_grains") (flat_map call_out (run shared_defaults init trial_history)) =
              [Some (VInt 3500); Some (VInt 500)]) by (vm_compute; reflexivity).
  assert (B : map (param_of "number_of_grains") (pure_run [] trial_history) = [Some (VInt 3500); Some (VInt 3500)])
    by (vm_compute; reflexivity).
  split; [exact A|]. split; [exact B|]. intro C.
  apply (f_equal (map (param_of "number_of_grains"))) in C. rewrite A, B in C. clear A B. inversion C.
Qed.

(* the dictionary built once per record: rec.as_dict(), lower M* in the copy, rec.as_dict() again -- the
   record's dictionary form no longer shows the declared value, while its attribute still does; a new
   record of the same class is unaffected *)
Definition asdict_history : list sop :=
  [SNew 0; SAsDictOf 0; SMutate 0 [] (MSet "gbm_mobility" (VInt 10)); SAsDictOf 0; SAttrs 0; SAsDict 0].

Lemma cached_asdict_refuted :
  map (param_of "gbm_mobility") (flat_map call_out (run cached_asdict init asdict_history)) =
    [Some (VInt 125); Some (VInt 10); Some (VInt 125); Some (VInt 125)] /\
  map (param_of "gbm_mobility") (pure_run [] asdict_history) =
    [Some (VInt 125); Some (VInt 125); Some (VInt 125); Some (VInt 125)].
Proof. split; vm_compute; reflexivity. Qed.

(* ------------------------------------------------------------------ non-vacuity *)
(* in the source as it is the same histories give the documented values every time, the edit is seen in the
   edited result (so edits are not no-ops of the model) and nowhere else *)
Lemma session_example :
  map (param_of "number_of_grains") (flat_map call_out (run as_source init trial_history)) =
    [Some (VInt 3500); Some (VInt 3500)] /\
  map (param_of "gbm_mobility") (flat_map call_out (run as_source init asdict_history)) =
    [Some (VInt 125); Some (VInt 125); Some (VInt 125); Some (VInt 125)] /\
  (exists v1 v2, run as_source init trial_history =
                 [OParse (parse_config v_fixed minimal_toml) 7; OParse (parse_config v_fixed minimal_toml) 7; ORead v1; ORead v2] /\
     match v1, v2 with
     | VTable t1, VTable t2 =>
         match get "parameters" t1, get "parameters" t2 with
         | Some (VTable p1), Some (VTable p2) => get "number_of_grains" p1 = Some (VInt 500) /\ get "number_of_grains" p2 = Some (VInt 3500)
         | _, _ => False
         end
     | _, _ => False
     end).
Proof.
  split; [vm_compute; reflexivity|]. split; [vm_compute; reflexivity|].
  eexists _, _. split; [vm_compute; reflexivity|]. vm_compute. split; reflexivity.
Qed.
