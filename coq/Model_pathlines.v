(* Model_pathlines.v -- hand-written executable models (tie H) for C18:
   * the public wrappers simple_shear_2d / cell_2d / corner_2d of pydrex.velocity: axis
     letters -> indices by the GENERATED table k_to_indices2d_ord, then the GENERATED kernel
     specialised to that index pair (gen/Gen_velocity.v);
   * pydrex.pathlines: _is_inside, _ivp_func, the STATEFUL terminal event `_terminate` of
     get_pathline as an explicit state machine, and the post-processing of solve_ivp's
     result (time stamps).  scipy.integrate.solve_ivp and numpy.linalg.eigvalsh are oracles:
     they appear as function parameters here and as Section variables with hypotheses in
     the proofs.
   No proofs in this file. *)
From Coq Require Import ZArith List Bool.
From PV Require Import Num.
From PV.gen Require Import Gen_velocity Gen_velocity_utils.
Import ListNotations.
Local Open Scope num_scope.

Section Velocity.
  Context {F : Num}.

  (* 0 simple_shear_2d, 1 cell_2d, 2 corner_2d; params: [strain_rate] | [velocity_edge;
     edge_length] | [plate_speed] *)
  Definition kernel_velocity (flow : Z) (i j : nat) (ps : list F) (t : F) (x : arr F) : res (arr F) :=
    match flow, ps with
    | 0%Z, [rate] =>
        match i, j with
        | 0, 1 => Ok (k_simple_shear_2d_01 t x rate) | 0, 2 => Ok (k_simple_shear_2d_02 t x rate)
        | 1, 0 => Ok (k_simple_shear_2d_10 t x rate) | 1, 2 => Ok (k_simple_shear_2d_12 t x rate)
        | 2, 0 => Ok (k_simple_shear_2d_20 t x rate) | 2, 1 => Ok (k_simple_shear_2d_21 t x rate)
        | _, _ => Err OtherError
        end
    | 1%Z, [u; d] =>
        match i, j with
        | 0, 1 => k_cell_2d_01 t x u d | 0, 2 => k_cell_2d_02 t x u d
        | 1, 0 => k_cell_2d_10 t x u d | 1, 2 => k_cell_2d_12 t x u d
        | 2, 0 => k_cell_2d_20 t x u d | 2, 1 => k_cell_2d_21 t x u d
        | _, _ => Err OtherError
        end
    | 2%Z, [u] =>
        match i, j with
        | 0, 1 => k_corner_2d_01 t x u | 0, 2 => k_corner_2d_02 t x u
        | 1, 0 => k_corner_2d_10 t x u | 1, 2 => k_corner_2d_12 t x u
        | 2, 0 => k_corner_2d_20 t x u | 2, 1 => k_corner_2d_21 t x u
        | _, _ => Err OtherError
        end
    | _, _ => Err OtherError
    end%nat.

  Definition kernel_gradient (flow : Z) (i j : nat) (ps : list F) (t : F) (x : arr F) : res (arr F) :=
    match flow, ps with
    | 0%Z, [rate] =>
        match i, j with
        | 0, 1 => Ok (k_simple_shear_2d_grad_01 t x rate) | 0, 2 => Ok (k_simple_shear_2d_grad_02 t x rate)
        | 1, 0 => Ok (k_simple_shear_2d_grad_10 t x rate) | 1, 2 => Ok (k_simple_shear_2d_grad_12 t x rate)
        | 2, 0 => Ok (k_simple_shear_2d_grad_20 t x rate) | 2, 1 => Ok (k_simple_shear_2d_grad_21 t x rate)
        | _, _ => Err OtherError
        end
    | 1%Z, [u; d] =>
        match i, j with
        | 0, 1 => k_cell_2d_grad_01 t x u d | 0, 2 => k_cell_2d_grad_02 t x u d
        | 1, 0 => k_cell_2d_grad_10 t x u d | 1, 2 => k_cell_2d_grad_12 t x u d
        | 2, 0 => k_cell_2d_grad_20 t x u d | 2, 1 => k_cell_2d_grad_21 t x u d
        | _, _ => Err OtherError
        end
    | 2%Z, [u] =>
        match i, j with
        | 0, 1 => k_corner_2d_grad_01 t x u | 0, 2 => k_corner_2d_grad_02 t x u
        | 1, 0 => k_corner_2d_grad_10 t x u | 1, 2 => k_corner_2d_grad_12 t x u
        | 2, 0 => k_corner_2d_grad_20 t x u | 2, 1 => k_corner_2d_grad_21 t x u
        | _, _ => Err OtherError
        end
    | _, _ => Err OtherError
    end%nat.

  (* index stored as a number in the generated table -> nat *)
  Definition idx_of (f : F) : nat := if eqb f zero then 0%nat else if eqb f one then 1%nat else 2%nat.

  (* the public wrappers: letters (0 X, 1 Y, 2 Z; case-insensitive in the source) ->
     ValueError for an unsupported pair, else the callables (functools.partial of the kernel).
     cell_2d additionally rejects edge_length < 0 *)
  Definition neg_edge (flow : Z) (ps : list F) : bool :=
    match flow, ps with
    | 1%Z, [_; d] => ltb d zero
    | _, _ => false
    end.

  Definition wrapper_indices (flow : Z) (hl vl : Z) (ps : list F) : res (nat * nat) :=
    if neg_edge flow ps then Err ValueError
    else match k_to_indices2d_ord hl vl with
         | Err e => Err e
         | Ok ij => Ok (idx_of (ij 0%nat), idx_of (ij 1%nat))
         end.

  Definition wrapper_velocity (flow hl vl : Z) (ps : list F) (t : F) (x : arr F) : res (arr F) :=
    match wrapper_indices flow hl vl ps with
    | Err e => Err e
    | Ok (i, j) => kernel_velocity flow i j ps t x
    end.

  Definition wrapper_gradient (flow hl vl : Z) (ps : list F) (t : F) (x : arr F) : res (arr F) :=
    match wrapper_indices flow hl vl ps with
    | Err e => Err e
    | Ok (i, j) => kernel_gradient flow i j ps t x
    end.
End Velocity.

Section Pathlines.
  Context {F : Num}.

  Definition point : Type := list F.

  (* np.any(point < min_coords) or np.any(point > max_coords); the assert compares sizes *)
  Fixpoint any2 (p : F -> F -> bool) (a b : list F) : bool :=
    match a, b with
    | x :: a', y :: b' => p x y || any2 p a' b'
    | _, _ => false
    end.

  Definition is_inside (pt mn mx : point) : res bool :=
    if negb (Nat.eqb (length pt) (length mn) && Nat.eqb (length mn) (length mx)) then Err AssertionError
    else Ok (negb (any2 ltb pt mn || any2 (fun a b => ltb b a) pt mx)).

  (* _ivp_func: the velocity inside the box, zeros outside *)
  Definition ivp_func (get_velocity : point -> res point) (mn mx : point) (pt : point) : res point :=
    match is_inside pt mn mx with
    | Err e => Err e
    | Ok true => get_velocity pt
    | Ok false => Ok (map (fun _ => zero) pt)
    end.

  (* _ivp_jac: the velocity-gradient callable inside the box, an n x n block of zeros outside *)
  Definition ivp_jac (get_gradient : point -> res (arr F)) (mn mx : point) (pt : point) : res (arr F) :=
    match is_inside pt mn mx with
    | Err e => Err e
    | Ok true => get_gradient pt
    | Ok false => Ok (mk_arr zero (repeat zero (length pt * length pt)))
    end.

  (* the terminal event of get_pathline.  State = the two `nonlocal` variables. *)
  Record ev_state := mk_ev { t_prev : F; strain : F }.

  Definition ev_init (max_strain : F) : ev_state := mk_ev zero max_strain.

  (* one call _terminate(time, point): new state and returned value.
     get_gradient: the velocity-gradient callable; eigmax: the eigenvalue oracle
     (largest |eigenvalue| of (L + L^T)/2), consumed through the generated
     k_strain_increment *)
  Definition ev_step (get_gradient : point -> res (arr F)) (eigmax : arr F -> F) (mn mx : point)
             (st : ev_state) (call : F * point) : res (ev_state * F) :=
    let '(time, pt) := call in
    match is_inside pt mn mx with
    | Err e => Err e
    | Ok false => Ok (st, zero)
    | Ok true =>
        match get_gradient pt with
        | Err e => Err e
        | Ok L =>
            let de := k_strain_increment (time - t_prev st) L (eigmax L) in
            let s' := if ltb (t_prev st) time then strain st + de else strain st - de in
            Ok (mk_ev time s', s')
        end
    end.

  (* a whole history of calls: final state and the list of returned values *)
  Fixpoint ev_run (get_gradient : point -> res (arr F)) (eigmax : arr F -> F) (mn mx : point)
           (st : ev_state) (calls : list (F * point)) : res (ev_state * list F) :=
    match calls with
    | [] => Ok (st, [])
    | c :: cs =>
        match ev_step get_gradient eigmax mn mx st c with
        | Err e => Err e
        | Ok (st', v) =>
            match ev_run get_gradient eigmax mn mx st' cs with
            | Err e => Err e
            | Ok (st'', vs) => Ok (st'', v :: vs)
            end
        end
    end.

  (* post-processing of solve_ivp's result: path.t (starts at 0, runs backwards) *)
  Definition ofnat_p (n : nat) : F := ofZ (Z.of_nat n).

  (* np.linspace(a, b, n + 1): a + i * ((b - a) / n) for i < n, and exactly b at the end;
     n = 0 (one sample): [a] *)
  Definition linspace (a b : F) (n : nat) : list F :=
    match n with
    | O => [a]
    | S _ => let step := (b - a) / ofnat_p n in
             map (fun i => a + ofnat_p i * step) (seq 0 n) ++ [b]
    end.

  Definition timestamps (ts : list F) (regular_steps : option nat) : list F :=
    match regular_steps with
    | None => rev ts
    | Some n => linspace (last ts zero) (hd zero ts) n
    end.

  (* everything get_pathline hands to scipy.integrate.solve_ivp, as the flat vector that the
     translator reads off the captured call (layout: REQUEST_LAYOUT of translator/specs_pathlines.py):
     t_span (2 entries + its length), y0, atol, rtol, method ordinal (RK45 0, RK23 1, DOP853 2,
     Radau 3, BDF 4, LSODA 5), number of events, events[0].terminal, events[0].direction (0: not
     set), dense_output, fun is _ivp_func, jac is _ivp_jac, args = (get_velocity,
     get_velocity_gradient, min_coords, max_coords), first_step / max_step (0: not passed), number
     of other keyword arguments, the initial state of the event (previous time, strain), number of
     warnings logged *)
  Definition t_forever : F := ofZ (-3155760000000000).          (* -100e6 * 365.25 * 8.64e4 s *)
  Definition default_atol : F := ofZ 3022314549036573 / ofZ 302231454903657293676544.   (* binary64 1e-8 *)
  Definition default_rtol : F := ofZ 5902958103587057 / ofZ 590295810358705651712.      (* binary64 1e-5 *)

  Definition solver_request (fl : point) (ms atol rtol first_step max_step : F) (method warnings : Z) : list F :=
    [zero; t_forever; ofZ 2] ++ fl ++
    [atol; rtol; ofZ method; one; one; zero; one; one; one; one; first_step; max_step; zero; zero; ms; ofZ warnings].

  (* get_pathline(final_location, u, L, min, max, max_strain) *)
  Definition request_default (fl : point) (ms : F) : list F :=
    solver_request fl ms default_atol default_rtol zero zero 5 0.
  (* ... with atol, rtol, first_step, max_step, method="Radau" and the four ignored keyword arguments
     (events, jac, dense_output, args: one warning each) *)
  Definition request_kw (fl : point) (ms atol rtol first_step max_step : F) : list F :=
    solver_request fl ms atol rtol first_step max_step 3 4.

  (* named fields of a request for a point of dimension n *)
  Definition rq_t0 (r : list F) : F := nth 0 r zero.
  Definition rq_t1 (r : list F) : F := nth 1 r zero.
  Definition rq_y0 (n : nat) (r : list F) : list F := firstn n (skipn 3 r).
  Definition rq_field (n k : nat) (r : list F) : F := nth (3 + n + k) r zero.
  (* k: 0 atol, 1 rtol, 2 method, 3 #events, 4 terminal, 5 direction, 6 dense_output, 7 fun, 8 jac,
        9 args, 10 first_step, 11 max_step, 12 #other kwargs, 13 event time0, 14 event strain0, 15 #warnings *)
End Pathlines.
