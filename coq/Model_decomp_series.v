(* Model_decomp_series.v -- pydrex.diagnostics.elasticity_components on a SERIES of Voigt
   matrices (the public function takes an N x 6 x 6 array), as the code is written:

       n_matrices = len(voigt_matrices)
       out = {key: np.empty(n_matrices) ...}          # one row per matrix, allocated up front
       for m, matrix in enumerate(voigt_matrices):
           ...                                         # Model_decomp.elasticity_components1
           out[key][m] = ...                           # writes row m only
       return out

   The state of the loop is the table of output rows; row m is `None` while it still holds
   what np.empty allocated (a matrix for which no candidate frame beats the initial distance
   leaves its row like that: `Err NonFinite` of the single-matrix model), an exception
   raised while a matrix is processed aborts the whole call.  Each series entry carries its
   own two eigh oracle outputs (Ed, Ev), exactly as recorded from the run.
   No proofs here (Proofs_decomp_series.v). *)
From Coq Require Import ZArith List Bool Arith.
From PV Require Import Num Model_voigt Model_decomp.
From PV.gen Require Import Gen_tensors.
Import ListNotations.

Section Series.
  Context {F : Num}.

  (* one entry of the series: the 6x6 matrix and the eigenvector matrices the two eigh calls
     made for it returned *)
  Definition ecin : Type := (arr F * arr F * arr F)%type.
  (* one row of the output table: [K; G; aniso; hex; tetr; ortho; mono; tric; axis(3)] *)
  Definition ecrow : Type := option (list F).

  Definition ec1 (x : ecin) : res (list F) :=
    let '(M, Ed, Ev) := x in elasticity_components1 M Ed Ev.

  (* out[...][m] = v *)
  Fixpoint upd {A} (l : list A) (m : nat) (v : A) : list A :=
    match l, m with
    | [], _ => []
    | _ :: t, O => v :: t
    | h :: t, S m' => h :: upd t m' v
    end.

  (* body of `for m, matrix in enumerate(voigt_matrices)` *)
  Definition series_step (st : res (list ecrow)) (mx : nat * ecin) : res (list ecrow) :=
    match st with
    | Err e => Err e
    | Ok tab =>
        match ec1 (snd mx) with
        | Ok l => Ok (upd tab (fst mx) (Some l))
        | Err NonFinite => Ok tab
        | Err e => Err e
        end
    end.

  Definition elasticity_components_series (Ms : list ecin) : res (list ecrow) :=
    let n := length Ms in
    fold_left series_step (combine (seq 0 n) Ms) (Ok (repeat None n)).

  (* ---- the specification the loop is proved equal to (Proofs_decomp_series.v) ---- *)
  (* row of a matrix decomposed on its own *)
  Definition row1 (x : ecin) : ecrow :=
    match ec1 x with Ok l => Some l | Err _ => None end.
  (* the exception processing this matrix raises, if any *)
  Definition raises1 (x : ecin) : option err :=
    match ec1 x with Ok _ => None | Err NonFinite => None | Err e => Some e end.
  Fixpoint first_raise (Ms : list ecin) : option err :=
    match Ms with
    | [] => None
    | x :: t => match raises1 x with Some e => Some e | None => first_raise t end
    end.
  Definition series_spec (Ms : list ecin) : res (list ecrow) :=
    match first_raise Ms with Some e => Err e | None => Ok (map row1 Ms) end.
End Series.
