(* Extract.v -- extraction of the executable models to OCaml (ExtrOcamlBasic only). *)
From Coq Require Import Extraction ExtrOcamlBasic.
From PV Require Import Num Model_core Entry_core.
From PV.gen Require Import Gen_core.
Extraction Language OCaml.
Extraction "model_core.ml" run_derivs run_kderivs run_spec_derivs run_extract_vars run_apply_gbs run_update run_rhs run_problem.
