(* Inst_velocity.v -- kernel-checked instance lemmas for the PUBLIC wrappers of pydrex.velocity
   (tie T of C18).

   gen/Gen_velocity.v contains, regenerated from the current source on every run, the definitions
   k_<flow>_wrap_u / k_<flow>_wrap_L: the real simple_shear_2d / cell_2d / corner_2d called with the
   letters of two ordinals (0 1 2 = "X" "Y" "Z", 3 4 5 = "x" "y" "z"), and the first / second
   callable of the returned pair applied to symbolic (t, x); the kernel the functools.partial object
   ends up calling stays a call of the generated k_<kernel>_<i><j>.  The lemmas below equate them,
   for all 36 letter pairs and all parameters, with the hand-written `wrapper_velocity` /
   `wrapper_gradient` of Model_pathlines.v (letters folded to upper case), about which the theorems
   of Proofs_velocity.v are stated.  An edit of a wrapper (index order, argument passed to the wrong
   keyword, validation order, velocity / gradient exchanged in the returned pair, default edge
   length) changes Gen_velocity.v and one of these proofs stops compiling. *)
From Coq Require Import Reals ZArith List Bool Lra Lia.
From Coquelicot Require Import Coquelicot.
From PV Require Import Num NumR Model_pathlines Proofs_velocity.
From PV.gen Require Import Gen_velocity.
Import ListNotations.
Open Scope R_scope.

(* "x" "y" "z" are the letters 3 4 5: the source upper-cases them *)
Definition fold_case (l : Z) : Z := if (l <? 3)%Z then l else (l - 3)%Z.
Definition letter6_ok (l : Z) : Prop := (0 <= l <= 5)%Z.

Lemma res_eta {X} (r : res X) : match r with Err e => Err e | Ok c => Ok c end = r.
Proof. destruct r; reflexivity. Qed.

Lemma letter6_cases (l : Z) : letter6_ok l ->
  (l = 0 \/ l = 1 \/ l = 2 \/ l = 3 \/ l = 4 \/ l = 5)%Z.
Proof. unfold letter6_ok. lia. Qed.

Ltac six l H := destruct (letter6_cases l H) as [->|[->|[->|[->|[->| ->]]]]].

(* the model side at concrete upper-case letters *)
Lemma model_indices (flow h v : Z) (ps : list R) : letter_ok h -> letter_ok v -> no_neg_edge flow ps ->
  @wrapper_indices NumR flow h v ps = if Z.eqb h v then Err ValueError else Ok (Z.to_nat h, Z.to_nat v).
Proof. apply axes_map_proof. Qed.

Ltac model_side flow ps :=
  unfold wrapper_velocity, wrapper_gradient;
  change (fold_case 0) with 0%Z; change (fold_case 1) with 1%Z; change (fold_case 2) with 2%Z;
  change (fold_case 3) with 0%Z; change (fold_case 4) with 1%Z; change (fold_case 5) with 2%Z;
  rewrite (model_indices flow _ _ ps) by (unfold letter_ok, no_neg_edge; try lia; try lra; exact I);
  cbn [Z.eqb Pos.eqb Z.to_nat Pos.to_nat Pos.iter_op Nat.add kernel_velocity kernel_gradient].

Ltac gen_side := cbv beta iota delta [Z.eqb Pos.eqb]; rewrite ?res_eta; try reflexivity.

(* ---- simple_shear_2d ---- *)
Lemma shear_wrap_u_inst (hl vl : Z) (rate t : R) (x : arr R) : letter6_ok hl -> letter6_ok vl ->
  @k_simple_shear_2d_wrap_u NumR hl vl rate t x = @wrapper_velocity NumR 0 (fold_case hl) (fold_case vl) [rate] t x.
Proof. intros Hh Hv. six hl Hh; six vl Hv; unfold k_simple_shear_2d_wrap_u; model_side 0%Z [rate]; gen_side. Qed.

Lemma shear_wrap_L_inst (hl vl : Z) (rate t : R) (x : arr R) : letter6_ok hl -> letter6_ok vl ->
  @k_simple_shear_2d_wrap_L NumR hl vl rate t x = @wrapper_gradient NumR 0 (fold_case hl) (fold_case vl) [rate] t x.
Proof. intros Hh Hv. six hl Hh; six vl Hv; unfold k_simple_shear_2d_wrap_L; model_side 0%Z [rate]; gen_side. Qed.

(* ---- corner_2d ---- *)
Lemma corner_wrap_u_inst (hl vl : Z) (U t : R) (x : arr R) : letter6_ok hl -> letter6_ok vl ->
  @k_corner_2d_wrap_u NumR hl vl U t x = @wrapper_velocity NumR 2 (fold_case hl) (fold_case vl) [U] t x.
Proof. intros Hh Hv. six hl Hh; six vl Hv; unfold k_corner_2d_wrap_u; model_side 2%Z [U]; gen_side. Qed.

Lemma corner_wrap_L_inst (hl vl : Z) (U t : R) (x : arr R) : letter6_ok hl -> letter6_ok vl ->
  @k_corner_2d_wrap_L NumR hl vl U t x = @wrapper_gradient NumR 2 (fold_case hl) (fold_case vl) [U] t x.
Proof. intros Hh Hv. six hl Hh; six vl Hv; unfold k_corner_2d_wrap_L; model_side 2%Z [U]; gen_side. Qed.

(* ---- cell_2d: the edge-length test comes first ---- *)
Lemma cell_neg (h v : Z) (u d t : R) (x : arr R) : Rltb d 0 = true ->
  @wrapper_velocity NumR 1 h v [u; d] t x = Err ValueError /\ @wrapper_gradient NumR 1 h v [u; d] t x = Err ValueError.
Proof.
  intros E. unfold wrapper_velocity, wrapper_gradient, wrapper_indices, neg_edge.
  change (@nltb NumR d (@nzero NumR)) with (Rltb d 0). rewrite E. split; reflexivity.
Qed.

Ltac cell_tac u d t x :=
  change (@nltb NumR d (@nzero NumR)) with (Rltb d 0);
  destruct (Rltb d 0) eqn:E;
  [ first [ rewrite (proj1 (cell_neg _ _ u d t x E)) | rewrite (proj2 (cell_neg _ _ u d t x E)) ];
    cbv beta iota delta [Z.eqb Pos.eqb]; reflexivity
  | bool2prop; model_side 1%Z [u; d]; gen_side ].

Lemma cell_wrap_u_inst (hl vl : Z) (u d t : R) (x : arr R) : letter6_ok hl -> letter6_ok vl ->
  @k_cell_2d_wrap_u NumR hl vl u d t x = @wrapper_velocity NumR 1 (fold_case hl) (fold_case vl) [u; d] t x.
Proof. intros Hh Hv. six hl Hh; six vl Hv; unfold k_cell_2d_wrap_u; cell_tac u d t x. Qed.

Lemma cell_wrap_L_inst (hl vl : Z) (u d t : R) (x : arr R) : letter6_ok hl -> letter6_ok vl ->
  @k_cell_2d_wrap_L NumR hl vl u d t x = @wrapper_gradient NumR 1 (fold_case hl) (fold_case vl) [u; d] t x.
Proof. intros Hh Hv. six hl Hh; six vl Hv; unfold k_cell_2d_wrap_L; cell_tac u d t x. Qed.

(* edge_length left out: the default is 2 *)
Lemma cell_wrap_u_default_inst (hl vl : Z) (u t : R) (x : arr R) : letter6_ok hl -> letter6_ok vl ->
  @k_cell_2d_wrap_u_default NumR hl vl u t x = @wrapper_velocity NumR 1 (fold_case hl) (fold_case vl) [u; 2] t x.
Proof. intros Hh Hv. six hl Hh; six vl Hv; unfold k_cell_2d_wrap_u_default; model_side 1%Z [u; 2]; gen_side. Qed.

Lemma cell_wrap_L_default_inst (hl vl : Z) (u t : R) (x : arr R) : letter6_ok hl -> letter6_ok vl ->
  @k_cell_2d_wrap_L_default NumR hl vl u t x = @wrapper_gradient NumR 1 (fold_case hl) (fold_case vl) [u; 2] t x.
Proof. intros Hh Hv. six hl Hh; six vl Hv; unfold k_cell_2d_wrap_L_default; model_side 1%Z [u; 2]; gen_side. Qed.

(* letters outside "XYZxyz" are rejected *)
Lemma wrap_bad_letter (hl vl : Z) (p q t : R) (x : arr R) : ~ letter6_ok hl ->
  @k_simple_shear_2d_wrap_u NumR hl vl p t x = Err ValueError /\ @k_cell_2d_wrap_u NumR hl vl p q t x = Err ValueError /\
  @k_corner_2d_wrap_u NumR hl vl p t x = Err ValueError.
Proof.
  intros H. unfold letter6_ok in H.
  assert (E : forall k, (0 <= k <= 5)%Z -> Z.eqb hl k = false) by (intros k Hk; apply Z.eqb_neq; lia).
  unfold k_simple_shear_2d_wrap_u, k_cell_2d_wrap_u, k_corner_2d_wrap_u.
  rewrite !E by lia. repeat split; reflexivity.
Qed.

Lemma fold_case_ok (l : Z) : letter6_ok l -> letter_ok (fold_case l).
Proof. intros H. six l H; unfold letter_ok; cbv; split; discriminate. Qed.

(* the full statement for the corner flow, about the GENERATED wrappers, for all 36 letter pairs *)
Theorem gen_corner_grad_is_jacobian (hl vl : Z) (U t : R) (x : arr R) i j :
  letter6_ok hl -> letter6_ok vl ->
  @wrapper_indices NumR 2 (fold_case hl) (fold_case vl) [U] = Ok (i, j) ->
  ~ corner_hole (x i) (x j) -> corner_smooth (x i) (x j) ->
  exists a G, @k_corner_2d_wrap_u NumR hl vl U t x = Ok a /\
              @k_corner_2d_wrap_L NumR hl vl U t x = Ok G /\
    (forall k, (k < 3)%nat -> a k = corner_field i j U x k) /\
    (forall k m, (k < 3)%nat -> (m < 3)%nat ->
       is_derive (fun s => corner_field i j U (upd x m s) k) (x m) (G (3 * k + m)%nat)) /\
    G 0%nat + G 4%nat + G 8%nat = 0.
Proof.
  intros Hh Hv E Hn Hs.
  rewrite (corner_wrap_u_inst hl vl U t x Hh Hv), (corner_wrap_L_inst hl vl U t x Hh Hv).
  exact (corner_grad_is_jacobian_proof (fold_case hl) (fold_case vl) U t x i j
           (fold_case_ok hl Hh) (fold_case_ok vl Hv) E Hn Hs).
Qed.

(* all eight generated wrapper callables are the model's wrappers *)
Theorem gen_wrappers (hl vl : Z) (p q t : R) (x : arr R) : letter6_ok hl -> letter6_ok vl ->
  let h := fold_case hl in let v := fold_case vl in
  @k_simple_shear_2d_wrap_u NumR hl vl p t x = @wrapper_velocity NumR 0 h v [p] t x /\
  @k_simple_shear_2d_wrap_L NumR hl vl p t x = @wrapper_gradient NumR 0 h v [p] t x /\
  @k_cell_2d_wrap_u NumR hl vl p q t x = @wrapper_velocity NumR 1 h v [p; q] t x /\
  @k_cell_2d_wrap_L NumR hl vl p q t x = @wrapper_gradient NumR 1 h v [p; q] t x /\
  @k_cell_2d_wrap_u_default NumR hl vl p t x = @wrapper_velocity NumR 1 h v [p; 2] t x /\
  @k_cell_2d_wrap_L_default NumR hl vl p t x = @wrapper_gradient NumR 1 h v [p; 2] t x /\
  @k_corner_2d_wrap_u NumR hl vl p t x = @wrapper_velocity NumR 2 h v [p] t x /\
  @k_corner_2d_wrap_L NumR hl vl p t x = @wrapper_gradient NumR 2 h v [p] t x.
Proof.
  intros Hh Hv h v. subst h v.
  split; [apply shear_wrap_u_inst; assumption|]. split; [apply shear_wrap_L_inst; assumption|].
  split; [apply cell_wrap_u_inst; assumption|]. split; [apply cell_wrap_L_inst; assumption|].
  split; [apply cell_wrap_u_default_inst; assumption|]. split; [apply cell_wrap_L_default_inst; assumption|].
  split; [apply corner_wrap_u_inst; assumption|apply corner_wrap_L_inst; assumption].
Qed.

(* what holds of simple shear and of the Stokes cell (KNOWN FINDINGS), about the generated wrappers *)
Theorem gen_shear_partial (hl vl : Z) (rate t : R) (x : arr R) i j :
  letter6_ok hl -> letter6_ok vl ->
  @wrapper_indices NumR 0 (fold_case hl) (fold_case vl) [rate] = Ok (i, j) ->
  exists a G, @k_simple_shear_2d_wrap_u NumR hl vl rate t x = Ok a /\
              @k_simple_shear_2d_wrap_L NumR hl vl rate t x = Ok G /\
    (forall k, (k < 3)%nat -> a k = shear_field i j rate x k) /\
    (forall k m, (k < 3)%nat -> (m < 3)%nat ->
       exists J, is_derive (fun s => shear_field i j rate (upd x m s) k) (x m) J /\
                 G (3 * k + m)%nat = 2 * J) /\
    G 0%nat + G 4%nat + G 8%nat = 0.
Proof.
  intros Hh Hv E.
  rewrite (shear_wrap_u_inst hl vl rate t x Hh Hv), (shear_wrap_L_inst hl vl rate t x Hh Hv).
  exact (shear_partial_proof (fold_case hl) (fold_case vl) rate t x i j (fold_case_ok hl Hh) (fold_case_ok vl Hv) E).
Qed.

Theorem gen_cell_partial (hl vl : Z) (u d t : R) (x : arr R) i j :
  letter6_ok hl -> letter6_ok vl ->
  @wrapper_indices NumR 1 (fold_case hl) (fold_case vl) [u; d] = Ok (i, j) ->
  in_cell d (x i) (x j) ->
  exists a G, @k_cell_2d_wrap_u NumR hl vl u d t x = Ok a /\
              @k_cell_2d_wrap_L NumR hl vl u d t x = Ok G /\
    (forall k, (k < 3)%nat -> a k = cell_field i j u d x k) /\
    (forall k m, (k < 3)%nat -> (m < 3)%nat -> k <> j ->
       is_derive (fun s => cell_field i j u d (upd x m s) k) (x m) (G (3 * k + m)%nat)) /\
    is_derive (fun s => cell_field i j u d (upd x i s) j) (x i) (G (3 * j + j)%nat) /\
    is_derive (fun s => cell_field i j u d (upd x j s) j) (x j) (G (3 * j + i)%nat) /\
    (forall m, (m < 3)%nat -> m <> i -> m <> j -> G (3 * j + m)%nat = 0).
Proof.
  intros Hh Hv E Hin.
  rewrite (cell_wrap_u_inst hl vl u d t x Hh Hv), (cell_wrap_L_inst hl vl u d t x Hh Hv).
  exact (cell_partial_proof (fold_case hl) (fold_case vl) u d t x i j (fold_case_ok hl Hh) (fold_case_ok vl Hv) E Hin).
Qed.
