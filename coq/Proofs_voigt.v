(* Proofs_voigt.v -- lemmas about Model_voigt.voigt_averages (R instance): the result is
   the volume-weighted sum of the rotated single-crystal stiffnesses, it is symmetric,
   input validation, one aligned grain. *)
From Coq Require Import Reals ZArith List Lra Lia Arith Bool Permutation.
From PV Require Import Num NumR Model_voigt Proofs_tensors_alg Proofs_tensors_rot
  Proofs_tensors_maps Inst_tensors.
From PV.gen Require Import Gen_tensors.
Import ListNotations.
Open Scope R_scope.

Notation MIN := (@mineral NumR).

Definition rsum (l : list R) : R := fold_right Rplus 0 l.

Lemma rsum_app l1 l2 : rsum (l1 ++ l2) = rsum l1 + rsum l2.
Proof. unfold rsum. induction l1; cbn; [lra|]. rewrite IHl1. lra. Qed.

Lemma rsum_perm l1 l2 : Permutation l1 l2 -> rsum l1 = rsum l2.
Proof. unfold rsum. induction 1; cbn; lra. Qed.

(* ---- total accessors (defaults are never reached when voigt_averages succeeds) ---- *)
Definition zeroA : RA := fun _ => 0.
Definition g_orient (m : MIN) (i n : nat) : RA := nth n (nth i (m_orients m) []) zeroA.
Definition g_frac (m : MIN) (i n : nat) : R := nth n (nth i (m_fracs m) []) 0.
(* stiffness selected by PHASE ORDINAL in the list ordered by ordinal *)
Definition m_C (tensors : list RA) (m : MIN) : RA := nth (Z.to_nat (m_phase m)) tensors zeroA.
(* phase fraction selected by the position of the phase in the assemblage *)
Definition m_phi (assemblage : list Z) (phis : list R) (m : MIN) : R :=
  match index_of (m_phase m) assemblage with Some k => nth k phis 0 | None => 0 end.

(* Voigt matrix of the single-crystal tensor of m rotated by the transpose of grain n *)
Definition grain_voigt (tensors : list RA) (m : MIN) (i n : nat) : RA :=
  k_elastic_tensor_to_voigt
    (k_rotate (k_voigt_to_elastic_tensor (m_C tensors m)) (transpose3 (g_orient m i n))).
Definition gterm tensors assemblage phis (m : MIN) (i n k : nat) : R :=
  g_frac m i n * m_phi assemblage phis m * grain_voigt tensors m i n k.

(* the claimed value of entry k of snapshot i *)
Definition weighted_sum tensors assemblage phis (ms : list MIN) (ng i k : nat) : R :=
  rsum (map (fun m => rsum (map (fun n => gterm tensors assemblage phis m i n k) (seq 0 ng))) ms).

(* ---- elastic_tensor_to_voigt: extensional, linear ---- *)
Ltac six_c i := destruct i as [|[|[|[|[|[|i]]]]]]; [ | | | | | | exfalso; lia ].

Lemma pre_mean_extb f g i j : eq4b f g -> (i < 6)%nat -> (j < 6)%nat -> pre_mean f i j = pre_mean g i j.
Proof.
  intros H Hi Hj; six_c i; six_c j;
  cbv [pre_mean pre flat_map map app lsum fold_right length fst snd]; rewrite !H by lia; reflexivity.
Qed.

Lemma etv_extb (T T' : RA) : eq4b (t4 T) (t4 T') -> forall k, (k < 36)%nat ->
  k_elastic_tensor_to_voigt T k = k_elastic_tensor_to_voigt T' k.
Proof.
  intros H k Hk.
  assert (E: forall i j, (i < 6)%nat -> (j < 6)%nat ->
             mat6 (k_elastic_tensor_to_voigt T) i j = mat6 (k_elastic_tensor_to_voigt T') i j).
  { intros i j Hi Hj. rewrite !etv_index_exhaustive by assumption.
    rewrite (pre_mean_extb _ _ i j H), (pre_mean_extb _ _ j i H) by assumption. reflexivity. }
  replace k with (6 * (k / 6) + k mod 6)%nat by (symmetry; apply Nat.div_mod_eq).
  apply (E (k / 6)%nat (k mod 6)%nat).
  - apply Nat.div_lt_upper_bound; lia.
  - apply Nat.mod_upper_bound; lia.
Qed.

Ltac each36 k tac := do 36 (destruct k as [|k]; [tac|]); exfalso; lia.

Lemma etv_scale2 (T : RA) (f phi : R) : forall k, (k < 36)%nat ->
  k_elastic_tensor_to_voigt (@scale81 NumR (@scale81 NumR T f) phi) k
  = f * phi * k_elastic_tensor_to_voigt T k.
Proof.
  intros k Hk.
  each36 k ltac:(lazy [k_elastic_tensor_to_voigt scale81 tab mk_arr nth map seq]; numR; field).
Qed.

Lemma grain_term_spec (C4 o : RA) f phi : forall k, (k < 36)%nat ->
  @grain_term NumR C4 o f phi k
  = f * phi * k_elastic_tensor_to_voigt (k_rotate C4 (transpose3 o)) k.
Proof.
  intros k Hk. unfold grain_term. rewrite etv_scale2 by assumption. f_equal.
  apply etv_extb; [apply rotate4_is_k_rotate | assumption].
Qed.

(* ---- accumulators ---- *)
Lemma add36_spec (a b : RA) k : (k < 36)%nat -> @add36 NumR a b k = a k + b k.
Proof. intros H. unfold add36. rewrite tab_spec by assumption. reflexivity. Qed.
Lemma zeros36_spec k : (k < 36)%nat -> @zeros36 NumR k = 0.
Proof. intros H. unfold zeros36. rewrite tab_spec by assumption. reflexivity. Qed.

Lemma nth_error_nth {A} (l : list A) n d x : nth_error l n = Some x -> nth n l d = x.
Proof.
  revert n; induction l as [|a l IH]; intros n H; destruct n as [|n]; cbn in H |- *.
  - discriminate.
  - discriminate.
  - injection H as H; exact H.
  - apply IH, H.
Qed.

Section Avg.
  Variables (tensors : list RA) (assemblage : list Z) (phis : list NumR).
  Let pt := map (@k_voigt_to_elastic_tensor NumR) tensors.

  Lemma grain_val_spec m i n v : grain_val pt assemblage phis m i n = Ok v ->
    forall k, (k < 36)%nat -> v k = gterm tensors assemblage phis m i n k.
  Proof.
    unfold grain_val. destruct (Z.ltb (m_phase m) 0); [discriminate|].
    destruct (nth_error pt (Z.to_nat (m_phase m))) as [C4|] eqn:EC; [|discriminate].
    destruct (nth_error (nth i (m_orients m) []) n) as [o|] eqn:Eo; [|discriminate].
    destruct (nth_error (nth i (m_fracs m) []) n) as [f|] eqn:Ef; [|discriminate].
    destruct (index_of (m_phase m) assemblage) as [j|] eqn:Ej; [|discriminate].
    destruct (nth_error phis j) as [phi|] eqn:Ep; [|discriminate].
    intros H; inversion H; subst v; clear H. intros k Hk.
    rewrite grain_term_spec by assumption.
    unfold gterm, grain_voigt, g_frac, g_orient, m_phi, m_C. rewrite Ej.
    unfold pt in EC. rewrite nth_error_map in EC.
    destruct (nth_error tensors (Z.to_nat (m_phase m))) as [C|] eqn:EC'; [|discriminate].
    inversion EC; subst C4; clear EC.
    pose proof (nth_error_nth _ _ 0 _ Ef) as Hf. pose proof (nth_error_nth _ _ 0 _ Ep) as Hp.
    pose proof (nth_error_nth _ _ zeroA _ Eo) as Ho. pose proof (nth_error_nth _ _ zeroA _ EC') as HC.
    subst f phi o C. reflexivity.
  Qed.

  Lemma grains_spec m i ns acc r :
    loop (fun n a => grain_step pt assemblage phis m i n a) ns acc = Ok r ->
    forall k, (k < 36)%nat ->
      r k = acc k + rsum (map (fun n => gterm tensors assemblage phis m i n k) ns).
  Proof.
    revert acc; induction ns as [|n ns IH]; intros acc H k Hk; cbn [loop] in H.
    - inversion H; subst. cbn. lra.
    - unfold grain_step at 1 in H.
      destruct (grain_val pt assemblage phis m i n) as [v|] eqn:Ev; [|discriminate].
      rewrite (IH _ H k Hk). rewrite add36_spec by assumption.
      rewrite (grain_val_spec _ _ _ _ Ev k Hk). cbn [map rsum fold_right]. unfold rsum. lra.
  Qed.

  Lemma minerals_spec ng i ms acc r :
    loop (mineral_step pt assemblage phis ng i) ms acc = Ok r ->
    forall k, (k < 36)%nat ->
      r k = acc k + rsum (map (fun m => rsum (map (fun n => gterm tensors assemblage phis m i n k) (seq 0 ng))) ms).
  Proof.
    revert acc; induction ms as [|m ms IH]; intros acc H k Hk; cbn [loop] in H.
    - inversion H; subst. cbn. lra.
    - destruct (mineral_step pt assemblage phis ng i m acc) as [a'|] eqn:Em; [|discriminate].
      rewrite (IH _ H k Hk). unfold mineral_step in Em. rewrite (grains_spec _ _ _ _ _ Em k Hk).
      cbn [map rsum fold_right]. unfold rsum. lra.
  Qed.

  Lemma snapshot_spec ms ng i r : snapshot_avg pt assemblage phis ms ng i = Ok r ->
    forall k, (k < 36)%nat -> r k = weighted_sum tensors assemblage phis ms ng i k.
  Proof.
    intros H k Hk. unfold snapshot_avg in H. rewrite (minerals_spec _ _ _ _ _ H k Hk).
    rewrite zeros36_spec by assumption. unfold weighted_sum. lra.
  Qed.
End Avg.

Lemma all_ok_spec {A} (l : list (res A)) r : all_ok l = Ok r ->
  length r = length l /\ forall j d, (j < length l)%nat -> nth j l (Ok d) = Ok (nth j r d).
Proof.
  revert r; induction l as [|[a|e] l IH]; intros r H; cbn [all_ok] in H.
  - inversion H; split; [reflexivity|]. intros j d Hj; cbn in Hj; lia.
  - destruct (all_ok l) as [r'|] eqn:E; [|discriminate]. inversion H; subst r; clear H.
    destruct (IH r' eq_refl) as (Hl & Hn). split; [cbn; lia|].
    intros [|j] d Hj; cbn in *; [reflexivity | apply Hn; lia].
  - discriminate.
Qed.

(* validation as a proposition *)
Definition consistent (ms : list MIN) : Prop :=
  match ms with
  | [] => False
  | m0 :: rest =>
      Forall (fun m => m_ngrains m = m_ngrains m0) rest /\
      Forall (fun m => length (m_orients m) = length (m_orients m0)) rest /\
      Forall (fun m => length (m_fracs m) = length (m_orients m0)) ms
  end.

Definition n_steps (ms : list MIN) : nat := match ms with [] => O | m0 :: _ => length (m_orients m0) end.
Definition n_grains (ms : list MIN) : nat := match ms with [] => O | m0 :: _ => m_ngrains m0 end.

Lemma forallb_Forall {A} (p : A -> bool) (P : A -> Prop) l :
  (forall x, p x = true <-> P x) -> (forallb p l = true <-> Forall P l).
Proof.
  intros Hp; induction l; cbn; [split; [constructor | reflexivity]|].
  rewrite andb_true_iff, IHl, Hp. split; [intros [? ?]; constructor; assumption | inversion 1; tauto].
Qed.

(* C10: the Voigt average is the weighted sum, with the stiffness chosen by phase identity *)
Theorem avg_is_weighted_sum tensors assemblage phis (ms : list MIN) res :
  voigt_averages ms assemblage phis tensors = Ok res ->
  length res = n_steps ms /\
  forall i k, (i < n_steps ms)%nat -> (k < 36)%nat ->
    nth i res zeroA k = weighted_sum tensors assemblage phis ms (n_grains ms) i k.
Proof.
  unfold voigt_averages. destruct ms as [|m0 rest]; [discriminate|].
  destruct (negb (forallb _ rest)); [discriminate|].
  destruct (negb (forallb _ rest)); [discriminate|].
  destruct (negb (forallb _ (m0 :: rest))); [discriminate|].
  intros H. apply all_ok_spec in H. destruct H as (Hl & Hn).
  rewrite map_length, seq_length in Hl, Hn. cbn [n_steps n_grains]. split; [exact Hl|].
  intros i k Hi Hk. specialize (Hn i zeroA Hi).
  rewrite (nth_indep _ _ (snapshot_avg (map (@k_voigt_to_elastic_tensor NumR) tensors) assemblage phis (m0 :: rest) (m_ngrains m0) 0%nat)) in Hn
    by (rewrite map_length, seq_length; exact Hi).
  rewrite map_nth, seq_nth in Hn by exact Hi. cbn [Nat.add] in Hn.
  apply (snapshot_spec _ _ _ _ _ _ _ Hn k Hk).
Qed.

(* C10: mismatched grain / snapshot counts are rejected, and only those (among
   validation errors): voigt_averages returns ValueError from the validation iff the
   minerals are inconsistent *)
Theorem avg_rejects tensors assemblage phis (ms : list MIN) : ms <> [] -> ~ consistent ms ->
  voigt_averages ms assemblage phis tensors = Err ValueError.
Proof.
  intros Hne Hc. unfold voigt_averages. destruct ms as [|m0 rest]; [contradiction|].
  destruct (forallb (fun m => Nat.eqb (m_ngrains m) (m_ngrains m0)) rest) eqn:E1; cbn [negb]; [|reflexivity].
  destruct (forallb (fun m => Nat.eqb (length (m_orients m)) (length (m_orients m0))) rest) eqn:E2; cbn [negb]; [|reflexivity].
  destruct (forallb (fun m => Nat.eqb (length (m_fracs m)) (length (m_orients m0))) (m0 :: rest)) eqn:E3; cbn [negb]; [|reflexivity].
  exfalso; apply Hc. cbn [consistent]. repeat split.
  - apply (forallb_Forall _ _ _ (fun x => Nat.eqb_eq _ _)), E1.
  - apply (forallb_Forall _ _ _ (fun x => Nat.eqb_eq _ _)), E2.
  - apply (forallb_Forall _ _ _ (fun x => Nat.eqb_eq _ _)), E3.
Qed.

Theorem avg_accepts_only_consistent tensors assemblage phis (ms : list MIN) res :
  voigt_averages ms assemblage phis tensors = Ok res -> consistent ms.
Proof.
  unfold voigt_averages. destruct ms as [|m0 rest]; [discriminate|].
  destruct (forallb (fun m => Nat.eqb (m_ngrains m) (m_ngrains m0)) rest) eqn:E1; cbn [negb]; [|discriminate].
  destruct (forallb (fun m => Nat.eqb (length (m_orients m)) (length (m_orients m0))) rest) eqn:E2; cbn [negb]; [|discriminate].
  destruct (forallb (fun m => Nat.eqb (length (m_fracs m)) (length (m_orients m0))) (m0 :: rest)) eqn:E3; cbn [negb]; [|discriminate].
  intros _. cbn [consistent]. repeat split.
  - apply (forallb_Forall _ _ _ (fun x => Nat.eqb_eq _ _)), E1.
  - apply (forallb_Forall _ _ _ (fun x => Nat.eqb_eq _ _)), E2.
  - apply (forallb_Forall _ _ _ (fun x => Nat.eqb_eq _ _)), E3.
Qed.

(* C10: every result matrix is symmetric *)
Lemma rsum_map_ext {A} (f g : A -> R) l : (forall x, f x = g x) -> rsum (map f l) = rsum (map g l).
Proof. intros H; induction l; cbn; [reflexivity|]. unfold rsum in *. rewrite H, IHl. reflexivity. Qed.

Theorem weighted_sum_symmetric tensors assemblage phis ms ng i : forall a b, (a < 6)%nat -> (b < 6)%nat ->
  weighted_sum tensors assemblage phis ms ng i (6 * a + b) = weighted_sum tensors assemblage phis ms ng i (6 * b + a).
Proof.
  intros a b Ha Hb. unfold weighted_sum.
  apply rsum_map_ext; intros m. apply rsum_map_ext; intros n. unfold gterm. f_equal.
  apply (etv_symmetric _ a b Ha Hb).
Qed.

Theorem avg_symmetric tensors assemblage phis (ms : list MIN) res :
  voigt_averages ms assemblage phis tensors = Ok res ->
  forall i, (i < n_steps ms)%nat -> sym6 (nth i res zeroA).
Proof.
  intros H i Hi a b Ha Hb. destruct (avg_is_weighted_sum _ _ _ _ _ H) as (_ & Hs).
  unfold mat6. rewrite !Hs by (try assumption; nia). apply weighted_sum_symmetric; assumption.
Qed.

(* C10: one aligned grain returns the single-crystal tensor *)
Definition is_identity (o : RA) : Prop := eq2b (mat3 o) id3.

Lemma grain_voigt_aligned tensors (m : MIN) i n : sym6 (m_C tensors m) -> is_identity (g_orient m i n) ->
  forall k, (k < 36)%nat -> grain_voigt tensors m i n k = m_C tensors m k.
Proof.
  intros Hs Hid k Hk. unfold grain_voigt.
  transitivity (k_elastic_tensor_to_voigt (k_voigt_to_elastic_tensor (m_C tensors m)) k).
  - apply etv_extb; [|assumption].
    eapply eq4b_trans; [apply rotate_is_mode_products|].
    eapply eq4b_trans; [|apply rot4_id]. apply rot4_extR.
    intros a b Ha Hb. rewrite (mat3_transpose3 _ a b Ha Hb). unfold tr3.
    rewrite (Hid b a Hb Ha). unfold id3. rewrite Nat.eqb_sym. reflexivity.
  - replace k with (6 * (k / 6) + k mod 6)%nat by (symmetry; apply Nat.div_mod_eq).
    apply (etv_vte _ Hs (k / 6)%nat (k mod 6)%nat).
    + apply Nat.div_lt_upper_bound; lia.
    + apply Nat.mod_upper_bound; lia.
Qed.

Theorem avg_single_aligned tensors assemblage phis (m : MIN) res :
  m_ngrains m = 1%nat -> length (m_orients m) = 1%nat ->
  sym6 (m_C tensors m) -> is_identity (g_orient m 0 0) ->
  g_frac m 0 0 = 1 -> m_phi assemblage phis m = 1 ->
  voigt_averages [m] assemblage phis tensors = Ok res ->
  forall k, (k < 36)%nat -> nth 0 res zeroA k = m_C tensors m k.
Proof.
  intros Hg Ho Hs Hid Hf Hp H k Hk.
  destruct (avg_is_weighted_sum _ _ _ _ _ H) as (_ & Hw).
  rewrite Hw by (cbn [n_steps]; lia || assumption). cbn [n_grains]. rewrite Hg.
  unfold weighted_sum. cbn [seq map rsum fold_right]. unfold gterm. rewrite Hf, Hp.
  rewrite grain_voigt_aligned by assumption. lra.
Qed.
