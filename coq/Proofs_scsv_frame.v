(* Proofs_scsv_frame.v -- lemmas about the line level of an SCSV file (Model_scsv_frame, C16). *)
From Coq Require Import String Ascii List ZArith Bool Lia.
From PV Require Import Model_scsv Proofs_scsv Model_scsv_frame.
Import ListNotations.
Open Scope string_scope.

Definition kept (l : string) : Prop := line_kept l = true.

Lemma line_kept_iff : forall l, line_kept l = true <-> l <> blank_line /\ l <> fence_line.
Proof.
  intros l. unfold line_kept. rewrite andb_true_iff, !negb_true_iff. split.
  - intros [A B]. split; intro E; subst l; rewrite String.eqb_refl in *; discriminate.
  - intros [A B]. split; apply String.eqb_neq; auto.
Qed.

Lemma kept_eqbs : forall l, kept l -> String.eqb l blank_line = false /\ String.eqb l fence_line = false.
Proof.
  unfold kept, line_kept. intros l H. apply andb_true_iff in H. rewrite !negb_true_iff in H. exact H.
Qed.

Lemma blank_is_not_fence : String.eqb blank_line fence_line = false.
Proof. vm_compute. reflexivity. Qed.

(* one step of the loop, by cases on the line *)
Lemma frame_cons_kept : forall b l r, kept l ->
  frame b (l :: r) = if b then (l :: fst (frame b r), snd (frame b r)) else (fst (frame b r), l :: snd (frame b r)).
Proof. intros b l r K. destruct (kept_eqbs l K) as [A B]. cbn [frame]. rewrite A, B. reflexivity. Qed.

Lemma frame_cons_blank : forall b r, frame b (blank_line :: r) = frame b r.
Proof. intros. cbn [frame]. rewrite String.eqb_refl. reflexivity. Qed.

Lemma frame_cons_fence : forall b r, frame b (fence_line :: r) = frame (negb b) r.
Proof.
  intros. cbn [frame]. rewrite String.eqb_refl.
  replace (String.eqb fence_line blank_line) with false by (vm_compute; reflexivity). reflexivity.
Qed.

(* lines that are all kept go, unchanged and in order, to the side the state selects *)
Lemma frame_kept : forall ls b, Forall kept ls -> frame b ls = if b then (ls, []) else ([], ls).
Proof.
  induction ls as [|l r IH]; intros b F.
  - destruct b; reflexivity.
  - inversion F; subst. rewrite frame_cons_kept by assumption. rewrite (IH b) by assumption.
    destruct b; reflexivity.
Qed.

Lemma frame_state_kept : forall ls b, Forall kept ls -> frame_state b ls = b.
Proof.
  induction ls as [|l r IH]; intros b F; simpl; auto.
  inversion F; subst. destruct (kept_eqbs l H1) as [_ B]. rewrite B. auto.
Qed.

(* without a fence line nothing changes side: the loop is a filter *)
Lemma frame_no_fence : forall ls b, Forall (fun l => l <> fence_line) ls ->
  frame b ls = if b then (filter line_kept ls, []) else ([], filter line_kept ls).
Proof.
  induction ls as [|l r IH]; intros b F.
  - destruct b; reflexivity.
  - inversion F; subst. apply String.eqb_neq in H1.
    cbn [frame filter]. rewrite H1.
    assert (K : line_kept l = negb (String.eqb l blank_line)).
    { unfold line_kept. rewrite H1. cbn [negb]. apply Bool.andb_true_r. }
    rewrite K. destruct (String.eqb l blank_line); cbn [negb].
    + apply IH; auto.
    + rewrite (IH b) by assumption. destruct b; reflexivity.
Qed.

(* the state is the only thing carried from one part of the file to the next *)
Lemma frame_app : forall l1 b l2,
  frame b (l1 ++ l2)%list = ((fst (frame b l1) ++ fst (frame (frame_state b l1) l2))%list,
                             (snd (frame b l1) ++ snd (frame (frame_state b l1) l2))%list).
Proof.
  induction l1 as [|l r IH]; intros b l2.
  - simpl. destruct (frame b l2); reflexivity.
  - cbn [app frame frame_state].
    destruct (String.eqb l blank_line) eqn:EB.
    + apply String.eqb_eq in EB. subst l. rewrite blank_is_not_fence. apply IH.
    + destruct (String.eqb l fence_line) eqn:EF.
      * apply IH.
      * rewrite IH. destruct b; reflexivity.
Qed.

(* a line is dropped iff it is exactly "\n" or "---\n" *)
Lemma frame_sound : forall ls b l,
  In l (fst (frame b ls)) \/ In l (snd (frame b ls)) <-> In l ls /\ line_kept l = true.
Proof.
  induction ls as [|x r IH]; intros b l.
  - simpl. tauto.
  - cbn [frame]. destruct (String.eqb x blank_line) eqn:EB; [|destruct (String.eqb x fence_line) eqn:EF].
    + rewrite IH. apply String.eqb_eq in EB. subst x. split.
      * intros [I K]; split; [right|]; auto.
      * intros [[E|I] K]; [subst l; vm_compute in K; discriminate | auto].
    + rewrite IH. apply String.eqb_eq in EF. subst x. split.
      * intros [I K]; split; [right|]; auto.
      * intros [[E|I] K]; [subst l; vm_compute in K; discriminate | auto].
    + assert (KX : line_kept x = true) by (unfold line_kept; rewrite EB, EF; reflexivity).
      specialize (IH b l). destruct b; cbn [fst snd In]; split.
      * intros [[E|I]|I]; [subst; auto | |]; (destruct IH as [IH _]; destruct IH as [I' K]; [auto|]; split; auto).
      * intros [[E|I] K]; [auto|]. destruct IH as [_ IH]. destruct (IH (conj I K)); auto.
      * intros [I|[E|I]]; [|subst; auto|]; (destruct IH as [IH _]; destruct IH as [I' K]; [auto|]; split; auto).
      * intros [[E|I] K]; [auto|]. destruct IH as [_ IH]. destruct (IH (conj I K)); auto.
Qed.

Lemma frame_count : forall ls b,
  length (fst (frame b ls)) + length (snd (frame b ls)) = length (filter line_kept ls).
Proof.
  induction ls as [|x r IH]; intros b; [reflexivity|].
  cbn [frame filter]. unfold line_kept at 1.
  destruct (String.eqb x blank_line) eqn:EB; cbn [negb andb]; [apply IH|].
  destruct (String.eqb x fence_line) eqn:EF; cbn [negb andb]; [apply IH|].
  specialize (IH b). destruct b; cbn [fst snd length]; lia.
Qed.

Theorem frame_drops_only_blank_and_fence : forall lines is_yaml,
  (forall l, In l (fst (frame is_yaml lines)) \/ In l (snd (frame is_yaml lines))
             <-> In l lines /\ l <> blank_line /\ l <> fence_line) /\
  length (fst (frame is_yaml lines)) + length (snd (frame is_yaml lines)) = length (filter line_kept lines).
Proof.
  intros lines b. split; [|exact (frame_count lines b)].
  intros l. rewrite <- line_kept_iff. exact (frame_sound lines b l).
Qed.

(* the file save_scsv writes is split into exactly its header lines and its csv lines *)
Theorem frame_written_file : forall hdr body, Forall kept hdr -> Forall kept body ->
  frame false (written_file hdr body) = (hdr, body).
Proof.
  intros hdr body FH FB. unfold written_file.
  rewrite frame_cons_fence. cbn [negb]. rewrite frame_app.
  rewrite (frame_kept hdr true FH), (frame_state_kept hdr true FH). cbn [fst snd].
  rewrite frame_cons_fence. cbn [negb]. rewrite (frame_kept body false FB). cbn [fst snd].
  rewrite app_nil_r. reflexivity.
Qed.

(* in particular: every line of the body that is not exactly "\n" / "---\n" -- a line of
   delimiters only, a line that merely strips to "---" -- is a csv line, in place *)
Corollary body_line_survives : forall hdr pre l post,
  Forall kept hdr -> Forall kept pre -> kept l -> Forall kept post ->
  snd (frame false (written_file hdr (pre ++ l :: post)%list)) = (pre ++ l :: post)%list.
Proof.
  intros. rewrite frame_written_file; auto. apply Forall_app; split; auto.
Qed.

(* ------------------------------------------------------------ the round trip through the file *)
(* C16_roundtrip with the transport hypothesis asked only of the rows save actually writes *)
Theorem roundtrip_inst : forall O s y data d,
  (forall d, csv_legal d = true -> o_delim_err O d = None) ->
  sdelim s = Some d ->
  (forall rows, save O s data = Ok rows -> Forall row_transportable rows -> o_transport O d rows = Ok rows) ->
  validate_schema O s = Ok true -> representable O s data = true -> header_faithful O s y = true ->
  read_back O s y data = Ok (names s, data).
Proof.
  intros O s y data d0 HD Ed0 HT V R HF.
  destruct (representable_inv O s data V R) as [d [m [fs [tfs RF]]]].
  pose proof (save_spec O s data d m fs tfs HD V RF) as SS.
  pose proof (rows_transportable O s data d m fs tfs RF) as RT.
  destruct RF as [Ed [Em [Ef [Nf [Et [F [Cd [Pm [Nn [Pn [Nt C]]]]]]]]]]].
  assert (d0 = d) by congruence. subst d0.
  unfold read_back. rewrite SS. simpl bind. rewrite Ed.
  destruct (cols_ok_shape O _ _ _ _ _ C) as [A [B Cc]].
  rewrite (HT _ SS RT). simpl bind.
  unfold header_faithful in HF. destruct y as [|s']; [discriminate|].
  apply andb_true_iff in HF. destruct HF as [V' HF].
  destruct (validate_schema O s') as [[|]|] eqn:EV'; try discriminate.
  destruct (validate_true_inv O s' EV') as [d' [m' [fs' [Ed' [Em' [Ef' [Nf' [_ [_ Vf']]]]]]]]].
  rewrite Ed, Ed', Em, Em', Ef, Ef' in HF. split_andb.
  apply String.eqb_eq in H. apply String.eqb_eq in H1. subst d' m'.
  destruct (validate_fields_types O fs' Vf') as [tfs' [Et' F']].
  destruct (fills_faithful_tfs O fs fs' tfs tfs' H0 F F') as [FF NN].
  unfold read. rewrite EV'. simpl bind. cbv iota. simpl negb. cbv iota.
  rewrite Ed', Em', Ef'. rewrite (HD d Cd).
  rewrite <- NN. rewrite (map_strip_plain _ (forallb_weaken _ Pn)), list_str_eqb_refl. simpl negb. cbv iota.
  rewrite Nt. simpl negb. cbv iota. rewrite Et'. simpl bind.
  rewrite (read_cols_ok O (length fs) (nrows_of data) m tfs tfs' data); auto.
  simpl. unfold names. rewrite Ef. reflexivity.
Qed.

(* the transport oracle decomposed: csv.writer (W), the modelled loop, csv.reader (R).
   Hypotheses on W and R concern only the rows written for this data set: no written line is
   "\n" or "---\n", and the reader inverts the writer on them *)
Theorem roundtrip_through_file : forall O W R hdr s y data d,
  (forall d, csv_legal d = true -> o_delim_err O d = None) ->
  (forall d rows, o_transport O d rows = transport_via_file W R hdr d rows) ->
  sdelim s = Some d ->
  Forall kept hdr ->
  (forall rows, save O s data = Ok rows -> Forall row_transportable rows ->
                Forall kept (W d rows) /\ R d (W d rows) = Ok rows) ->
  validate_schema O s = Ok true -> representable O s data = true -> header_faithful O s y = true ->
  read_back O s y data = Ok (names s, data).
Proof.
  intros O W R hdr s y data d HD HTr Ed FH HW V Rp HF.
  apply (roundtrip_inst O s y data d); auto.
  intros rows SS RT. destruct (HW rows SS RT) as [K I].
  rewrite HTr. unfold transport_via_file. rewrite frame_written_file; auto.
Qed.

(* ------------------------------------------------------------ concrete instances *)
Definition TAB : string := String (ascii_of_N 9%N) "".

Definition with_file_transport (O : oracles) (hdr : list string) : oracles :=
  mkO (o_is_ident O) (o_nt_ok O) (o_delim_err O) (o_str_int O) (o_str_cplx O) (o_int_of O) (o_float_of O)
      (o_cplx_of O) (o_zf_eq O) (transport_via_file toy_writer toy_reader hdr).

Definition toy_hdr : list string := ["schema:" ++ LF; "  delimiter: '" ++ TAB ++ "'" ++ LF].
Definition toyF : oracles := with_file_transport toyO toy_hdr.

(* tab-delimited, missing marker '', two float fields with NaN fill; the second row is all
   fill values and is written as the line "\t\n" *)
Definition tab_schema : schema :=
  sch TAB "" [fld "a" "float" (Some (YStr "NaN")); fld "b" "float" (Some (YStr "NaN"))].
Definition tab_data : list (list cell) :=
  [[CFloat (FFin "1.5"); CFloat FNan; CFloat (FFin "1.5")]; [CFloat FNan; CFloat FNan; CFloat (FFin "1.5")]].
Definition tab_rows : list (list string) := [["a"; "b"]; ["1.5"; ""]; [""; ""]; ["1.5"; "1.5"]].

Lemma through_file_nonvacuous :
  (forall d, csv_legal d = true -> o_delim_err toyF d = None) /\
  (forall d rows, o_transport toyF d rows = transport_via_file toy_writer toy_reader toy_hdr d rows) /\
  sdelim tab_schema = Some TAB /\ Forall kept toy_hdr /\
  save toyF tab_schema tab_data = Ok tab_rows /\
  toy_writer TAB tab_rows = ["a" ++ TAB ++ "b" ++ LF; "1.5" ++ TAB ++ LF; TAB ++ LF; "1.5" ++ TAB ++ "1.5" ++ LF] /\
  Forall row_transportable tab_rows /\
  Forall kept (toy_writer TAB tab_rows) /\ toy_reader TAB (toy_writer TAB tab_rows) = Ok tab_rows /\
  validate_schema toyF tab_schema = Ok true /\ representable toyF tab_schema tab_data = true /\
  header_faithful toyF tab_schema (YLoaded tab_schema) = true /\
  read_back toyF tab_schema (YLoaded tab_schema) tab_data = Ok (["a"; "b"], tab_data).
Proof.
  split; [|split].
  - intros d H. unfold csv_legal in H. apply andb_true_l in H. simpl. rewrite H. reflexivity.
  - reflexivity.
  - repeat split; try (vm_compute; reflexivity).
    + repeat constructor.
    + repeat constructor; vm_compute; try reflexivity; intros ?; discriminate.
    + repeat constructor.
Qed.

(* lines that look blank or fence-like after stripping are csv lines; a real fence in the body
   is not: everything after it becomes YAML *)
Lemma frame_examples :
  frame false (written_file toy_hdr [TAB ++ LF; "---" ++ TAB ++ LF; " " ++ LF; "---"])
  = (toy_hdr, [TAB ++ LF; "---" ++ TAB ++ LF; " " ++ LF; "---"]) /\
  frame false (written_file toy_hdr ["a" ++ LF; LF; "1" ++ LF; LF])
  = (toy_hdr, ["a" ++ LF; "1" ++ LF]) /\
  frame false (written_file toy_hdr ["a" ++ LF; fence_line; "1" ++ LF])
  = ((toy_hdr ++ [("1" ++ LF)%string])%list, ["a" ++ LF]).
Proof. repeat split; vm_compute; reflexivity. Qed.

(* the finding on the unchanged tree, in the model: with the delimiter '-' a row of four empty
   cells is written as "---\n", which the loop takes for a fence -- the rows are transportable
   in the sense of `oracle_ok`, writer and reader are inverse on them, and yet the row and
   everything after it is lost from the csv lines *)
Definition dash_rows : list (list string) := [["a"; "b"; "c"; "d"]; [""; ""; ""; ""]; ["1"; "2"; "3"; "4"]].
Lemma dash_fence_witness :
  csv_legal "-" = true /\ Forall row_transportable dash_rows /\
  toy_reader "-" (toy_writer "-" dash_rows) = Ok dash_rows /\
  toy_writer "-" dash_rows = ["a-b-c-d" ++ LF; fence_line; "1-2-3-4" ++ LF] /\
  transport_via_file toy_writer toy_reader toy_hdr "-" dash_rows = Ok [["a"; "b"; "c"; "d"]].
Proof.
  repeat split; try (vm_compute; reflexivity).
  repeat constructor; vm_compute; try reflexivity; intros ?; discriminate.
Qed.
