(* Proofs_minerals.v -- lemmas about the glue model (extract_vars, apply_gbs, update,
   histories, eval_rhs), R instance. *)
From Coq Require Import Reals ZArith List Bool Lra Lia.
From PV Require Import Num NumR Model_core Model_minerals Proofs_core.
Import ListNotations.
Open Scope R_scope.

Notation RL := (list R).

(* ---- sums ------------------------------------------------------------------- *)
Lemma nsum_R (l : RL) : @nsum NumR l = rsum l.
Proof. unfold nsum. rewrite fold_left_add_R. numR. ring. Qed.

Lemma rsum_app (a b : RL) : rsum (a ++ b) = rsum a + rsum b.
Proof.
  induction a as [|x a IH]; cbn [app]; unfold rsum in *; cbn [fold_right]; [ring|]. rewrite IH. ring.
Qed.

Lemma rsum_map_div (l : RL) s : rsum (map (fun x => x / s) l) = rsum l / s.
Proof.
  induction l as [|x l IH]; unfold rsum in *; cbn [map fold_right]; [unfold Rdiv; ring|].
  rewrite IH. unfold Rdiv; ring.
Qed.

Lemma rsum_nonneg (l : RL) : Forall (fun x => 0 <= x) l -> 0 <= rsum l.
Proof. induction 1; unfold rsum in *; cbn [fold_right]; lra. Qed.

Lemma rsum_ge_member (l : RL) x : Forall (fun x => 0 <= x) l -> In x l -> x <= rsum l.
Proof.
  induction 1 as [|y l Hy Hl IH]; intros Hin; [destruct Hin|].
  pose proof (rsum_nonneg l Hl). unfold rsum in *. cbn [fold_right].
  destruct Hin as [->|Hin]; [lra| specialize (IH Hin); lra].
Qed.

(* ---- clipping ---------------------------------------------------------------- *)
Lemma clip11_range x : -1 <= @clip11 NumR x <= 1.
Proof.
  unfold clip11, m_one. numR.
  destruct (Rltb x (- (1))) eqn:H1; [lra|]. destruct (Rltb 1 x) eqn:H2; bool2prop; lra.
Qed.

Lemma clip11_id x : -1 <= x <= 1 -> @clip11 NumR x = x.
Proof.
  intros H. unfold clip11, m_one. numR.
  destruct (Rltb x (- (1))) eqn:H1; bool2prop; [lra|]. destruct (Rltb 1 x) eqn:H2; bool2prop; [lra|reflexivity].
Qed.

Lemma clip0_nonneg x : 0 <= @clip0 NumR x.
Proof. unfold clip0. numR. destruct (Rltb x 0) eqn:H; bool2prop; lra. Qed.

Lemma clip0_id x : 0 <= x -> @clip0 NumR x = x.
Proof. intros H. unfold clip0. numR. destruct (Rltb x 0) eqn:H1; bool2prop; [lra|reflexivity]. Qed.

(* ---- extract_vars -------------------------------------------------------------- *)
Definition in11 (x : R) : Prop := -1 <= x <= 1.

Lemma ev_o_range (y : RL) n : Forall in11 (@ev_o NumR y n).
Proof. unfold ev_o. apply Forall_forall. intros x Hx. apply in_map_iff in Hx as [z [<- _]]. apply clip11_range. Qed.

Lemma ev_o_length (y : RL) n : length y = (9 + 10 * n)%nat -> length (@ev_o NumR y n) = (9 * n)%nat.
Proof. intros H. unfold ev_o. rewrite map_length, firstn_length, skipn_length. change (T NumR) with R in *. lia. Qed.

Lemma ev_f_length (y : RL) n : length y = (9 + 10 * n)%nat -> length (@ev_f NumR y n) = n.
Proof. intros H. unfold ev_f. rewrite !map_length, firstn_length, skipn_length. change (T NumR) with R in *. lia. Qed.

Definition clipped_fracs (y : RL) (n : nat) : RL := map (@clip0 NumR) (firstn n (skipn (9 * n + 9) y)).

Lemma clipped_nonneg y n : Forall (fun x => 0 <= x) (clipped_fracs y n).
Proof. apply Forall_forall. intros x Hx. apply in_map_iff in Hx as [z [<- _]]. apply clip0_nonneg. Qed.

(* fractions of extract_vars are non-negative and sum to one, provided the clipped sum is
   positive (otherwise the code divides by zero and stores NaN: that is the guard) *)
Lemma ev_f_valid (y : RL) n : 0 < rsum (clipped_fracs y n) ->
  Forall (fun x => 0 <= x) (@ev_f NumR y n) /\ rsum (@ev_f NumR y n) = 1.
Proof.
  intros Hpos. unfold ev_f. fold (clipped_fracs y n). rewrite nsum_R. set (s := rsum _) in *.
  split.
  - apply Forall_forall. intros x Hx. apply in_map_iff in Hx as [z [<- Hz]].
    pose proof (clipped_nonneg y n) as Hn. rewrite Forall_forall in Hn. specialize (Hn z Hz).
    numR. apply Rmult_le_pos; [exact Hn | left; apply Rinv_0_lt_compat; exact Hpos].
  - change (rsum (map (fun x : R => x / s) (clipped_fracs y n)) = 1).
    rewrite rsum_map_div. fold s. field. lra.
Qed.

(* ---- apply_gbs ------------------------------------------------------------------ *)
Definition thr (chi : R) (n : nat) : R := chi / IZR (Z.of_nat n).

Lemma gbs_floor_length chi n (fs : RL) : length (@gbs_floor NumR chi n fs) = length fs.
Proof. unfold gbs_floor. apply map_length. Qed.

Lemma gbs_fracs_length chi n (fs : RL) : length (@gbs_fracs NumR chi n fs) = length fs.
Proof. unfold gbs_fracs. rewrite map_length. apply gbs_floor_length. Qed.

Definition floor1 chi n (f : R) : R := if Rltb f (thr chi n) then thr chi n else f.

Lemma gbs_floor_R chi n (fs : RL) : @gbs_floor NumR chi n fs = map (floor1 chi n) fs.
Proof. reflexivity. Qed.

Lemma gbs_fracs_R chi n (fs : RL) :
  @gbs_fracs NumR chi n fs = map (fun x => x / rsum (map (floor1 chi n) fs)) (map (floor1 chi n) fs).
Proof. unfold gbs_fracs. rewrite nsum_R. reflexivity. Qed.

(* masked grain: previous orientation, floor volume (before renormalisation by the common S);
   unmasked grain: keeps its integrated orientation and volume / S.  Exact tie f = chi/n is unmasked. *)
Lemma nth_map_in {A B} (f : A -> B) l i d d' : (i < length l)%nat ->
  nth i (map f l) d' = f (nth i l d).
Proof. revert i; induction l as [|a l IH]; intros [|i] H; cbn in *; try lia; [reflexivity|apply IH; lia]. Qed.

Lemma gbs_frac_nth chi n (fs : RL) i : (i < length fs)%nat ->
  let S := rsum (map (floor1 chi n) fs) in
  nth i (@gbs_fracs NumR chi n fs) 0 =
  (if Rltb (nth i fs 0) (thr chi n) then thr chi n else nth i fs 0) / S.
Proof.
  intros Hi S. rewrite gbs_fracs_R. fold S.
  rewrite (nth_map_in _ _ _ 0 0) by (rewrite map_length; exact Hi).
  rewrite (nth_map_in _ _ _ 0 0) by exact Hi. reflexivity.
Qed.

Lemma gbs_orient_nth chi n (os prev : list RL) (fs : RL) i d :
  (i < length os)%nat -> length os = length prev -> length os = length fs ->
  nth i (@gbs_orient NumR chi n os prev fs) d =
  if Rltb (nth i fs 0) (thr chi n) then nth i prev d else nth i os d.
Proof.
  revert prev fs i. induction os as [|o os IH]; intros [|p prev] [|f fs] i Hi Hp Hf;
    cbn in *; try lia.
  destruct i as [|i]; [reflexivity|]. apply IH; lia.
Qed.

Lemma gbs_orient_length chi n (os prev : list RL) (fs : RL) :
  length os = length prev -> length os = length fs ->
  length (@gbs_orient NumR chi n os prev fs) = length os.
Proof.
  revert prev fs. induction os as [|o os IH]; intros [|p prev] [|f fs] Hp Hf; cbn in *; try lia.
  f_equal. apply IH; lia.
Qed.

Lemma floor1_ge chi n f : floor1 chi n f >= f /\ floor1 chi n f >= thr chi n.
Proof. unfold floor1. destruct (Rltb f (thr chi n)) eqn:H; bool2prop; lra. Qed.

Lemma floor1_pos chi n f : 0 <= f -> 0 <= thr chi n -> 0 <= floor1 chi n f.
Proof. intros. destruct (floor1_ge chi n f). lra. Qed.

Lemma floor_sum_ge (chi : R) n (fs : RL) : rsum fs <= rsum (map (floor1 chi n) fs).
Proof.
  induction fs as [|f fs IH]; unfold rsum in *; cbn [map fold_right]; [lra|]. destruct (floor1_ge chi n f). lra.
Qed.

(* sum after flooring is at most  sum f + (#grains) * chi/n *)
Lemma floor_sum_le (chi : R) n (fs : RL) : 0 <= thr chi n -> Forall (fun x => 0 <= x) fs ->
  rsum (map (floor1 chi n) fs) <= rsum fs + INR (length fs) * thr chi n.
Proof.
  intros Ht H. induction H as [|f fs Hf Hfs IH]; [unfold rsum; cbn [map fold_right length INR]; lra|].
  cbn [map rsum fold_right length]. rewrite S_INR. fold (rsum fs). fold (rsum (map (floor1 chi n) fs)).
  unfold floor1 at 1. destruct (Rltb f (thr chi n)) eqn:Hm; bool2prop; lra.
Qed.

Theorem gbs_sum_one chi n (fs : RL) : 0 < rsum (map (floor1 chi n) fs) ->
  rsum (@gbs_fracs NumR chi n fs) = 1.
Proof. intros H. rewrite gbs_fracs_R, rsum_map_div. field. lra. Qed.

Lemma thr_n chi n : (0 < n)%nat -> INR n * thr chi n = chi.
Proof.
  intros Hn. unfold thr. rewrite INR_IZR_INZ. field.
  apply not_0_IZR. lia.
Qed.

(* S <= 1 + chi, so no stored fraction is below chi / (n (1 + chi)) *)
Theorem gbs_lower_bound chi n (fs : RL) i :
  (0 < n)%nat -> length fs = n -> 0 <= chi -> Forall (fun x => 0 <= x) fs -> rsum fs = 1 ->
  (i < n)%nat ->
  thr chi n / (1 + chi) <= nth i (@gbs_fracs NumR chi n fs) 0.
Proof.
  intros Hn Hl Hchi Hpos Hsum Hi.
  assert (Ht : 0 <= thr chi n).
  { unfold thr. apply Rmult_le_pos; [exact Hchi|]. left. apply Rinv_0_lt_compat. apply IZR_lt. lia. }
  rewrite gbs_frac_nth by lia. cbv zeta. set (S := rsum _).
  assert (HS1 : 1 <= S) by (subst S; rewrite <- Hsum; apply floor_sum_ge).
  assert (HS2 : S <= 1 + chi).
  { subst S. pose proof (floor_sum_le chi n fs Ht Hpos) as H. rewrite Hsum, Hl, thr_n in H by exact Hn. exact H. }
  set (v := if Rltb _ _ then _ else _).
  assert (Hv : thr chi n <= v).
  { subst v. destruct (Rltb (nth i fs 0) (thr chi n)) eqn:Hm; bool2prop; lra. }
  apply Rle_trans with (thr chi n / S).
  - unfold Rdiv. apply Rmult_le_compat_l; [exact Ht|]. apply Rinv_le_contravar; lra.
  - unfold Rdiv. apply Rmult_le_compat_r; [|exact Hv]. left. apply Rinv_0_lt_compat. lra.
Qed.

(* ordering of grain volumes is preserved *)
Theorem gbs_monotone chi n (fs : RL) i j :
  (i < length fs)%nat -> (j < length fs)%nat -> 0 < rsum (map (floor1 chi n) fs) ->
  nth i fs 0 <= nth j fs 0 ->
  nth i (@gbs_fracs NumR chi n fs) 0 <= nth j (@gbs_fracs NumR chi n fs) 0.
Proof.
  intros Hi Hj HS Hle. rewrite !gbs_frac_nth by assumption. cbv zeta. set (S := rsum _) in *.
  unfold Rdiv. apply Rmult_le_compat_r; [left; apply Rinv_0_lt_compat; exact HS|].
  destruct (Rltb (nth i fs 0) (thr chi n)) eqn:H1; destruct (Rltb (nth j fs 0) (thr chi n)) eqn:H2;
    bool2prop; lra.
Qed.

(* chi = 0: nothing is frozen or floored *)
Lemma thr0 n : thr 0 n = 0.
Proof. unfold thr, Rdiv; ring. Qed.

Lemma gbs_floor_chi0 n (fs : RL) : Forall (fun x => 0 <= x) fs -> @gbs_floor NumR 0 n fs = fs.
Proof.
  intros H. rewrite gbs_floor_R. induction H as [|f fs Hf0 Hfs IH]; [reflexivity|].
  cbn [map]. unfold floor1 at 1. rewrite thr0. destruct (Rltb f 0) eqn:Hm; bool2prop; [lra|].
  f_equal. exact IH.
Qed.

Theorem gbs_chi0 n (fs : RL) (os prev : list RL) :
  Forall (fun x => 0 <= x) fs -> length os = length prev -> length os = length fs ->
  @gbs_orient NumR 0 n os prev fs = os /\ @gbs_floor NumR 0 n fs = fs.
Proof.
  intros Hpos Hp Hf. split; [|apply gbs_floor_chi0; exact Hpos].
  revert prev fs Hpos Hp Hf. induction os as [|o os IH]; intros [|p prev] [|f fs] Hpos Hp Hf;
    cbn in *; try lia; try reflexivity.
  inversion Hpos; subst. unfold gbs_mask, gbs_thr. numR. fold (thr 0 n). rewrite thr0.
  destruct (Rltb f 0) eqn:Hm; bool2prop; [lra|]. f_equal. apply IH; try lia. assumption.
Qed.

(* ---- list surgery on the packed state vector ------------------------------------ *)
Lemma parts_F {A} (a b c : list A) : length a = 9%nat -> firstn 9 (a ++ b ++ c) = a.
Proof.
  intros H. rewrite firstn_app. replace (9 - length a)%nat with 0%nat by lia.
  rewrite firstn_O, app_nil_r. apply firstn_all2. lia.
Qed.

Lemma skipn_app_exact {A} (a b : list A) k : length a = k -> skipn k (a ++ b) = b.
Proof.
  intros H. rewrite skipn_app. replace (k - length a)%nat with 0%nat by lia.
  rewrite skipn_all2 by lia. reflexivity.
Qed.

Lemma firstn_app_exact {A} (a b : list A) k : length a = k -> firstn k (a ++ b) = a.
Proof.
  intros H. rewrite firstn_app. replace (k - length a)%nat with 0%nat by lia.
  rewrite firstn_O, app_nil_r. apply firstn_all2. lia.
Qed.

Lemma parts_O {A} (a b c : list A) n : length a = 9%nat -> length b = (9 * n)%nat ->
  firstn (9 * n) (skipn 9 (a ++ b ++ c)) = b.
Proof. intros Ha Hb. rewrite skipn_app_exact by exact Ha. apply firstn_app_exact. exact Hb. Qed.

Lemma parts_f {A} (a b c : list A) n : length a = 9%nat -> length b = (9 * n)%nat -> length c = n ->
  firstn n (skipn (9 * n + 9) (a ++ b ++ c)) = c.
Proof.
  intros Ha Hb Hc. rewrite app_assoc, skipn_app_exact by (rewrite app_length; lia).
  apply firstn_all2. lia.
Qed.

Lemma chunks9_length {A} (z : A) (l : list R) n : length (@chunks9 NumR l n) = n.
Proof. revert l; induction n as [|n IH]; intros l; cbn; [reflexivity|]. f_equal. apply IH. Qed.

Lemma concat_chunks9 (l : RL) n : length l = (9 * n)%nat -> concat (@chunks9 NumR l n) = l.
Proof.
  revert l; induction n as [|n IH]; intros l H; cbn [chunks9 concat].
  - destruct l; [reflexivity|cbn in H; lia].
  - rewrite IH; [apply firstn_skipn|]. rewrite skipn_length. change (T NumR) with R in *. lia.
Qed.

Lemma chunks9_each (l : RL) n : length l = (9 * n)%nat ->
  Forall (fun c => length c = 9%nat) (@chunks9 NumR l n).
Proof.
  revert l; induction n as [|n IH]; intros l H; cbn [chunks9]; constructor.
  - rewrite firstn_length. change (T NumR) with R in *. lia.
  - apply IH. rewrite skipn_length. change (T NumR) with R in *. lia.
Qed.

Lemma Forall_concat {A} (P : A -> Prop) (ls : list (list A)) :
  Forall P (concat ls) <-> Forall (Forall P) ls.
Proof.
  induction ls as [|l ls IH]; cbn; [split; constructor|].
  rewrite Forall_app, IH. split; [intros [H1 H2]; constructor; assumption|intros H; inversion H; auto].
Qed.

Lemma in_firstn' {A} (x : A) k l : In x (firstn k l) -> In x l.
Proof. revert l; induction k as [|k IH]; intros [|a l] H; cbn in *; try tauto. destruct H; auto. Qed.
Lemma in_skipn' {A} (x : A) k l : In x (skipn k l) -> In x l.
Proof. revert l; induction k as [|k IH]; intros [|a l] H; cbn in *; try tauto. right; auto. Qed.

Lemma chunks9_forall (P : R -> Prop) (l : RL) n : Forall P l -> Forall (Forall P) (@chunks9 NumR l n).
Proof.
  revert l; induction n as [|n IH]; intros l H; cbn [chunks9]; constructor.
  - apply Forall_forall. intros x Hx. rewrite Forall_forall in H. apply H. eapply in_firstn'; eauto.
  - apply IH. apply Forall_forall. intros x Hx. rewrite Forall_forall in H. apply H. eapply in_skipn'; eauto.
Qed.

(* ---- one update: the stored snapshot is a valid texture ---------------------------- *)
Definition nonneg (x : R) : Prop := 0 <= x.
Definition grain_ok (o : RL) : Prop := length o = 9%nat /\ Forall in11 o.

Definition valid_snapshot (n : nat) (s : @snapshot NumR) : Prop :=
  length (sn_o s) = n /\ Forall grain_ok (sn_o s) /\
  length (sn_f s) = n /\ Forall nonneg (sn_f s) /\ rsum (sn_f s) = 1.

Lemma length_concat9 (ls : list RL) : Forall (fun c => length c = 9%nat) ls ->
  length (concat ls) = (9 * length ls)%nat.
Proof. induction 1 as [|l ls Hl Hls IH]; cbn [concat length]; [lia|]. rewrite app_length, IH, Hl. lia. Qed.

Lemma gbs_orient_each (P : RL -> Prop) chi n (os prev : list RL) (fs : RL) :
  Forall P os -> Forall P prev -> Forall P (@gbs_orient NumR chi n os prev fs).
Proof.
  revert prev fs; induction os as [|o os IH]; intros [|p prev] [|f fs] Ho Hp; cbn; try constructor.
  - inversion Ho; inversion Hp; subst. match goal with |- P (if ?c then _ else _) => destruct c end; assumption.
  - inversion Ho; inversion Hp; subst. apply IH; assumption.
Qed.

Lemma map_id_on {A} (f : A -> A) (P : A -> Prop) l :
  (forall x, P x -> f x = x) -> Forall P l -> map f l = l.
Proof. intros Hf H; induction H as [|x l Hx Hl IH]; cbn; [reflexivity|]. rewrite Hf, IH by assumption. reflexivity. Qed.

Lemma gbs_fracs_valid chi n (fs : RL) :
  (0 < n)%nat -> 0 <= chi -> Forall nonneg fs -> rsum fs = 1 ->
  Forall nonneg (@gbs_fracs NumR chi n fs) /\ rsum (@gbs_fracs NumR chi n fs) = 1.
Proof.
  intros Hn Hchi Hpos Hsum.
  assert (Ht : 0 <= thr chi n).
  { unfold thr. apply Rmult_le_pos; [exact Hchi|]. left. apply Rinv_0_lt_compat. apply IZR_lt. lia. }
  assert (HS : 1 <= rsum (map (floor1 chi n) fs)) by (rewrite <- Hsum; apply floor_sum_ge).
  split; [|apply gbs_sum_one; lra].
  rewrite gbs_fracs_R. apply Forall_forall. intros x Hx.
  apply in_map_iff in Hx as [z [<- Hz]]. apply in_map_iff in Hz as [w [<- Hw]].
  rewrite Forall_forall in Hpos. specialize (Hpos w Hw). unfold nonneg in *.
  apply Rmult_le_pos; [apply floor1_pos; assumption|]. left. apply Rinv_0_lt_compat. lra.
Qed.

Section Update.
  Variables (n : nat) (chi : R) (prev : @snapshot NumR) (y : RL).
  Hypothesis Hn : (0 < n)%nat.
  Hypothesis Hchi : 0 <= chi.
  Hypothesis Hy : length y = (9 + 10 * n)%nat.
  Hypothesis Hguard : 0 < rsum (clipped_fracs y n).     (* else the code stores NaN *)
  Hypothesis Hprev_n : length (sn_o prev) = n.
  Hypothesis Hprev_ok : Forall grain_ok (sn_o prev).

  Let Fb := @ev_F NumR y.
  Let o := @chunks9 NumR (@ev_o NumR y n) n.
  Let f := @ev_f NumR y n.
  Let o' := @gbs_orient NumR chi n o (sn_o prev) f.
  Let f' := @gbs_fracs NumR chi n f.
  Let y2 := Fb ++ concat o' ++ f'.

  Lemma upd_Fb_len : length Fb = 9%nat.
  Proof. unfold Fb. unfold ev_F. rewrite firstn_length. change (T NumR) with R in *. lia. Qed.

  Lemma upd_o_ok : length o = n /\ Forall grain_ok o.
  Proof.
    unfold o. split; [apply (chunks9_length 0)|].
    pose proof (ev_o_length y n Hy) as Hl.
    pose proof (chunks9_each _ n Hl) as H1.
    pose proof (chunks9_forall in11 _ n (ev_o_range y n)) as H2.
    rewrite Forall_forall in *. intros c Hc. split; [apply H1|apply H2]; exact Hc.
  Qed.

  Lemma upd_f_ok : length f = n /\ Forall nonneg f /\ rsum f = 1.
  Proof.
    unfold f. split; [apply ev_f_length; exact Hy|]. apply ev_f_valid. exact Hguard.
  Qed.

  Lemma upd_o'_ok : length o' = n /\ Forall grain_ok o'.
  Proof.
    destruct upd_o_ok as [Ho1 Ho2]. destruct upd_f_ok as [Hf1 _].
    unfold o'. split.
    - rewrite gbs_orient_length; [exact Ho1 | transitivity n; [exact Ho1 | symmetry; exact Hprev_n]
                                | transitivity n; [exact Ho1 | symmetry; exact Hf1]].
    - apply gbs_orient_each; assumption.
  Qed.

  Lemma upd_f'_ok : length f' = n /\ Forall nonneg f' /\ rsum f' = 1.
  Proof.
    destruct upd_f_ok as [Hf1 [Hf2 Hf3]]. unfold f'. split.
    - rewrite gbs_fracs_length. exact Hf1.
    - apply gbs_fracs_valid; assumption.
  Qed.

  Lemma upd_concat_len : length (concat o') = (9 * n)%nat.
  Proof.
    destruct upd_o'_ok as [H1 H2]. rewrite length_concat9.
    - f_equal. exact H1.
    - eapply Forall_impl; [|exact H2]. intros c [Hc _]. exact Hc.
  Qed.

  Lemma upd_y2_len : length y2 = (9 + 10 * n)%nat.
  Proof.
    unfold y2. rewrite !app_length, upd_Fb_len, upd_concat_len.
    destruct upd_f'_ok as [H _]. replace (length f') with n by (symmetry; exact H). lia.
  Qed.

  Lemma upd_y2_clipped : clipped_fracs y2 n = f'.
  Proof.
    unfold clipped_fracs. unfold y2.
    rewrite parts_f; [| apply upd_Fb_len | apply upd_concat_len | apply upd_f'_ok].
    destruct upd_f'_ok as [_ [H _]].
    eapply map_id_on; [|exact H]. intros x Hx. apply clip0_id. exact Hx.
  Qed.

  (* C06: the returned deformation gradient is the F block of the integrator's vector,
     untouched by clipping, flooring or normalisation (both extract_vars passes) *)
  Theorem update_returns_F_block : fst (@update NumR n chi prev y) = firstn 9 y.
  Proof.
    unfold update. cbn [fst]. fold Fb o f o' f' y2. unfold y2. unfold ev_F at 1.
    rewrite parts_F; [reflexivity | apply upd_Fb_len].
  Qed.

  (* C01: the appended snapshot is a valid texture *)
  Theorem update_valid : valid_snapshot n (snd (@update NumR n chi prev y)).
  Proof.
    unfold update. cbn [snd]. fold Fb o f o' f' y2. unfold valid_snapshot. cbn [sn_o sn_f].
    pose proof upd_y2_len as Hl2.
    assert (Hg2 : 0 < rsum (clipped_fracs y2 n)).
    { rewrite upd_y2_clipped. destruct upd_f'_ok as [_ [_ H]]. rewrite H. lra. }
    destruct (ev_f_valid y2 n Hg2) as [Hv1 Hv2].
    split; [apply (chunks9_length 0)|]. split.
    - pose proof (ev_o_length y2 n Hl2) as Hl.
      pose proof (chunks9_each _ n Hl) as H1.
      pose proof (chunks9_forall in11 _ n (ev_o_range y2 n)) as H2.
      rewrite Forall_forall in *. intros c Hc. split; [apply H1|apply H2]; exact Hc.
    - split; [apply ev_f_length; exact Hl2|]. split; assumption.
  Qed.

  (* C09: the stored snapshot is exactly the GBS result: orientation of a masked grain is
     the start-of-update orientation (the second clip is the identity on it), an unmasked
     grain keeps its integrated (clipped) orientation; volumes are those of apply_gbs *)
  Lemma chunks9_concat (ls : list RL) k : length ls = k -> Forall (fun c => length c = 9%nat) ls ->
    @chunks9 NumR (concat ls) k = ls.
  Proof.
    revert k; induction ls as [|l ls IH]; intros k Hk H; subst k; cbn [length chunks9 concat]; [reflexivity|].
    inversion H as [|? ? Hl Hls]; subst.
    rewrite firstn_app_exact by exact Hl. rewrite skipn_app_exact by exact Hl.
    f_equal. apply IH; [reflexivity|exact Hls].
  Qed.

  Theorem update_stores_gbs :
    sn_o (snd (@update NumR n chi prev y)) = o' /\
    sn_f (snd (@update NumR n chi prev y)) = map (fun x => x / 1) f'.
  Proof.
    unfold update. cbn [snd sn_o sn_f]. fold Fb o f o' f' y2.
    destruct upd_o'_ok as [Ho1 Ho2]. split.
    - unfold ev_o. unfold y2. rewrite parts_O; [| apply upd_Fb_len | apply upd_concat_len].
      rewrite (map_id_on (@clip11 NumR) in11).
      + apply chunks9_concat; [exact Ho1|]. eapply Forall_impl; [|exact Ho2]. intros c [Hc _]; exact Hc.
      + intros x Hx. apply clip11_id. exact Hx.
      + apply Forall_concat. eapply Forall_impl; [|exact Ho2]. intros c [_ Hc]; exact Hc.
    - unfold ev_f. cbv zeta.
      change (map (@clip0 NumR) (firstn n (skipn (9 * n + 9) y2))) with (clipped_fracs y2 n).
      rewrite upd_y2_clipped, nsum_R.
      destruct upd_f'_ok as [_ [_ H]]. rewrite H. reflexivity.
  Qed.
End Update.

(* ---- histories: any sequence of updates --------------------------------------------- *)
Definition hist_inv (n : nat) (h : @history NumR) : Prop :=
  h <> [] /\ Forall (valid_snapshot n) h.

(* what the integrator hands back for one update: a vector of the right length whose clipped
   fraction block has positive sum, or a failure *)
Definition step_ok (n : nat) (ry : res RL) : Prop :=
  match ry with
  | Ok y => length y = (9 + 10 * n)%nat /\ 0 < rsum (clipped_fracs y n)
  | Err _ => True
  end.

Definition step (n : nat) (chi : R) (h : @history NumR) (ry : res RL) : @history NumR :=
  snd (@update_history NumR n chi h ry).

Lemma last_in_valid n (h : @history NumR) : hist_inv n h -> valid_snapshot n (@last_snapshot NumR h).
Proof.
  intros [Hne Hall]. unfold last_snapshot.
  destruct (exists_last Hne) as [h' [s ->]]. rewrite last_last.
  apply Forall_app in Hall as [_ Hs]. inversion Hs; assumption.
Qed.

(* each update appends exactly one snapshot, or (failure) leaves the history untouched *)
Theorem step_appends_one n chi h ry :
  match ry with
  | Ok y => step n chi h ry = h ++ [snd (@update NumR n chi (@last_snapshot NumR h) y)]
  | Err e => step n chi h ry = h /\ fst (@update_history NumR n chi h ry) = Err e
  end.
Proof.
  unfold step, update_history. destruct ry as [y|e]; [|split; reflexivity].
  destruct (@update NumR n chi (@last_snapshot NumR h) y) as [Fb s]. reflexivity.
Qed.

Theorem step_inv n chi h ry :
  (0 < n)%nat -> 0 <= chi -> hist_inv n h -> step_ok n ry -> hist_inv n (step n chi h ry).
Proof.
  intros Hn Hchi Hinv Hok. pose proof (step_appends_one n chi h ry) as Hs.
  destruct ry as [y|e]; [|destruct Hs as [-> _]; exact Hinv].
  rewrite Hs. destruct Hok as [Hy Hg]. pose proof (last_in_valid n h Hinv) as [Hl1 [Hl2 _]].
  destruct Hinv as [Hne Hall]. split.
  - intro Hc. apply app_eq_nil in Hc as [_ Hc]. discriminate Hc.
  - apply Forall_app. split; [exact Hall|]. constructor; [|constructor].
    apply update_valid; assumption.
Qed.

Definition run (n : nat) (chi : R) (h : @history NumR) (rys : list (res RL)) : @history NumR :=
  fold_left (step n chi) rys h.

(* C01: every stored snapshot of every reachable history is a valid texture *)
Theorem history_inv n chi rys : forall h,
  (0 < n)%nat -> 0 <= chi -> hist_inv n h -> Forall (step_ok n) rys -> hist_inv n (run n chi h rys).
Proof.
  induction rys as [|ry rys IH]; intros h Hn Hchi Hinv Hok; cbn [run fold_left]; [exact Hinv|].
  inversion Hok; subst. apply IH; try assumption. apply step_inv; assumption.
Qed.

(* C01: earlier snapshots are never altered, the history only grows *)
Theorem history_prefix n chi rys : forall h,
  firstn (length h) (run n chi h rys) = h /\ (length h <= length (run n chi h rys))%nat.
Proof.
  induction rys as [|ry rys IH]; intros h; cbn [run fold_left].
  - split; [apply firstn_all|lia].
  - destruct (IH (step n chi h ry)) as [IH1 IH2]. fold (run n chi (step n chi h ry) rys) in *.
    pose proof (step_appends_one n chi h ry) as Hs.
    destruct ry as [y|e].
    + rewrite Hs in *. set (X := run n chi _ rys) in *. set (s1 := snd _) in *.
      split; [|rewrite app_length in IH2; cbn [length] in IH2; lia].
      assert (H : firstn (length h) X = firstn (length h) (firstn (length (h ++ [s1])) X)).
      { rewrite firstn_firstn. f_equal. rewrite app_length. cbn [length]. lia. }
      rewrite H, IH1. apply firstn_app_exact. reflexivity.
    + destruct Hs as [Hs _]. rewrite Hs in *. split; assumption.
Qed.

(* C01: the initial snapshot of a mineral: uniform volumes 1/n and any orientations with
   entries in [-1,1] *)
Lemma rsum_repeat x k : rsum (repeat x k) = INR k * x.
Proof.
  induction k as [|k IH]; [cbn; ring|]. rewrite S_INR. cbn [repeat]. unfold rsum in *. cbn [fold_right].
  rewrite IH. ring.
Qed.

Theorem init_valid n (os : list RL) : (0 < n)%nat -> length os = n -> Forall grain_ok os ->
  valid_snapshot n (@Build_snapshot NumR os (repeat (1 / INR n) n)).
Proof.
  intros Hn Hl Hok. unfold valid_snapshot; cbn [sn_o sn_f].
  assert (Hpos : 0 < INR n) by (apply lt_0_INR; exact Hn).
  repeat split; try assumption.
  - apply repeat_length.
  - apply Forall_forall. intros x Hx. apply repeat_spec in Hx. subst x. unfold nonneg.
    apply Rmult_le_pos; [lra|]. left. apply Rinv_0_lt_compat. exact Hpos.
  - rewrite rsum_repeat. field. lra.
Qed.

Lemma C09_nonvacuous_proof : (0 < 2)%nat /\ 0 <= 0.3 /\ rsum [0.9; 0.1] = 1 /\ Rltb 0.1 (thr 0.3 2) = true.
Proof.
  repeat split; try lia; try lra.
  - unfold rsum; cbn; lra.
  - apply Rltb_true. unfold thr. cbn. lra.
Qed.

Lemma C01_nonvacuous_proof :
  let y := [1;0;0; 0;1;0; 0;0;1;  1;0;0; 0;1;0; 0;0;1;  0;1;0; -1;0;0; 0;0;1;  0.25; 0.75] in
  length y = (9 + 10 * 2)%nat /\ 0 < rsum (clipped_fracs y 2).
Proof.
  cbv zeta. split; [reflexivity|].
  unfold clipped_fracs. cbn [Nat.mul Nat.add skipn firstn map].
  rewrite !clip0_id by lra. unfold rsum; cbn [fold_right]. lra.
Qed.
