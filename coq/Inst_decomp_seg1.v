(* Inst_decomp_seg1.v -- iteration 1 of the pairing loop of elasticity_components, as regenerated from the
   source (Gen_decomp.k_ec_sccs_col_1: every path of `if angle_eigvects < angle`, `dot_eigvects != 0`,
   np.sign, `int(abs(index_vij))`, the averaging and the normalisation), equals Model_decomp.sccs_col .. 1. *)
From Coq Require Import Reals ZArith List Bool Lra Lia.
From PV Require Import Num NumR Model_voigt Model_decomp Inst_decomp_base.
From PV.gen Require Import Gen_tensors Gen_decomp.
Import ListNotations.
Open Scope R_scope.

Theorem sccs_col_inst_1 : sccs_stmt (@k_ec_sccs_col_1 NumR) 1.
Proof. sccs_tac (@k_ec_sccs_col_1). Qed.
