(* Model_decomp.v -- hand-written executable models of the LAPACK-dependent glue:
   (1) pydrex.tensors.polar_decompose over an SVD oracle (U, S, Vh);
   (2) pydrex.diagnostics.elasticity_components over two eigh oracles (eigenvector
       matrices of the dilatational and deviatoric stiffness tensors).
   All tensor kernels used are the *generated* ones of Gen_tensors.  No proofs here. *)
From Coq Require Import ZArith List Bool Arith.
From PV Require Import Num Model_voigt.
From PV.gen Require Import Gen_tensors.
Import ListNotations.
Local Open Scope num_scope.

Section Polar.
  Context {F : Num}.

  Definition diag3 (s : arr F) : arr F :=
    mk_arr zero [s 0%nat; zero; zero; zero; s 1%nat; zero; zero; zero; s 2%nat].

  (* left=True:   return U @ Vh, U @ (np.diag(S) @ U.transpose()) *)
  Definition polar_left (U S Vh : arr F) : arr F * arr F :=
    (matmul3 U Vh, matmul3 U (matmul3 (diag3 S) (transpose3 U))).

  Definition det3 (m : arr F) : F :=
    m 0%nat * (m 4%nat * m 8%nat - m 5%nat * m 7%nat)
    - m 1%nat * (m 3%nat * m 8%nat - m 5%nat * m 6%nat)
    + m 2%nat * (m 3%nat * m 7%nat - m 4%nat * m 6%nat).

  (* np.linalg.inv: raises LinAlgError (a ValueError) on an exactly singular matrix; adjugate / det *)
  Definition inv3 (m : arr F) : res (arr F) :=
    let d := det3 m in
    if eqb d zero then Err ValueError else
    Ok (mk_arr zero
      [(m 4%nat * m 8%nat - m 5%nat * m 7%nat) / d; (m 2%nat * m 7%nat - m 1%nat * m 8%nat) / d;
       (m 1%nat * m 5%nat - m 2%nat * m 4%nat) / d;
       (m 5%nat * m 6%nat - m 3%nat * m 8%nat) / d; (m 0%nat * m 8%nat - m 2%nat * m 6%nat) / d;
       (m 2%nat * m 3%nat - m 0%nat * m 5%nat) / d;
       (m 3%nat * m 7%nat - m 4%nat * m 6%nat) / d; (m 1%nat * m 6%nat - m 0%nat * m 7%nat) / d;
       (m 0%nat * m 4%nat - m 1%nat * m 3%nat) / d]).

  (* left=False:  U_matrix = Vh.T @ (np.diag(S) @ Vh);  return matrix @ inv(U_matrix), U_matrix *)
  Definition polar_right (M S Vh : arr F) : res (arr F * arr F) :=
    let Um := matmul3 (transpose3 Vh) (matmul3 (diag3 S) Vh) in
    match inv3 Um with
    | Err e => Err e
    | Ok Ui => Ok (matmul3 M Ui, Um)
    end.

  (* the repaired right variant (fixes/C11-polar-right-singular.patch):
     return U @ Vh, Vh.transpose() @ (np.diag(S) @ Vh) -- never raises *)
  Definition polar_right_repaired (U S Vh : arr F) : arr F * arr F :=
    (matmul3 U Vh, matmul3 (transpose3 Vh) (matmul3 (diag3 S) Vh)).
End Polar.

(* ---------------------------------------------------------------------- *)
(* pydrex.diagnostics.elasticity_components for ONE Voigt matrix, over the *)
(* two eigh oracles (columns of Ed / Ev = eigenvectors of d_ij / v_ij).    *)
(* ---------------------------------------------------------------------- *)
Section Decomp.
  Context {F : Num}.

  Definition tab21 (f : nat -> F) : arr F := mk_arr zero (map f (seq 0 21)).
  Definition vsub21 (a b : arr F) : arr F := tab21 (fun k => a k - b k).
  (* la.norm of a 21-vector *)
  Definition norm21 (a : arr F) : F :=
    nsqrt (fold_left (fun s k => s + a k * a k) (seq 0 21) zero).
  Definition col (E : arr F) (j : nat) : arr F := mk_arr zero [E j; E (3 + j)%nat; E (6 + j)%nat].
  Definition dot3 (a b : arr F) : F := a 0%nat * b 0%nat + a 1%nat * b 1%nat + a 2%nat * b 2%nat.
  Definition norm3 (a : arr F) : F := nsqrt (dot3 a a).
  Definition ofnat (n : nat) : F := ofZ (Z.of_nat n).

  Definition trace3 (a : arr F) : F := a 0%nat + a 4%nat + a 8%nat.
  Definition bulk_shear (vm : arr F) : F * F :=
    let '(d, v) := k_voigt_decompose vm in
    let K := trace3 d / ofZ 9 in
    let G := (trace3 v - ofZ 3 * K) / ofZ 10 in (K, G).

  Definition iso_vector (K G : F) : arr F :=
    let a := K + ofZ 4 * G / ofZ 3 in
    let b := nsqrt (ofZ 2) * (K - ofZ 2 * G / ofZ 3) in
    let c := ofZ 2 * G in
    mk_arr zero [a; a; a; b; b; b; c; c; c; zero; zero; zero; zero; zero; zero; zero; zero; zero; zero; zero; zero].

  (* smallest_angle (degrees, in [0, 90]) between unit-ish vectors *)
  Definition clip1 (x : F) : F := if ltb x (opp one) then opp one else if ltb one x then one else x.
  Definition smallest_angle (v a : arr F) : F :=
    let ang := nacos (clip1 (dot3 v a / (norm3 v * norm3 a))) * (ofZ 180 / npi) in
    if ltb (ofZ 90) ang then ofZ 180 - ang else ang.

  (* inner loop over j = 0,1,2: state (angle, column, signed index as a float) *)
  Definition pair_step (Ed Ev : arr F) (i : nat) (st : F * nat * F) (j : nat) : F * nat * F :=
    let '(angle, jc, w) := st in
    let dot := dot3 (col Ed i) (col Ev j) in
    let a := smallest_angle (col Ed i) (col Ev j) in
    if ltb a angle then
      let w' := if eqb dot zero then ofnat j
                else (if ltb zero dot then one else opp one) * ofnat j in
      (a, j, w')
    else st.

  Definition sccs_col (Ed Ev : arr F) (i : nat) : arr F :=
    let '(_, jc, w) := fold_left (pair_step Ed Ev i) [0; 1; 2]%nat (ofZ 10, 0%nat, zero) in
    (* int(abs(index_vij)) = jc *)
    let d := col Ed i in let v := col Ev jc in
    let u := mk_arr zero [(d 0%nat + w * v 0%nat) / ofZ 2; (d 1%nat + w * v 1%nat) / ofZ 2;
                          (d 2%nat + w * v 2%nat) / ofZ 2] in
    let n := norm3 u in
    mk_arr zero [u 0%nat / n; u 1%nat / n; u 2%nat / n].

  (* unpermuted_SCCS[:, i] = sccs_col i;  permuted[:, j] = unpermuted[:, (i+j) mod 3];
     the rotation passed to `rotate` is permuted.transpose(): row j = column (i+j) mod 3 *)
  Definition sccs_rotation (Ed Ev : arr F) (i : nat) : arr F :=
    let c0 := sccs_col Ed Ev (i mod 3) in
    let c1 := sccs_col Ed Ev ((i + 1) mod 3) in
    let c2 := sccs_col Ed Ev ((i + 2) mod 3) in
    mk_arr zero [c0 0%nat; c0 1%nat; c0 2%nat; c1 0%nat; c1 1%nat; c1 2%nat; c2 0%nat; c2 1%nat; c2 2%nat].

  (* the five norms of one candidate frame + distance to the hexagonal projection *)
  Definition frame_parts (vm iso : arr F) (Rt : arr F) : res (F * (F * F * F * F * F)) :=
    let rv := k_voigt_matrix_to_vector
                (k_elastic_tensor_to_voigt (rotate4 (k_voigt_to_elastic_tensor vm) Rt)) in
    let mono := k_mono_project rv in
    let ortho := k_ortho_project mono in
    let tetr := k_tetr_project ortho in
    match k_hex_project tetr with
    | Err e => Err e
    | Ok hex =>
        Ok (norm21 (vsub21 rv hex),
            (norm21 (vsub21 rv mono), norm21 (vsub21 mono ortho), norm21 (vsub21 ortho tetr),
             norm21 (vsub21 tetr hex), norm21 (vsub21 hex iso)))
    end.

  (* returns [K; G; aniso; hex; tetr; ortho; mono; tric; axis(3)];
     Err NonFinite when no candidate frame beats the initial distance (outputs stay np.empty) *)
  Definition elasticity_components1 (M Ed Ev : arr F) : res (list F) :=
    let vm := k_upper_tri_to_symmetric_6 M in
    let '(K, G) := bulk_shear vm in
    let iso := iso_vector K G in
    let x := k_voigt_matrix_to_vector vm in
    let nx := norm21 x in
    let aniso := norm21 (vsub21 x iso) / nx * ofZ 100 in
    let step (st : res (F * option (list F))) (i : nat) : res (F * option (list F)) :=
      match st with
      | Err e => Err e
      | Ok (dist, best) =>
          let Rt := sccs_rotation Ed Ev i in
          match frame_parts vm iso Rt with
          | Err e => Err e
          | Ok (delta, (tric, mono, ortho, tetr, hex)) =>
              if ltb delta dist then
                let pc := ofZ 100 / nx in
                Ok (delta, Some [hex * pc; tetr * pc; ortho * pc; mono * pc; tric * pc;
                                 Rt 6%nat; Rt 7%nat; Rt 8%nat])
              else Ok (dist, best)
          end
      end in
    match fold_left step [0; 1; 2]%nat (Ok (nx, None)) with
    | Err e => Err e
    | Ok (_, None) => Err NonFinite
    | Ok (_, Some l) => Ok (K :: G :: aniso :: l)
    end.
End Decomp.
