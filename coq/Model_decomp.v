(* Model_decomp.v -- hand-written executable models of the LAPACK-dependent glue:
   (1) pydrex.tensors.polar_decompose over an SVD oracle (U, S, Vh);
   (2) pydrex.diagnostics.elasticity_components over two eigh oracles (eigenvector
       matrices of the dilatational and deviatoric stiffness tensors).
   All tensor kernels used are the *generated* ones of Gen_tensors.  No proofs here. *)
From Coq Require Import ZArith List Bool Arith.
From PV Require Import Num Model_voigt.
From PV.gen Require Import Gen_tensors.
Import ListNotations.
Local Open Scope num_scope.

Section Polar.
  Context {F : Num}.

  Definition diag3 (s : arr F) : arr F :=
    mk_arr zero [s 0%nat; zero; zero; zero; s 1%nat; zero; zero; zero; s 2%nat].

  (* left=True:   return U @ Vh, U @ (np.diag(S) @ U.transpose()) *)
  Definition polar_left (U S Vh : arr F) : arr F * arr F :=
    (matmul3 U Vh, matmul3 U (matmul3 (diag3 S) (transpose3 U))).

  Definition det3 (m : arr F) : F :=
    m 0%nat * (m 4%nat * m 8%nat - m 5%nat * m 7%nat)
    - m 1%nat * (m 3%nat * m 8%nat - m 5%nat * m 6%nat)
    + m 2%nat * (m 3%nat * m 7%nat - m 4%nat * m 6%nat).

  (* np.linalg.inv: raises LinAlgError on an exactly singular matrix; adjugate / det *)
  Definition inv3 (m : arr F) : res (arr F) :=
    let d := det3 m in
    if eqb d zero then Err OtherError else
    Ok (mk_arr zero
      [(m 4%nat * m 8%nat - m 5%nat * m 7%nat) / d; (m 2%nat * m 7%nat - m 1%nat * m 8%nat) / d;
       (m 1%nat * m 5%nat - m 2%nat * m 4%nat) / d;
       (m 5%nat * m 6%nat - m 3%nat * m 8%nat) / d; (m 0%nat * m 8%nat - m 2%nat * m 6%nat) / d;
       (m 2%nat * m 3%nat - m 0%nat * m 5%nat) / d;
       (m 3%nat * m 7%nat - m 4%nat * m 6%nat) / d; (m 1%nat * m 6%nat - m 0%nat * m 7%nat) / d;
       (m 0%nat * m 4%nat - m 1%nat * m 3%nat) / d]).

  (* left=False:  U_matrix = Vh.T @ (np.diag(S) @ Vh);  return matrix @ inv(U_matrix), U_matrix *)
  Definition polar_right (M S Vh : arr F) : res (arr F * arr F) :=
    let Um := matmul3 (transpose3 Vh) (matmul3 (diag3 S) Vh) in
    match inv3 Um with
    | Err e => Err e
    | Ok Ui => Ok (matmul3 M Ui, Um)
    end.
End Polar.
