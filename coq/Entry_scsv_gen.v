(* Entry_scsv_gen.v -- entry points of the case files for the GENERATED functions (coq/gen/Gen_scsv.v, tie T).
   Kept apart from Entry_scsv.v so that the correspondence of the hand-written parts still runs when the
   translator fails closed.  No proofs. *)
From Coq Require Import String Ascii List ZArith Bool NArith.
From PV Require Import Model_scsv Model_scsv_frame Model_scsv_header Model_scsv_py Gen_scsv Entry_scsv.
Import ListNotations.
Open Scope string_scope.

(* ---- the generated functions (coq/gen/Gen_scsv.v) run directly on Python values given as pyval terms: the
   primitives of Model_scsv_py.v against the real builtins, also outside the typed model (a delimiter that is not
   a string, fields that are not dictionaries ...).  EUnmodelled = the primitives give no answer. *)
Definition show_pyres (r : res pyval) : string :=
  match r with
  | Err e => "ERR " ++ show_err e
  | Ok v => match abs_cell v with
            | Some c => "OK " ++ show_cell c
            | None => match v with PNone => "OK N" | _ => "OK ?" end
            end
  end.
Definition run_gen_validate (t : tables) (p : pyval) : string :=
  "G:" ++ show_pyres (gen__validate_scsv_schema (oracles_of t) p).
Definition run_gen_cell (t : tables) (f data missing fill : pyval) : string :=
  "G:" ++ show_pyres (gen__parse_scsv_cell (oracles_of t) f data missing fill).
Definition run_gen_bool (t : tables) (x : pyval) : string :=
  "G:" ++ show_pyres (gen__parse_scsv_bool (oracles_of t) x).
(* parse_scsv_schema: the dictionary the generated parser returns, shown through the schema it stands for, plus
   the 'unit' entries the typed schema does not record *)
Definition show_units (p : pyval) : string :=
  match p with
  | PDict kv => match dget kv "fields" with
                | Some (PList l) =>
                    join ";" (map (fun f => match f with
                                            | PDict fk => match dget fk "unit" with Some (PStr u) => "S" ++ hex u | _ => "-" end
                                            | _ => "?" end) l)
                | _ => "?"
                end
  | _ => "?"
  end.
Definition run_gen_terse (t : tables) (x : string) : string :=
  match gen_parse_scsv_schema (oracles_of t) (PStr x) with
  | Err e => "T:ERR " ++ show_err e
  | Ok p => match abs_schema p with
            | Some s => "T:OK " ++ show_schema s ++ "#U:" ++ show_units p
            | None => "T:OK ?"
            end
  end.

(* hand-written model and generated parser side by side *)
Definition run_terse2 (t : tables) (x : string) : string := run_terse x ++ "#" ++ run_gen_terse t x.
