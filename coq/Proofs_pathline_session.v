(* Proofs_pathline_session.v -- lemmas about Model_pathline_session: a sequence of get_pathline
   calls in one process.
   * the current source (no module-level store): the k-th result of ANY call history is
     get_pathline of the k-th request alone -- the batch is the map of the single call, the
     result of a call does not depend on earlier calls nor on what the module-level store
     contained, and the store is never written;
   * a memoizing get_pathline is indistinguishable from that exactly when its key determines
     what solve_ivp returns (`key a = key b -> solve a = solve b`);
   * with a key that identifies two requests with different solutions (e.g. id() of callables
     that have been garbage collected and whose addresses are reused) there is a two-call
     history whose second result is the pathline of the FIRST request: refuted. *)
From Coq Require Import Reals ZArith List Bool Lra Lia.
From PV Require Import Num NumR Model_pathlines Model_pathline_session.
Import ListNotations.

Section Any.
  Context {F : Num}.
  Variable Sol K : Type.
  Variable keq : K -> K -> bool.
  Variable solve : @sargs F -> res (@solution F Sol).

  Notation gp := (@get_pathline F Sol solve).
  Notation sess := (@session F Sol K keq solve).
  Notation sstore := (@session_store F Sol K keq solve).
  Notation look := (@lookup F Sol K keq).

  (* --- the current source ---------------------------------------------------------- *)
  Lemma session_is_map_proof (c : store Sol K) (rs : list request) :
    sess (NoMemo K) c rs = map gp rs.
  Proof.
    revert c; induction rs as [|r rs IH]; intros c; [reflexivity|].
    cbn [session call map]. rewrite IH. reflexivity.
  Qed.

  Lemma session_store_untouched_proof (c : store Sol K) (rs : list request) :
    sstore (NoMemo K) c rs = c.
  Proof.
    revert c; induction rs as [|r rs IH]; intros c; [reflexivity|].
    cbn [session_store call fst]. apply IH.
  Qed.

  (* the result of a call does not depend on the calls made before it, on the calls made after
     it, nor on the initial content of the store *)
  Lemma session_history_independent_proof (c1 c2 : store Sol K) (h1 h2 t1 t2 : list request)
        (r : request) (d : res (pathline Sol)) :
    nth (length h1) (sess (NoMemo K) c1 (h1 ++ r :: t1)) d = gp r /\
    nth (length h1) (sess (NoMemo K) c1 (h1 ++ r :: t1)) d
    = nth (length h2) (sess (NoMemo K) c2 (h2 ++ r :: t2)) d.
  Proof.
    assert (E : forall c h t, nth (length h) (sess (NoMemo K) c (h ++ r :: t)) d = gp r).
    { intros c h t. rewrite session_is_map_proof, map_app. cbn [map].
      rewrite app_nth2; rewrite map_length; [|lia]. rewrite Nat.sub_diag. reflexivity. }
    split; [apply E|]. rewrite !E. reflexivity.
  Qed.

  (* --- a memoizing variant ----------------------------------------------------------- *)
  Section Memo.
    Variable key : @sargs F -> K.
    Hypothesis keq_spec : forall a b, keq a b = true <-> a = b.

    (* every stored solution is what solve_ivp returns for every request with that key *)
    Definition consistent (c : store Sol K) : Prop :=
      forall a s, look (key a) c = Some s -> solve a = Ok s.

    Lemma consistent_nil : consistent [].
    Proof. intros a s H. discriminate H. Qed.

    Lemma memo_sound_proof :
      (forall a b, key a = key b -> solve a = solve b) ->
      forall (rs : list request) (c : store Sol K), consistent c ->
      sess (Memo K key) c rs = map gp rs.
    Proof.
      intros Hk rs. induction rs as [|r rs IH]; intros c Hc; [reflexivity|].
      cbn [session call map]. unfold get_pathline at 1.
      destruct (look (key (fst r)) c) as [s|] eqn:El.
      - rewrite (Hc _ _ El). rewrite (IH c Hc). reflexivity.
      - destruct (solve (fst r)) as [s|e] eqn:Es.
        + rewrite IH; [reflexivity|].
          intros a s' H. cbn [lookup] in H. destruct (keq (key a) (key (fst r))) eqn:Ek.
          * injection H as <-. apply keq_spec in Ek. rewrite (Hk _ _ Ek). exact Es.
          * apply Hc; exact H.
        + rewrite (IH c Hc). reflexivity.
    Qed.

    (* two requests with the same key but different pathlines: the second call of the history
       [r1; r2] returns the pathline of r1 *)
    Lemma memo_stale_proof (a1 a2 : sargs) (st1 st2 : option nat) (s1 : solution Sol) (d : res (pathline Sol)) :
      key a1 = key a2 -> solve a1 = Ok s1 ->
      gp (a2, st2) <> Ok (post Sol s1 st2) ->
      nth 1 (sess (Memo K key) [] [(a1, st1); (a2, st2)]) d = Ok (post Sol s1 st2) /\
      nth 1 (sess (Memo K key) [] [(a1, st1); (a2, st2)]) d <> gp (a2, st2) /\
      nth 1 (sess (NoMemo K) [] [(a1, st1); (a2, st2)]) d = gp (a2, st2).
    Proof.
      intros Hk Hs Hne.
      assert (E : nth 1 (sess (Memo K key) [] [(a1, st1); (a2, st2)]) d = Ok (post Sol s1 st2)).
      { cbn [session call lookup fst snd]. rewrite Hs. cbn [session call lookup fst snd].
        rewrite <- Hk. replace (keq (key a1) (key a1)) with true by (symmetry; apply keq_spec; reflexivity).
        reflexivity. }
      split; [exact E|]. split; [rewrite E; intros H; apply Hne; symmetry; exact H|].
      rewrite session_is_map_proof. reflexivity.
    Qed.
  End Memo.
End Any.

(* ------------------------------------------------------------------------- *)
(* non-vacuity: a concrete solver over R, a key that forgets the flow parameters *)
(* ------------------------------------------------------------------------- *)
Open Scope R_scope.

(* a toy solve_ivp: the pathline of a flow with speed `hd params` is traversed in time
   max_strain / speed;  times [0; -T] *)
Definition toy_solve (a : @sargs NumR) : res (@solution NumR unit) :=
  Ok ([0; - (sa_strain a / hd 1 (sa_params a))], tt).
Definition toy_args (speed : R) : @sargs NumR := @mk_sargs NumR 2 0 2 [speed] [1; 0; -1] [0; 0; -2] [2; 0; 0] 1.
(* the key of a memo that identifies the callables by something that does not determine the
   flow parameters (an address that is reused) *)
Definition toy_key (a : @sargs NumR) : Z := sa_flow a.
(* a key that determines the solution *)
Definition toy_solve_flow (a : @sargs NumR) : res (@solution NumR unit) :=
  Ok ([0; - IZR (sa_flow a) - 1], tt).

Lemma session_hypotheses_satisfiable :
  (* the stale-memo hypotheses *)
  (toy_key (toy_args 1) = toy_key (toy_args 2) /\
   toy_solve (toy_args 1) = Ok ([0; -1], tt) /\
   @get_pathline NumR unit toy_solve (toy_args 2, None) <> Ok (@post NumR unit ([0; -1], tt) None)) /\
  (* the sound-memo hypotheses *)
  ((forall a b, Z.eqb a b = true <-> a = b) /\
   (forall a b, toy_key a = toy_key b -> toy_solve_flow a = toy_solve_flow b)).
Proof.
  split; [split; [reflexivity|split]|split].
  - unfold toy_solve, toy_args; cbn [sa_strain sa_params hd]. numR. replace (1 / 1) with 1 by field. reflexivity.
  - unfold get_pathline, toy_solve, toy_args, post, timestamps; cbn [fst snd sa_strain sa_params hd rev app].
    intros H. injection H as H. revert H. numR. lra.
  - intros a b. apply Z.eqb_eq.
  - intros a b H. unfold toy_solve_flow, toy_key in *. rewrite H. reflexivity.
Qed.
