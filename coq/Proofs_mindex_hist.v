(* Proofs_mindex_hist.v -- the binning of the observed misorientation angles
   (np.histogram(data, bins = n, range = (0, n), density = True), Model_mindex.hist_density):
   unit bins [k, k+1), the LAST one closed [n-1, n].  Every angle of [0, n] -- the maximal
   admissible angle n itself included -- is counted exactly once, angles outside are not
   counted, and the density has mass 1 as soon as one angle lies in [0, n]. *)
From Coq Require Import Reals ZArith List Bool Lra Lia.
From PV Require Import Num NumR Model_mindex Proofs_mindex.
Import ListNotations.
Open Scope R_scope.

Definition edgeR (k : nat) : R := IZR (Z.of_nat k).
Definition in_range (n : nat) (x : R) : bool := Rleb 0 x && Rleb x (edgeR n).
Definition ind (n k : nat) (x : R) : Z := if @in_bin NumR n k x then 1%Z else 0%Z.

Lemma edgeR_S k : edgeR (S k) = edgeR k + 1.
Proof. unfold edgeR. rewrite Nat2Z.inj_succ, succ_IZR. reflexivity. Qed.
Lemma edgeR_nonneg k : 0 <= edgeR k.
Proof. unfold edgeR. apply (IZR_le 0). lia. Qed.
Lemma edgeR_le j k : (j <= k)%nat -> edgeR j <= edgeR k.
Proof. intros H. unfold edgeR. apply IZR_le. lia. Qed.

Lemma in_bin_spec n k x :
  @in_bin NumR n k x = true <->
  edgeR k <= x /\ (if Nat.eqb (S k) n then x <= edgeR (S k) else x < edgeR (S k)).
Proof.
  unfold in_bin; numR. fold (edgeR k) (edgeR (S k)). rewrite andb_true_iff, Rleb_true.
  destruct (Nat.eqb (S k) n); [rewrite Rleb_true|rewrite Rltb_true]; tauto.
Qed.

(* the maximal angle is in the last bin *)
Lemma in_bin_last n : (0 < n)%nat -> @in_bin NumR n (n - 1) (edgeR n) = true.
Proof.
  intros Hn. apply in_bin_spec. replace (S (n - 1)) with n by lia. rewrite Nat.eqb_refl.
  split; [apply edgeR_le; lia|lra].
Qed.

(* bins are disjoint *)
Lemma in_bin_unique n k k' x : (k < n)%nat -> (k' < n)%nat ->
  @in_bin NumR n k x = true -> @in_bin NumR n k' x = true -> k = k'.
Proof.
  intros Hk Hk' H H'. apply in_bin_spec in H as [A B]. apply in_bin_spec in H' as [A' B'].
  destruct (Nat.lt_total k k') as [L|[E|L]]; [exfalso| exact E |exfalso].
  - assert (E: edgeR (S k) <= edgeR k') by (apply edgeR_le; lia).
    revert B. destruct (Nat.eqb (S k) n) eqn:Ek; intros B; [apply Nat.eqb_eq in Ek; lia|lra].
  - assert (E: edgeR (S k') <= edgeR k) by (apply edgeR_le; lia).
    revert B'. destruct (Nat.eqb (S k') n) eqn:Ek; intros B'; [apply Nat.eqb_eq in Ek; lia|lra].
Qed.

Lemma zsum_cons a l : zsum (a :: l) = (a + zsum l)%Z.
Proof. reflexivity. Qed.
Lemma zsum_app l1 l2 : zsum (l1 ++ l2) = (zsum l1 + zsum l2)%Z.
Proof.
  unfold zsum. induction l1 as [|a l IH]; cbn [app fold_right]; [reflexivity|]. rewrite IH. lia.
Qed.

(* the bins 0 .. m-1 (m < n: all half open) contain x exactly when 0 <= x < m *)
Lemma ind_prefix n m x : (m < n)%nat -> 0 <= x ->
  zsum (map (fun k => ind n k x) (seq 0 m)) = if Rlt_dec x (edgeR m) then 1%Z else 0%Z.
Proof.
  intros Hm Hx. induction m as [|m IH].
  - cbn. destruct (Rlt_dec x (edgeR 0)) as [H|H]; [|reflexivity]. unfold edgeR in H. cbn in H. lra.
  - rewrite seq_S, map_app, zsum_app, IH by lia. cbn [map zsum fold_right Nat.add]. rewrite Z.add_0_r.
    unfold ind. destruct (@in_bin NumR n m x) eqn:E.
    + apply in_bin_spec in E as [A B]. replace (Nat.eqb (S m) n) with false in B by (symmetry; apply Nat.eqb_neq; lia).
      destruct (Rlt_dec x (edgeR m)); [lra|]. destruct (Rlt_dec x (edgeR (S m))); [reflexivity|lra].
    + destruct (Rlt_dec x (edgeR m)) as [L|L].
      * pose proof (edgeR_S m). destruct (Rlt_dec x (edgeR (S m))); [reflexivity|lra].
      * destruct (Rlt_dec x (edgeR (S m))) as [L'|L']; [|reflexivity]. exfalso.
        assert (T: @in_bin NumR n m x = true).
        { apply in_bin_spec. replace (Nat.eqb (S m) n) with false by (symmetry; apply Nat.eqb_neq; lia). lra. }
        congruence.
Qed.

(* over all n bins: exactly one bin for x in [0, n], none otherwise *)
Lemma ind_total n x : (0 < n)%nat ->
  zsum (map (fun k => ind n k x) (seq 0 n)) = if in_range n x then 1%Z else 0%Z.
Proof.
  intros Hn. destruct n as [|m]; [lia|]. unfold in_range.
  destruct (Rleb 0 x) eqn:H0; cbn [andb].
  - apply Rleb_true in H0.
    rewrite seq_S, map_app, zsum_app, ind_prefix by (lia || assumption).
    cbn [map zsum fold_right Nat.add]. rewrite Z.add_0_r. unfold ind.
    pose proof (edgeR_S m) as ES.
    destruct (@in_bin NumR (S m) m x) eqn:E.
    + apply in_bin_spec in E as [A B]. rewrite Nat.eqb_refl in B.
      destruct (Rlt_dec x (edgeR m)); [lra|].
      replace (Rleb x (edgeR (S m))) with true by (symmetry; apply Rleb_true; assumption). reflexivity.
    + destruct (Rlt_dec x (edgeR m)) as [L|L].
      * replace (Rleb x (edgeR (S m))) with true by (symmetry; apply Rleb_true; lra). reflexivity.
      * destruct (Rleb x (edgeR (S m))) eqn:E'; [|reflexivity]. exfalso. apply Rleb_true in E'.
        assert (T: @in_bin NumR (S m) m x = true) by (apply in_bin_spec; rewrite Nat.eqb_refl; lra).
        congruence.
  - apply Rleb_false in H0.
    assert (Z0: forall l, zsum (map (fun k => ind (S m) k x) l) = 0%Z).
    { induction l as [|k l IH]; [reflexivity|]. cbn [map]. rewrite zsum_cons, IH. unfold ind. destruct (@in_bin NumR (S m) k x) eqn:E; [|reflexivity].
      apply in_bin_spec in E as [A _]. pose proof (edgeR_nonneg k). lra. }
    apply Z0.
Qed.

Lemma count_bin_cons n k x xs : @count_bin NumR n k (x :: xs) = (ind n k x + @count_bin NumR n k xs)%Z.
Proof. unfold count_bin, ind. cbn [filter]. destruct (@in_bin NumR n k x); cbn [length]; lia. Qed.

Lemma zsum_map_add {X} (f g : X -> Z) l :
  zsum (map (fun k => (f k + g k)%Z) l) = (zsum (map f l) + zsum (map g l))%Z.
Proof.
  induction l as [|a l IH]; [reflexivity|]. cbn [map]. rewrite !zsum_cons, IH. lia.
Qed.

(* the total count is the number of angles in [0, n]: each is counted once, the others never *)
Theorem hist_counts_total n (xs : list R) : (0 < n)%nat ->
  zsum (@hist_counts NumR n xs) = Z.of_nat (length (filter (in_range n) xs)).
Proof.
  intros Hn. unfold hist_counts. induction xs as [|x xs IH].
  - cbn [filter length]. induction (seq 0 n) as [|k l IHl]; [reflexivity|].
    cbn [map]. rewrite zsum_cons, IHl. reflexivity.
  - assert (E: map (fun k => @count_bin NumR n k (x :: xs)) (seq 0 n)
             = map (fun k => (ind n k x + @count_bin NumR n k xs)%Z) (seq 0 n)).
    { apply map_ext. intros k. apply count_bin_cons. }
    rewrite E, zsum_map_add, IH, ind_total by assumption. cbn [filter].
    destruct (in_range n x); cbn [length]; lia.
Qed.

Corollary hist_counts_all_in_range n (xs : list R) : (0 < n)%nat ->
  Forall (fun x => 0 <= x <= edgeR n) xs -> zsum (@hist_counts NumR n xs) = Z.of_nat (length xs).
Proof.
  intros Hn H. rewrite hist_counts_total by assumption. f_equal. f_equal.
  induction H as [|x xs [A B] _ IH]; [reflexivity|]. cbn [filter]. unfold in_range at 1.
  replace (Rleb 0 x) with true by (symmetry; now apply Rleb_true).
  replace (Rleb x (edgeR n)) with true by (symmetry; now apply Rleb_true). cbn [andb]. now rewrite IH.
Qed.

(* every angle of [0, n] has its bin, and only one *)
Theorem every_angle_has_one_bin n x : (0 < n)%nat -> 0 <= x <= edgeR n ->
  exists k, (k < n)%nat /\ @in_bin NumR n k x = true /\
            forall k', (k' < n)%nat -> @in_bin NumR n k' x = true -> k' = k.
Proof.
  intros Hn [A B].
  assert (T: zsum (map (fun k => ind n k x) (seq 0 n)) = 1%Z).
  { rewrite ind_total by assumption. unfold in_range.
    replace (Rleb 0 x) with true by (symmetry; now apply Rleb_true).
    replace (Rleb x (edgeR n)) with true by (symmetry; now apply Rleb_true). reflexivity. }
  assert (Ex: exists k, (k < n)%nat /\ @in_bin NumR n k x = true).
  { destruct (existsb (fun k => @in_bin NumR n k x) (seq 0 n)) eqn:E.
    - apply existsb_exists in E as (k & Hk & Hb). apply in_seq in Hk. exists k. split; [lia|assumption].
    - exfalso. assert (Z0: zsum (map (fun k => ind n k x) (seq 0 n)) = 0%Z).
      { assert (G: forall l, existsb (fun k => @in_bin NumR n k x) l = false -> zsum (map (fun k => ind n k x) l) = 0%Z).
        { induction l as [|k l IH]; [reflexivity|]. cbn [existsb map]. intros H.
          apply orb_false_iff in H as [H1 H2]. rewrite zsum_cons, IH by assumption.
          unfold ind. now rewrite H1. }
        now apply G. }
      lia. }
  destruct Ex as (k & Hk & Hb). exists k. repeat split; try assumption.
  intros k' Hk' Hb'. now apply (in_bin_unique n k' k x).
Qed.

(* the observed density has mass 1 (and is non-negative) as soon as one angle lies in [0, n] *)
Theorem hist_density_mass_one n (xs : list R) : (0 < n)%nat ->
  (exists x, In x xs /\ 0 <= x <= edgeR n) ->
  Forall (Rle 0) (@hist_density NumR n xs) /\ rsum (@hist_density NumR n xs) = 1 /\
  length (@hist_density NumR n xs) = n.
Proof.
  intros Hn (x & Hin & A & B).
  destruct (hist_density_props n xs) as [Hlen Hd]. cbv zeta in Hd.
  assert (Hpos: (0 < zsum (@hist_counts NumR n xs))%Z).
  { rewrite hist_counts_total by assumption.
    assert (In x (filter (in_range n) xs)).
    { apply filter_In. split; [assumption|]. unfold in_range.
      apply andb_true_intro; split; apply Rleb_true; assumption. }
    destruct (filter (in_range n) xs); [contradiction|]. cbn [length]. lia. }
  destruct (Hd Hpos) as [H1 H2]. auto.
Qed.

(* no angle in range: every count is 0 (np.histogram then divides 0 by 0) *)
Theorem hist_counts_empty n (xs : list R) : (0 < n)%nat ->
  Forall (fun x => in_range n x = false) xs -> zsum (@hist_counts NumR n xs) = 0%Z.
Proof.
  intros Hn H. rewrite hist_counts_total by assumption.
  replace (filter (in_range n) xs) with (@nil R); [reflexivity|].
  induction H as [|x xs Hx _ IH]; [reflexivity|]. cbn [filter]. now rewrite Hx.
Qed.

Lemma hist_nonvacuous_out : in_range 90 (IZR 110) = false.
Proof.
  unfold in_range. apply andb_false_iff. right. apply Rleb_false. unfold edgeR. apply IZR_lt. reflexivity.
Qed.
