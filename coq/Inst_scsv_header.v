(* Inst_scsv_header.v -- write_scsv_header as a whole (tie T): the generated function (coq/gen/Gen_scsv.v; the stream is
   the list of strings written so far) writes the fence, the lines `Model_scsv_header.header_lines` gives for the
   schema, the comments and the units, each with its line terminator, and the closing fence -- for every schema
   dictionary that stands for a typed schema, any comments (None or a list of strings), units absent or strings. *)
From Coq Require Import String Ascii List ZArith Bool NArith Lia.
From PV Require Import Model_scsv Proofs_scsv Model_scsv_frame Model_scsv_header Model_scsv_py Gen_scsv Inst_scsv Inst_scsv_save.
Import ListNotations.
Open Scope string_scope.

(* field.get("unit") per field, as the header model takes it: absent or a string *)
Definition raw_unit (p : pyval) : option (option string) :=
  match p with
  | PDict kv => match dget kv "unit" with None => Some None | Some (PStr u) => Some (Some u) | Some _ => None end
  | _ => None
  end.
Fixpoint raw_units (l : list pyval) : option (list (option string)) :=
  match l with
  | [] => Some []
  | p :: r => match raw_unit p, raw_units r with Some u, Some us => Some (u :: us) | _, _ => None end
  end.

Definition term (l : string) : pyval := PStr (l ++ LF).
Definition comments_py (co : option (list string)) : pyval :=
  match co with None => PNone | Some cs => PList (map PStr cs) end.
Definition comments_of (co : option (list string)) : list string := match co with None => [] | Some cs => cs end.

Section S.
Variable O : oracles.

Lemma abs_field_name : forall kv f n, abs_field (PDict kv) = Some f -> fname f = Some (YStr n) -> dget kv "name" = Some (PStr n).
Proof.
  intros kv f n A Hn. unfold abs_field in A. destruct (opt_str (dget kv "type")); [|discriminate].
  destruct (dget kv "name") as [x|]; [destruct (is_other x); [discriminate|]|]; injection A as <-; cbn [fname option_map] in Hn; [|discriminate].
  injection Hn as Hn. destruct x; try discriminate Hn. cbn [abs_yval] in Hn. injection Hn as ->. reflexivity.
Qed.

Lemma abs_field_fill : forall kv f, abs_field (PDict kv) = Some f -> ffill f = option_map abs_yval (dget kv "fill").
Proof.
  intros kv f A. unfold abs_field in A. destruct (opt_str (dget kv "type")); [|discriminate].
  destruct (match dget kv "name" with Some x => is_other x | None => false end); [discriminate|]. injection A as <-. reflexivity.
Qed.

Theorem gen_write_header_eq : forall p s co kv l units,
  abs_schema p = Some s -> p = PDict kv -> dget kv "fields" = Some (PList l) -> raw_units l = Some units ->
  fills_not_complex p ->
  forall written,
  gen_write_scsv_header O (PList written) p (comments_py co) =
  match header_lines O (comments_of co) s units with
  | Ok ls => Ok (PList (written ++ PStr fence_line :: map term ls ++ [PStr fence_line]))
  | Err e => Err e
  end.
Proof.
  intros p s co kv l units A -> Kf U NC written. unfold gen_write_scsv_header, header_lines.
  rewrite (gen_validate_eq O _ s A).
  destruct (validate_schema O s) as [[|]|e] eqn:V; cbn [lift_bool bind py_not py_truth negb run_block]; try reflexivity.
  destruct (validate_true_inv O s V) as [d [m [fs [Ed [Em [Ef [Hne [Hdm [Hc Vf]]]]]]]]].
  destruct (abs_schema_inv (PDict kv) s d m fs A Ed Em Ef) as [kv' [l' [E' [Kd [Km [Kf' Al]]]]]].
  injection E' as <-. rewrite Kf in Kf'. injection Kf' as <-. rewrite Ed, Em, Ef.
  unfold fills_not_complex in NC. rewrite Kf in NC.
  (* the loop over the fields *)
  match goal with |- context [for_loop ?b _ _] => match b with context [PStr "name"] => set (fbody := b) end end.
  assert (FL : forall l fs units acc, abs_fields l = Some fs -> validate_fields O fs = Ok true -> raw_units l = Some units ->
     Forall (fun f => not_complex (raw_fill f)) l ->
     for_items fbody l None (PList acc) =
     match fields_lines O fs units with Ok ls => Ok (inl (PList (acc ++ map term ls))) | Err e => Err e end).
  { clear. induction l as [|p r IH]; intros fs units acc Al Vf U NC; cbn [abs_fields raw_units] in Al, U.
    - injection Al as <-. injection U as <-. cbn. rewrite app_nil_r. reflexivity.
    - destruct (abs_field p) as [f|] eqn:Af; [|discriminate]. destruct (abs_fields r) as [fs'|] eqn:Ar; [|discriminate].
      injection Al as <-. destruct (raw_unit p) as [u|] eqn:Eu; [|discriminate]. destruct (raw_units r) as [us|] eqn:Eus; [|discriminate].
      injection U as <-. inversion NC as [|? ? NCp NCr]; subst.
      cbn [validate_fields] in Vf. destruct (fname f) as [[| n | | | |]|] eqn:En; try discriminate Vf.
      destruct (negb (o_is_ident O n)); [discriminate|]. destruct (typemap (type_of f)) eqn:Et; [|discriminate].
      destruct (_ && _); [discriminate|].
      destruct p as [| | | | | | | | kv | |]; try discriminate Af.
      pose proof (abs_field_name kv f n Af En) as Kn. pose proof (abs_field_fill kv f Af) as Kfill.
      cbn [for_items fields_lines hd tl]. unfold field_lines. rewrite En, Kfill.
      specialize (IH fs' us).
      cbn [raw_unit] in Eu. cbn [raw_fill] in NCp.
      unfold fbody at 1. cbn [py_getitem bind]. rewrite Kn. cbn [bind].
      unfold c__SCSV_DEFAULT_TYPE. rewrite (py_get_type _ _ Af). cbn [bind]. rewrite gen_yaml_quote_eq.
      cbn [py_in py_inb lift_bool].
      destruct (dget kv "unit") as [[| | | | | uu | | | | |]|]; try discriminate Eu; injection Eu as <-;
      (destruct (dget kv "fill") as [[| b | z | ff | re im | sf | lf | lf | kf | tyf | tag]|];
       [ .. | ]; try (exfalso; exact NCp)).
      all: repeat (cbn [bind orb py_truth py_getitem py_call1 lift_cell conv abs_yval emb_cell py_add py_append py_isinstance ty_eqb
                        option_map fill_text unit_lines]; rewrite ?gen_yaml_quote_eq).
      all: try (rewrite IH; [ | first [reflexivity | assumption] ..]; destruct (fields_lines O fs' us); cbn [bind map app term]; rewrite <- ?app_assoc; cbn [app]; reflexivity).
      all: reflexivity. }
  (* the loop over the comments *)
  assert (CL : forall (cbody : pyval -> pyval -> res (ctl pyval pyval)),
     (forall c acc, cbody (PStr c) (PList acc) = Ok (CNormal (PList (acc ++ [term ("# " ++ c)])))) ->
     forall cs acc, for_items cbody (map PStr cs) None (PList acc) = Ok (inl (PList (acc ++ map term (comment_lines cs))))).
  { clear. intros cbody H. induction cs as [|c r IH]; intro acc.
    - cbn. rewrite app_nil_r. reflexivity.
    - cbn [map for_items comment_lines]. rewrite H. cbn [bind]. rewrite IH. rewrite <- app_assoc. reflexivity. }
  cbn [py_add bind py_append py_getitem]. rewrite Kd, Km, Kf. cbn [bind]. rewrite !gen_yaml_quote_eq.
  destruct (fields_lines O fs units) as [fl|e] eqn:Efl.
  - destruct co as [cs|]; cbn [comments_py comments_of py_is_not_none bind py_truth py_iter].
    + unfold for_loop at 1. cbn [fst snd]. rewrite CL; [|intros c acc; reflexivity].
      cbn [bind py_call1 lift_cell conv abs_yval emb_cell py_add py_append py_iter]. unfold for_loop. cbn [fst snd].
      rewrite (FL l fs units _ Al Vf U NC), Efl. cbn [bind py_append run_block].
      unfold head_lines, term, fence_line. rewrite !map_app. cbn [map app]. rewrite <- !app_assoc. cbn [app]. reflexivity.
    + cbn [bind py_call1 lift_cell conv abs_yval emb_cell py_add py_append py_iter]. unfold for_loop. cbn [fst snd].
      rewrite (FL l fs units _ Al Vf U NC), Efl. cbn [bind py_append run_block comment_lines map app].
      unfold head_lines, term, fence_line. rewrite !map_app. cbn [map app]. rewrite <- !app_assoc. cbn [app]. reflexivity.
  - destruct co as [cs|]; cbn [comments_py comments_of py_is_not_none bind py_truth py_iter].
    + unfold for_loop at 1. cbn [fst snd]. rewrite CL; [|intros c acc; reflexivity].
      cbn [bind py_call1 lift_cell conv abs_yval emb_cell py_add py_append py_iter]. unfold for_loop. cbn [fst snd].
      rewrite (FL l fs units _ Al Vf U NC), Efl. reflexivity.
    + cbn [bind py_call1 lift_cell conv abs_yval emb_cell py_add py_append py_iter]. unfold for_loop. cbn [fst snd].
      rewrite (FL l fs units _ Al Vf U NC), Efl. reflexivity.
Qed.
End S.
