(* Proofs_decomp3.v -- the frame clause of C12 completed for rotated orthorhombic tensors:
   (i)  the six norms that frame_parts computes for a candidate frame depend only on WHICH axis
        of the orthorhombic frame is put third (the sign flips act trivially on an orthorhombic
        tensor, the swap of axes 1 and 2 leaves every projector residual unchanged);
   (ii) the strict-< selection loop is a function of the three candidate distances, so under a
        strict minimum it selects the same third axis in every frame;
   hence the reported hexagonal axis co-rotates and all reported numbers are frame independent. *)
From Coq Require Import Reals ZArith List Lra Lia Bool.
From PV Require Import Num NumR Model_voigt Model_decomp Proofs_tensors_alg Proofs_tensors_rot
  Proofs_tensors_maps Proofs_tensors_proj Inst_tensors Proofs_decomp Proofs_decomp2.
From PV.gen Require Import Gen_tensors.
Import ListNotations.
Open Scope R_scope.

(* ---------------------------------------------------------------------- *)
(* the first nine components of the 21-vector of a 4th-order tensor, with   *)
(* the three axes named p q r (p q r = 0 1 2 is the vector itself)          *)
(* ---------------------------------------------------------------------- *)
Definition ovec9 (f : T4) (p q r : nat) : list R :=
  [f p p p p; f q q q q; f r r r r;
   sqrt 2 * ((f q q r r + f r r q q) / 2);
   sqrt 2 * ((f p p r r + f r r p p) / 2);
   sqrt 2 * ((f p p q q + f q q p p) / 2);
   2 * ((f q r q r + f q r r q + f r q q r + f r q r q) / 4);
   2 * ((f p r p r + f p r r p + f r p p r + f r p r p) / 4);
   2 * ((f p q p q + f p q q p + f q p p q + f q p q p) / 4)].
Definition ovec (f : T4) (p q r : nat) : arr NumR := mk_arr 0 (ovec9 f p q r).

Lemma etv_vec9 (T : arr NumR) k : (k < 9)%nat ->
  k_voigt_matrix_to_vector (k_elastic_tensor_to_voigt T) k = ovec (t4 T) 0 1 2 k.
Proof.
  intros Hk.
  do 9 (destruct k as [|k]; [
    lazy [k_voigt_matrix_to_vector k_elastic_tensor_to_voigt ovec ovec9 mk_arr List.nth t4 Nat.add Nat.mul];
    numR; field|]).
  exfalso; lia.
Qed.

Lemma ovec_tail f p q r k : (9 <= k)%nat -> ovec f p q r k = 0.
Proof.
  intros Hk. unfold ovec, mk_arr, ovec9.
  do 9 (destruct k as [|k]; [exfalso; lia|]). destruct k; reflexivity.
Qed.

(* the 21-vector of an orthorhombic tensor IS its ovec *)
Lemma ortho_vec_is_ovec (T : arr NumR) : ortho4 (t4 T) ->
  veq (k_voigt_matrix_to_vector (k_elastic_tensor_to_voigt T)) (ovec (t4 T) 0 1 2).
Proof.
  intros H k Hk. destruct (le_lt_dec 9 k) as [H9|H9].
  - rewrite (ortho_vector T H k) by lia. symmetry. apply ovec_tail, H9.
  - apply etv_vec9, H9.
Qed.

(* ---------------------------------------------------------------------- *)
(* a signed permutation of the axes acts on the paired entries (the only    *)
(* ones an orthorhombic tensor has) as the bare permutation                *)
(* ---------------------------------------------------------------------- *)
Lemma rot4_sperm_paired (P : M3) (pi : nat -> nat) (s : nat -> R) (f : T4) i j k l :
  sperm P pi s -> (forall a, (a < 3)%nat -> pm1 (s a)) ->
  (i < 3)%nat -> (j < 3)%nat -> (k < 3)%nat -> (l < 3)%nat -> paired i j k l = true ->
  rot4 f P i j k l = f (pi i) (pi j) (pi k) (pi l).
Proof.
  intros HP Hs Hi Hj Hk Hl Hp. rewrite (rot4_sperm P pi s HP) by assumption.
  pose proof (pm1_sq _ (Hs i Hi)) as Si. pose proof (pm1_sq _ (Hs j Hj)) as Sj.
  pose proof (pm1_sq _ (Hs k Hk)) as Sk. pose proof (pm1_sq _ (Hs l Hl)) as Sl.
  unfold paired in Hp.
  apply orb_true_iff in Hp. destruct Hp as [Hp|Hp]; [apply orb_true_iff in Hp; destruct Hp as [Hp|Hp]|];
  apply andb_true_iff in Hp; destruct Hp as (A & B); apply Nat.eqb_eq in A, B; subst.
  - transitivity ((s j * s j) * (s l * s l) * f (pi j) (pi j) (pi l) (pi l)); [ring|]. rewrite Sj, Sl. ring.
  - transitivity ((s k * s k) * (s l * s l) * f (pi k) (pi l) (pi k) (pi l)); [ring|]. rewrite Sk, Sl. ring.
  - transitivity ((s l * s l) * (s k * s k) * f (pi l) (pi k) (pi k) (pi l)); [ring|]. rewrite Sk, Sl. ring.
Qed.

Lemma ovec_sperm (P : M3) (pi : nat -> nat) (s : nat -> R) (f g : T4) :
  sperm P pi s -> (forall a, (a < 3)%nat -> pm1 (s a)) -> eq4b g (rot4 f P) ->
  veq (ovec g 0 1 2) (ovec f (pi 0%nat) (pi 1%nat) (pi 2%nat)).
Proof.
  intros HP Hs Hg k Hk. destruct (le_lt_dec 9 k) as [H9|H9].
  - rewrite !ovec_tail by assumption. reflexivity.
  - do 9 (destruct k as [|k]; [
      lazy [ovec ovec9 mk_arr List.nth];
      rewrite !Hg by lia;
      rewrite !(rot4_sperm_paired P pi s f) by (first [assumption | lia | reflexivity]);
      reflexivity|]).
    exfalso; lia.
Qed.

(* ---------------------------------------------------------------------- *)
(* the six norms of one candidate frame, as a function of the rotated       *)
(* 21-vector:  [delta; tric; mono; ortho; tetr; hex]                        *)
(* ---------------------------------------------------------------------- *)
Definition nrm (a b : arr NumR) : R := sqrt (sumsq 21 (vsub a b)).

Lemma norm21_nrm (a b : arr NumR) : @norm21 NumR (@vsub21 NumR a b) = nrm a b.
Proof.
  unfold norm21, vsub21, tab21, nrm. cbv [seq map mk_arr List.nth fold_left sumsq fold_right vsub]. numR.
  f_equal. ring.
Qed.

Lemma nrm_ext a a' b b' : veq a a' -> veq b b' -> nrm a b = nrm a' b'.
Proof.
  intros H1 H2. unfold nrm. f_equal. apply sumsq21_ext. intros k Hk. unfold vsub. rewrite H1, H2 by assumption. reflexivity.
Qed.

Definition cand (x iso : arr NumR) : list R :=
  let m := k_mono_project x in let o := k_ortho_project m in
  let t := k_tetr_project o in let h := hexv t in
  [nrm x h; nrm x m; nrm m o; nrm o t; nrm t h; nrm h iso].

Lemma frame_parts_cand (vm iso Rt : arr NumR) delta tric mono ortho tetr hex :
  @frame_parts NumR vm iso Rt = Ok (delta, (tric, mono, ortho, tetr, hex)) ->
  [delta; tric; mono; ortho; tetr; hex]
  = cand (k_voigt_matrix_to_vector (k_elastic_tensor_to_voigt (@rotate4 NumR (k_voigt_to_elastic_tensor vm) Rt))) iso.
Proof.
  intros H. unfold frame_parts in H. rewrite hex_ok in H. rewrite !norm21_nrm in H.
  apply (f_equal (fun r : res (R * (R * R * R * R * R)) =>
                    match r with Ok (d, (a, b, c, e, f)) => [d; a; b; c; e; f] | Err _ => [] end)) in H.
  cbv beta iota in H. symmetry. exact H.
Qed.

Lemma mono_ext x y : veq x y -> veq (k_mono_project x) (k_mono_project y).
Proof. intros H k Hk; each21 k ltac:(unf; rewrite ?H by lia; reflexivity). Qed.
Lemma ortho_ext x y : veq x y -> veq (k_ortho_project x) (k_ortho_project y).
Proof. intros H k Hk; each21 k ltac:(unf; rewrite ?H by lia; reflexivity). Qed.
Lemma tetr_ext x y : veq x y -> veq (k_tetr_project x) (k_tetr_project y).
Proof. intros H k Hk; each21 k ltac:(unf; rewrite ?H by lia; reflexivity). Qed.
Lemma hexv_ext x y : veq x y -> veq (hexv x) (hexv y).
Proof. intros H k Hk; each21 k ltac:(unf; rewrite ?H by lia; reflexivity). Qed.

Lemma cand_ext x y iso iso' : veq x y -> veq iso iso' -> cand x iso = cand y iso'.
Proof.
  intros H Hi. unfold cand.
  pose proof (mono_ext _ _ H) as Hm. pose proof (ortho_ext _ _ Hm) as Ho.
  pose proof (tetr_ext _ _ Ho) as Ht. pose proof (hexv_ext _ _ Ht) as Hh.
  rewrite (nrm_ext _ _ _ _ H Hh), (nrm_ext _ _ _ _ H Hm), (nrm_ext _ _ _ _ Hm Ho),
          (nrm_ext _ _ _ _ Ho Ht), (nrm_ext _ _ _ _ Ht Hh), (nrm_ext _ _ _ _ Hh Hi).
  reflexivity.
Qed.

Lemma list6_eq (a b c d e f a' b' c' d' e' f' : R) :
  a = a' -> b = b' -> c = c' -> d = d' -> e = e' -> f = f' -> [a; b; c; d; e; f] = [a'; b'; c'; d'; e'; f'].
Proof. intros; subst; reflexivity. Qed.

(* (i): the swap of the first two axes changes none of the six norms *)
Lemma cand_swap (f : T4) (p q r : nat) (K G : R) :
  cand (ovec f p q r) (@iso_vector NumR K G) = cand (ovec f q p r) (@iso_vector NumR K G).
Proof.
  unfold cand. cbv zeta.
  apply list6_eq; unfold nrm; f_equal;
    cbv [sumsq seq fold_right]; unf; lazy [ovec ovec9 mk_arr List.nth iso_vector]; numR.
  all: try ring.
  all: sfield.
Qed.

(* the canonical candidate "axis k third": axes (k+1, k+2, k) *)
Definition ovec3 (f : T4) (k : nat) : arr NumR := ovec f ((k + 1) mod 3) ((k + 2) mod 3) k.
Definition cand3 (f : T4) (iso : arr NumR) (k : nat) : list R := cand (ovec3 f k) iso.
(* distance of that candidate's 21-vector to its hexagonal projection *)
Definition hex_dist (f : T4) (k : nat) : R :=
  let x := ovec3 f k in nrm x (hexv (k_tetr_project (k_ortho_project (k_mono_project x)))).

Lemma hex_dist_cand f iso k : List.nth 0 (cand3 f iso k) 0 = hex_dist f k.
Proof. reflexivity. Qed.

Lemma cand_perm (f : T4) (K G : R) (p q r : nat) :
  (p < 3)%nat -> (q < 3)%nat -> (r < 3)%nat -> p <> q -> p <> r -> q <> r ->
  cand (ovec f p q r) (@iso_vector NumR K G) = cand3 f (@iso_vector NumR K G) r.
Proof.
  intros Hp Hq Hr N1 N2 N3. unfold cand3, ovec3.
  three_c p; three_c q; three_c r; try (exfalso; lia);
    cbn [Nat.add Nat.modulo Nat.divmod fst snd Nat.sub]; first [reflexivity | apply cand_swap].
Qed.

(* the candidate frame Rt whose rows are  s' r * (column pi' r of Rq),  applied to
   T = rotate T0 Rq  with T0 orthorhombic: its six norms are those of the canonical candidate
   "axis pi' 2 third" of T0 itself *)
Theorem frame_cand (vm Rt Rq : arr NumR) (T0 : T4) (pi' : nat -> nat) (s' : nat -> R) (K G : R) :
  ortho4 T0 -> orth (mat3 Rq) -> eq4b (t4 (k_voigt_to_elastic_tensor vm)) (rot4 T0 (mat3 Rq)) ->
  (forall r, (r < 3)%nat -> (pi' r < 3)%nat /\ pm1 (s' r)) ->
  (forall r r', (r < 3)%nat -> (r' < 3)%nat -> pi' r = pi' r' -> r = r') ->
  (forall r a, (r < 3)%nat -> (a < 3)%nat -> mat3 Rt r a = s' r * mat3 Rq a (pi' r)) ->
  forall delta tric mono ortho tetr hex,
    @frame_parts NumR vm (@iso_vector NumR K G) Rt = Ok (delta, (tric, mono, ortho, tetr, hex)) ->
    [delta; tric; mono; ortho; tetr; hex] = cand3 T0 (@iso_vector NumR K G) (pi' 2%nat).
Proof.
  intros HT0 HR HT H1 H2 Hrows delta tric mono ortho tetr hex H.
  set (P := fun r c : nat => if Nat.eqb c (pi' r) then s' r else 0).
  assert (HP: sperm P pi' s').
  { split; [intros r Hr; apply H1, Hr|]. split; [exact H2|]. intros r a _ _; reflexivity. }
  assert (HRt: eq2b (mm (mat3 Rt) (mat3 Rq)) P).
  { intros r c Hr Hc. unfold mm, sum3. rewrite !Hrows by lia.
    pose proof (HR (pi' r) c (proj1 (H1 r Hr)) Hc) as O. unfold sum3 in O.
    transitivity (s' r * (mat3 Rq 0%nat (pi' r) * mat3 Rq 0%nat c + mat3 Rq 1%nat (pi' r) * mat3 Rq 1%nat c
                          + mat3 Rq 2%nat (pi' r) * mat3 Rq 2%nat c)); [ring|].
    rewrite O. unfold P. rewrite (Nat.eqb_sym c (pi' r)). destruct (Nat.eqb (pi' r) c); ring. }
  set (T := @rotate4 NumR (k_voigt_to_elastic_tensor vm) Rt).
  assert (HE: eq4b (t4 T) (rot4 T0 P)).
  { unfold T. eapply eq4b_trans; [apply rotate4_is_k_rotate|].
    eapply eq4b_trans; [apply rotate_is_mode_products|].
    eapply eq4b_trans; [apply rot4_extb, HT|].
    eapply eq4b_trans; [apply eq4_eq4b, rot4_compose|]. apply rot4_extR, HRt. }
  assert (HO: ortho4 (t4 T)).
  { apply (ortho4_extb _ (rot4 T0 P)); [exact HE|]. apply (ortho4_sperm P pi' s' HP), HT0. }
  rewrite (frame_parts_cand _ _ _ _ _ _ _ _ _ H). fold T.
  rewrite (cand_ext _ (ovec T0 (pi' 0%nat) (pi' 1%nat) (pi' 2%nat)) _ (@iso_vector NumR K G)).
  - apply cand_perm; try (apply H1; lia); intros E; apply H2 in E; lia.
  - intros k Hk. rewrite (ortho_vec_is_ovec T HO k Hk).
    apply (ovec_sperm P pi' s' T0 (t4 T) HP (fun a Ha => proj2 (H1 a Ha)) HE k Hk).
  - intros k _. reflexivity.
Qed.

(* ---------------------------------------------------------------------- *)
(* (ii): the selection loop (strict <, first minimum wins, start at |x|)    *)
(* ---------------------------------------------------------------------- *)
Definition parts5 : Type := (R * R * R * R * R)%type.
Definition sel_step (fp : nat -> res (R * parts5)) (pay : nat -> R * parts5 -> list R)
  (st : res (R * option (list R))) (i : nat) : res (R * option (list R)) :=
  match st with
  | Err e => Err e
  | Ok (dist, best) =>
      match fp i with
      | Err e => Err e
      | Ok (delta, parts) =>
          if Rltb delta dist then Ok (delta, Some (pay i (delta, parts))) else Ok (dist, best)
      end
  end.

(* whatever the start value: if a list was selected at all, it is the one of the strict minimum *)
Lemma select3 fp pay (nx dist : R) l :
  fold_left (sel_step fp pay) [0; 1; 2]%nat (Ok (nx, None)) = Ok (dist, Some l) ->
  exists d0 p0 d1 p1 d2 p2,
    fp 0%nat = Ok (d0, p0) /\ fp 1%nat = Ok (d1, p1) /\ fp 2%nat = Ok (d2, p2) /\
    (d0 < d1 -> d0 < d2 -> l = pay 0%nat (d0, p0)) /\
    (d1 < d0 -> d1 < d2 -> l = pay 1%nat (d1, p1)) /\
    (d2 < d0 -> d2 < d1 -> l = pay 2%nat (d2, p2)).
Proof.
  cbn [fold_left]. unfold sel_step.
  destruct (fp 0%nat) as [[d0 p0]|e0]; [|discriminate].
  destruct (fp 1%nat) as [[d1 p1]|e1]; [|destruct (Rltb d0 nx); discriminate].
  destruct (fp 2%nat) as [[d2 p2]|e2];
    [|destruct (Rltb d0 nx); [destruct (Rltb d1 d0) | destruct (Rltb d1 nx)]; discriminate].
  intros H. exists d0, p0, d1, p1, d2, p2. split; [reflexivity|]. split; [reflexivity|]. split; [reflexivity|].
  destruct (Rltb d0 nx) eqn:B0.
  - destruct (Rltb d1 d0) eqn:B1.
    + destruct (Rltb d2 d1) eqn:B2; inversion H; subst; bool2prop;
        (split; [|split]); intros; first [reflexivity | exfalso; lra].
    + destruct (Rltb d2 d0) eqn:B2; inversion H; subst; bool2prop;
        (split; [|split]); intros; first [reflexivity | exfalso; lra].
  - destruct (Rltb d1 nx) eqn:B1.
    + destruct (Rltb d2 d1) eqn:B2; inversion H; subst; bool2prop;
        (split; [|split]); intros; first [reflexivity | exfalso; lra].
    + destruct (Rltb d2 nx) eqn:B2; inversion H; subst; bool2prop;
        (split; [|split]); intros; first [reflexivity | exfalso; lra].
Qed.

Definition strict_min3 (D : nat -> R) (k : nat) : Prop :=
  (k < 3)%nat /\ forall k', (k' < 3)%nat -> k' <> k -> D k < D k'.

Definition pcts (c : list R) (pc : R) : list R :=
  [List.nth 5 c 0 * pc; List.nth 4 c 0 * pc; List.nth 3 c 0 * pc; List.nth 2 c 0 * pc; List.nth 1 c 0 * pc].

Lemma ok_inj {A} (a b : A) : Ok a = Ok b -> a = b.
Proof. intros H; inversion H; reflexivity. Qed.

(* elasticity_components1 written over the abstract selection loop *)
Definition ec1_fp (vm Ed Ev : arr NumR) (i : nat) : res (R * parts5) :=
  @frame_parts NumR vm (@iso_vector NumR (Kof vm) (Gof vm)) (@sccs_rotation NumR Ed Ev i).
Definition ec1_pay (vm Ed Ev : arr NumR) (i : nat) (dp : R * parts5) : list R :=
  let pc := 100 / @norm21 NumR (k_voigt_matrix_to_vector vm) in
  let '(delta, (tric, mono, ortho, tetr, hex)) := dp in
  [hex * pc; tetr * pc; ortho * pc; mono * pc; tric * pc;
   @sccs_rotation NumR Ed Ev i 6%nat; @sccs_rotation NumR Ed Ev i 7%nat; @sccs_rotation NumR Ed Ev i 8%nat].

Lemma ec1_as_select (M Ed Ev : arr NumR) :
  let vm := k_upper_tri_to_symmetric_6 M in
  let x := k_voigt_matrix_to_vector vm in
  let nx := @norm21 NumR x in
  @elasticity_components1 NumR M Ed Ev =
  match fold_left (sel_step (ec1_fp vm Ed Ev) (ec1_pay vm Ed Ev)) [0; 1; 2]%nat (Ok (nx, None)) with
  | Err e => Err e
  | Ok (_, None) => Err NonFinite
  | Ok (_, Some l) =>
      Ok (Kof vm :: Gof vm
          :: @norm21 NumR (@vsub21 NumR x (@iso_vector NumR (Kof vm) (Gof vm))) / nx * 100 :: l)
  end.
Proof.
  intros vm x nx. unfold elasticity_components1. fold vm.
  unfold ec1_fp, ec1_pay, Kof, Gof. destruct (@bulk_shear NumR vm) as [K G]. cbn [fst snd]. cbv zeta.
  fold x. fold nx.
  match goal with |- context [fold_left ?f _ _] => set (step := f) end.
  match goal with |- context [fold_left (sel_step ?f ?g) _ _] => set (fp := f); set (pay := g) end.
  assert (Hstep: forall st i, step st i = sel_step fp pay st i).
  { intros [[d b]|e] i; [|reflexivity]. unfold step, sel_step, fp.
    destruct (@frame_parts NumR vm (@iso_vector NumR K G) (@sccs_rotation NumR Ed Ev i))
      as [[delta [[[[a1 a2] a3] a4] a5]]|e]; reflexivity. }
  assert (HF: fold_left step [0; 1; 2]%nat (Ok (nx, None)) = fold_left (sel_step fp pay) [0; 1; 2]%nat (Ok (nx, None))).
  { cbn [fold_left]. rewrite !Hstep. reflexivity. }
  rewrite HF. reflexivity.
Qed.

(* the whole function on a rotated orthorhombic tensor whose three candidate distances have a
   strict minimum at axis kst: every output is determined -- the percentages are those of the
   canonical candidate "axis kst third" of T0, the reported axis is +- Rq e_kst *)
Theorem ec1_selected (M Ed Ev Rq : arr NumR) (T0 : T4) (mud muv : nat -> R) out kst :
  let vm := k_upper_tri_to_symmetric_6 M in
  sym6 vm -> ortho4 T0 -> orth (mat3 Rq) ->
  eq4b (t4 (k_voigt_to_elastic_tensor vm)) (rot4 T0 (mat3 Rq)) ->
  distinct3 (fun k => dil4 T0 k k) -> distinct3 (fun k => dev4 T0 k k) ->
  orth (mat3 Ed) -> eigcols (mat3 (fst (k_voigt_decompose vm))) (mat3 Ed) mud ->
  orth (mat3 Ev) -> eigcols (mat3 (snd (k_voigt_decompose vm))) (mat3 Ev) muv ->
  strict_min3 (hex_dist T0) kst ->
  @elasticity_components1 NumR M Ed Ev = Ok out ->
  let iso := @iso_vector NumR (Kof vm) (Gof vm) in
  let x := k_voigt_matrix_to_vector vm in
  let nx := @norm21 NumR x in
  exists sgn, pm1 sgn /\
    out = Kof vm :: Gof vm :: @norm21 NumR (@vsub21 NumR x iso) / nx * 100
          :: pcts (cand3 T0 iso kst) (100 / nx)
             ++ [sgn * mat3 Rq 0%nat kst; sgn * mat3 Rq 1%nat kst; sgn * mat3 Rq 2%nat kst].
Proof.
  intros vm Hsym HT0 HR HT Hdd Hdv HEd HEdv HEv HEvv (Hk & Hmin) H iso x nx.
  rewrite ec1_as_select in H. fold vm x nx iso in H.
  set (K := Kof vm) in *. set (G := Gof vm) in *.
  set (fp := ec1_fp vm Ed Ev) in *. set (pay := ec1_pay vm Ed Ev) in *.
  destruct (fold_left (sel_step fp pay) [0; 1; 2]%nat (Ok (nx, None))) as [[dist [l|]]|e] eqn:EF; try discriminate.
  apply ok_inj in H. subst out.
  destruct (select3 _ _ _ _ _ EF) as (d0 & p0 & d1 & p1 & d2 & p2 & F0 & F1 & F2 & S0 & S1 & S2).
  destruct (sccs_is_R vm Ed Ev Rq T0 mud muv Hsym HT0 HR HT Hdd Hdv HEd HEdv HEv HEvv)
    as (pi & s & (D1 & D2 & D3) & Hrows).
  assert (HC: forall i d t m o te h, fp i = Ok (d, (t, m, o, te, h)) ->
            [d; t; m; o; te; h] = cand3 T0 iso (pi ((i + 2) mod 3))).
  { intros i d t m o te h Hf.
    assert (Hm: forall r, ((i + r) mod 3 < 3)%nat) by (intros r; apply Nat.mod_upper_bound; lia).
    apply (frame_cand vm (@sccs_rotation NumR Ed Ev i) Rq T0 (fun r => pi ((i + r) mod 3)) (fun r => s ((i + r) mod 3)) K G HT0 HR HT);
      [ | | | exact Hf].
    - intros r Hr. apply D1, Hm.
    - intros r r' Hr Hr' E. apply (cyc_inj i r r' Hr Hr'). apply D2; [apply Hm | apply Hm | exact E].
    - intros r a Hr Ha. apply Hrows; assumption. }
  destruct p0 as [[[[t0 m0] o0] te0] h0]. destruct p1 as [[[[t1 m1] o1] te1] h1]. destruct p2 as [[[[t2 m2] o2] te2] h2].
  pose proof (HC 0%nat _ _ _ _ _ _ F0) as C0. pose proof (HC 1%nat _ _ _ _ _ _ F1) as C1.
  pose proof (HC 2%nat _ _ _ _ _ _ F2) as C2.
  change ((0 + 2) mod 3)%nat with 2%nat in C0. change ((1 + 2) mod 3)%nat with 0%nat in C1.
  change ((2 + 2) mod 3)%nat with 1%nat in C2.
  assert (E0: d0 = hex_dist T0 (pi 2%nat)) by (apply (f_equal (fun l => List.nth 0 l 0)) in C0; exact C0).
  assert (E1: d1 = hex_dist T0 (pi 0%nat)) by (apply (f_equal (fun l => List.nth 0 l 0)) in C1; exact C1).
  assert (E2: d2 = hex_dist T0 (pi 1%nat)) by (apply (f_equal (fun l => List.nth 0 l 0)) in C2; exact C2).
  assert (Hlt: forall j j', (j < 3)%nat -> (j' < 3)%nat -> j' <> j -> kst = pi j -> hex_dist T0 (pi j) < hex_dist T0 (pi j')).
  { intros j j' Hj Hj' Hne Ek. rewrite <- Ek. apply Hmin; [apply D1, Hj'|]. rewrite Ek. intros E. apply D2 in E; lia. }
  pose proof (Hrows 0%nat 2%nat) as R0. pose proof (Hrows 1%nat 2%nat) as R1. pose proof (Hrows 2%nat 2%nat) as R2.
  change ((0 + 2) mod 3)%nat with 2%nat in R0. change ((1 + 2) mod 3)%nat with 0%nat in R1.
  change ((2 + 2) mod 3)%nat with 1%nat in R2.
  destruct (inj3_onto pi (fun j Hj => proj1 (D1 j Hj)) D2 kst Hk) as (j & Hj & Ej). symmetry in Ej.
  three_c j.
  - (* kst = pi 0: candidate 1 *)
    rewrite (S1 ltac:(rewrite E0, E1; apply Hlt; [lia | lia | lia | exact Ej])
                ltac:(rewrite E1, E2; apply Hlt; [lia | lia | lia | exact Ej])).
    exists (s 0%nat). split; [apply D1; lia|]. rewrite Ej, <- C1. unfold pay, ec1_pay, pcts. cbn [List.nth app]. fold x nx.
    rewrite <- (R1 0%nat), <- (R1 1%nat), <- (R1 2%nat) by lia. reflexivity.
  - (* kst = pi 1: candidate 2 *)
    rewrite (S2 ltac:(rewrite E0, E2; apply Hlt; [lia | lia | lia | exact Ej])
                ltac:(rewrite E1, E2; apply Hlt; [lia | lia | lia | exact Ej])).
    exists (s 1%nat). split; [apply D1; lia|]. rewrite Ej, <- C2. unfold pay, ec1_pay, pcts. cbn [List.nth app]. fold x nx.
    rewrite <- (R2 0%nat), <- (R2 1%nat), <- (R2 2%nat) by lia. reflexivity.
  - (* kst = pi 2: candidate 0 *)
    rewrite (S0 ltac:(rewrite E0, E1; apply Hlt; [lia | lia | lia | exact Ej])
                ltac:(rewrite E0, E2; apply Hlt; [lia | lia | lia | exact Ej])).
    exists (s 2%nat). split; [apply D1; lia|]. rewrite Ej, <- C0. unfold pay, ec1_pay, pcts. cbn [List.nth app]. fold x nx.
    rewrite <- (R0 0%nat), <- (R0 1%nat), <- (R0 2%nat) by lia. reflexivity.
Qed.

(* ---------------------------------------------------------------------- *)
(* frame invariance of K, G, |x| and |x - iso| for ANY Voigt matrix whose   *)
(* tensor is the rotated tensor of another                                  *)
(* ---------------------------------------------------------------------- *)
Lemma KG_tensor_invariant (vm vm0 : arr NumR) (Q : M3) : sym6 vm -> sym6 vm0 -> orth Q ->
  eq4b (t4 (k_voigt_to_elastic_tensor vm)) (rot4 (t4 (k_voigt_to_elastic_tensor vm0)) Q) ->
  Kof vm = Kof vm0 /\ Gof vm = Gof vm0.
Proof.
  intros H H0 HQ HT.
  destruct (KG_contractions vm H) as (K1 & G1). destruct (KG_contractions vm0 H0) as (K2 & G2).
  assert (EK: Kof vm = Kof vm0).
  { rewrite K1, K2. rewrite (trK_extb _ _ HT), trK_rot4 by assumption. reflexivity. }
  split; [exact EK|]. rewrite G1, G2, EK. rewrite (trG_extb _ _ HT), trG_rot4 by assumption. reflexivity.
Qed.

Lemma sumsq_tensor_invariant (vm vm0 : arr NumR) (Q : M3) : sym6 vm -> sym6 vm0 -> orth Q ->
  eq4b (t4 (k_voigt_to_elastic_tensor vm)) (rot4 (t4 (k_voigt_to_elastic_tensor vm0)) Q) ->
  sumsq 21 (k_voigt_matrix_to_vector vm) = sumsq 21 (k_voigt_matrix_to_vector vm0).
Proof.
  intros H H0 HQ HT. rewrite !vector_norm_is_frobenius by assumption. rewrite !sumsq81_norm4.
  rewrite (norm4_extb _ _ HT). apply norm4_rot4, HQ.
Qed.

Lemma norm21_sumsq (a : arr NumR) : @norm21 NumR a = sqrt (sumsq 21 a).
Proof. unfold norm21. cbv [seq fold_left sumsq fold_right]. numR. f_equal. ring. Qed.

(* |x - iso(K, G)|^2 is a function of |x|^2, K and G when K, G are the moduli of x *)
Lemma aniso_sq (vm : arr NumR) : sym6 vm ->
  let x := k_voigt_matrix_to_vector vm in let iso := iso_vec (Kof vm) (Gof vm) in
  sumsq 21 (vsub x iso) = sumsq 21 x - sumsq 21 iso.
Proof.
  intros H x iso. destruct (KG_isotropic_projection vm H) as (PK & PG). fold x iso in PK, PG.
  rewrite sumsq_vsub. rewrite dot21_vsub_l in PK, PG.
  assert (E: dot21 x iso = dot21 iso iso).
  { assert (A: dot21 x uK = dot21 iso uK) by lra. assert (B: dot21 x uG = dot21 iso uG) by lra.
    unfold iso at 1 3. rewrite !dot21_iso. fold iso. rewrite A, B. reflexivity. }
  rewrite E, <- sumsq21_dot. lra.
Qed.

Lemma aniso_tensor_invariant (vm vm0 : arr NumR) (Q : M3) : sym6 vm -> sym6 vm0 -> orth Q ->
  eq4b (t4 (k_voigt_to_elastic_tensor vm)) (rot4 (t4 (k_voigt_to_elastic_tensor vm0)) Q) ->
  @norm21 NumR (@vsub21 NumR (k_voigt_matrix_to_vector vm) (@iso_vector NumR (Kof vm) (Gof vm)))
  = @norm21 NumR (@vsub21 NumR (k_voigt_matrix_to_vector vm0) (@iso_vector NumR (Kof vm0) (Gof vm0))).
Proof.
  intros H H0 HQ HT. rewrite !norm21_nrm.
  rewrite (nrm_ext _ _ _ (iso_vec (Kof vm) (Gof vm)) (fun k _ => eq_refl) (iso_vector_spec _ _)).
  rewrite (nrm_ext _ _ _ (iso_vec (Kof vm0) (Gof vm0)) (fun k _ => eq_refl) (iso_vector_spec _ _)).
  unfold nrm. rewrite (aniso_sq vm H), (aniso_sq vm0 H0).
  destruct (KG_tensor_invariant vm vm0 Q H H0 HQ HT) as (-> & ->).
  rewrite (sumsq_tensor_invariant vm vm0 Q H H0 HQ HT). reflexivity.
Qed.

(* ---------------------------------------------------------------------- *)
(* two runs: the orthorhombic tensor in its own frame and in the frame Rq   *)
(* ---------------------------------------------------------------------- *)
Lemma frame_eye (vm0 : arr NumR) :
  eq4b (t4 (k_voigt_to_elastic_tensor vm0)) (rot4 (t4 (k_voigt_to_elastic_tensor vm0)) (mat3 (@eye3 NumR))).
Proof. apply eq4b_sym. eapply eq4b_trans; [apply rot4_extR, mat3_eye3|]. apply rot4_id. Qed.

Theorem ec1_frame_independent
  (M0 Ed0 Ev0 M Ed Ev Rq : arr NumR) (mud0 muv0 mud muv : nat -> R) (out0 out : list R) :
  let vm0 := k_upper_tri_to_symmetric_6 M0 in
  let vm := k_upper_tri_to_symmetric_6 M in
  let T0 := t4 (k_voigt_to_elastic_tensor vm0) in
  (* the tensor: orthorhombic in its own frame, distinct principal values, no tie *)
  sym6 vm0 -> ortho4 T0 ->
  distinct3 (fun k => dil4 T0 k k) -> distinct3 (fun k => dev4 T0 k k) ->
  (exists kst, strict_min3 (hex_dist T0) kst) ->
  (* the unrotated run *)
  orth (mat3 Ed0) -> eigcols (mat3 (fst (k_voigt_decompose vm0))) (mat3 Ed0) mud0 ->
  orth (mat3 Ev0) -> eigcols (mat3 (snd (k_voigt_decompose vm0))) (mat3 Ev0) muv0 ->
  @elasticity_components1 NumR M0 Ed0 Ev0 = Ok out0 ->
  (* the rotated run *)
  sym6 vm -> orth (mat3 Rq) -> eq4b (t4 (k_voigt_to_elastic_tensor vm)) (rot4 T0 (mat3 Rq)) ->
  orth (mat3 Ed) -> eigcols (mat3 (fst (k_voigt_decompose vm))) (mat3 Ed) mud ->
  orth (mat3 Ev) -> eigcols (mat3 (snd (k_voigt_decompose vm))) (mat3 Ev) muv ->
  @elasticity_components1 NumR M Ed Ev = Ok out ->
  (forall n, (n < 8)%nat -> List.nth n out 0 = List.nth n out0 0) /\
  exists sgn, pm1 sgn /\
    forall a, (a < 3)%nat ->
      List.nth (8 + a) out 0 = sgn * sum3 (fun b => mat3 Rq a b * List.nth (8 + b) out0 0).
Proof.
  intros vm0 vm T0 Hs0 HT0 Hdd Hdv (kst & Hmin) HEd0 HEdv0 HEv0 HEvv0 H0 Hs HR HT HEd HEdv HEv HEvv H.
  pose proof (proj1 (proj2 C12_nonvacuous_proof)) as HI.
  destruct (ec1_selected M0 Ed0 Ev0 (@eye3 NumR) T0 mud0 muv0 out0 kst Hs0 HT0 HI (frame_eye vm0)
              Hdd Hdv HEd0 HEdv0 HEv0 HEvv0 Hmin H0) as (sg0 & P0 & O0).
  destruct (ec1_selected M Ed Ev Rq T0 mud muv out kst Hs HT0 HR HT
              Hdd Hdv HEd HEdv HEv HEvv Hmin H) as (sg & P & O).
  fold vm0 in O0. fold vm in O.
  rewrite (aniso_tensor_invariant vm vm0 (mat3 Rq) Hs Hs0 HR HT) in O.
  rewrite (norm21_sumsq (k_voigt_matrix_to_vector vm)), (sumsq_tensor_invariant vm vm0 (mat3 Rq) Hs Hs0 HR HT),
          <- (norm21_sumsq (k_voigt_matrix_to_vector vm0)) in O.
  destruct (KG_tensor_invariant vm vm0 (mat3 Rq) Hs Hs0 HR HT) as (EK & EG). rewrite EK, EG in O.
  rewrite O, O0. split.
  - intros n Hn. unfold pcts. do 8 (destruct n as [|n]; [reflexivity|]). exfalso; lia.
  - exists (sg * sg0). split.
    { destruct P as [-> | ->]; destruct P0 as [-> | ->]; unfold pm1; lra. }
    intros a Ha. unfold pcts. cbn [app]. unfold sum3.
    change (8 + 0)%nat with 8%nat. change (8 + 1)%nat with 9%nat. change (8 + 2)%nat with 10%nat.
    cbn [List.nth].
    pose proof (pm1_sq _ P0) as S0.
    assert (Hk: (kst < 3)%nat) by apply Hmin.
    rewrite !(mat3_eye3 _ kst) by lia. unfold id3.
    three_c a; three_c kst; cbn [Nat.add List.nth Nat.eqb];
      match goal with |- sg * ?m = _ => transitivity (sg * (sg0 * sg0) * m); [rewrite S0; ring | ring] end.
Qed.

(* (i) as a statement of its own: in ANY admissible run on the rotated orthorhombic tensor the
   distance computed for candidate i is the canonical distance hex_dist T0 k of the axis
   k = pi ((i+2) mod 3) that the candidate puts third, and the axis it would report is +- Rq e_k *)
Theorem candidate_distance (vm Ed Ev Rq : arr NumR) (T0 : T4) (mud muv : nat -> R) :
  sym6 vm -> ortho4 T0 -> orth (mat3 Rq) ->
  eq4b (t4 (k_voigt_to_elastic_tensor vm)) (rot4 T0 (mat3 Rq)) ->
  distinct3 (fun k => dil4 T0 k k) -> distinct3 (fun k => dev4 T0 k k) ->
  orth (mat3 Ed) -> eigcols (mat3 (fst (k_voigt_decompose vm))) (mat3 Ed) mud ->
  orth (mat3 Ev) -> eigcols (mat3 (snd (k_voigt_decompose vm))) (mat3 Ev) muv ->
  exists pi s, signed_cols Ed Rq pi s /\
    forall i K G delta tric mono ortho tetr hex,
      @frame_parts NumR vm (@iso_vector NumR K G) (@sccs_rotation NumR Ed Ev i)
        = Ok (delta, (tric, mono, ortho, tetr, hex)) ->
      delta = hex_dist T0 (pi ((i + 2) mod 3)) /\
      [delta; tric; mono; ortho; tetr; hex] = cand3 T0 (@iso_vector NumR K G) (pi ((i + 2) mod 3)) /\
      forall a, (a < 3)%nat ->
        @sccs_rotation NumR Ed Ev i (6 + a)%nat = s ((i + 2) mod 3) * mat3 Rq a (pi ((i + 2) mod 3)).
Proof.
  intros Hsym HT0 HR HT Hdd Hdv HEd HEdv HEv HEvv.
  destruct (sccs_is_R vm Ed Ev Rq T0 mud muv Hsym HT0 HR HT Hdd Hdv HEd HEdv HEv HEvv)
    as (pi & s & (D1 & D2 & D3) & Hrows).
  exists pi, s. split; [exact (conj D1 (conj D2 D3))|].
  intros i K G d t m o te h Hf.
  assert (Hm: forall r, ((i + r) mod 3 < 3)%nat) by (intros r; apply Nat.mod_upper_bound; lia).
  assert (C: [d; t; m; o; te; h] = cand3 T0 (@iso_vector NumR K G) (pi ((i + 2) mod 3))).
  { apply (frame_cand vm (@sccs_rotation NumR Ed Ev i) Rq T0 (fun r => pi ((i + r) mod 3)) (fun r => s ((i + r) mod 3)) K G HT0 HR HT);
      [ | | | exact Hf].
    - intros r Hr. apply D1, Hm.
    - intros r r' Hr Hr' E. apply (cyc_inj i r r' Hr Hr'). apply D2; [apply Hm | apply Hm | exact E].
    - intros r a Hr Ha. apply Hrows; assumption. }
  split; [apply (f_equal (fun l => List.nth 0 l 0)) in C; exact C|]. split; [exact C|].
  intros a Ha. rewrite <- (Hrows i 2%nat a ltac:(lia) Ha). reflexivity.
Qed.

(* the function does return (no Err NonFinite) as soon as the candidate distances are below |x| *)
Lemma sel_some fp pay (nx d0 d1 d2 : R) p0 p1 p2 :
  fp 0%nat = Ok (d0, p0) -> fp 1%nat = Ok (d1, p1) -> fp 2%nat = Ok (d2, p2) -> d0 < nx ->
  exists dist l, fold_left (sel_step fp pay) [0; 1; 2]%nat (Ok (nx, None)) = Ok (dist, Some l).
Proof.
  intros F0 F1 F2 H0. cbn [fold_left]. unfold sel_step. rewrite F0, F1, F2.
  rewrite (proj2 (Rltb_true d0 nx) H0).
  destruct (Rltb d1 d0); destruct (Rltb d2 _); eexists; eexists; reflexivity.
Qed.

Lemma frame_parts_ok (vm iso Rt : arr NumR) : exists d p, @frame_parts NumR vm iso Rt = Ok (d, p).
Proof. unfold frame_parts. rewrite hex_ok. eexists; eexists; reflexivity. Qed.

Theorem ec1_ok (M Ed Ev Rq : arr NumR) (T0 : T4) (mud muv : nat -> R) :
  let vm := k_upper_tri_to_symmetric_6 M in
  sym6 vm -> ortho4 T0 -> orth (mat3 Rq) ->
  eq4b (t4 (k_voigt_to_elastic_tensor vm)) (rot4 T0 (mat3 Rq)) ->
  distinct3 (fun k => dil4 T0 k k) -> distinct3 (fun k => dev4 T0 k k) ->
  orth (mat3 Ed) -> eigcols (mat3 (fst (k_voigt_decompose vm))) (mat3 Ed) mud ->
  orth (mat3 Ev) -> eigcols (mat3 (snd (k_voigt_decompose vm))) (mat3 Ev) muv ->
  (forall k, (k < 3)%nat -> hex_dist T0 k < @norm21 NumR (k_voigt_matrix_to_vector vm)) ->
  exists out, @elasticity_components1 NumR M Ed Ev = Ok out.
Proof.
  intros vm Hsym HT0 HR HT Hdd Hdv HEd HEdv HEv HEvv Hlt.
  rewrite ec1_as_select. fold vm.
  destruct (candidate_distance vm Ed Ev Rq T0 mud muv Hsym HT0 HR HT Hdd Hdv HEd HEdv HEv HEvv)
    as (pi & s & (D1 & _ & _) & HC).
  destruct (frame_parts_ok vm (@iso_vector NumR (Kof vm) (Gof vm)) (@sccs_rotation NumR Ed Ev 0)) as (d0 & p0 & F0).
  destruct (frame_parts_ok vm (@iso_vector NumR (Kof vm) (Gof vm)) (@sccs_rotation NumR Ed Ev 1)) as (d1 & p1 & F1).
  destruct (frame_parts_ok vm (@iso_vector NumR (Kof vm) (Gof vm)) (@sccs_rotation NumR Ed Ev 2)) as (d2 & p2 & F2).
  assert (H0: d0 < @norm21 NumR (k_voigt_matrix_to_vector vm)).
  { destruct p0 as [[[[t0 m0] o0] te0] h0]. destruct (HC 0%nat _ _ _ _ _ _ _ _ F0) as (E & _). rewrite E.
    apply Hlt. apply D1. apply Nat.mod_upper_bound. lia. }
  destruct (sel_some (ec1_fp vm Ed Ev) (ec1_pay vm Ed Ev) _ d0 d1 d2 p0 p1 p2 F0 F1 F2 H0) as (dist & l & E).
  match goal with |- context [fold_left ?f ?li ?i] =>
    replace (fold_left f li i) with (@Ok (R * option (list R)) (dist, Some l)) by (symmetry; exact E) end.
  eexists; reflexivity.
Qed.

(* three pairwise different distances have a strict minimum *)
Lemma distinct_strict_min (D : nat -> R) :
  D 0%nat <> D 1%nat -> D 0%nat <> D 2%nat -> D 1%nat <> D 2%nat -> exists k, strict_min3 D k.
Proof.
  intros N01 N02 N12.
  destruct (Rlt_le_dec (D 0%nat) (D 1%nat)) as [A|A]; destruct (Rlt_le_dec (D 0%nat) (D 2%nat)) as [B|B];
    destruct (Rlt_le_dec (D 1%nat) (D 2%nat)) as [C|C].
  all: first [ exists 0%nat; split; [lia|]; intros k' Hk' Hn; three_c k'; try lia; lra
             | exists 1%nat; split; [lia|]; intros k' Hk' Hn; three_c k'; try lia; lra
             | exists 2%nat; split; [lia|]; intros k' Hk' Hn; three_c k'; try lia; lra ].
Qed.

(* ---------------------------------------------------------------------- *)
(* the hypotheses are satisfiable: diag(1,2,4,1,1,1) has distances^2 5/2, 37/8, 5/8 *)
(* ---------------------------------------------------------------------- *)
Definition M_ortho_example2 : arr NumR := fun k =>
  match k with 0%nat => 1 | 7%nat => 2 | 14%nat => 4 | 21%nat => 1 | 28%nat => 1 | 35%nat => 1 | _ => 0 end.

Lemma ex2_dist k v : (k < 3)%nat ->
  v = match k with 0%nat => 5 / 2 | 1%nat => 37 / 8 | _ => 5 / 8 end ->
  hex_dist (t4 (k_voigt_to_elastic_tensor M_ortho_example2)) k = sqrt v.
Proof.
  intros Hk ->. unfold hex_dist, nrm. cbv zeta. f_equal.
  three_c k;
  cbv [sumsq seq fold_right]; unf;
  lazy [ovec3 ovec ovec9 mk_arr List.nth t4 k_voigt_to_elastic_tensor M_ortho_example2
        Nat.add Nat.mul Nat.modulo Nat.divmod fst snd Nat.sub]; numR; sfield.
Qed.

Lemma C12_strict_min_nonvacuous_proof :
  let vm := M_ortho_example2 in let T0 := t4 (k_voigt_to_elastic_tensor vm) in
  sym6 vm /\ ortho4 T0 /\
  distinct3 (fun k => dil4 T0 k k) /\ distinct3 (fun k => dev4 T0 k k) /\
  exists kst, strict_min3 (hex_dist T0) kst.
Proof.
  intros vm T0.
  split. { intros i j Hi Hj. six_cases i; six_cases j; reflexivity. }
  split.
  { intros p q r s Hp Hq Hr Hs' Hn. unfold T0. rewrite vte_index_exhaustive by assumption.
    three_c p; three_c q; three_c r; three_c s; try discriminate Hn; reflexivity. }
  split; [|split].
  1,2: unfold distinct3, dil4, dev4, sum3, T0;
    rewrite !vte_index_exhaustive by lia;
    cbv [mat6 vidx Nat.eqb Nat.sub Nat.add Nat.mul vm M_ortho_example2]; repeat split; lra.
  exists 2%nat. split; [lia|]. intros k' Hk' Hn. unfold T0, vm.
  rewrite (ex2_dist 2 (5 / 8)) by (try lia; reflexivity).
  three_c k'; try (exfalso; lia).
  - rewrite (ex2_dist 0 (5 / 2)) by (try lia; reflexivity). apply sqrt_lt_1_alt. lra.
  - rewrite (ex2_dist 1 (37 / 8)) by (try lia; reflexivity). apply sqrt_lt_1_alt. lra.
Qed.

(* the two clauses of ec1_frame_independent separately (for Properties/C12.v) *)
Corollary ec1_hex_axis_corotates
  (M0 Ed0 Ev0 M Ed Ev Rq : arr NumR) (mud0 muv0 mud muv : nat -> R) (out0 out : list R) :
  let vm0 := k_upper_tri_to_symmetric_6 M0 in
  let vm := k_upper_tri_to_symmetric_6 M in
  let T0 := t4 (k_voigt_to_elastic_tensor vm0) in
  sym6 vm0 -> ortho4 T0 ->
  distinct3 (fun k => dil4 T0 k k) -> distinct3 (fun k => dev4 T0 k k) ->
  (exists kst, strict_min3 (hex_dist T0) kst) ->
  orth (mat3 Ed0) -> eigcols (mat3 (fst (k_voigt_decompose vm0))) (mat3 Ed0) mud0 ->
  orth (mat3 Ev0) -> eigcols (mat3 (snd (k_voigt_decompose vm0))) (mat3 Ev0) muv0 ->
  @elasticity_components1 NumR M0 Ed0 Ev0 = Ok out0 ->
  sym6 vm -> orth (mat3 Rq) -> eq4b (t4 (k_voigt_to_elastic_tensor vm)) (rot4 T0 (mat3 Rq)) ->
  orth (mat3 Ed) -> eigcols (mat3 (fst (k_voigt_decompose vm))) (mat3 Ed) mud ->
  orth (mat3 Ev) -> eigcols (mat3 (snd (k_voigt_decompose vm))) (mat3 Ev) muv ->
  @elasticity_components1 NumR M Ed Ev = Ok out ->
  exists sgn, pm1 sgn /\
    forall a, (a < 3)%nat ->
      List.nth (8 + a) out 0 = sgn * sum3 (fun b => mat3 Rq a b * List.nth (8 + b) out0 0).
Proof.
  intros vm0 vm T0 A1 A2 A3 A4 A5 A6 A7 A8 A9 A10 A11 A12 A13 A14 A15 A16 A17 A18.
  exact (proj2 (ec1_frame_independent M0 Ed0 Ev0 M Ed Ev Rq mud0 muv0 mud muv out0 out
                  A1 A2 A3 A4 A5 A6 A7 A8 A9 A10 A11 A12 A13 A14 A15 A16 A17 A18)).
Qed.

Corollary ec1_outputs_frame_invariant
  (M0 Ed0 Ev0 M Ed Ev Rq : arr NumR) (mud0 muv0 mud muv : nat -> R) (out0 out : list R) :
  let vm0 := k_upper_tri_to_symmetric_6 M0 in
  let vm := k_upper_tri_to_symmetric_6 M in
  let T0 := t4 (k_voigt_to_elastic_tensor vm0) in
  sym6 vm0 -> ortho4 T0 ->
  distinct3 (fun k => dil4 T0 k k) -> distinct3 (fun k => dev4 T0 k k) ->
  (exists kst, strict_min3 (hex_dist T0) kst) ->
  orth (mat3 Ed0) -> eigcols (mat3 (fst (k_voigt_decompose vm0))) (mat3 Ed0) mud0 ->
  orth (mat3 Ev0) -> eigcols (mat3 (snd (k_voigt_decompose vm0))) (mat3 Ev0) muv0 ->
  @elasticity_components1 NumR M0 Ed0 Ev0 = Ok out0 ->
  sym6 vm -> orth (mat3 Rq) -> eq4b (t4 (k_voigt_to_elastic_tensor vm)) (rot4 T0 (mat3 Rq)) ->
  orth (mat3 Ed) -> eigcols (mat3 (fst (k_voigt_decompose vm))) (mat3 Ed) mud ->
  orth (mat3 Ev) -> eigcols (mat3 (snd (k_voigt_decompose vm))) (mat3 Ev) muv ->
  @elasticity_components1 NumR M Ed Ev = Ok out ->
  forall n, (n < 8)%nat -> List.nth n out 0 = List.nth n out0 0.
Proof.
  intros vm0 vm T0 A1 A2 A3 A4 A5 A6 A7 A8 A9 A10 A11 A12 A13 A14 A15 A16 A17 A18.
  exact (proj1 (ec1_frame_independent M0 Ed0 Ev0 M Ed Ev Rq mud0 muv0 mud muv out0 out
                  A1 A2 A3 A4 A5 A6 A7 A8 A9 A10 A11 A12 A13 A14 A15 A16 A17 A18)).
Qed.

(* ---------------------------------------------------------------------- *)
(* ... and so are the hypotheses about the runs: diag(1,2,4,1,1,1) with both *)
(* eigh oracles returning the identity                                      *)
(* ---------------------------------------------------------------------- *)
Lemma ovec_extb f g p q r : eq4b f g -> (p < 3)%nat -> (q < 3)%nat -> (r < 3)%nat ->
  veq (ovec f p q r) (ovec g p q r).
Proof.
  intros H Hp Hq Hr k Hk. destruct (le_lt_dec 9 k) as [H9|H9].
  - rewrite !ovec_tail by assumption. reflexivity.
  - do 9 (destruct k as [|k]; [lazy [ovec ovec9 mk_arr List.nth]; rewrite !H by assumption; reflexivity|]).
    exfalso; lia.
Qed.

Lemma hex_dist_extb f g k : eq4b f g -> (k < 3)%nat -> hex_dist f k = hex_dist g k.
Proof.
  intros H Hk.
  assert (E: veq (ovec3 f k) (ovec3 g k)).
  { unfold ovec3. apply ovec_extb; [exact H | apply Nat.mod_upper_bound; lia | apply Nat.mod_upper_bound; lia | exact Hk]. }
  change (List.nth 0 (cand (ovec3 f k) (fun _ => 0)) 0 = List.nth 0 (cand (ovec3 g k) (fun _ => 0)) 0).
  rewrite (cand_ext _ _ _ (fun _ => 0) E (fun _ _ => eq_refl)). reflexivity.
Qed.

Lemma uts_ex2 k : (k < 36)%nat -> k_upper_tri_to_symmetric_6 M_ortho_example2 k = M_ortho_example2 k.
Proof.
  intros Hk.
  do 36 (destruct k as [|k]; [lazy [k_upper_tri_to_symmetric_6 M_ortho_example2 mk_arr List.nth]; numR; clean_ite; reflexivity|]).
  exfalso; lia.
Qed.

Lemma uts_ex2_tensor :
  eq4b (t4 (k_voigt_to_elastic_tensor (k_upper_tri_to_symmetric_6 M_ortho_example2)))
       (t4 (k_voigt_to_elastic_tensor M_ortho_example2)).
Proof.
  intros p q r s Hp Hq Hr Hs. rewrite !vte_index_exhaustive by assumption. unfold mat6.
  apply uts_ex2. pose proof (vidx_lt p q Hp Hq). pose proof (vidx_lt r s Hr Hs). lia.
Qed.

Lemma distinct3_ext (a b : nat -> R) : (forall k, (k < 3)%nat -> a k = b k) -> distinct3 b -> distinct3 a.
Proof. intros H (A & B & C). unfold distinct3. rewrite !H by lia. repeat split; assumption. Qed.

Lemma C12_run_nonvacuous_proof :
  let M0 := M_ortho_example2 in
  let vm0 := k_upper_tri_to_symmetric_6 M0 in
  let T0 := t4 (k_voigt_to_elastic_tensor vm0) in
  let I3 := @eye3 NumR in
  exists mud muv out,
    sym6 vm0 /\ ortho4 T0 /\
    distinct3 (fun k => dil4 T0 k k) /\ distinct3 (fun k => dev4 T0 k k) /\
    (exists kst, strict_min3 (hex_dist T0) kst) /\
    orth (mat3 I3) /\ eq4b (t4 (k_voigt_to_elastic_tensor vm0)) (rot4 T0 (mat3 I3)) /\
    eigcols (mat3 (fst (k_voigt_decompose vm0))) (mat3 I3) mud /\
    eigcols (mat3 (snd (k_voigt_decompose vm0))) (mat3 I3) muv /\
    @elasticity_components1 NumR M0 I3 I3 = Ok out.
Proof.
  intros M0 vm0 T0 I3.
  destruct C12_strict_min_nonvacuous_proof as (_ & HO & Hdd & Hdv & (kst & Hk & Hmin)).
  pose proof uts_ex2_tensor as HE. fold M0 vm0 T0 in HE.
  set (mud := fun j : nat => mat3 (fst (k_voigt_decompose vm0)) j j).
  set (muv := fun j : nat => mat3 (snd (k_voigt_decompose vm0)) j j).
  assert (Hsym: sym6 vm0).
  { intros i j Hi Hj. unfold mat6, vm0, M0. rewrite !uts_ex2 by lia. six_cases i; six_cases j; reflexivity. }
  assert (HO': ortho4 T0) by (apply (ortho4_extb _ _ HE), HO).
  assert (Hdd': distinct3 (fun k => dil4 T0 k k)).
  { eapply distinct3_ext; [|exact Hdd]. intros k Hk'. apply (dil4_extb _ _ HE); assumption. }
  assert (Hdv': distinct3 (fun k => dev4 T0 k k)).
  { eapply distinct3_ext; [|exact Hdv]. intros k Hk'. apply (dev4_extb _ _ HE); assumption. }
  assert (Hmin': strict_min3 (hex_dist T0) kst).
  { split; [exact Hk|]. intros k' Hk' Hn. rewrite !(hex_dist_extb _ _ _ HE) by assumption. apply Hmin; assumption. }
  pose proof (proj1 (proj2 C12_nonvacuous_proof)) as HI. fold I3 in HI.
  assert (HEd: eigcols (mat3 (fst (k_voigt_decompose vm0))) (mat3 I3) mud).
  { intros j i Hj Hi. unfold mud, mv, colv, sum3, vm0, M0, I3.
    three_c j; three_c i;
      lazy [k_voigt_decompose fst snd mat3 eye3 mk_arr List.nth Nat.add Nat.mul Nat.eqb
            k_upper_tri_to_symmetric_6 M_ortho_example2]; numR; clean_ite; ring. }
  assert (HEv: eigcols (mat3 (snd (k_voigt_decompose vm0))) (mat3 I3) muv).
  { intros j i Hj Hi. unfold muv, mv, colv, sum3, vm0, M0, I3.
    three_c j; three_c i;
      lazy [k_voigt_decompose fst snd mat3 eye3 mk_arr List.nth Nat.add Nat.mul Nat.eqb
            k_upper_tri_to_symmetric_6 M_ortho_example2]; numR; clean_ite; ring. }
  assert (Hnx: @norm21 NumR (k_voigt_matrix_to_vector vm0) = sqrt 33).
  { rewrite norm21_sumsq. f_equal. unfold vm0, M0.
    cbv [sumsq seq fold_right];
    lazy [k_voigt_matrix_to_vector k_upper_tri_to_symmetric_6 M_ortho_example2 mk_arr List.nth]; numR; clean_ite.
    pose proof sqrt2_sq as Hs. set (s := sqrt 2) in *. ring [Hs]. }
  destruct (ec1_ok M0 I3 I3 I3 T0 mud muv Hsym HO' HI (frame_eye vm0) Hdd' Hdv' HI HEd HI HEv) as (out & Hout).
  { intros k Hk'. fold vm0. rewrite Hnx. rewrite (hex_dist_extb _ _ _ HE) by assumption. unfold M0.
    three_c k.
    - rewrite (ex2_dist 0 (5 / 2)) by (try lia; reflexivity). apply sqrt_lt_1_alt. lra.
    - rewrite (ex2_dist 1 (37 / 8)) by (try lia; reflexivity). apply sqrt_lt_1_alt. lra.
    - rewrite (ex2_dist 2 (5 / 8)) by (try lia; reflexivity). apply sqrt_lt_1_alt. lra. }
  exists mud, muv, out.
  repeat (split; [assumption|]).
  split; [exists kst; exact Hmin'|]. split; [exact HI|]. split; [apply frame_eye|].
  split; [exact HEd|]. split; [exact HEv|]. exact Hout.
Qed.

(* ---------------------------------------------------------------------- *)
(* the sum rule on the whole function                                      *)
(* ---------------------------------------------------------------------- *)
(* sum over a bijection of {0,1,2} *)
Lemma sum3_reindex (pi : nat -> nat) (g : nat -> R) :
  (forall r, (r < 3)%nat -> (pi r < 3)%nat) ->
  (forall r r', (r < 3)%nat -> (r' < 3)%nat -> pi r = pi r' -> r = r') ->
  sum3 (fun r => g (pi r)) = sum3 g.
Proof.
  intros H1 H2. unfold sum3.
  pose proof (H1 0%nat ltac:(lia)) as A0. pose proof (H1 1%nat ltac:(lia)) as A1. pose proof (H1 2%nat ltac:(lia)) as A2.
  pose proof (H2 0 1 ltac:(lia) ltac:(lia))%nat as I01. pose proof (H2 0 2 ltac:(lia) ltac:(lia))%nat as I02.
  pose proof (H2 1 2 ltac:(lia) ltac:(lia))%nat as I12.
  destruct (pi 0%nat) as [|[|[|a]]]; [ | | | exfalso; lia];
  (destruct (pi 1%nat) as [|[|[|b]]]; [ | | | exfalso; lia]);
  (destruct (pi 2%nat) as [|[|[|c]]]; [ | | | exfalso; lia]);
  try (exfalso; lia); ring.
Qed.

(* a matrix whose rows are +- the columns pi' r of an orthogonal matrix is orthogonal *)
Lemma signed_rows_orth (Rt Rq : arr NumR) (pi' : nat -> nat) (s' : nat -> R) :
  orth (mat3 Rq) ->
  (forall r, (r < 3)%nat -> (pi' r < 3)%nat /\ pm1 (s' r)) ->
  (forall r r', (r < 3)%nat -> (r' < 3)%nat -> pi' r = pi' r' -> r = r') ->
  (forall r a, (r < 3)%nat -> (a < 3)%nat -> mat3 Rt r a = s' r * mat3 Rq a (pi' r)) ->
  orth (mat3 Rt).
Proof.
  intros HR H1 H2 Hrows a e Ha He.
  pose proof (orth_tr _ HR a e Ha He) as O. unfold tr3 in O.
  rewrite <- O. rewrite <- (sum3_reindex pi' (fun c => mat3 Rq a c * mat3 Rq e c) (fun r Hr => proj1 (H1 r Hr)) H2).
  unfold sum3. rewrite !Hrows by lia.
  pose proof (pm1_sq _ (proj2 (H1 0%nat ltac:(lia)))) as S0. pose proof (pm1_sq _ (proj2 (H1 1%nat ltac:(lia)))) as S1.
  pose proof (pm1_sq _ (proj2 (H1 2%nat ltac:(lia)))) as S2.
  transitivity ((s' 0%nat * s' 0%nat) * (mat3 Rq a (pi' 0%nat) * mat3 Rq e (pi' 0%nat))
              + (s' 1%nat * s' 1%nat) * (mat3 Rq a (pi' 1%nat) * mat3 Rq e (pi' 1%nat))
              + (s' 2%nat * s' 2%nat) * (mat3 Rq a (pi' 2%nat) * mat3 Rq e (pi' 2%nat))); [ring|].
  rewrite S0, S1, S2. ring.
Qed.

Lemma elastic_sym_extb f g : eq4b f g -> elastic_sym g -> elastic_sym f.
Proof.
  intros H (H1 & H2 & H3). repeat split.
  - eapply eq4b_trans; [apply sw12_b, H|]. eapply eq4b_trans; [apply H1|]. apply eq4b_sym, H.
  - eapply eq4b_trans; [apply sw34_b, H|]. eapply eq4b_trans; [apply H2|]. apply eq4b_sym, H.
  - eapply eq4b_trans; [apply swMaj_b, H|]. eapply eq4b_trans; [apply H3|]. apply eq4b_sym, H.
Qed.

Lemma sumsq21_nonneg (u : arr NumR) : 0 <= sumsq 21 u.
Proof.
  rewrite sumsq21_dot. cbv [dot21 seq fold_right].
  repeat apply Rplus_le_le_0_compat; try apply Rle_0_sqr; lra.
Qed.

Lemma nrm_sq a b : nrm a b * nrm a b = sumsq 21 (vsub a b).
Proof. unfold nrm. apply sqrt_sqrt, sumsq21_nonneg. Qed.

(* the sum rule for ONE candidate frame: for every symmetric Voigt matrix and every ORTHOGONAL
   candidate rotation the five squared class norms add up to |x - iso|^2 *)
Theorem frame_sum_rule (vm Rt : arr NumR) : sym6 vm -> orth (mat3 Rt) ->
  forall delta tric mono ortho tetr hex,
    @frame_parts NumR vm (@iso_vector NumR (Kof vm) (Gof vm)) Rt = Ok (delta, (tric, mono, ortho, tetr, hex)) ->
    tric * tric + mono * mono + ortho * ortho + tetr * tetr + hex * hex
    = sumsq 21 (vsub (k_voigt_matrix_to_vector vm) (iso_vec (Kof vm) (Gof vm))).
Proof.
  intros Hs HO delta tric mono ortho tetr hex H.
  pose proof (frame_parts_cand _ _ _ _ _ _ _ _ _ H) as C.
  set (T := @rotate4 NumR (k_voigt_to_elastic_tensor vm) Rt) in *.
  set (vmR := k_elastic_tensor_to_voigt T) in *. set (rv := k_voigt_matrix_to_vector vmR) in *.
  assert (HTT: eq4b (t4 T) (rot4 (t4 (k_voigt_to_elastic_tensor vm)) (mat3 Rt))).
  { unfold T. eapply eq4b_trans; [apply rotate4_is_k_rotate|]. apply rotate_is_mode_products. }
  assert (HsT: elastic_sym (t4 T)).
  { apply (elastic_sym_extb _ _ HTT). apply rot4_elastic_sym, vte_symmetries, Hs. }
  assert (HsR: sym6 vmR) by apply etv_symmetric.
  assert (HER: eq4b (t4 (k_voigt_to_elastic_tensor vmR)) (rot4 (t4 (k_voigt_to_elastic_tensor vm)) (mat3 Rt))).
  { eapply eq4b_trans; [apply vte_etv, HsT|]. exact HTT. }
  destruct (KG_tensor_invariant vmR vm (mat3 Rt) HsR Hs HO HER) as (EK & EG).
  destruct (KG_isotropic_projection vmR HsR) as (PK & PG). fold rv in PK, PG. rewrite EK, EG in PK, PG.
  set (K := Kof vm) in *. set (G := Gof vm) in *.
  pose proof (perp_plane_iso rv K G K G PK PG) as Hperp.
  pose proof (squares_add_up rv K G Hperp) as SQ. cbv zeta in SQ.
  pose proof (aniso_sq vmR HsR) as A1. cbv zeta in A1. fold rv in A1. rewrite EK, EG in A1. fold K G in A1.
  pose proof (aniso_sq vm Hs) as A0. cbv zeta in A0. fold K G in A0.
  pose proof (sumsq_tensor_invariant vmR vm (mat3 Rt) HsR Hs HO HER) as EN. fold rv in EN.
  unfold cand in C. cbv zeta in C.
  apply (f_equal (fun l => (List.nth 1 l 0, List.nth 2 l 0, List.nth 3 l 0, List.nth 4 l 0, List.nth 5 l 0))) in C.
  cbn [List.nth] in C.
  apply (f_equal (fun p => let '(a, b, c, d, e) := p in a * a + b * b + c * c + d * d + e * e)) in C.
  cbv beta iota in C. rewrite C.
  rewrite (nrm_ext _ _ _ (iso_vec K G) (fun k _ => eq_refl) (iso_vector_spec K G)).
  rewrite !nrm_sq. rewrite SQ. lra.
Qed.

(* whatever the loop selected is the payload of one of the three candidates *)
Lemma select_any fp pay (nx dist : R) l :
  fold_left (sel_step fp pay) [0; 1; 2]%nat (Ok (nx, None)) = Ok (dist, Some l) ->
  exists i dp, (i < 3)%nat /\ fp i = Ok dp /\ l = pay i dp.
Proof.
  cbn [fold_left]. unfold sel_step.
  destruct (fp 0%nat) as [[d0 p0]|e0] eqn:F0; [|discriminate].
  destruct (fp 1%nat) as [[d1 p1]|e1] eqn:F1; [|destruct (Rltb d0 nx); discriminate].
  destruct (fp 2%nat) as [[d2 p2]|e2] eqn:F2;
    [|destruct (Rltb d0 nx); [destruct (Rltb d1 d0) | destruct (Rltb d1 nx)]; discriminate].
  intros H.
  assert (Fin: forall b, (b = 0 \/ b = 1 \/ b = 2)%nat -> forall dp, fp b = Ok dp -> l = pay b dp ->
               exists i dp, (i < 3)%nat /\ fp i = Ok dp /\ l = pay i dp).
  { intros b Hb dp Hf Hl. exists b, dp. split; [lia|]. split; assumption. }
  destruct (Rltb d0 nx).
  - destruct (Rltb d1 d0).
    + destruct (Rltb d2 d1); inversion H; subst.
      * apply (Fin 2%nat ltac:(lia) _ F2 eq_refl).
      * apply (Fin 1%nat ltac:(lia) _ F1 eq_refl).
    + destruct (Rltb d2 d0); inversion H; subst.
      * apply (Fin 2%nat ltac:(lia) _ F2 eq_refl).
      * apply (Fin 0%nat ltac:(lia) _ F0 eq_refl).
  - destruct (Rltb d1 nx).
    + destruct (Rltb d2 d1); inversion H; subst.
      * apply (Fin 2%nat ltac:(lia) _ F2 eq_refl).
      * apply (Fin 1%nat ltac:(lia) _ F1 eq_refl).
    + destruct (Rltb d2 nx); inversion H; subst.
      apply (Fin 2%nat ltac:(lia) _ F2 eq_refl).
Qed.

(* the sum rule on the WHOLE function, for every input whose three candidate rotations are
   orthogonal: hex^2 + tetr^2 + ortho^2 + mono^2 + tric^2 = aniso^2 (percentages) *)
Theorem ec1_sum_rule_orth (M Ed Ev : arr NumR) out :
  let vm := k_upper_tri_to_symmetric_6 M in
  sym6 vm -> (forall i, (i < 3)%nat -> orth (mat3 (@sccs_rotation NumR Ed Ev i))) ->
  @elasticity_components1 NumR M Ed Ev = Ok out ->
  List.nth 3 out 0 * List.nth 3 out 0 + List.nth 4 out 0 * List.nth 4 out 0 + List.nth 5 out 0 * List.nth 5 out 0
  + List.nth 6 out 0 * List.nth 6 out 0 + List.nth 7 out 0 * List.nth 7 out 0
  = List.nth 2 out 0 * List.nth 2 out 0.
Proof.
  intros vm Hs HO H. rewrite ec1_as_select in H. fold vm in H.
  destruct (fold_left _ _ _) as [[dist [l|]]|e] eqn:EF; try discriminate.
  apply ok_inj in H. subst out.
  destruct (select_any _ _ _ _ _ EF) as (i & [d [[[[tric mono] ortho] tetr] hex]] & Hi & Hf & ->).
  pose proof (frame_sum_rule vm _ Hs (HO i Hi) _ _ _ _ _ _ Hf) as SR.
  unfold ec1_pay. cbn [List.nth].
  rewrite norm21_nrm.
  rewrite (nrm_ext _ _ _ (iso_vec (Kof vm) (Gof vm)) (fun k _ => eq_refl) (iso_vector_spec _ _)).
  rewrite <- nrm_sq in SR.
  set (n := nrm _ _) in *. set (nx := @norm21 NumR _) in *. change (T NumR) with R in *.
  transitivity ((tric * tric + mono * mono + ortho * ortho + tetr * tetr + hex * hex) * (100 / nx * (100 / nx))); [ring|].
  rewrite SR. unfold Rdiv. ring.
Qed.

Theorem ec1_ortho_sum_rule (M Ed Ev Rq : arr NumR) (T0 : T4) (mud muv : nat -> R) out :
  let vm := k_upper_tri_to_symmetric_6 M in
  sym6 vm -> ortho4 T0 -> orth (mat3 Rq) ->
  eq4b (t4 (k_voigt_to_elastic_tensor vm)) (rot4 T0 (mat3 Rq)) ->
  distinct3 (fun k => dil4 T0 k k) -> distinct3 (fun k => dev4 T0 k k) ->
  orth (mat3 Ed) -> eigcols (mat3 (fst (k_voigt_decompose vm))) (mat3 Ed) mud ->
  orth (mat3 Ev) -> eigcols (mat3 (snd (k_voigt_decompose vm))) (mat3 Ev) muv ->
  @elasticity_components1 NumR M Ed Ev = Ok out ->
  List.nth 3 out 0 * List.nth 3 out 0 + List.nth 4 out 0 * List.nth 4 out 0 + List.nth 5 out 0 * List.nth 5 out 0
  + List.nth 6 out 0 * List.nth 6 out 0 + List.nth 7 out 0 * List.nth 7 out 0
  = List.nth 2 out 0 * List.nth 2 out 0.
Proof.
  intros vm Hsym HT0 HR HT Hdd Hdv HEd HEdv HEv HEvv H.
  apply (ec1_sum_rule_orth M Ed Ev out Hsym); [|exact H].
  intros i Hi.
  destruct (sccs_is_R vm Ed Ev Rq T0 mud muv Hsym HT0 HR HT Hdd Hdv HEd HEdv HEv HEvv)
    as (pi & s & (D1 & D2 & D3) & Hrows).
  assert (Hm: forall r, ((i + r) mod 3 < 3)%nat) by (intros r; apply Nat.mod_upper_bound; lia).
  apply (signed_rows_orth _ Rq (fun r => pi ((i + r) mod 3)) (fun r => s ((i + r) mod 3)) HR).
  - intros r Hr. apply D1, Hm.
  - intros r r' Hr Hr' E. apply (cyc_inj i r r' Hr Hr'). apply D2; [apply Hm | apply Hm | exact E].
  - intros r a Hr Ha. apply Hrows; assumption.
Qed.
