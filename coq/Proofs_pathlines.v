(* Proofs_pathlines.v -- lemmas about Model_pathlines (R instance): _is_inside, _ivp_func,
   the time stamps returned by get_pathline, and the stateful terminal event. *)
From Coq Require Import Reals ZArith List Bool Lra Lia Psatz.
From PV Require Import Num NumR Model_pathlines.
From PV.gen Require Import Gen_velocity_utils.
Import ListNotations.
Open Scope R_scope.

Notation pointR := (@point NumR).

(* ------------------------------------------------------------------------- *)
(* _is_inside / _ivp_func                                                    *)
(* ------------------------------------------------------------------------- *)
(* coordinate-wise: mn_k <= pt_k <= mx_k *)
Fixpoint in_box (pt mn mx : list R) : Prop :=
  match pt, mn, mx with
  | p :: pt', a :: mn', b :: mx' => a <= p <= b /\ in_box pt' mn' mx'
  | _, _, _ => True
  end.

Lemma any2_lt_false (pt mn : list R) : length pt = length mn ->
  (@any2 NumR ltb pt mn = false <-> Forall2 (fun p a => a <= p) pt mn).
Proof.
  revert mn; induction pt as [|p pt IH]; intros [|a mn] Hl; try discriminate Hl; cbn [any2].
  - split; [constructor|reflexivity].
  - injection Hl as Hl. rewrite orb_false_iff, (IH mn Hl). numR. split.
    + intros [H1 H2]. bool2prop. constructor; assumption.
    + intros H. inversion H; subst. split; [apply Rltb_false|]; assumption.
Qed.

Lemma any2_gt_false (pt mx : list R) : length pt = length mx ->
  (@any2 NumR (fun a b => ltb b a) pt mx = false <-> Forall2 (fun p b => p <= b) pt mx).
Proof.
  revert mx; induction pt as [|p pt IH]; intros [|b mx] Hl; try discriminate Hl; cbn [any2].
  - split; [constructor|reflexivity].
  - injection Hl as Hl. rewrite orb_false_iff, (IH mx Hl). numR. split.
    + intros [H1 H2]. bool2prop. constructor; assumption.
    + intros H. inversion H; subst. split; [apply Rltb_false|]; assumption.
Qed.

Lemma in_box_Forall2 pt mn mx : length pt = length mn -> length mn = length mx ->
  (in_box pt mn mx <-> Forall2 (fun p a => a <= p) pt mn /\ Forall2 (fun p b => p <= b) pt mx).
Proof.
  revert mn mx; induction pt as [|p pt IH]; intros [|a mn] [|b mx] H1 H2;
    try discriminate H1; try discriminate H2; cbn [in_box].
  - split; [intros _; split; constructor|trivial].
  - injection H1 as H1. injection H2 as H2. rewrite (IH mn mx H1 H2). split.
    + intros [[Ha Hb] [F1 F2]]. split; constructor; assumption.
    + intros [F1 F2]. inversion F1; inversion F2; subst. tauto.
Qed.

Theorem is_inside_spec (pt mn mx : list R) :
  (length pt = length mn /\ length mn = length mx ->
     exists b, @is_inside NumR pt mn mx = Ok b /\ (b = true <-> in_box pt mn mx)) /\
  (~ (length pt = length mn /\ length mn = length mx) ->
     @is_inside NumR pt mn mx = Err AssertionError).
Proof.
  unfold is_inside. change (T NumR) with R. split.
  - intros [H1 H2]. rewrite H1, H2, !Nat.eqb_refl. cbn [andb negb].
    eexists; split; [reflexivity|].
    rewrite (in_box_Forall2 pt mn mx H1 H2), negb_true_iff, orb_false_iff.
    rewrite (any2_lt_false pt mn H1), (any2_gt_false pt mx (eq_trans H1 H2)). tauto.
  - intros Hn.
    destruct (Nat.eqb_spec (length pt) (length mn)) as [E1|E1];
      [destruct (Nat.eqb_spec (length mn) (length mx)) as [E2|E2]|]; cbn [andb negb];
      try reflexivity. exfalso; apply Hn; split; assumption.
Qed.

(* velocity inside the box; exactly zero (every component) outside it: once outside, a
   trajectory of dx/dt = ivp_func cannot move any more *)
Theorem ivp_func_spec_proof (get_velocity : pointR -> res pointR) (pt mn mx : list R) :
  length pt = length mn -> length mn = length mx ->
  (in_box pt mn mx -> @ivp_func NumR get_velocity mn mx pt = get_velocity pt) /\
  (~ in_box pt mn mx ->
     exists z, @ivp_func NumR get_velocity mn mx pt = Ok z /\ length z = length pt /\
               Forall (fun c => c = 0) z).
Proof.
  intros H1 H2. destruct (proj1 (is_inside_spec pt mn mx) (conj H1 H2)) as (b & E & Hb).
  unfold ivp_func. rewrite E. split; intros H.
  - destruct b; [reflexivity|]. apply Hb in H. discriminate.
  - destruct b; [exfalso; apply H, Hb; reflexivity|].
    eexists; split; [reflexivity|]. split; [apply map_length|].
    apply Forall_forall. intros c Hc. apply in_map_iff in Hc. destruct Hc as (u & <- & _). reflexivity.
Qed.

(* ------------------------------------------------------------------------- *)
(* time stamps                                                               *)
(* ------------------------------------------------------------------------- *)
Definition strictly_decreasing (l : list R) : Prop :=
  forall i j, (i < j < length l)%nat -> nth j l 0 < nth i l 0.
Definition strictly_increasing (l : list R) : Prop :=
  forall i j, (i < j < length l)%nat -> nth i l 0 < nth j l 0.

Lemma last_rev_hd (l : list R) : last (rev l) 0 = hd 0 l.
Proof. destruct l as [|a l]; [reflexivity|]. cbn [rev hd]. apply last_last. Qed.

(* regular_steps = None: path.t reversed *)
Theorem timestamps_solver_proof (ts : list R) :
  hd 0 ts = 0 -> strictly_decreasing ts ->
  strictly_increasing (@timestamps NumR ts None) /\ last (@timestamps NumR ts None) 0 = 0 /\
  length (@timestamps NumR ts None) = length ts.
Proof.
  intros H0 Hd. unfold timestamps. change (T NumR) with R in *.
  split; [|split; [rewrite last_rev_hd; exact H0|apply rev_length]].
  intros i j Hij. rewrite rev_length in Hij. rewrite !rev_nth by lia. apply Hd. lia.
Qed.

Lemma last_nth (l : list R) : last l 0 = nth (length l - 1) l 0.
Proof.
  induction l as [|a [|b l] IH]; try reflexivity.
  change (last (a :: b :: l) 0) with (last (b :: l) 0). rewrite IH. cbn [length].
  replace (S (S (length l)) - 1)%nat with (S (S (length l) - 1)) by lia. reflexivity.
Qed.

Lemma ofnat_p_R n : @ofnat_p NumR n = INR n.
Proof. unfold ofnat_p. numR. symmetry. apply INR_IZR_INZ. Qed.

Lemma linspace_R (a b : R) (n : nat) : (0 < n)%nat ->
  @linspace NumR a b n = map (fun i => a + INR i * ((b - a) / INR n)) (seq 0 n) ++ [b].
Proof.
  intros Hn. destruct n as [|n]; [lia|].
  unfold linspace. f_equal. apply map_ext. intros i. rewrite !ofnat_p_R. numR. reflexivity.
Qed.

Lemma linspace_length (a b : R) (n : nat) : length (@linspace NumR a b n) = S n.
Proof.
  destruct n as [|n]; [reflexivity|]. unfold linspace.
  rewrite app_length, map_length, seq_length. cbn [length]. lia.
Qed.

Lemma linspace_nth (a b : R) (n i : nat) : (0 < n)%nat -> (i <= n)%nat ->
  nth i (@linspace NumR a b n) 0 = a + INR i * ((b - a) / INR n).
Proof.
  intros Hn Hi. rewrite linspace_R by exact Hn. change (T NumR) with R in *.
  set (f := fun i0 : nat => a + INR i0 * ((b - a) / INR n)).
  assert (Hl : length (map f (seq 0 n)) = n) by (rewrite map_length, seq_length; reflexivity).
  destruct (Nat.eq_dec i n) as [->|Hne].
  - rewrite app_nth2 by lia. rewrite Hl, Nat.sub_diag. cbn [nth].
    assert (INR n <> 0) by (apply not_0_INR; lia). field. assumption.
  - rewrite app_nth1 by lia.
    rewrite nth_indep with (d' := f 0%nat) by lia.
    rewrite map_nth, seq_nth by lia. reflexivity.
Qed.

(* regular_steps = Some n: np.linspace(path.t[-1], path.t[0], n + 1) *)
Theorem timestamps_regular_proof (ts : list R) (n : nat) :
  (0 < n)%nat -> (2 <= length ts)%nat -> hd 0 ts = 0 -> strictly_decreasing ts ->
  let out := @timestamps NumR ts (Some n) in
  strictly_increasing out /\ last out 0 = 0 /\ length out = S n /\ hd 0 out = last ts 0.
Proof.
  intros Hn Hl H0 Hd out.
  assert (Ha : last ts 0 < 0).
  { rewrite last_nth. destruct ts as [|t0 ts']; [cbn in Hl; lia|]. cbn [hd] in H0. subst t0.
    assert (Hj : (0 < length (0%R :: ts') - 1 < length (0%R :: ts'))%nat) by (cbn [length] in *; lia).
    exact (Hd 0%nat (length (0%R :: ts') - 1)%nat Hj). }
  subst out. unfold timestamps.
  change (@hd (T NumR) (@nzero NumR) ts) with (hd 0 ts).
  change (@last (T NumR) ts (@nzero NumR)) with (last ts 0). rewrite H0.
  change (T NumR) with R in *. set (a := last ts 0) in *.
  assert (Hlen : length (@linspace NumR a 0 n) = S n) by apply linspace_length.
  assert (Hn0 : 0 < INR n) by (apply lt_0_INR; lia).
  assert (Hstep : 0 < (0 - a) / INR n) by (apply Rdiv_lt_0_compat; lra).
  change (T NumR) with R in *.
  split; [|split; [|split]].
  - intros i j Hij. rewrite Hlen in Hij. rewrite !linspace_nth by lia.
    assert (INR i < INR j) by (apply lt_INR; lia). nra.
  - rewrite last_nth, Hlen. replace (S n - 1)%nat with n by lia. rewrite linspace_nth by lia.
    field. lra.
  - exact Hlen.
  - change (hd 0 (@linspace NumR a 0 n)) with (hd 0 (@linspace NumR a 0 n)).
    assert (E : hd 0 (@linspace NumR a 0 n) = nth 0 (@linspace NumR a 0 n) 0).
    { destruct (@linspace NumR a 0 n); reflexivity. }
    rewrite E, linspace_nth by lia. cbn [INR]. ring.
Qed.

Lemma last_cons_default {A} (a : A) (l : list A) (d : A) : last (a :: l) d = last l a.
Proof.
  revert a d; induction l as [|b l IH]; intros a d; [reflexivity|].
  change (last (a :: b :: l) d) with (last (b :: l) d). rewrite (IH b d), (IH b a). reflexivity.
Qed.

(* ------------------------------------------------------------------------- *)
(* the stateful terminal event                                               *)
(* ------------------------------------------------------------------------- *)
Section Event.
  Variable get_gradient : pointR -> res (arr R).
  Variable eigmax : arr R -> R.           (* the eigenvalue oracle *)
  Variables mn mx : list R.

  (* the strain rate the event sees at a point *)
  Definition rate (x : pointR) : R :=
    match get_gradient x with Ok L => eigmax L | Err _ => 0 end.

  Definition good_call (c : R * pointR) : Prop :=
    @is_inside NumR (snd c) mn mx = Ok true /\ exists L, get_gradient (snd c) = Ok L.

  (* times run monotonically backwards from tp *)
  Fixpoint backward (tp : R) (calls : list (R * pointR)) : Prop :=
    match calls with
    | [] => True
    | (t, _) :: cs => t < tp /\ backward t cs
    end.

  (* max_strain minus the left Riemann sum of the strain rate along the calls *)
  Fixpoint back_values (tp s : R) (calls : list (R * pointR)) : list R :=
    match calls with
    | [] => []
    | (t, x) :: cs => let s' := s - Rabs (t - tp) * rate x in s' :: back_values t s' cs
    end.

  Lemma ev_step_backward st t x : good_call (t, x) -> t < @t_prev NumR st ->
    @ev_step NumR get_gradient eigmax mn mx st (t, x)
    = Ok (@mk_ev NumR t (@strain NumR st - Rabs (t - @t_prev NumR st) * rate x),
          @strain NumR st - Rabs (t - @t_prev NumR st) * rate x).
  Proof.
    intros [Hin [L HL]] Ht. unfold ev_step, rate. cbn [snd] in *. rewrite Hin, HL.
    unfold k_strain_increment. numR.
    destruct (Rltb (t_prev st) t) eqn:E; bool2prop; [lra|reflexivity].
  Qed.

  Lemma ev_step_forward st t x : good_call (t, x) -> @t_prev NumR st < t ->
    @ev_step NumR get_gradient eigmax mn mx st (t, x)
    = Ok (@mk_ev NumR t (@strain NumR st + Rabs (t - @t_prev NumR st) * rate x),
          @strain NumR st + Rabs (t - @t_prev NumR st) * rate x).
  Proof.
    intros [Hin [L HL]] Ht. unfold ev_step, rate. cbn [snd] in *. rewrite Hin, HL.
    unfold k_strain_increment. numR.
    destruct (Rltb (t_prev st) t) eqn:E; bool2prop; [reflexivity|lra].
  Qed.

  Theorem event_monotone_calls_proof (calls : list (R * pointR)) (tp s : R) :
    Forall good_call calls -> backward tp calls ->
    exists st, @ev_run NumR get_gradient eigmax mn mx (@mk_ev NumR tp s) calls
               = Ok (st, back_values tp s calls) /\
               @strain NumR st = last (back_values tp s calls) s /\
               @t_prev NumR st = last (map fst calls) tp.
  Proof.
    revert tp s. induction calls as [|[t x] cs IH]; intros tp s HF HB.
    - eexists; split; [reflexivity|]. split; reflexivity.
    - inversion HF as [|c l Hc HF']; subst. destruct HB as [Ht HB].
      cbn [ev_run back_values]. rewrite (ev_step_backward (@mk_ev NumR tp s) t x Hc Ht). cbn [t_prev strain].
      destruct (IH t (s - Rabs (t - tp) * rate x) HF' HB) as (st & E & Hs & Htp).
      rewrite E. exists st. split; [reflexivity|]. split.
      + rewrite Hs. symmetry. apply last_cons_default.
      + rewrite Htp. cbn [map fst]. symmetry. apply last_cons_default.
  Qed.

  (* the value returned for a call (t, x) is not a function of (t, x): two histories ending
     with the same call return different values as soon as the strain rate differs between
     two points of the domain *)
  Theorem event_not_a_function_proof (s0 t1 t2 : R) (x y : pointR) :
    t1 < t2 -> t2 < 0 -> good_call (t2, x) -> good_call (t1, y) -> rate x <> rate y ->
    exists stA vA stB vB1 vB,
      @ev_run NumR get_gradient eigmax mn mx (@ev_init NumR s0) [(t2, x)] = Ok (stA, [vA]) /\
      @ev_run NumR get_gradient eigmax mn mx (@ev_init NumR s0) [(t1, y); (t2, x)] = Ok (stB, [vB1; vB]) /\
      vA <> vB /\ vB - vA = Rabs t1 * (rate x - rate y).
  Proof.
    intros H12 H2 Gx Gy Hr. change (@ev_init NumR s0) with (@mk_ev NumR 0 s0). cbn [ev_run].
    rewrite (ev_step_backward (@mk_ev NumR 0 s0) t2 x Gx) by (cbn; lra).
    rewrite (ev_step_backward (@mk_ev NumR 0 s0) t1 y) by (try assumption; cbn; lra).
    cbn [t_prev strain].
    rewrite (ev_step_forward (@mk_ev NumR t1 _) t2 x Gx) by (cbn; lra). cbn [t_prev strain].
    do 5 eexists. split; [reflexivity|]. split; [reflexivity|].
    assert (E : s0 - Rabs (t1 - 0) * rate y + Rabs (t2 - t1) * rate x - (s0 - Rabs (t2 - 0) * rate x)
                = Rabs t1 * (rate x - rate y)).
    { rewrite !Rminus_0_r. rewrite (Rabs_left t1), (Rabs_left t2), (Rabs_right (t2 - t1)) by lra. ring. }
    split; [|exact E].
    intros Heq. rewrite <- Heq in E. assert (Rabs t1 * (rate x - rate y) = 0) by lra.
    rewrite (Rabs_left t1) in H by lra. apply Rmult_integral in H. destruct H; lra.
  Qed.

  (* outside the box the event always returns 0 and keeps its state *)
  Lemma ev_step_outside st t x : @is_inside NumR x mn mx = Ok false ->
    @ev_step NumR get_gradient eigmax mn mx st (t, x) = Ok (st, 0).
  Proof. intros H. unfold ev_step. rewrite H. reflexivity. Qed.
End Event.

(* a concrete instance of the hypotheses of event_not_a_function (non-vacuity): a gradient
   whose shear entry grows with the first coordinate, box [-1,1] *)
Definition toy_gradient (x : pointR) : res (arr R) :=
  Ok (mk_arr 0 [0; 0; 2 * hd 0 x; 0; 0; 0; 0; 0; 0]).
Definition toy_eigmax (L : arr R) : R := Rabs (L 2%nat / 2).

Lemma event_hypotheses_satisfiable :
  good_call toy_gradient [-1] [1] (-1, [1 / 2]) /\ good_call toy_gradient [-1] [1] (-2, [1 / 4]) /\
  rate toy_gradient toy_eigmax [1 / 2] <> rate toy_gradient toy_eigmax [1 / 4].
Proof.
  assert (I1 : @is_inside NumR [1 / 2] [-1] [1] = Ok true).
  { unfold is_inside; cbn [length Nat.eqb andb negb any2]. numR.
    destruct (Rltb (1 / 2) (-1)) eqn:E1; bool2prop; [lra|].
    destruct (Rltb 1 (1 / 2)) eqn:E2; bool2prop; [lra|]. reflexivity. }
  assert (I2 : @is_inside NumR [1 / 4] [-1] [1] = Ok true).
  { unfold is_inside; cbn [length Nat.eqb andb negb any2]. numR.
    destruct (Rltb (1 / 4) (-1)) eqn:E1; bool2prop; [lra|].
    destruct (Rltb 1 (1 / 4)) eqn:E2; bool2prop; [lra|]. reflexivity. }
  split; [split; [exact I1|eexists; reflexivity]|].
  split; [split; [exact I2|eexists; reflexivity]|].
  unfold rate, toy_gradient, toy_eigmax, mk_arr. cbn [nth hd].
  rewrite !Rabs_right by lra. lra.
Qed.
