(* Proofs_scsv.v -- lemmas about Model_scsv (C16). *)
From Coq Require Import String Ascii List ZArith Bool NArith Lia.
From PV Require Import Model_scsv.
Import ListNotations.
Open Scope string_scope.

(* ------------------------------------------------------------ generic helpers *)
Lemma andb_true_l : forall a b, a && b = true -> a = true.
Proof. intros a b H; apply andb_true_iff in H; tauto. Qed.
Lemma andb_true_r : forall a b, a && b = true -> b = true.
Proof. intros a b H; apply andb_true_iff in H; tauto. Qed.

Ltac split_andb :=
  repeat match goal with
         | H : _ && _ = true |- _ => apply andb_true_iff in H; destruct H
         end.

Lemma negb_true : forall b, negb b = true -> b = false.
Proof. destruct b; simpl; congruence. Qed.

Lemma ftok_eqb_eq : forall x y : ftok,
  (match x, y with
   | FNan, FNan => true
   | FInf a, FInf b => Bool.eqb a b
   | FFin a, FFin b => String.eqb a b
   | _, _ => false end) = true -> x = y.
Proof.
  destruct x, y; simpl; intros H; try discriminate; auto.
  - apply Bool.eqb_prop in H; congruence.
  - apply String.eqb_eq in H; congruence.
Qed.

Lemma cell_eqb_eq : forall a b, cell_eqb a b = true -> a = b.
Proof.
  intros x y H; destruct x, y; simpl in H; try discriminate.
  - apply String.eqb_eq in H; congruence.
  - apply Z.eqb_eq in H; congruence.
  - apply ftok_eqb_eq in H; congruence.
  - apply Bool.eqb_prop in H; congruence.
  - apply andb_true_iff in H; destruct H as [H1 H2].
    apply ftok_eqb_eq in H1; apply ftok_eqb_eq in H2; congruence.
Qed.

Lemma res_cell_eqb_eq : forall r c, res_cell_eqb r c = true -> r = Ok c.
Proof. destruct r; simpl; intros c H; [apply cell_eqb_eq in H; congruence | discriminate]. Qed.

Lemma list_str_eqb_refl : forall l, list_str_eqb l l = true.
Proof. induction l; simpl; auto. rewrite String.eqb_refl; auto. Qed.

Lemma list_str_eqb_eq : forall a b, list_str_eqb a b = true -> a = b.
Proof.
  induction a; destruct b; simpl; intros H; try discriminate; auto.
  apply andb_true_iff in H; destruct H as [H1 H2]. apply String.eqb_eq in H1. f_equal; auto.
Qed.

Lemma plain_strip : forall s, plain s = true -> strip s = s.
Proof. unfold plain; intros s H. apply andb_true_l in H. apply String.eqb_eq; auto. Qed.

Lemma map_strip_plain : forall l, forallb plain l = true -> map strip l = l.
Proof.
  induction l; simpl; intros H; auto. apply andb_true_iff in H; destruct H.
  rewrite plain_strip, IHl; auto.
Qed.

(* ------------------------------------------------------------ zip( * ) *)
Fixpoint zipcons {A} (c : list A) (R : list (list A)) : list (list A) :=
  match c, R with
  | x :: c', r :: R' => (x :: r) :: zipcons c' R'
  | _, _ => []
  end.

Lemma zipcons_nil_r : forall A (c : list A), zipcons c [] = [].
Proof. destruct c; reflexivity. Qed.

Section Zip.
Context {A : Type}.

Lemma heads_some : forall n (cs : list (list A)),
  Forall (fun c => length c = S n) cs -> exists hs, heads cs = Some hs /\ length hs = length cs.
Proof.
  induction cs; intros H.
  - exists []; auto.
  - inversion H; subst. destruct a as [|x a']; [discriminate|].
    destruct (IHcs H3) as [hs [E L]]. exists (x :: hs); simpl; rewrite E; simpl; auto.
Qed.

Lemma tl_lengths : forall n (cs : list (list A)),
  Forall (fun c => length c = S n) cs -> Forall (fun c => length c = n) (map (@tl A) cs).
Proof.
  induction cs; intros H; simpl; constructor; inversion H; subst; auto.
  destruct a; simpl in *; congruence.
Qed.

Lemma zipn_cons : forall n (c : list A) cs,
  length c = n -> Forall (fun c => length c = n) cs ->
  zipn n (c :: cs) = zipcons c (zipn n cs).
Proof.
  induction n; intros c cs L F.
  - destruct c; [|discriminate]. reflexivity.
  - destruct c as [|x c']; [discriminate|]. simpl in L.
    destruct (heads_some n cs F) as [hs [E _]].
    simpl. rewrite E. simpl. f_equal.
    apply IHn; [lia | apply tl_lengths; auto].
Qed.

Lemma zipn_nil : forall n, zipn n (@nil (list A)) = repeat [] n.
Proof. induction n; simpl; auto. f_equal; auto. Qed.

Lemma zipn_length : forall n (cs : list (list A)),
  Forall (fun c => length c = n) cs -> length (zipn n cs) = n.
Proof.
  induction n; intros cs F; auto.
  destruct (heads_some n cs F) as [hs [E _]]. simpl. rewrite E. simpl. f_equal.
  apply IHn. apply tl_lengths; auto.
Qed.

Lemma heads_zipcons : forall (c : list A) R,
  c <> [] -> length c = length R -> heads (zipcons c R) = Some c.
Proof.
  induction c as [|x c IH]; intros R N L; [congruence|].
  destruct R as [|r R]; [discriminate|]. simpl.
  destruct c as [|y c].
  - destruct R; [|discriminate]. reflexivity.
  - rewrite IH; auto; try discriminate. all: try (simpl in *; lia).
Qed.

Lemma tl_zipcons : forall (c : list A) R,
  length c = length R -> map (@tl A) (zipcons c R) = R.
Proof.
  induction c as [|x c IH]; intros R L; destruct R; try discriminate; auto.
  simpl. f_equal. apply IH. simpl in L; lia.
Qed.

Lemma zipcons_length : forall (c : list A) R,
  length c = length R -> length (zipcons c R) = length c.
Proof.
  induction c; intros R L; destruct R; try discriminate; auto. simpl. f_equal. apply IHc. simpl in L; lia.
Qed.

(* every cell of a row of zip( *cols ) is a cell of a column; rows have one cell per column *)
Lemma heads_forall : forall (P : A -> Prop) (cs : list (list A)) hs,
  Forall (Forall P) cs -> heads cs = Some hs -> Forall P hs /\ length hs = length cs.
Proof.
  induction cs; intros hs F E; simpl in E.
  - inversion E; subst; auto.
  - destruct a as [|x a']; [discriminate|]. inversion F; subst.
    destruct (heads cs) eqn:E'; [|discriminate]. inversion E; subst.
    destruct (IHcs l H2 eq_refl). inversion H1; subst. split; [constructor; auto | simpl; auto].
Qed.

Lemma tl_forall : forall (P : A -> Prop) (cs : list (list A)),
  Forall (Forall P) cs -> Forall (Forall P) (map (@tl A) cs).
Proof.
  induction cs; intros F; simpl; constructor; inversion F; subst; auto.
  destruct a; simpl; auto. inversion H1; auto.
Qed.

Lemma zipn_forall : forall (P : A -> Prop) n (cs : list (list A)),
  Forall (Forall P) cs ->
  Forall (fun r => Forall P r /\ length r = length cs) (zipn n cs).
Proof.
  induction n; intros cs F; simpl; auto.
  destruct (heads cs) eqn:E; auto.
  destruct (heads_forall P cs l F E). constructor; auto.
  specialize (IHn (map (@tl A) cs) (tl_forall P cs F)). rewrite map_length in IHn. auto.
Qed.
End Zip.

(* ------------------------------------------------------------ the round trip *)
Lemma map_res_cons_inv : forall A B (f : A -> res B) x l R,
  map_res f (x :: l) = Ok R -> exists y ys, f x = Ok y /\ map_res f l = Ok ys /\ R = y :: ys.
Proof.
  intros A B f x l R H. simpl in H. destruct (f x) as [y|]; [|discriminate]. simpl in H.
  destruct (map_res f l) as [ys|]; [|discriminate]. simpl in H. inversion H. eauto.
Qed.

Lemma all_nil_repeat : forall A n, all_nil (repeat (@nil A) n) = true.
Proof. induction n; simpl; auto. Qed.

Section RoundTrip.
Variable O : oracles.

Definition names (s : schema) : list string :=
  match sfields s with Some fs => map name_str fs | None => [] end.

(* the two global hypotheses on the csv layer (checked on the real module at run time) *)
Definition row_transportable (r : list string) : Prop :=
  Forall (fun x => plain x = true) r /\ r <> [] /\ r <> ["---"].

Definition oracle_ok : Prop :=
  (forall d, csv_legal d = true -> o_delim_err O d = None) /\
  (forall d rows, csv_legal d = true -> Forall row_transportable rows ->
                  o_transport O d rows = Ok rows).

Lemma validate_true_inv : forall s, validate_schema O s = Ok true ->
  exists d m fs, sdelim s = Some d /\ smissing s = Some m /\ sfields s = Some fs /\ fs <> [] /\
                 String.eqb d m = false /\ contains m d = false /\
                 validate_fields O fs = Ok true.
Proof.
  unfold validate_schema; intros s H.
  destruct (sdelim s) as [d|]; [|discriminate].
  destruct (smissing s) as [m|]; [|discriminate].
  destruct (sfields s) as [fs|]; [|discriminate].
  exists d, m, fs.
  destruct fs as [|f fs]; [simpl in H; discriminate|].
  destruct (String.eqb d m); [simpl in H; rewrite ?andb_false_r in H; discriminate|].
  destruct (contains m d); [simpl in H; rewrite ?andb_false_r in H; discriminate|].
  simpl in H. repeat split; auto; discriminate.
Qed.

Definition tf_of (f : field) (tf : ty * yval) : Prop :=
  typemap (type_of f) = Some (fst tf) /\ snd tf = fill_of f.

Lemma validate_fields_types : forall fs, validate_fields O fs = Ok true ->
  exists tfs, field_types fs = Ok tfs /\ Forall2 tf_of fs tfs.
Proof.
  induction fs as [|f fs IH]; intros H.
  - exists []; split; [reflexivity | constructor].
  - simpl in H. destruct (fname f) as [[| n | | | |]|]; try discriminate.
    destruct (negb (o_is_ident O n)); [discriminate|].
    destruct (typemap (type_of f)) as [t|] eqn:Et; [|discriminate].
    destruct (negb (ty_eqb t TStr || ty_eqb t TBool) && negb (has_fill f)); [discriminate|].
    destruct (IH H) as [tfs [E F]]. exists ((t, fill_of f) :: tfs).
    unfold field_types in *. simpl. rewrite Et. simpl. rewrite E. simpl. split; auto.
    constructor; auto. split; auto.
Qed.

Definition tf_faithful (a b : ty * yval) : Prop :=
  fst a = fst b /\
  (fst a = TBool \/ exists c, conv O (fst a) (snd a) = Ok c /\ read_fill O (fst a) (snd b) = Ok c).

Lemma ty_eqb_eq : forall a b, ty_eqb a b = true -> a = b.
Proof. destruct a, b; simpl; congruence. Qed.

Lemma fills_faithful_tfs : forall fs fs' tfs tfs',
  fills_faithful O fs fs' = true -> Forall2 tf_of fs tfs -> Forall2 tf_of fs' tfs' ->
  Forall2 tf_faithful tfs tfs' /\ map name_str fs = map name_str fs'.
Proof.
  induction fs as [|f fs IH]; intros fs' tfs tfs' H F F'; destruct fs' as [|f' fs']; simpl in H; try discriminate.
  - inversion F; inversion F'; subst. split; auto.
  - inversion F as [|? tf ? tfs0 [Et Ev] Fr]; subst.
    inversion F' as [|? tf' ? tfs0' [Et' Ev'] Fr']; subst.
    rewrite Et, Et' in H.
    apply andb_true_iff in H; destruct H as [H Hrest].
    apply andb_true_iff in H; destruct H as [Hn Hty].
    apply andb_true_iff in Hty; destruct Hty as [Hty Hfill].
    destruct (IH _ _ _ Hrest Fr Fr') as [G N].
    apply String.eqb_eq in Hn. apply ty_eqb_eq in Hty.
    split; [|simpl; congruence].
    constructor; auto. split; auto.
    apply orb_true_iff in Hfill. destruct Hfill as [B|B].
    + left. apply ty_eqb_eq; auto.
    + right. rewrite <- Ev in B. destruct (conv O (fst tf) (snd tf)) as [c|] eqn:Ec; [|discriminate].
      exists c. split; auto. rewrite Ev'. apply res_cell_eqb_eq; auto.
Qed.

(* ---- cells *)
Lemma parse_verbatim : forall m t d v,
  cl_plain O d = true -> cl_not_missing O m d = true -> cl_text_rt O t d = true ->
  parse_cell O t (pystr O d) m v = Ok d.
Proof.
  unfold cl_plain, cl_not_missing, cl_text_rt, parse_cell; intros m t d v P N T.
  rewrite (plain_strip _ P). apply negb_true in N. rewrite N.
  destruct t; apply res_cell_eqb_eq; exact T.
Qed.

Lemma cell_ok_subst : forall k m t v d, cell_ok O k m t v d = true ->
  exists b, substituted O t v d = Ok b /\ (b = true -> conv O t v = Ok d).
Proof.
  unfold cell_ok; intros k m t v d H. split_andb.
  unfold cl_fill_exact in H2. destruct (substituted O t v d) as [[|]|]; try discriminate.
  - exists true; split; auto. intros _. apply res_cell_eqb_eq; auto.
  - exists false; split; auto. discriminate.
Qed.

Lemma save_cell_ok : forall k m t v d, cell_ok O k m t v d = true ->
  save_cell O m t v d = Ok (out_text O m t v d).
Proof.
  intros k m t v d H. destruct (cell_ok_subst _ _ _ _ _ H) as [b [S _]].
  unfold cell_ok in H. split_andb.
  unfold save_cell, out_text. rewrite (parse_verbatim m t d v); auto.
  rewrite S. simpl. destruct b; reflexivity.
Qed.

Lemma parse_out_ok : forall k m t v v' d,
  plain m = true -> cell_ok O k m t v d = true -> tf_faithful (t, v) (t, v') ->
  parse_cell O t (out_text O m t v d) m v' = Ok d.
Proof.
  intros k m t v v' d Pm H [_ Ff]. destruct (cell_ok_subst _ _ _ _ _ H) as [b [S Sb]].
  unfold out_text. rewrite S. destruct b.
  - unfold parse_cell. rewrite (plain_strip _ Pm), String.eqb_refl.
    simpl in Ff. destruct Ff as [B | [c [C R]]].
    + subst t. simpl in S. discriminate.
    + rewrite (Sb eq_refl) in C. congruence.
  - unfold cell_ok in H. split_andb. apply parse_verbatim; auto.
Qed.

(* ---- columns *)
Fixpoint out_cols (m : string) (tfs : list (ty * yval)) (data : list (list cell)) : list (list string) :=
  match tfs, data with
  | (t, v) :: tfs', c :: data' => map (out_text O m t v) c :: out_cols m tfs' data'
  | _, _ => []
  end.

Lemma map_res_cons : forall A B (f : A -> res B) x l,
  map_res f (x :: l) = bind (f x) (fun y => bind (map_res f l) (fun ys => Ok (y :: ys))).
Proof. reflexivity. Qed.

Lemma save_row_cons : forall m t v tfs' d r,
  save_row O m ((t, v) :: tfs') (d :: r)
  = bind (save_cell O m t v d) (fun x => bind (save_row O m tfs' r) (fun r' => Ok (x :: r'))).
Proof. reflexivity. Qed.

Lemma save_col : forall k m t v tfs' (c : list cell) R R',
  forallb (cell_ok O k m t v) c = true -> map_res (save_row O m tfs') R = Ok R' ->
  map_res (save_row O m ((t, v) :: tfs')) (zipcons c R) = Ok (zipcons (map (out_text O m t v) c) R').
Proof.
  induction c as [|d c IH]; intros R R' F H; [reflexivity|].
  simpl in F. apply andb_true_iff in F. destruct F as [Fd Fc].
  destruct R as [|r R].
  - simpl in H. inversion H. reflexivity.
  - destruct (map_res_cons_inv _ _ _ _ _ _ H) as [r' [R0' [E1 [E2 E3]]]]. subst R'.
    change (zipcons (d :: c) (r :: R)) with ((d :: r) :: zipcons c R).
    change (zipcons (map (out_text O m t v) (d :: c)) (r' :: R0'))
      with ((out_text O m t v d :: r') :: zipcons (map (out_text O m t v) c) R0').
    rewrite map_res_cons, save_row_cons.
    rewrite (save_cell_ok _ _ _ _ _ Fd). unfold bind at 2. rewrite E1. unfold bind at 2.
    rewrite (IH R R0' Fc E2). reflexivity.
Qed.

Lemma save_rows_nil : forall m n, map_res (save_row O m []) (repeat [] n) = Ok (repeat [] n).
Proof. induction n; [reflexivity|]. simpl repeat. rewrite map_res_cons, IHn. reflexivity. Qed.

Lemma cols_ok_shape : forall k n m tfs data, cols_ok O k n m tfs data = true ->
  Forall (fun c => length c = n) data /\ length data = length tfs /\
  Forall (fun c => length c = n) (out_cols m tfs data).
Proof.
  induction tfs as [|[t v] tfs IH]; intros data H; destruct data as [|c data]; simpl in H; try discriminate.
  - repeat split; constructor.
  - split_andb. destruct (IH _ H0) as [A [B C]]. apply Nat.eqb_eq in H.
    repeat split; simpl; try constructor; auto. rewrite map_length; auto.
Qed.

Lemma save_rows_ok : forall k n m tfs data, cols_ok O k n m tfs data = true ->
  map_res (save_row O m tfs) (zipn n data) = Ok (zipn n (out_cols m tfs data)).
Proof.
  induction tfs as [|[t v] tfs IH]; intros data H; destruct data as [|c data]; simpl in H; try discriminate.
  - simpl out_cols. rewrite !zipn_nil. apply save_rows_nil.
  - pose proof H as H'. split_andb. apply Nat.eqb_eq in H0.
    destruct (cols_ok_shape _ _ _ _ _ H1) as [A [B C]].
    rewrite zipn_cons; auto. simpl out_cols. rewrite zipn_cons; auto; [|rewrite map_length; auto].
    eapply save_col; eauto.
Qed.

Lemma parse_col_ok : forall k m t v v' c,
  plain m = true -> forallb (cell_ok O k m t v) c = true -> tf_faithful (t, v) (t, v') ->
  map_res (fun x => parse_cell O t x m v') (map (out_text O m t v) c) = Ok c.
Proof.
  induction c as [|d c IH]; intros Pm F Ff; [reflexivity|].
  simpl in F. apply andb_true_iff in F. destruct F as [Fd Fc].
  simpl. rewrite (parse_out_ok k m t v v' d); auto. simpl. rewrite IH; auto.
Qed.

Lemma read_cols_cons : forall m t f tfs' body, body <> [] ->
  read_cols O m ((t, f) :: tfs') body =
  match heads body with
  | None => Err EValue
  | Some hs => bind (map_res (fun x => parse_cell O t x m f) hs) (fun col =>
               bind (read_cols O m tfs' (map (@tl string) body)) (fun rest => Ok (col :: rest)))
  end.
Proof. intros m t f tfs' body N. destruct body; [congruence | reflexivity]. Qed.

Lemma read_cols_ok : forall k n m tfs tfs' data,
  n <> 0 -> plain m = true -> cols_ok O k n m tfs data = true -> Forall2 tf_faithful tfs tfs' ->
  read_cols O m tfs' (zipn n (out_cols m tfs data)) = Ok data.
Proof.
  induction tfs as [|[t v] tfs IH]; intros tfs' data Hn Pm H F; destruct data as [|c data]; simpl in H; try discriminate;
    inversion F; subst.
  - simpl. rewrite zipn_nil, all_nil_repeat. reflexivity.
  - destruct y as [t' v']. pose proof H as H'. split_andb. apply Nat.eqb_eq in H0.
    destruct (cols_ok_shape _ _ _ _ _ H1) as [A [B C]].
    simpl out_cols. rewrite zipn_cons; auto; [|rewrite map_length; auto].
    pose proof (zipn_length n _ C) as LR.
    set (oc := map (out_text O m t v) c) in *. set (R := zipn n (out_cols m tfs data)) in *.
    assert (Loc : length oc = n) by (unfold oc; rewrite map_length; auto).
    assert (Noc : oc <> []) by (intro E; rewrite E in Loc; simpl in Loc; congruence).
    assert (Lb : length (zipcons oc R) = n) by (rewrite zipcons_length; congruence).
    pose proof (heads_zipcons oc R Noc ltac:(congruence)) as Hh.
    pose proof (tl_zipcons oc R ltac:(congruence)) as Ht.
    assert (Nb : zipcons oc R <> []) by (intro E; rewrite E in Lb; simpl in Lb; congruence).
    rewrite read_cols_cons; auto.
    rewrite Hh. pose proof H2 as Hf. destruct Hf as [Et _]. simpl in Et. subst t'.
    unfold oc. rewrite (parse_col_ok k m t v v' c); auto. unfold bind at 1.
    fold oc. rewrite Ht. unfold R. rewrite (IH l' data); auto.
Qed.
End RoundTrip.

(* ------------------------------------------------------------ assembly *)
Section Assembly.
Variable O : oracles.

Lemma existsb_lengths : forall (c0 : list cell) (rest : list (list cell)),
  Forall (fun c => length c = length c0) rest ->
  existsb (fun c => negb (Nat.eqb (length c) (length c0))) rest = false.
Proof.
  induction rest; intros F; simpl; auto. inversion F; subst.
  rewrite H1, Nat.eqb_refl. simpl. auto.
Qed.

Lemma out_cell_plain : forall k m t v d, plain m = true -> cell_ok O k m t v d = true ->
  plain (out_text O m t v d) = true /\ (k = 1 -> out_text O m t v d <> "---").
Proof.
  intros k m t v d Pm H. unfold cell_ok in H. split_andb. split.
  - unfold out_text. destruct (substituted O t v d) as [[|]|]; auto.
  - intros K E. unfold cl_no_fence in H0. rewrite E, K in H0. simpl in H0. discriminate.
Qed.

Lemma out_cols_cells : forall k n m tfs data, plain m = true -> cols_ok O k n m tfs data = true ->
  Forall (Forall (fun x => plain x = true /\ (k = 1 -> x <> "---"))) (out_cols O m tfs data).
Proof.
  induction tfs as [|[t v] tfs IH]; intros data Pm H; destruct data as [|c data]; simpl in H; try discriminate;
    simpl; constructor.
  - apply andb_true_iff in H; destruct H as [H _]. apply andb_true_iff in H; destruct H as [_ Hc].
    induction c; simpl; constructor; simpl in Hc; apply andb_true_iff in Hc; destruct Hc.
    + eapply out_cell_plain; eauto.
    + apply IHc; auto.
  - apply andb_true_iff in H; destruct H as [_ H]. apply IH; auto.
Qed.

Definition rep_facts (s : schema) (data : list (list cell)) d m fs tfs : Prop :=
  sdelim s = Some d /\ smissing s = Some m /\ sfields s = Some fs /\ fs <> [] /\
  field_types fs = Ok tfs /\ Forall2 (tf_of) fs tfs /\
  csv_legal d = true /\ plain m = true /\ nrows_of data <> 0 /\
  forallb (fun n => plain n && negb (String.eqb n "---")) (map name_str fs) = true /\
  o_nt_ok O (map name_str fs) = true /\
  cols_ok O (length fs) (nrows_of data) m tfs data = true.

Lemma representable_inv : forall s data,
  validate_schema O s = Ok true -> representable O s data = true ->
  exists d m fs tfs, rep_facts s data d m fs tfs.
Proof.
  intros s data V R. destruct (validate_true_inv O s V) as [d [m [fs [Ed [Em [Ef [Nf [_ [_ Vf]]]]]]]]].
  destruct (validate_fields_types O fs Vf) as [tfs [Et F]].
  unfold representable in R. rewrite Ed, Em, Ef, Et in R. split_andb.
  exists d, m, fs, tfs. unfold rep_facts. repeat split; auto.
  apply negb_true in H3. apply Nat.eqb_neq; auto.
Qed.

Lemma save_spec : forall s data d m fs tfs,
  (forall d, csv_legal d = true -> o_delim_err O d = None) ->
  validate_schema O s = Ok true -> rep_facts s data d m fs tfs ->
  save O s data = Ok (map name_str fs :: zipn (nrows_of data) (out_cols O m tfs data)).
Proof.
  intros s data d m fs tfs HD V [Ed [Em [Ef [Nf [Et [F [Cd [Pm [Nn [Pn [Nt C]]]]]]]]]]].
  destruct data as [|c0 rest]; [simpl in Nn; congruence|].
  unfold save. simpl nrows_of in *.
  destruct (cols_ok_shape O _ _ _ _ _ C) as [A _]. inversion A; subst.
  rewrite existsb_lengths; auto. rewrite V. simpl bind. cbv iota. simpl negb. cbv iota.
  rewrite Ed, Em, Ef, Et. simpl bind. rewrite (HD d Cd).
  rewrite (save_rows_ok O _ _ _ _ _ C). reflexivity.
Qed.

Lemma forallb_weaken : forall l,
  forallb (fun n => plain n && negb (String.eqb n "---")) l = true -> forallb plain l = true.
Proof.
  induction l; simpl; intros H; auto. split_andb. rewrite H, IHl; auto.
Qed.

Lemma Forall2_len : forall A B (P : A -> B -> Prop) l l', Forall2 P l l' -> length l = length l'.
Proof. induction 1; simpl; auto. Qed.

Lemma out_cols_length : forall k n m tfs data, cols_ok O k n m tfs data = true ->
  length (out_cols O m tfs data) = length tfs.
Proof.
  induction tfs as [|[t v] tfs IH]; intros data C; destruct data; simpl in C; try discriminate; auto.
  simpl. f_equal. apply andb_true_iff in C; destruct C as [_ C]. eauto.
Qed.

Lemma rows_transportable : forall s data d m fs tfs, rep_facts s data d m fs tfs ->
  Forall (row_transportable) (map name_str fs :: zipn (nrows_of data) (out_cols O m tfs data)).
Proof.
  intros s data d m fs tfs [Ed [Em [Ef [Nf [Et [F [Cd [Pm [Nn [Pn [Nt C]]]]]]]]]]].
  assert (LK : length (out_cols O m tfs data) = length fs).
  { rewrite (out_cols_length _ _ _ _ _ C). symmetry. eapply Forall2_len; eauto. }
  assert (K1 : length fs <> 0) by (destruct fs; [congruence | simpl; lia]).
  constructor.
  - split; [|split].
    + apply forallb_weaken in Pn. clear -Pn. induction (map name_str fs); constructor; simpl in Pn;
        apply andb_true_iff in Pn; destruct Pn; auto.
    + destruct fs; [congruence | discriminate].
    + intro E. rewrite E in Pn. simpl in Pn. discriminate.
  - pose proof (out_cols_cells (length fs) (nrows_of data) m tfs data Pm C) as OC.
    pose proof (zipn_forall _ (nrows_of data) _ OC) as ZF.
    eapply Forall_impl; [|exact ZF]. intros r [Pr Lr]. rewrite LK in Lr. split; [|split].
    + eapply Forall_impl; [|exact Pr]. simpl; tauto.
    + intro E. subst r. simpl in Lr. lia.
    + intro E. subst r. simpl in Lr. inversion Pr as [|? ? [_ K] ?]; subst. apply K; auto.
Qed.

Theorem roundtrip_proof : forall s y data,
  oracle_ok O -> validate_schema O s = Ok true -> representable O s data = true ->
  header_faithful O s y = true ->
  read_back O s y data = Ok (names s, data).
Proof.
  intros s y data [HD HT] V R HF.
  destruct (representable_inv s data V R) as [d [m [fs [tfs RF]]]].
  pose proof (save_spec s data d m fs tfs HD V RF) as SS.
  destruct RF as [Ed [Em [Ef [Nf [Et [F [Cd [Pm [Nn [Pn [Nt C]]]]]]]]]]].
  unfold read_back. rewrite SS. simpl bind. rewrite Ed.
  destruct (cols_ok_shape O _ _ _ _ _ C) as [A [B Cc]].
  (* transport *)
  rewrite HT; auto.
  2:{ eapply rows_transportable; unfold rep_facts; repeat split; eauto. }
  simpl bind.
  (* read *)
  unfold header_faithful in HF. destruct y as [|s']; [discriminate|].
  apply andb_true_iff in HF. destruct HF as [V' HF].
  destruct (validate_schema O s') as [[|]|] eqn:EV'; try discriminate.
  destruct (validate_true_inv O s' EV') as [d' [m' [fs' [Ed' [Em' [Ef' [Nf' [_ [_ Vf']]]]]]]]].
  rewrite Ed, Ed', Em, Em', Ef, Ef' in HF. split_andb.
  apply String.eqb_eq in H. apply String.eqb_eq in H1. subst d' m'.
  destruct (validate_fields_types O fs' Vf') as [tfs' [Et' F']].
  destruct (fills_faithful_tfs O fs fs' tfs tfs' H0 F F') as [FF NN].
  unfold read. rewrite EV'. simpl bind. cbv iota. simpl negb. cbv iota.
  rewrite Ed', Em', Ef'. rewrite (HD d Cd).
  rewrite <- NN. rewrite (map_strip_plain _ (forallb_weaken _ Pn)), list_str_eqb_refl. simpl negb. cbv iota.
  rewrite Nt. simpl negb. cbv iota. rewrite Et'. simpl bind.
  rewrite (read_cols_ok O (length fs) (nrows_of data) m tfs tfs' data); auto.
  simpl. unfold names. rewrite Ef. reflexivity.
Qed.
End Assembly.
