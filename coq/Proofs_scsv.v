(* Proofs_scsv.v -- lemmas about Model_scsv (C16). *)
From Coq Require Import String Ascii List ZArith Bool NArith Lia.
From PV Require Import Model_scsv.
Import ListNotations.
Open Scope string_scope.

(* ------------------------------------------------------------ generic helpers *)
Lemma andb_true_l : forall a b, a && b = true -> a = true.
Proof. intros a b H; apply andb_true_iff in H; tauto. Qed.
Lemma andb_true_r : forall a b, a && b = true -> b = true.
Proof. intros a b H; apply andb_true_iff in H; tauto. Qed.

Ltac split_andb :=
  repeat match goal with
         | H : _ && _ = true |- _ => apply andb_true_iff in H; destruct H
         end.

Lemma negb_true : forall b, negb b = true -> b = false.
Proof. destruct b; simpl; congruence. Qed.

Lemma ftok_eqb_eq : forall x y : ftok,
  (match x, y with
   | FNan, FNan => true
   | FInf a, FInf b => Bool.eqb a b
   | FFin a, FFin b => String.eqb a b
   | _, _ => false end) = true -> x = y.
Proof.
  destruct x, y; simpl; intros H; try discriminate; auto.
  - apply Bool.eqb_prop in H; congruence.
  - apply String.eqb_eq in H; congruence.
Qed.

Lemma cell_eqb_eq : forall a b, cell_eqb a b = true -> a = b.
Proof.
  intros x y H; destruct x, y; simpl in H; try discriminate.
  - apply String.eqb_eq in H; congruence.
  - apply Z.eqb_eq in H; congruence.
  - apply ftok_eqb_eq in H; congruence.
  - apply Bool.eqb_prop in H; congruence.
  - apply andb_true_iff in H; destruct H as [H1 H2].
    apply ftok_eqb_eq in H1; apply ftok_eqb_eq in H2; congruence.
Qed.

Lemma res_cell_eqb_eq : forall r c, res_cell_eqb r c = true -> r = Ok c.
Proof. destruct r; simpl; intros c H; [apply cell_eqb_eq in H; congruence | discriminate]. Qed.

Lemma list_str_eqb_refl : forall l, list_str_eqb l l = true.
Proof. induction l; simpl; auto. rewrite String.eqb_refl; auto. Qed.

Lemma list_str_eqb_eq : forall a b, list_str_eqb a b = true -> a = b.
Proof.
  induction a; destruct b; simpl; intros H; try discriminate; auto.
  apply andb_true_iff in H; destruct H as [H1 H2]. apply String.eqb_eq in H1. f_equal; auto.
Qed.

Lemma plain_strip : forall s, plain s = true -> strip s = s.
Proof. unfold plain; intros s H. apply andb_true_l in H. apply String.eqb_eq; auto. Qed.

Lemma map_strip_plain : forall l, forallb plain l = true -> map strip l = l.
Proof.
  induction l; simpl; intros H; auto. apply andb_true_iff in H; destruct H.
  rewrite plain_strip, IHl; auto.
Qed.

(* ------------------------------------------------------------ zip( * ) *)
Fixpoint zipcons {A} (c : list A) (R : list (list A)) : list (list A) :=
  match c, R with
  | x :: c', r :: R' => (x :: r) :: zipcons c' R'
  | _, _ => []
  end.

Lemma zipcons_nil_r : forall A (c : list A), zipcons c [] = [].
Proof. destruct c; reflexivity. Qed.

Section Zip.
Context {A : Type}.

Lemma heads_some : forall n (cs : list (list A)),
  Forall (fun c => length c = S n) cs -> exists hs, heads cs = Some hs /\ length hs = length cs.
Proof.
  induction cs; intros H.
  - exists []; auto.
  - inversion H; subst. destruct a as [|x a']; [discriminate|].
    destruct (IHcs H3) as [hs [E L]]. exists (x :: hs); simpl; rewrite E; simpl; auto.
Qed.

Lemma tl_lengths : forall n (cs : list (list A)),
  Forall (fun c => length c = S n) cs -> Forall (fun c => length c = n) (map (@tl A) cs).
Proof.
  induction cs; intros H; simpl; constructor; inversion H; subst; auto.
  destruct a; simpl in *; congruence.
Qed.

Lemma zipn_cons : forall n (c : list A) cs,
  length c = n -> Forall (fun c => length c = n) cs ->
  zipn n (c :: cs) = zipcons c (zipn n cs).
Proof.
  induction n; intros c cs L F.
  - destruct c; [|discriminate]. reflexivity.
  - destruct c as [|x c']; [discriminate|]. simpl in L.
    destruct (heads_some n cs F) as [hs [E _]].
    simpl. rewrite E. simpl. f_equal.
    apply IHn; [lia | apply tl_lengths; auto].
Qed.

Lemma zipn_nil : forall n, zipn n (@nil (list A)) = repeat [] n.
Proof. induction n; simpl; auto. f_equal; auto. Qed.

Lemma zipn_length : forall n (cs : list (list A)),
  Forall (fun c => length c = n) cs -> length (zipn n cs) = n.
Proof.
  induction n; intros cs F; auto.
  destruct (heads_some n cs F) as [hs [E _]]. simpl. rewrite E. simpl. f_equal.
  apply IHn. apply tl_lengths; auto.
Qed.

Lemma heads_zipcons : forall (c : list A) R,
  c <> [] -> length c = length R -> heads (zipcons c R) = Some c.
Proof.
  induction c as [|x c IH]; intros R N L; [congruence|].
  destruct R as [|r R]; [discriminate|]. simpl.
  destruct c as [|y c].
  - destruct R; [|discriminate]. reflexivity.
  - rewrite IH; auto; try discriminate. all: try (simpl in *; lia).
Qed.

Lemma tl_zipcons : forall (c : list A) R,
  length c = length R -> map (@tl A) (zipcons c R) = R.
Proof.
  induction c as [|x c IH]; intros R L; destruct R; try discriminate; auto.
  simpl. f_equal. apply IH. simpl in L; lia.
Qed.

Lemma zipcons_length : forall (c : list A) R,
  length c = length R -> length (zipcons c R) = length c.
Proof.
  induction c; intros R L; destruct R; try discriminate; auto. simpl. f_equal. apply IHc. simpl in L; lia.
Qed.

(* every cell of a row of zip( *cols ) is a cell of a column; rows have one cell per column *)
Lemma heads_forall : forall (P : A -> Prop) (cs : list (list A)) hs,
  Forall (Forall P) cs -> heads cs = Some hs -> Forall P hs /\ length hs = length cs.
Proof.
  induction cs; intros hs F E; simpl in E.
  - inversion E; subst; auto.
  - destruct a as [|x a']; [discriminate|]. inversion F; subst.
    destruct (heads cs) eqn:E'; [|discriminate]. inversion E; subst.
    destruct (IHcs l H2 eq_refl). inversion H1; subst. split; [constructor; auto | simpl; auto].
Qed.

Lemma tl_forall : forall (P : A -> Prop) (cs : list (list A)),
  Forall (Forall P) cs -> Forall (Forall P) (map (@tl A) cs).
Proof.
  induction cs; intros F; simpl; constructor; inversion F; subst; auto.
  destruct a; simpl; auto. inversion H1; auto.
Qed.

Lemma zipn_forall : forall (P : A -> Prop) n (cs : list (list A)),
  Forall (Forall P) cs ->
  Forall (fun r => Forall P r /\ length r = length cs) (zipn n cs).
Proof.
  induction n; intros cs F; simpl; auto.
  destruct (heads cs) eqn:E; auto.
  destruct (heads_forall P cs l F E). constructor; auto.
  specialize (IHn (map (@tl A) cs) (tl_forall P cs F)). rewrite map_length in IHn. auto.
Qed.
End Zip.

(* ------------------------------------------------------------ the round trip *)
Lemma map_res_cons_inv : forall A B (f : A -> res B) x l R,
  map_res f (x :: l) = Ok R -> exists y ys, f x = Ok y /\ map_res f l = Ok ys /\ R = y :: ys.
Proof.
  intros A B f x l R H. simpl in H. destruct (f x) as [y|]; [|discriminate]. simpl in H.
  destruct (map_res f l) as [ys|]; [|discriminate]. simpl in H. inversion H. eauto.
Qed.

Lemma all_nil_repeat : forall A n, all_nil (repeat (@nil A) n) = true.
Proof. induction n; simpl; auto. Qed.

Section RoundTrip.
Variable O : oracles.

Definition names (s : schema) : list string :=
  match sfields s with Some fs => map name_str fs | None => [] end.

(* the two global hypotheses on the csv layer (checked on the real module at run time) *)
Definition row_transportable (r : list string) : Prop :=
  Forall (fun x => plain x = true) r /\ r <> [] /\ r <> ["---"].

Definition oracle_ok : Prop :=
  (forall d, csv_legal d = true -> o_delim_err O d = None) /\
  (forall d rows, csv_legal d = true -> Forall row_transportable rows ->
                  o_transport O d rows = Ok rows).

Lemma validate_true_inv : forall s, validate_schema O s = Ok true ->
  exists d m fs, sdelim s = Some d /\ smissing s = Some m /\ sfields s = Some fs /\ fs <> [] /\
                 String.eqb d m = false /\ contains m d = false /\
                 validate_fields O fs = Ok true.
Proof.
  unfold validate_schema; intros s H.
  destruct (sdelim s) as [d|]; [|discriminate].
  destruct (smissing s) as [m|]; [|discriminate].
  destruct (sfields s) as [fs|]; [|discriminate].
  exists d, m, fs.
  destruct fs as [|f fs]; [simpl in H; discriminate|].
  destruct (String.eqb d m); [simpl in H; rewrite ?andb_false_r in H; discriminate|].
  destruct (contains m d); [simpl in H; rewrite ?andb_false_r in H; discriminate|].
  simpl in H. repeat split; auto; discriminate.
Qed.

Definition tf_of (f : field) (tf : ty * yval) : Prop :=
  typemap (type_of f) = Some (fst tf) /\ snd tf = fill_of f.

Lemma validate_fields_types : forall fs, validate_fields O fs = Ok true ->
  exists tfs, field_types fs = Ok tfs /\ Forall2 tf_of fs tfs.
Proof.
  induction fs as [|f fs IH]; intros H.
  - exists []; split; [reflexivity | constructor].
  - simpl in H. destruct (fname f) as [[| n | | | |]|]; try discriminate.
    destruct (negb (o_is_ident O n)); [discriminate|].
    destruct (typemap (type_of f)) as [t|] eqn:Et; [|discriminate].
    destruct (negb (ty_eqb t TStr || ty_eqb t TBool) && negb (has_fill f)); [discriminate|].
    destruct (IH H) as [tfs [E F]]. exists ((t, fill_of f) :: tfs).
    unfold field_types in *. simpl. rewrite Et. simpl. rewrite E. simpl. split; auto.
    constructor; auto. split; auto.
Qed.

Definition tf_faithful (a b : ty * yval) : Prop :=
  fst a = fst b /\
  (fst a = TBool \/ exists c, conv O (fst a) (snd a) = Ok c /\ read_fill O (fst a) (snd b) = Ok c).

Lemma ty_eqb_eq : forall a b, ty_eqb a b = true -> a = b.
Proof. destruct a, b; simpl; congruence. Qed.

Lemma fills_faithful_tfs : forall fs fs' tfs tfs',
  fills_faithful O fs fs' = true -> Forall2 tf_of fs tfs -> Forall2 tf_of fs' tfs' ->
  Forall2 tf_faithful tfs tfs' /\ map name_str fs = map name_str fs'.
Proof.
  induction fs as [|f fs IH]; intros fs' tfs tfs' H F F'; destruct fs' as [|f' fs']; simpl in H; try discriminate.
  - inversion F; inversion F'; subst. split; auto.
  - inversion F as [|? tf ? tfs0 [Et Ev] Fr]; subst.
    inversion F' as [|? tf' ? tfs0' [Et' Ev'] Fr']; subst.
    rewrite Et, Et' in H.
    apply andb_true_iff in H; destruct H as [H Hrest].
    apply andb_true_iff in H; destruct H as [Hn Hty].
    apply andb_true_iff in Hty; destruct Hty as [Hty Hfill].
    destruct (IH _ _ _ Hrest Fr Fr') as [G N].
    apply String.eqb_eq in Hn. apply ty_eqb_eq in Hty.
    split; [|simpl; congruence].
    constructor; auto. split; auto.
    apply orb_true_iff in Hfill. destruct Hfill as [B|B].
    + left. apply ty_eqb_eq; auto.
    + right. rewrite <- Ev in B. destruct (conv O (fst tf) (snd tf)) as [c|] eqn:Ec; [|discriminate].
      exists c. split; auto. rewrite Ev'. apply res_cell_eqb_eq; auto.
Qed.

(* ---- cells *)
Lemma parse_verbatim : forall m t d v,
  cl_plain O d = true -> cl_not_missing O m d = true -> cl_text_rt O t d = true ->
  parse_cell O t (pystr O d) m v = Ok d.
Proof.
  unfold cl_plain, cl_not_missing, cl_text_rt, parse_cell; intros m t d v P N T.
  rewrite (plain_strip _ P). apply negb_true in N. rewrite N.
  destruct t; apply res_cell_eqb_eq; exact T.
Qed.

Lemma cell_ok_subst : forall k m t v d, cell_ok O k m t v d = true ->
  exists b, substituted O t v d = Ok b /\ (b = true -> conv O t v = Ok d).
Proof.
  unfold cell_ok; intros k m t v d H. split_andb.
  unfold cl_fill_exact in H2. destruct (substituted O t v d) as [[|]|]; try discriminate.
  - exists true; split; auto. intros _. apply res_cell_eqb_eq; auto.
  - exists false; split; auto. discriminate.
Qed.

Lemma save_cell_ok : forall k m t v d, cell_ok O k m t v d = true ->
  save_cell O m t v d = Ok (out_text O m t v d).
Proof.
  intros k m t v d H. destruct (cell_ok_subst _ _ _ _ _ H) as [b [S _]].
  unfold cell_ok in H. split_andb.
  unfold save_cell, out_text. rewrite (parse_verbatim m t d v); auto.
  rewrite S. simpl. destruct b; reflexivity.
Qed.

Lemma parse_out_ok : forall k m t v v' d,
  plain m = true -> cell_ok O k m t v d = true -> tf_faithful (t, v) (t, v') ->
  parse_cell O t (out_text O m t v d) m v' = Ok d.
Proof.
  intros k m t v v' d Pm H [_ Ff]. destruct (cell_ok_subst _ _ _ _ _ H) as [b [S Sb]].
  unfold out_text. rewrite S. destruct b.
  - unfold parse_cell. rewrite (plain_strip _ Pm), String.eqb_refl.
    simpl in Ff. destruct Ff as [B | [c [C R]]].
    + subst t. simpl in S. discriminate.
    + rewrite (Sb eq_refl) in C. congruence.
  - unfold cell_ok in H. split_andb. apply parse_verbatim; auto.
Qed.

(* ---- columns *)
Fixpoint out_cols (m : string) (tfs : list (ty * yval)) (data : list (list cell)) : list (list string) :=
  match tfs, data with
  | (t, v) :: tfs', c :: data' => map (out_text O m t v) c :: out_cols m tfs' data'
  | _, _ => []
  end.

Lemma map_res_cons : forall A B (f : A -> res B) x l,
  map_res f (x :: l) = bind (f x) (fun y => bind (map_res f l) (fun ys => Ok (y :: ys))).
Proof. reflexivity. Qed.

Lemma save_row_cons : forall m t v tfs' d r,
  save_row O m ((t, v) :: tfs') (d :: r)
  = bind (save_cell O m t v d) (fun x => bind (save_row O m tfs' r) (fun r' => Ok (x :: r'))).
Proof. reflexivity. Qed.

Lemma save_col : forall k m t v tfs' (c : list cell) R R',
  forallb (cell_ok O k m t v) c = true -> map_res (save_row O m tfs') R = Ok R' ->
  map_res (save_row O m ((t, v) :: tfs')) (zipcons c R) = Ok (zipcons (map (out_text O m t v) c) R').
Proof.
  induction c as [|d c IH]; intros R R' F H; [reflexivity|].
  simpl in F. apply andb_true_iff in F. destruct F as [Fd Fc].
  destruct R as [|r R].
  - simpl in H. inversion H. reflexivity.
  - destruct (map_res_cons_inv _ _ _ _ _ _ H) as [r' [R0' [E1 [E2 E3]]]]. subst R'.
    change (zipcons (d :: c) (r :: R)) with ((d :: r) :: zipcons c R).
    change (zipcons (map (out_text O m t v) (d :: c)) (r' :: R0'))
      with ((out_text O m t v d :: r') :: zipcons (map (out_text O m t v) c) R0').
    rewrite map_res_cons, save_row_cons.
    rewrite (save_cell_ok _ _ _ _ _ Fd). unfold bind at 2. rewrite E1. unfold bind at 2.
    rewrite (IH R R0' Fc E2). reflexivity.
Qed.

Lemma save_rows_nil : forall m n, map_res (save_row O m []) (repeat [] n) = Ok (repeat [] n).
Proof. induction n; [reflexivity|]. simpl repeat. rewrite map_res_cons, IHn. reflexivity. Qed.

Lemma cols_ok_shape : forall k n m tfs data, cols_ok O k n m tfs data = true ->
  Forall (fun c => length c = n) data /\ length data = length tfs /\
  Forall (fun c => length c = n) (out_cols m tfs data).
Proof.
  induction tfs as [|[t v] tfs IH]; intros data H; destruct data as [|c data]; simpl in H; try discriminate.
  - repeat split; constructor.
  - split_andb. destruct (IH _ H0) as [A [B C]]. apply Nat.eqb_eq in H.
    repeat split; simpl; try constructor; auto. rewrite map_length; auto.
Qed.

Lemma save_rows_ok : forall k n m tfs data, cols_ok O k n m tfs data = true ->
  map_res (save_row O m tfs) (zipn n data) = Ok (zipn n (out_cols m tfs data)).
Proof.
  induction tfs as [|[t v] tfs IH]; intros data H; destruct data as [|c data]; simpl in H; try discriminate.
  - simpl out_cols. rewrite !zipn_nil. apply save_rows_nil.
  - pose proof H as H'. split_andb. apply Nat.eqb_eq in H0.
    destruct (cols_ok_shape _ _ _ _ _ H1) as [A [B C]].
    rewrite zipn_cons; auto. simpl out_cols. rewrite zipn_cons; auto; [|rewrite map_length; auto].
    eapply save_col; eauto.
Qed.

Lemma parse_col_ok : forall k m t v v' c,
  plain m = true -> forallb (cell_ok O k m t v) c = true -> tf_faithful (t, v) (t, v') ->
  map_res (fun x => parse_cell O t x m v') (map (out_text O m t v) c) = Ok c.
Proof.
  induction c as [|d c IH]; intros Pm F Ff; [reflexivity|].
  simpl in F. apply andb_true_iff in F. destruct F as [Fd Fc].
  simpl. rewrite (parse_out_ok k m t v v' d); auto. simpl. rewrite IH; auto.
Qed.

Lemma read_cols_cons : forall m t f tfs' body, body <> [] ->
  read_cols O m ((t, f) :: tfs') body =
  match heads body with
  | None => Err EValue
  | Some hs => bind (map_res (fun x => parse_cell O t x m f) hs) (fun col =>
               bind (read_cols O m tfs' (map (@tl string) body)) (fun rest => Ok (col :: rest)))
  end.
Proof. intros m t f tfs' body N. destruct body; [congruence | reflexivity]. Qed.

Lemma read_cols_ok : forall k n m tfs tfs' data,
  n <> 0 -> plain m = true -> cols_ok O k n m tfs data = true -> Forall2 tf_faithful tfs tfs' ->
  read_cols O m tfs' (zipn n (out_cols m tfs data)) = Ok data.
Proof.
  induction tfs as [|[t v] tfs IH]; intros tfs' data Hn Pm H F; destruct data as [|c data]; simpl in H; try discriminate;
    inversion F; subst.
  - simpl. rewrite zipn_nil, all_nil_repeat. reflexivity.
  - destruct y as [t' v']. pose proof H as H'. split_andb. apply Nat.eqb_eq in H0.
    destruct (cols_ok_shape _ _ _ _ _ H1) as [A [B C]].
    simpl out_cols. rewrite zipn_cons; auto; [|rewrite map_length; auto].
    pose proof (zipn_length n _ C) as LR.
    set (oc := map (out_text O m t v) c) in *. set (R := zipn n (out_cols m tfs data)) in *.
    assert (Loc : length oc = n) by (unfold oc; rewrite map_length; auto).
    assert (Noc : oc <> []) by (intro E; rewrite E in Loc; simpl in Loc; congruence).
    assert (Lb : length (zipcons oc R) = n) by (rewrite zipcons_length; congruence).
    pose proof (heads_zipcons oc R Noc ltac:(congruence)) as Hh.
    pose proof (tl_zipcons oc R ltac:(congruence)) as Ht.
    assert (Nb : zipcons oc R <> []) by (intro E; rewrite E in Lb; simpl in Lb; congruence).
    rewrite read_cols_cons; auto.
    rewrite Hh. pose proof H2 as Hf. destruct Hf as [Et _]. simpl in Et. subst t'.
    unfold oc. rewrite (parse_col_ok k m t v v' c); auto. unfold bind at 1.
    fold oc. rewrite Ht. unfold R. rewrite (IH l' data); auto.
Qed.
End RoundTrip.

(* ------------------------------------------------------------ assembly *)
Section Assembly.
Variable O : oracles.

Lemma existsb_lengths : forall (c0 : list cell) (rest : list (list cell)),
  Forall (fun c => length c = length c0) rest ->
  existsb (fun c => negb (Nat.eqb (length c) (length c0))) rest = false.
Proof.
  induction rest; intros F; simpl; auto. inversion F; subst.
  rewrite H1, Nat.eqb_refl. simpl. auto.
Qed.

Lemma out_cell_plain : forall k m t v d, plain m = true -> cell_ok O k m t v d = true ->
  plain (out_text O m t v d) = true /\ (k = 1 -> out_text O m t v d <> "---").
Proof.
  intros k m t v d Pm H. unfold cell_ok in H. split_andb. split.
  - unfold out_text. destruct (substituted O t v d) as [[|]|]; auto.
  - intros K E. unfold cl_no_fence in H0. rewrite E, K in H0. simpl in H0. discriminate.
Qed.

Lemma out_cols_cells : forall k n m tfs data, plain m = true -> cols_ok O k n m tfs data = true ->
  Forall (Forall (fun x => plain x = true /\ (k = 1 -> x <> "---"))) (out_cols O m tfs data).
Proof.
  induction tfs as [|[t v] tfs IH]; intros data Pm H; destruct data as [|c data]; simpl in H; try discriminate;
    simpl; constructor.
  - apply andb_true_iff in H; destruct H as [H _]. apply andb_true_iff in H; destruct H as [_ Hc].
    induction c; simpl; constructor; simpl in Hc; apply andb_true_iff in Hc; destruct Hc.
    + eapply out_cell_plain; eauto.
    + apply IHc; auto.
  - apply andb_true_iff in H; destruct H as [_ H]. apply IH; auto.
Qed.

Definition rep_facts (s : schema) (data : list (list cell)) d m fs tfs : Prop :=
  sdelim s = Some d /\ smissing s = Some m /\ sfields s = Some fs /\ fs <> [] /\
  field_types fs = Ok tfs /\ Forall2 (tf_of) fs tfs /\
  csv_legal d = true /\ plain m = true /\ nrows_of data <> 0 /\
  forallb (fun n => plain n && negb (String.eqb n "---")) (map name_str fs) = true /\
  o_nt_ok O (map name_str fs) = true /\
  cols_ok O (length fs) (nrows_of data) m tfs data = true.

Lemma representable_inv : forall s data,
  validate_schema O s = Ok true -> representable O s data = true ->
  exists d m fs tfs, rep_facts s data d m fs tfs.
Proof.
  intros s data V R. destruct (validate_true_inv O s V) as [d [m [fs [Ed [Em [Ef [Nf [_ [_ Vf]]]]]]]]].
  destruct (validate_fields_types O fs Vf) as [tfs [Et F]].
  unfold representable in R. rewrite Ed, Em, Ef, Et in R. split_andb.
  exists d, m, fs, tfs. unfold rep_facts. repeat split; auto.
  apply negb_true in H3. apply Nat.eqb_neq; auto.
Qed.

Lemma save_spec : forall s data d m fs tfs,
  (forall d, csv_legal d = true -> o_delim_err O d = None) ->
  validate_schema O s = Ok true -> rep_facts s data d m fs tfs ->
  save O s data = Ok (map name_str fs :: zipn (nrows_of data) (out_cols O m tfs data)).
Proof.
  intros s data d m fs tfs HD V [Ed [Em [Ef [Nf [Et [F [Cd [Pm [Nn [Pn [Nt C]]]]]]]]]]].
  destruct data as [|c0 rest]; [simpl in Nn; congruence|].
  unfold save. simpl nrows_of in *.
  destruct (cols_ok_shape O _ _ _ _ _ C) as [A _]. inversion A; subst.
  rewrite existsb_lengths; auto. rewrite V. simpl bind. cbv iota. simpl negb. cbv iota.
  rewrite Ed, Em, Ef, Et. simpl bind. rewrite (HD d Cd).
  rewrite (save_rows_ok O _ _ _ _ _ C). reflexivity.
Qed.

Lemma forallb_weaken : forall l,
  forallb (fun n => plain n && negb (String.eqb n "---")) l = true -> forallb plain l = true.
Proof.
  induction l; simpl; intros H; auto. split_andb. rewrite H, IHl; auto.
Qed.

Lemma Forall2_len : forall A B (P : A -> B -> Prop) l l', Forall2 P l l' -> length l = length l'.
Proof. induction 1; simpl; auto. Qed.

Lemma out_cols_length : forall k n m tfs data, cols_ok O k n m tfs data = true ->
  length (out_cols O m tfs data) = length tfs.
Proof.
  induction tfs as [|[t v] tfs IH]; intros data C; destruct data; simpl in C; try discriminate; auto.
  simpl. f_equal. apply andb_true_iff in C; destruct C as [_ C]. eauto.
Qed.

Lemma rows_transportable : forall s data d m fs tfs, rep_facts s data d m fs tfs ->
  Forall (row_transportable) (map name_str fs :: zipn (nrows_of data) (out_cols O m tfs data)).
Proof.
  intros s data d m fs tfs [Ed [Em [Ef [Nf [Et [F [Cd [Pm [Nn [Pn [Nt C]]]]]]]]]]].
  assert (LK : length (out_cols O m tfs data) = length fs).
  { rewrite (out_cols_length _ _ _ _ _ C). symmetry. eapply Forall2_len; eauto. }
  assert (K1 : length fs <> 0) by (destruct fs; [congruence | simpl; lia]).
  constructor.
  - split; [|split].
    + apply forallb_weaken in Pn. clear -Pn. induction (map name_str fs); constructor; simpl in Pn;
        apply andb_true_iff in Pn; destruct Pn; auto.
    + destruct fs; [congruence | discriminate].
    + intro E. rewrite E in Pn. simpl in Pn. discriminate.
  - pose proof (out_cols_cells (length fs) (nrows_of data) m tfs data Pm C) as OC.
    pose proof (zipn_forall _ (nrows_of data) _ OC) as ZF.
    eapply Forall_impl; [|exact ZF]. intros r [Pr Lr]. rewrite LK in Lr. split; [|split].
    + eapply Forall_impl; [|exact Pr]. simpl; tauto.
    + intro E. subst r. simpl in Lr. lia.
    + intro E. subst r. simpl in Lr. inversion Pr as [|? ? [_ K] ?]; subst. apply K; auto.
Qed.

Theorem roundtrip_proof : forall s y data,
  oracle_ok O -> validate_schema O s = Ok true -> representable O s data = true ->
  header_faithful O s y = true ->
  read_back O s y data = Ok (names s, data).
Proof.
  intros s y data [HD HT] V R HF.
  destruct (representable_inv s data V R) as [d [m [fs [tfs RF]]]].
  pose proof (save_spec s data d m fs tfs HD V RF) as SS.
  destruct RF as [Ed [Em [Ef [Nf [Et [F [Cd [Pm [Nn [Pn [Nt C]]]]]]]]]]].
  unfold read_back. rewrite SS. simpl bind. rewrite Ed.
  destruct (cols_ok_shape O _ _ _ _ _ C) as [A [B Cc]].
  (* transport *)
  rewrite HT; auto.
  2:{ eapply rows_transportable; unfold rep_facts; repeat split; eauto. }
  simpl bind.
  (* read *)
  unfold header_faithful in HF. destruct y as [|s']; [discriminate|].
  apply andb_true_iff in HF. destruct HF as [V' HF].
  destruct (validate_schema O s') as [[|]|] eqn:EV'; try discriminate.
  destruct (validate_true_inv O s' EV') as [d' [m' [fs' [Ed' [Em' [Ef' [Nf' [_ [_ Vf']]]]]]]]].
  rewrite Ed, Ed', Em, Em', Ef, Ef' in HF. split_andb.
  apply String.eqb_eq in H. apply String.eqb_eq in H1. subst d' m'.
  destruct (validate_fields_types O fs' Vf') as [tfs' [Et' F']].
  destruct (fills_faithful_tfs O fs fs' tfs tfs' H0 F F') as [FF NN].
  unfold read. rewrite EV'. simpl bind. cbv iota. simpl negb. cbv iota.
  rewrite Ed', Em', Ef'. rewrite (HD d Cd).
  rewrite <- NN. rewrite (map_strip_plain _ (forallb_weaken _ Pn)), list_str_eqb_refl. simpl negb. cbv iota.
  rewrite Nt. simpl negb. cbv iota. rewrite Et'. simpl bind.
  rewrite (read_cols_ok O (length fs) (nrows_of data) m tfs tfs' data); auto.
  simpl. unfold names. rewrite Ef. reflexivity.
Qed.
End Assembly.

(* ------------------------------------------------------------ refusal of invalid schemas *)
Local Open Scope list_scope.
Section Refusal.
Variable O : oracles.

Definition numeric (t : ty) : Prop := t <> TStr /\ t <> TBool.

(* what is wrong with one field (its name being a string) *)
Inductive field_bad (f : field) : Prop :=
| bad_name : forall n, fname f = Some (YStr n) -> o_is_ident O n = false -> field_bad f
| bad_type : forall n, fname f = Some (YStr n) -> typemap (type_of f) = None -> field_bad f
| no_fill : forall n t, fname f = Some (YStr n) -> typemap (type_of f) = Some t -> numeric t ->
                        ffill f = None -> field_bad f.

(* the documented violations of a schema *)
Inductive violation (s : schema) : Prop :=
| v_no_delimiter : sdelim s = None -> violation s
| v_no_missing : smissing s = None -> violation s
| v_no_fields_key : sfields s = None -> violation s
| v_empty_fields : sfields s = Some [] -> violation s
| v_delim_eq_missing : forall d, sdelim s = Some d -> smissing s = Some d -> violation s
| v_delim_in_missing : forall d m, sdelim s = Some d -> smissing s = Some m -> contains m d = true -> violation s
| v_field : forall pre f post, sfields s = Some (pre ++ f :: post) ->
                               validate_fields O pre = Ok true -> field_bad f -> violation s.

Lemma validate_fields_app_bad : forall pre f post,
  validate_fields O pre = Ok true -> field_bad f -> validate_fields O (pre ++ f :: post) = Ok false.
Proof.
  induction pre as [|a pre IH]; intros f post Hp Hb.
  - simpl. destruct Hb as [n Hn Hi | n Hn Ht | n t Hn Ht [N1 N2] Hf]; rewrite Hn.
    + rewrite Hi. reflexivity.
    + destruct (negb (o_is_ident O n)); auto. rewrite Ht. reflexivity.
    + destruct (negb (o_is_ident O n)); auto. rewrite Ht. unfold has_fill. rewrite Hf.
      destruct t; try congruence; reflexivity.
  - simpl in *. destruct (fname a) as [[| n | | | |]|]; try discriminate.
    destruct (negb (o_is_ident O n)); [discriminate|].
    destruct (typemap (type_of a)) as [t|]; [|discriminate].
    destruct (negb (ty_eqb t TStr || ty_eqb t TBool) && negb (has_fill a)); [discriminate|].
    apply IH; auto.
Qed.

Lemma validate_fields_false_inv : forall fs, validate_fields O fs = Ok false ->
  exists pre f post, fs = pre ++ f :: post /\ validate_fields O pre = Ok true /\ field_bad f.
Proof.
  induction fs as [|a fs IH]; intros H; [discriminate|].
  simpl in H. destruct (fname a) as [[| n | | | |]|] eqn:En; try discriminate.
  destruct (o_is_ident O n) eqn:Ei; simpl in H.
  2:{ exists [], a, fs. repeat split; auto. eapply bad_name; eauto. }
  destruct (typemap (type_of a)) as [t|] eqn:Et.
  2:{ exists [], a, fs. repeat split; auto. eapply bad_type; eauto. }
  destruct (negb (ty_eqb t TStr || ty_eqb t TBool) && negb (has_fill a)) eqn:Eg.
  - exists [], a, fs. repeat split; auto. apply andb_true_iff in Eg. destruct Eg as [G1 G2].
    eapply no_fill; eauto.
    + split; intro; subst t; discriminate.
    + unfold has_fill in G2. destruct (ffill a); [discriminate | reflexivity].
  - destruct (IH H) as [pre [f [post [E [Vp B]]]]]. exists (a :: pre), f, post. subst fs. repeat split; auto.
    simpl. rewrite En, Ei, Et. simpl. rewrite Eg. exact Vp.
Qed.

Theorem validate_false_iff : forall s, validate_schema O s = Ok false <-> violation s.
Proof.
  intros s; split.
  - unfold validate_schema. intros H.
    destruct (sdelim s) as [d|] eqn:Ed; [|apply v_no_delimiter; auto].
    destruct (smissing s) as [m|] eqn:Em; [|apply v_no_missing; auto].
    destruct (sfields s) as [fs|] eqn:Ef; [|apply v_no_fields_key; auto].
    destruct fs as [|f fs]; [apply v_empty_fields; auto|].
    destruct (String.eqb d m) eqn:E1.
    { apply String.eqb_eq in E1. subst m. eapply v_delim_eq_missing; eauto. }
    destruct (contains m d) eqn:E2; [eapply v_delim_in_missing; eauto|].
    simpl negb in H. cbv iota in H. simpl andb in H.
    destruct (validate_fields_false_inv _ H) as [pre [g [post [E [Vp B]]]]].
    eapply v_field; eauto. rewrite Ef, E. reflexivity.
  - unfold validate_schema.
    intros [H | H | H | H | d Hd Hm | d m Hd Hm Hc | pre f post Hf Vp B].
    + rewrite H. reflexivity.
    + rewrite H. destruct (sdelim s); reflexivity.
    + rewrite H. destruct (sdelim s), (smissing s); reflexivity.
    + rewrite H. destruct (sdelim s), (smissing s); reflexivity.
    + rewrite Hd, Hm. destruct (sfields s); auto. rewrite String.eqb_refl. simpl. rewrite andb_false_r. reflexivity.
    + rewrite Hd, Hm. destruct (sfields s); auto. rewrite Hc. simpl. rewrite andb_false_r. reflexivity.
    + rewrite Hf. destruct (sdelim s), (smissing s); auto.
      destruct (negb (Nat.eqb (length (pre ++ f :: post)) 0) && negb (String.eqb s0 s1) && negb (contains s1 s0)); auto.
      apply validate_fields_app_bad; auto.
Qed.

Definition equal_lengths (data : list (list cell)) : Prop :=
  match data with [] => False | c0 :: rest => Forall (fun c => length c = length c0) rest end.

Theorem invalid_schema_refused_proof : forall s,
  violation s ->
  (forall data, equal_lengths data -> save O s data = Err SCSV) /\
  (forall rows, read O (YLoaded s) rows = Err SCSV).
Proof.
  intros s V. apply validate_false_iff in V. split.
  - intros data E. destruct data as [|c0 rest]; [contradiction|]. unfold save.
    rewrite existsb_lengths; auto. rewrite V. reflexivity.
  - intros rows. unfold read. rewrite V. reflexivity.
Qed.

(* ------------------------------------------------------------ refusal of invalid data *)
Theorem unequal_lengths_refused : forall s (c0 : list cell) rest,
  Exists (fun c => length c <> length c0) rest -> save O s (c0 :: rest) = Err SCSV.
Proof.
  intros s c0 rest E. unfold save.
  assert (X : existsb (fun c => negb (Nat.eqb (length c) (length c0))) rest = true).
  { apply existsb_exists. apply Exists_exists in E. destruct E as [c [I N]]. exists c. split; auto.
    apply negb_true_iff. apply Nat.eqb_neq; auto. }
  rewrite X. reflexivity.
Qed.

Definition accepted (m : string) (d : cell) (tf : ty * yval) : Prop :=
  exists x, save_cell O m (fst tf) (snd tf) d = Ok x.

Lemma save_row_ok_inv : forall m tfs row out, save_row O m tfs row = Ok out -> Forall2 (accepted m) row tfs.
Proof.
  induction tfs as [|[t v] tfs IH]; intros row out H; destruct row as [|d row]; simpl in H; try discriminate.
  - constructor.
  - destruct (save_cell O m t v d) as [x|] eqn:E; [|discriminate]. simpl in H.
    destruct (save_row O m tfs row) as [r|] eqn:Er; [|discriminate]. constructor; eauto. exists x; auto.
Qed.

Lemma save_row_too_many : forall m tfs pre extra,
  Forall2 (accepted m) pre tfs -> extra <> [] -> save_row O m tfs (pre ++ extra) = Err SCSV.
Proof.
  induction 1 as [|d [t v] pre tfs [x A] F IH]; intros N.
  - destruct extra; [congruence | reflexivity].
  - simpl in *. rewrite A. simpl. rewrite (IH N). reflexivity.
Qed.

Lemma save_row_too_few : forall m row pre extra,
  Forall2 (accepted m) row pre -> extra <> [] -> save_row O m (pre ++ extra) row = Err SCSV.
Proof.
  induction 1 as [|d [t v] row pre [x A] F IH]; intros N.
  - destruct extra; [congruence | reflexivity].
  - simpl in *. rewrite A. simpl. rewrite (IH N). reflexivity.
Qed.

Lemma save_row_bad_cell : forall m pre pre_tfs d t v post post_tfs e,
  Forall2 (accepted m) pre pre_tfs -> save_cell O m t v d = Err e ->
  save_row O m (pre_tfs ++ (t, v) :: post_tfs) (pre ++ d :: post) = Err e.
Proof.
  induction 1 as [|d0 [t0 v0] pre pre_tfs [x A] F IH]; intros B.
  - simpl. rewrite B. reflexivity.
  - simpl in *. rewrite A. simpl. rewrite (IH B). reflexivity.
Qed.

Lemma save_cell_unparsable : forall m t v d,
  parse_cell O t (pystr O d) m v = Err EValue -> save_cell O m t v d = Err SCSV.
Proof. intros m t v d H. unfold save_cell. rewrite H. reflexivity. Qed.

Lemma map_res_first_err : forall A B (f : A -> res B) pre x post e,
  (exists ys, map_res f pre = Ok ys) -> f x = Err e -> map_res f (pre ++ x :: post) = Err e.
Proof.
  induction pre as [|a pre IH]; intros x post e [ys H] E.
  - simpl. rewrite E. reflexivity.
  - simpl in *. destruct (f a); [|discriminate]. simpl in *.
    destruct (map_res f pre) eqn:Ep; [|discriminate]. rewrite (IH x post e); eauto.
Qed.

Lemma map_res_ok_all : forall A B (f : A -> res B) l ys, map_res f l = Ok ys ->
  Forall (fun x => exists y, f x = Ok y) l.
Proof.
  induction l as [|a l IH]; intros ys H; constructor.
  - simpl in H. destruct (f a) eqn:E; [eauto | discriminate].
  - simpl in H. destruct (f a); [|discriminate]. simpl in H. destruct (map_res f l) eqn:E; [eauto | discriminate].
Qed.

(* with a valid schema, equal column lengths and an accepted delimiter, save is the row loop *)
Lemma save_unfold : forall s d m fs tfs c0 rest,
  validate_schema O s = Ok true -> sdelim s = Some d -> smissing s = Some m -> sfields s = Some fs ->
  field_types fs = Ok tfs -> o_delim_err O d = None ->
  Forall (fun c => length c = length c0) rest ->
  save O s (c0 :: rest) =
  bind (map_res (save_row O m tfs) (zipn (length c0) (c0 :: rest))) (fun rows => Ok (map name_str fs :: rows)).
Proof.
  intros s d m fs tfs c0 rest V Ed Em Ef Et Hd F. unfold save.
  rewrite existsb_lengths; auto. rewrite V. simpl bind. cbv iota. simpl negb. cbv iota.
  rewrite Ed, Em, Ef, Et. simpl bind. rewrite Hd. reflexivity.
Qed.

(* a row that is refused (all earlier rows accepted) makes save fail with that row's error:
   wrong column count and unparsable cells give SCSV by the save_row lemmas above *)
Theorem invalid_data_refused_proof : forall s d m fs tfs c0 rest pre row post e,
  validate_schema O s = Ok true -> sdelim s = Some d -> smissing s = Some m -> sfields s = Some fs ->
  field_types fs = Ok tfs -> o_delim_err O d = None ->
  Forall (fun c => length c = length c0) rest ->
  zipn (length c0) (c0 :: rest) = pre ++ row :: post ->
  (exists ys, map_res (save_row O m tfs) pre = Ok ys) ->
  save_row O m tfs row = Err e ->
  save O s (c0 :: rest) = Err e.
Proof.
  intros. rewrite (save_unfold s d m fs tfs); auto. rewrite H6.
  rewrite (map_res_first_err _ _ _ pre row post e); auto.
Qed.

(* completeness: save succeeds only on a valid schema, equal-length columns, and - when there
   is at least one row - one column per field with every cell accepted *)
Theorem save_ok_only_if : forall s data rows, save O s data = Ok rows ->
  equal_lengths data /\ validate_schema O s = Ok true /\
  exists d m fs tfs, sdelim s = Some d /\ smissing s = Some m /\ sfields s = Some fs /\
    field_types fs = Ok tfs /\ o_delim_err O d = None /\
    Forall (fun row => Forall2 (accepted m) row tfs) (zipn (nrows_of data) data).
Proof.
  intros s data rows H. unfold save in H. destruct data as [|c0 rest]; [discriminate|].
  destruct (existsb (fun c => negb (Nat.eqb (length c) (length c0))) rest) eqn:Ex; [discriminate|].
  assert (EL : equal_lengths (c0 :: rest)).
  { simpl. apply Forall_forall. intros c I. destruct (Nat.eqb (length c) (length c0)) eqn:E.
    - apply Nat.eqb_eq; auto.
    - assert (existsb (fun c => negb (Nat.eqb (length c) (length c0))) rest = true).
      { apply existsb_exists. exists c. rewrite E. auto. } congruence. }
  destruct (validate_schema O s) as [[|]|] eqn:V; simpl in H; try discriminate.
  destruct (sdelim s) as [d|]; [|discriminate]. destruct (smissing s) as [m|]; [|discriminate].
  destruct (sfields s) as [fs|]; [|discriminate].
  destruct (field_types fs) as [tfs|] eqn:Et; simpl in H; [|discriminate].
  destruct (o_delim_err O d) as [e0|] eqn:Hd; [destruct e0; discriminate|].
  destruct (map_res (save_row O m tfs) (zipn (length c0) (c0 :: rest))) as [rs|] eqn:Er; [|discriminate].
  repeat split; auto. exists d, m, fs, tfs. repeat split; auto.
  simpl nrows_of. pose proof (map_res_ok_all _ _ _ _ _ Er) as A.
  eapply Forall_impl; [|exact A]. intros row [y Hy]. eapply save_row_ok_inv; eauto.
Qed.

(* on the read side an invalid header is refused with SCSV, a header row that differs from
   the schema's field names too; unparsable cells and ragged rows surface as ValueError *)
Theorem read_header_mismatch : forall s d m fs hdr body,
  validate_schema O s = Ok true -> sdelim s = Some d -> smissing s = Some m -> sfields s = Some fs ->
  o_delim_err O d = None -> list_str_eqb (map name_str fs) (map strip hdr) = false ->
  read O (YLoaded s) (hdr :: body) = Err SCSV.
Proof.
  intros s d m fs hdr body V Ed Em Ef Hd N. unfold read. rewrite V. simpl bind. cbv iota. simpl negb. cbv iota.
  rewrite Ed, Em, Ef, Hd, N. reflexivity.
Qed.
End Refusal.

(* ------------------------------------------------------------ a concrete oracle: non-vacuity, witnesses *)
Local Open Scope string_scope.

Definition toy_int_of (s : string) : res Z :=
  if String.eqb s "5" then Ok 5%Z else if String.eqb s "0" then Ok 0%Z else if String.eqb s "6" then Ok 6%Z else Err EValue.
Definition toy_float_of (s : string) : res ftok :=
  if String.eqb s "0.0" then Ok (FFin "0.0") else if String.eqb s "-0.0" then Ok (FFin "-0.0")
  else if String.eqb s "1.5" then Ok (FFin "1.5") else if String.eqb s "nan" then Ok FNan
  else if String.eqb s "NaN" then Ok FNan else Err EValue.
Definition toy_transport (d : string) (rows : list (list string)) : res (list (list string)) :=
  if forallb (fun r => negb (list_str_eqb r ["---"]) && forallb no_break r) rows then Ok rows else Err ECsv.

Definition toyO : oracles :=
  mkO (fun n => negb (String.eqb n "") && negb (String.eqb n "bad name"))
      (fun ns => negb (existsb (String.prefix "_") ns))
      (fun d => if Nat.eqb (utf8_len d) 1 then None else Some EType)
      (fun z => if Z.eqb z 5 then "5" else if Z.eqb z 6 then "6" else "0")
      (fun _ _ => "(0j)")
      toy_int_of toy_float_of (fun _ => Err EValue)
      (fun _ _ => false)
      toy_transport.

Lemma toy_oracle_ok : oracle_ok toyO.
Proof.
  split.
  - intros d H. unfold csv_legal in H. apply andb_true_l in H. simpl. rewrite H. reflexivity.
  - intros d rows _ F. simpl. unfold toy_transport.
    assert (X : forallb (fun r => negb (list_str_eqb r ["---"]) && forallb no_break r) rows = true).
    { apply forallb_forall. intros r I. rewrite Forall_forall in F. destruct (F r I) as [P [_ N]].
      apply andb_true_iff; split.
      - apply negb_true_iff. destruct (list_str_eqb r ["---"]) eqn:E; auto.
        apply list_str_eqb_eq in E. congruence.
      - apply forallb_forall. intros x Ix. rewrite Forall_forall in P. specialize (P x Ix).
        unfold plain in P. apply andb_true_r in P. exact P. }
    rewrite X. reflexivity.
Qed.

Definition fld (n t : string) (fill : option yval) : field := mkField (Some (YStr n)) (Some t) fill.
Definition sch (d m : string) (fs : list field) : schema := mkSchema (Some d) (Some m) (Some fs).

(* three fields, two rows; the second row consists of fill values (NaN fill included) *)
Definition ex_schema : schema :=
  sch "," "-" [fld "name" "string" (Some (YStr "MISSING")); fld "count" "integer" (Some (YStr "0"));
               fld "value" "float" (Some (YStr "NaN")); fld "flag" "boolean" None].
Definition ex_data : list (list cell) :=
  [[CStr "B, b"; CStr "MISSING"]; [CInt 5; CInt 0]; [CFloat (FFin "1.5"); CFloat FNan]; [CBool true; CBool false]].

Lemma nonvacuous_proof :
  oracle_ok toyO /\ validate_schema toyO ex_schema = Ok true /\ representable toyO ex_schema ex_data = true /\
  header_faithful toyO ex_schema (YLoaded ex_schema) = true /\
  save toyO ex_schema ex_data =
    Ok [["name"; "count"; "value"; "flag"]; ["B, b"; "5"; "1.5"; "True"]; ["-"; "-"; "-"; "False"]] /\
  read_back toyO ex_schema (YLoaded ex_schema) ex_data = Ok (["name"; "count"; "value"; "flag"], ex_data).
Proof. split; [exact toy_oracle_ok|]. repeat split; vm_compute; reflexivity. Qed.

(* cells equal to the fill are written as the missing marker *)
Theorem fill_cells_written_as_missing : forall O s data d m fs tfs,
  (forall d, csv_legal d = true -> o_delim_err O d = None) ->
  validate_schema O s = Ok true -> rep_facts O s data d m fs tfs ->
  save O s data = Ok (map name_str fs :: zipn (nrows_of data) (out_cols O m tfs data)) /\
  (forall t v c, substituted O t v c = Ok true -> out_text O m t v c = m).
Proof.
  intros. split; [eapply save_spec; eauto|]. intros t v c S. unfold out_text. rewrite S. reflexivity.
Qed.

(* ---- representable: every clause is needed.  Clause k dropped = mask k *)
Section Masked.
Variable O : oracles.
Variable mk : nat -> bool.

Definition cell_ok_m (ncols : nat) (m : string) (t : ty) (v : yval) (d : cell) : bool :=
  cl_typed t d && (mk 2 || cl_plain O d) && (mk 3 || cl_text_rt O t d) && (mk 4 || cl_fill_exact O t v d)
  && (mk 5 || cl_not_missing O m d) && (mk 6 || cl_no_fence O ncols m t v d).

Fixpoint cols_ok_m (ncols nrows : nat) (m : string) (tfs : list (ty * yval)) (data : list (list cell)) : bool :=
  match tfs, data with
  | [], [] => true
  | (t, v) :: tfs', c :: data' =>
      Nat.eqb (length c) nrows && forallb (cell_ok_m ncols m t v) c && cols_ok_m ncols nrows m tfs' data'
  | _, _ => mk 7
  end.

Definition representable_m (s : schema) (data : list (list cell)) : bool :=
  match sdelim s, smissing s, sfields s with
  | Some d, Some m, Some fs =>
      match field_types fs with
      | Ok tfs =>
          (mk 12 || csv_legal d) && (mk 11 || plain m) && (mk 8 || negb (Nat.eqb (nrows_of data) 0))
          && forallb (fun n => plain n && negb (String.eqb n "---")) (map name_str fs)
          && (mk 10 || o_nt_ok O (map name_str fs))
          && cols_ok_m (length fs) (nrows_of data) m tfs data
      | Err _ => false
      end
  | _, _, _ => false
  end.
End Masked.

Lemma typed_is_implied : forall O t d, cl_text_rt O t d = true -> cl_typed t d = true.
Proof.
  intros O t d H. unfold cl_text_rt in H. destruct t.
  - simpl in H. destruct d; simpl in *; auto; discriminate.
  - apply res_cell_eqb_eq in H. simpl in H. destruct (o_int_of O (pystr O d)); simpl in H; inversion H; reflexivity.
  - apply res_cell_eqb_eq in H. simpl in H. destruct (o_float_of O (pystr O d)); simpl in H; inversion H; reflexivity.
  - destruct d; try discriminate; reflexivity.
  - apply res_cell_eqb_eq in H. simpl in H. destruct (o_cplx_of O (pystr O d)); simpl in H; inversion H; reflexivity.
Qed.

Definition needed (k : nat) (s : schema) (data : list (list cell)) : Prop :=
  validate_schema toyO s = Ok true /\ header_faithful toyO s (YLoaded s) = true /\
  representable_m toyO (Nat.eqb k) s data = true /\ representable toyO s data = false /\
  read_back toyO s (YLoaded s) data <> Ok (names s, data).

Ltac needed_tac := unfold needed; repeat split; try (vm_compute; reflexivity); vm_compute; discriminate.

Definition nl : string := String (ascii_of_N 10) "".

Lemma representable_needed_proof :
  (forall s data, representable_m toyO (fun _ => false) s data = representable toyO s data) /\
  (* 2: surrounding white space; a line break *)
  needed 2 (sch "," "-" [fld "a" "string" (Some (YStr "x"))]) [[CStr " lead"]] /\
  needed 2 (sch "," "-" [fld "a" "string" (Some (YStr "x"))]) [[CStr ("a" ++ nl ++ "b")]] /\
  (* 3: a value whose text does not parse back *)
  needed 3 (sch "," "-" [fld "a" "float" (Some (YStr "NaN"))]) [[CFloat (FFin "abc")]] /\
  (* 4: == the fill but not identical to it: -0.0 with fill 0.0 *)
  needed 4 (sch "," "-" [fld "a" "float" (Some (YStr "0.0"))]) [[CFloat (FFin "-0.0")]] /\
  (* 5: text equal to the missing marker *)
  needed 5 (sch "," "5" [fld "a" "integer" (Some (YStr "0"))]) [[CInt 5; CInt 6]] /\
  (* 6: one-column row '---' *)
  needed 6 (sch "," "-" [fld "a" "string" (Some (YStr "x"))]) [[CStr "---"]] /\
  (* 7: one column per field *)
  needed 7 (sch "," "-" [fld "a" "string" (Some (YStr "x"))]) [[CStr "p"]; [CStr "q"]] /\
  (* 8: at least one row *)
  needed 8 (sch "," "-" [fld "a" "string" (Some (YStr "x"))]) [[]] /\
  (* 10: field names accepted by namedtuple *)
  needed 10 (sch "," "-" [fld "_a" "string" (Some (YStr "x"))]) [[CStr "p"]] /\
  (* 11: missing marker without surrounding white space *)
  needed 11 (sch "," " -" [fld "a" "string" (Some (YStr "x"))]) [[CStr "x"]] /\
  (* 12: CSV-legal delimiter *)
  needed 12 (sch ",," "-" [fld "a" "string" (Some (YStr "x"))]) [[CStr "p"]].
Proof.
  split; [reflexivity|]. repeat split; try (vm_compute; reflexivity); vm_compute; discriminate.
Qed.

(* ---- the open finding, in the model: a string field with fill '' whose header YAML loads as null *)
Definition none_schema : schema := sch "," "-" [fld "a" "string" (Some (YStr ""))].
Definition none_loaded : yres := YLoaded (sch "," "-" [fld "a" "string" (Some YNull)]).

Lemma header_unfaithful_witness_proof :
  oracle_ok toyO /\ validate_schema toyO none_schema = Ok true /\
  representable toyO none_schema [[CStr "x"; CStr ""; CStr "y"]] = true /\
  header_faithful toyO none_schema none_loaded = false /\
  read_back toyO none_schema none_loaded [[CStr "x"; CStr ""; CStr "y"]]
    = Ok (["a"], [[CStr "x"; CStr "None"; CStr "y"]]).
Proof. split; [exact toy_oracle_ok|]. repeat split; vm_compute; reflexivity. Qed.

(* ---- terse schema parser *)
Lemma terse_field_spec : forall name,
  terse_field name "s" = Ok (mkField (Some (YStr name)) (Some "string") (Some (YStr ""))) /\
  terse_field name "" = Ok (mkField (Some (YStr name)) (Some "string") (Some (YStr ""))) /\
  terse_field name "i:999999" = Ok (mkField (Some (YStr name)) (Some "integer") (Some (YStr "999999"))) /\
  terse_field name "f:NaN:%" = Ok (mkField (Some (YStr name)) (Some "float") (Some (YStr "NaN"))) /\
  terse_field name "q" = Err SCSV.
Proof. intros; repeat split; reflexivity. Qed.

Definition terse_field_shape (f : field) : Prop :=
  (exists n, fname f = Some (YStr n)) /\ (exists t, ftype f = Some t /\ typemap t <> None) /\
  (exists v, ffill f = Some (YStr v)).

Lemma tersemap_typemap : forall a t, tersemap a = Some t -> typemap t <> None.
Proof.
  unfold tersemap; intros a t H.
  repeat match type of H with (if ?c then _ else _) = _ => destruct c end; inversion H; subst; discriminate.
Qed.

Lemma terse_field_shape_ok : forall name spec f, terse_field name spec = Ok f -> terse_field_shape f.
Proof.
  unfold terse_field; intros name spec f H.
  set (sp := split_on is_colon spec) in *.
  assert (FILL : exists v, match sp with _ :: x :: _ => YStr x | _ => default_fill end = YStr v).
  { destruct sp as [|a [|b r]]; unfold default_fill; eauto. }
  destruct FILL as [v FILL]. rewrite FILL in H.
  destruct (String.eqb (hd "" sp) "") eqn:E0.
  - simpl in H. inversion H; subst. unfold terse_field_shape; simpl. split; [eauto|]. split; [|eauto].
    exists default_type. split; auto. vm_compute. discriminate.
  - destruct (tersemap (hd "" sp)) as [tn|] eqn:Et; simpl in H; [|discriminate]. inversion H; subst.
    unfold terse_field_shape; simpl. split; [eauto|]. split; [|eauto].
    exists tn. split; auto. eapply tersemap_typemap; eauto.
Qed.

Lemma terse_fields_shape : forall n l fs, length l <= n -> terse_fields l = Ok fs -> Forall terse_field_shape fs.
Proof.
  induction n; intros l fs L H.
  - destruct l; [|simpl in L; lia]. simpl in H. inversion H. constructor.
  - destruct l as [|a [|b r]]; simpl in H; try (inversion H; constructor).
    destruct (terse_field a b) eqn:E; [|discriminate]. simpl in H.
    destruct (terse_fields r) eqn:Er; [|discriminate]. simpl in H. inversion H; subst.
    constructor; [eapply terse_field_shape_ok; eauto | eapply IHn; eauto; simpl in L; lia].
Qed.

(* every schema the terse parser returns has the three keys, string-named fields with a type of
   SCSV_TYPEMAP, and always a *string* fill -- '' when the spec gives none *)
Theorem terse_parse_shape : forall t s, parse_terse t = Ok s ->
  exists d m fs, s = mkSchema (Some d) (Some m) (Some fs) /\ Forall terse_field_shape fs.
Proof.
  unfold parse_terse; intros t s H.
  destruct t as [|c t']; [discriminate|].
  destruct c as [[] [] [] [] [] [] [] []]; try discriminate.
  destruct (find_char ":" (String "d" t') (String.length (String "d" t'))) as [ic|]; [|discriminate].
  destruct (negb (ascii_prefix (String "d" t') ic)); [discriminate|].
  destruct (Nat.ltb ic 4); [discriminate|].
  destruct (find_char "m" (String "d" t') ic) as [im|]; [|discriminate].
  destruct (Nat.ltb im 2); [discriminate|].
  match type of H with context [removelast ?x] => set (raw := removelast x) in * end.
  destruct (Nat.ltb (length raw) 2); [discriminate|].
  destruct (negb (Nat.even (length raw))); [discriminate|].
  destruct (terse_fields raw) as [fs|] eqn:E; simpl in H; [|discriminate]. inversion H; subst.
  do 3 eexists. split; [reflexivity|]. eapply terse_fields_shape; eauto.
Qed.

Lemma terse_examples_proof :
  parse_terse "d,m-:colA(s)colB(s:N/A:...)colC()colD(i:999999)colE(f:NaN:%)"
  = Ok (sch "," "-" [fld "colA" "string" (Some (YStr "")); fld "colB" "string" (Some (YStr "N/A"));
                      fld "colC" "string" (Some (YStr "")); fld "colD" "integer" (Some (YStr "999999"));
                      fld "colE" "float" (Some (YStr "NaN"))]) /\
  parse_terse "d,m-:a(s)" = Ok none_schema /\
  parse_terse "x" = Err SCSV /\ parse_terse "d,m:a(s)" = Err SCSV /\ parse_terse "dm-:a()" = Err SCSV /\
  parse_terse "d,m-:a" = Err SCSV /\ parse_terse "d,m-:a(s))" = Err SCSV /\ parse_terse "d,m-:a(q)" = Err SCSV.
Proof. repeat split; vm_compute; reflexivity. Qed.
