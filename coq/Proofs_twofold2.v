(* Proofs_twofold2.v -- C04: crystal two-fold symmetry transferred to the generated kernel and
   to aggregates in which ANY subset of grains is replaced by symmetry-equivalent orientations. *)
From Coq Require Import Reals ZArith List Bool Lra Lia.
From PV Require Import Num NumR Model_core Spec_drex Proofs_core Proofs_total Proofs_spec Proofs_twofold.
From PV.gen Require Import Gen_core.
Import ListNotations.
Open Scope R_scope.

Definition sgn3 := (R * R * R)%type.
Definition sgn_ok (s : sgn3) : Prop := let '(a, b, c) := s in pm1 a /\ pm1 b /\ pm1 c.
Definition flip3 (s : sgn3) (A : arr R) : arr R := let '(a, b, c) := s in flip a b c A.

Theorem kernel_flip ph fb (s : sgn3) (A D L : arr R) p n lam :
  valid_pair ph fb -> n <> 0 -> sgn_ok s ->
  let '(a, b, c) := s in
  flip_related a b c (@k_get_rotation_and_strain NumR ph fb A D L p n lam)
                     (@k_get_rotation_and_strain NumR ph fb (flip3 s A) D L p n lam).
Proof.
  destruct s as [[a b] c]. intros Hv Hn [Ha [Hb Hc]]. cbn [flip3].
  rewrite !(grain_eq_spec ph fb) by assumption. apply spec_grain_flip; assumption.
Qed.

Fixpoint flips (sg : list sgn3) (os : list (arr R)) : list (arr R) :=
  match sg, os with
  | s :: sg', o :: os' => flip3 s o :: flips sg' os'
  | _, _ => []
  end.

Fixpoint rates_flipped (sg : list sgn3) (Ads Ads' : list (arr R)) : Prop :=
  match sg, Ads, Ads' with
  | s :: sg', Ad :: Ads1, Ad' :: Ads1' =>
      (forall k, (k < 9)%nat -> Ad' k = flip3 s Ad k) /\ rates_flipped sg' Ads1 Ads1'
  | [], [], [] => True
  | _, _, _ => False
  end.

Definition grains_flipped (sg : list sgn3) (r r' : res (list (arr R * R))) : Prop :=
  match r, r' with
  | Ok rs, Ok rs' => map snd rs' = map snd rs /\ rates_flipped sg (map fst rs) (map fst rs')
  | Err e, Err e' => e = e'
  | _, _ => False
  end.

Lemma grains_flip ph fb (D L : arr R) p n lam : forall sg os,
  valid_pair ph fb -> n <> 0 -> Forall sgn_ok sg -> length sg = length os ->
  grains_flipped sg (@grains NumR ph fb os D L p n lam)
                    (@grains NumR ph fb (flips sg os) D L p n lam).
Proof.
  induction sg as [|s sg IH]; intros [|o os] Hv Hn Hok Hl; try discriminate Hl.
  - cbn. split; [reflexivity|exact I].
  - inversion Hok as [|? ? Hs Hok']; subst. injection Hl as Hl.
    cbn [flips grains].
    pose proof (kernel_flip ph fb s o D L p n lam Hv Hn Hs) as Hk. destruct s as [[a b] c].
    unfold flip_related in Hk. cbn [flip3] in *.
    destruct (@k_get_rotation_and_strain NumR ph fb o D L p n lam) as [[Ad E]|e];
    destruct (@k_get_rotation_and_strain NumR ph fb (flip a b c o) D L p n lam) as [[Ad' E']|e'];
    try contradiction; [|cbn; exact Hk].
    destruct Hk as [HE HA]. specialize (IH os Hv Hn Hok' Hl). unfold grains_flipped in IH.
    destruct (@grains NumR ph fb os D L p n lam) as [rs|e];
    destruct (@grains NumR ph fb (flips sg os) D L p n lam) as [rs'|e'];
    try contradiction; [|cbn; exact IH].
    destruct IH as [IH1 IH2]. cbn [grains_flipped map fst snd rates_flipped]. split.
    + rewrite HE, IH1. reflexivity.
    + split; [exact HA | exact IH2].
Qed.

Lemma scale9_flip c a b cc Ad Ad' : (forall k, (k < 9)%nat -> Ad' k = flip a b cc Ad k) ->
  forall k, (k < 9)%nat -> @scale9 NumR c Ad' k = flip a b cc (@scale9 NumR c Ad) k.
Proof.
  intros H k Hk.
  pose proof (H 0%nat ltac:(lia)) as H0; pose proof (H 1%nat ltac:(lia)) as H1;
  pose proof (H 2%nat ltac:(lia)) as H2; pose proof (H 3%nat ltac:(lia)) as H3;
  pose proof (H 4%nat ltac:(lia)) as H4; pose proof (H 5%nat ltac:(lia)) as H5;
  pose proof (H 6%nat ltac:(lia)) as H6; pose proof (H 7%nat ltac:(lia)) as H7;
  pose proof (H 8%nat ltac:(lia)) as H8.
  do 9 (destruct k as [|k];
        [cbv [scale9 flip mk_arr nth] in *; numR;
         rewrite ?H0, ?H1, ?H2, ?H3, ?H4, ?H5, ?H6, ?H7, ?H8; ring|]). lia.
Qed.

Definition derivs_flipped (sg : list sgn3) (r r' : res (list (arr R) * list R)) : Prop :=
  match r, r' with
  | Ok (Ads, fds), Ok (Ads', fds') => fds' = fds /\ rates_flipped sg Ads Ads'
  | Err e, Err e' => e = e'
  | _, _ => False
  end.

(* C04: replacing any subset of grains by lattice-symmetry-equivalent orientations (sign flips of
   rows; two flipped rows = a 180 degree rotation about the third crystal axis) yields the
   equivalent rate for those grains and IDENTICAL volume rates for ALL grains *)
Theorem derivs_flip regime ph fb (D L S : arr R) sg os fs p n lam M phi :
  dislocation_regime regime -> valid_pair ph fb -> n <> 0 ->
  Forall sgn_ok sg -> length sg = length os ->
  derivs_flipped sg (@derivs NumR regime ph fb os fs D L S p n lam M phi)
                    (@derivs NumR regime ph fb (flips sg os) fs D L S p n lam M phi).
Proof.
  intros Hr Hv Hn Hok Hl. pose proof (grains_flip ph fb D L p n lam sg os Hv Hn Hok Hl) as Hg.
  unfold grains_flipped in Hg.
  destruct Hr as [-> | ->]; cbn [derivs Z.eqb Pos.eqb];
  destruct (@grains NumR ph fb os D L p n lam) as [rs|e];
  destruct (@grains NumR ph fb (flips sg os) D L p n lam) as [rs'|e'];
  try contradiction; try exact Hg; destruct Hg as [Hg1 Hg2]; cbn [derivs_flipped]; (split; [f_equal; exact Hg1|]).
  - exact Hg2.
  - clear Hg1. revert Hg2. generalize rs' sg. clear.
    induction rs as [|r rs IH]; intros [|r' rs2] [|s sg] H; cbn [map rates_flipped] in *; try contradiction; try exact I.
    destruct H as [H1 H2]. destruct s as [[a b] c]. split; [|apply IH; exact H2].
    cbn [flip3] in *. apply scale9_flip. exact H1.
Qed.

(* the identity and the three two-folds are sign triples *)
Lemma twofolds_ok : sgn_ok (1, 1, 1) /\ sgn_ok (1, -1, -1) /\ sgn_ok (-1, 1, -1) /\ sgn_ok (-1, -1, 1).
Proof. unfold sgn_ok, pm1. repeat split; auto. Qed.
