(* Extract_velocity.v -- extraction of the C18 models to OCaml (ExtrOcamlBasic only). *)
From Coq Require Import Extraction ExtrOcamlBasic.
From PV Require Import Num Model_pathlines Entry_velocity.
From PV.gen Require Import Gen_velocity Gen_velocity_utils Gen_pathlines.
Extraction Language OCaml.
Extraction "model_velocity.ml" run_velocity run_gradient run_indices run_strain_increment
  run_is_inside run_ivp_func run_event run_timestamps
  run_gen_wrap run_gen_is_inside run_gen_ivp run_gen_event run_gen_request run_gen_timestamps.
