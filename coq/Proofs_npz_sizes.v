(* Proofs_npz_sizes.v -- what Mineral.save's validation means snapshot by snapshot, and why a validation that
   only looks at snapshot 0 and at the TOTAL number of elements is not the same (group `npz`, C17).

   The source tests the first snapshot explicitly (`fractions[0].shape[0] == orientations[0].shape[0] == n_grains`)
   and leaves every later snapshot to `np.stack`, which refuses arrays of different shapes.  Together:
   save goes through  <->  the counts agree, there is a snapshot, EVERY fractions array has the shape
   n_grains :: sf and EVERY orientations array the shape n_grains :: so (one sf, one so), metadata in 0..255.

   `concat_reshape` models `np.concatenate(l).reshape(k, n, ...)`: it checks the trailing dimensions and the total
   only -- a mineral whose later snapshots have compensating wrong sizes passes and is stored with its grains
   shifted between the time steps (refuted below). *)
From Coq Require Import ZArith List Bool String Arith Lia.
From PV Require Import Num Model_npz Proofs_npz.
Import ListNotations.

Section Sizes.
  Context {X : Type}.
  Notation nda := (nda X). Notation stacked := (stacked X). Notation mineral := (mineral X).

  (* every snapshot, not only the first *)
  Definition every_snapshot_sized (m : mineral) : Prop :=
    List.length (fractions m) = List.length (orientations m) /\
    fractions m <> [] /\
    (exists sf, Forall (fun a => shp a = n_grains m :: sf) (fractions m)) /\
    (exists so, Forall (fun a => shp a = n_grains m :: so) (orientations m)) /\
    in_u8 (phase m) /\ in_u8 (fabric m) /\ in_u8 (regime m).

  Lemma uniform_head_all : forall (a : nda) r s, shp a = s -> uniform (a :: r) -> Forall (fun b => shp b = s) (a :: r).
  Proof.
    intros a r s Ha U. constructor; [exact Ha|]. cbn [uniform] in U.
    eapply Forall_impl; [|exact U]. intros b Hb. cbn beta in Hb. congruence.
  Qed.

  Lemma all_uniform : forall (l : list nda) s, Forall (fun b => shp b = s) l -> uniform l.
  Proof.
    intros l s F. destruct l as [|a r]; [exact I|]. cbn [uniform].
    inversion F as [|? ? Ha Hr]; subst. eapply Forall_impl; [|exact Hr]. intros b Hb. cbn beta in Hb. congruence.
  Qed.

  Theorem wf_iff_every_snapshot_sized : forall m : mineral, wf m <-> every_snapshot_sized m.
  Proof.
    intros m. split.
    - intros (Hl & (f0 & fr & sf & Hf & Hsf) & (o0 & ors & so & Ho & Hso) & Uf & Uo & P & Fa & R).
      split; [exact Hl|]. split; [rewrite Hf; discriminate|].
      split; [exists sf; rewrite Hf in *; now apply uniform_head_all|].
      split; [exists so; rewrite Ho in *; now apply uniform_head_all|]. auto.
    - intros (Hl & Hne & (sf & Ff) & (so & Fo) & P & Fa & R).
      destruct (fractions m) as [|f0 fr] eqn:Hf; [congruence|].
      destruct (orientations m) as [|o0 ors] eqn:Ho; [cbn in Hl; discriminate|].
      unfold wf. rewrite Hf, Ho.
      split; [exact Hl|].
      split; [exists f0, fr, sf; split; [reflexivity|]; inversion Ff; assumption|].
      split; [exists o0, ors, so; split; [reflexivity|]; inversion Fo; assumption|].
      split; [eapply all_uniform; eauto|]. split; [eapply all_uniform; eauto|]. auto.
  Qed.

  (* ---- np.concatenate(l).reshape(k, n, trail...) -------------------------------------------------- *)
  Fixpoint chunk (fuel n : nat) (d : list X) : list (list X) :=
    match fuel with
    | O => []
    | S f => firstn n d :: chunk f n (skipn n d)
    end.

  Definition tail_shape (a : nda) : list nat := tl (shp a).
  Definition lead (a : nda) : nat := hd 0 (shp a).
  Definition row_size (s : list nat) : nat := fold_right Nat.mul 1 s.

  (* joins along axis 0 (all trailing shapes equal, no 0-d array), then views the result as k rows of n :: trail:
     only the total has to fit *)
  Definition concat_reshape (n : nat) (l : list nda) : res stacked :=
    match l with
    | [] => Err ValueError
    | a :: r =>
        if forallb (fun b => negb (Nat.eqb (List.length (shp b)) 0) && shape_eqb (tail_shape b) (tail_shape a)) l
           && Nat.eqb (fold_right Nat.add 0 (map lead l)) (List.length l * n)
        then Ok (mk_stacked (n :: tail_shape a) (chunk (List.length l) (n * row_size (tail_shape a)) (List.concat (map dat l))))
        else Err ValueError
    end.

  (* build_data with the two np.stack calls replaced *)
  Definition build_data_cr (m : mineral) : res (list Z * stacked * stacked) :=
    if negb (List.length (fractions m) =? List.length (orientations m))%nat then Err ValueError
    else
      match fractions m, orientations m with
      | f0 :: _, o0 :: _ =>
        match shape0 f0, shape0 o0 with
        | Ok nf, Ok no =>
          if (nf =? no)%nat && (no =? n_grains m)%nat then
            bind (to_uint8 (phase m)) (fun p =>
            bind (to_uint8 (fabric m)) (fun f =>
            bind (to_uint8 (regime m)) (fun r =>
            bind (concat_reshape (n_grains m) (fractions m)) (fun sf =>
            bind (concat_reshape (n_grains m) (orientations m)) (fun so =>
            Ok ([p; f; r], sf, so))))))
          else Err ValueError
        | Err e, _ => Err e
        | _, Err e => Err e
        end
      | _, _ => Err IndexError
      end.
End Sizes.

(* a mineral with n_grains = 2 and three snapshots of 2, 1 and 3 grains (fractions and orientations alike) *)
Definition cr_arr (lead_ : nat) (tail : list nat) (vals : list Z) : nda Z := mk_nda (lead_ :: tail) vals.
Definition t1 : list nat := [1].
Definition cr_m : mineral Z :=
  mk_mineral 0 0 4 2
    [cr_arr 2 [] [10; 11]; cr_arr 1 [] [20]; cr_arr 3 [] [30; 31; 32]]%Z
    [cr_arr 2 t1 [10; 11]; cr_arr 1 t1 [20]; cr_arr 3 t1 [30; 31; 32]]%Z.

(* the source as it is refuses it (np.stack); the total-only validation stores it as three snapshots of two
   grains, the third grain of the last snapshot having moved into the second snapshot *)
Lemma concat_reshape_refuted :
  ~ wf cr_m /\ build_data cr_m = Err ValueError /\
  (exists sf so, build_data_cr cr_m = Ok ([0; 0; 4]%Z, sf, so) /\
     unstack sf = [cr_arr 2 [] [10; 11]; cr_arr 2 [] [20; 30]; cr_arr 2 [] [31; 32]]%Z /\ unstack sf <> fractions cr_m).
Proof.
  assert (B : build_data cr_m = Err ValueError) by (vm_compute; reflexivity).
  split.
  - intro W. apply build_data_iff_wf in W. destruct W as [d H]. rewrite B in H. discriminate.
  - split; [exact B|]. eexists _, _. split; [vm_compute; reflexivity|]. split; [vm_compute; reflexivity|].
    vm_compute. discriminate.
Qed.

(* on consistent state the two agree: nothing distinguishes them on valid histories *)
Lemma concat_reshape_valid_example :
  let m := mk_mineral 0 0 4 2 [cr_arr 2 [] [10; 11]; cr_arr 2 [] [20; 21]]%Z [cr_arr 2 t1 [1; 2]; cr_arr 2 t1 [3; 4]]%Z in
  wf m /\ build_data_cr m = build_data m.
Proof.
  cbv zeta. split; [|vm_compute; reflexivity].
  apply build_data_iff_wf. eexists. vm_compute. reflexivity.
Qed.
