(* Proofs_multiphase.v -- C08 at the BOUNDARY of the fraction simplex (phase fractions exactly 0 and exactly 1).
   The general statements (Proofs_rhs.rhs_only_own_fraction, derivs_fraction_times_mobility) hold for every
   fraction; the corollaries below spell out what they mean at phi = 0 and phi = 1, and a witness shows that
   phi = 0 does NOT freeze the texture (only the boundary-migration term carries the factor phi). *)
From Coq Require Import Reals ZArith List Bool Lra Lia.
From PV Require Import Num NumR Model_core Model_minerals Proofs_core Proofs_minerals Proofs_rhs.
Import ListNotations.
Open Scope R_scope.

(* the single-phase form with the product mobility (same statement as Proofs_path2.rhs_multiphase_is_single_phase,
   re-derived here from the two Proofs_rhs theorems so that this file only depends on Proofs_rhs) *)
Lemma rhs_single_phase_product regime ph fb n ass frs (L : RL) (s : R) Sd p nn lam M (y : RL) phi :
  @lookup_fraction NumR ph ass frs = Ok phi ->
  @rhs NumR regime ph fb n ass frs L s Sd p nn lam M y
  = @rhs NumR regime ph fb n [ph] [1] L s Sd p nn lam (phi * M) y.
Proof.
  intros Hl. rewrite (rhs_only_own_fraction regime ph fb n ass frs L s Sd p nn lam M y phi Hl).
  unfold rhs, lookup_fraction. cbn [index_of]. rewrite Z.eqb_refl. cbn [nth_error].
  match goal with |- context [@derivs NumR regime ph fb ?os ?fs ?D ?LL ?S p nn lam M phi] =>
    rewrite (derivs_fraction_times_mobility regime ph fb os fs D LL S p nn lam M phi) end.
  reflexivity.
Qed.

(* phi = 0: the mineral sees the vector field of the single-phase mineral with mobility 0 -- for EVERY M *)
Theorem rhs_zero_fraction_is_zero_mobility regime ph fb n ass frs (L : RL) (s : R) Sd p nn lam M (y : RL) :
  @lookup_fraction NumR ph ass frs = Ok 0 ->
  @rhs NumR regime ph fb n ass frs L s Sd p nn lam M y
  = @rhs NumR regime ph fb n [ph] [1] L s Sd p nn lam 0 y.
Proof.
  intros Hl. rewrite (rhs_single_phase_product regime ph fb n ass frs L s Sd p nn lam M y 0 Hl).
  rewrite Rmult_0_l. reflexivity.
Qed.

(* phi = 1 inside any assemblage (the other phases hold 0): exactly the single-phase mineral *)
Theorem rhs_unit_fraction_is_single_phase regime ph fb n ass frs (L : RL) (s : R) Sd p nn lam M (y : RL) :
  @lookup_fraction NumR ph ass frs = Ok 1 ->
  @rhs NumR regime ph fb n ass frs L s Sd p nn lam M y
  = @rhs NumR regime ph fb n [ph] [1] L s Sd p nn lam M y.
Proof.
  intros Hl. rewrite (rhs_single_phase_product regime ph fb n ass frs L s Sd p nn lam M y 1 Hl).
  rewrite Rmult_1_l. reflexivity.
Qed.

(* a mineral whose phase holds the fraction 0 is NOT frozen: enstatite in [olivine; enstatite] with fractions
   [1; 0]; one grain; the orientation block of the modelled eval_rhs has the entry 1 (at position 9 + 1) *)
Lemma zero_fraction_not_frozen :
  exists (regime ph fb : Z) (n : nat) (ass : list Z) (frs L : RL) (s : R) (Sd : RL) (p nn lam M : R) (y out : RL),
    @lookup_fraction NumR ph ass frs = Ok 0 /\
    @rhs NumR regime ph fb n ass frs L s Sd p nn lam M y = Ok out /\
    length out = (9 + 10 * n)%nat /\
    ~ all_zero (skipn 9 out).
Proof.
  exists 1%Z, 1%Z, 5%Z, 1%nat, [0; 1]%Z, [1; 0], (repeat 0 9), 1,
         [0; 1; 0; -1; 0; 0; 0; 0; 0], 1.5, 3.5, 5, 125,
         ([1; 0; 0; 0; 1; 0; 0; 0; 1] ++ [1; 0; 0; 0; 1; 0; 0; 0; 1] ++ [1]).
  eexists. split; [reflexivity|]. split.
  - unfold rhs. cbn [lookup_fraction index_of Z.eqb Pos.eqb option_map nth_error].
    assert (Hs : @eqb NumR 1 (@zero NumR) = false) by (numR; apply Reqb_false; lra).
    rewrite Hs. unfold derivs. cbn [Z.eqb Pos.eqb]. reflexivity.
  - split; [reflexivity|].
    intros H. unfold all_zero in H. rewrite Forall_forall in H.
    assert (H1 : 1 * 1 = 0).
    { apply H. cbn. numR. right. left. reflexivity. }
    lra.
Qed.

(* hypotheses of the two boundary theorems are satisfiable, in both list orders *)
Lemma C08_boundary_nonvacuous_proof :
  @lookup_fraction NumR 1 [0; 1]%Z [1; 0] = Ok 0 /\ @lookup_fraction NumR 1 [1; 0]%Z [0; 1] = Ok 0 /\
  @lookup_fraction NumR 0 [0; 1]%Z [1; 0] = Ok 1 /\ @lookup_fraction NumR 0 [1; 0]%Z [0; 1] = Ok 1.
Proof. repeat split; reflexivity. Qed.
