(* Inst_polar.v -- kernel-checked instance lemmas for pydrex.tensors.polar_decompose (tie T, C11). *)
From Coq Require Import Reals ZArith List Lra Lia Arith.
From PV Require Import Num NumR Model_voigt Proofs_tensors_alg Proofs_tensors_rot.
From PV.gen Require Import Gen_tensors.
Import ListNotations.
Open Scope R_scope.

(* ---------------------------------------------------------------------- *)
(* polar_decompose (tie T): coq/gen/Gen_polar.v is regenerated on every run from the *)
(* real pydrex.tensors.polar_decompose over the SVD oracle (translator/specs_tensors.py, *)
(* `polar_translation`).  Both variants coincide -- as Leibniz-equal results, for ALL     *)
(* matrices and all oracle outputs, no hypothesis -- with the hand-written models of       *)
(* Model_decomp on which every polar theorem of C11 is stated.  A branch added to the      *)
(* source (e.g. a fast path that skips the SVD) makes the translator fail closed or one of *)
(* these two proofs stop compiling.                                                        *)
(* ---------------------------------------------------------------------- *)
From PV Require Import Model_decomp.
From PV.gen Require Import Gen_polar.

Lemma pair_eq2 {X Y} (a a' : X) (b b' : Y) : a = a' -> b = b' -> (a, b) = (a', b').
Proof. intros -> ->; reflexivity. Qed.
Lemma cons_eq2 {X} (a b : X) l1 l2 : a = b -> l1 = l2 -> a :: l1 = b :: l2.
Proof. intros -> ->; reflexivity. Qed.
Lemma mk_arr_eq (l l' : list R) : l = l' -> @mk_arr R 0 l = @mk_arr R 0 l'.
Proof. intros ->; reflexivity. Qed.

Ltac arr_ring tac := apply mk_arr_eq; repeat (apply cons_eq2; [ tac | ]); try reflexivity.

Theorem polar_left_inst (M U S Vh : arr NumR) :
  @k_polar_decompose_left NumR M U S Vh = @polar_left NumR U S Vh.
Proof.
  unfold k_polar_decompose_left, polar_left. cbv zeta.
  cbv [matmul3 transpose3 diag3].
  lazymatch goal with
  | |- (mk_arr _ _, mk_arr _ _) = _ => idtac
  | _ => fail "the generated k_polar_decompose_left is no longer ONE pair (U @ Vh, U @ diag(S) @ U^T): polar_decompose(left=True) has a new branch / another result"
  end.
  apply pair_eq2; arr_ring ltac:(cbv [mk_arr nth]; numR; ring).
Qed.

(* the generated definition keeps its shared subterms as `let`s: they are moved to the context
   (no tactic mentions a generated name), the determinant is compared once by `ring`, then made
   opaque so that `field` only sees it as a variable *)
Ltac lift_let :=
  match goal with
  | |- (let x := ?t in @?f x) = ?r => let y := fresh "v" in pose (y := t); change (f y = r); cbv beta
  end.
Ltac subst_defs := repeat match goal with x := _ |- _ => subst x end.

(* The right variant exists in two versions of the source: the original one,
     U_m = Vh^T diag(S) Vh;  return matrix @ inv(U_m), U_m          (raises for singular input: open finding), and the
   repaired one (fixes/C11-polar-right-singular.patch),  return U @ Vh, U_m.
   The generated definition is proved equal to WHICHEVER model the current source realises; every theorem
   about "what polar_decompose(M, left=False) returns" (Proofs_tensors_polar2.polar_right_generated) is proved
   for both.  Anything else breaks this proof. *)
Theorem polar_right_inst :
  (forall M U S Vh : arr NumR, @k_polar_decompose_right NumR M U S Vh = @polar_right NumR M S Vh) \/
  (forall M U S Vh : arr NumR, @k_polar_decompose_right NumR M U S Vh = Ok (@polar_right_repaired NumR U S Vh)).
Proof.
  first
  [ left; intros M U S Vh;
    cbv beta delta [k_polar_decompose_right]; repeat lift_let;
    lazymatch goal with
    | |- (if @neqb NumR _ _ then Err ValueError else _) = _ => idtac
    end;
    unfold polar_right, inv3; cbv zeta;
    set (Um := matmul3 (transpose3 Vh) (matmul3 (diag3 S) Vh));
    match goal with
    | |- (if @neqb NumR ?a _ then _ else _) = _ =>
        assert (HH : @det3 NumR Um = a)
          by (subst_defs; cbv [det3 matmul3 transpose3 diag3 mk_arr nth]; numR; ring);
        rewrite HH; change (@neqb NumR a (@nzero NumR)) with (Reqb a 0);
        destruct (Reqb a 0) eqn:E; [ reflexivity | apply Reqb_false in E; clear HH; clearbody a ]
    end;
    f_equal; apply pair_eq2;
    [ unfold matmul3 at 1;
      arr_ring ltac:(subst_defs; cbv [matmul3 transpose3 diag3 mk_arr nth]; numR; field; exact E)
    | subst Um; unfold matmul3 at 1;
      arr_ring ltac:(subst_defs; cbv [matmul3 transpose3 diag3 mk_arr nth]; numR; ring) ]
  | right; intros M U S Vh;
    cbv beta delta [k_polar_decompose_right]; repeat lift_let;
    lazymatch goal with
    | |- Ok (mk_arr _ _, mk_arr _ _) = _ => idtac
    end;
    unfold polar_right_repaired; cbv [matmul3 transpose3 diag3];
    apply f_equal; apply pair_eq2;
    arr_ring ltac:(subst_defs; cbv [mk_arr nth]; numR; ring)
  | fail "the generated k_polar_decompose_right is neither `if det(U_m) == 0 then LinAlgError else (M @ inv(U_m), U_m)` nor the repaired `(U @ Vh, U_m)`: polar_decompose(left=False) has a new branch / another result" ].
Qed.
