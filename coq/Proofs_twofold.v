(* Proofs_twofold.v -- C04, crystal two-fold symmetry (180 degree rotation about a crystal axis =
   sign flip of two rows of the orientation matrix): what is proved so far. *)
From Coq Require Import Reals ZArith List Bool Lra Lia.
From PV Require Import Num NumR Model_core Spec_drex Proofs_core Proofs_spec.
Import ListNotations.
Open Scope R_scope.

(* rows scaled by signs (sa, sb, sc) *)
Definition flip (sa sb sc : R) (A : arr R) : arr R :=
  mk_arr 0 [sa * A 0%nat; sa * A 1%nat; sa * A 2%nat; sb * A 3%nat; sb * A 4%nat; sb * A 5%nat;
            sc * A 6%nat; sc * A 7%nat; sc * A 8%nat].

Definition pm1 (t : R) : Prop := t = 1 \/ t = -1.

(* invariants pick up the product of the two row signs of their slip system *)
Lemma invariants_flip sa sb sc (D A : arr R) :
  @spec_invariants NumR D (flip sa sb sc A)
  = mk_arr 0 [(sa * sb) * @spec_invariant NumR D A 0; (sa * sc) * @spec_invariant NumR D A 1;
              (sc * sb) * @spec_invariant NumR D A 2; (sc * sa) * @spec_invariant NumR D A 3].
Proof.
  cbv [spec_invariants spec_invariant flip row dot mvec sys_l sys_n mk_arr nth Nat.add Nat.mul]. numR.
  apply arr_eq4; ring.
Qed.

Lemma act_sign t x tau : pm1 t -> @act NumR (t * x) tau = @act NumR x tau.
Proof.
  intros [-> | ->]; unfold act, over_tau; numR.
  - replace (1 * x) with x by ring. reflexivity.
  - destruct tau as [z|]; [|reflexivity].
    destruct z as [|[q|q|]|q];
    match goal with
    | |- Rabs (-1 * x / ?c) = Rabs (x / ?c) =>
        replace (-1 * x / c) with (- (x / c)) by (unfold Rdiv; ring); apply Rabs_Ropp
    | |- Rabs (-1 * x) = Rabs x => replace (-1 * x) with (- x) by ring; apply Rabs_Ropp
    end.
Qed.

(* hence slip activities, and with them the activity order, are unchanged *)
Theorem activities_flip sa sb sc tau (D A : arr R) : pm1 sa -> pm1 sb -> pm1 sc ->
  @spec_activities NumR tau (@spec_invariants NumR D (flip sa sb sc A))
  = @spec_activities NumR tau (@spec_invariants NumR D A).
Proof.
  intros Ha Hb Hc. rewrite invariants_flip. unfold spec_activities, spec_invariants.
  cbv [mk_arr nth].
  assert (Hp : forall s t, pm1 s -> pm1 t -> pm1 (s * t)).
  { intros s t [-> | ->] [-> | ->]; unfold pm1; [left|right|right|left]; ring. }
  rewrite !act_sign by (apply Hp; assumption). reflexivity.
Qed.

(* rows of the rate are w x a_i: flipping a row flips its rate (same spin w) *)
Lemma cross_flip (w a : R * R * R) s :
  @cross NumR w (let '(x, y, z) := a in (s * x, s * y, s * z))
  = let '(x, y, z) := @cross NumR w a in (s * x, s * y, s * z).
Proof.
  destruct w as [[w0 w1] w2], a as [[a0 a1] a2]. unfold cross. numR. f_equal; [f_equal|]; ring.
Qed.

(* ---- completing the two-fold argument ---------------------------------------------------- *)
Lemma pm1_sq t : pm1 t -> t * t = 1.
Proof. intros [-> | ->]; ring. Qed.

Lemma pm1_mul s t : pm1 s -> pm1 t -> pm1 (s * t).
Proof. intros [-> | ->] [-> | ->]; unfold pm1; [left|right|right|left]; ring. Qed.

Lemma over_tau_scale t x tau : @over_tau NumR (t * x) tau = t * @over_tau NumR x tau.
Proof.
  unfold over_tau. numR. destruct tau as [z|]; [|ring].
  destruct z as [|[q|q|]|q]; unfold Rdiv; ring.
Qed.

Lemma Rabs_pm1 t x : pm1 t -> Rabs (t * x) = Rabs x.
Proof.
  intros [-> | ->]; [replace (1 * x) with x by ring; reflexivity|].
  replace (-1 * x) with (- x) by ring. apply Rabs_Ropp.
Qed.

Lemma inv_pm1 t x : pm1 t -> x <> 0 -> / (t * x) = t * / x.
Proof. intros [-> | ->] Hx; field; exact Hx. Qed.

(* relative slip rates pick up t_s t_max *)
Lemma beta_flip (t : nat -> R) tau (inv : arr R) P n s :
  (forall k, pm1 (t k)) -> inv (pidx P 3) <> 0 ->
  @spec_beta NumR tau (fun k => t k * inv k) P n s
  = t s * t (pidx P 3) * @spec_beta NumR tau inv P n s.
Proof.
  intros Ht Hm. unfold spec_beta. cbv zeta beta.
  destruct (Nat.eqb_spec s (pidx P 3)) as [->|Hne].
  - numR. rewrite (pm1_sq _ (Ht (pidx P 3))). ring.
  - destruct (Nat.eqb s (pidx P 0)); [numR; ring|].
    rewrite over_tau_scale.
    pose proof (Ht s) as Hs. pose proof (Ht (pidx P 3)) as Hp.
    generalize dependent (@over_tau NumR (inv s) (tau_at tau s)).
    generalize (@tau_val NumR (tau_at tau (pidx P 3))).
    generalize dependent (inv (pidx P 3)). generalize dependent (t (pidx P 3)). generalize dependent (t s).
    intros ts Hs tm Hp im Hm tv ot. numR. unfold Rdiv. rewrite (inv_pm1 tm im Hp Hm).
    replace (ts * ot * (tv * (tm * / im))) with ((ts * tm) * (ot * (tv * / im))) by ring.
    rewrite (Rabs_pm1 _ _ (pm1_mul _ _ Hs Hp)). ring.
Qed.

(* sign array of a row-sign triple: t_s = product of the two row signs of slip system s *)
Definition tsgn (sa sb sc : R) (s : nat) : R :=
  match s with 0%nat => sa * sb | 1%nat => sa * sc | 2%nat => sc * sb | _ => sc * sa end.

Lemma tsgn_pm1 sa sb sc : pm1 sa -> pm1 sb -> pm1 sc -> forall s, pm1 (tsgn sa sb sc s).
Proof. intros Ha Hb Hc s. destruct s as [|[|[|s]]]; cbn [tsgn]; apply pm1_mul; assumption. Qed.

(* Schmid tensor: with beta'_s = t_s t_m beta_s the flipped tensor is t_m G *)
Lemma schmid_flip sa sb sc (A b : arr R) tm k :
  pm1 sa -> pm1 sb -> pm1 sc -> (k < 9)%nat ->
  @spec_schmid NumR (flip sa sb sc A)
     (mk_arr 0 [tsgn sa sb sc 0 * tm * b 0%nat; tsgn sa sb sc 1 * tm * b 1%nat;
                tsgn sa sb sc 2 * tm * b 2%nat; tsgn sa sb sc 3 * tm * b 3%nat]) k
  = tm * @spec_schmid NumR A b k.
Proof.
  intros [-> | ->] [-> | ->] [-> | ->] Hk;
  do 9 (destruct k as [|k];
        [cbv [spec_schmid flip tsgn row vnth sys_l sys_n mk_arr nth Nat.add Nat.mul]; numR; ring|]); lia.
Qed.

(* least-squares slip rate: gamma0 (t G) = t gamma0 G *)
Lemma gamma0_scale t (G G' L : arr R) : pm1 t -> (forall k, (k < 9)%nat -> G' k = t * G k) ->
  @spec_gamma0 NumR G' L = t * @spec_gamma0 NumR G L.
Proof.
  intros Ht HG. unfold spec_gamma0. cbv [frob sym2 e2 Nat.add Nat.mul].
  rewrite !(HG 0%nat), !(HG 1%nat), !(HG 2%nat), !(HG 3%nat), !(HG 4%nat), !(HG 5%nat), !(HG 6%nat),
          !(HG 7%nat), !(HG 8%nat) by lia.
  numR.
  match goal with |- (if andb (Rltb ?lo (2 * ?d1)) (Rltb (2 * ?d1) ?hi) then _ else ?n1 / ?d1)
                     = t * (if andb (Rltb ?lo (2 * ?d2)) (Rltb (2 * ?d2) ?hi) then _ else ?n2 / ?d2) =>
    assert (Hd : d1 = d2) by (destruct Ht as [-> | ->]; field);
    assert (Hn : n1 = t * n2) by (destruct Ht as [-> | ->]; field);
    rewrite Hd, Hn
  end.
  match goal with |- (if ?c then _ else _) = _ => destruct c end; [ring|].
  unfold Rdiv. ring.
Qed.

(* spin unchanged: skw L - (t g)(t skw G) *)
Lemma spin_scale t (G G' L : arr R) g : pm1 t -> (forall k, (k < 9)%nat -> G' k = t * G k) ->
  @spec_spin NumR G' L (t * g) = @spec_spin NumR G L g.
Proof.
  intros Ht HG. cbv [spec_spin skw2 e2 Nat.add Nat.mul].
  rewrite !(HG 1%nat), !(HG 2%nat), !(HG 3%nat), !(HG 5%nat), !(HG 6%nat), !(HG 7%nat) by lia.
  numR. destruct Ht as [-> | ->]; (f_equal; [f_equal|]); field.
Qed.

(* rate rows flip with their row *)
Lemma rate_flip sa sb sc (A G G' L : arr R) g g' k :
  @spec_spin NumR G' L g' = @spec_spin NumR G L g -> (k < 9)%nat ->
  @spec_rate NumR (flip sa sb sc A) G' L g' k = flip sa sb sc (@spec_rate NumR A G L g) k.
Proof.
  intros Hs Hk. unfold spec_rate. cbv zeta. rewrite Hs.
  destruct (@spec_spin NumR G L g) as [[w0 w1] w2].
  do 9 (destruct k as [|k];
        [cbv [flip row cross vnth mk_arr nth Nat.add Nat.mul]; numR; ring|]). lia.
Qed.

(* strain energy: |beta'_s g'| = |beta_s g| *)
Lemma energy_flip tau (t : nat -> R) (b b' : arr R) P g tm p n lam :
  (forall k, pm1 (t k)) -> pm1 tm ->
  (forall s, (s < 4)%nat -> b' s = t s * tm * b s) ->
  @spec_energy NumR tau b' P (tm * g) p n lam = @spec_energy NumR tau b P g p n lam.
Proof.
  intros Ht Hm Hb. unfold spec_energy, spec_energy1, spec_rho.
  assert (Hlt : forall i, (pidx P i < 4)%nat).
  { intros i. destruct P; destruct i as [|[|[|[|[|i]]]]]; cbv [pidx perm4_list nth]; lia. }
  assert (Habs : forall s, (s < 4)%nat -> Rabs (b' s * (tm * g)) = Rabs (b s * g)).
  { intros s Hs. rewrite (Hb s Hs).
    replace (t s * tm * b s * (tm * g)) with ((t s * (tm * tm)) * (b s * g)) by ring.
    rewrite (pm1_sq tm Hm), Rmult_1_r. apply Rabs_pm1. apply Ht. }
  numR. rewrite !Habs by apply Hlt. reflexivity.
Qed.

(* ---- one grain ---------------------------------------------------------------------------- *)
Definition flip_related (sa sb sc : R) (r r' : res (arr R * R)) : Prop :=
  match r, r' with
  | Ok (Ad, E), Ok (Ad', E') => E' = E /\ forall k, (k < 9)%nat -> Ad' k = flip sa sb sc Ad k
  | Err e, Err e' => e = e'
  | _, _ => False
  end.

Lemma Reqb_pm1 t x : pm1 t -> Reqb (t * x) 0 = Reqb x 0.
Proof.
  intros Ht. destruct (Reqb x 0) eqn:H; bool2prop.
  - subst x. apply Reqb_true. ring.
  - apply Reqb_false. intro Hc. apply H. destruct Ht as [-> | ->]; lra.
Qed.

Lemma all_zero4_flip sa sb sc (D A : arr R) : pm1 sa -> pm1 sb -> pm1 sc ->
  @all_zero4 NumR (@spec_invariants NumR D (flip sa sb sc A)) = @all_zero4 NumR (@spec_invariants NumR D A).
Proof.
  intros Ha Hb Hc. rewrite invariants_flip. unfold all_zero4, spec_invariants. cbv [mk_arr nth]. numR.
  rewrite !Reqb_pm1 by (apply pm1_mul; assumption). reflexivity.
Qed.

Lemma zeros_flip sa sb sc k : (k < 9)%nat -> @zeros9s NumR k = flip sa sb sc (@zeros9s NumR) k.
Proof.
  intros Hk. do 9 (destruct k as [|k]; [cbv [zeros9s flip mk_arr nth]; numR; ring|]). lia.
Qed.

(* the common tail of the olivine and enstatite branches: given beta' = t_s t_m beta *)
Lemma tail_flip sa sb sc tau (A L b b' : arr R) P tm p n lam :
  pm1 sa -> pm1 sb -> pm1 sc -> pm1 tm ->
  (forall s, (s < 4)%nat -> b' s = tsgn sa sb sc s * tm * b s) ->
  let G := @spec_schmid NumR A b in let G' := @spec_schmid NumR (flip sa sb sc A) b' in
  let g := @spec_gamma0 NumR G L in let g' := @spec_gamma0 NumR G' L in
  @spec_energy NumR tau b' P g' p n lam = @spec_energy NumR tau b P g p n lam /\
  forall k, (k < 9)%nat -> @spec_rate NumR (flip sa sb sc A) G' L g' k = flip sa sb sc (@spec_rate NumR A G L g) k.
Proof.
  intros Ha Hb Hc Hm Hbeta G G' g g'.
  assert (HG : forall k, (k < 9)%nat -> G' k = tm * G k).
  { intros k Hk. subst G G'.
    rewrite <- (schmid_flip sa sb sc A b tm k Ha Hb Hc Hk).
    unfold spec_schmid. cbv zeta.
    rewrite (Hbeta 0%nat), (Hbeta 1%nat), (Hbeta 2%nat), (Hbeta 3%nat) by lia. reflexivity. }
  assert (Hg : g' = tm * g) by (subst g g'; apply gamma0_scale; assumption).
  split.
  - rewrite Hg. apply (energy_flip tau (tsgn sa sb sc)); try assumption. apply tsgn_pm1; assumption.
  - intros k Hk. apply rate_flip; [|exact Hk]. rewrite Hg. apply spin_scale; assumption.
Qed.

Lemma beta_ext tau (inv1 inv2 : arr R) P n s :
  inv1 s = inv2 s -> inv1 (pidx P 3) = inv2 (pidx P 3) ->
  @spec_beta NumR tau inv1 P n s = @spec_beta NumR tau inv2 P n s.
Proof. intros H1 H2. unfold spec_beta. rewrite H1, H2. reflexivity. Qed.

Lemma pidx_lt P i : (pidx P i < 4)%nat.
Proof. destruct P; destruct i as [|[|[|[|[|i]]]]]; cbv [pidx perm4_list nth]; lia. Qed.

Lemma tau_table_olivine fb tau : tau_table 0 fb = Some tau -> olivine_tau tau.
Proof.
  unfold tau_table, olivine_tau, tauA, tauB, tauC, tauD, tauE.
  destruct fb as [|[[|[]|]|[[]|[]|]|]|]; intros H; inversion H; auto 6.
Qed.

Theorem spec_grain_flip ph fb sa sb sc (A D L : arr R) p n lam :
  pm1 sa -> pm1 sb -> pm1 sc ->
  flip_related sa sb sc (@spec_grain NumR ph fb A D L p n lam)
                        (@spec_grain NumR ph fb (flip sa sb sc A) D L p n lam).
Proof.
  intros Ha Hb Hc. unfold spec_grain. destruct (tau_table ph fb) as [tau|] eqn:Htau; [|reflexivity].
  rewrite (all_zero4_flip sa sb sc D A Ha Hb Hc).
  set (inv := @spec_invariants NumR D A). set (inv' := @spec_invariants NumR D (flip sa sb sc A)).
  assert (Hinv : forall k, (k < 4)%nat -> inv' k = tsgn sa sb sc k * inv k).
  { intros k Hk. subst inv inv'. rewrite invariants_flip. unfold spec_invariants.
    do 4 (destruct k as [|k]; [reflexivity|]). lia. }
  destruct (all_zero4 inv); [split; [reflexivity|apply zeros_flip]|].
  destruct (Z.eqb_spec ph 0) as [->|Hph].
  - (* olivine *)
    subst inv'. rewrite (activities_flip sa sb sc tau D A Ha Hb Hc). fold inv.
    destruct (all_zero4 (spec_activities tau inv)) eqn:Hq; [split; [reflexivity|apply zeros_flip]|].
    set (P := argsort4 (spec_activities tau inv)).
    destruct (imax_facts tau inv (tau_table_olivine fb tau Htau) Hq) as [Hm _]. fold P in Hm.
    cbv zeta.
    apply (tail_flip sa sb sc tau A L _ _ P (tsgn sa sb sc (pidx P 3)) p n lam Ha Hb Hc
             (tsgn_pm1 sa sb sc Ha Hb Hc _)).
    intros s Hs.
    assert (Hb' : @spec_beta NumR tau (@spec_invariants NumR D (flip sa sb sc A)) P n s
                  = tsgn sa sb sc s * tsgn sa sb sc (pidx P 3) * @spec_beta NumR tau inv P n s).
    { rewrite <- (beta_flip (tsgn sa sb sc) tau inv P n s (tsgn_pm1 sa sb sc Ha Hb Hc) Hm).
      apply beta_ext; apply Hinv; [exact Hs | apply pidx_lt]. }
    unfold spec_beta_arr. do 4 (destruct s as [|s]; [exact Hb'|]). lia.
  - (* enstatite *)
    cbv zeta.
    apply (tail_flip sa sb sc tau A L _ _ P0123 (tsgn sa sb sc 3) p n lam Ha Hb Hc (tsgn_pm1 sa sb sc Ha Hb Hc _)).
    intros s Hs. rewrite (Hinv 3%nat) by lia. numR.
    rewrite (Rabs_pm1 _ _ (tsgn_pm1 sa sb sc Ha Hb Hc 3%nat)).
    pose proof (pm1_sq _ (tsgn_pm1 sa sb sc Ha Hb Hc 3%nat)) as Hsq.
    destruct s as [|[|[|[|s]]]]; try lia; cbv [mk_arr nth]; try ring.
    rewrite Hsq. ring.
Qed.
