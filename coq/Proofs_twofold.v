(* Proofs_twofold.v -- C04, crystal two-fold symmetry (180 degree rotation about a crystal axis =
   sign flip of two rows of the orientation matrix): what is proved so far. *)
From Coq Require Import Reals ZArith List Bool Lra Lia.
From PV Require Import Num NumR Model_core Spec_drex Proofs_core Proofs_spec.
Import ListNotations.
Open Scope R_scope.

(* rows scaled by signs (sa, sb, sc) *)
Definition flip (sa sb sc : R) (A : arr R) : arr R :=
  mk_arr 0 [sa * A 0%nat; sa * A 1%nat; sa * A 2%nat; sb * A 3%nat; sb * A 4%nat; sb * A 5%nat;
            sc * A 6%nat; sc * A 7%nat; sc * A 8%nat].

Definition pm1 (t : R) : Prop := t = 1 \/ t = -1.

(* invariants pick up the product of the two row signs of their slip system *)
Lemma invariants_flip sa sb sc (D A : arr R) :
  @spec_invariants NumR D (flip sa sb sc A)
  = mk_arr 0 [(sa * sb) * @spec_invariant NumR D A 0; (sa * sc) * @spec_invariant NumR D A 1;
              (sc * sb) * @spec_invariant NumR D A 2; (sc * sa) * @spec_invariant NumR D A 3].
Proof.
  cbv [spec_invariants spec_invariant flip row dot mvec sys_l sys_n mk_arr nth Nat.add Nat.mul]. numR.
  apply arr_eq4; ring.
Qed.

Lemma act_sign t x tau : pm1 t -> @act NumR (t * x) tau = @act NumR x tau.
Proof.
  intros [-> | ->]; unfold act, over_tau; numR.
  - replace (1 * x) with x by ring. reflexivity.
  - destruct tau as [z|]; [|reflexivity].
    destruct z as [|[q|q|]|q];
    match goal with
    | |- Rabs (-1 * x / ?c) = Rabs (x / ?c) =>
        replace (-1 * x / c) with (- (x / c)) by (unfold Rdiv; ring); apply Rabs_Ropp
    | |- Rabs (-1 * x) = Rabs x => replace (-1 * x) with (- x) by ring; apply Rabs_Ropp
    end.
Qed.

(* hence slip activities, and with them the activity order, are unchanged *)
Theorem activities_flip sa sb sc tau (D A : arr R) : pm1 sa -> pm1 sb -> pm1 sc ->
  @spec_activities NumR tau (@spec_invariants NumR D (flip sa sb sc A))
  = @spec_activities NumR tau (@spec_invariants NumR D A).
Proof.
  intros Ha Hb Hc. rewrite invariants_flip. unfold spec_activities, spec_invariants.
  cbv [mk_arr nth].
  assert (Hp : forall s t, pm1 s -> pm1 t -> pm1 (s * t)).
  { intros s t [-> | ->] [-> | ->]; unfold pm1; [left|right|right|left]; ring. }
  rewrite !act_sign by (apply Hp; assumption). reflexivity.
Qed.

(* rows of the rate are w x a_i: flipping a row flips its rate (same spin w) *)
Lemma cross_flip (w a : R * R * R) s :
  @cross NumR w (let '(x, y, z) := a in (s * x, s * y, s * z))
  = let '(x, y, z) := @cross NumR w a in (s * x, s * y, s * z).
Proof.
  destruct w as [[w0 w1] w2], a as [[a0 a1] a2]. unfold cross. numR. f_equal; [f_equal|]; ring.
Qed.
