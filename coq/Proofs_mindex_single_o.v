(* Proofs_mindex_single_o.v -- value of the single-orientation index (1 + T) / 2 - th_0 for the
   orthorhombic theoretical density, by kernel-checked interval arithmetic. *)
From Coq Require Import Reals ZArith List Bool Lra Lia.
From Interval Require Import Tactic.
From PV Require Import Num NumR Model_mindex Proofs_mindex Proofs_mindex_mass.
Import ListNotations.
Open Scope R_scope.

Lemma first_bin_orthorhombic : nth 0 (map (trapz g_ortho) (seq 0 120)) 0 <= 1 / 100000.
Proof. cbn [seq map nth]. unfold trapz. cbv [g_ortho Nat.leb g_first]. edge_num. interval. Qed.

Lemma single_orthorhombic :
  Rabs ((1 + rsum (map (trapz g_ortho) (seq 0 120))) / 2 - nth 0 (map (trapz g_ortho) (seq 0 120)) 0 - 1) <= 1 / 10000.
Proof.
  rewrite rsum_trapz. cbn [seq map rsum fold_right Nat.add nth]. unfold trapz.
  cbv [g_ortho Nat.leb g_first g_third]. expand_fourth.
  interval with (i_prec 40).
Qed.
