(* Proofs_tie.v -- C02 at an EXACT tie of the two largest slip-system activities: the published model (and with
   it the generated kernel, C02_grain) gives the same orientation rate and the same strain energy whichever of the
   two tied systems is called the most active one.  The relative slip rates of the other order are sigma times the
   first (sigma = +-1), so the Schmid tensor is sigma G, the least-squares slip rate sigma g0, and the spin
   skew L - g0 skew G, the products |beta_s g0| and hence the strain energy are unchanged. *)
From Coq Require Import Reals ZArith List Bool Lra Lia.
From PV Require Import Num NumR Model_core Spec_drex Proofs_core Proofs_total Proofs_spec.
From PV.gen Require Import Gen_core.
Import ListNotations.
Open Scope R_scope.

Notation RA := (arr NumR).

(* the olivine branch of Spec_drex.spec_grain for a GIVEN activity order P *)
Definition spec_olivine_with (tau : list (option Z)) (A D L : RA) (p n lam : R) (P : perm4) : RA * R :=
  let inv := @spec_invariants NumR D A in
  let beta := @spec_beta_arr NumR tau inv P n in
  let G := @spec_schmid NumR A beta in
  let g := @spec_gamma0 NumR G L in
  (@spec_rate NumR A G L g, @spec_energy NumR tau beta P g p n lam).

(* P with its two LAST positions (the two most active systems) exchanged *)
Definition swap_top (P : perm4) : perm4 := perm4_of_list [pidx P 0; pidx P 1; pidx P 3; pidx P 2].

Lemma swap_top_idx P :
  pidx (swap_top P) 0 = pidx P 0 /\ pidx (swap_top P) 1 = pidx P 1 /\
  pidx (swap_top P) 2 = pidx P 3 /\ pidx (swap_top P) 3 = pidx P 2.
Proof. destruct P; repeat split; reflexivity. Qed.

Lemma perm_distinct P :
  pidx P 3 <> pidx P 2 /\ pidx P 3 <> pidx P 0 /\ pidx P 2 <> pidx P 0 /\
  (pidx P 0 < 4 /\ pidx P 1 < 4 /\ pidx P 2 < 4 /\ pidx P 3 < 4)%nat.
Proof. destruct P; cbv [pidx perm4_list nth]; repeat split; try lia; discriminate. Qed.
Lemma perm_distinct1 P : pidx P 3 <> pidx P 1.
Proof. destruct P; cbv [pidx perm4_list nth]; discriminate. Qed.

(* CRSS entries are positive integers or infinite *)
Definition tau_ok (tau : list (option Z)) : Prop :=
  forall s, match @tau_at tau s with Some z => (0 < z)%Z | None => True end.

Definition xs (tau : list (option Z)) (inv : RA) (s : nat) : R := @over_tau NumR (inv s) (tau_at tau s).

Lemma over_tau_some (x : R) z : (0 < z)%Z -> @over_tau NumR x (Some z) = x / IZR z.
Proof.
  intros Hz. unfold over_tau. destruct z as [|q|q]; try lia. destruct q; numR; try reflexivity. field.
Qed.

(* a system with non-zero activity has a finite CRSS, a non-zero invariant, and x_s * (tau_s / I_s) = 1 *)
Lemma active_facts tau (inv : RA) s : tau_ok tau -> @act NumR (inv s) (tau_at tau s) <> 0 ->
  inv s <> 0 /\ xs tau inv s <> 0 /\ xs tau inv s * (@tau_val NumR (tau_at tau s) / inv s) = 1
  /\ @act NumR (inv s) (tau_at tau s) = Rabs (xs tau inv s).
Proof.
  intros Hok Ha. specialize (Hok s). unfold xs. destruct (tau_at tau s) as [z|] eqn:E.
  - assert (Hz : IZR z <> 0) by (apply not_0_IZR; lia).
    unfold act in *. rewrite over_tau_some in * by exact Hok. numR.
    assert (Hi : inv s <> 0).
    { intro H0. apply Ha. rewrite H0. unfold Rdiv. rewrite Rmult_0_l. apply Rabs_R0. }
    repeat split; try assumption.
    + unfold Rdiv. apply Rmult_integral_contrapositive_currified; [exact Hi | apply Rinv_neq_0_compat; exact Hz].
    + unfold tau_val. numR. field. split; assumption.
  - exfalso. apply Ha. reflexivity.
Qed.

(* relative slip rates depend on P only through the most and the least active index *)
Lemma Rpow_abs1 (r n : R) : Rabs r = 1 -> Rpow (Rabs r) (n - 1) = 1.
Proof.
  intros ->. unfold Rpow. destruct (Req_EM_T (n - 1) 0); [reflexivity|]. destruct (Req_EM_T 1 0); [lra|].
  unfold Rpower. rewrite ln_1, Rmult_0_r. apply exp_0.
Qed.

Lemma beta_top_swap tau (inv : RA) P n s : tau_ok tau ->
  @act NumR (inv (pidx P 3)) (tau_at tau (pidx P 3)) = @act NumR (inv (pidx P 2)) (tau_at tau (pidx P 2)) ->
  @act NumR (inv (pidx P 3)) (tau_at tau (pidx P 3)) <> 0 ->
  let sigma := xs tau inv (pidx P 2) * (@tau_val NumR (tau_at tau (pidx P 3)) / inv (pidx P 3)) in
  sigma * sigma = 1 /\
  @spec_beta NumR tau inv (swap_top P) n s = sigma * @spec_beta NumR tau inv P n s.
Proof.
  intros Hok Htie Hnz. cbv zeta.
  destruct (swap_top_idx P) as (E0 & _ & _ & E3).
  destruct (perm_distinct P) as (Hab & Had & Hbd & _).
  unfold spec_beta. rewrite E0, E3. cbv zeta.
  set (a := pidx P 3) in *. set (b := pidx P 2) in *. set (d := pidx P 0) in *.
  assert (Hnzb : @act NumR (inv b) (tau_at tau b) <> 0) by (rewrite <- Htie; exact Hnz).
  destruct (active_facts tau inv a Hok Hnz) as (Hia & Hxa & Ha1 & Haa).
  destruct (active_facts tau inv b Hok Hnzb) as (Hib & Hxb & Hb1 & Hab').
  rewrite Haa, Hab' in Htie. clear Haa Hab' Hnz Hnzb.
  unfold xs in *. numR.
  match goal with |- context [@over_tau ?F (inv s) (tau_at tau s)] =>
    remember (@over_tau F (inv s) (tau_at tau s)) as xv eqn:Exv end.
  match type of Ha1 with ?x * ?t = 1 => remember x as xa eqn:Exa; remember t as ta eqn:Eta end.
  match type of Hb1 with ?x * ?t = 1 => remember x as xb eqn:Exb; remember t as tb eqn:Etb end.
  remember (xb * ta) as sigma eqn:Esig.
  assert (Hta : ta = / xa) by (apply Rmult_eq_reg_l with xa; [rewrite Ha1; field; exact Hxa | exact Hxa]).
  assert (Htb : tb = / xb) by (apply Rmult_eq_reg_l with xb; [rewrite Hb1; field; exact Hxb | exact Hxb]).
  assert (Hs1 : Rabs sigma = 1).
  { rewrite Esig, Hta, Rabs_mult, Rabs_inv, <- Htie. field. apply Rabs_no_R0. exact Hxa. }
  assert (Hss : sigma * sigma = 1).
  { destruct (Rcase_abs sigma) as [Hn|Hp].
    - rewrite (Rabs_left _ Hn) in Hs1. nra.
    - rewrite (Rabs_right _ Hp) in Hs1. nra. }
  assert (Hinv : xa * tb = sigma).
  { assert (H : (xa * tb) * sigma = 1) by (rewrite Esig, Hta, Htb; field; split; assumption).
    apply Rmult_eq_reg_r with sigma; [rewrite H, Hss; reflexivity|].
    intro H0. rewrite H0 in Hss. lra. }
  split; [exact Hss|].
  destruct (Nat.eqb s b) eqn:Esb.
  - apply Nat.eqb_eq in Esb. subst s.
    assert (Eba : Nat.eqb b a = false) by (apply Nat.eqb_neq; auto).
    assert (Ebd : Nat.eqb b d = false) by (apply Nat.eqb_neq; exact Hbd).
    rewrite Eba, Ebd. rewrite <- Exb in Exv. subst xv. rewrite <- Esig, Rpow_abs1 by exact Hs1. lra.
  - destruct (Nat.eqb s a) eqn:Esa.
    + apply Nat.eqb_eq in Esa. subst s.
      assert (Ead : Nat.eqb a d = false) by (apply Nat.eqb_neq; exact Had).
      rewrite Ead. rewrite <- Exa in Exv. subst xv. rewrite Hinv, Rpow_abs1 by exact Hs1. ring.
    + destruct (Nat.eqb s d); [ring|].
      assert (Er : xv * tb = sigma * (xv * ta)) by (rewrite <- Hinv, Hta; field; exact Hxa).
      rewrite Er, Rabs_mult, Hs1, Rmult_1_l. ring.
Qed.

(* ---- downstream of the relative slip rates: beta' = sigma beta with sigma^2 = 1 ---- *)
Section Downstream.
  Variables (A L : RA) (b b' : RA) (sg : R).
  Hypothesis Hss : sg * sg = 1.
  Hypothesis Hb : forall k, (k < 4)%nat -> b' k = sg * b k.

  Lemma schmid_scale i j : (i < 3)%nat -> (j < 3)%nat ->
    @e2 NumR (@spec_schmid NumR A b') i j = sg * @e2 NumR (@spec_schmid NumR A b) i j.
  Proof.
    intros Hi Hj. pose proof (Hb 0%nat ltac:(lia)) as H0. pose proof (Hb 1%nat ltac:(lia)) as H1.
    pose proof (Hb 2%nat ltac:(lia)) as H2. pose proof (Hb 3%nat ltac:(lia)) as H3.
    destruct i as [|[|[|i]]]; try lia; destruct j as [|[|[|j]]]; try lia;
      cbv [e2 spec_schmid mk_arr nth Nat.mul Nat.add vnth row sys_l sys_n]; numR; rewrite H0, H1, H2, H3; ring.
  Qed.

  Lemma sq_cancel (x g : R) : (sg * g) * (sg * x) = g * x.
  Proof. transitivity ((sg * sg) * (g * x)); [ring | rewrite Hss; ring]. Qed.

  Lemma gamma0_scale :
    @spec_gamma0 NumR (@spec_schmid NumR A b') L = sg * @spec_gamma0 NumR (@spec_schmid NumR A b) L.
  Proof.
    unfold spec_gamma0, frob, sym2. rewrite !schmid_scale by lia. numR.
    match goal with
    | |- (if andb (Rltb _ (_ * ?d')) _ then _ else ?n' / _) = _ * (if andb (Rltb _ (_ * ?d)) _ then _ else ?n / _) =>
        assert (Hd : d' = d) by (transitivity ((sg * sg) * d); [field | rewrite Hss; ring]);
        assert (Hn : n' = sg * n) by field;
        rewrite Hd, Hn
    end.
    match goal with |- (if ?c then _ else _) = _ => destruct c end; [ring | unfold Rdiv; ring].
  Qed.

  Lemma spin_same g :
    @spec_spin NumR (@spec_schmid NumR A b') L (sg * g) = @spec_spin NumR (@spec_schmid NumR A b) L g.
  Proof.
    unfold spec_spin, skw2. rewrite !schmid_scale by lia. numR.
    assert (H : forall x y l : R, l - sg * g * ((sg * x - sg * y) / 2) = l - g * ((x - y) / 2)).
    { intros x y l. replace (sg * g * ((sg * x - sg * y) / 2)) with ((sg * g) * (sg * ((x - y) / 2))) by field.
      rewrite sq_cancel. reflexivity. }
    rewrite !H. reflexivity.
  Qed.

  Lemma rate_same g :
    @spec_rate NumR A (@spec_schmid NumR A b') L (sg * g) = @spec_rate NumR A (@spec_schmid NumR A b) L g.
  Proof. unfold spec_rate. rewrite spin_same. reflexivity. Qed.

  Lemma energy1_same tau g p n lam s : (s < 4)%nat ->
    @spec_energy1 NumR tau b' (sg * g) p n lam s = @spec_energy1 NumR tau b g p n lam s.
  Proof.
    intros Hs. unfold spec_energy1, spec_rho. rewrite (Hb s Hs). numR.
    replace (sg * b s * (sg * g)) with ((sg * b s) * (sg * g)) by ring.
    replace ((sg * b s) * (sg * g)) with ((sg * g) * (sg * b s)) by ring. rewrite sq_cancel.
    replace (g * b s) with (b s * g) by ring. reflexivity.
  Qed.
End Downstream.

(* C02: at an exact tie of the two largest activities the order is irrelevant -- for ANY order P whose two last
   positions hold two systems of equal non-zero activity, exchanging them gives the same orientation rate and the
   same strain energy (Leibniz equality of the pair) *)
Theorem tie_order_irrelevant tau (A D L : RA) p n lam P : tau_ok tau ->
  let q := @spec_activities NumR tau (@spec_invariants NumR D A) in
  q (pidx P 3) = q (pidx P 2) -> q (pidx P 3) <> 0 ->
  spec_olivine_with tau A D L p n lam (swap_top P) = spec_olivine_with tau A D L p n lam P.
Proof.
  intros Hok q Htie Hnz.
  destruct (perm_distinct P) as (_ & _ & _ & (H0 & H1 & H2 & H3)).
  set (inv := @spec_invariants NumR D A) in *.
  assert (Hq : forall s, (s < 4)%nat -> q s = @act NumR (inv s) (tau_at tau s)).
  { intros s Hs. destruct s as [|[|[|[|s]]]]; try lia; reflexivity. }
  rewrite (Hq _ H3), (Hq _ H2) in Htie. rewrite (Hq _ H3) in Hnz.
  set (sg := xs tau inv (pidx P 2) * (@tau_val NumR (tau_at tau (pidx P 3)) / inv (pidx P 3))).
  assert (Hss : sg * sg = 1) by (exact (proj1 (beta_top_swap tau inv P n 0 Hok Htie Hnz))).
  assert (Hb : forall k, (k < 4)%nat ->
             @spec_beta_arr NumR tau inv (swap_top P) n k = sg * @spec_beta_arr NumR tau inv P n k).
  { intros k Hk. destruct k as [|[|[|[|k]]]]; try lia; cbv [spec_beta_arr mk_arr nth];
      exact (proj2 (beta_top_swap tau inv P n _ Hok Htie Hnz)). }
  unfold spec_olivine_with. cbv zeta. fold inv.
  set (b := @spec_beta_arr NumR tau inv P n) in *. set (b' := @spec_beta_arr NumR tau inv (swap_top P) n) in *.
  rewrite (gamma0_scale A L b b' sg Hss Hb).
  rewrite (rate_same A L b b' sg Hss Hb). f_equal.
  unfold spec_energy. destruct (swap_top_idx P) as (_ & E1 & E2 & E3). rewrite E1, E2, E3.
  rewrite !(energy1_same b b' sg Hss Hb) by assumption. numR. ring.
Qed.


(* ---- the same for Spec_drex.spec_grain and for the generated kernel ---- *)
Lemma olivine_tau_ok tau : olivine_tau tau -> tau_ok tau.
Proof.
  intros [->|[->|[->|[->| ->]]]] s; destruct s as [|[|[|[|s]]]]; cbv [tau_at nth tauA tauB tauC tauD tauE]; try lia;
    destruct s; exact I.
Qed.

Lemma table_olivine fb tau : @tau_table 0 fb = Some tau -> olivine_tau tau /\ valid_pair 0 fb.
Proof.
  intros H. unfold tau_table in H.
  repeat (match type of H with context [match ?q with _ => _ end] => destruct q end; try discriminate H).
  all: injection H as <-; split;
    [ unfold olivine_tau, tauA, tauB, tauC, tauD, tauE;
      first [ left; reflexivity | right; left; reflexivity | right; right; left; reflexivity
            | right; right; right; left; reflexivity | right; right; right; right; reflexivity ]
    | unfold valid_pair; left; split; [reflexivity | lia] ].
Qed.

Lemma nonzero_not_all_zero (v : RA) k : (k < 4)%nat -> v k <> 0 -> @all_zero4 NumR v = false.
Proof.
  intros Hk Hv. unfold all_zero4. numR.
  destruct k as [|[|[|[|k]]]]; try lia;
    repeat match goal with |- context [Reqb ?a ?b] => destruct (Reqb a b) eqn:? end; try reflexivity;
    bool2prop; contradiction.
Qed.

Theorem grain_tie_order_irrelevant fb tau (A D L : RA) p n lam : @tau_table 0 fb = Some tau -> n <> 0 ->
  let q := @spec_activities NumR tau (@spec_invariants NumR D A) in
  let P := @argsort4 NumR q in
  q (pidx P 3) = q (pidx P 2) -> q (pidx P 3) <> 0 ->
  @spec_grain NumR 0 fb A D L p n lam = Ok (spec_olivine_with tau A D L p n lam P) /\
  @spec_grain NumR 0 fb A D L p n lam = Ok (spec_olivine_with tau A D L p n lam (swap_top P)) /\
  k_get_rotation_and_strain 0 fb A D L p n lam = Ok (spec_olivine_with tau A D L p n lam (swap_top P)).
Proof.
  intros Ht Hn q P Htie Hnz. destruct (table_olivine fb tau Ht) as [Hol Hvp].
  destruct (perm_distinct P) as (_ & _ & _ & (_ & _ & _ & H3)).
  assert (Hq : @all_zero4 NumR q = false) by (apply (nonzero_not_all_zero q _ H3 Hnz)).
  assert (Hinv : @all_zero4 NumR (@spec_invariants NumR D A) = false).
  { set (inv := @spec_invariants NumR D A) in *.
    assert (Hqk : q (pidx P 3) = @act NumR (inv (pidx P 3)) (tau_at tau (pidx P 3))).
    { destruct (pidx P 3) as [|[|[|[|k]]]]; try lia; reflexivity. }
    rewrite Hqk in Hnz. destruct (active_facts tau inv _ (olivine_tau_ok tau Hol) Hnz) as (Hi & _).
    exact (nonzero_not_all_zero inv _ H3 Hi). }
  assert (E : @spec_grain NumR 0 fb A D L p n lam = Ok (spec_olivine_with tau A D L p n lam P)).
  { unfold spec_grain. rewrite Ht, Hinv. cbn [Z.eqb]. fold q. rewrite Hq. reflexivity. }
  assert (E' : spec_olivine_with tau A D L p n lam (swap_top P) = spec_olivine_with tau A D L p n lam P)
    by (apply tie_order_irrelevant; [apply olivine_tau_ok; exact Hol | exact Htie | exact Hnz]).
  split; [exact E|]. split; [rewrite E'; exact E|].
  rewrite grain_eq_spec by assumption. rewrite E'. exact E.
Qed.

(* non-vacuity: olivine A-type, identity orientation, D with D01 = 1 and D02 = 2: invariants (1, 2, 0, 2), activities
   |I/tau| = (1, 1, 0, 0) -- systems 0 and 1 are exactly tied at the top *)
Definition tie_D : RA := mk_arr 0 [0; 1; 2; 1; 0; 0; 2; 0; 0].
Definition tie_A : RA := mk_arr 0 [1; 0; 0; 0; 1; 0; 0; 0; 1].

Lemma tie_nonvacuous_proof :
  let q := @spec_activities NumR tauA (@spec_invariants NumR tie_D tie_A) in
  q 0%nat = 1 /\ q 1%nat = 1 /\ q 2%nat = 0 /\ q 3%nat = 0 /\ @tau_table 0 0 = Some tauA.
Proof.
  cbv zeta. cbv [spec_activities spec_invariants spec_invariant mk_arr nth act over_tau tau_at tauA dot mvec row sys_l sys_n
                 tie_D tie_A Nat.mul Nat.add]. numR.
  repeat split; try reflexivity.
  - replace (1 * (0 * 0 + 1 * 1 + 2 * 0) + 0 * (1 * 0 + 0 * 1 + 0 * 0) + 0 * (2 * 0 + 0 * 1 + 0 * 0)) with 1 by ring. apply Rabs_R1.
  - replace ((1 * (0 * 0 + 1 * 0 + 2 * 1) + 0 * (1 * 0 + 0 * 0 + 0 * 1) + 0 * (2 * 0 + 0 * 0 + 0 * 1)) / 2) with 1 by field. apply Rabs_R1.
  - match goal with |- Rabs ?x = 0 => replace x with 0 by field end. apply Rabs_R0.
Qed.

(* ---- the other two adjacent positions ---- *)
Definition swap_mid (P : perm4) : perm4 := perm4_of_list [pidx P 0; pidx P 2; pidx P 1; pidx P 3].
Definition swap_bot (P : perm4) : perm4 := perm4_of_list [pidx P 1; pidx P 0; pidx P 2; pidx P 3].

Lemma swap_mid_idx P :
  pidx (swap_mid P) 0 = pidx P 0 /\ pidx (swap_mid P) 1 = pidx P 2 /\
  pidx (swap_mid P) 2 = pidx P 1 /\ pidx (swap_mid P) 3 = pidx P 3.
Proof. destruct P; repeat split; reflexivity. Qed.
Lemma swap_bot_idx P :
  pidx (swap_bot P) 0 = pidx P 1 /\ pidx (swap_bot P) 1 = pidx P 0 /\
  pidx (swap_bot P) 2 = pidx P 2 /\ pidx (swap_bot P) 3 = pidx P 3.
Proof. destruct P; repeat split; reflexivity. Qed.

(* the two systems in the middle of the order may be exchanged unconditionally (tie or not): the relative slip
   rates only look at the most and the least active index, the energy is a sum over the three upper positions *)
Theorem mid_order_irrelevant tau (A D L : RA) p n lam P :
  spec_olivine_with tau A D L p n lam (swap_mid P) = spec_olivine_with tau A D L p n lam P.
Proof.
  destruct (swap_mid_idx P) as (E0 & E1 & E2 & E3).
  unfold spec_olivine_with. cbv zeta.
  assert (Hb : @spec_beta_arr NumR tau (@spec_invariants NumR D A) (swap_mid P) n
             = @spec_beta_arr NumR tau (@spec_invariants NumR D A) P n).
  { unfold spec_beta_arr, spec_beta. rewrite E0, E3. reflexivity. }
  rewrite Hb. f_equal. unfold spec_energy. rewrite E1, E2, E3. numR. ring.
Qed.

(* the two LEAST active systems, both with activity exactly 0 (in olivine the least active system always has
   activity 0: one CRSS is infinite; a tie at the bottom therefore means a second system with no resolved shear) *)
Theorem bottom_order_irrelevant tau (A D L : RA) p n lam P : tau_ok tau -> p <> 0 -> n <> 0 ->
  let inv := @spec_invariants NumR D A in
  xs tau inv (pidx P 0) = 0 -> xs tau inv (pidx P 1) = 0 ->
  spec_olivine_with tau A D L p n lam (swap_bot P) = spec_olivine_with tau A D L p n lam P.
Proof.
  intros Hok Hp Hn inv Hx0 Hx1.
  assert (H30 : pidx P 3 <> pidx P 0) by (apply (perm_distinct P)).
  assert (H31 : pidx P 3 <> pidx P 1) by (apply perm_distinct1).
  destruct (swap_bot_idx P) as (E0 & E1 & E2 & E3).
  destruct (perm_distinct P) as (_ & _ & _ & (L0 & L1 & L2 & L3)).
  unfold spec_olivine_with. cbv zeta. fold inv.
  assert (Hb : forall s, @spec_beta NumR tau inv (swap_bot P) n s = @spec_beta NumR tau inv P n s).
  { intros s. unfold spec_beta. rewrite E0, E3. cbv zeta. unfold xs in *.
    destruct (Nat.eqb s (pidx P 3)); [reflexivity|].
    destruct (Nat.eqb s (pidx P 1)) eqn:Ea; destruct (Nat.eqb s (pidx P 0)) eqn:Eb; try reflexivity.
    - apply Nat.eqb_eq in Ea. subst s. rewrite Hx1. numR. ring.
    - apply Nat.eqb_eq in Eb. subst s. rewrite Hx0. numR. ring. }
  assert (Hba : @spec_beta_arr NumR tau inv (swap_bot P) n = @spec_beta_arr NumR tau inv P n).
  { unfold spec_beta_arr. rewrite !Hb. reflexivity. }
  rewrite Hba. f_equal. unfold spec_energy. rewrite E1, E2, E3. f_equal. f_equal.
  (* the energy term of a system with relative slip rate 0 is 0 *)
  assert (Hz : forall s, (s < 4)%nat -> xs tau inv s = 0 -> s <> pidx P 3 ->
            @spec_energy1 NumR tau (@spec_beta_arr NumR tau inv P n) (@spec_gamma0 NumR (@spec_schmid NumR A (@spec_beta_arr NumR tau inv P n)) L) p n lam s = 0).
  { intros s Hs Hx Hne. unfold spec_energy1, spec_rho.
    assert (Hbs : @spec_beta_arr NumR tau inv P n s = 0).
    { destruct s as [|[|[|[|s]]]]; try lia; cbv [spec_beta_arr mk_arr nth]; unfold spec_beta; cbv zeta;
        (match goal with |- (if Nat.eqb ?s ?m then _ else _) = _ =>
           destruct (Nat.eqb s m) eqn:Em; [apply Nat.eqb_eq in Em; contradiction|] end);
        (match goal with |- (if ?c then _ else _) = _ => destruct c; [reflexivity|] end);
        unfold xs in Hx; rewrite Hx; numR; ring. }
    rewrite Hbs. numR. rewrite Rmult_0_l, Rabs_R0.
    assert (H0 : Rpow 0 (p / n) = 0).
    { unfold Rpow. destruct (Req_EM_T (p / n) 0) as [E|_].
      - exfalso. apply Hp. apply Rmult_eq_reg_r with (/ n); [|apply Rinv_neq_0_compat; exact Hn].
        unfold Rdiv in E. rewrite E. ring.
      - destruct (Req_EM_T 0 0); [reflexivity|contradiction]. }
    rewrite H0. ring. }
  rewrite (Hz _ L0 Hx0 (not_eq_sym H30)), (Hz _ L1 Hx1 (not_eq_sym H31)). reflexivity.
Qed.
