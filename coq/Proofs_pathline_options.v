(* Proofs_pathline_options.v -- lemmas about Model_pathline_options: the request a get_pathline call
   hands to solve_ivp does not depend on the calls made before it; a PLAIN call (no optional keyword
   argument) always makes the request generated from the source (k_request_n3), whatever solver
   options earlier calls used; a get_pathline whose defaults are updated in place is refuted by the
   two-call history [call with an option; plain call]. *)
From Coq Require Import Reals ZArith List Bool Lra Lia.
From PV Require Import Num NumR Model_pathlines Model_pathline_options Proofs_pathlines Inst_pathlines.
From PV.gen Require Import Gen_pathlines.
Import ListNotations.
Open Scope R_scope.

Section Any.
  Context {F : Num}.

  Definition req_of_call (c : @ocall F) : list F := let '(fl, ms, o) := c in request_of fl ms o.

  (* the current source: the requests of a history are the map of the single call ... *)
  Lemma requests_fresh_map (d : @opts F) (calls : list ocall) :
    requests Fresh d calls = map req_of_call calls.
  Proof.
    revert d; induction calls as [|[[fl ms] o] cs IH]; intros d; [reflexivity|].
    cbn [requests ostep map req_of_call]. rewrite IH. reflexivity.
  Qed.

  (* ... the process-wide defaults are never written ... *)
  Lemma defaults_untouched (d : @opts F) (calls : list ocall) : defaults_after Fresh d calls = d.
  Proof.
    revert d; induction calls as [|[[fl ms] o] cs IH]; intros d; [reflexivity|].
    cbn [defaults_after ostep fst]. apply IH.
  Qed.

  (* ... and the request of a call depends neither on the calls before it, nor on those after it, nor
     on what the defaults held *)
  Lemma request_history_independent (d1 d2 : @opts F) (h1 h2 t1 t2 : list ocall) (c : ocall) (z : list F) :
    nth (length h1) (requests Fresh d1 (h1 ++ c :: t1)) z = req_of_call c /\
    nth (length h1) (requests Fresh d1 (h1 ++ c :: t1)) z = nth (length h2) (requests Fresh d2 (h2 ++ c :: t2)) z.
  Proof.
    assert (E : forall d h t, nth (length h) (requests Fresh d (h ++ c :: t)) z = req_of_call c).
    { intros d h t. rewrite requests_fresh_map, map_app. cbn [map].
      rewrite app_nth2; rewrite map_length; [|lia]. rewrite Nat.sub_diag. reflexivity. }
    split; [apply E|]. rewrite !E. reflexivity.
  Qed.

End Any.

Lemma plain_request (fl : list R) (ms : R) : @request_of NumR fl ms no_opts = @request_default NumR fl ms.
Proof. reflexivity. Qed.

(* a PLAIN call anywhere in ANY history of the current source makes exactly the request generated from
   the source, entry by entry (dimension 3) *)
Theorem plain_call_request_is_generated (d : @opts NumR) (h t : list (@ocall NumR)) (fl mn mx : list R) (ms : R)
        (z : list R) : length fl = 3%nat ->
  A (nth (length h) (requests Fresh d (h ++ (fl, ms, no_opts) :: t)) z)
  = @k_request_n3 NumR (A fl) (A mn) (A mx) ms.
Proof.
  intros Hl. transitivity (A (@req_of_call NumR (fl, ms, no_opts))).
  - apply f_equal. exact (proj1 (@request_history_independent NumR d d h h t t (fl, ms, no_opts) z)).
  - cbn [req_of_call]. rewrite plain_request. symmetry. apply request_inst_3. exact Hl.
Qed.

(* a call that passes atol, rtol, first_step, max_step, method = "Radau" and the four ignored keyword
   arguments makes the request k_request_kw_n3 generated from the source, whatever came before *)
Definition kw_opts (atol rtol fs mxs : R) : @opts NumR :=
  @mk_opts NumR (Some atol) (Some rtol) (Some fs) (Some mxs) (Some 3%Z) 4 0.

Theorem kw_call_request_is_generated (d : @opts NumR) (h t : list (@ocall NumR)) (fl mn mx : list R)
        (ms atol rtol fs mxs : R) (z : list R) : length fl = 3%nat ->
  A (nth (length h) (requests Fresh d (h ++ (fl, ms, kw_opts atol rtol fs mxs) :: t)) z)
  = @k_request_kw_n3 NumR (A fl) (A mn) (A mx) ms atol rtol fs mxs.
Proof.
  intros Hl. transitivity (A (@req_of_call NumR (fl, ms, kw_opts atol rtol fs mxs))).
  - apply f_equal. exact (proj1 (@request_history_independent NumR d d h h t t (fl, ms, kw_opts atol rtol fs mxs) z)).
  - rewrite (request_kw_inst_3 fl mn mx ms atol rtol fs mxs Hl). reflexivity.
Qed.

(* defaults that are updated in place (seeded change C18e) are visible: after one call with rtol = r the
   plain call makes a request whose rtol entry is r, the current source the default 1e-5 *)
Theorem sticky_defaults_refuted (fl1 fl2 : list R) (ms1 ms2 r : R) (z : list R) :
  length fl2 = 3%nat -> r <> @default_rtol NumR ->
  let o := @mk_opts NumR None (Some r) None None None 0 0 in
  let hist : list (@ocall NumR) := [(fl1, ms1, o); (fl2, ms2, @no_opts NumR)] in
  nth 7 (nth 1 (requests Sticky no_opts hist) z) 0 = r /\
  nth 7 (nth 1 (requests Fresh no_opts hist) z) 0 = @default_rtol NumR /\
  nth 1 (requests Sticky no_opts hist) z <> nth 1 (requests Fresh no_opts hist) z.
Proof.
  intros Hl Hr o hist. subst o hist. destruct fl2 as [|a [|b [|c [|e fl2]]]]; try discriminate Hl.
  cbn [requests ostep nth overlay orelse o_atol o_rtol o_first o_max o_method o_illegal o_other no_opts
       request_of app getd]. split; [reflexivity|]. split; [reflexivity|].
  intros E. apply Hr. apply (f_equal (fun l => nth 7 l 0)) in E. cbn [nth] in E. exact E.
Qed.

(* non-vacuity: rtol = 0.2 is not the default *)
Lemma sticky_hypotheses_satisfiable : (2 / 10 : R) <> @default_rtol NumR.
Proof. unfold default_rtol. numR. lra. Qed.
