(* Model_poles_axes.v -- hand-written model (tie H) of what pydrex.geometry.poles does with
   its `ref_axes` STRING before any arithmetic happens:

     _ref_axes   = ref_axes.lower()
     upward_axes = (set("xyz") - set(_ref_axes)).pop()
     axes_map    = {"x": 0, "y": 1, "z": 2}
     ...
     zvals = directions[:, axes_map[upward_axes]]
     yvals = directions[:, axes_map[_ref_axes[1]]]
     xvals = directions[:, axes_map[_ref_axes[0]]]

   for EVERY (ASCII) string, not only the six lower-case ones the translator used to trace:
   upper/mixed case, repeated letters, wrong length, other letters.  `set.pop()` on a set of
   two or three letters returns an element that depends on the hash seed of the process: the
   model takes the choice as the parameter `pick` (an oracle), and Proofs_poles_axes.v shows
   that it is irrelevant for every spelling of the six legal strings.

   No proofs in this file. *)
From Coq Require Import ZArith List Bool Ascii String.
From PV Require Import Num Model_density.
From PV.gen Require Import Gen_geometry.
Import ListNotations.

(* str.lower() on ASCII text *)
Definition lower_ascii (c : ascii) : ascii :=
  let n := nat_of_ascii c in
  if andb (Nat.leb 65 n) (Nat.leb n 90) then ascii_of_nat (n + 32) else c.

Fixpoint lower_str (s : string) : string :=
  match s with
  | EmptyString => EmptyString
  | String c s' => String (lower_ascii c) (lower_str s')
  end.

(* axes_map = {"x": 0, "y": 1, "z": 2};  None = KeyError *)
Definition axis_index (c : ascii) : option nat :=
  if Ascii.eqb c "x" then Some 0%nat
  else if Ascii.eqb c "y" then Some 1%nat
  else if Ascii.eqb c "z" then Some 2%nat
  else None.

Definition axis_letter (i : nat) : ascii :=
  match i with 0%nat => "x" | 1%nat => "y" | _ => "z" end%char.

Fixpoint mem_ascii (c : ascii) (s : string) : bool :=
  match s with
  | EmptyString => false
  | String d s' => orb (Ascii.eqb c d) (mem_ascii c s')
  end.

(* set("xyz") - set(s), as axis indices in increasing order *)
Definition leftover (s : string) : list nat :=
  filter (fun i => negb (mem_ascii (axis_letter i) s)) [0; 1; 2]%nat.

(* (horizontal index, vertical index, candidates for the upward index) or the exception.
   Order of evaluation as in the source: .pop() first (KeyError on the empty set), then
   _ref_axes[1] (IndexError / KeyError), then _ref_axes[0]. *)
Definition ref_axes_read (s0 : string) : res (nat * nat * list nat) :=
  let s := lower_str s0 in
  let ups := leftover s in
  match ups with
  | [] => Err KeyError
  | _ =>
      match String.get 1 s with
      | None => Err IndexError
      | Some b =>
          match axis_index b with
          | None => Err KeyError
          | Some v =>
              match String.get 0 s with
              | None => Err IndexError
              | Some a =>
                  match axis_index a with
                  | None => Err KeyError
                  | Some h => Ok (h, v, ups)
                  end
              end
          end
      end
  end.

(* the choice made by set.pop(): candidate number `pick` (mod the number of candidates) *)
Definition pick_up (pick : nat) (ups : list nat) : nat :=
  nth (pick mod (List.length ups)) ups 0%nat.

Section PolesStr.
  Context {F : Num}.

  (* one orientation, columns selected by index: the normalised direction is computed by the
     GENERATED code (k_poles_xy returns its components in the order x, y, z) *)
  Definition poles_idx (h v u : nat) (A hkl : arr F) : res (F * F * F) :=
    match k_poles_xy A hkl with
    | Err e => Err e
    | Ok (px, py, pz) =>
        let d := [px 0%nat; py 0%nat; pz 0%nat] in
        Ok (nth h d zero, nth v d zero, nth u d zero)
    end.

  Fixpoint poles_idx_all (h v u : nat) (As : list (arr F)) (hkl : arr F) : res (list (F * F * F)) :=
    match As with
    | [] => Ok []
    | A :: As' =>
        match poles_idx h v u A hkl with
        | Err e => Err e
        | Ok p => match poles_idx_all h v u As' hkl with Err e => Err e | Ok ps => Ok (p :: ps) end
        end
    end.

  (* poles(orientations, ref_axes = s, hkl) for any string; the string is read (and may
     raise) whatever the orientations are, as in the source *)
  Definition poles_str (s : string) (pick : nat) (As : list (arr F)) (hkl : arr F)
    : res (list (F * F * F)) :=
    match ref_axes_read s with
    | Err e => Err e
    | Ok (h, v, ups) => poles_idx_all h v (pick_up pick ups) As hkl
    end.
End PolesStr.

(* the 24 spellings of the six legal strings, with the code used by poles_one / poles_all
   (0 xy, 1 xz, 2 yx, 3 yz, 4 zx, 5 zy) *)
Definition spelling_table : list (string * Z) :=
  [("xy", 0); ("Xy", 0); ("xY", 0); ("XY", 0);
   ("xz", 1); ("Xz", 1); ("xZ", 1); ("XZ", 1);
   ("yx", 2); ("Yx", 2); ("yX", 2); ("YX", 2);
   ("yz", 3); ("Yz", 3); ("yZ", 3); ("YZ", 3);
   ("zx", 4); ("Zx", 4); ("zX", 4); ("ZX", 4);
   ("zy", 5); ("Zy", 5); ("zY", 5); ("ZY", 5)]%string%Z.
