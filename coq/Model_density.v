(* Model_density.v -- hand-written executable model (tie H) of pydrex.stats.point_density and
   its five counting kernels, and of pydrex.geometry.poles for any number of orientations.
   The coordinate functions it uses (to_cartesian, lambert_equal_area, poles for ONE
   orientation) are the *generated* ones of gen/Gen_geometry.v.
   Domain of the model: at least one datum, grid size >= 2, scalar weight, sigma <> 0
   (Python raises ZeroDivisionError for sigma = 0 in the Kamb kernels).
   No proofs in this file. *)
From Coq Require Import ZArith List Bool.
From PV Require Import Num.
From PV.gen Require Import Gen_geometry.
Import ListNotations.
Local Open Scope num_scope.

Section Density.
  Context {F : Num}.

  Definition ofnat (n : nat) : F := ofZ (Z.of_nat n).

  (* np.sum / ndarray.sum / ndarray.mean: plain accumulation (NumPy sums pairwise; the
     difference is rounding only) *)
  Definition sum_list (l : list F) : F := fold_left add l zero.
  Definition mean_list (l : list F) : F := sum_list l / ofnat (length l).

  (* np.mgrid[a:b:g*1j] : a + i * ((b - a) / (g - 1)),  i = 0 .. g-1 *)
  Definition mgrid (a b : F) (g : nat) : list F :=
    let step := (b - a) / ofnat (g - 1) in
    map (fun i => ofnat i * step + a) (seq 0 g).

  (* np.arcsin on [-1, 1]; Num has no arcsin: pi/2 - arccos *)
  Definition asin_F (h : F) : F := npi / ofZ 2 - nacos h.

  Definition vec3 : Type := (F * F * F)%type.
  Definition dot3 (a b : vec3) : F :=
    let '(ax, ay, az) := a in let '(bx, by_, bz) := b in ax * bx + ay * by_ + az * bz.
  Definition neg3 (a : vec3) : vec3 := let '(x, y, z) := a in (- x, - y, - z).

  (* the counting grid, flattened row-major: index i*g + j  <->  (rho_i, h_j);
     counters = to_cartesian(pi/2 - rho, pi/2 - arcsin h) *)
  Definition counter (rho h : F) : vec3 :=
    let '(x, y, z) := k_to_cartesian (npi / ofZ 2 - rho) (npi / ofZ 2 - asin_F h) one in
    (x 0%nat, y 0%nat, z 0%nat).
  Definition counters (g : nat) : list vec3 :=
    flat_map (fun rho => map (fun h => counter rho h) (mgrid (- one) one g))
             (mgrid (- npi) npi g).

  (* kernels: 0 kamb_count, 1 schmidt_count, 2 exponential_kamb, 3 linear_inverse_kamb,
     4 square_inverse_kamb.  Each returns (un-summed counts, scale). *)
  Definition kamb_radius (n sigma : F) (axial : bool) : F :=
    let r := (sigma * sigma) / (n + sigma * sigma) in
    if axial then one - r else one - ofZ 2 * r.
  Definition kamb_units (n radius : F) : F := nsqrt (n * radius * (one - radius)).

  Definition one_hundredth : F := ofZ 5764607523034235 / ofZ 576460752303423488.  (* 0.01 *)
  Definition one_half : F := one / ofZ 2.

  Definition kernel_apply (k : Z) (sigma : F) (axial : bool) (cs : list F) : list F * F :=
    let n := ofnat (length cs) in
    if Z.eqb k 0 then
      let d := kamb_radius n sigma axial in
      (map (fun c => if leb d c then one else zero) cs, kamb_units n d)
    else if Z.eqb k 1 then
      (map (fun c => one_half / n + (if leb (one - c) one_hundredth then one else zero)) cs,
       n * one_hundredth)
    else if Z.eqb k 2 then
      let '(f, units) :=
        if axial then
          let f := ofZ 2 * (one + n / (sigma * sigma)) in
          (f, nsqrt (n * (f / ofZ 2 - one) / (f * f)))
        else
          let f := one + n / (sigma * sigma) in
          (f, nsqrt (n * (f - one) / (ofZ 4 * (f * f)))) in
      (map (fun c => nexp (f * (c - one))) cs, units)
    else if Z.eqb k 3 then
      let radius := kamb_radius n sigma axial in
      let f := ofZ 2 / (one - radius) in
      (map (fun c => f * (c - radius)) (filter (fun c => leb radius c) cs), kamb_units n radius)
    else
      let radius := kamb_radius n sigma axial in
      let f := ofZ 3 / ((one - radius) * (one - radius)) in
      (map (fun c => f * ((c - radius) * (c - radius))) (filter (fun c => leb radius c) cs),
       kamb_units n radius).

  (* one counter: products, abs if axial, kernel, weights, (sum - 0.5) / scale *)
  Definition total_at (k : Z) (sigma w : F) (axial : bool) (data : list vec3) (c : vec3) : F :=
    let products := map (fun d => dot3 d c) data in
    let products := if axial then map nabs products else products in
    let '(density, scale) := kernel_apply k sigma axial products in
    (sum_list (map (fun x => x * w) density) - one_half) / scale.

  Definition raw_totals (k : Z) (sigma w : F) (axial : bool) (g : nat) (data : list vec3) : list F :=
    map (total_at k sigma w axial data) (counters g).

  Definition normalise (ts : list F) : list F := let m := mean_list ts in map (fun t => t / m) ts.
  Definition clip (ts : list F) : list F := map (fun t => if ltb t zero then zero else t) ts.

  Definition lambert_pt (c : vec3) : F * F :=
    let '(x, y, z) := c in
    let '(X, Y) := k_lambert_equal_area x y z in (X 0%nat, Y 0%nat).

  (* point_density: (X grid, Y grid, totals grid), each flattened row-major *)
  Definition point_density (k : Z) (sigma w : F) (axial : bool) (g : nat) (data : list vec3)
    : list F * list F * list F :=
    let cs := counters g in
    (map (fun c => fst (lambert_pt c)) cs, map (fun c => snd (lambert_pt c)) cs,
     clip (normalise (raw_totals k sigma w axial g data))).

  (* poles for N orientations: the generated one-orientation function, grain by grain
     (ax: 0 xy, 1 xz, 2 yx, 3 yz, 4 zx, 5 zy) *)
  Definition poles_one (ax : Z) (A hkl : arr F) : res (F * F * F) :=
    let r := if Z.eqb ax 0 then k_poles_xy A hkl else if Z.eqb ax 1 then k_poles_xz A hkl
             else if Z.eqb ax 2 then k_poles_yx A hkl else if Z.eqb ax 3 then k_poles_yz A hkl
             else if Z.eqb ax 4 then k_poles_zx A hkl else k_poles_zy A hkl in
    match r with
    | Err e => Err e
    | Ok (x, y, z) => Ok (x 0%nat, y 0%nat, z 0%nat)
    end.

  Fixpoint poles_all (ax : Z) (As : list (arr F)) (hkl : arr F) : res (list (F * F * F)) :=
    match As with
    | [] => Ok []
    | A :: As' =>
        match poles_one ax A hkl with
        | Err e => Err e
        | Ok p => match poles_all ax As' hkl with Err e => Err e | Ok ps => Ok (p :: ps) end
        end
    end.
End Density.
