(* Proofs_stats.v -- lemmas about the model of pydrex.stats.resample_orientations
   (R instance of Num). *)
From Coq Require Import Reals ZArith List Bool Arith Lra Lia Permutation.
From PV Require Import Num NumR Model_stats.
Import ListNotations.
Open Scope R_scope.

(* ------------------------------------------------------------------------- *)
(* generic list facts                                                        *)
(* ------------------------------------------------------------------------- *)
Lemma mapM_Forall2 {A B} (f : A -> res B) l r :
  mapM f l = Ok r <-> Forall2 (fun a b => f a = Ok b) l r.
Proof.
  revert r; induction l as [|a l IH]; intros r; cbn [mapM].
  - split; intros H; [inversion H; constructor | inversion H; reflexivity].
  - destruct (f a) as [b|e] eqn:Ea; cbn [bind].
    + destruct (mapM f l) as [bs|e] eqn:El; cbn [bind].
      * split; intros H.
        -- inversion H; subst. constructor; [exact Ea | apply IH; reflexivity].
        -- inversion H as [|a' b' l' r' H1 H2]; subst. rewrite Ea in H1. inversion H1; subst.
           apply IH in H2. inversion H2; subst. reflexivity.
      * split; intros H; [discriminate|].
        inversion H as [|a' b' l' r' H1 H2]; subst. apply IH in H2. discriminate.
    + split; intros H; [discriminate|].
      inversion H as [|a' b' l' r' H1 H2]; subst. rewrite Ea in H1. discriminate.
Qed.

Lemma mapM_total {A B} (f : A -> res B) l :
  (forall a, In a l -> exists b, f a = Ok b) -> exists r, mapM f l = Ok r.
Proof.
  induction l as [|a l IH]; intros H; cbn [mapM]; [eexists; reflexivity|].
  destruct (H a (or_introl eq_refl)) as [b Hb]. rewrite Hb. cbn [bind].
  destruct IH as [r Hr]; [intros x Hx; apply H; right; exact Hx|].
  rewrite Hr. cbn [bind]. eexists; reflexivity.
Qed.

Lemma Forall2_nth_error_r {A B} (R : A -> B -> Prop) l r k b :
  Forall2 R l r -> nth_error r k = Some b -> exists a, nth_error l k = Some a /\ R a b.
Proof.
  intros H; revert k; induction H as [|a0 b0 l r H0 H IH]; intros [|k] Hk; cbn in *; try discriminate.
  - inversion Hk; subst. exists a0. split; [reflexivity | exact H0].
  - apply IH; exact Hk.
Qed.

Lemma Forall2_nth_error_l {A B} (R : A -> B -> Prop) l r k a :
  Forall2 R l r -> nth_error l k = Some a -> exists b, nth_error r k = Some b /\ R a b.
Proof.
  intros H; revert k; induction H as [|a0 b0 l r H0 H IH]; intros [|k] Hk; cbn in *; try discriminate.
  - inversion Hk; subst. exists b0. split; [reflexivity | exact H0].
  - apply IH; exact Hk.
Qed.

Lemma nth_error_map_inv {A B} (f : A -> B) l k b :
  nth_error (map f l) k = Some b -> exists a, nth_error l k = Some a /\ f a = b.
Proof.
  revert k; induction l as [|x l IH]; intros [|k] H; cbn in *; try discriminate.
  - inversion H. exists x. split; reflexivity.
  - apply IH; exact H.
Qed.

Lemma gather_Forall2 {A} (l : list A) idx g :
  gather l idx = Ok g <-> Forall2 (fun j a => nth_error l j = Some a) idx g.
Proof.
  unfold gather. rewrite mapM_Forall2. split; intros H.
  - induction H as [|j a idx g Hj _ IH]; constructor; [|exact IH].
    destruct (nth_error l j); [inversion Hj; reflexivity | discriminate].
  - induction H as [|j a idx g Hj _ IH]; constructor; [|exact IH]. rewrite Hj. reflexivity.
Qed.

Lemma gather_total {A} (l : list A) idx :
  Forall (fun j => (j < length l)%nat) idx -> exists g, gather l idx = Ok g.
Proof.
  intros H. apply mapM_total. intros j Hj. rewrite Forall_forall in H. specialize (H j Hj).
  destruct (nth_error l j) as [a|] eqn:E; [eexists; reflexivity|].
  apply nth_error_None in E. lia.
Qed.

Lemma Forall2_len {A B} (R : A -> B -> Prop) l r : Forall2 R l r -> length l = length r.
Proof. induction 1; cbn; congruence. Qed.

Lemma gather_length {A} (l : list A) idx g : gather l idx = Ok g -> length g = length idx.
Proof. intros H. apply gather_Forall2 in H. symmetry. eapply Forall2_len; exact H. Qed.

Lemma py_index_nat {A} (l : list A) (k : nat) :
  py_index l (Z.of_nat k) = match nth_error l k with Some a => Ok a | None => Err IndexError end.
Proof.
  unfold py_index. destruct (Z.ltb_spec (Z.of_nat k) 0); [lia|].
  destruct (Z.ltb_spec (Z.of_nat k) 0); [lia|]. cbn [orb].
  destruct (Z.leb_spec (Z.of_nat (length l)) (Z.of_nat k)).
  - destruct (nth_error l k) eqn:E; [|reflexivity].
    assert (k < length l)%nat by (apply nth_error_Some; congruence). lia.
  - rewrite Nat2Z.id. reflexivity.
Qed.

(* ------------------------------------------------------------------------- *)
(* shape validation                                                          *)
(* ------------------------------------------------------------------------- *)
Definition well_shaped (so sf : list nat) : Prop :=
  exists N M, so = [N; M; 3; 3]%nat /\ sf = [N; M].

Theorem validation_spec so sf : shape_bad so sf = false <-> well_shaped so sf.
Proof.
  unfold shape_bad, well_shaped. split.
  - intros H. repeat (apply orb_false_iff in H; destruct H as [H ?]).
    repeat match goal with Hx : negb _ = false |- _ => apply negb_false_iff in Hx; apply Nat.eqb_eq in Hx end.
    destruct so as [|a [|b [|c [|d [|? ?]]]]]; try discriminate.
    destruct sf as [|a' [|b' [|? ?]]]; try discriminate. cbn in *. subst. exists a', b'. split; reflexivity.
  - intros (N & M & -> & ->). cbn. rewrite !Nat.eqb_refl. reflexivity.
Qed.

(* ------------------------------------------------------------------------- *)
(* sums, cumulative sums                                                     *)
(* ------------------------------------------------------------------------- *)
Definition lsum (l : list R) : R := fold_right Rplus 0 l.
(* cumulative volume below sorted position k *)
Definition psum (l : list R) (k : nat) : R := lsum (firstn k l).

Lemma lsum_perm l l' : Permutation l l' -> lsum l = lsum l'.
Proof. unfold lsum. induction 1; cbn [fold_right] in *; lra. Qed.

Lemma lsum_cons x l : lsum (x :: l) = x + lsum l.
Proof. reflexivity. Qed.

Lemma psum_S l k : (k < length l)%nat -> psum l (S k) = psum l k + nth k l 0.
Proof.
  unfold psum. revert k; induction l as [|x l IH]; intros k Hk; cbn [length] in Hk; [lia|].
  destruct k as [|k].
  - cbn [firstn nth]. rewrite !lsum_cons. cbn. lra.
  - change (firstn (S (S k)) (x :: l)) with (x :: firstn (S k) l).
    change (firstn (S k) (x :: l)) with (x :: firstn k l). cbn [nth].
    rewrite !lsum_cons, IH by lia. lra.
Qed.

Lemma psum_all l : psum l (length l) = lsum l.
Proof. unfold psum. rewrite firstn_all. reflexivity. Qed.

Lemma psum_0 l : psum l 0 = 0.
Proof. reflexivity. Qed.

Lemma nth_nonneg l k : Forall (fun x => 0 <= x) l -> 0 <= nth k l 0.
Proof.
  intros H. destruct (Nat.lt_ge_cases k (length l)) as [Hk|Hk].
  - rewrite Forall_forall in H. apply H. apply nth_In. exact Hk.
  - rewrite nth_overflow by lia. lra.
Qed.

Lemma psum_mono l i j : Forall (fun x => 0 <= x) l -> (i <= j)%nat -> (j <= length l)%nat ->
  psum l i <= psum l j.
Proof.
  intros Hl Hij Hj. induction Hij as [|j Hij IH]; [lra|].
  rewrite (psum_S l j) by lia. pose proof (nth_nonneg l j Hl). specialize (IH ltac:(lia)). lra.
Qed.

Lemma cumsum_from_length (acc : R) l : length (@cumsum_from NumR acc l) = length l.
Proof. revert acc; induction l as [|x l IH]; intros acc; cbn; [reflexivity|]. rewrite IH. reflexivity. Qed.

Lemma cumsum_length (l : list R) : length (@cumsum NumR l) = length l.
Proof. destruct l; cbn; [reflexivity|]. rewrite cumsum_from_length. reflexivity. Qed.

Lemma cumsum_from_nth (acc : R) l k : (k < length l)%nat ->
  nth k (@cumsum_from NumR acc l) 0 = acc + psum l (S k).
Proof.
  revert acc k; induction l as [|x l IH]; intros acc k Hk; cbn [length] in Hk; [lia|].
  destruct k as [|k]; cbn [cumsum_from nth].
  - unfold psum. cbn [firstn]. rewrite lsum_cons. cbn. numR. lra.
  - rewrite IH by lia. unfold psum.
    change (firstn (S (S k)) (x :: l)) with (x :: firstn (S k) l). rewrite lsum_cons. numR. lra.
Qed.

Lemma cumsum_nth (l : list R) k : (k < length l)%nat -> nth k (@cumsum NumR l) 0 = psum l (S k).
Proof.
  destruct l as [|x l]; intros Hk; cbn [length] in Hk; [lia|].
  destruct k as [|k]; cbn [cumsum nth].
  - unfold psum. cbn [firstn]. rewrite lsum_cons. cbn. lra.
  - rewrite cumsum_from_nth by (change (T NumR) with R in *; lia). unfold psum.
    change (firstn (S (S k)) (x :: l)) with (x :: firstn (S k) l). rewrite lsum_cons. lra.
Qed.

Lemma removelast_len {A} (x : A) l : length (removelast (x :: l)) = length l.
Proof.
  revert x; induction l as [|y l IH]; intros x; [reflexivity|].
  change (removelast (x :: y :: l)) with (x :: removelast (y :: l)). cbn [length]. rewrite IH. reflexivity.
Qed.

Lemma pin_last_length (l c : list R) : @pin_last NumR l = Ok c -> length c = length l /\ l <> [].
Proof.
  destruct l as [|x l]; unfold pin_last; [discriminate|]. intros H. apply (f_equal (fun r => match r with Ok a => a | Err _ => [] end)) in H. subst c.
  split; [|discriminate]. rewrite app_length, removelast_len. change (T NumR) with R in *. cbn [length]. lia.
Qed.

Lemma last_nth_ {A} (l : list A) d : last l d = nth (length l - 1) l d.
Proof.
  induction l as [|x l IH]; [reflexivity|]. destruct l as [|y l]; [reflexivity|].
  change (last (x :: y :: l) d) with (last (y :: l) d). rewrite IH. cbn [length].
  replace (S (S (length l)) - 1)%nat with (S (length l - 0)) by lia.
  cbn [nth]. replace (S (length l) - 1)%nat with (length l - 0)%nat by lia. reflexivity.
Qed.

(* for normalised volumes the pinned edge is the cumulative sum itself (over R) *)
Lemma pin_last_id (fa : list R) : fa <> [] -> lsum fa = 1 ->
  @pin_last NumR (@cumsum NumR fa) = Ok (@cumsum NumR fa).
Proof.
  intros Hne Hs. remember (@cumsum NumR fa) as c eqn:Ec.
  assert (Hlen : length c = length fa) by (subst; apply cumsum_length).
  destruct c as [|x c]; [destruct fa; [congruence | discriminate]|].
  unfold pin_last.
  transitivity (@Ok (list R) (removelast (x :: c) ++ [last (x :: c) 0])).
  - f_equal. f_equal. f_equal. rewrite last_nth_.
    rewrite Ec, cumsum_nth by (rewrite <- Ec, Hlen; destruct fa; [congruence | cbn; lia]).
    rewrite <- Ec, Hlen.
    replace (S (length fa - 1)) with (length fa) by (destruct fa; [congruence | cbn; lia]).
    rewrite psum_all. cbn. numR. symmetry. exact Hs.
  - rewrite <- app_removelast_last by discriminate. reflexivity.
Qed.

(* ------------------------------------------------------------------------- *)
(* searchsorted                                                              *)
(* ------------------------------------------------------------------------- *)
Lemma count_while_spec (p : R -> bool) c k :
  @count_while NumR p c = k <->
  (k <= length c)%nat /\ (forall i, (i < k)%nat -> p (nth i c 0) = true)
  /\ ((k < length c)%nat -> p (nth k c 0) = false).
Proof.
  revert k; induction c as [|x c IH]; intros k; cbn [count_while length].
  - split.
    + intros <-. repeat split; try lia; try (intros i Hi; lia).
    + intros (H & _ & _). lia.
  - destruct (p x) eqn:Px.
    + destruct k as [|k].
      * split; [discriminate|]. intros (_ & _ & H). specialize (H ltac:(lia)). cbn in H. congruence.
      * split.
        -- intros H. injection H as H. apply IH in H. destruct H as (H1 & H2 & H3).
           repeat split; try lia.
           ++ intros [|i] Hi; cbn [nth]; [exact Px | apply H2; lia].
           ++ intros Hk. cbn [nth]. apply H3. lia.
        -- intros (H1 & H2 & H3). f_equal. apply IH. repeat split; try lia.
           ++ intros i Hi. apply (H2 (S i)). lia.
           ++ intros Hk. apply H3. lia.
    + split.
      * intros <-. repeat split; try lia. intros _. exact Px.
      * intros (_ & H2 & _). destruct k as [|k]; [reflexivity|].
        specialize (H2 0%nat ltac:(lia)). cbn in H2. congruence.
Qed.

Lemma count_while_last (p : R -> bool) a x : p x = false ->
  (@count_while NumR p (a ++ [x]) <= length a)%nat.
Proof.
  intros Hx. induction a as [|y a IH]; cbn [app count_while length].
  - rewrite Hx. lia.
  - destruct (p y); lia.
Qed.

(* the pinned last edge keeps every variate below 1 inside the table *)
Lemma search_in_range right (l c : list R) u : @pin_last NumR l = Ok c -> u < 1 ->
  (@searchsorted NumR right c u < length c)%nat.
Proof.
  intros Hp Hu. pose proof (pin_last_length _ _ Hp) as [Hlen Hne].
  destruct l as [|x l]; [congruence|]. unfold pin_last in Hp.
  apply (f_equal (fun r => match r with Ok a => a | Err _ => [] end)) in Hp. subst c.
  unfold searchsorted. eapply Nat.le_lt_trans; [apply count_while_last|].
  - destruct right; numR; [apply Rleb_false | apply Rltb_false]; lra.
  - rewrite app_length. cbn. lia.
Qed.

(* side="left": sorted position k is selected exactly by u in (psum k, psum (k+1)] *)
Lemma search_left_interval (fa : list R) k u :
  Forall (fun x => 0 <= x) fa -> (k < length fa)%nat -> 0 < u ->
  (@searchsorted NumR false (@cumsum NumR fa) u = k <-> psum fa k < u <= psum fa (S k)).
Proof.
  intros Hpos Hk Hu. unfold searchsorted. rewrite count_while_spec, cumsum_length.
  split.
  - intros (_ & H2 & H3). specialize (H3 Hk). rewrite cumsum_nth in H3 by exact Hk.
    numR. apply Rltb_false in H3. split; [|exact H3].
    destruct k as [|k]; [rewrite psum_0; exact Hu|].
    specialize (H2 k ltac:(lia)). rewrite cumsum_nth in H2 by lia. apply Rltb_true in H2. exact H2.
  - intros [H1 H2]. repeat split; try lia.
    + intros i Hi. rewrite cumsum_nth by lia. numR. apply Rltb_true.
      eapply Rle_lt_trans; [|exact H1]. apply psum_mono; [exact Hpos | lia | lia].
    + intros _. rewrite cumsum_nth by exact Hk. numR. apply Rltb_false. exact H2.
Qed.

(* side="right" (mutation): the half-open interval is closed at the other end *)
Lemma search_right_interval (fa : list R) k u :
  Forall (fun x => 0 <= x) fa -> (k < length fa)%nat -> 0 <= u ->
  (@searchsorted NumR true (@cumsum NumR fa) u = k <-> psum fa k <= u < psum fa (S k)).
Proof.
  intros Hpos Hk Hu. unfold searchsorted. rewrite count_while_spec, cumsum_length.
  split.
  - intros (_ & H2 & H3). specialize (H3 Hk). rewrite cumsum_nth in H3 by exact Hk.
    numR. apply Rleb_false in H3. split; [|exact H3].
    destruct k as [|k]; [rewrite psum_0; exact Hu|].
    specialize (H2 k ltac:(lia)). rewrite cumsum_nth in H2 by lia. apply Rleb_true in H2. exact H2.
  - intros [H1 H2]. repeat split; try lia.
    + intros i Hi. rewrite cumsum_nth by lia. numR. apply Rleb_true.
      eapply Rle_trans; [|exact H1]. apply psum_mono; [exact Hpos | lia | lia].
    + intros _. rewrite cumsum_nth by exact Hk. numR. apply Rleb_false. exact H2.
Qed.

Lemma interval_length (fa : list R) k : (k < length fa)%nat -> psum fa (S k) - psum fa k = nth k fa 0.
Proof. intros Hk. rewrite psum_S by exact Hk. lra. Qed.

(* 0 < u: the selected sorted position has positive volume *)
Lemma search_left_positive (fa c : list R) u :
  Forall (fun x => 0 <= x) fa -> lsum fa = 1 -> @pin_last NumR (@cumsum NumR fa) = Ok c ->
  0 < u < 1 -> 0 < nth (@searchsorted NumR false c u) fa 0.
Proof.
  intros Hpos Hs Hp [Hu0 Hu1].
  pose proof (search_in_range false _ _ u Hp Hu1) as Hr.
  pose proof (pin_last_length _ _ Hp) as [Hlen Hne]. rewrite cumsum_length in Hlen.
  assert (Hfa : fa <> []) by (intros ->; apply Hne; reflexivity).
  rewrite (pin_last_id fa Hfa Hs) in Hp. injection Hp as <-. rewrite cumsum_length in Hr.
  set (k := @searchsorted NumR false (@cumsum NumR fa) u) in *.
  assert (H : psum fa k < u <= psum fa (S k)) by (apply search_left_interval; auto).
  rewrite <- (interval_length fa k Hr). lra.
Qed.

Lemma search_right_positive (fa c : list R) u :
  Forall (fun x => 0 <= x) fa -> lsum fa = 1 -> @pin_last NumR (@cumsum NumR fa) = Ok c ->
  0 <= u < 1 -> 0 < nth (@searchsorted NumR true c u) fa 0.
Proof.
  intros Hpos Hs Hp [Hu0 Hu1].
  pose proof (search_in_range true _ _ u Hp Hu1) as Hr.
  pose proof (pin_last_length _ _ Hp) as [Hlen Hne]. rewrite cumsum_length in Hlen.
  assert (Hfa : fa <> []) by (intros ->; apply Hne; reflexivity).
  rewrite (pin_last_id fa Hfa Hs) in Hp. injection Hp as <-. rewrite cumsum_length in Hr.
  set (k := @searchsorted NumR true (@cumsum NumR fa) u) in *.
  assert (H : psum fa k <= u < psum fa (S k)) by (apply search_right_interval; auto).
  rewrite <- (interval_length fa k Hr). lra.
Qed.

(* ------------------------------------------------------------------------- *)
(* permutations                                                              *)
(* ------------------------------------------------------------------------- *)
Lemma map_nth_seq {A} (l : list A) d : map (fun j => nth j l d) (seq 0 (length l)) = l.
Proof.
  induction l as [|x l IH]; [reflexivity|]. cbn [length seq map nth]. f_equal.
  rewrite <- seq_shift, map_map. exact IH.
Qed.

Definition is_perm (M : nat) (pi : list nat) : Prop := Permutation pi (seq 0 M).

Lemma is_perm_range M pi : is_perm M pi -> Forall (fun j => (j < M)%nat) pi /\ length pi = M.
Proof.
  intros H. split.
  - apply Forall_forall. intros j Hj. apply (Permutation_in _ H) in Hj. apply in_seq in Hj. lia.
  - rewrite (Permutation_length H). apply seq_length.
Qed.

Lemma gather_perm {A} (l : list A) pi g :
  is_perm (length l) pi -> gather l pi = Ok g -> Permutation g l.
Proof.
  intros Hp Hg. apply gather_Forall2 in Hg.
  destruct l as [|d l'] eqn:El.
  - cbn in Hp. apply Permutation_sym, Permutation_nil in Hp. subst pi. inversion Hg. constructor.
  - rewrite <- El in *.
    assert (E : g = map (fun j => nth j l d) pi).
    { clear Hp. induction Hg as [|j a pi g Hj _ IH]; [reflexivity|]. cbn [map]. f_equal; [|exact IH].
      symmetry. apply nth_error_nth. exact Hj. }
    rewrite E. eapply Permutation_trans; [apply Permutation_map; exact Hp|].
    rewrite map_nth_seq. apply Permutation_refl.
Qed.

(* ------------------------------------------------------------------------- *)
(* one snapshot                                                              *)
(* ------------------------------------------------------------------------- *)
Section One.
  Context {O : Type}.

  (* what a successful call returns, for the sort-respecting variants (either side) *)
  Lemma resample_one_inv right (orient : list O) (f : list R) pi us os' fs' :
    @resample_one NumR O (mk_variant right 0 true) orient f pi us = Ok (os', fs') ->
    exists fa oa c,
      gather f pi = Ok fa /\ gather orient pi = Ok oa /\ @pin_last NumR (@cumsum NumR fa) = Ok c /\
      Forall2 (fun u o => nth_error oa (@searchsorted NumR right c u) = Some o) us os' /\
      Forall2 (fun u x => nth_error fa (@searchsorted NumR right c u) = Some x) us fs'.
  Proof.
    unfold resample_one. cbn [v_right v_shift v_permute]. intros H.
    match type of H with bind ?g _ = _ => destruct g as [fa|] eqn:Hfa end; [|discriminate H]. cbn [bind] in H.
    match type of H with bind ?g _ = _ => destruct g as [c|] eqn:Hc end; [|discriminate H]. cbn [bind] in H.
    match type of H with bind ?g _ = _ => destruct g as [oa|] eqn:Hoa end; [|discriminate H]. cbn [bind] in H.
    match type of H with bind ?g _ = _ => destruct g as [prs|] eqn:Hm end; [|discriminate H]. cbn [bind] in H.
    injection H as <- <-.
    exists fa, oa, c. split; [first [exact Hfa | reflexivity]|]. split; [first [exact Hoa | reflexivity]|].
    split; [first [exact Hc | reflexivity]|]. split.
    - apply mapM_Forall2 in Hm. clear -Hm. induction Hm as [|u p us prs Hu _ IH]; cbn [map]; constructor; [|exact IH].
      rewrite Z.add_0_r, !py_index_nat in Hu.
      destruct (nth_error oa _) as [o|] eqn:Eo; [|discriminate]. cbn [bind] in Hu.
      destruct (nth_error fa _) as [x|] eqn:Ex; [|discriminate]. cbn [bind] in Hu. injection Hu as <-.
      cbn [fst snd]. first [reflexivity | exact Eo | exact Ex].
    - apply mapM_Forall2 in Hm. clear -Hm. induction Hm as [|u p us prs Hu _ IH]; cbn [map]; constructor; [|exact IH].
      rewrite Z.add_0_r, !py_index_nat in Hu.
      destruct (nth_error oa _) as [o|] eqn:Eo; [|discriminate]. cbn [bind] in Hu.
      destruct (nth_error fa _) as [x|] eqn:Ex; [|discriminate]. cbn [bind] in Hu. injection Hu as <-.
      cbn [fst snd]. first [reflexivity | exact Eo | exact Ex].
  Qed.

  (* pairing: every output pair is (orient[j], f[j]) for one j -- no hypothesis on the
     oracles is needed for this *)
  Lemma resample_one_membership right (orient : list O) (f : list R) pi us os' fs' s o x :
    @resample_one NumR O (mk_variant right 0 true) orient f pi us = Ok (os', fs') ->
    nth_error os' s = Some o -> nth_error fs' s = Some x ->
    exists j, nth_error orient j = Some o /\ nth_error f j = Some x.
  Proof.
    intros H Ho Hx. apply resample_one_inv in H.
    destruct H as (fa & oa & c & Hfa & Hoa & _ & H1 & H2).
    destruct (Forall2_nth_error_r _ _ _ _ _ H1 Ho) as (u & Hu & Ko).
    destruct (Forall2_nth_error_r _ _ _ _ _ H2 Hx) as (u' & Hu' & Kx).
    rewrite Hu in Hu'. injection Hu' as <-.
    apply gather_Forall2 in Hfa. apply gather_Forall2 in Hoa.
    destruct (Forall2_nth_error_r _ _ _ _ _ Hoa Ko) as (j & Hj & Jo).
    destruct (Forall2_nth_error_r _ _ _ _ _ Hfa Kx) as (j' & Hj' & Jx).
    rewrite Hj in Hj'. injection Hj' as <-. exists j. split; assumption.
  Qed.

  Lemma resample_one_lengths right (orient : list O) (f : list R) pi us os' fs' :
    @resample_one NumR O (mk_variant right 0 true) orient f pi us = Ok (os', fs') ->
    length os' = length us /\ length fs' = length us.
  Proof.
    intros H. apply resample_one_inv in H. destruct H as (fa & oa & c & _ & _ & _ & H1 & H2).
    split; symmetry; eapply Forall2_len; eassumption.
  Qed.

  (* no exception under the oracle hypotheses *)
  Lemma resample_one_total right (orient : list O) (f : list R) pi us :
    length orient = length f -> f <> [] -> is_perm (length f) pi -> Forall (fun u => u < 1) us ->
    exists r, @resample_one NumR O (mk_variant right 0 true) orient f pi us = Ok r.
  Proof.
    intros Hlen Hne Hp Hu. destruct (is_perm_range _ _ Hp) as [Hr Hl].
    destruct (gather_total f pi Hr) as [fa Hfa].
    destruct (gather_total orient pi) as [oa Hoa]; [rewrite Hlen; exact Hr|].
    pose proof (gather_length _ _ _ Hfa) as Lfa. pose proof (gather_length _ _ _ Hoa) as Loa.
    assert (Hfa' : fa <> []) by (intros ->; cbn in Lfa; destruct f; [congruence | cbn in Hl; lia]).
    destruct (@pin_last NumR (@cumsum NumR fa)) as [c|] eqn:Hc.
    2:{ exfalso. destruct fa as [|y fa]; [congruence|]. cbn in Hc. discriminate. }
    unfold resample_one. cbn [v_right v_shift v_permute]. change (T NumR) with R in *.
    rewrite Hfa. cbn [bind]. rewrite Hc. cbn [bind].
    rewrite Hoa. cbn [bind].
    match goal with |- context [mapM ?g us] => destruct (mapM_total g us) as [prs Hm] end.
    - intros u Hin. rewrite Forall_forall in Hu. specialize (Hu u Hin).
      pose proof (search_in_range right _ _ u Hc Hu) as Hk.
      destruct (pin_last_length _ _ Hc) as [Lc _]. rewrite cumsum_length in Lc.
      rewrite Z.add_0_r, !py_index_nat.
      destruct (nth_error oa _) as [o|] eqn:Eo.
      2:{ apply nth_error_None in Eo. change (T NumR) with R in *. lia. }
      destruct (nth_error fa _) as [x|] eqn:Ex.
      2:{ apply nth_error_None in Ex. change (T NumR) with R in *. lia. }
      cbn [bind]. eexists; reflexivity.
    - rewrite Hm. cbn [bind]. eexists; reflexivity.
  Qed.

  (* zero-volume grains are never drawn (0 < u; side="left") *)
  Lemma resample_one_positive (orient : list O) (f : list R) pi us os' fs' :
    @resample_one NumR O faithful orient f pi us = Ok (os', fs') ->
    is_perm (length f) pi -> Forall (fun x => 0 <= x) f -> lsum f = 1 ->
    Forall (fun u => 0 < u < 1) us -> Forall (fun x => 0 < x) fs'.
  Proof.
    intros H Hp Hpos Hs Hu. apply resample_one_inv in H.
    destruct H as (fa & oa & c & Hfa & _ & Hc & _ & H2).
    pose proof (gather_perm f pi fa Hp Hfa) as Pf.
    assert (Hpos' : Forall (fun x => 0 <= x) fa).
    { apply Forall_forall. intros x Hx. rewrite Forall_forall in Hpos. apply Hpos.
      eapply Permutation_in; [exact Pf | exact Hx]. }
    assert (Hs' : lsum fa = 1) by (rewrite (lsum_perm _ _ Pf); exact Hs).
    clear -H2 Hu Hpos' Hs' Hc. induction H2 as [|u x us fs' Hx _ IH]; constructor.
    - inversion Hu; subst. pose proof (search_left_positive fa c u Hpos' Hs' Hc ltac:(assumption)) as Hk.
      erewrite nth_error_nth in Hk by exact Hx. exact Hk.
    - apply IH. inversion Hu; assumption.
  Qed.

  Lemma resample_one_positive_right (orient : list O) (f : list R) pi us os' fs' :
    @resample_one NumR O (mk_variant true 0 true) orient f pi us = Ok (os', fs') ->
    is_perm (length f) pi -> Forall (fun x => 0 <= x) f -> lsum f = 1 ->
    Forall (fun u => 0 <= u < 1) us -> Forall (fun x => 0 < x) fs'.
  Proof.
    intros H Hp Hpos Hs Hu. apply resample_one_inv in H.
    destruct H as (fa & oa & c & Hfa & _ & Hc & _ & H2).
    pose proof (gather_perm f pi fa Hp Hfa) as Pf.
    assert (Hpos' : Forall (fun x => 0 <= x) fa).
    { apply Forall_forall. intros x Hx. rewrite Forall_forall in Hpos. apply Hpos.
      eapply Permutation_in; [exact Pf | exact Hx]. }
    assert (Hs' : lsum fa = 1) by (rewrite (lsum_perm _ _ Pf); exact Hs).
    clear -H2 Hu Hpos' Hs' Hc. induction H2 as [|u x us fs' Hx _ IH]; constructor.
    - inversion Hu; subst. pose proof (search_right_positive fa c u Hpos' Hs' Hc ltac:(assumption)) as Hk.
      erewrite nth_error_nth in Hk by exact Hx. exact Hk.
    - apply IH. inversion Hu; assumption.
  Qed.
End One.

(* ------------------------------------------------------------------------- *)
(* the whole function                                                        *)
(* ------------------------------------------------------------------------- *)
Section Whole.
  Context {O : Type}.
  Variable argsort : nat -> list R -> list nat.
  Variable draw : nat -> nat -> list R.

  Notation loopR := (@loop NumR O argsort draw).
  Notation resampleR := (@resample NumR O argsort draw).

  Lemma loop_inv v os : forall i fs n rs,
    loopR v i os fs n = Ok rs ->
    forall j r, nth_error rs j = Some r ->
      exists o f, nth_error os j = Some o /\ nth_error fs j = Some f /\
        @resample_one NumR O v o f (argsort (i + j)%nat f) (draw (i + j)%nat n) = Ok r.
  Proof.
    induction os as [|o os IH]; intros i fs n rs H j r Hj; destruct fs as [|f fs]; cbn [loop] in H;
      try discriminate.
    - injection H as <-. destruct j; discriminate.
    - destruct (@resample_one NumR O v o f (argsort i f) (draw i n)) as [r0|] eqn:E0; [|discriminate].
      cbn [bind] in H. destruct (loopR v (S i) os fs n) as [rs'|] eqn:E1; [|discriminate].
      cbn [bind] in H. injection H as <-. destruct j as [|j]; cbn [nth_error] in *.
      + injection Hj as <-. exists o, f. rewrite Nat.add_0_r. repeat split; exact E0.
      + destruct (IH _ _ _ _ E1 j r Hj) as (o' & f' & H1 & H2 & H3). exists o', f'.
        replace (i + S j)%nat with (S i + j)%nat by lia. repeat split; assumption.
  Qed.

  Lemma loop_length v os : forall i fs n rs, loopR v i os fs n = Ok rs -> length rs = length os.
  Proof.
    induction os as [|o os IH]; intros i fs n rs H; destruct fs as [|f fs]; cbn [loop] in H; try discriminate.
    - injection H as <-. reflexivity.
    - destruct (@resample_one NumR O v o f (argsort i f) (draw i n)) as [r0|]; [|discriminate].
      cbn [bind] in H. destruct (loopR v (S i) os fs n) as [rs'|] eqn:E1; [|discriminate].
      cbn [bind] in H. injection H as <-. cbn [length]. f_equal. eapply IH; exact E1.
  Qed.

  Lemma loop_total v os : forall i fs n,
    length os = length fs ->
    (forall j o f, nth_error os j = Some o -> nth_error fs j = Some f ->
       exists r, @resample_one NumR O v o f (argsort (i + j)%nat f) (draw (i + j)%nat n) = Ok r) ->
    exists rs, loopR v i os fs n = Ok rs.
  Proof.
    induction os as [|o os IH]; intros i fs n Hl H; destruct fs as [|f fs]; cbn [length] in Hl; try lia.
    - eexists; reflexivity.
    - cbn [loop]. destruct (H 0%nat o f eq_refl eq_refl) as [r Hr]. rewrite Nat.add_0_r in Hr.
      rewrite Hr. cbn [bind]. destruct (IH (S i) fs n ltac:(lia)) as [rs Hrs].
      + intros j o' f' Ho Hf. replace (S i + j)%nat with (i + S j)%nat by lia. apply (H (S j)); assumption.
      + rewrite Hrs. cbn [bind]. eexists; reflexivity.
  Qed.

  Definition n_of (sf : list nat) (ns : option Z) : nat :=
    match ns with None => nth 1 sf 0%nat | Some z => Z.to_nat z end.

  Lemma resample_inv v so sf os fs ns oo ff :
    resampleR v so sf os fs ns = Ok (oo, ff) ->
    shape_bad so sf = false /\ (forall z, ns = Some z -> (0 <= z)%Z) /\
    exists rs, loopR v 0 os fs (n_of sf ns) = Ok rs /\ oo = map fst rs /\ ff = map snd rs.
  Proof.
    unfold resample. destruct (shape_bad so sf); [discriminate|]. intros H. split; [reflexivity|].
    destruct ns as [z|]; cbn [n_of].
    - destruct (Z.ltb_spec z 0); [discriminate|]. cbn [bind] in H.
      destruct (loopR v 0 os fs (Z.to_nat z)) as [rs|]; [|discriminate]. cbn [bind] in H.
      injection H as <- <-. split; [intros z' E; injection E as <-; lia|]. eexists; repeat split.
    - cbn [bind] in H. destruct (loopR v 0 os fs (nth 1 sf 0%nat)) as [rs|]; [|discriminate].
      cbn [bind] in H. injection H as <- <-. split; [intros z' E; discriminate|]. eexists; repeat split.
  Qed.

  Definition data_ok (so sf : list nat) (os : list (list O)) (fs : list (list R)) : Prop :=
    exists N M, so = [N; M; 3; 3]%nat /\ sf = [N; M] /\ length os = N /\ length fs = N /\
      Forall (fun o => length o = M) os /\ Forall (fun f => length f = M) fs.

  (* oracle hypotheses *)
  Definition argsort_perm : Prop := forall i f, is_perm (length f) (argsort i f).
  Definition draw_ok : Prop := forall i n, length (draw i n) = n /\ Forall (fun u => 0 <= u < 1) (draw i n).
  Definition draw_pos : Prop := forall i n, Forall (fun u => 0 < u) (draw i n).

  Theorem draw_membership right so sf os fs ns oo ff :
    resampleR (mk_variant right 0 true) so sf os fs ns = Ok (oo, ff) ->
    forall i s orow frow o x,
      nth_error oo i = Some orow -> nth_error ff i = Some frow ->
      nth_error orow s = Some o -> nth_error frow s = Some x ->
      exists osnap fsnap j, nth_error os i = Some osnap /\ nth_error fs i = Some fsnap /\
        nth_error osnap j = Some o /\ nth_error fsnap j = Some x.
  Proof.
    intros H i s orow frow o x Ho Hf Hso Hsx.
    apply resample_inv in H. destruct H as (_ & _ & rs & Hl & -> & ->).
    apply nth_error_map_inv in Ho. destruct Ho as ([a b] & Hr & <-).
    apply nth_error_map_inv in Hf. destruct Hf as ([a' b'] & Hr' & <-).
    rewrite Hr in Hr'. injection Hr' as <- <-. cbn [fst snd] in *.
    destruct (loop_inv _ _ _ _ _ _ Hl i (a, b) Hr) as (osnap & fsnap & H1 & H2 & H3).
    destruct (resample_one_membership right osnap fsnap _ _ a b s o x H3 Hso Hsx) as (j & J1 & J2).
    exists osnap, fsnap, j. repeat split; assumption.
  Qed.

  Theorem shapes right so sf os fs ns oo ff :
    resampleR (mk_variant right 0 true) so sf os fs ns = Ok (oo, ff) ->
    (forall i n, length (draw i n) = n) ->
    length oo = length os /\ length ff = length os /\
    Forall (fun row => length row = n_of sf ns) oo /\ Forall (fun row => length row = n_of sf ns) ff.
  Proof.
    intros H Hd. apply resample_inv in H. destruct H as (_ & _ & rs & Hl & -> & ->).
    rewrite !map_length, (loop_length _ _ _ _ _ _ Hl). split; [reflexivity|]. split; [reflexivity|].
    split; apply Forall_forall; intros row Hin; apply In_nth_error in Hin; destruct Hin as [i Hi];
      apply nth_error_map_inv in Hi; destruct Hi as ([a b] & Hr & <-);
      destruct (loop_inv _ _ _ _ _ _ Hl i (a, b) Hr) as (o & f & _ & _ & H3);
      apply resample_one_lengths in H3; destruct H3 as [L1 L2]; cbn [fst snd]; rewrite ?L1, ?L2; apply Hd.
  Qed.

  Theorem resample_total right so sf os fs ns :
    data_ok so sf os fs -> (1 <= nth 1 sf 0)%nat -> (forall z, ns = Some z -> (0 <= z)%Z) ->
    argsort_perm -> draw_ok ->
    exists r, resampleR (mk_variant right 0 true) so sf os fs ns = Ok r.
  Proof.
    intros (N & M & -> & -> & Lo & Lf & Fo & Ff) HM Hns Ha Hd. cbn [nth] in HM.
    unfold resample. rewrite (proj2 (validation_spec _ _)) by (exists N, M; split; reflexivity).
    assert (Hn : exists n, (match ns with None => Ok (nth 1 [N; M] 0%nat)
                            | Some z => if (z <? 0)%Z then Err ValueError else Ok (Z.to_nat z) end) = @Ok nat n).
    { destruct ns as [z|]; [|eexists; reflexivity]. specialize (Hns z eq_refl).
      destruct (Z.ltb_spec z 0); [lia|]. eexists; reflexivity. }
    destruct Hn as [n ->]. cbn [bind].
    destruct (loop_total (mk_variant right 0 true) os 0 fs n (eq_trans Lo (eq_sym Lf))) as [rs Hrs].
    - intros j o f Ho Hf. apply resample_one_total.
      + rewrite Forall_forall in Fo, Ff. rewrite (Fo o), (Ff f); eauto using nth_error_In.
      + rewrite Forall_forall in Ff. intros ->. specialize (Ff [] (nth_error_In _ _ Hf)). cbn in Ff. lia.
      + apply Ha.
      + destruct (Hd (0 + j)%nat n) as [_ Hu]. eapply Forall_impl; [|exact Hu]. cbn. intros u Hu'. lra.
    - rewrite Hrs. cbn [bind]. eexists; reflexivity.
  Qed.

  Theorem zero_volume_never so sf os fs ns oo ff :
    resampleR faithful so sf os fs ns = Ok (oo, ff) ->
    argsort_perm -> draw_ok -> draw_pos ->
    Forall (fun f => Forall (fun x => 0 <= x) f /\ lsum f = 1) fs ->
    Forall (fun row => Forall (fun x => 0 < x) row) ff.
  Proof.
    intros H Ha Hd Hp Hf. apply resample_inv in H. destruct H as (_ & _ & rs & Hl & _ & ->).
    apply Forall_forall. intros row Hin. apply In_nth_error in Hin. destruct Hin as [i Hi].
    apply nth_error_map_inv in Hi. destruct Hi as ([a b] & Hr & <-). cbn [snd].
    destruct (loop_inv _ _ _ _ _ _ Hl i (a, b) Hr) as (o & f & _ & H2 & H3).
    rewrite Forall_forall in Hf. destruct (Hf f (nth_error_In _ _ H2)) as [F1 F2].
    eapply resample_one_positive; try eassumption; [apply Ha|].
    destruct (Hd (0 + i)%nat (n_of sf ns)) as [_ D1]. specialize (Hp (0 + i)%nat (n_of sf ns)).
    rewrite Forall_forall in *. intros u Hu. specialize (D1 u Hu). specialize (Hp u Hu). lra.
  Qed.

  (* with side="right" even u = 0 cannot draw an empty grain *)
  Theorem zero_volume_never_right so sf os fs ns oo ff :
    resampleR (mk_variant true 0 true) so sf os fs ns = Ok (oo, ff) ->
    argsort_perm -> draw_ok ->
    Forall (fun f => Forall (fun x => 0 <= x) f /\ lsum f = 1) fs ->
    Forall (fun row => Forall (fun x => 0 < x) row) ff.
  Proof.
    intros H Ha Hd Hf. apply resample_inv in H. destruct H as (_ & _ & rs & Hl & _ & ->).
    apply Forall_forall. intros row Hin. apply In_nth_error in Hin. destruct Hin as [i Hi].
    apply nth_error_map_inv in Hi. destruct Hi as ([a b] & Hr & <-). cbn [snd].
    destruct (loop_inv _ _ _ _ _ _ Hl i (a, b) Hr) as (o & f & _ & H2 & H3).
    rewrite Forall_forall in Hf. destruct (Hf f (nth_error_In _ _ H2)) as [F1 F2].
    eapply resample_one_positive_right; try eassumption; [apply Ha|].
    destruct (Hd (0 + i)%nat (n_of sf ns)) as [_ D1]. exact D1.
  Qed.

  Theorem rejects_malformed v so sf os fs ns :
    ~ well_shaped so sf -> resampleR v so sf os fs ns = Err ValueError.
  Proof.
    intros H. unfold resample. destruct (shape_bad so sf) eqn:E; [reflexivity|].
    apply validation_spec in E. contradiction.
  Qed.

  Theorem rejects_negative_samples v so sf os fs z :
    (z < 0)%Z -> resampleR v so sf os fs (Some z) = Err ValueError.
  Proof.
    intros H. unfold resample. destruct (shape_bad so sf); [reflexivity|].
    destruct (Z.ltb_spec z 0); [reflexivity | lia].
  Qed.
End Whole.

(* the result is a function of (orientations, fractions, n_samples, variates, sort order) *)
Theorem deterministic {O} (a a' : nat -> list R -> list nat) (d d' : nat -> nat -> list R)
        v so sf (os : list (list O)) fs ns :
  (forall i f, a i f = a' i f) -> (forall i n, d i n = d' i n) ->
  @resample NumR O a d v so sf os fs ns = @resample NumR O a' d' v so sf os fs ns.
Proof.
  intros Ha Hd. unfold resample. destruct (shape_bad so sf); [reflexivity|].
  destruct (match ns with None => _ | Some z => _ end) as [n|]; [|reflexivity]. cbn [bind].
  assert (E : forall os i fs, @loop NumR O a d v i os fs n = @loop NumR O a' d' v i os fs n).
  { clear os fs. induction os as [|o os IH]; intros i [|f fs]; cbn [loop]; try reflexivity.
    rewrite Ha, Hd, IH. reflexivity. }
  rewrite E. reflexivity.
Qed.

(* the sorted volumes and their cumulative edges, and what a draw selects *)
Theorem draw_interval (fa c : list R) k u :
  Forall (fun x => 0 <= x) fa -> lsum fa = 1 -> @pin_last NumR (@cumsum NumR fa) = Ok c ->
  (k < length fa)%nat -> 0 < u ->
  (@searchsorted NumR false c u = k <-> psum fa k < u <= psum fa (S k))
  /\ psum fa (S k) - psum fa k = nth k fa 0.
Proof.
  intros Hpos Hs Hp Hk Hu. split; [|apply interval_length; exact Hk].
  assert (Hfa : fa <> []) by (intros ->; cbn in Hk; lia).
  rewrite (pin_last_id fa Hfa Hs) in Hp. injection Hp as <-. apply search_left_interval; assumption.
Qed.

Theorem draw_interval_right (fa c : list R) k u :
  Forall (fun x => 0 <= x) fa -> lsum fa = 1 -> @pin_last NumR (@cumsum NumR fa) = Ok c ->
  (k < length fa)%nat -> 0 <= u ->
  (@searchsorted NumR true c u = k <-> psum fa k <= u < psum fa (S k))
  /\ psum fa (S k) - psum fa k = nth k fa 0.
Proof.
  intros Hpos Hs Hp Hk Hu. split; [|apply interval_length; exact Hk].
  assert (Hfa : fa <> []) by (intros ->; cbn in Hk; lia).
  rewrite (pin_last_id fa Hfa Hs) in Hp. injection Hp as <-. apply search_right_interval; assumption.
Qed.

Theorem sorted_is_rearrangement (f : list R) pi fa :
  is_perm (length f) pi -> gather f pi = Ok fa ->
  Permutation fa f /\ lsum fa = lsum f /\ (Forall (fun x => 0 <= x) f -> Forall (fun x => 0 <= x) fa).
Proof.
  intros Hp Hg. pose proof (gather_perm f pi fa Hp Hg) as P. split; [exact P|].
  split; [apply lsum_perm; exact P|]. intros H. apply Forall_forall. intros x Hx.
  rewrite Forall_forall in H. apply H. eapply Permutation_in; [exact P | exact Hx].
Qed.

(* ------------------------------------------------------------------------- *)
(* witnesses                                                                 *)
(* ------------------------------------------------------------------------- *)
Ltac rcmp :=
  repeat match goal with
  | |- context [Rltb ?a ?b] =>
      first [ rewrite (proj2 (Rltb_true a b)) by lra | rewrite (proj2 (Rltb_false a b)) by lra ]
  | |- context [Rleb ?a ?b] =>
      first [ rewrite (proj2 (Rleb_true a b)) by lra | rewrite (proj2 (Rleb_false a b)) by lra ]
  end.

Ltac run_one :=
  cbv [resample_one gather mapM bind nth_error pin_last cumsum cumsum_from removelast app
       searchsorted count_while v_right v_shift v_permute faithful
       T nltb nleb nadd none nzero NumR map fst snd];
  rcmp.

(* u = 0 (probability 2^-53 per draw with numpy's generator) selects sorted position 0,
   which may be an empty grain *)
Lemma zero_volume_u0_witness :
  @resample_one NumR nat faithful [7; 8]%nat [0; 1] [0; 1]%nat [0] = Ok ([7%nat], [0]).
Proof. run_one. reflexivity. Qed.

(* count_less + 1: a valid input raises IndexError *)
Lemma shift_plus_witness :
  @resample_one NumR nat (mk_variant false 1 true) [7; 8]%nat [1/2; 1/2] [0; 1]%nat [3/4] = Err IndexError.
Proof. run_one. reflexivity. Qed.

(* count_less - 1: an empty grain is drawn with u > 0 (and index -1 wraps around) *)
Lemma shift_minus_witness :
  @resample_one NumR nat (mk_variant false (-1) true) [7; 8]%nat [0; 1] [0; 1]%nat [1/2; 0]
  = Ok ([7; 8]%nat, [0; 1 + 0 - 0]).
Proof. run_one. cbv [py_index length Z.of_nat Pos.of_succ_nat Z.add Z.ltb Z.leb Z.compare Pos.compare
                     Pos.compare_cont Z.pos_sub Z.to_nat Pos.to_nat Pos.iter_op Nat.add orb nth_error bind map fst snd
                     Z.succ_double Z.pred_double Z.double Pos.pred_double Z.opp Pos.succ].
  repeat f_equal; lra.
Qed.

(* orient[count_less] without the sort permutation: orientation of one grain, volume
   of another *)
Lemma unpermuted_witness :
  @resample_one NumR nat (mk_variant false 0 false) [7; 8]%nat [3/4; 1/4] [1; 0]%nat [1/2]
  = Ok ([8%nat], [3/4]) /\
  ~ (exists j, nth_error [7; 8]%nat j = Some 8%nat /\ nth_error [3/4; 1/4] j = Some (3/4)).
Proof.
  split.
  - run_one. reflexivity.
  - intros [[|[|j]] [H1 H2]]; cbn in *; try discriminate.
    + injection H2 as H2. lra.
    + destruct j; discriminate.
Qed.

Lemma volumes_from_sorted {O} (orient : list O) (f : list R) pi us os' fs' :
  @resample_one NumR O faithful orient f pi us = Ok (os', fs') ->
  exists fa, gather f pi = Ok fa /\ Forall (fun x => In x fa) fs'.
Proof.
  intros H. apply (resample_one_inv false) in H.
  destruct H as (fa & oa & c & Hfa & _ & _ & _ & H2). exists fa. split; [exact Hfa|].
  induction H2 as [|u x us' fs'' Hx _ IH]; constructor; [eapply nth_error_In; exact Hx | exact IH].
Qed.

Lemma C15_nonvacuous_proof :
  let argsort := fun (_ : nat) (f : list R) => seq 0 (length f) in
  let draw := fun (_ n : nat) => repeat (1 / 2) n in
  argsort_perm argsort /\ draw_ok draw /\ draw_pos draw /\
  @data_ok nat [1; 2; 3; 3]%nat [1; 2]%nat [[7; 8]%nat] [[1/4; 3/4]] /\
  (Forall (fun x => 0 <= x) [1/4; 3/4] /\ lsum [1/4; 3/4] = 1).
Proof.
  cbv zeta. split; [intros i f; apply Permutation_refl|].
  split; [intros i n; split; [apply repeat_length | apply Forall_forall; intros u Hu; apply repeat_spec in Hu; subst; lra]|].
  split; [intros i n; apply Forall_forall; intros u Hu; apply repeat_spec in Hu; subst; lra|].
  split; [exists 1%nat, 2%nat; repeat split; repeat constructor|].
  split; [repeat constructor; lra | unfold lsum; cbn; lra].
Qed.
