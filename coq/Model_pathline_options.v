(* Model_pathline_options.v -- hand-written model of the SOLVER OPTIONS of a sequence of
   pydrex.pathlines.get_pathline calls made in one process (extends Model_pathline_session.v, whose
   `sargs` does not contain the optional keyword arguments).

   * `opts`: the optional keyword arguments of ONE call that reach scipy.integrate.solve_ivp (atol, rtol,
     first_step, max_step, method ordinal; None = not passed), the number of keyword arguments that are
     dropped with a warning (events, jac, dense_output, args) and the number of other keyword arguments
     (t_eval, vectorized, ...), which are passed on as they are.
   * `request_of fl ms o` = the request vector (Model_pathlines.solver_request, the layout of the
     generated request kernels) of a call with final location fl, strain limit ms and options o: every
     option that is not passed takes the default of the SOURCE (atol 1e-8, rtol 1e-5, LSODA, no step
     sizes).
   * `requests m d calls`: the request vectors of a call history started with the process-wide defaults
     `d`.  Variant `Fresh` is the current source (the defaults are literals evaluated at every call:
     no state); variant `Sticky` keeps the effective options of a call as the defaults of the next one
     (the shape of seeded change C18e: a mutable default argument updated in place) -- it is here so that
     the proofs can say what the current source excludes.
   No proofs in this file. *)
From Coq Require Import ZArith List Bool.
From PV Require Import Num Model_pathlines.
Import ListNotations.

Section Options.
  Context {F : Num}.

  Record opts := mk_opts {
    o_atol : option F; o_rtol : option F; o_first : option F; o_max : option F;
    o_method : option Z; o_illegal : nat; o_other : nat }.

  Definition no_opts : opts := mk_opts None None None None None 0 0.

  Definition getd {X} (o : option X) (d : X) : X := match o with Some x => x | None => d end.
  Definition orelse {X} (a b : option X) : option X := match a with Some _ => a | None => b end.

  (* the options of a call laid over process-wide defaults (only what reaches solve_ivp is kept) *)
  Definition overlay (d o : opts) : opts :=
    mk_opts (orelse (o_atol o) (o_atol d)) (orelse (o_rtol o) (o_rtol d)) (orelse (o_first o) (o_first d))
            (orelse (o_max o) (o_max d)) (orelse (o_method o) (o_method d)) (o_illegal o) (o_other o + o_other d).

  (* entry 18 of the vector (number of other keyword arguments) is o_other *)
  Definition request_of (fl : list F) (ms : F) (o : opts) : list F :=
    [zero; t_forever; ofZ 2] ++ fl ++
    [getd (o_atol o) default_atol; getd (o_rtol o) default_rtol; ofZ (getd (o_method o) 5%Z); one; one; zero; one;
     one; one; one; getd (o_first o) zero; getd (o_max o) zero; ofZ (Z.of_nat (o_other o)); zero; ms;
     ofZ (Z.of_nat (o_illegal o))].

  Definition ocall : Type := (list F * F * opts)%type.          (* final_location, max_strain, options *)

  Inductive defaults_mode := Fresh | Sticky.

  (* one call: the process-wide defaults after it, and the request it hands to solve_ivp *)
  Definition ostep (m : defaults_mode) (d : opts) (c : ocall) : opts * list F :=
    let '(fl, ms, o) := c in
    match m with
    | Fresh => (d, request_of fl ms o)
    | Sticky => let e := overlay d o in (e, request_of fl ms e)
    end.

  Fixpoint requests (m : defaults_mode) (d : opts) (calls : list ocall) : list (list F) :=
    match calls with
    | [] => []
    | c :: cs => let '(d', r) := ostep m d c in r :: requests m d' cs
    end.

  Fixpoint defaults_after (m : defaults_mode) (d : opts) (calls : list ocall) : opts :=
    match calls with
    | [] => d
    | c :: cs => defaults_after m (fst (ostep m d c)) cs
    end.
End Options.
