(* Proofs_scsv_header.v -- `_yaml_quote` is exactly invertible, for every string over every alphabet
   (UTF-8 byte strings and code-point lists in particular); the string scalars of a written header
   are recoverable from its lines (group `scsv`, C16). *)
From Coq Require Import String Ascii List Bool NArith ZArith Lia.
From PV Require Import Model_scsv Model_scsv_header.
Import ListNotations.
Open Scope string_scope.

Section QuoteFacts.
  Variable A : Type.
  Variable eqb : A -> A -> bool.
  Variable q : A.
  Hypothesis eqb_spec : forall a b, eqb a b = true <-> a = b.

  Lemma eqb_refl_q : eqb q q = true.
  Proof. now apply eqb_spec. Qed.

  Lemma unesc_esc : forall s, unesc A eqb q (esc A eqb q s ++ [q])%list = Some s.
  Proof.
    induction s as [|c r IH]; simpl.
    - now rewrite eqb_refl_q.
    - destruct (eqb c q) eqn:E; simpl.
      + rewrite !eqb_refl_q, IH. simpl. apply eqb_spec in E. now subst.
      + now rewrite E, IH.
  Qed.

  (* reading back what was quoted gives the text: ANY text, whatever it contains *)
  Lemma unquote_quote : forall s, unquote A eqb q (quote A eqb q s) = Some s.
  Proof. intros s. unfold quote, unquote. rewrite eqb_refl_q. apply unesc_esc. Qed.

  (* ... and the quoted form is the only text that reads back as s *)
  Lemma unesc_exact : forall n t s, length t <= n -> unesc A eqb q t = Some s -> t = (esc A eqb q s ++ [q])%list.
  Proof.
    induction n as [|n IH]; intros t s Hn H.
    - destruct t; [discriminate|simpl in Hn; lia].
    - destruct t as [|c r]; [discriminate|]. simpl in H, Hn.
      destruct (eqb c q) eqn:E.
      + apply eqb_spec in E. subst c. destruct r as [|c' r'].
        * inversion H; subst. reflexivity.
        * destruct (eqb c' q) eqn:E'; [|discriminate]. apply eqb_spec in E'. subst c'.
          destruct (unesc A eqb q r') as [s'|] eqn:U; [|discriminate]. inversion H; subst.
          simpl. rewrite eqb_refl_q. simpl. f_equal. f_equal. apply IH; auto. simpl in Hn. lia.
      + destruct (unesc A eqb q r) as [s'|] eqn:U; [|discriminate]. inversion H; subst.
        simpl. rewrite E. simpl. f_equal. apply IH; auto. lia.
  Qed.

  Lemma unquote_exact : forall t s, unquote A eqb q t = Some s -> t = quote A eqb q s.
  Proof.
    intros t s H. destruct t as [|c r]; [discriminate|]. simpl in H.
    destruct (eqb c q) eqn:E; [|discriminate]. apply eqb_spec in E. subst c.
    unfold quote. f_equal. eapply unesc_exact; eauto.
  Qed.

  Lemma quote_injective : forall s s', quote A eqb q s = quote A eqb q s' -> s = s'.
  Proof.
    intros s s' H. pose proof (unquote_quote s) as U. rewrite H, unquote_quote in U. now inversion U.
  Qed.

  Lemma esc_app : forall a b, esc A eqb q (a ++ b)%list = (esc A eqb q a ++ esc A eqb q b)%list.
  Proof. induction a as [|c r IH]; intros b; simpl; [reflexivity|]. destruct (eqb c q); simpl; now rewrite IH. Qed.

  (* a text without the quote character is written verbatim between two quotes *)
  Lemma esc_id : forall s, forallb (fun c => negb (eqb c q)) s = true -> esc A eqb q s = s.
  Proof.
    induction s as [|c r IH]; simpl; intros H; [reflexivity|]. apply andb_true_iff in H. destruct H as [H1 H2].
    apply negb_true_iff in H1. rewrite H1, IH; auto.
  Qed.
End QuoteFacts.

(* ------------------------------------------------------------------ UTF-8 byte strings *)
Lemma ascii_eqb_spec : forall a b, Ascii.eqb a b = true <-> a = b.
Proof. intros. apply Ascii.eqb_eq. Qed.

Lemma yaml_unquote_quote : forall s, yaml_unquote (yaml_quote s) = Some s.
Proof.
  intros s. unfold yaml_unquote, yaml_quote. rewrite list_ascii_of_string_of_list_ascii.
  rewrite (unquote_quote ascii Ascii.eqb apostrophe ascii_eqb_spec). simpl.
  now rewrite string_of_list_ascii_of_string.
Qed.

Lemma yaml_unquote_exact : forall t s, yaml_unquote t = Some s -> t = yaml_quote s.
Proof.
  intros t s H. unfold yaml_unquote in H.
  destruct (unquote ascii Ascii.eqb apostrophe (list_ascii_of_string t)) as [l|] eqn:U; [|discriminate].
  inversion H; subst. apply (unquote_exact ascii Ascii.eqb apostrophe ascii_eqb_spec) in U.
  unfold yaml_quote. rewrite list_ascii_of_string_of_list_ascii, <- U. now rewrite string_of_list_ascii_of_string.
Qed.

Lemma yaml_quote_injective : forall s s', yaml_quote s = yaml_quote s' -> s = s'.
Proof.
  intros s s' H. pose proof (yaml_unquote_quote s) as U. rewrite H, yaml_unquote_quote in U. now inversion U.
Qed.

(* ------------------------------------------------------------------ code points, and UTF-8 between the two *)
Lemma N_eqb_spec : forall a b : N, N.eqb a b = true <-> a = b.
Proof. intros. apply N.eqb_eq. Qed.

Lemma cp_unquote_quote : forall s, cp_unquote (cp_quote s) = Some s.
Proof. intros. apply (unquote_quote N N.eqb 39%N N_eqb_spec). Qed.

Lemma cp_unquote_exact : forall t s, cp_unquote t = Some s -> t = cp_quote s.
Proof. intros. now apply (unquote_exact N N.eqb 39%N N_eqb_spec). Qed.

Lemma byte_not_apostrophe : forall k, (k < 256)%N -> k <> 39%N -> Ascii.eqb (byte k) apostrophe = false.
Proof.
  intros k Hk Hne. apply Ascii.eqb_neq. intro C. apply (f_equal N_of_ascii) in C.
  unfold byte in C. rewrite N_ascii_embedding in C by exact Hk. simpl in C. lia.
Qed.

(* no byte of a multi-byte sequence is the apostrophe; the apostrophe is the code point 39 *)
Lemma esc_utf8_cp : forall n, (n < 2097152)%N ->
  esc ascii Ascii.eqb apostrophe (utf8_cp n) = utf8 (esc N N.eqb 39%N [n]).
Proof.
  intros n Hn. simpl. destruct (N.eqb n 39) eqn:E.
  - apply N.eqb_eq in E. subst. reflexivity.
  - apply N.eqb_neq in E. simpl. rewrite app_nil_r. unfold utf8_cp.
    destruct (N.ltb n 128) eqn:L1.
    + apply N.ltb_lt in L1. cbn [esc]. rewrite byte_not_apostrophe by lia. reflexivity.
    + apply N.ltb_ge in L1. destruct (N.ltb n 2048) eqn:L2.
      * apply N.ltb_lt in L2. cbn [esc].
        assert (n / 64 < 32)%N by (apply N.div_lt_upper_bound; lia).
        assert (n mod 64 < 64)%N by (apply N.mod_lt; lia).
        set (a := (n / 64)%N) in *. set (b := (n mod 64)%N) in *.
        rewrite !byte_not_apostrophe by lia. reflexivity.
      * apply N.ltb_ge in L2. destruct (N.ltb n 65536) eqn:L3.
        -- apply N.ltb_lt in L3. cbn [esc].
           assert (n / 4096 < 16)%N by (apply N.div_lt_upper_bound; lia).
           assert ((n / 64) mod 64 < 64)%N by (apply N.mod_lt; lia).
           assert (n mod 64 < 64)%N by (apply N.mod_lt; lia).
           set (a := (n / 4096)%N) in *. set (b := ((n / 64) mod 64)%N) in *. set (c := (n mod 64)%N) in *.
           rewrite !byte_not_apostrophe by lia. reflexivity.
        -- cbn [esc].
           assert ((n / 262144) mod 8 < 8)%N by (apply N.mod_lt; lia).
           assert ((n / 4096) mod 64 < 64)%N by (apply N.mod_lt; lia).
           assert ((n / 64) mod 64 < 64)%N by (apply N.mod_lt; lia).
           assert (n mod 64 < 64)%N by (apply N.mod_lt; lia).
           set (a := ((n / 262144) mod 8)%N) in *. set (b := ((n / 4096) mod 64)%N) in *.
           set (c := ((n / 64) mod 64)%N) in *. set (d := (n mod 64)%N) in *.
           rewrite !byte_not_apostrophe by lia. reflexivity.
Qed.

Lemma utf8_app : forall a b, utf8 (a ++ b)%list = (utf8 a ++ utf8 b)%list.
Proof. intros. unfold utf8. apply flat_map_app. Qed.

(* quoting the UTF-8 bytes = UTF-8 of quoting the code points: the byte-level model IS the
   code-point-level function, for every code point of every plane *)
Lemma utf8_quote_commutes : forall s, Forall (fun n => (n < 2097152)%N) s ->
  quote ascii Ascii.eqb apostrophe (utf8 s) = utf8 (cp_quote s).
Proof.
  intros s H. unfold cp_quote, quote. change (39%N :: (esc N N.eqb 39%N s ++ [39%N])%list) with ([39%N] ++ (esc N N.eqb 39%N s ++ [39%N]))%list.
  rewrite !utf8_app. change (utf8 [39%N]) with [apostrophe]. simpl. f_equal. f_equal.
  induction H as [|n r Hn _ IH]; [reflexivity|].
  change (n :: r) with ([n] ++ r)%list. rewrite utf8_app, !esc_app, utf8_app, IH. f_equal.
  change (utf8 [n]) with (utf8_cp n ++ [])%list. rewrite app_nil_r. now apply esc_utf8_cp.
Qed.

(* ------------------------------------------------------------------ the written header *)
Lemma drop_prefix_app : forall p s, drop_prefix p (p ++ s) = Some s.
Proof. induction p as [|a p IH]; intros s; simpl; [reflexivity|]. now rewrite Ascii.eqb_refl. Qed.

Lemma scalar_of_line_quote : forall p s, scalar_of_line p (p ++ yaml_quote s) = Some s.
Proof. intros. unfold scalar_of_line. rewrite drop_prefix_app. apply yaml_unquote_quote. Qed.

Definition obind {A B} (o : option A) (f : A -> option B) : option B := match o with Some a => f a | None => None end.

Lemma comment_lines_length : forall cs, length (comment_lines cs) = length cs.
Proof. intros. unfold comment_lines. apply map_length. Qed.

(* the delimiter and the missing marker can be read off the written header, whatever they contain *)
Lemma header_delimiter_missing_recoverable : forall O cs s units ls,
  header_lines O cs s units = Ok ls ->
  exists d m, sdelim s = Some d /\ smissing s = Some m /\
    obind (nth_error ls (length cs + 1)) (scalar_of_line "  delimiter: ") = Some d /\
    obind (nth_error ls (length cs + 2)) (scalar_of_line "  missing: ") = Some m.
Proof.
  intros O cs s units ls H. unfold header_lines in H.
  destruct (validate_schema O s) as [v|e]; [|discriminate]. cbn [bind] in H. destruct v; [|discriminate]. cbn [negb] in H.
  destruct (sdelim s) as [d|]; [|discriminate]. destruct (smissing s) as [m|]; [|discriminate].
  destruct (sfields s) as [fs|]; [|discriminate].
  destruct (fields_lines O fs units) as [fl|e]; [|discriminate]. cbn [bind] in H. injection H as H. subst ls.
  exists d, m. split; [reflexivity|]. split; [reflexivity|].
  rewrite !nth_error_app2 by (rewrite comment_lines_length; lia). rewrite comment_lines_length.
  replace (length cs + 1 - length cs) with 1 by lia. replace (length cs + 2 - length cs) with 2 by lia.
  unfold head_lines. cbn [nth_error obind].
  split; [exact (scalar_of_line_quote "  delimiter: " d)|exact (scalar_of_line_quote "  missing: " m)].
Qed.

Lemma nth_last_aux : forall (a b : string) mid z,
  nth_error (a :: b :: (mid ++ [z])%list) (length (a :: b :: (mid ++ [z])%list) - 1) = Some z.
Proof.
  intros. replace (length (a :: b :: (mid ++ [z])%list) - 1) with (S (S (length mid)))
    by (cbn [length]; rewrite app_length; cbn [length]; lia).
  cbn [nth_error]. rewrite nth_error_app2 by lia. now rewrite Nat.sub_diag.
Qed.

(* so can every field name and every string fill *)
Lemma header_field_recoverable : forall O f u l,
  field_lines O f u = Ok l ->
  exists n, fname f = Some (YStr n) /\
    obind (nth_error l 0) (scalar_of_line "    - name: ") = Some n /\
    forall x, ffill f = Some (YStr x) -> obind (nth_error l (length l - 1)) (scalar_of_line "      fill: ") = Some x.
Proof.
  intros O f u l H. unfold field_lines in H.
  destruct (fname f) as [[| n | | | |]|]; try discriminate. exists n. split; [reflexivity|].
  destruct (ffill f) as [v|] eqn:Ef.
  - destruct (fill_text O v) as [t|e] eqn:Et; [|discriminate]. cbn [bind] in H. injection H as H. subst l.
    split; [exact (scalar_of_line_quote "    - name: " n)|]. intros x Hx. injection Hx as Hx. subst v.
    cbn [fill_text] in Et. injection Et as Et. subst t.
    rewrite nth_last_aux. cbn [obind].
    exact (scalar_of_line_quote "      fill: " x).
  - cbn [bind] in H. injection H as H. subst l.
    split; [exact (scalar_of_line_quote "    - name: " n)|]. intros x Hx. discriminate.
Qed.

(* ... and the unit of a field that has one (third line of its block), whatever characters it contains *)
Lemma header_unit_recoverable : forall O f u l,
  field_lines O f (Some u) = Ok l ->
  obind (nth_error l 2) (scalar_of_line "      unit: ") = Some u.
Proof.
  intros O f u l H. unfold field_lines in H.
  destruct (fname f) as [[| n | | | |]|]; try discriminate.
  destruct (match ffill f with Some v => t <- fill_text O v ;; Ok ["      fill: " ++ t] | None => Ok [] end) as [fl|e]; [|discriminate].
  cbn [bind] in H. injection H as H. subst l. cbn [unit_lines app nth_error obind].
  exact (scalar_of_line_quote "      unit: " u).
Qed.

(* non-vacuity and the shape of the written text, by computation: apostrophes, a 4-byte UTF-8 sequence
   (U+1F600), NEL (U+0085 = C2 85), the empty string *)
Definition hdrO : oracles :=
  mkO (fun _ => true) (fun _ => true) (fun _ => None) (fun _ => "0") (fun _ _ => "0j")
      (fun _ => Err EValue) (fun _ => Err EValue) (fun _ => Err EValue) (fun _ _ => false) (fun _ r => Ok r).

Lemma header_examples :
  yaml_quote "it's" = "'it''s'" /\ yaml_quote "" = "''" /\ yaml_quote "'" = "''''" /\
  utf8_cp 128512 = [byte 240; byte 159; byte 152; byte 128] /\ utf8_cp 133 = [byte 194; byte 133] /\
  cp_quote [128512%N; 39%N] = [39; 128512; 39; 39; 39]%N /\
  yaml_unquote "'a'b'" = None /\ yaml_unquote "'a" = None /\ yaml_unquote "a'" = None /\ yaml_unquote "''" = Some "" /\
  header_lines hdrO ["c"] (mkSchema (Some ",") (Some "n'a")
      (Some [mkField (Some (YStr "x")) None (Some (YStr "")); mkField (Some (YStr "y")) (Some "integer") (Some (YInt 0))]))
      [Some "km"; None] =
    Ok ["# c"; "schema:"; "  delimiter: ','"; "  missing: 'n''a'"; "  fields:";
        "    - name: 'x'"; "      type: string"; "      unit: 'km'"; "      fill: ''";
        "    - name: 'y'"; "      type: integer"; "      fill: 0"].
Proof. repeat split; vm_compute; reflexivity. Qed.
