(* Model_scsv_frame.v -- the line level of an SCSV file (C16): the loop of read_scsv that
   sorts the lines of the file into YAML header lines and CSV lines, the shape of the file
   save_scsv writes, and read_scsv on a file given as its list of lines.
   Literal transcription of /repo/src/pydrex/io.py:read_scsv

       is_yaml = False
       for line in fileref:
           if line == "\n": continue                  # Empty lines are skipped.
           if line == "---\n": is_yaml = not is_yaml; continue
           (yaml_lines if is_yaml else csv_lines).append(line)

   A `line` is what iterating a text-mode file yields: the text up to and including the
   (translated) line terminator "\n"; only the last line of a file can lack it.
   The comparisons are *exact*: a line of white space only (a row of empty cells in a
   tab-delimited file is "\t\n") is a CSV line, and so is "---\t\n" or "---" without
   terminator.  No proofs in this file. *)
From Coq Require Import String Ascii List Bool NArith.
From PV Require Import Model_scsv.
Import ListNotations.
Open Scope string_scope.

Definition LF : string := String (ascii_of_N 10%N) "".
Definition blank_line : string := LF.               (* "\n" *)
Definition fence_line : string := "---" ++ LF.      (* "---\n" *)

(* the lines the loop neither skips nor takes for a fence *)
Definition line_kept (l : string) : bool :=
  negb (String.eqb l blank_line) && negb (String.eqb l fence_line).

(* (yaml_lines, csv_lines) after the loop, started in state is_yaml *)
Fixpoint frame (is_yaml : bool) (lines : list string) : list string * list string :=
  match lines with
  | [] => ([], [])
  | l :: r =>
      if String.eqb l blank_line then frame is_yaml r
      else if String.eqb l fence_line then frame (negb is_yaml) r
      else let yc := frame is_yaml r in
           if is_yaml then (l :: fst yc, snd yc) else (fst yc, l :: snd yc)
  end.

(* the only state carried from line to line: is_yaml after the loop *)
Fixpoint frame_state (is_yaml : bool) (lines : list string) : bool :=
  match lines with
  | [] => is_yaml
  | l :: r => frame_state (if String.eqb l fence_line then negb is_yaml else is_yaml) r
  end.

(* what save_scsv writes: "---", the header lines, "---", one line (or more, for quoted
   line breaks) per row handed to csv.writer *)
Definition written_file (hdr body : list string) : list string :=
  fence_line :: (hdr ++ fence_line :: body)%list.

(* csv.writer -> file -> read_scsv's loop -> csv.reader, with the two csv halves as oracles
   W (rows -> lines) and R (lines -> rows) and the loop modelled *)
Definition transport_via_file (W : string -> list (list string) -> list string)
           (R : string -> list string -> res (list (list string)))
           (hdr : list string) (d : string) (rows : list (list string)) : res (list (list string)) :=
  R d (snd (frame false (written_file hdr (W d rows)))).

(* read_scsv on a file given by its lines.  load = yaml.safe_load(...)["schema"] of the
   joined header lines, reader = list(csv.reader(csv_lines, delimiter of the loaded header)) *)
Definition read_file (O : oracles) (load : list string -> yres)
           (reader : list string -> res (list (list string))) (lines : list string)
  : res (list string * list (list cell)) :=
  let yc := frame false lines in
  rows <- reader (snd yc) ;; read O (load (fst yc)) rows.

(* a csv.writer for rows that need no quoting: cells joined by the delimiter + "\n" *)
Fixpoint join_cells (d : string) (r : list string) : string :=
  match r with [] => "" | [x] => x | x :: r' => x ++ d ++ join_cells d r' end.
Definition toy_writer (d : string) (rows : list (list string)) : list string :=
  map (fun r => join_cells d r ++ LF) rows.

(* ... and the matching csv.reader for a one-byte delimiter *)
Fixpoint chomp (s : string) : string :=
  match s with
  | EmptyString => EmptyString
  | String c EmptyString => if Ascii.eqb c (ascii_of_N 10%N) then EmptyString else s
  | String c r => String c (chomp r)
  end.
Definition toy_reader (d : string) (lines : list string) : res (list (list string)) :=
  match d with
  | String c EmptyString => Ok (map (fun l => split_on (Ascii.eqb c) (chomp l)) lines)
  | _ => Err ECsv
  end.
