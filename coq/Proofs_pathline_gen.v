(* Proofs_pathline_gen.v -- the pathline theorems stated about the code GENERATED from
   pydrex/pathlines.py (gen/Gen_pathlines.v), obtained from the theorems about the list model through
   the instance lemmas of Inst_pathlines.v; plus what follows from the event semantics and from the
   request handed to solve_ivp when solve_ivp is an oracle. *)
From Coq Require Import Reals ZArith List Bool Lra Lia.
From PV Require Import Num NumR Model_pathlines Proofs_pathlines Inst_pathlines.
From PV.gen Require Import Gen_velocity_utils Gen_pathlines.
Import ListNotations.
Open Scope R_scope.

(* ------------------------------------------------------------------------- *)
(* _ivp_jac (model, any dimension)                                           *)
(* ------------------------------------------------------------------------- *)
Theorem ivp_jac_spec_proof (get_gradient : pointR -> res (arr R)) (pt mn mx : list R) :
  length pt = length mn -> length mn = length mx ->
  (in_box pt mn mx -> @ivp_jac NumR get_gradient mn mx pt = get_gradient pt) /\
  (~ in_box pt mn mx ->
     exists Z, @ivp_jac NumR get_gradient mn mx pt = Ok Z /\ forall k, Z k = 0).
Proof.
  intros H1 H2. destruct (proj1 (is_inside_spec pt mn mx) (conj H1 H2)) as (b & E & Hb).
  unfold ivp_jac. rewrite E. split; intros H.
  - destruct b; [reflexivity|]. apply Hb in H. discriminate.
  - destruct b; [exfalso; apply H, Hb; reflexivity|].
    eexists; split; [reflexivity|]. intros k. unfold mk_arr.
    change (@nzero NumR) with 0. change (T NumR) with R.
    generalize (length pt * length pt)%nat. intros n. revert k.
    induction n as [|n IH]; intros [|k]; cbn [repeat nth]; try reflexivity. apply IH.
Qed.

(* ------------------------------------------------------------------------- *)
(* the generated kernels at dimension 3                                      *)
(* ------------------------------------------------------------------------- *)
Section Gen3.
  Variables pt mn mx : list R.
  Hypothesis H1 : length pt = 3%nat.
  Hypothesis H2 : length mn = 3%nat.
  Hypothesis H3 : length mx = 3%nat.

  Lemma sizes_ok : length pt = length mn /\ length mn = length mx.
  Proof. rewrite H1, H2, H3. split; reflexivity. Qed.

  (* the generated _is_inside returns 1 exactly on the closed box, 0 elsewhere *)
  Theorem gen_is_inside_spec :
    (in_box pt mn mx -> @k_is_inside_n3 NumR (A pt) (A mn) (A mx) = 1) /\
    (~ in_box pt mn mx -> @k_is_inside_n3 NumR (A pt) (A mn) (A mx) = 0).
  Proof.
    pose proof (is_inside_inst_3 pt mn mx H1 H2 H3) as Hi.
    destruct (proj1 (is_inside_spec pt mn mx) sizes_ok) as (b & E & Hb).
    rewrite E in Hi. cbn [res_map] in Hi. injection Hi as Hi. rewrite <- Hi.
    split; intros H.
    - apply Hb in H. subst b. reflexivity.
    - destruct b; [exfalso; apply H, Hb; reflexivity|reflexivity].
  Qed.

  (* the generated right-hand side: the velocity callable applied to the point inside the box,
     (0, 0, 0) outside -- without applying the callable *)
  Theorem gen_ivp_func_spec (t : R) (gv : list R -> res (list R)) (gg : arr R -> res (arr R)) :
    (in_box pt mn mx ->
       @k_ivp_func_n3 NumR t (A pt) (lift_v 3 gv) gg (A mn) (A mx) = res_map A (gv pt)) /\
    (~ in_box pt mn mx ->
       @k_ivp_func_n3 NumR t (A pt) (lift_v 3 gv) gg (A mn) (A mx) = Ok (A [0; 0; 0])).
  Proof.
    rewrite (ivp_func_inst_3 t gv gg pt mn mx H1 H2 H3).
    destruct sizes_ok as [S1 S2].
    destruct (ivp_func_spec_proof gv pt mn mx S1 S2) as [Hin Hout]. split; intros H.
    - rewrite (Hin H). reflexivity.
    - destruct (Hout H) as (z & E & Hl & Hz). rewrite E. cbn [res_map]. do 2 f_equal.
      rewrite H1 in Hl. destruct z as [|a [|b [|c [|d z]]]]; try discriminate Hl.
      inversion Hz as [|? ? Ha Hz1]; subst. inversion Hz1 as [|? ? Hb Hz2]; subst.
      inversion Hz2 as [|? ? Hc _]; subst. reflexivity.
  Qed.

  (* the generated Jacobian handed to the solver: the gradient callable inside, zeros outside *)
  Theorem gen_ivp_jac_spec (t : R) (gv : arr R -> res (arr R)) (gg : list R -> res (arr R)) :
    (in_box pt mn mx ->
       @k_ivp_jac_n3 NumR t (A pt) gv (lift_g 3 gg) (A mn) (A mx) = gg pt) /\
    (~ in_box pt mn mx ->
       exists Z, @k_ivp_jac_n3 NumR t (A pt) gv (lift_g 3 gg) (A mn) (A mx) = Ok Z /\ forall k, Z k = 0).
  Proof.
    rewrite (ivp_jac_inst_3 t gv gg pt mn mx H1 H2 H3).
    destruct sizes_ok as [S1 S2]. exact (ivp_jac_spec_proof gg pt mn mx S1 S2).
  Qed.
End Gen3.

Lemma gen_is_inside_sizes (pt mn mx : arr R) :
  @k_is_inside_n3_3_2 NumR pt mn mx = Err AssertionError /\
  @k_is_inside_n3_2_3 NumR pt mn mx = Err AssertionError /\
  @k_is_inside_n2_3_3 NumR pt mn mx = Err AssertionError.
Proof. repeat split; reflexivity. Qed.

Lemma gen_timestamps_m3 (ts : list R) : length ts = 3%nat ->
  @k_post_m3_none NumR (A ts) = A (@timestamps NumR ts None) /\
  @k_post_m3_s2 NumR (A ts) = A (@timestamps NumR ts (Some 2%nat)) /\
  @k_post_m3_s0 NumR (A ts) = A [last ts 0].
Proof.
  intros H. split; [exact (post_inst_m3_none ts H)|]. split; [exact (post_inst_m3_s2 ts H)|].
  rewrite (post_inst_m3_s0 ts H). reflexivity.
Qed.

(* ------------------------------------------------------------------------- *)
(* the generated event closure over call histories                           *)
(* ------------------------------------------------------------------------- *)
Section GenEvent.
  Variable gv : arr R -> res (arr R).
  Variable gg : list R -> res (arr R).
  Variable eig : arr R -> R.
  Variables mn mx : list R.
  Hypothesis H2 : length mn = 3%nat.
  Hypothesis H3 : length mx = 3%nat.

  (* the Riemann sum of the strain rate over the partition given by the call times *)
  Fixpoint riemann (tp : R) (calls : list (R * list R)) : R :=
    match calls with
    | [] => 0
    | (t, x) :: cs => Rabs (t - tp) * rate gg eig x + riemann t cs
    end.

  Lemma back_values_last (calls : list (R * list R)) : forall tp s,
    last (back_values gg eig tp s calls) s = s - riemann tp calls.
  Proof.
    induction calls as [|[t x] cs IH]; intros tp s; cbn [back_values riemann]; cbv zeta.
    - cbn [last]. ring.
    - rewrite last_cons_default, IH. ring.
  Qed.

  (* along any monotonically backward history of in-domain calls, the generated closure (state
     threaded from call to call) returns max_strain minus the running Riemann sum, and ends with the
     state (last call time, max_strain - Riemann sum) *)
  Theorem gen_event_monotone (calls : list (R * list R)) (tp s : R) :
    Forall (fun c => length (snd c) = 3%nat) calls ->
    Forall (good_call gg mn mx) calls -> backward tp calls ->
    gen_event_run gv (lift_g 3 gg) eig (A mn) (A mx) tp s calls
    = Ok (last (map fst calls) tp, s - riemann tp calls, back_values gg eig tp s calls).
  Proof.
    intros HL HG HB. rewrite (gen_event_run_inst gv gg eig mn mx calls H2 H3 HL).
    destruct (event_monotone_calls_proof gg eig mn mx calls tp s HG HB) as (st & E & Hs & Ht).
    rewrite E. unfold res_map, run_out. cbn [fst snd].
    apply f_equal. apply f_equal2; [apply f_equal2; [exact Ht|]|reflexivity].
    rewrite <- (back_values_last calls tp s). exact Hs.
  Qed.

  Lemma riemann_nonneg (calls : list (R * list R)) : (forall L, 0 <= eig L) -> forall tp, 0 <= riemann tp calls.
  Proof.
    intros He. induction calls as [|[t x] cs IH]; intros tp; cbn [riemann]; [lra|].
    specialize (IH t). assert (0 <= rate gg eig x) by (unfold rate; destruct (gg x); [apply He|lra]).
    pose proof (Rabs_pos (t - tp)). nra.
  Qed.

  (* the strain bound that the event semantics gives: if the value the closure returned last is not
     below -max_strain/4 (the terminal event was located within a quarter of the limit), the Riemann
     sum of the strain rate along the calls is at most 1.25 max_strain; it equals max_strain exactly
     when the last value is 0 *)
  Theorem gen_event_strain_bound (calls : list (R * list R)) (ms : R) a b vs :
    Forall (fun c => length (snd c) = 3%nat) calls ->
    Forall (good_call gg mn mx) calls -> backward 0 calls ->
    gen_event_run gv (lift_g 3 gg) eig (A mn) (A mx) 0 ms calls = Ok (a, b, vs) ->
    b = ms - riemann 0 calls /\ last vs ms = b /\
    (- ms / 4 <= b -> riemann 0 calls <= 1.25 * ms) /\ (b = 0 -> riemann 0 calls = ms).
  Proof.
    intros HL HG HB E. rewrite (gen_event_monotone calls 0 ms HL HG HB) in E.
    injection E as <- <- <-. split; [reflexivity|]. split; [apply back_values_last|]. split; intros; lra.
  Qed.
End GenEvent.

(* ------------------------------------------------------------------------- *)
(* the request handed to solve_ivp, and what follows for the returned pathline *)
(* ------------------------------------------------------------------------- *)
Lemma t_forever_neg : @t_forever NumR < 0.
Proof. unfold t_forever. numR. lra. Qed.
Lemma default_tols : 0 < @default_atol NumR /\ 0 < @default_rtol NumR.
Proof. unfold default_atol, default_rtol. numR. split; lra. Qed.

(* get_pathline(final_location, u, L, min, max, max_strain) asks for: integration from t = 0
   backwards (t_span[1] < 0) starting AT final_location, LSODA with dense output, the analytic
   Jacobian _ivp_jac, right-hand side _ivp_func, both callables and the box passed on in this order,
   one terminal event without a direction whose state starts at (0, max_strain), positive default
   tolerances, no step-size options, no warning *)
Theorem gen_request_spec (fl mn mx : list R) (ms : R) : length fl = 3%nat ->
  let rq := @k_request_n3 NumR (A fl) (A mn) (A mx) ms in
  rq 0%nat = 0 /\ rq 1%nat < 0 /\ rq 2%nat = 2 /\ [rq 3%nat; rq 4%nat; rq 5%nat] = fl /\
  0 < rq 6%nat /\ 0 < rq 7%nat /\ rq 8%nat = 5 /\ rq 9%nat = 1 /\ rq 10%nat = 1 /\ rq 11%nat = 0 /\
  rq 12%nat = 1 /\ rq 13%nat = 1 /\ rq 14%nat = 1 /\ rq 15%nat = 1 /\ rq 16%nat = 0 /\ rq 17%nat = 0 /\
  rq 18%nat = 0 /\ rq 19%nat = 0 /\ rq 20%nat = ms /\ rq 21%nat = 0.
Proof.
  intros H rq. subst rq. rewrite (request_inst_3 fl mn mx ms H). explode fl H.
  cbv [request_default solver_request app mk_arr nth]. numR.
  pose proof t_forever_neg as Ht. pose proof default_tols as [Ha Hr].
  unfold t_forever, default_atol, default_rtol in *. numR.
  repeat split; try reflexivity; lra.
Qed.

(* optional keyword arguments: atol / rtol / first_step / max_step / method reach solve_ivp; events, jac,
   dense_output and args supplied by the caller do not (4 warnings): everything else is as above *)
Theorem gen_request_kw_spec (fl mn mx : list R) (ms atol rtol fs mxs : R) : length fl = 3%nat ->
  let rq := @k_request_kw_n3 NumR (A fl) (A mn) (A mx) ms atol rtol fs mxs in
  let rq0 := @k_request_n3 NumR (A fl) (A mn) (A mx) ms in
  rq 6%nat = atol /\ rq 7%nat = rtol /\ rq 8%nat = 3 /\ rq 16%nat = fs /\ rq 17%nat = mxs /\ rq 21%nat = 4 /\
  forall k, (k < 22)%nat -> k <> 6%nat -> k <> 7%nat -> k <> 8%nat -> k <> 16%nat -> k <> 17%nat -> k <> 21%nat ->
            rq k = rq0 k.
Proof.
  intros H rq rq0. subst rq rq0.
  rewrite (request_kw_inst_3 fl mn mx ms atol rtol fs mxs H), (request_inst_3 fl mn mx ms H). explode fl H.
  cbv [request_kw request_default solver_request app]. numR.
  repeat split; try reflexivity.
  intros k Hk. do 22 (destruct k as [|k]; [intros; try reflexivity; exfalso; auto|]). lia.
Qed.

(* solve_ivp as an oracle: `ts` = path.t, `sol` = path.sol.  Hypotheses (each is checked on the real
   routine at run time): the integration starts at t_span[0]; it proceeds towards t_span[1]; the
   dense output evaluated at the start reproduces y0.  All three are stated relative to the
   GENERATED request.  Conclusion: the returned time stamps are strictly increasing, end at 0, and
   the returned interpolant evaluated at the last time stamp is the requested final location. *)
Theorem pathline_ends_at_final_proof (fl mn mx : list R) (ms : R) (ts : list R) (sol : R -> list R)
        (steps : option nat) :
  length fl = 3%nat ->
  let rq := @k_request_n3 NumR (A fl) (A mn) (A mx) ms in
  hd 0 ts = rq 0%nat ->
  (rq 1%nat < rq 0%nat -> strictly_decreasing ts) ->
  sol (rq 0%nat) = [rq 3%nat; rq 4%nat; rq 5%nat] ->
  (2 <= length ts)%nat -> (steps = None \/ exists n, steps = Some n /\ (0 < n)%nat) ->
  let out := @timestamps NumR ts steps in
  strictly_increasing out /\ last out 0 = 0 /\ sol (last out 0) = fl.
Proof.
  intros Hl rq Hs Hd Hy Hlen Hst out.
  destruct (gen_request_spec fl mn mx ms Hl) as (R0 & R1 & _ & RY & _). fold rq in R0, R1, RY.
  rewrite R0 in Hs, Hy. rewrite RY in Hy. assert (Hdec : strictly_decreasing ts) by (apply Hd; lra).
  subst out. destruct Hst as [->|(n & -> & Hn)].
  - destruct (timestamps_solver_proof ts Hs Hdec) as (Hi & Hlast & _).
    split; [exact Hi|]. split; [exact Hlast|]. rewrite Hlast. exact Hy.
  - destruct (timestamps_regular_proof ts n Hn Hlen Hs Hdec) as (Hi & Hlast & _).
    split; [exact Hi|]. split; [exact Hlast|]. rewrite Hlast. exact Hy.
Qed.

(* non-vacuity of the oracle hypotheses: a solver that takes one step from 0 to -1 and whose dense
   output is constant *)
Lemma pathline_hypotheses_satisfiable :
  let fl := [1; 2; 3] in let ts := [0; -1] in let sol := fun _ : R => fl in
  let rq := @k_request_n3 NumR (A fl) (A [0; 0; 0]) (A [4; 4; 4]) 1 in
  hd 0 ts = rq 0%nat /\ (rq 1%nat < rq 0%nat -> strictly_decreasing ts) /\
  sol (rq 0%nat) = [rq 3%nat; rq 4%nat; rq 5%nat] /\ (2 <= length ts)%nat.
Proof.
  cbv zeta. destruct (gen_request_spec [1; 2; 3] [0; 0; 0] [4; 4; 4] 1 eq_refl) as (R0 & _ & _ & RY & _).
  rewrite R0, RY. split; [reflexivity|]. split; [|split; [reflexivity|cbn; lia]].
  intros _ i j Hij. cbn [length] in Hij.
  destruct i as [|i]; [destruct j as [|[|j]]; [lia|cbn [nth]; lra|lia]|lia].
Qed.

(* non-vacuity of the history theorems: two in-domain backward calls of dimension 3 *)
Definition toy_gradient3 (x : pointR) : res (arr R) :=
  Ok (mk_arr 0 [0; 0; 2 * hd 0 x; 0; 0; 0; 0; 0; 0]).

Lemma event_history_hypotheses_satisfiable :
  let calls := [(-1, [1 / 2; 0; 0]); (-2, [1 / 4; 0; 0])] in
  Forall (fun c : R * list R => length (snd c) = 3%nat) calls /\
  Forall (good_call toy_gradient3 [-1; -1; -1] [1; 1; 1]) calls /\ backward 0 calls /\
  riemann toy_gradient3 toy_eigmax 0 calls = 3 / 4.
Proof.
  cbv zeta.
  assert (I : forall a : R, -1 <= a <= 1 -> @is_inside NumR [a; 0; 0] [-1; -1; -1] [1; 1; 1] = Ok true).
  { intros a Ha. unfold is_inside; cbn [length Nat.eqb andb negb any2]. numR.
    repeat match goal with |- context [Rltb ?p ?q] => destruct (Rltb p q) eqn:?; bool2prop; try lra end.
    reflexivity. }
  split; [repeat constructor|]. split.
  - repeat constructor; cbn [snd]; try (apply I; lra); eexists; reflexivity.
  - split; [cbn; lra|].
    cbn [riemann]. unfold rate, toy_gradient3, toy_eigmax, mk_arr. cbn [nth hd].
    unfold Rabs. repeat destruct Rcase_abs; lra.
Qed.
