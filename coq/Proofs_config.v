(* Proofs_config.v -- specification predicates and lemmas for C19 (group `config`).
   The theorems are about the variant v_fixed (behaviour after fixes/C19-config-errors.patch);
   the `_refuted` lemmas exhibit, for each recorded defect, a configuration on which the
   corresponding single-defect variant violates the clause. *)
From Coq Require Import Floats ZArith String List Bool Ascii Lia.
From PV.gen Require Import Gen_tables_params.
From PV Require Import Model_config.
Import ListNotations.
Open Scope string_scope.

(* generated tables stay folded under simpl / cbn *)
Opaque phase_members.
Opaque fabric_members.
Opaque phase_attr_junk.
Opaque velocity_factories.
Opaque default_params.
Opaque defaults_asdict.
Opaque n_coefficients.
Opaque sum_tolerance.
Opaque sum_target.
Opaque input_get_defaults.
Opaque output_get_defaults.
Arguments phase_of_int : simpl never.
Arguments phase_of_name : simpl never.
Arguments sum_ok : simpl never.

(* ------------------------------------------------------------------ dictionaries *)
Lemma get_dset_same : forall k v t, get k (dset k v t) = Some v.
Proof.
  induction t as [|[k' v'] r IH]; simpl.
  - now rewrite String.eqb_refl.
  - destruct (String.eqb k k') eqn:E; simpl; rewrite ?String.eqb_refl, ?E; auto.
Qed.

Lemma get_dset_other : forall k k' v t, String.eqb k k' = false -> get k (dset k' v t) = get k t.
Proof.
  induction t as [|[k2 v2] r IH]; simpl; intros E.
  - now rewrite E.
  - destruct (String.eqb k' k2) eqn:E2; simpl.
    + apply String.eqb_eq in E2; subst. now rewrite E.
    + destruct (String.eqb k k2); auto.
Qed.

Lemma getd_dset_same : forall k v t d, getd k (dset k v t) d = v.
Proof. intros; unfold getd; now rewrite get_dset_same. Qed.
Lemma getd_dset_other : forall k k' v t d, String.eqb k k' = false -> getd k (dset k' v t) d = getd k t d.
Proof. intros; unfold getd; now rewrite get_dset_other. Qed.
Lemma mem_dset_same : forall k v t, mem k (dset k v t) = true.
Proof. intros; unfold mem; now rewrite get_dset_same. Qed.
Lemma mem_dset_other : forall k k' v t, String.eqb k k' = false -> mem k (dset k' v t) = mem k t.
Proof. intros; unfold mem; now rewrite get_dset_other. Qed.

(* the defaults loop, by induction over the list of (key, default) pairs: afterwards every
   key of the list is bound, to the supplied value if there was one and to the default
   otherwise; this is what quantifies over all subsets of omitted keys *)
Lemma with_defaults_get : forall d p k,
  get k (with_defaults d p) =
  match get k d with Some dv => Some (getd k p dv) | None => get k p end.
Proof.
  unfold with_defaults.
  induction d as [|[k0 d0] r IH]; intros p k; [reflexivity|].
  cbn [fold_left fst snd]. rewrite IH. cbn [get].
  destruct (String.eqb k k0) eqn:E.
  - apply String.eqb_eq in E; subst k0.
    assert (G : get k (dset k (getd k p d0) p) = Some (getd k p d0)) by apply get_dset_same.
    destruct (get k r).
    + f_equal. unfold getd at 1. now rewrite G.
    + exact G.
  - assert (G : get k (dset k0 (getd k0 p d0) p) = get k p) by (apply get_dset_other; exact E).
    destruct (get k r).
    + f_equal. unfold getd at 1 3. now rewrite G.
    + exact G.
Qed.

Definition dflt (k : string) : value := getd k defaults_asdict VNone.
Definition eff (k : string) (p : table) : value := getd k p (dflt k).

Lemma getd_with_defaults : forall k p,
  mem k defaults_asdict = true -> getd k (with_defaults defaults_asdict p) VNone = eff k p.
Proof.
  intros k p H.
  assert (W := with_defaults_get defaults_asdict p k).
  unfold mem in H. unfold eff, dflt.
  destruct (get k defaults_asdict) as [dv|] eqn:G; [|discriminate].
  unfold getd. rewrite W, G. unfold getd. reflexivity.
Qed.

Lemma get_with_defaults_omitted : forall k d p,
  get k defaults_asdict = Some d -> get k p = None -> get k (with_defaults defaults_asdict p) = Some d.
Proof. intros k d p H N. rewrite with_defaults_get, H. unfold getd. now rewrite N. Qed.

Lemma get_with_defaults_supplied : forall k d v p,
  get k defaults_asdict = Some d -> get k p = Some v -> get k (with_defaults defaults_asdict p) = Some v.
Proof. intros k d v p H N. rewrite with_defaults_get, H. unfold getd. now rewrite N. Qed.

Lemma Forall2_len : forall {A B} (R : A -> B -> Prop) l l', Forall2 R l l' -> length l = length l'.
Proof. induction 1; simpl; congruence. Qed.

(* ------------------------------------------------------------------ monad *)
Lemma mapM_ok_length : forall {A B} (f : A -> cres B) l r, mapM f l = COk r -> length r = length l.
Proof.
  induction l as [|x l IH]; simpl; intros r H.
  - now inversion H.
  - destruct (f x); simpl in H; [|discriminate]. destruct (mapM f l); simpl in H; [|discriminate].
    inversion H; subst; simpl. f_equal. now apply IH.
Qed.

Lemma mapM_ok_forall : forall {A B} (f : A -> cres B) (P : B -> Prop) l r,
  (forall x y, f x = COk y -> P y) -> mapM f l = COk r -> Forall P r.
Proof.
  induction l as [|x l IH]; simpl; intros r HP H.
  - inversion H; constructor.
  - destruct (f x) eqn:E; simpl in H; [|discriminate]. destruct (mapM f l) eqn:E2; simpl in H; [|discriminate].
    inversion H; subst. constructor; eauto.
Qed.

(* ------------------------------------------------------------------ phases, fabric *)
Definition is_phase (v : value) : Prop :=
  exists n z, v = VEnum "MineralPhase" n z /\ get_member n phase_members = Some z.
Definition is_fabric (v : value) : Prop :=
  exists n z, v = VEnum "MineralFabric" n z /\ get_member n fabric_members = Some z.
Definition phase_val (v : value) : Z := match v with VEnum _ _ z => z | _ => (-1)%Z end.

(* what a supplied (or default) entry of phase_assemblage may be, and the member it denotes *)
Inductive denotes_phase : value -> Z -> Prop :=
| dp_name : forall s z, get_member s phase_members = Some z -> denotes_phase (VStr s) z
| dp_int : forall z n, member_of_val z phase_members = Some n -> denotes_phase (VInt z) z
| dp_enum : forall n z, get_member n phase_members = Some z -> denotes_phase (VEnum "MineralPhase" n z) z.

Lemma member_of_val_sound : forall t z n, member_of_val z t = Some n -> exists z', get_member n t = Some z'.
Proof.
  induction t as [|[k v] r IH]; simpl; intros z n H; [discriminate|].
  destruct (Z.eqb z v).
  - inversion H; subst. rewrite String.eqb_refl. eauto.
  - destruct (String.eqb n k); eauto.
Qed.

(* the generated table is a bijection name <-> value (checked by computation) *)
Definition table_injective (t : list (string * Z)) : bool :=
  forallb (fun kv => match member_of_val (snd kv) t with
                     | Some n => String.eqb n (fst kv) | None => false end
                     && match get_member (fst kv) t with Some z => Z.eqb z (snd kv) | None => false end) t.
Lemma phase_members_injective : table_injective phase_members = true.
Proof. vm_compute. reflexivity. Qed.

Lemma get_member_in : forall t n z, get_member n t = Some z -> In (n, z) t.
Proof.
  induction t as [|[k v] r IH]; simpl; intros n z H; [discriminate|].
  destruct (String.eqb n k) eqn:E.
  - apply String.eqb_eq in E; inversion H; subst; auto.
  - right; auto.
Qed.

Lemma member_of_val_get : forall z n,
  member_of_val z phase_members = Some n -> get_member n phase_members = Some z.
Proof.
  intros z n H.
  assert (F := phase_members_injective). unfold table_injective in F. rewrite forallb_forall in F.
  assert (I : exists z', In (n, z') phase_members /\ z' = z).
  { clear F. revert H. generalize phase_members. induction l as [|[k v] r IH]; simpl; intros H; [discriminate|].
    destruct (Z.eqb z v) eqn:E.
    - inversion H; subst. apply Z.eqb_eq in E; subst. eauto.
    - destruct (IH H) as [z' [I1 I2]]. eauto. }
  destruct I as [z' [I1 I2]]. subst z'.
  specialize (F _ I1). cbv beta in F. cbn [fst snd] in F. apply andb_true_iff in F. destruct F as [_ F].
  destruct (get_member n phase_members) as [z0|]; [|discriminate F]. apply Z.eqb_eq in F. now subst.
Qed.

Lemma parse_phase_fixed_sound : forall v r, parse_phase v_fixed v = COk r -> is_phase r.
Proof.
  intros v r H. destruct v; simpl in H; try discriminate.
  - (* VInt *) unfold phase_of_int in H. destruct (member_of_val z phase_members) eqn:E; [|discriminate].
    inversion H; subst. exists s, z. split; auto. now apply member_of_val_get.
  - (* VStr *) unfold phase_of_name in H. destruct (get_member s phase_members) eqn:E.
    + inversion H; subst. exists s, z. auto.
    + simpl in H. discriminate.
  - (* VBool *) unfold phase_of_int in H.
    destruct (member_of_val (if b then 1%Z else 0%Z) phase_members) eqn:E; [|discriminate].
    inversion H; subst. eexists _, _. split; eauto. now apply member_of_val_get.
  - (* VEnum *) destruct (String.eqb cls "MineralPhase") eqn:C.
    + apply String.eqb_eq in C; subst cls.
      destruct (get_member name phase_members) eqn:E; [|discriminate].
      destruct (Z.eqb val z) eqn:Z1; [|discriminate]. apply Z.eqb_eq in Z1; subst.
      inversion H; subst. exists name, z. auto.
    + unfold phase_of_int in H. destruct (member_of_val val phase_members) eqn:E; [|discriminate].
      inversion H; subst. exists s, val. split; auto. now apply member_of_val_get.
Qed.

Lemma parse_phase_denotes : forall v z, denotes_phase v z ->
  exists r, parse_phase v_fixed v = COk r /\ is_phase r /\ phase_val r = z.
Proof.
  intros v z H. destruct H; simpl.
  - unfold phase_of_name. rewrite H. eexists; repeat split. exists s, z; auto.
  - unfold phase_of_int. rewrite H. eexists; repeat split. exists n, z; split; auto. now apply member_of_val_get.
  - rewrite H, Z.eqb_refl. eexists; repeat split. exists n, z; auto.
Qed.

Lemma mapM_parse_phase_denotes : forall l zs, Forall2 denotes_phase l zs ->
  exists phs, mapM (parse_phase v_fixed) l = COk phs /\ Forall is_phase phs /\ map phase_val phs = zs.
Proof.
  induction 1 as [|v z l zs H F IH]; simpl.
  - exists []; repeat split; constructor.
  - destruct (parse_phase_denotes _ _ H) as [r [E [P1 P2]]]. destruct IH as [phs [E2 [F2 M]]].
    rewrite E; simpl. rewrite E2; simpl. exists (r :: phs). repeat split; [constructor; auto|simpl; congruence].
Qed.

(* in v_fixed an element that is not an enum constant either parses or raises ConfigError *)
Definition not_enum (v : value) : Prop := match v with VEnum _ _ _ => False | _ => True end.
Lemma parse_phase_fixed_dichotomy : forall v, not_enum v ->
  (exists r, parse_phase v_fixed v = COk r) \/ parse_phase v_fixed v = CErr ConfigError.
Proof.
  intros v N. destruct v; simpl in *; auto; try contradiction.
  - unfold phase_of_int. destruct (member_of_val z phase_members); simpl; eauto.
  - unfold phase_of_name. destruct (get_member s phase_members); simpl; eauto.
  - unfold phase_of_int. destruct (member_of_val _ phase_members); simpl; eauto.
Qed.

Lemma mapM_parse_phase_fault : forall l,
  Forall not_enum l -> Exists (fun v => parse_phase v_fixed v = CErr ConfigError) l ->
  mapM (parse_phase v_fixed) l = CErr ConfigError.
Proof.
  induction l as [|v l IH]; intros F E; [inversion E|].
  inversion F as [|? ? N F']; subst. simpl.
  destruct (parse_phase_fixed_dichotomy v N) as [[r Hr]|Hr]; rewrite Hr; simpl; auto.
  inversion E as [? ? B|? ? B]; subst; [congruence|].
  rewrite (IH F' B). reflexivity.
Qed.

(* ------------------------------------------------------------------ [parameters] *)
Definition list_of (v : value) (l : list value) : Prop := v = VList l \/ v = VTuple l.

Definition fractions_ok (p : table) (n : nat) : Prop :=
  exists l xs, list_of (eff "phase_fractions" p) l /\ nums l = Some xs /\ sum_ok v_fixed xs = true /\ length l = n.
Definition assemblage_ok (p : table) (zs : list Z) : Prop :=
  exists l, list_of (eff "phase_assemblage" p) l /\ Forall2 denotes_phase l zs.
Definition fabric_ok (p : table) : Prop :=
  (exists s z, eff "initial_olivine_fabric" p = VStr s /\ get_member ("olivine_" ++ s) fabric_members = Some z) \/
  (exists n z, eff "initial_olivine_fabric" p = VEnum "MineralFabric" n z /\ get_member n fabric_members = Some z).
Definition coefficients_ok (p : table) : Prop :=
  exists l, list_of (eff "disl_coefficients" p) l /\ length l = n_coefficients.

(* a [parameters] table whose supplied values are valid; zs = the simulated phases *)
Record wf_params (p : table) (zs : list Z) : Prop := mk_wf_params {
  wp_fr : fractions_ok p (length zs);
  wp_pa : assemblage_ok p zs;
  wp_fab : fabric_ok p;
  wp_co : coefficients_ok p }.

Lemma defaults_have_keys :
  mem "phase_fractions" defaults_asdict = true /\ mem "phase_assemblage" defaults_asdict = true /\
  mem "initial_olivine_fabric" defaults_asdict = true /\ mem "disl_coefficients" defaults_asdict = true.
Proof. vm_compute. repeat split. Qed.

Lemma check_fractions_ok : forall v l xs, list_of v l -> nums l = Some xs -> sum_ok v_fixed xs = true ->
  check_fractions v_fixed v = COk tt.
Proof. intros v l xs [->| ->] N S; simpl; now rewrite N, S. Qed.
Lemma check_fractions_bad : forall v l xs, list_of v l -> nums l = Some xs -> sum_ok v_fixed xs = false ->
  check_fractions v_fixed v = CErr ConfigError.
Proof. intros v l xs [->| ->] N S; simpl; now rewrite N, S. Qed.
Lemma len_of_list : forall v l, list_of v l -> len_of v = COk (length l).
Proof. intros v l [->| ->]; reflexivity. Qed.
Lemma seq_of_list : forall v l, list_of v l -> seq_of v = COk l.
Proof. intros v l [->| ->]; reflexivity. Qed.

Lemma parse_fabric_ok : forall p, fabric_ok p ->
  exists f, parse_fabric (eff "initial_olivine_fabric" p) = COk f /\ is_fabric f.
Proof.
  intros p [[s [z [E M]]]|[n [z [E M]]]]; rewrite E; unfold parse_fabric.
  - rewrite M. eexists; split; eauto. eexists _, _; eauto.
  - rewrite String.eqb_refl, M, Z.eqb_refl. eexists; split; eauto. eexists _, _; eauto.
Qed.

Lemma parse_coefficients_ok : forall v l, list_of v l -> length l = n_coefficients ->
  parse_coefficients v = COk (VTuple l).
Proof.
  intros v l L E. unfold parse_coefficients. rewrite (len_of_list _ _ L). simpl.
  rewrite E, Nat.eqb_refl. simpl. destruct L as [->| ->]; reflexivity.
Qed.

Ltac str_neq := reflexivity.

Lemma params_ok : forall p zs, wf_params p zs ->
  exists p' phs, parse_params_table v_fixed p = COk p' /\
    assemblage_of p' = phs /\ Forall is_phase phs /\ map phase_val phs = zs.
Proof.
  intros p zs [[lf [xs [Lf [N [S Len]]]]] [la [La D]] Fab [lc [Lc Ec]]].
  destruct defaults_have_keys as [K1 [K2 [K3 K4]]].
  unfold parse_params_table.
  rewrite (getd_with_defaults _ p K1), (getd_with_defaults _ p K2).
  rewrite (check_fractions_ok _ _ _ Lf N S). simpl.
  rewrite (len_of_list _ _ La), (len_of_list _ _ Lf). simpl.
  assert (LL : length la = length lf). { rewrite Len. eapply Forall2_len; eauto. }
  rewrite LL, Nat.eqb_refl. simpl.
  rewrite (seq_of_list _ _ La). simpl.
  destruct (mapM_parse_phase_denotes _ _ D) as [phs [M [FP MV]]]. rewrite M. simpl.
  rewrite getd_dset_other by str_neq. rewrite (getd_with_defaults _ p K3).
  destruct (parse_fabric_ok _ Fab) as [f [PF _]]. rewrite PF. simpl.
  rewrite getd_dset_other by str_neq. rewrite getd_dset_other by str_neq.
  rewrite (getd_with_defaults _ p K4).
  rewrite (parse_coefficients_ok _ _ Lc Ec). simpl.
  eexists _, phs. split; [reflexivity|]. split; auto.
  unfold assemblage_of. rewrite get_dset_other by str_neq. rewrite get_dset_other by str_neq.
  now rewrite get_dset_same.
Qed.

(* omitted [parameters] keys keep the value of DefaultParams().as_dict(); no hypothesis on the
   supplied values: any successful parse has this property *)
Lemma default_assemblage_canonical :
  exists l, get "phase_assemblage" defaults_asdict = Some (VTuple l) /\ mapM (parse_phase v_fixed) l = COk l.
Proof. eexists; split; vm_compute; reflexivity. Qed.
Lemma default_fabric_canonical :
  exists f, get "initial_olivine_fabric" defaults_asdict = Some f /\ parse_fabric f = COk f.
Proof. eexists; split; vm_compute; reflexivity. Qed.
Lemma default_coefficients_canonical :
  exists l, get "disl_coefficients" defaults_asdict = Some (VTuple l) /\ parse_coefficients (VTuple l) = COk (VTuple l).
Proof. eexists; split; vm_compute; reflexivity. Qed.

Lemma getd_get : forall k t d v, get k t = Some v -> getd k t d = v.
Proof. intros; unfold getd; now rewrite H. Qed.

Lemma params_defaults : forall p p' k d,
  parse_params_table v_fixed p = COk p' ->
  get k defaults_asdict = Some d -> get k p = None -> get k p' = Some d.
Proof.
  intros p p' k d H D N.
  assert (W : get k (with_defaults defaults_asdict p) = Some d) by (apply get_with_defaults_omitted; auto).
  unfold parse_params_table in H.
  destruct (check_fractions _ _); simpl in H; [|discriminate].
  destruct (len_of _); simpl in H; [|discriminate].
  destruct (len_of _); simpl in H; [|discriminate].
  destruct (negb _); [discriminate|].
  destruct (seq_of _) as [elems|] eqn:SQ; simpl in H; [|discriminate].
  destruct (mapM _ elems) as [phs|] eqn:M; simpl in H; [|discriminate].
  destruct (parse_fabric _) as [fab|] eqn:PF; simpl in H; [|discriminate].
  destruct (parse_coefficients _) as [co|] eqn:PC; simpl in H; [|discriminate].
  inversion H; subst p'; clear H.
  rewrite getd_dset_other in PF by reflexivity.
  rewrite getd_dset_other in PC by reflexivity. rewrite getd_dset_other in PC by reflexivity.
  destruct (String.eqb k "disl_coefficients") eqn:E1.
  { apply String.eqb_eq in E1; subst k. rewrite get_dset_same.
    destruct default_coefficients_canonical as [l [G C]]. rewrite G in D. inversion D; subst d.
    rewrite (getd_get _ _ _ _ W) in PC. rewrite C in PC. now inversion PC. }
  rewrite get_dset_other by exact E1.
  destruct (String.eqb k "initial_olivine_fabric") eqn:E2.
  { apply String.eqb_eq in E2; subst k. rewrite get_dset_same.
    destruct default_fabric_canonical as [f [G C]]. rewrite G in D. inversion D; subst d.
    rewrite (getd_get _ _ _ _ W) in PF. rewrite C in PF. now inversion PF. }
  rewrite get_dset_other by exact E2.
  destruct (String.eqb k "phase_assemblage") eqn:E3.
  { apply String.eqb_eq in E3; subst k. rewrite get_dset_same.
    destruct default_assemblage_canonical as [l [G C]]. rewrite G in D. inversion D; subst d.
    rewrite (getd_get _ _ _ _ W) in SQ. simpl in SQ. inversion SQ; subst elems.
    rewrite C in M. now inversion M. }
  rewrite get_dset_other by exact E3. exact W.
Qed.

(* ------------------------------------------------------------------ [input] *)
Definition num_if_present (k : string) (i : table) : Prop := forall v, get k i = Some v -> is_num v = true.
Definition is_str (v : value) : Prop := exists s, v = VStr s.

Record wf_input (i : table) : Prop := mk_wf_input {
  wi_required : mem "timestep" i = true \/ mem "paths" i = true;
  wi_timestep : num_if_present "timestep" i;
  wi_strain : num_if_present "strain_final" i;
  (* input option 1: mesh + final locations *)
  wi_mesh : mem "mesh" i = true ->
            exists m l, get "mesh" i = Some (VStr m) /\ get "locations_final" i = Some (VStr l);
  (* input option 2: velocity gradient callable + initial locations *)
  wi_callable : mem "mesh" i = false -> mem "velocity_gradient" i = true ->
            exists f args l, get "velocity_gradient" i = Some (VList (VStr f :: args)) /\
                             in_strs f velocity_factories = true /\ get "locations_initial" i = Some (VStr l);
  (* input option 3: pathline files *)
  wi_paths : mem "mesh" i = false -> mem "velocity_gradient" i = false -> mem "paths" i = true ->
            exists ps, get "paths" i = Some (VList ps) /\ Forall is_str ps }.

Lemma input_defaults_numeric :
  is_num (input_default "timestep") = true /\ is_num (input_default "strain_final") = true.
Proof. vm_compute. split; reflexivity. Qed.

Lemma numeric_default : forall k i, num_if_present k i -> is_num (input_default k) = true ->
  is_num (getd k i (input_default k)) = true.
Proof. intros k i H D. unfold getd. destruct (get k i) eqn:G; auto. Qed.

Lemma input_common_ok : forall V toml i, get "input" toml = Some (VTable i) -> wf_input i ->
  parse_input_common V toml =
  COk (dset "strain_final" (getd "strain_final" (dset "timestep" (getd "timestep" i (input_default "timestep")) i)
                                 (input_default "strain_final"))
            (dset "timestep" (getd "timestep" i (input_default "timestep")) i)).
Proof.
  intros V toml i G W. destruct W as [R T S _ _ _]. destruct input_defaults_numeric as [D1 D2].
  unfold parse_input_common. rewrite G.
  assert (RB : negb (mem "timestep" i) && negb (mem "paths" i) = false).
  { destruct R as [-> | ->]; simpl; auto. now rewrite andb_false_r. }
  rewrite RB. rewrite getd_dset_same.
  unfold numeric_or_raise. rewrite (numeric_default _ _ T D1). simpl.
  rewrite getd_dset_same.
  assert (S' : is_num (getd "strain_final" (dset "timestep" (getd "timestep" i (input_default "timestep")) i)
                          (input_default "strain_final")) = true).
  { rewrite getd_dset_other by reflexivity. apply numeric_default; auto. }
  rewrite S'. reflexivity.
Qed.

Lemma mapM_load_ok : forall tag ps, Forall is_str ps ->
  exists ls, mapM (load tag) ps = COk ls.
Proof.
  induction 1 as [|v l [s ->] F [ls IH]].
  - exists []. reflexivity.
  - exists (VOpaque tag [VOpaque "path" [VStr s]] :: ls).
    cbn [mapM]. unfold load at 1. cbn [resolve cbind]. rewrite IH. reflexivity.
Qed.

(* the keys the mode selection looks at are untouched by parse_input_common *)
Definition common_of (i : table) : table :=
  dset "strain_final" (getd "strain_final" (dset "timestep" (getd "timestep" i (input_default "timestep")) i)
                             (input_default "strain_final"))
       (dset "timestep" (getd "timestep" i (input_default "timestep")) i).

Lemma common_get : forall k i, String.eqb k "strain_final" = false -> String.eqb k "timestep" = false ->
  get k (common_of i) = get k i.
Proof. intros. unfold common_of. rewrite get_dset_other by auto. now rewrite get_dset_other by auto. Qed.
Lemma common_mem : forall k i, String.eqb k "strain_final" = false -> String.eqb k "timestep" = false ->
  mem k (common_of i) = mem k i.
Proof. intros. unfold mem. now rewrite common_get. Qed.

Lemma mode_ok : forall i, wf_input i -> exists i', parse_mode (common_of i) = COk i'.
Proof.
  intros i [_ _ _ M C P]. unfold parse_mode.
  rewrite (common_mem "mesh") by reflexivity.
  destruct (mem "mesh" i) eqn:EM.
  - destruct (M eq_refl) as [m [l [G1 G2]]].
    unfold getd. rewrite (common_get "mesh") by reflexivity. rewrite G1.
    unfold load at 1. simpl. rewrite get_dset_other by reflexivity.
    rewrite (common_get "locations_final") by reflexivity. rewrite G2.
    unfold load. simpl. eauto.
  - rewrite (common_mem "velocity_gradient") by reflexivity.
    destruct (mem "velocity_gradient" i) eqn:EV.
    + destruct (C eq_refl eq_refl) as [f [args [l [G1 [G2 G3]]]]].
      unfold getd. rewrite (common_get "velocity_gradient") by reflexivity. rewrite G1, G2.
      rewrite get_dset_other by reflexivity.
      rewrite (common_get "locations_initial") by reflexivity. rewrite G3.
      unfold load. simpl. eauto.
    + rewrite (common_mem "paths") by reflexivity.
      destruct (mem "paths" i) eqn:EP.
      * destruct (P eq_refl eq_refl eq_refl) as [ps [G1 F]].
        unfold getd. rewrite (common_get "paths") by reflexivity. rewrite G1.
        destruct (mapM_load_ok "np.load" ps F) as [ls ->]. simpl. eauto.
      * eauto.
Qed.

(* ------------------------------------------------------------------ [output] *)
Ltac bind_ok H x E :=
  match type of H with
  | cbind ?a _ = COk _ => destruct a as [x|] eqn:E; [cbn [cbind] in H|discriminate H]
  end.

Definition simulated (phs : list value) (x : value) : Prop := is_phase x /\ existsb (phase_eqb x) phs = true.

Lemma phase_eqb_self : forall x, is_phase x -> phase_eqb x x = true.
Proof. intros x [n [z [-> _]]]. simpl. apply Z.eqb_refl. Qed.

Lemma simulated_self : forall phs, Forall is_phase phs -> Forall (simulated phs) phs.
Proof.
  intros phs F. apply Forall_forall. intros x I. split.
  - rewrite Forall_forall in F; auto.
  - apply existsb_exists. exists x. split; auto. apply phase_eqb_self. rewrite Forall_forall in F; auto.
Qed.

Lemma output_phase_sound : forall e r, output_phase v_fixed e = COk r -> is_phase r.
Proof.
  intros e r H. destruct e; simpl in H; try discriminate.
  unfold phase_of_name in H. destruct (get_member s phase_members) eqn:E; [|simpl in H; discriminate].
  inversion H; subst. exists s, z; auto.
Qed.

Lemma output_options_other : forall V o lvl a o' k,
  output_options V o lvl a = COk o' -> String.eqb k lvl = false -> get k o' = get k o.
Proof.
  intros V o lvl a o' k H E. unfold output_options in H.
  destruct (get lvl o).
  - destruct (cbind _ _) as [phs| [] ]; try discriminate.
    + destruct (forallb _ phs); [|discriminate]. inversion H; subst. now apply get_dset_other.
    + destruct (v_getattr V); discriminate.
  - inversion H; subst. now apply get_dset_other.
Qed.

Lemma output_options_sound : forall o lvl phs o',
  Forall is_phase phs -> output_options v_fixed o lvl phs = COk o' ->
  exists l, get lvl o' = Some (VList l) /\ Forall (simulated phs) l /\ (get lvl o = None -> l = phs).
Proof.
  intros o lvl phs o' F H. unfold output_options in H.
  destruct (get lvl o) eqn:G.
  - destruct (cbind _ _) as [rs| [] ] eqn:B; try discriminate.
    + destruct (forallb _ rs) eqn:FB; [|discriminate]. inversion H; subst.
      exists rs. rewrite get_dset_same. split; auto. split; [|discriminate].
      destruct (seq_of v) as [elems|] eqn:SQ; [|discriminate B]. cbn [cbind] in B.
      assert (P : Forall is_phase rs) by (eapply mapM_ok_forall; [apply output_phase_sound|exact B]).
      rewrite forallb_forall in FB. apply Forall_forall. intros x I. split.
      * rewrite Forall_forall in P; auto.
      * auto.
  - inversion H; subst. exists phs. rewrite get_dset_same. split; auto. split; auto.
    now apply simulated_self.
Qed.

Definition output_names_ok (k : string) (o : table) (zs : list Z) : Prop :=
  forall v, get k o = Some v ->
  exists names, v = VList (map VStr names) /\
                Forall (fun s => exists z, get_member s phase_members = Some z /\ In z zs) names.

Record wf_output (o : table) (zs : list Z) : Prop := mk_wf_output {
  wo_dir : forall v, get "directory" o = Some v -> is_str v;
  wo_raw : output_names_ok "raw_output" o zs;
  wo_diag : output_names_ok "diagnostics" o zs }.

Lemma mapM_output_names : forall phs names,
  Forall is_phase phs ->
  Forall (fun s => exists z, get_member s phase_members = Some z /\ In z (map phase_val phs)) names ->
  exists rs, mapM (output_phase v_fixed) (map VStr names) = COk rs /\
             forallb (fun p => existsb (phase_eqb p) phs) rs = true.
Proof.
  intros phs names FP. induction 1 as [|s names [z [M I]] F [rs [IH1 IH2]]].
  - exists []. split; reflexivity.
  - exists (VEnum "MineralPhase" s z :: rs). split.
    + cbn [map mapM output_phase]. unfold phase_of_name. rewrite M. cbn [cbind]. rewrite IH1. reflexivity.
    + cbn [forallb]. rewrite IH2, andb_true_r.
      apply in_map_iff in I. destruct I as [x [PV IX]].
      apply existsb_exists. exists x. split; auto.
      rewrite Forall_forall in FP. destruct (FP _ IX) as [n [z' [-> _]]]. simpl in PV. subst. simpl. apply Z.eqb_refl.
Qed.

Lemma output_options_total : forall o lvl phs,
  Forall is_phase phs -> output_names_ok lvl o (map phase_val phs) ->
  exists o', output_options v_fixed o lvl phs = COk o'.
Proof.
  intros o lvl phs FP N. unfold output_options.
  destruct (get lvl o) eqn:G; [|eauto].
  destruct (N _ G) as [names [-> F]].
  cbn [seq_of cbind]. destruct (mapM_output_names _ _ FP F) as [rs [-> ->]]. eauto.
Qed.

Lemma output_names_ok_other : forall k k' v o zs, String.eqb k k' = false ->
  output_names_ok k o zs -> output_names_ok k (dset k' v o) zs.
Proof. intros k k' v o zs E H x G. rewrite get_dset_other in G by auto. auto. Qed.

Lemma output_ok : forall toml o phs i,
  output_table toml = COk o -> Forall is_phase phs -> wf_output o (map phase_val phs) ->
  exists o', parse_output v_fixed toml phs i = COk o'.
Proof.
  intros toml o phs i T FP [D R G]. unfold parse_output. rewrite T. cbn [cbind].
  assert (DD : exists dir, match get "directory" o with Some d => resolve d | None => COk (VOpaque "cwd" []) end = COk dir).
  { destruct (get "directory" o) eqn:E; eauto. destruct (D _ eq_refl) as [s ->]. simpl. eauto. }
  destruct DD as [dir ->]. cbn [cbind].
  destruct (output_options_total (dset "directory" dir o) "raw_output" phs FP) as [o1 E1].
  { apply output_names_ok_other; auto. }
  rewrite E1. cbn [cbind].
  destruct (output_options_total o1 "diagnostics" phs FP) as [o2 E2].
  { intros v Gv. rewrite (output_options_other _ _ _ _ _ _ E1) in Gv by reflexivity.
    rewrite get_dset_other in Gv by reflexivity. auto. }
  rewrite E2. cbn [cbind]. eauto.
Qed.

(* what parse_output leaves in the table *)
Lemma output_final_get : forall V toml phs i of_,
  parse_output V toml phs i = COk of_ ->
  exists o dir o1 o2,
    output_table toml = COk o /\
    match get "directory" o with Some d => resolve d | None => COk (VOpaque "cwd" []) end = COk dir /\
    output_options V (dset "directory" dir o) "raw_output" phs = COk o1 /\
    output_options V o1 "diagnostics" phs = COk o2 /\
    (forall k, String.eqb k "anisotropy" = false -> String.eqb k "paths" = false -> String.eqb k "log_level" = false ->
               get k of_ = get k o2) /\
    get "anisotropy" of_ = Some (getd "anisotropy" o2 (output_default "anisotropy")) /\
    get "log_level" of_ = Some (getd "log_level" o2 (output_default "log_level")) /\
    (get "paths" o2 = None -> get "paths" of_ = Some (output_default "paths")).
Proof.
  intros V toml phs i of_ H. unfold parse_output in H.
  bind_ok H o T. bind_ok H dir Dd. bind_ok H o1 E1. bind_ok H o2 E2.
  exists o, dir, o1, o2. repeat (split; [reflexivity || assumption|]).
  inversion H; subst of_; clear H.
  set (oa := dset "anisotropy" (getd "anisotropy" o2 (output_default "anisotropy")) o2).
  set (ob := if _ && mem "paths" oa then dset "paths" VNone oa else oa).
  assert (OB : forall k, String.eqb k "paths" = false -> get k ob = get k oa).
  { intros k E. unfold ob. destruct (_ && _); auto. now apply get_dset_other. }
  split; [|split; [|split]].
  - intros k A P L. rewrite get_dset_other by auto. rewrite get_dset_other by auto.
    rewrite OB by auto. unfold oa. now rewrite get_dset_other by auto.
  - rewrite get_dset_other by reflexivity. rewrite get_dset_other by reflexivity.
    rewrite OB by reflexivity. unfold oa. now rewrite get_dset_same.
  - rewrite get_dset_same. f_equal. unfold getd.
    rewrite get_dset_other by reflexivity. rewrite OB by reflexivity.
    unfold oa. now rewrite get_dset_other by reflexivity.
  - intros N. rewrite get_dset_other by reflexivity. rewrite get_dset_same. f_equal.
    assert (MA : mem "paths" oa = false).
    { unfold mem, oa. rewrite get_dset_other by reflexivity. now rewrite N. }
    unfold ob. rewrite MA, andb_false_r. unfold getd.
    unfold mem in MA. destruct (get "paths" oa); [discriminate|reflexivity].
Qed.

(* ------------------------------------------------------------------ parse_config: totality *)
Record wf_config (toml : table) (zs : list Z) : Prop := mk_wf_config {
  wc_params : exists p, params_table toml = COk p /\ wf_params p zs;
  wc_input : exists i, get "input" toml = Some (VTable i) /\ wf_input i;
  wc_output : exists o, output_table toml = COk o /\ wf_output o zs }.

Lemma parse_total : forall toml zs, wf_config toml zs -> exists cfg, parse_config v_fixed toml = COk cfg.
Proof.
  intros toml zs [[p [TP WP]] [i [TI WI]] [o [TO WO]]].
  destruct (params_ok _ _ WP) as [p' [phs [PP [A [FP MV]]]]].
  unfold parse_config, parse_params. rewrite TP. cbn [cbind]. rewrite PP. cbn [cbind].
  rewrite (input_common_ok _ _ _ TI WI). cbn [cbind].
  destruct (mode_ok _ WI) as [i' MI]. unfold common_of in MI. rewrite MI. cbn [cbind].
  rewrite A. subst zs.
  destruct (output_ok toml o phs i' TO FP WO) as [o' ->]. cbn [cbind]. eauto.
Qed.

(* ------------------------------------------------------------------ parse_config: defaults *)
Lemma config_stages : forall V toml cfg, parse_config V toml = COk cfg ->
  exists p0 i0,
    params_table toml = COk p0 /\ parse_params_table V p0 = COk (c_params cfg) /\
    parse_input_common V toml = COk i0 /\ parse_mode i0 = COk (c_input cfg) /\
    parse_output V toml (assemblage_of (c_params cfg)) (c_input cfg) = COk (c_output cfg) /\
    c_name cfg = getd "name" toml (VOpaque "random_name" []).
Proof.
  intros V toml cfg H. unfold parse_config in H.
  bind_ok H p P. bind_ok H i0 I0. bind_ok H i Im. bind_ok H o PO.
  unfold parse_params in P. bind_ok P p0 T.
  inversion H; subst cfg; simpl. exists p0, i0. repeat split; auto.
Qed.

Lemma defaults_parameters : forall toml cfg p k d,
  parse_config v_fixed toml = COk cfg -> params_table toml = COk p ->
  get k defaults_asdict = Some d -> get k p = None -> get k (c_params cfg) = Some d.
Proof.
  intros toml cfg p k d H T D N.
  destruct (config_stages _ _ _ H) as [p0 [i0 [T' [P _]]]]. rewrite T in T'. inversion T'; subst p0.
  eapply params_defaults; eauto.
Qed.

Lemma documented_output_defaults :
  output_default "anisotropy" = VList [VStr "Voigt"; VStr "hexaxis"; VStr "moduli"; VStr "%decomp"] /\
  output_default "paths" = VNone /\ output_default "log_level" = VStr "WARNING".
Proof. vm_compute. repeat split. Qed.

Lemma documented_input_defaults :
  input_default "timestep" = VFloat nan /\ input_default "strain_final" = VFloat infinity.
Proof. vm_compute. split; reflexivity. Qed.

Lemma defaults_output : forall toml cfg o,
  parse_config v_fixed toml = COk cfg -> output_table toml = COk o ->
  (get "directory" o = None -> get "directory" (c_output cfg) = Some (VOpaque "cwd" [])) /\
  (get "raw_output" o = None -> get "raw_output" (c_output cfg) = Some (VList (assemblage_of (c_params cfg)))) /\
  (get "diagnostics" o = None -> get "diagnostics" (c_output cfg) = Some (VList (assemblage_of (c_params cfg)))) /\
  (get "anisotropy" o = None ->
     get "anisotropy" (c_output cfg) = Some (VList [VStr "Voigt"; VStr "hexaxis"; VStr "moduli"; VStr "%decomp"])) /\
  (get "paths" o = None -> get "paths" (c_output cfg) = Some VNone) /\
  (get "log_level" o = None -> get "log_level" (c_output cfg) = Some (VStr "WARNING")).
Proof.
  intros toml cfg o H T.
  destruct (config_stages _ _ _ H) as [p0 [i0 [_ [_ [_ [_ [PO _]]]]]]].
  destruct (output_final_get _ _ _ _ _ PO) as [o' [dir [o1 [o2 [T' [Dd [E1 [E2 [K [KA [KL KP]]]]]]]]]]].
  rewrite T in T'. inversion T'; subst o'. clear T'.
  destruct documented_output_defaults as [DA [DP DL]].
  assert (G2 : forall k, String.eqb k "diagnostics" = false -> String.eqb k "raw_output" = false ->
               String.eqb k "directory" = false -> get k o2 = get k o).
  { intros k A B C. rewrite (output_options_other _ _ _ _ _ _ E2) by auto.
    rewrite (output_options_other _ _ _ _ _ _ E1) by auto. now apply get_dset_other. }
  repeat split.
  - intros N. rewrite K by reflexivity. rewrite (output_options_other _ _ _ _ _ _ E2) by reflexivity.
    rewrite (output_options_other _ _ _ _ _ _ E1) by reflexivity. rewrite get_dset_same.
    rewrite N in Dd. now inversion Dd.
  - intros N. rewrite K by reflexivity. rewrite (output_options_other _ _ _ _ _ _ E2) by reflexivity.
    unfold output_options in E1. rewrite get_dset_other in E1 by reflexivity. rewrite N in E1.
    inversion E1; subst o1. now rewrite get_dset_same.
  - intros N. rewrite K by reflexivity.
    unfold output_options in E2. rewrite (output_options_other _ _ _ _ _ _ E1) in E2 by reflexivity.
    rewrite get_dset_other in E2 by reflexivity. rewrite N in E2.
    inversion E2; subst o2. now rewrite get_dset_same.
  - intros N. rewrite KA. unfold getd. rewrite G2 by reflexivity. now rewrite N, DA.
  - intros N. rewrite KP; [now rewrite DP|]. rewrite G2 by reflexivity. exact N.
  - intros N. rewrite KL. unfold getd. rewrite G2 by reflexivity. now rewrite N, DL.
Qed.

Lemma input_common_shape : forall V toml i i0,
  parse_input_common V toml = COk i0 -> get "input" toml = Some (VTable i) -> i0 = common_of i.
Proof.
  intros V toml i i0 H G. unfold parse_input_common in H. rewrite G in H.
  destruct (_ && _); [discriminate|].
  bind_ok H u1 E1. bind_ok H u2 E2. inversion H. reflexivity.
Qed.

Definition mode_keys := ["mesh"; "locations_final"; "locations_initial"; "velocity_gradient"; "paths"].

Lemma load_ok_inv : forall tag v r, load tag v = COk r -> True. Proof. auto. Qed.

Lemma mode_shape : forall i0 i',
  parse_mode i0 = COk i' ->
  (forall k, in_strs k mode_keys = false -> get k i' = get k i0) /\
  (mem "mesh" i0 = true ->
     get "velocity_gradient" i' = Some VNone /\ get "locations_initial" i' = Some VNone /\ get "paths" i' = Some VNone) /\
  (mem "mesh" i0 = false -> mem "velocity_gradient" i0 = true ->
     get "locations_final" i' = Some VNone /\ get "paths" i' = Some VNone /\ get "mesh" i' = Some VNone) /\
  (mem "mesh" i0 = false -> mem "velocity_gradient" i0 = false -> mem "paths" i0 = true ->
     get "locations_initial" i' = Some VNone /\ get "locations_final" i' = Some VNone /\ get "mesh" i' = Some VNone) /\
  (mem "mesh" i0 = false -> mem "velocity_gradient" i0 = false -> mem "paths" i0 = false ->
     get "paths" i' = Some VNone).
Proof.
  intros i0 i' H.
  assert (NK : forall k, in_strs k mode_keys = false ->
          String.eqb k "mesh" = false /\ String.eqb k "locations_final" = false /\ String.eqb k "locations_initial" = false
          /\ String.eqb k "velocity_gradient" = false /\ String.eqb k "paths" = false).
  { intros k E. unfold in_strs, mode_keys in E. cbn [existsb] in E.
    repeat (apply orb_false_iff in E; destruct E as [? E]). repeat split; auto. }
  unfold parse_mode in H.
  destruct (mem "mesh" i0) eqn:EM.
  - bind_ok H m Lm. destruct (get "locations_final" _) eqn:GL; [|discriminate]. bind_ok H l Ll.
    inversion H; subst i'; clear H.
    split; [|split; [|split; [|split]]]; try (intros; discriminate).
    + intros k E. destruct (NK k E) as [A [B [C [D F]]]].
      repeat (rewrite get_dset_other by assumption). reflexivity.
    + intros _. repeat split.
      * rewrite get_dset_other by reflexivity. rewrite get_dset_other by reflexivity. now rewrite get_dset_same.
      * rewrite get_dset_other by reflexivity. now rewrite get_dset_same.
      * now rewrite get_dset_same.
  - destruct (mem "velocity_gradient" i0) eqn:EV.
    + destruct (getd "velocity_gradient" i0 VNone) as [| | | | | [|[] args] | | | | |] eqn:GV; try discriminate.
      destruct (in_strs s velocity_factories); [|discriminate].
      destruct (get "locations_initial" _) eqn:GL; [|discriminate]. bind_ok H l Ll.
      inversion H; subst i'; clear H.
      split; [|split; [|split; [|split]]]; try (intros; discriminate).
      * intros k E. destruct (NK k E) as [A [B [C [D F]]]].
        repeat (rewrite get_dset_other by assumption). reflexivity.
      * intros _ _. repeat split.
        -- rewrite get_dset_other by reflexivity. rewrite get_dset_other by reflexivity. now rewrite get_dset_same.
        -- rewrite get_dset_other by reflexivity. now rewrite get_dset_same.
        -- now rewrite get_dset_same.
    + destruct (mem "paths" i0) eqn:EP.
      * destruct (getd "paths" i0 VNone) eqn:GP; try discriminate. bind_ok H ls Lp.
        inversion H; subst i'; clear H.
        split; [|split; [|split; [|split]]]; try (intros; discriminate).
        -- intros k E. destruct (NK k E) as [A [B [C [D F]]]].
           repeat (rewrite get_dset_other by assumption). reflexivity.
        -- intros _ _ _. repeat split.
           ++ rewrite get_dset_other by reflexivity. rewrite get_dset_other by reflexivity. now rewrite get_dset_same.
           ++ rewrite get_dset_other by reflexivity. now rewrite get_dset_same.
           ++ now rewrite get_dset_same.
      * inversion H; subst i'; clear H.
        split; [|split; [|split; [|split]]]; try (intros; discriminate).
        -- intros k E. destruct (NK k E) as [A [B [C [D F]]]]. now rewrite get_dset_other by assumption.
        -- intros _ _ _. now rewrite get_dset_same.
Qed.

Lemma defaults_input : forall toml cfg i,
  parse_config v_fixed toml = COk cfg -> get "input" toml = Some (VTable i) ->
  (get "strain_final" i = None -> get "strain_final" (c_input cfg) = Some (VFloat infinity)) /\
  (get "timestep" i = None -> get "timestep" (c_input cfg) = Some (VFloat nan)) /\
  (forall v, get "strain_final" i = Some v -> get "strain_final" (c_input cfg) = Some v) /\
  (forall v, get "timestep" i = Some v -> get "timestep" (c_input cfg) = Some v).
Proof.
  intros toml cfg i H G.
  destruct (config_stages _ _ _ H) as [p0 [i0 [_ [_ [IC [M _]]]]]].
  rewrite (input_common_shape _ _ _ _ IC G) in M.
  destruct (mode_shape _ _ M) as [K _].
  destruct documented_input_defaults as [DT DS].
  rewrite (K "strain_final") by reflexivity. rewrite (K "timestep") by reflexivity.
  unfold common_of. rewrite get_dset_same. rewrite get_dset_other by reflexivity. rewrite get_dset_same.
  rewrite getd_dset_other by reflexivity. unfold getd. rewrite DT, DS.
  repeat split; intros; rewrite H0; reflexivity.
Qed.

Lemma defaults_input_mode : forall toml cfg i,
  parse_config v_fixed toml = COk cfg -> get "input" toml = Some (VTable i) ->
  (mem "mesh" i = true ->
     get "velocity_gradient" (c_input cfg) = Some VNone /\ get "locations_initial" (c_input cfg) = Some VNone /\
     get "paths" (c_input cfg) = Some VNone) /\
  (mem "mesh" i = false -> mem "velocity_gradient" i = true ->
     get "locations_final" (c_input cfg) = Some VNone /\ get "paths" (c_input cfg) = Some VNone /\
     get "mesh" (c_input cfg) = Some VNone) /\
  (mem "mesh" i = false -> mem "velocity_gradient" i = false -> mem "paths" i = true ->
     get "locations_initial" (c_input cfg) = Some VNone /\ get "locations_final" (c_input cfg) = Some VNone /\
     get "mesh" (c_input cfg) = Some VNone) /\
  (mem "mesh" i = false -> mem "velocity_gradient" i = false -> mem "paths" i = false ->
     get "paths" (c_input cfg) = Some VNone).
Proof.
  intros toml cfg i H G.
  destruct (config_stages _ _ _ H) as [p0 [i0 [_ [_ [IC [M _]]]]]].
  rewrite (input_common_shape _ _ _ _ IC G) in M.
  destruct (mode_shape _ _ M) as [_ S].
  rewrite !(common_mem "mesh"), !(common_mem "velocity_gradient"), !(common_mem "paths") in S by reflexivity.
  exact S.
Qed.

(* ------------------------------------------------------------------ invariants of every parsed configuration *)
Lemma get_with_defaults_eff : forall k p,
  mem k defaults_asdict = true -> get k (with_defaults defaults_asdict p) = Some (eff k p).
Proof.
  intros k p H. rewrite with_defaults_get. unfold mem in H. unfold eff, dflt.
  destruct (get k defaults_asdict) eqn:G; [|discriminate]. unfold getd. now rewrite G.
Qed.

Lemma chars_length : forall s, length (chars s) = String.length s.
Proof. intros s. unfold chars. rewrite map_length. induction s; simpl; auto. Qed.

Lemma len_seq : forall v n l, len_of v = COk n -> seq_of v = COk l -> length l = n.
Proof.
  intros v n l H1 H2. destruct v; simpl in *; try discriminate;
    inversion H1; inversion H2; subst; auto using chars_length.
Qed.

Lemma check_fractions_inv : forall fr n, check_fractions v_fixed fr = COk tt -> len_of fr = COk n ->
  exists l xs, list_of fr l /\ nums l = Some xs /\ sum_ok v_fixed xs = true /\ length l = n.
Proof.
  intros fr n H L. destruct fr; simpl in H, L; try discriminate.
  - destruct (nums l) as [xs|] eqn:N; [|discriminate]. destruct (sum_ok v_fixed xs) eqn:S; [|discriminate].
    inversion L. exists l, xs. repeat split; auto. now left.
  - destruct (nums l) as [xs|] eqn:N; [|discriminate]. destruct (sum_ok v_fixed xs) eqn:S; [|discriminate].
    inversion L. exists l, xs. repeat split; auto. now right.
Qed.

Lemma parse_fabric_sound : forall v r, parse_fabric v = COk r -> is_fabric r.
Proof.
  intros v r H. destruct v; simpl in H; try discriminate.
  - destruct (get_member _ fabric_members) eqn:E; [|discriminate]. inversion H; subst. eexists _, _; eauto.
  - destruct (String.eqb cls "MineralFabric") eqn:C; [|discriminate]. apply String.eqb_eq in C; subst.
    destruct (get_member name fabric_members) eqn:E; [|discriminate].
    destruct (Z.eqb val z) eqn:Z1; [|discriminate]. apply Z.eqb_eq in Z1; subst.
    inversion H; subst. eexists _, _; eauto.
Qed.

Definition params_invariant (p' : table) : Prop :=
  exists phs frv frs xs fab,
    get "phase_assemblage" p' = Some (VTuple phs) /\ get "phase_fractions" p' = Some frv /\
    list_of frv frs /\ length phs = length frs /\            (* equal-length phase and fraction lists *)
    nums frs = Some xs /\ sum_ok v_fixed xs = true /\        (* |np.sum(fractions) - 1.0| <= 1e-16 in binary64 *)
    Forall is_phase phs /\                                    (* enumeration-typed phases *)
    get "initial_olivine_fabric" p' = Some fab /\ is_fabric fab.

Lemma params_invariants : forall p p', parse_params_table v_fixed p = COk p' -> params_invariant p'.
Proof.
  intros p p' H. destruct defaults_have_keys as [K1 [K2 [K3 K4]]].
  unfold parse_params_table in H.
  rewrite (getd_with_defaults _ p K1), (getd_with_defaults _ p K2) in H.
  destruct (check_fractions _ _) as [[]|] eqn:CF; cbn [cbind] in H; [|discriminate].
  destruct (len_of (eff "phase_assemblage" p)) as [la|] eqn:LA; cbn [cbind] in H; [|discriminate].
  destruct (len_of (eff "phase_fractions" p)) as [lf|] eqn:LF; cbn [cbind] in H; [|discriminate].
  destruct (Nat.eqb la lf) eqn:EQ; cbn [negb] in H; [|discriminate]. apply Nat.eqb_eq in EQ. subst lf.
  destruct (seq_of _) as [elems|] eqn:SQ; cbn [cbind] in H; [|discriminate].
  destruct (mapM _ elems) as [phs|] eqn:M; cbn [cbind] in H; [|discriminate].
  destruct (parse_fabric _) as [fab|] eqn:PF; cbn [cbind] in H; [|discriminate].
  destruct (parse_coefficients _) as [co|] eqn:PC; cbn [cbind] in H; [|discriminate].
  inversion H; subst p'; clear H.
  destruct (check_fractions_inv _ _ CF LF) as [l [xs [L [N [S Len]]]]].
  exists phs, (eff "phase_fractions" p), l, xs, fab. repeat split; auto.
  - rewrite get_dset_other by reflexivity. rewrite get_dset_other by reflexivity. now rewrite get_dset_same.
  - rewrite get_dset_other by reflexivity. rewrite get_dset_other by reflexivity.
    rewrite get_dset_other by reflexivity. now apply get_with_defaults_eff.
  - rewrite (mapM_ok_length _ _ _ M). rewrite (len_seq _ _ _ LA SQ). auto.
  - eapply mapM_ok_forall; [apply parse_phase_fixed_sound|exact M].
  - rewrite get_dset_other by reflexivity. now rewrite get_dset_same.
  - eapply parse_fabric_sound; eauto.
Qed.

Lemma parsed_invariants : forall toml cfg, parse_config v_fixed toml = COk cfg ->
  params_invariant (c_params cfg) /\
  (exists l, get "raw_output" (c_output cfg) = Some (VList l) /\ Forall (simulated (assemblage_of (c_params cfg))) l) /\
  (exists l, get "diagnostics" (c_output cfg) = Some (VList l) /\ Forall (simulated (assemblage_of (c_params cfg))) l).
Proof.
  intros toml cfg H.
  destruct (config_stages _ _ _ H) as [p0 [i0 [_ [P [_ [_ [PO _]]]]]]].
  assert (PI := params_invariants _ _ P). split; auto.
  destruct (output_final_get _ _ _ _ _ PO) as [o [dir [o1 [o2 [_ [_ [E1 [E2 [K _]]]]]]]]].
  assert (FP : Forall is_phase (assemblage_of (c_params cfg))).
  { destruct PI as [phs [frv [frs [xs [fab [GA [_ [_ [_ [_ [_ [FPh _]]]]]]]]]]]]. unfold assemblage_of. now rewrite GA. }
  destruct (output_options_sound _ _ _ _ FP E1) as [l1 [G1 [S1 _]]].
  destruct (output_options_sound _ _ _ _ FP E2) as [l2 [G2 [S2 _]]].
  split.
  - exists l1. split; auto. rewrite K by reflexivity.
    rewrite (output_options_other _ _ _ _ _ _ E2) by reflexivity. exact G1.
  - exists l2. split; auto. rewrite K by reflexivity. exact G2.
Qed.

(* ------------------------------------------------------------------ single faults raise ConfigError *)
Inductive unknown_phase : value -> Prop :=
| up_name : forall s, get_member s phase_members = None -> unknown_phase (VStr s)
| up_int : forall z, member_of_val z phase_members = None -> unknown_phase (VInt z)
| up_float : forall f, unknown_phase (VFloat f)
| up_list : forall l, unknown_phase (VList l)
| up_table : forall t, unknown_phase (VTable t)
| up_none : unknown_phase VNone.

Lemma unknown_phase_rejected : forall v, unknown_phase v -> parse_phase v_fixed v = CErr ConfigError.
Proof.
  intros v H. destruct H; simpl; auto.
  - unfold phase_of_name. now rewrite H.
  - unfold phase_of_int. now rewrite H.
Qed.

Lemma params_stage : forall toml p e,
  params_table toml = COk p -> parse_params_table v_fixed p = CErr e -> parse_config v_fixed toml = CErr e.
Proof. intros toml p e T H. unfold parse_config, parse_params. rewrite T. cbn [cbind]. now rewrite H. Qed.

Lemma fault_sum : forall toml p l xs,
  params_table toml = COk p -> list_of (eff "phase_fractions" p) l -> nums l = Some xs ->
  sum_ok v_fixed xs = false -> parse_config v_fixed toml = CErr ConfigError.
Proof.
  intros toml p l xs T L N S. apply (params_stage _ _ _ T).
  destruct defaults_have_keys as [K1 [K2 _]]. unfold parse_params_table.
  rewrite (getd_with_defaults _ p K1). now rewrite (check_fractions_bad _ _ _ L N S).
Qed.

Lemma fault_length : forall toml p l xs n,
  params_table toml = COk p -> list_of (eff "phase_fractions" p) l -> nums l = Some xs ->
  sum_ok v_fixed xs = true -> len_of (eff "phase_assemblage" p) = COk n -> n <> length l ->
  parse_config v_fixed toml = CErr ConfigError.
Proof.
  intros toml p l xs n T L N S LA NE. apply (params_stage _ _ _ T).
  destruct defaults_have_keys as [K1 [K2 _]]. unfold parse_params_table.
  rewrite (getd_with_defaults _ p K1), (getd_with_defaults _ p K2).
  rewrite (check_fractions_ok _ _ _ L N S). cbn [cbind]. rewrite LA, (len_of_list _ _ L). cbn [cbind].
  apply Nat.eqb_neq in NE. now rewrite NE.
Qed.

Lemma fault_phase : forall toml p l xs la,
  params_table toml = COk p -> list_of (eff "phase_fractions" p) l -> nums l = Some xs ->
  sum_ok v_fixed xs = true -> list_of (eff "phase_assemblage" p) la -> length la = length l ->
  Forall not_enum la -> Exists unknown_phase la ->
  parse_config v_fixed toml = CErr ConfigError.
Proof.
  intros toml p l xs la T L N S LA EQ NE EX. apply (params_stage _ _ _ T).
  destruct defaults_have_keys as [K1 [K2 _]]. unfold parse_params_table.
  rewrite (getd_with_defaults _ p K1), (getd_with_defaults _ p K2).
  rewrite (check_fractions_ok _ _ _ L N S). cbn [cbind].
  rewrite (len_of_list _ _ LA), (len_of_list _ _ L). cbn [cbind]. rewrite EQ, Nat.eqb_refl. cbn [negb].
  rewrite (seq_of_list _ _ LA). cbn [cbind].
  rewrite mapM_parse_phase_fault; auto.
  apply Exists_exists in EX. destruct EX as [x [I U]]. apply Exists_exists. exists x. split; auto.
  now apply unknown_phase_rejected.
Qed.

Inductive unknown_fabric : value -> Prop :=
| uf_letter : forall s, get_member ("olivine_" ++ s) fabric_members = None -> unknown_fabric (VStr s)
| uf_int : forall z, unknown_fabric (VInt z)
| uf_float : forall f, unknown_fabric (VFloat f)
| uf_bool : forall b, unknown_fabric (VBool b)
| uf_list : forall l, unknown_fabric (VList l)
| uf_table : forall t, unknown_fabric (VTable t).

Lemma params_until_fabric : forall p zs, fractions_ok p (length zs) -> assemblage_ok p zs ->
  exists phs, parse_params_table v_fixed p =
    (let p1 := dset "phase_assemblage" (VTuple phs) (with_defaults defaults_asdict p) in
     do fab <- parse_fabric (eff "initial_olivine_fabric" p);
     let p2 := dset "initial_olivine_fabric" fab p1 in
     do co <- parse_coefficients (eff "disl_coefficients" p);
     COk (dset "disl_coefficients" co p2)).
Proof.
  intros p zs [lf [xs [Lf [N [S Len]]]]] [la [La D]].
  destruct defaults_have_keys as [K1 [K2 [K3 K4]]].
  destruct (mapM_parse_phase_denotes _ _ D) as [phs [M _]]. exists phs.
  unfold parse_params_table.
  rewrite (getd_with_defaults _ p K1), (getd_with_defaults _ p K2).
  rewrite (check_fractions_ok _ _ _ Lf N S). cbn [cbind].
  rewrite (len_of_list _ _ La), (len_of_list _ _ Lf). cbn [cbind].
  assert (LL : length la = length lf). { rewrite Len. eapply Forall2_len; eauto. }
  rewrite LL, Nat.eqb_refl. cbn [negb]. rewrite (seq_of_list _ _ La). cbn [cbind]. rewrite M. cbn [cbind].
  rewrite getd_dset_other by reflexivity. rewrite (getd_with_defaults _ p K3).
  cbv zeta. destruct (parse_fabric _); cbn [cbind]; auto.
  rewrite getd_dset_other by reflexivity. rewrite getd_dset_other by reflexivity.
  now rewrite (getd_with_defaults _ p K4).
Qed.

Lemma fault_fabric : forall toml p zs,
  params_table toml = COk p -> fractions_ok p (length zs) -> assemblage_ok p zs ->
  unknown_fabric (eff "initial_olivine_fabric" p) ->
  parse_config v_fixed toml = CErr ConfigError.
Proof.
  intros toml p zs T F A U. apply (params_stage _ _ _ T).
  destruct (params_until_fabric _ _ F A) as [phs ->]. cbv zeta.
  destruct U; unfold parse_fabric; try reflexivity. now rewrite H.
Qed.

Lemma fault_coefficients : forall toml p zs l,
  params_table toml = COk p -> fractions_ok p (length zs) -> assemblage_ok p zs -> fabric_ok p ->
  list_of (eff "disl_coefficients" p) l -> length l <> n_coefficients ->
  parse_config v_fixed toml = CErr ConfigError.
Proof.
  intros toml p zs l T F A FB L NE. apply (params_stage _ _ _ T).
  destruct (params_until_fabric _ _ F A) as [phs ->]. cbv zeta.
  destruct (parse_fabric_ok _ FB) as [f [-> _]]. cbn [cbind].
  unfold parse_coefficients. rewrite (len_of_list _ _ L). cbn [cbind].
  apply Nat.eqb_neq in NE. now rewrite NE.
Qed.

Lemma params_pass : forall toml p zs, params_table toml = COk p -> wf_params p zs ->
  exists p' phs, parse_params v_fixed toml = COk p' /\ assemblage_of p' = phs /\ Forall is_phase phs /\ map phase_val phs = zs.
Proof.
  intros toml p zs T W. destruct (params_ok _ _ W) as [p' [phs [E R]]].
  exists p', phs. split; auto. unfold parse_params. rewrite T. exact E.
Qed.

Lemma fault_no_input : forall toml p zs,
  params_table toml = COk p -> wf_params p zs -> get "input" toml = None ->
  parse_config v_fixed toml = CErr ConfigError.
Proof.
  intros toml p zs T W G. destruct (params_pass _ _ _ T W) as [p' [phs [E _]]].
  unfold parse_config. rewrite E. cbn [cbind]. unfold parse_input_common. now rewrite G.
Qed.

Lemma fault_no_timestep : forall toml p zs i,
  params_table toml = COk p -> wf_params p zs -> get "input" toml = Some (VTable i) ->
  mem "timestep" i = false -> mem "paths" i = false ->
  parse_config v_fixed toml = CErr ConfigError.
Proof.
  intros toml p zs i T W G M1 M2. destruct (params_pass _ _ _ T W) as [p' [phs [E _]]].
  unfold parse_config. rewrite E. cbn [cbind]. unfold parse_input_common. now rewrite G, M1, M2.
Qed.

Lemma fault_timestep_type : forall toml p zs i v,
  params_table toml = COk p -> wf_params p zs -> get "input" toml = Some (VTable i) ->
  get "timestep" i = Some v -> is_num v = false ->
  parse_config v_fixed toml = CErr ConfigError.
Proof.
  intros toml p zs i v T W G GT NN. destruct (params_pass _ _ _ T W) as [p' [phs [E _]]].
  unfold parse_config. rewrite E. cbn [cbind]. unfold parse_input_common. rewrite G.
  unfold mem at 1. rewrite GT. cbn [negb andb]. rewrite getd_dset_same.
  unfold getd at 1. rewrite GT. unfold numeric_or_raise. now rewrite NN.
Qed.

Lemma fault_strain_type : forall toml p zs i v,
  params_table toml = COk p -> wf_params p zs -> get "input" toml = Some (VTable i) ->
  (mem "timestep" i = true \/ mem "paths" i = true) -> num_if_present "timestep" i ->
  get "strain_final" i = Some v -> is_num v = false ->
  parse_config v_fixed toml = CErr ConfigError.
Proof.
  intros toml p zs i v T W G R NT GS NN. destruct (params_pass _ _ _ T W) as [p' [phs [E _]]].
  destruct input_defaults_numeric as [D1 _].
  unfold parse_config. rewrite E. cbn [cbind]. unfold parse_input_common. rewrite G.
  assert (RB : negb (mem "timestep" i) && negb (mem "paths" i) = false).
  { destruct R as [-> | ->]; simpl; auto. now rewrite andb_false_r. }
  rewrite RB. rewrite getd_dset_same. unfold numeric_or_raise at 1.
  rewrite (numeric_default _ _ NT D1). cbn [cbind]. rewrite getd_dset_same.
  rewrite getd_dset_other by reflexivity. unfold getd at 1. rewrite GS.
  unfold numeric_or_raise. now rewrite NN.
Qed.

(* output phase lists: a name that is no member, or a member that is not simulated *)
Definition bad_output_name (zs : list Z) (s : string) : Prop :=
  get_member s phase_members = None \/ exists z, get_member s phase_members = Some z /\ ~ In z zs.

Definition names_parsed (names : list string) (rs : list value) : Prop :=
  Forall2 (fun s r => exists z, get_member s phase_members = Some z /\ r = VEnum "MineralPhase" s z) names rs.

Lemma mapM_output_names_cases : forall names,
  mapM (output_phase v_fixed) (map VStr names) = CErr ConfigError \/
  exists rs, mapM (output_phase v_fixed) (map VStr names) = COk rs /\ names_parsed names rs.
Proof.
  induction names as [|s names IH].
  - right. exists []. split; [reflexivity|constructor].
  - cbn [map mapM output_phase]. unfold phase_of_name.
    destruct (get_member s phase_members) as [z|] eqn:M.
    + cbn [cbind]. destruct IH as [->|[rs [-> NP]]]; cbn [cbind]; auto.
      right. exists (VEnum "MineralPhase" s z :: rs). split; auto. constructor; eauto.
    + left. reflexivity.
Qed.

Lemma not_simulated : forall phs s z, Forall is_phase phs -> ~ In z (map phase_val phs) ->
  existsb (phase_eqb (VEnum "MineralPhase" s z)) phs = false.
Proof.
  intros phs s z FP NI. destruct (existsb _ phs) eqn:X; auto. exfalso. apply NI.
  apply existsb_exists in X. destruct X as [x [IX PE]].
  rewrite Forall_forall in FP. destruct (FP _ IX) as [n [z' [-> _]]]. simpl in PE.
  apply Z.eqb_eq in PE. subst z'. apply in_map_iff. exists (VEnum "MineralPhase" n z). auto.
Qed.

Lemma output_options_fault : forall o lvl phs names,
  Forall is_phase phs -> get lvl o = Some (VList (map VStr names)) ->
  Exists (bad_output_name (map phase_val phs)) names ->
  output_options v_fixed o lvl phs = CErr ConfigError.
Proof.
  intros o lvl phs names FP G EX. unfold output_options. rewrite G. cbn [seq_of cbind].
  destruct (mapM_output_names_cases names) as [->|[rs [-> NP]]]; auto.
  assert (FB : forallb (fun p => existsb (phase_eqb p) phs) rs = false).
  { clear G. induction NP as [|s r names rs [z [M ->]] NP IH]; [inversion EX|].
    cbn [forallb]. inversion EX as [? ? B|? ? B]; subst.
    - destruct B as [B|[z' [B NI]]]; [congruence|]. rewrite M in B. inversion B; subst z'.
      now rewrite (not_simulated _ _ _ FP NI).
    - rewrite (IH B). apply andb_false_r. }
  now rewrite FB.
Qed.

Lemma fault_output_phase : forall toml p zs i o lvl names,
  params_table toml = COk p -> wf_params p zs -> get "input" toml = Some (VTable i) -> wf_input i ->
  output_table toml = COk o -> (forall v, get "directory" o = Some v -> is_str v) ->
  (lvl = "raw_output" \/ (lvl = "diagnostics" /\ output_names_ok "raw_output" o zs)) ->
  get lvl o = Some (VList (map VStr names)) -> Exists (bad_output_name zs) names ->
  parse_config v_fixed toml = CErr ConfigError.
Proof.
  intros toml p zs i o lvl names T W GI WI TO D LV G EX.
  destruct (params_pass _ _ _ T W) as [p' [phs [E [A [FP MV]]]]].
  unfold parse_config. rewrite E. cbn [cbind].
  rewrite (input_common_ok _ _ _ GI WI). cbn [cbind].
  destruct (mode_ok _ WI) as [i' MI]. unfold common_of in MI. rewrite MI. cbn [cbind].
  rewrite A. subst zs. unfold parse_output. rewrite TO. cbn [cbind].
  assert (DD : exists dir, match get "directory" o with Some d => resolve d | None => COk (VOpaque "cwd" []) end = COk dir).
  { destruct (get "directory" o) eqn:Ed; eauto. destruct (D _ eq_refl) as [s ->]. simpl. eauto. }
  destruct DD as [dir ->]. cbn [cbind].
  destruct LV as [->|[-> R]].
  - rewrite (output_options_fault _ "raw_output" phs names FP); auto.
    now rewrite get_dset_other by reflexivity.
  - destruct (output_options_total (dset "directory" dir o) "raw_output" phs FP) as [o1 E1].
    { apply output_names_ok_other; auto. }
    rewrite E1. cbn [cbind].
    rewrite (output_options_fault o1 "diagnostics" phs names FP); auto.
    rewrite (output_options_other _ _ _ _ _ _ E1) by reflexivity. now rewrite get_dset_other by reflexivity.
Qed.

(* ------------------------------------------------------------------ any subset of the optional keys may be omitted *)
Fixpoint remove (k : string) (t : table) : table :=
  match t with
  | [] => []
  | (k', v) :: r => if String.eqb k k' then remove k r else (k', v) :: remove k r
  end.

Lemma get_remove_same : forall k t, get k (remove k t) = None.
Proof. induction t as [|[k' v] r IH]; simpl; auto. destruct (String.eqb k k') eqn:E; simpl; rewrite ?E; auto. Qed.
Lemma get_remove_other : forall k k' t, String.eqb k k' = false -> get k (remove k' t) = get k t.
Proof.
  induction t as [|[k2 v] r IH]; simpl; intros E; auto.
  destruct (String.eqb k' k2) eqn:E2; simpl.
  - apply String.eqb_eq in E2; subst. rewrite E. auto.
  - destruct (String.eqb k k2); auto.
Qed.

(* drop key k of table `tab` of the configuration (tab = "" : top level, e.g. name / [output] / [parameters]) *)
Definition drop (tk : string * string) (toml : table) : table :=
  let '(tab, k) := tk in
  if String.eqb tab "" then remove k toml
  else match get tab toml with
       | Some (VTable t) => dset tab (VTable (remove k t)) toml
       | _ => toml
       end.

(* keys that may be dropped independently of everything else: every documented-optional key
   except the coupled pair phase_assemblage / phase_fractions (whose defaults only fit each
   other) and the mode keys of [input] *)
Definition independent_optional (tk : string * string) : bool :=
  let '(tab, k) := tk in
  (String.eqb tab "parameters" && negb (String.eqb k "phase_assemblage") && negb (String.eqb k "phase_fractions")) ||
  (String.eqb tab "output") ||
  (String.eqb tab "input" && String.eqb k "strain_final") ||
  (String.eqb tab "" && (String.eqb k "name" || String.eqb k "output")).

Lemma eff_remove_other : forall k k' p, String.eqb k k' = false -> eff k (remove k' p) = eff k p.
Proof. intros. unfold eff, getd. now rewrite get_remove_other. Qed.

Lemma default_fabric_ok : forall p, get "initial_olivine_fabric" p = None -> fabric_ok p.
Proof.
  intros p N. right. unfold eff, getd. rewrite N. unfold dflt. vm_compute. eexists _, _. split; reflexivity.
Qed.
Lemma default_coefficients_ok : forall p, get "disl_coefficients" p = None -> coefficients_ok p.
Proof.
  intros p N. unfold coefficients_ok, eff, getd. rewrite N. unfold dflt. vm_compute. eexists. split; [right; reflexivity|reflexivity].
Qed.

Lemma wf_params_remove : forall p zs k,
  String.eqb k "phase_assemblage" = false -> String.eqb k "phase_fractions" = false ->
  wf_params p zs -> wf_params (remove k p) zs.
Proof.
  intros p zs k N1 N2 [F A B C].
  assert (S1 : String.eqb "phase_assemblage" k = false) by (rewrite String.eqb_sym; auto).
  assert (S2 : String.eqb "phase_fractions" k = false) by (rewrite String.eqb_sym; auto).
  constructor.
  - unfold fractions_ok in *. now rewrite eff_remove_other.
  - unfold assemblage_ok in *. now rewrite eff_remove_other.
  - destruct (String.eqb "initial_olivine_fabric" k) eqn:E.
    + apply String.eqb_eq in E; subst k. apply default_fabric_ok. apply get_remove_same.
    + unfold fabric_ok in *. now rewrite eff_remove_other.
  - destruct (String.eqb "disl_coefficients" k) eqn:E.
    + apply String.eqb_eq in E; subst k. apply default_coefficients_ok. apply get_remove_same.
    + unfold coefficients_ok in *. now rewrite eff_remove_other.
Qed.

Lemma wf_output_remove : forall o zs k, wf_output o zs -> wf_output (remove k o) zs.
Proof.
  intros o zs k [D R G].
  assert (X : forall k' v, get k' (remove k o) = Some v -> get k' o = Some v).
  { intros k' v H. destruct (String.eqb k' k) eqn:E.
    - apply String.eqb_eq in E; subst. rewrite get_remove_same in H. discriminate.
    - now rewrite get_remove_other in H. }
  constructor.
  - intros v H. apply D. auto.
  - intros v H. apply R. auto.
  - intros v H. apply G. auto.
Qed.

Lemma wf_output_empty : forall zs, wf_output [] zs.
Proof. intros zs. constructor; intros v H; discriminate. Qed.

Lemma wf_input_remove_strain : forall i, wf_input i -> wf_input (remove "strain_final" i).
Proof.
  intros i [R T S M C P].
  assert (G : forall k, String.eqb k "strain_final" = false -> get k (remove "strain_final" i) = get k i)
    by (intros; now apply get_remove_other).
  assert (Mm : forall k, String.eqb k "strain_final" = false -> mem k (remove "strain_final" i) = mem k i)
    by (intros k E; unfold mem; now rewrite G).
  constructor.
  - rewrite !Mm by reflexivity. auto.
  - intros v H. rewrite G in H by reflexivity. auto.
  - intros v H. rewrite get_remove_same in H. discriminate.
  - rewrite !Mm, !G by reflexivity. auto.
  - rewrite !Mm, !G by reflexivity. auto.
  - rewrite !Mm, !G by reflexivity. auto.
Qed.

Lemma wf_config_drop : forall toml zs tk,
  independent_optional tk = true -> wf_config toml zs -> wf_config (drop tk toml) zs.
Proof.
  intros toml zs [tab k] IO [[p [TP WP]] [i [TI WI]] [o [TO WO]]].
  unfold independent_optional in IO. cbv beta iota zeta in IO. unfold drop. cbv beta iota zeta.
  destruct (String.eqb tab "") eqn:E0.
  - (* top level: name or the [output] table *)
    apply String.eqb_eq in E0; subst tab. cbn in IO.
    apply orb_true_iff in IO. destruct IO as [IO|IO]; apply String.eqb_eq in IO; subst k.
    + constructor.
      * exists p. split; auto. unfold params_table. now rewrite get_remove_other by reflexivity.
      * exists i. split; auto. now rewrite get_remove_other by reflexivity.
      * exists o. split; auto. unfold output_table. now rewrite get_remove_other by reflexivity.
    + constructor.
      * exists p. split; auto. unfold params_table. now rewrite get_remove_other by reflexivity.
      * exists i. split; auto. now rewrite get_remove_other by reflexivity.
      * exists []. split; [|apply wf_output_empty]. unfold output_table. now rewrite get_remove_same.
  - destruct (String.eqb tab "parameters") eqn:E1.
    + apply String.eqb_eq in E1; subst tab. cbn in IO. rewrite !orb_false_r in IO.
      apply andb_true_iff in IO. destruct IO as [N1 N2].
      apply negb_true_iff in N1, N2.
      unfold params_table in TP. destruct (get "parameters" toml) as [[]|] eqn:GP; try discriminate.
      * inversion TP; subst kv. constructor.
        -- exists (remove k p). split; [unfold params_table; now rewrite get_dset_same|].
           apply wf_params_remove; auto.
        -- exists i. split; auto. now rewrite get_dset_other by reflexivity.
        -- exists o. split; auto. unfold output_table. now rewrite get_dset_other by reflexivity.
      * constructor; eauto. exists p. split; auto. unfold params_table. now rewrite GP.
    + destruct (String.eqb tab "output") eqn:E2.
      * apply String.eqb_eq in E2; subst tab.
        unfold output_table in TO. destruct (get "output" toml) as [[]|] eqn:GO; try discriminate.
        -- inversion TO; subst kv. constructor.
           ++ exists p. split; auto. unfold params_table. now rewrite get_dset_other by reflexivity.
           ++ exists i. split; auto. now rewrite get_dset_other by reflexivity.
           ++ exists (remove k o). split; [unfold output_table; now rewrite get_dset_same|].
              now apply wf_output_remove.
        -- constructor; eauto. exists o. split; auto. unfold output_table. now rewrite GO.
      * cbn in IO. rewrite orb_false_r in IO.
        apply andb_true_iff in IO. destruct IO as [E3 E4].
        apply String.eqb_eq in E3, E4; subst tab k. rewrite TI. constructor.
        -- exists p. split; auto. unfold params_table. now rewrite get_dset_other by reflexivity.
        -- exists (remove "strain_final" i). split; [now rewrite get_dset_same|].
           now apply wf_input_remove_strain.
        -- exists o. split; auto. unfold output_table. now rewrite get_dset_other by reflexivity.
Qed.

Theorem parse_total_subsets : forall ks toml zs,
  forallb independent_optional ks = true -> wf_config toml zs ->
  exists cfg, parse_config v_fixed (fold_right drop toml ks) = COk cfg.
Proof.
  intros ks toml zs IO W. apply (parse_total _ zs).
  induction ks as [|tk ks IH]; simpl in *; auto.
  apply andb_true_iff in IO. destruct IO as [I1 I2]. apply wf_config_drop; auto.
Qed.

(* ------------------------------------------------------------------ parameter records (generated tables) *)
Transparent phase_members fabric_members phase_attr_junk velocity_factories default_params defaults_asdict
            n_coefficients sum_tolerance sum_target input_get_defaults output_get_defaults.

(* every attribute the class body declares is what an instance and its as_dict() give *)
Definition faithful (pc : pclass) : Prop :=
  forall k v, In (k, v) (pc_declared pc) ->
    get k (pc_instance pc) = Some v /\ get k (pc_asdict pc) = Some v.

Lemma faithful_of_Forall : forall pc,
  Forall (fun kv => get (fst kv) (pc_instance pc) = Some (snd kv) /\ get (fst kv) (pc_asdict pc) = Some (snd kv)) (pc_declared pc) ->
  faithful pc.
Proof. intros pc F k v H. rewrite Forall_forall in F. exact (F (k, v) H). Qed.

Ltac solve_in_table :=
  apply faithful_of_Forall; cbn [pc_declared default_params];
  repeat (constructor; [split; vm_compute; reflexivity|]); constructor.

Lemma presets_faithful : Forall faithful presets /\ faithful default_params.
Proof. split; [unfold presets; repeat (constructor; [solve_in_table|]); constructor|solve_in_table]. Qed.

Lemma presets_nonvacuous :
  presets <> [] /\ Forall (fun pc => pc_declared pc <> []) presets /\
  Exists (fun pc => exists k v d, In (k, v) (pc_declared pc) /\ get k (pc_instance default_params) = Some d /\ v <> d) presets.
Proof.
  split; [discriminate|]. split.
  - unfold presets. repeat (constructor; [discriminate|]). constructor.
  - unfold presets. apply Exists_cons_hd.
    exists "phase_fractions". eexists. eexists. split; [cbn; right; left; reflexivity|].
    split; [vm_compute; reflexivity|discriminate].
Qed.

(* instance fields = as_dict() = fields of cls( **as_dict()), and the two instances compare equal *)
Definition roundtrips (pc : pclass) : Prop :=
  pc_asdict pc = pc_instance pc /\ pc_rebuilt pc = pc_instance pc /\ pc_roundtrip_eq pc = true.
Lemma defaults_roundtrip : roundtrips default_params /\ Forall roundtrips presets.
Proof. split; [repeat split|unfold presets; repeat (constructor; [repeat split|]); constructor]. Qed.

(* hash() works; assignment to every field (and to a new attribute) raises FrozenInstanceError *)
Definition frozen_hashable (pc : pclass) : Prop :=
  pc_hash_ok pc = true /\ Forall (fun kb => snd kb = true) (pc_frozen pc) /\
  (forall k, In k default_field_names -> In (k, true) (pc_frozen pc)) /\
  map fst (pc_instance pc) = default_field_names.
Lemma in_frozen_b : forall k l, existsb (fun kb => String.eqb (fst kb) k && snd kb) l = true -> In (k, true) l.
Proof.
  intros k l H. apply existsb_exists in H. destruct H as [[k' b] [Hin Hb]]. simpl in Hb.
  apply andb_true_iff in Hb. destruct Hb as [E Hb]. apply String.eqb_eq in E. subst. exact Hin.
Qed.
Ltac solve_frozen :=
  split; [reflexivity|]; split; [repeat constructor|]; split;
  [ let k := fresh "k" in let H := fresh "H" in
    intros k H; apply in_frozen_b; revert k H; apply forallb_forall; vm_compute; reflexivity
  | reflexivity ].
Lemma defaults_frozen_hashable : frozen_hashable default_params /\ Forall frozen_hashable presets.
Proof. split; [solve_frozen|unfold presets; repeat (constructor; [solve_frozen|]); constructor]. Qed.

(* the literals of the source: tolerance of the sum test, DefaultParams keys used by the parser *)
Lemma tolerance_documented : sum_tolerance = 0x1.cd2b297d889bcp-54%float /\ sum_target = 1%float.
Proof. split; reflexivity. Qed.

Lemma defaults_cover_fields : forall k, In k default_field_names -> mem k defaults_asdict = true.
Proof.
  intros k H. cbn [In default_field_names] in H.
  repeat (destruct H as [H|H]; [subst k; reflexivity|]). contradiction.
Qed.

Lemma enum_tables_bijective : table_injective phase_members = true /\ table_injective fabric_members = true.
Proof. split; vm_compute; reflexivity. Qed.

(* ------------------------------------------------------------------ the recorded defects, one variant each *)
Definition toml_of (params input output : table) : table :=
  [("input", VTable input); ("output", VTable output); ("parameters", VTable params)].

Lemma variant_getattr_refuted :
  exists toml cfg, parse_config (mkV true false false false false) toml = COk cfg /\
                   ~ Forall is_phase (assemblage_of (c_params cfg)).
Proof.
  exists (toml_of [("phase_assemblage", VList [VStr "mro"])] [("timestep", VFloat 1)] []).
  eexists. split; [vm_compute; reflexivity|].
  cbn. intro H. inversion H as [|? ? [n [z [E _]]] _]. discriminate E.
Qed.

Lemma variant_int_phase_refuted :
  parse_config (mkV false true false false false)
    (toml_of [("phase_assemblage", VList [VInt 5])] [("timestep", VFloat 1)] []) = CErr ValueErr.
Proof. vm_compute. reflexivity. Qed.

Lemma variant_builtin_input_refuted :
  parse_config (mkV false false true false false) (toml_of [] [("timestep", VStr "1e9")] []) = CErr TypeErr /\
  parse_config (mkV false false true false false)
    (toml_of [] [("timestep", VFloat 1); ("strain_final", VStr "10")] []) = CErr TypeErr.
Proof. split; vm_compute; reflexivity. Qed.

Lemma variant_nan_refuted :
  exists cfg, parse_config (mkV false false false true false)
                (toml_of [("phase_fractions", VList [VFloat nan])] [("timestep", VFloat 1)] []) = COk cfg /\
              sum_ok v_fixed [nan%float] = false.
Proof. eexists. split; vm_compute; reflexivity. Qed.

Lemma variant_out_paths_refuted :
  exists cfg, parse_config (mkV false false false false true)
                (toml_of [] [("timestep", VFloat 1)] [("paths", VList [VStr "p.scsv"])]) = COk cfg /\
              get "paths" (c_output cfg) = Some VNone /\
  exists cfg', parse_config v_fixed
                (toml_of [] [("timestep", VFloat 1)] [("paths", VList [VStr "p.scsv"])]) = COk cfg' /\
              get "paths" (c_output cfg') = Some (VList [VStr "p.scsv"]).
Proof. eexists. split; [vm_compute; reflexivity|]. split; [vm_compute; reflexivity|].
       eexists. split; vm_compute; reflexivity. Qed.

(* ------------------------------------------------------------------ non-vacuity *)
Definition minimal_config : table := [("input", VTable [("timestep", VFloat 1)])].

Lemma wf_params_empty : exists zs, wf_params [] zs.
Proof.
  exists [0%Z]. constructor.
  - unfold fractions_ok. eexists _, _. split; [right; vm_compute; reflexivity|].
    split; [vm_compute; reflexivity|]. split; vm_compute; reflexivity.
  - unfold assemblage_ok. eexists. split; [right; vm_compute; reflexivity|].
    constructor; [|constructor]. apply dp_enum. vm_compute. reflexivity.
  - apply default_fabric_ok. reflexivity.
  - apply default_coefficients_ok. reflexivity.
Qed.

Lemma wf_input_timestep_only : wf_input [("timestep", VFloat 1)].
Proof.
  constructor; try (intros; discriminate).
  - left. reflexivity.
  - intros v H. cbn in H. inversion H. reflexivity.
Qed.

Lemma wf_minimal : exists zs, wf_config minimal_config zs.
Proof.
  exists [0%Z]. constructor.
  - exists []. split; [reflexivity|]. destruct wf_params_empty as [zs W].
    (* the witness of wf_params_empty is [0] *)
    clear W zs. constructor.
    + unfold fractions_ok. eexists _, _. split; [right; vm_compute; reflexivity|].
      split; [vm_compute; reflexivity|]. split; vm_compute; reflexivity.
    + unfold assemblage_ok. eexists. split; [right; vm_compute; reflexivity|].
      constructor; [|constructor]. apply dp_enum. vm_compute. reflexivity.
    + apply default_fabric_ok. reflexivity.
    + apply default_coefficients_ok. reflexivity.
  - exists [("timestep", VFloat 1)]. split; [reflexivity|apply wf_input_timestep_only].
  - exists []. split; [reflexivity|apply wf_output_empty].
Qed.

(* a fully populated two-phase configuration in the callable input mode *)
Definition full_config : table :=
  [("name", VStr "pydrex-case");
   ("input", VTable [("velocity_gradient", VList [VStr "simple_shear_2d"; VStr "Y"; VStr "X"; VFloat 0x1.4f8b588e368f1p-18]);
                     ("locations_initial", VStr "start.scsv"); ("timestep", VFloat 1); ("strain_final", VFloat 2.5)]);
   ("output", VTable [("directory", VStr "out"); ("raw_output", VList (map VStr ["olivine"]));
                      ("diagnostics", VList (map VStr ["enstatite"; "olivine"])); ("anisotropy", VList [VStr "Voigt"]);
                      ("paths", VList [VStr "pathline001.scsv"]); ("log_level", VStr "DEBUG")]);
   ("parameters", VTable [("phase_assemblage", VList [VStr "olivine"; VStr "enstatite"]);
                          ("phase_fractions", VList [VFloat 0x1.6666666666666p-1; VFloat 0x1.3333333333333p-2]);
                          ("initial_olivine_fabric", VStr "B"); ("number_of_grains", VInt 1000);
                          ("disl_coefficients", VList [VFloat 1; VFloat 2; VFloat 3; VFloat 4; VFloat 5; VFloat 6; VFloat 7])])].

Lemma wf_full : wf_config full_config [0%Z; 1%Z].
Proof.
  constructor.
  - eexists. split; [reflexivity|]. constructor.
    + unfold fractions_ok. eexists _, _. split; [left; vm_compute; reflexivity|].
      split; [vm_compute; reflexivity|]. split; vm_compute; reflexivity.
    + unfold assemblage_ok. eexists. split; [left; vm_compute; reflexivity|].
      repeat constructor; vm_compute; reflexivity.
    + left. eexists _, _. split; vm_compute; reflexivity.
    + unfold coefficients_ok. eexists. split; [left; vm_compute; reflexivity|vm_compute; reflexivity].
  - eexists. split; [reflexivity|]. constructor; try (intros; discriminate).
    + left. reflexivity.
    + intros v H. cbn in H. inversion H. reflexivity.
    + intros v H. cbn in H. inversion H. reflexivity.
    + intros _ _. eexists _, _, _. repeat split; reflexivity.
  - eexists. split; [reflexivity|]. constructor.
    + intros v H. cbn in H. inversion H. eexists; reflexivity.
    + intros v H. cbn in H. inversion H. exists ["olivine"]. split; [reflexivity|].
      repeat constructor. exists 0%Z. split; [reflexivity|cbn; auto].
    + intros v H. cbn in H. inversion H. exists ["enstatite"; "olivine"]. split; [reflexivity|].
      repeat constructor; [exists 1%Z|exists 0%Z]; (split; [reflexivity|cbn; auto]).
Qed.

(* the subset theorem applies to 2^k configurations obtained from full_config; e.g. dropping everything optional *)
Lemma subsets_example :
  forallb independent_optional
    [("parameters", "initial_olivine_fabric"); ("parameters", "number_of_grains"); ("parameters", "disl_coefficients");
     ("output", "directory"); ("output", "raw_output"); ("output", "diagnostics"); ("output", "anisotropy");
     ("output", "paths"); ("output", "log_level"); ("input", "strain_final"); ("", "name"); ("", "output")] = true.
Proof. reflexivity. Qed.

(* the fault hypotheses are satisfiable *)
Lemma fault_examples :
  sum_ok v_fixed [0x1.6666666666666p-1; 0x1.999999999999ap-3]%float = false /\     (* 0.7 + 0.2 *)
  sum_ok v_fixed [0x1.999999999999ap-4; 0x1.999999999999ap-4; 0x1.999999999999ap-4; 0x1.999999999999ap-4;
                  0x1.999999999999ap-4; 0x1.999999999999ap-4; 0x1.999999999999ap-4; 0x1.999999999999ap-4;
                  0x1.999999999999ap-4; 0x1.999999999999ap-4]%float = true /\      (* 0.1 * 10, numpy order *)
  unknown_phase (VStr "quartz") /\ unknown_phase (VInt 5) /\ unknown_fabric (VStr "F") /\
  bad_output_name [0%Z] "garnet" /\ bad_output_name [0%Z] "enstatite".
Proof.
  split; [vm_compute; reflexivity|]. split; [vm_compute; reflexivity|].
  split; [constructor; reflexivity|]. split; [constructor; reflexivity|]. split; [constructor; reflexivity|].
  split; [left; reflexivity|]. right. exists 1%Z. split; [reflexivity|]. cbn. intros [H|[]]. discriminate.
Qed.
