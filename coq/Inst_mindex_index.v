(* Inst_mindex_index.v -- instance lemmas for diagnostics.misorientation_index (tie T, C14).

   k_misorientation_index_SYS h is the function traced from the source, given the observed density
   h (theta_max numbers) that stats.misorientation_hist returned: theta_max calls of the generated
   k_misorientations_random_SYS on the bin edges 0, 1, .., theta_max (each may raise), then
   (theta_max / (2 theta_max)) * sum |theory_i - h_i|.  For every list `obs` of theta_max reals

       index_inst_SYS : k_misorientation_index_SYS (A obs) = match theory SYS with Err e => Err e | Ok th => Ok (m_of theta_max th obs) end

   i.e. the generated function IS Model_mindex.mindex_of_angles after the histogram (corollary
   mindex_gen_SYS).  The calls are rewritten with Inst_mindex_random*.random_inst_SYS and
   destructed one after the other, in the order the source evaluates them. *)
From Coq Require Import Reals ZArith List Bool Lra Lia.
From PV Require Import Num NumR Model_mindex Proofs_mindex Inst_mindex_random Inst_mindex_random_o
  Inst_mindex_random_r Inst_mindex_random_t Inst_mindex_random_h.
From PV.gen Require Import Gen_mindex.
Import ListNotations.
Open Scope R_scope.

Notation A := (@mk_arr R 0).

(* the generated function is a chain of binds over the theta_max density calls *)
Fixpoint bindall {X Y} (l : list (res X)) (K : list X -> res Y) : res Y :=
  match l with
  | [] => K []
  | r :: l' => match r with Ok c => bindall l' (fun cs => K (c :: cs)) | Err e => Err e end
  end.

Lemma bindall_collect {X Y} (l : list (res X)) (K : list X -> res Y) :
  bindall l K = match collect l with Ok th => K th | Err e => Err e end.
Proof.
  revert K; induction l as [|[c|e] l IH]; intros K; cbn [bindall collect]; try reflexivity.
  rewrite IH. destruct (collect l); reflexivity.
Qed.

(* the leaf, as generated: (1/2) * sum_k |theory_k - h_k| with h read by index *)
Definition Kidx (n : nat) (obs th : list R) : res R :=
  Ok (IZR 1 / IZR 2 * @msum NumR (map (fun k => Rabs (nth k th 0 - nth k obs 0)) (seq 0 n))).

Lemma map2_nth {X Y Z} (f : X -> Y -> Z) (dx : X) (dy : Y) n : forall l1 l2,
  length l1 = n -> length l2 = n ->
  map2 f l1 l2 = map (fun k => f (nth k l1 dx) (nth k l2 dy)) (seq 0 n).
Proof.
  induction n as [|n IH]; intros [|a l1] [|b l2] H1 H2; try discriminate; [reflexivity|].
  cbn [map2 seq map nth]. f_equal. rewrite <- seq_shift, map_map. apply IH; cbn in *; congruence.
Qed.

Lemma Kidx_m_of n (obs th : list R) : (0 < n)%nat -> length obs = n -> length th = n ->
  Kidx n obs th = Ok (@m_of NumR n th obs).
Proof.
  intros Hn Ho Ht. unfold Kidx, m_of. apply f_equal.
  rewrite (map2_nth _ 0 0 n th obs Ht Ho). numR. rewrite Ho. apply f_equal2; [|reflexivity].
  rewrite mult_IZR. assert (0 < IZR (Z.of_nat n)) by (apply IZR_lt; lia). field. lra.
Qed.

(* G: generated definition (applied to NumR); Gr: the generated density it calls; HR: its instance lemma;
   s: lattice system *)
Ltac index_tac G Gr HR s :=
  let n := eval cbv in (theta_max s) in
  intros obs Hlen;
  transitivity (bindall (map (fun k => Gr (IZR (Z.of_nat k)) (IZR (Z.of_nat (S k)))) (seq 0 n)) (Kidx n obs));
  [ reflexivity | ];
  rewrite (map_ext _ (fun k => @misorientations_random NumR (IZR (Z.of_nat k)) (IZR (Z.of_nat (S k))) s))
    by (intros; apply HR);
  rewrite bindall_collect;
  change (collect _) with (@theory NumR s);
  let E := fresh "E" in
  destruct (@theory NumR s) as [th|e] eqn:E; [ | reflexivity ];
  apply Kidx_m_of; [ lia | exact Hlen | ];
  let L := fresh "L" in
  pose proof (collect_length _ _ E) as L; rewrite map_length, seq_length in L; exact L.

Lemma index_inst_triclinic : forall obs : list R, length obs = 180%nat ->
  @k_misorientation_index_triclinic NumR (A obs) =
  match @theory NumR Triclinic with Err e => Err e | Ok th => Ok (@m_of NumR 180 th obs) end.
Proof.
  index_tac (@k_misorientation_index_triclinic NumR) (@k_misorientations_random_triclinic NumR) random_inst_triclinic Triclinic.
Qed.

Lemma index_inst_monoclinic : forall obs : list R, length obs = 180%nat ->
  @k_misorientation_index_monoclinic NumR (A obs) =
  match @theory NumR Monoclinic with Err e => Err e | Ok th => Ok (@m_of NumR 180 th obs) end.
Proof.
  index_tac (@k_misorientation_index_monoclinic NumR) (@k_misorientations_random_monoclinic NumR) random_inst_monoclinic Monoclinic.
Qed.

Lemma index_inst_orthorhombic : forall obs : list R, length obs = 120%nat ->
  @k_misorientation_index_orthorhombic NumR (A obs) =
  match @theory NumR Orthorhombic with Err e => Err e | Ok th => Ok (@m_of NumR 120 th obs) end.
Proof.
  index_tac (@k_misorientation_index_orthorhombic NumR) (@k_misorientations_random_orthorhombic NumR) random_inst_orthorhombic Orthorhombic.
Qed.

Lemma index_inst_rhombohedral : forall obs : list R, length obs = 120%nat ->
  @k_misorientation_index_rhombohedral NumR (A obs) =
  match @theory NumR Rhombohedral with Err e => Err e | Ok th => Ok (@m_of NumR 120 th obs) end.
Proof.
  index_tac (@k_misorientation_index_rhombohedral NumR) (@k_misorientations_random_rhombohedral NumR) random_inst_rhombohedral Rhombohedral.
Qed.

Lemma index_inst_tetragonal : forall obs : list R, length obs = 90%nat ->
  @k_misorientation_index_tetragonal NumR (A obs) =
  match @theory NumR Tetragonal with Err e => Err e | Ok th => Ok (@m_of NumR 90 th obs) end.
Proof.
  index_tac (@k_misorientation_index_tetragonal NumR) (@k_misorientations_random_tetragonal NumR) random_inst_tetragonal Tetragonal.
Qed.

Lemma index_inst_hexagonal : forall obs : list R, length obs = 90%nat ->
  @k_misorientation_index_hexagonal NumR (A obs) =
  match @theory NumR Hexagonal with Err e => Err e | Ok th => Ok (@m_of NumR 90 th obs) end.
Proof.
  index_tac (@k_misorientation_index_hexagonal NumR) (@k_misorientations_random_hexagonal NumR) random_inst_hexagonal Hexagonal.
Qed.

(* hence: the generated index applied to the model's histogram of any angle list IS the model's index *)
Lemma hist_density_length n (xs : list R) : length (@hist_density NumR n xs) = n.
Proof. unfold hist_density, hist_counts. now rewrite !map_length, seq_length. Qed.

Lemma mindex_gen_triclinic (angs : list R) :
  @k_misorientation_index_triclinic NumR (A (@hist_density NumR 180 angs)) = @mindex_of_angles NumR Triclinic angs.
Proof. rewrite index_inst_triclinic by apply hist_density_length. reflexivity. Qed.
Lemma mindex_gen_monoclinic (angs : list R) :
  @k_misorientation_index_monoclinic NumR (A (@hist_density NumR 180 angs)) = @mindex_of_angles NumR Monoclinic angs.
Proof. rewrite index_inst_monoclinic by apply hist_density_length. reflexivity. Qed.
Lemma mindex_gen_orthorhombic (angs : list R) :
  @k_misorientation_index_orthorhombic NumR (A (@hist_density NumR 120 angs)) = @mindex_of_angles NumR Orthorhombic angs.
Proof. rewrite index_inst_orthorhombic by apply hist_density_length. reflexivity. Qed.
Lemma mindex_gen_rhombohedral (angs : list R) :
  @k_misorientation_index_rhombohedral NumR (A (@hist_density NumR 120 angs)) = @mindex_of_angles NumR Rhombohedral angs.
Proof. rewrite index_inst_rhombohedral by apply hist_density_length. reflexivity. Qed.
Lemma mindex_gen_tetragonal (angs : list R) :
  @k_misorientation_index_tetragonal NumR (A (@hist_density NumR 90 angs)) = @mindex_of_angles NumR Tetragonal angs.
Proof. rewrite index_inst_tetragonal by apply hist_density_length. reflexivity. Qed.
Lemma mindex_gen_hexagonal (angs : list R) :
  @k_misorientation_index_hexagonal NumR (A (@hist_density NumR 90 angs)) = @mindex_of_angles NumR Hexagonal angs.
Proof. rewrite index_inst_hexagonal by apply hist_density_length. reflexivity. Qed.
