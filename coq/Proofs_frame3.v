(* Proofs_frame3.v -- C04: the F block of the integrated vector field commutes with a change of
   frame: (Q L Q^T)(Q F Q^T) = Q (L F) Q^T.  Together with derivs_frame (rates co-rotate, volume
   rates identical) all three blocks of the vector field commute with the rotation, which is the
   reason exact solutions -- hence integrated textures up to the solver tolerance -- co-rotate. *)
From Coq Require Import Reals ZArith List Bool Lra Lia Nsatz.
From PV Require Import Num NumR Model_core Spec_drex Proofs_core Proofs_frame.
Import ListNotations.
Open Scope R_scope.

Lemma Fdot_frame0 (Q L F : arr R) : SO3 Q -> mm (conj Q L) (conj Q F) 0%nat = conj Q (mm L F) 0%nat.
Proof.
  intros [H00 H11 H22 H01 H02 H12 _ _ _ _ _ _ _ _ _].
  cbv [mm conj tp mk_arr List.nth Nat.add Nat.mul]. nsatz.
Qed.
Lemma Fdot_frame1 (Q L F : arr R) : SO3 Q -> mm (conj Q L) (conj Q F) 1%nat = conj Q (mm L F) 1%nat.
Proof.
  intros [H00 H11 H22 H01 H02 H12 _ _ _ _ _ _ _ _ _].
  cbv [mm conj tp mk_arr List.nth Nat.add Nat.mul]. nsatz.
Qed.
Lemma Fdot_frame2 (Q L F : arr R) : SO3 Q -> mm (conj Q L) (conj Q F) 2%nat = conj Q (mm L F) 2%nat.
Proof.
  intros [H00 H11 H22 H01 H02 H12 _ _ _ _ _ _ _ _ _].
  cbv [mm conj tp mk_arr List.nth Nat.add Nat.mul]. nsatz.
Qed.
Lemma Fdot_frame3 (Q L F : arr R) : SO3 Q -> mm (conj Q L) (conj Q F) 3%nat = conj Q (mm L F) 3%nat.
Proof.
  intros [H00 H11 H22 H01 H02 H12 _ _ _ _ _ _ _ _ _].
  cbv [mm conj tp mk_arr List.nth Nat.add Nat.mul]. nsatz.
Qed.
Lemma Fdot_frame4 (Q L F : arr R) : SO3 Q -> mm (conj Q L) (conj Q F) 4%nat = conj Q (mm L F) 4%nat.
Proof.
  intros [H00 H11 H22 H01 H02 H12 _ _ _ _ _ _ _ _ _].
  cbv [mm conj tp mk_arr List.nth Nat.add Nat.mul]. nsatz.
Qed.
Lemma Fdot_frame5 (Q L F : arr R) : SO3 Q -> mm (conj Q L) (conj Q F) 5%nat = conj Q (mm L F) 5%nat.
Proof.
  intros [H00 H11 H22 H01 H02 H12 _ _ _ _ _ _ _ _ _].
  cbv [mm conj tp mk_arr List.nth Nat.add Nat.mul]. nsatz.
Qed.
Lemma Fdot_frame6 (Q L F : arr R) : SO3 Q -> mm (conj Q L) (conj Q F) 6%nat = conj Q (mm L F) 6%nat.
Proof.
  intros [H00 H11 H22 H01 H02 H12 _ _ _ _ _ _ _ _ _].
  cbv [mm conj tp mk_arr List.nth Nat.add Nat.mul]. nsatz.
Qed.
Lemma Fdot_frame7 (Q L F : arr R) : SO3 Q -> mm (conj Q L) (conj Q F) 7%nat = conj Q (mm L F) 7%nat.
Proof.
  intros [H00 H11 H22 H01 H02 H12 _ _ _ _ _ _ _ _ _].
  cbv [mm conj tp mk_arr List.nth Nat.add Nat.mul]. nsatz.
Qed.
Lemma Fdot_frame8 (Q L F : arr R) : SO3 Q -> mm (conj Q L) (conj Q F) 8%nat = conj Q (mm L F) 8%nat.
Proof.
  intros [H00 H11 H22 H01 H02 H12 _ _ _ _ _ _ _ _ _].
  cbv [mm conj tp mk_arr List.nth Nat.add Nat.mul]. nsatz.
Qed.

Theorem Fdot_frame (Q L F : arr R) k : SO3 Q -> (k < 9)%nat ->
  mm (conj Q L) (conj Q F) k = conj Q (mm L F) k.
Proof.
  intros HQ Hk.
  destruct k as [|[|[|[|[|[|[|[|[|k]]]]]]]]];
  [apply Fdot_frame0|apply Fdot_frame1|apply Fdot_frame2|apply Fdot_frame3|apply Fdot_frame4
  |apply Fdot_frame5|apply Fdot_frame6|apply Fdot_frame7|apply Fdot_frame8|lia]; exact HQ.
Qed.
