(* Proofs_tensors_rot1.v -- components [0,1,*,*] of: generated k_rotate = four mode products.
   (one `ring` per component; split over nine files so that make -j parallelises) *)
From Coq Require Import Reals ZArith List Lra Lia.
From PV Require Import Num NumR Proofs_tensors_alg.
From PV.gen Require Import Gen_tensors.
Import ListNotations.
Open Scope R_scope.

Ltac rot_comp :=
  lazy [k_rotate mk_arr nth t4 mat3 rot4 mp1 mp2 mp3 mp4 sum3 Nat.add Nat.mul]; numR; ring.

Lemma rotate_tie_01 (T Q : arr NumR) : forall k l, (k < 3)%nat -> (l < 3)%nat ->
  t4 (k_rotate T Q) 0%nat 1%nat k l = rot4 (t4 T) (mat3 Q) 0%nat 1%nat k l.
Proof.
  intros k l Hk Hl.
  destruct k as [|[|[|k]]]; [ | | | exfalso; lia ];
  (destruct l as [|[|[|l]]]; [ | | | exfalso; lia ]); rot_comp.
Qed.
