(* Proofs_diag.v -- lemmas about Model_diag over the real-number instance. *)
From Coq Require Import Reals ZArith List Bool Lra Lia Permutation Psatz.
Require Import Coq.nsatz.Nsatz.
From PV Require Import Num NumR Model_diag.
Import ListNotations.
Open Scope R_scope.

Notation V3 := (@vec3 NumR).
Notation M3 := (@mat3 NumR).
Notation S3 := (@sym3 NumR).
Notation EV := (@eigres NumR).

(* unfold the model's small helpers and the dictionary *)
Ltac dunf :=
  cbv [vx vy vz dot3 mulv rowv fst snd] in *; numR.

(* ------------------------------------------------------------------------- *)
(* sums                                                                      *)
(* ------------------------------------------------------------------------- *)
Definition rsum (l : list R) : R := fold_right Rplus 0 l.

Lemma fold_left_add_R (l : list R) (a : R) : fold_left (@nadd NumR) l a = a + rsum l.
Proof.
  revert a; induction l as [|x xs IH]; intros a; cbn [fold_left rsum fold_right].
  - numR. ring.
  - rewrite IH. numR. unfold rsum. ring.
Qed.

Lemma dsum_R (l : list R) : @dsum NumR l = rsum l.
Proof.
  destruct l as [|x xs]; [reflexivity|].
  unfold dsum. rewrite fold_left_add_R. reflexivity.
Qed.

(* ------------------------------------------------------------------------- *)
(* symmetric 3x3 matrices as their lower triangle                            *)
(* ------------------------------------------------------------------------- *)
Definition zero6 : S3 := (0, 0, 0, 0, 0, 0).
Definition id6 : S3 := (1, 0, 1, 0, 0, 1).
Definition add6 (A B : S3) : S3 :=
  let '(a00, a10, a11, a20, a21, a22) := A in
  let '(b00, b10, b11, b20, b21, b22) := B in
  (a00 + b00, a10 + b10, a11 + b11, a20 + b20, a21 + b21, a22 + b22).
Definition outer6 (v : V3) : S3 :=
  let '(x, y, z) := v in (x * x, x * y, y * y, x * z, y * z, z * z).
(* S - x I *)
Definition shift6 (S : S3) (x : R) : S3 :=
  let '(s00, s10, s11, s20, s21, s22) := S in (s00 - x, s10, s11 - x, s20, s21, s22 - x).
Definition tr6 (S : S3) : R :=
  let '(s00, s10, s11, s20, s21, s22) := S in s00 + s11 + s22.
Definition e2_6 (S : S3) : R :=
  let '(s00, s10, s11, s20, s21, s22) := S in
  (s00 * s11 - s10 * s10) + (s00 * s22 - s20 * s20) + (s11 * s22 - s21 * s21).
Definition det6 (S : S3) : R :=
  let '(s00, s10, s11, s20, s21, s22) := S in
  s00 * (s11 * s22 - s21 * s21) - s10 * (s10 * s22 - s21 * s20) + s20 * (s10 * s21 - s11 * s20).
(* S . v  (S symmetric, given by its lower triangle) *)
Definition symv (S : S3) (v : V3) : V3 :=
  let '(s00, s10, s11, s20, s21, s22) := S in
  let '(x, y, z) := v in
  (s00 * x + s10 * y + s20 * z, s10 * x + s11 * y + s21 * z, s20 * x + s21 * y + s22 * z).
(* quadratic form v^T S v *)
Definition qf (S : S3) (v : V3) : R := dot3 v (symv S v).
(* lower triangle of Q S Q^T *)
Definition congr (Q : M3) (S : S3) : S3 :=
  let '(q0, q1, q2) := Q in
  (dot3 q0 (symv S q0), dot3 q1 (symv S q0), dot3 q1 (symv S q1),
   dot3 q2 (symv S q0), dot3 q2 (symv S q1), dot3 q2 (symv S q2)).
(* Q Q^T *)
Definition gram (Q : M3) : S3 :=
  let '(q0, q1, q2) := Q in
  (dot3 q0 q0, dot3 q1 q0, dot3 q1 q1, dot3 q2 q0, dot3 q2 q1, dot3 q2 q2).
Definition det3 (Q : M3) : R :=
  let '((a0, a1, a2), (b0, b1, b2), (c0, c1, c2)) := Q in
  a0 * (b1 * c2 - b2 * c1) - a1 * (b0 * c2 - b2 * c0) + a2 * (b0 * c1 - b1 * c0).

Definition scale3 (c : R) (v : V3) : V3 := let '(x, y, z) := v in (c * x, c * y, c * z).
Definition neg3 (v : V3) : V3 := scale3 (-1) v.

Definition charpoly (S : S3) (x : R) : R := det6 (shift6 S x).

(* rows orthonormal: Q Q^T = I *)
Definition orthogonal (Q : M3) : Prop := gram Q = id6.

Ltac d6 S := let a := fresh "s00" in let b := fresh "s10" in let c := fresh "s11" in
  let d := fresh "s20" in let e := fresh "s21" in let f := fresh "s22" in
  destruct S as [[[[[a b] c] d] e] f].
Ltac d3 v := let a := fresh "x" in let b := fresh "y" in let c := fresh "z" in
  destruct v as [[a b] c].
Ltac dm Q := let a := fresh "q0" in let b := fresh "q1" in let c := fresh "q2" in
  destruct Q as [[a b] c]; d3 a; d3 b; d3 c.

Ltac split_tuple := repeat match goal with |- (_, _) = (_, _) => apply f_equal2 end.
Ltac tuple_ring := split_tuple; ring.

(* ------------------------------------------------------------------------- *)
(* the scatter matrix is the sum of the outer products of the chosen rows    *)
(* ------------------------------------------------------------------------- *)
Definition scatterR (os : list M3) (r : nat) : S3 :=
  fold_right (fun o acc => add6 (outer6 (rowv r o)) acc) zero6 os.

Lemma scatter_R os r : @scatter NumR os r = scatterR os r.
Proof.
  unfold scatter. rewrite !dsum_R.
  induction os as [|o os IH]; cbn [map rsum fold_right scatterR].
  - reflexivity.
  - fold (scatterR os r). rewrite <- IH. destruct (rowv r o) as [[x y] z].
    cbv [add6 outer6 vx vy vz fst snd]. reflexivity.
Qed.

Lemma add6_comm A B : add6 A B = add6 B A.
Proof. d6 A; d6 B; cbv [add6]; tuple_ring. Qed.
Lemma add6_swap A B C : add6 A (add6 B C) = add6 B (add6 A C).
Proof. d6 A; d6 B; d6 C; cbv [add6]; tuple_ring. Qed.

Lemma scatterR_perm os os' r : Permutation os os' -> scatterR os r = scatterR os' r.
Proof.
  induction 1; cbn [scatterR fold_right].
  - reflexivity.
  - fold (scatterR l r) (scatterR l' r). now rewrite IHPermutation.
  - fold (scatterR l r). apply add6_swap.
  - congruence.
Qed.

(* a relabelling that changes every crystal axis of a grain at most by its sign
   (the two-fold rotations about the crystal axes flip two of them) *)
Definition sign (s : R) : Prop := s = 1 \/ s = -1.
Definition axes_flipped (o o' : M3) : Prop :=
  exists s0 s1 s2, sign s0 /\ sign s1 /\ sign s2 /\
    let '(a, b, c) := o in o' = (scale3 s0 a, scale3 s1 b, scale3 s2 c).

Lemma outer6_scale s v : sign s -> outer6 (scale3 s v) = outer6 v.
Proof. intros [->| ->]; d3 v; cbv [outer6 scale3]; tuple_ring. Qed.

Lemma rowv_flipped o o' r : axes_flipped o o' -> outer6 (rowv r o') = outer6 (rowv r o).
Proof.
  intros (s0 & s1 & s2 & H0 & H1 & H2 & H). destruct o as [[a b] c]. subst o'.
  destruct r as [|[|r]]; cbn [rowv]; now apply outer6_scale.
Qed.

Lemma scatterR_twofold os os' r : Forall2 axes_flipped os os' -> scatterR os r = scatterR os' r.
Proof.
  induction 1; cbn [scatterR fold_right]; [reflexivity|].
  fold (scatterR l r) (scatterR l' r). rewrite IHForall2. now rewrite (rowv_flipped x y r H).
Qed.

Lemma congr_add6 Q A B : congr Q (add6 A B) = add6 (congr Q A) (congr Q B).
Proof. dm Q; d6 A; d6 B; cbv [congr add6 symv]; dunf; tuple_ring. Qed.
Lemma congr_zero6 Q : congr Q zero6 = zero6.
Proof. dm Q; cbv [congr zero6 symv]; dunf; tuple_ring. Qed.
Lemma congr_outer6 Q v : congr Q (outer6 v) = outer6 (mulv Q v).
Proof. dm Q; d3 v; cbv [congr outer6 symv]; dunf; tuple_ring. Qed.

Lemma rowv_rotate (Q o : M3) r : rowv r (rotate_frame Q o) = mulv Q (rowv r o).
Proof. destruct o as [[a b] c]; destruct r as [|[|r]]; reflexivity. Qed.

Lemma scatterR_frame (Q : M3) os r :
  scatterR (map (rotate_frame Q) os) r = congr Q (scatterR os r).
Proof.
  induction os as [|o os IH]; cbn [map scatterR fold_right].
  - now rewrite congr_zero6.
  - fold (scatterR os r) (scatterR (map (rotate_frame Q) os) r).
    now rewrite IH, congr_add6, congr_outer6, rowv_rotate.
Qed.

Definition unit_rows (o : M3) : Prop :=
  let '(a, b, c) := o in dot3 a a = 1 /\ dot3 b b = 1 /\ dot3 c c = 1.

Lemma tr6_add6 A B : tr6 (add6 A B) = tr6 A + tr6 B.
Proof. d6 A; d6 B; cbv [tr6 add6]; ring. Qed.
Lemma tr6_outer6 v : tr6 (outer6 v) = dot3 v v.
Proof. d3 v; cbv [tr6 outer6]; dunf; ring. Qed.
Lemma unit_rowv o r : unit_rows o -> dot3 (rowv r o) (rowv r o) = 1.
Proof. destruct o as [[a b] c]; intros (Ha & Hb & Hc); destruct r as [|[|r]]; assumption. Qed.

Lemma scatterR_trace os r : Forall unit_rows os -> tr6 (scatterR os r) = INR (length os).
Proof.
  induction 1 as [|o os Ho _ IH]; [cbv; ring|].
  cbn [scatterR fold_right]. fold (scatterR os r).
  rewrite tr6_add6, tr6_outer6, IH, (unit_rowv _ _ Ho).
  change (length (o :: os)) with (S (length os)). rewrite S_INR. ring.
Qed.

(* a sum of outer products is positive semidefinite *)
Lemma qf_add6 A B v : qf (add6 A B) v = qf A v + qf B v.
Proof. d6 A; d6 B; d3 v; cbv [qf add6 symv]; dunf; ring. Qed.
Lemma qf_outer6 u v : qf (outer6 u) v = (dot3 u v) * (dot3 u v).
Proof. d3 u; d3 v; cbv [qf outer6 symv]; dunf; ring. Qed.
Lemma scatterR_psd os r v : 0 <= qf (scatterR os r) v.
Proof.
  induction os as [|o os IH]; cbn [scatterR fold_right].
  - d3 v; cbv [qf zero6 symv]; dunf; lra.
  - fold (scatterR os r). rewrite qf_add6, qf_outer6. nra.
Qed.

(* ------------------------------------------------------------------------- *)
(* the oracle hypothesis                                                     *)
(* ------------------------------------------------------------------------- *)
Definition ascending (l : V3) : Prop := let '(l1, l2, l3) := l in l1 <= l2 /\ l2 <= l3.

(* eigvalsh: ascending, and det(S - x I) = (l1 - x)(l2 - x)(l3 - x) for all x *)
Definition vals_spec (S : S3) (l : V3) : Prop :=
  ascending l /\
  forall x, charpoly S x = let '(l1, l2, l3) := l in (l1 - x) * (l2 - x) * (l3 - x).

Definition eigvec (S : S3) (l : R) (v : V3) : Prop := symv S v = scale3 l v /\ dot3 v v = 1.

(* eigh: additionally S v_i = l_i v_i with an orthonormal basis v_1, v_2, v_3 *)
Definition eig_spec (S : S3) (e : EV) : Prop :=
  let '((l1, l2, l3), (v1, v2, v3)) := e in
  vals_spec S (l1, l2, l3) /\
  eigvec S l1 v1 /\ eigvec S l2 v2 /\ eigvec S l3 v3 /\
  dot3 v1 v2 = 0 /\ dot3 v1 v3 = 0 /\ dot3 v2 v3 = 0.

Lemma charpoly_coeffs S x :
  charpoly S x = det6 S - e2_6 S * x + tr6 S * x * x - x * x * x.
Proof. d6 S; cbv [charpoly det6 shift6 e2_6 tr6]; ring. Qed.

Lemma vals_coeffs S l1 l2 l3 : vals_spec S (l1, l2, l3) ->
  tr6 S = l1 + l2 + l3 /\ e2_6 S = l1 * l2 + l1 * l3 + l2 * l3 /\ det6 S = l1 * l2 * l3.
Proof.
  intros [_ H]. pose proof (H 0) as H0. pose proof (H 1) as H1. pose proof (H (-1)) as H2.
  rewrite charpoly_coeffs in H0, H1, H2.
  assert (E0: det6 S = l1 * l2 * l3) by (ring_simplify in H0; lra).
  repeat split; nra.
Qed.

Lemma coeffs_vals S l1 l2 l3 : l1 <= l2 -> l2 <= l3 ->
  tr6 S = l1 + l2 + l3 -> e2_6 S = l1 * l2 + l1 * l3 + l2 * l3 -> det6 S = l1 * l2 * l3 ->
  vals_spec S (l1, l2, l3).
Proof.
  intros A B H1 H2 H3; split; [split; assumption|]. intros x.
  rewrite charpoly_coeffs, H1, H2, H3. ring.
Qed.

(* two ascending triples with the same cubic are equal *)
Lemma sorted_roots_unique l1 l2 l3 m1 m2 m3 :
  l1 <= l2 -> l2 <= l3 -> m1 <= m2 -> m2 <= m3 ->
  (forall x, (l1 - x) * (l2 - x) * (l3 - x) = (m1 - x) * (m2 - x) * (m3 - x)) ->
  (l1, l2, l3) = (m1, m2, m3).
Proof.
  intros La Lb Ma Mb H.
  assert (root_m: forall x, (l1 - x) * (l2 - x) * (l3 - x) = 0 -> x = l1 \/ x = l2 \/ x = l3).
  { intros x Hx. apply Rmult_integral in Hx as [Hx|Hx]; [apply Rmult_integral in Hx as [Hx|Hx]|]; lra. }
  assert (root_l: forall x, (m1 - x) * (m2 - x) * (m3 - x) = 0 -> x = m1 \/ x = m2 \/ x = m3).
  { intros x Hx. apply Rmult_integral in Hx as [Hx|Hx]; [apply Rmult_integral in Hx as [Hx|Hx]|]; lra. }
  assert (A1: m1 = l1 \/ m1 = l2 \/ m1 = l3) by (apply root_m; rewrite H; ring).
  assert (A3: m3 = l1 \/ m3 = l2 \/ m3 = l3) by (apply root_m; rewrite H; ring).
  assert (B1: l1 = m1 \/ l1 = m2 \/ l1 = m3) by (apply root_l; rewrite <- H; ring).
  assert (B3: l3 = m1 \/ l3 = m2 \/ l3 = m3) by (apply root_l; rewrite <- H; ring).
  assert (E1: l1 = m1) by lra. assert (E3: l3 = m3) by lra.
  pose proof (H 0) as H0. pose proof (H 1) as H1. pose proof (H (-1)) as H2.
  assert (E2: l2 = m2) by (subst; nra).
  now subst.
Qed.

Lemma vals_unique S l m : vals_spec S l -> vals_spec S m -> l = m.
Proof.
  d3 l; d3 m. intros [[A B] H] [[C D] H']. apply sorted_roots_unique; try assumption.
  intros t. rewrite <- (H t). apply H'.
Qed.

(* eigenvalues of a positive semidefinite matrix are non-negative (uses only the
   characteristic polynomial: for x < 0, S - x I is positive definite, so its
   determinant is positive) *)
Lemma pd_det_pos (M : S3) : (forall v, v <> (0, 0, 0) -> 0 < qf M v) -> 0 < det6 M.
Proof.
  intros H. d6 M.
  assert (P1: 0 < s00).
  { specialize (H (1, 0, 0)). cbv [qf symv] in H; dunf.
    assert ((1, 0, 0) <> (0, 0, 0) :> R * R * R) by (intros E; inversion E; lra). specialize (H H0). lra. }
  set (m2 := s00 * s11 - s10 * s10).
  assert (P2: 0 < m2).
  { specialize (H (- s10, s00, 0)). cbv [qf symv] in H; dunf.
    assert ((- s10, s00, 0) <> (0, 0, 0) :> R * R * R) by (intros E; inversion E; lra).
    specialize (H H0). subst m2. nra. }
  set (c0 := s10 * s21 - s11 * s20). set (c1 := s10 * s20 - s00 * s21).
  specialize (H (c0, c1, m2)). cbv [qf symv] in H; dunf.
  assert ((c0, c1, m2) <> (0, 0, 0) :> R * R * R) by (intros E; inversion E; lra).
  specialize (H H0).
  assert (E: (c0 * (s00 * c0 + s10 * c1 + s20 * m2) + c1 * (s10 * c0 + s11 * c1 + s21 * m2)
             + m2 * (s20 * c0 + s21 * c1 + s22 * m2))
            = m2 * (s00 * (s11 * s22 - s21 * s21) - s10 * (s10 * s22 - s21 * s20)
                    + s20 * (s10 * s21 - s11 * s20))) by (subst c0 c1 m2; ring).
  cbv [det6]. rewrite E in H. nra.
Qed.

Lemma qf_shift6 S x v : qf (shift6 S x) v = qf S v - x * dot3 v v.
Proof. d6 S; d3 v; cbv [qf shift6 symv]; dunf; ring. Qed.

Lemma dot3_pos (v : V3) : v <> (0, 0, 0) -> 0 < dot3 v v.
Proof.
  d3 v. intros H. dunf.
  destruct (Req_dec x 0) as [->|]; [destruct (Req_dec y 0) as [->|]; [destruct (Req_dec z 0) as [->|]|]|];
    try nra. now contradiction H.
Qed.

Lemma psd_root_nonneg S x : (forall v, 0 <= qf S v) -> charpoly S x = 0 -> 0 <= x.
Proof.
  intros Hpsd Hx. destruct (Rle_lt_dec 0 x) as [|Hneg]; [assumption|exfalso].
  assert (0 < det6 (shift6 S x)).
  { apply pd_det_pos. intros v Hv. rewrite qf_shift6.
    pose proof (Hpsd v). pose proof (dot3_pos v Hv). nra. }
  unfold charpoly in Hx. lra.
Qed.

Lemma psd_vals_nonneg S l1 l2 l3 :
  (forall v, 0 <= qf S v) -> vals_spec S (l1, l2, l3) -> 0 <= l1.
Proof.
  intros Hpsd [_ H]. apply (psd_root_nonneg S l1 Hpsd). rewrite H. ring.
Qed.

(* ------------------------------------------------------------------------- *)
(* orthogonal matrices                                                       *)
(* ------------------------------------------------------------------------- *)
Lemma orthogonal_eqs (Q : M3) : orthogonal Q ->
  let '(q0, q1, q2) := Q in
  dot3 q0 q0 = 1 /\ dot3 q1 q0 = 0 /\ dot3 q1 q1 = 1 /\ dot3 q2 q0 = 0 /\ dot3 q2 q1 = 0 /\ dot3 q2 q2 = 1.
Proof.
  destruct Q as [[q0 q1] q2]. unfold orthogonal, gram, id6. intros H. injection H; intros; repeat split; assumption.
Qed.

(* rows orthonormal -> columns orthonormal *)
Lemma orthogonal_transpose (Q : M3) : orthogonal Q -> orthogonal (transpose Q).
Proof.
  intros H. apply orthogonal_eqs in H. dm Q. destruct H as (H1 & H2 & H3 & H4 & H5 & H6).
  cbv [orthogonal gram transpose id6]; dunf.
  split_tuple; nsatz.
Qed.

Lemma transpose_invol (Q : M3) : transpose (transpose Q) = Q.
Proof. dm Q; reflexivity. Qed.

Lemma mulv_transpose_mulv (Q : M3) v : orthogonal Q -> mulv (transpose Q) (mulv Q v) = v.
Proof.
  intros H. apply orthogonal_transpose, orthogonal_eqs in H. dm Q; d3 v.
  cbv [transpose] in *; dunf. destruct H as (H1 & H2 & H3 & H4 & H5 & H6).
  split_tuple; nsatz.
Qed.

Lemma dot3_mulv (Q : M3) u v : orthogonal Q -> dot3 (mulv Q u) (mulv Q v) = dot3 u v.
Proof.
  intros H. apply orthogonal_transpose, orthogonal_eqs in H. dm Q; d3 u; d3 v.
  cbv [transpose] in *; dunf. destruct H as (H1 & H2 & H3 & H4 & H5 & H6). nsatz.
Qed.

Lemma det3_sq_gram (Q : M3) : det3 Q * det3 Q = det6 (gram Q).
Proof. dm Q; cbv [det3 det6 gram]; dunf; ring. Qed.

Lemma det6_congr (Q : M3) S : det6 (congr Q S) = det3 Q * det3 Q * det6 S.
Proof. dm Q; d6 S; cbv [det6 congr det3 symv]; dunf; ring. Qed.

Lemma congr_shift6 (Q : M3) S x : orthogonal Q -> congr Q (shift6 S x) = shift6 (congr Q S) x.
Proof.
  intros H. apply orthogonal_eqs in H. dm Q; d6 S.
  destruct H as (H1 & H2 & H3 & H4 & H5 & H6).
  cbv [congr shift6 symv] in *; dunf.
  split_tuple; nsatz.
Qed.

Lemma charpoly_congr (Q : M3) S x : orthogonal Q -> charpoly (congr Q S) x = charpoly S x.
Proof.
  intros H. unfold charpoly. rewrite <- congr_shift6 by assumption.
  rewrite det6_congr, det3_sq_gram, H. cbv [det6 id6]. ring.
Qed.

Lemma vals_spec_congr (Q : M3) S l : orthogonal Q -> vals_spec S l -> vals_spec (congr Q S) l.
Proof. intros H [A B]; split; [assumption|]. intros x. rewrite charpoly_congr by assumption. apply B. Qed.

Lemma symv_congr (Q : M3) S u : symv (congr Q S) u = mulv Q (symv S (mulv (transpose Q) u)).
Proof. dm Q; d6 S; d3 u; cbv [symv congr transpose]; dunf; tuple_ring. Qed.

Lemma mulv_scale3 (Q : M3) c v : mulv Q (scale3 c v) = scale3 c (mulv Q v).
Proof. dm Q; d3 v; cbv [scale3]; dunf; tuple_ring. Qed.

Lemma eigvec_congr (Q : M3) S l v : orthogonal Q -> eigvec S l v -> eigvec (congr Q S) l (mulv Q v).
Proof.
  intros H [A B]; split.
  - rewrite symv_congr, mulv_transpose_mulv by assumption. now rewrite A, mulv_scale3.
  - now rewrite dot3_mulv.
Qed.

(* eig_spec (Q S Q^T) is met by (lambda, Q v) *)
Lemma eig_spec_congr (Q : M3) S l v1 v2 v3 : orthogonal Q ->
  eig_spec S (l, (v1, v2, v3)) -> eig_spec (congr Q S) (l, (mulv Q v1, mulv Q v2, mulv Q v3)).
Proof.
  intros H. d3 l. intros (A & B1 & B2 & B3 & C1 & C2 & C3).
  refine (conj _ (conj _ (conj _ (conj _ (conj _ (conj _ _)))))).
  - now apply vals_spec_congr.
  - now apply eigvec_congr.
  - now apply eigvec_congr.
  - now apply eigvec_congr.
  - now rewrite dot3_mulv.
  - now rewrite dot3_mulv.
  - now rewrite dot3_mulv.
Qed.

(* ------------------------------------------------------------------------- *)
(* a simple largest eigenvalue determines its unit eigenvector up to sign     *)
(* ------------------------------------------------------------------------- *)
Lemma symv_sym S u v : dot3 u (symv S v) = dot3 (symv S u) v.
Proof. d6 S; d3 u; d3 v; cbv [symv]; dunf; ring. Qed.

Lemma dot3_scale3_r c u v : dot3 u (scale3 c v) = c * dot3 u v.
Proof. d3 u; d3 v; cbv [scale3]; dunf; ring. Qed.
Lemma dot3_scale3_l c u v : dot3 (scale3 c u) v = c * dot3 u v.
Proof. d3 u; d3 v; cbv [scale3]; dunf; ring. Qed.

(* expansion in an orthonormal basis *)
Lemma basis_expand (v1 v2 v3 u : V3) :
  dot3 v1 v1 = 1 -> dot3 v2 v2 = 1 -> dot3 v3 v3 = 1 ->
  dot3 v1 v2 = 0 -> dot3 v1 v3 = 0 -> dot3 v2 v3 = 0 ->
  u = mulv (transpose (v1, v2, v3)) (dot3 v1 u, dot3 v2 u, dot3 v3 u).
Proof.
  intros. assert (O: orthogonal (v1, v2, v3)).
  { unfold orthogonal, gram, id6. d3 v1; d3 v2; d3 v3; dunf. split_tuple; lra. }
  rewrite <- (mulv_transpose_mulv (v1, v2, v3) u O) at 1. reflexivity.
Qed.

Lemma top_unique S l1 l2 l3 v1 v2 v3 u :
  eig_spec S ((l1, l2, l3), (v1, v2, v3)) -> l2 < l3 -> eigvec S l3 u ->
  u = v3 \/ u = neg3 v3.
Proof.
  intros ([[A1 A2] _] & [B1 N1] & [B2 N2] & [B3 N3] & C1 & C2 & C3) Hs [U NU].
  assert (Z1: dot3 v1 u = 0).
  { pose proof (symv_sym S v1 u) as E. rewrite U, B1, dot3_scale3_r, dot3_scale3_l in E. nra. }
  assert (Z2: dot3 v2 u = 0).
  { pose proof (symv_sym S v2 u) as E. rewrite U, B2, dot3_scale3_r, dot3_scale3_l in E. nra. }
  pose proof (basis_expand v1 v2 v3 u N1 N2 N3 C1 C2 C3) as E. rewrite Z1, Z2 in E.
  set (a := dot3 v3 u) in *.
  assert (Eu: u = scale3 a v3).
  { rewrite E. d3 v1; d3 v2; d3 v3. cbv [transpose scale3]; dunf. tuple_ring. }
  assert (a * a = 1).
  { rewrite Eu in NU. rewrite dot3_scale3_r, dot3_scale3_l, N3 in NU. lra. }
  assert (a = 1 \/ a = -1) as [Ha|Ha] by (assert ((a - 1) * (a + 1) = 0) by lra; apply Rmult_integral in H0; lra).
  - left. rewrite Eu, Ha. d3 v3; cbv [scale3]; tuple_ring.
  - right. now rewrite Eu, Ha.
Qed.

(* Rayleigh bound: u^T S u <= l3 |u|^2 *)
Lemma rayleigh_max S l1 l2 l3 v1 v2 v3 u :
  eig_spec S ((l1, l2, l3), (v1, v2, v3)) -> qf S u <= l3 * dot3 u u.
Proof.
  intros ([[A1 A2] _] & [B1 N1] & [B2 N2] & [B3 N3] & C1 & C2 & C3).
  pose proof (basis_expand v1 v2 v3 u N1 N2 N3 C1 C2 C3) as E.
  set (a := dot3 v1 u) in *. set (b := dot3 v2 u) in *. set (c := dot3 v3 u) in *.
  assert (Eu: u = mulv (transpose (v1, v2, v3)) (a, b, c)) by exact E.
  assert (Su: symv S u = mulv (transpose (v1, v2, v3)) (l1 * a, l2 * b, l3 * c)).
  { rewrite Eu. d6 S; d3 v1; d3 v2; d3 v3. cbv [symv scale3 transpose] in *; dunf.
    inversion B1; inversion B2; inversion B3. split_tuple; nsatz. }
  assert (Q1: qf S u = l1 * a * a + l2 * b * b + l3 * c * c).
  { unfold qf. rewrite Su. rewrite Eu at 1. clear - N1 N2 N3 C1 C2 C3.
    d3 v1; d3 v2; d3 v3. cbv [transpose] in *; dunf. nsatz. }
  assert (Q2: dot3 u u = a * a + b * b + c * c).
  { rewrite Eu. clear - N1 N2 N3 C1 C2 C3.
    d3 v1; d3 v2; d3 v3. cbv [transpose] in *; dunf. nsatz. }
  rewrite Q1, Q2. nra.
Qed.

(* ------------------------------------------------------------------------- *)
(* point / girdle / random indices                                           *)
(* ------------------------------------------------------------------------- *)
Lemma div_range x s : 0 < s -> 0 <= x -> x <= s -> 0 <= x / s <= 1.
Proof.
  intros Hs H0 H1. split.
  - apply Rmult_le_pos; [assumption|]. left. now apply Rinv_0_lt_compat.
  - apply (Rmult_le_reg_r s); [assumption|]. unfold Rdiv. rewrite Rmult_assoc, Rinv_l by lra. lra.
Qed.

Definition in01 (x : R) : Prop := 0 <= x <= 1.

Lemma pgr_of_props l1 l2 l3 : l1 <= l2 -> l2 <= l3 -> 0 <= l1 -> 0 < l1 + l2 + l3 ->
  let '(P, G, Rn) := @pgr_of NumR (l1, l2, l3) in
  P + G + Rn = 1 /\ in01 P /\ in01 G /\ in01 Rn.
Proof.
  intros A B C D. cbv [pgr_of in01]; numR.
  assert (Hs: 0 < l3 + l2 + l1) by lra.
  repeat split; try (apply div_range; lra). field. lra.
Qed.

(* the mix-up "eigenvalues left ascending": P is negative on a concrete scatter matrix *)
Lemma pgr_ascending_refuted :
  exists l1 l2 l3, l1 <= l2 /\ l2 <= l3 /\ 0 <= l1 /\ 0 < l1 + l2 + l3 /\
    let '(P, G, Rn) := @pgr_of_ascending NumR (l1, l2, l3) in ~ in01 P.
Proof.
  exists 0, 1, 1. repeat split; try lra. cbv [pgr_of_ascending in01]; numR. intros [H _]. lra.
Qed.

Lemma scatter_vals_props os r l1 l2 l3 :
  os <> [] -> Forall unit_rows os -> vals_spec (@scatter NumR os r) (l1, l2, l3) ->
  l1 <= l2 /\ l2 <= l3 /\ 0 <= l1 /\ l1 + l2 + l3 = INR (length os) /\ 0 < INR (length os).
Proof.
  intros Hne Hu Hs. rewrite scatter_R in Hs.
  pose proof (psd_vals_nonneg _ _ _ _ (scatterR_psd os r) Hs) as H0.
  destruct (vals_coeffs _ _ _ _ Hs) as (Ht & _ & _). rewrite scatterR_trace in Ht by assumption.
  destruct Hs as [[A B] _]. repeat split; try assumption; try lra.
  destruct os; [contradiction|]. apply lt_0_INR. cbn; lia.
Qed.

Theorem pgr_sum_range (eigvalsh : S3 -> V3) os r :
  os <> [] -> Forall unit_rows os ->
  vals_spec (scatter os r) (eigvalsh (scatter os r)) ->
  let '(P, G, Rn) := symmetry_pgr eigvalsh os r in
  P + G + Rn = 1 /\ in01 P /\ in01 G /\ in01 Rn.
Proof.
  intros Hne Hu Hs. unfold symmetry_pgr. destruct (eigvalsh (scatter os r)) as [[l1 l2] l3].
  destruct (scatter_vals_props os r l1 l2 l3 Hne Hu Hs) as (A & B & C & D & E).
  apply pgr_of_props; lra.
Qed.

(* the three operations under which the diagnostics are invariant *)
Inductive equivalent_texture : list M3 -> list M3 -> Prop :=
| eqv_perm os os' : Permutation os os' -> equivalent_texture os os'
| eqv_flip os os' : Forall2 axes_flipped os os' -> equivalent_texture os os'
| eqv_frame Q os : orthogonal Q -> equivalent_texture os (map (rotate_frame Q) os).

Lemma equivalent_charpoly os os' r x : equivalent_texture os os' ->
  charpoly (scatterR os' r) x = charpoly (scatterR os r) x.
Proof.
  intros [a b H|a b H|Q a H].
  - now rewrite (scatterR_perm _ _ r H).
  - now rewrite (scatterR_twofold _ _ r H).
  - rewrite scatterR_frame. now apply charpoly_congr.
Qed.

Lemma equivalent_vals os os' r l l' : equivalent_texture os os' ->
  vals_spec (@scatter NumR os r) l -> vals_spec (@scatter NumR os' r) l' -> l' = l.
Proof.
  intros He H H'. rewrite scatter_R in *. d3 l; d3 l'.
  destruct H as [[A B] H]. destruct H' as [[A' B'] H'].
  apply sorted_roots_unique; try assumption. intros t.
  rewrite <- (H t), <- (H' t). now apply equivalent_charpoly.
Qed.

(* two (possibly different) runs of the eigenvalue routine *)
Theorem pgr_invariant (eigvalsh eigvalsh' : S3 -> V3) os os' r :
  equivalent_texture os os' ->
  vals_spec (scatter os r) (eigvalsh (scatter os r)) ->
  vals_spec (scatter os' r) (eigvalsh' (scatter os' r)) ->
  symmetry_pgr eigvalsh' os' r = symmetry_pgr eigvalsh os r.
Proof. intros He H H'. unfold symmetry_pgr. now rewrite (equivalent_vals _ _ _ _ _ He H H'). Qed.

(* ------------------------------------------------------------------------- *)
(* coaxial index                                                             *)
(* ------------------------------------------------------------------------- *)
Lemma ba_range P1 G1 R1 P2 G2 R2 :
  0 <= P1 -> 0 <= G1 -> 0 <= P2 -> 0 <= G2 -> 0 < G1 + P1 -> 0 < G2 + P2 ->
  in01 (@ba_of NumR (P1, G1, R1) (P2, G2, R2)).
Proof.
  intros. cbv [ba_of half in01]; numR.
  assert (X: 0 <= P1 / (G1 + P1) <= 1) by (apply div_range; lra).
  assert (Y: 0 <= G2 / (G2 + P2) <= 1) by (apply div_range; lra). lra.
Qed.

(* scatter matrix not a multiple of the identity *)
Definition anisotropic (l : V3) : Prop := let '(l1, _, l3) := l in l1 < l3.

Lemma pgr_PG_pos l1 l2 l3 : l1 <= l2 -> l2 <= l3 -> 0 < l1 + l2 + l3 -> l1 < l3 ->
  let '(P, G, _) := @pgr_of NumR (l1, l2, l3) in 0 < G + P.
Proof.
  intros. cbv [pgr_of]; numR.
  replace (2 * (l2 - l1) / (l3 + l2 + l1) + (l3 - l2) / (l3 + l2 + l1))
    with ((l3 + l2 - 2 * l1) / (l3 + l2 + l1)) by (field; lra).
  apply Rmult_lt_0_compat; [lra|]. apply Rinv_0_lt_compat. lra.
Qed.

Theorem coaxial_range (eigvalsh : S3 -> V3) os r1 r2 :
  os <> [] -> Forall unit_rows os ->
  vals_spec (scatter os r1) (eigvalsh (scatter os r1)) ->
  vals_spec (scatter os r2) (eigvalsh (scatter os r2)) ->
  anisotropic (eigvalsh (scatter os r1)) -> anisotropic (eigvalsh (scatter os r2)) ->
  in01 (coaxial_index eigvalsh os r1 r2).
Proof.
  intros Hne Hu H1 H2 N1 N2. unfold coaxial_index, symmetry_pgr.
  destruct (eigvalsh (scatter os r1)) as [[a1 a2] a3].
  destruct (eigvalsh (scatter os r2)) as [[b1 b2] b3]. cbn [anisotropic] in *.
  destruct (scatter_vals_props os r1 _ _ _ Hne Hu H1) as (A & B & C & D & E).
  destruct (scatter_vals_props os r2 _ _ _ Hne Hu H2) as (A' & B' & C' & D' & E').
  pose proof (pgr_of_props a1 a2 a3 A B C ltac:(lra)) as X.
  pose proof (pgr_of_props b1 b2 b3 A' B' C' ltac:(lra)) as Y.
  pose proof (pgr_PG_pos a1 a2 a3 A B ltac:(lra) N1) as X'.
  pose proof (pgr_PG_pos b1 b2 b3 A' B' ltac:(lra) N2) as Y'.
  change (T NumR) with R in *.
  destruct (@pgr_of NumR (a1, a2, a3)) as [[P1 G1] R1].
  destruct (@pgr_of NumR (b1, b2, b3)) as [[P2 G2] R2].
  cbv beta iota in X, Y, X', Y'. unfold in01 in X, Y. apply ba_range; lra.
Qed.

Theorem coaxial_invariant (eigvalsh eigvalsh' : S3 -> V3) os os' r1 r2 :
  equivalent_texture os os' ->
  vals_spec (scatter os r1) (eigvalsh (scatter os r1)) ->
  vals_spec (scatter os r2) (eigvalsh (scatter os r2)) ->
  vals_spec (scatter os' r1) (eigvalsh' (scatter os' r1)) ->
  vals_spec (scatter os' r2) (eigvalsh' (scatter os' r2)) ->
  coaxial_index eigvalsh' os' r1 r2 = coaxial_index eigvalsh os r1 r2.
Proof.
  intros He A B A' B'. unfold coaxial_index.
  now rewrite (pgr_invariant eigvalsh eigvalsh' os os' r1 He A A'),
              (pgr_invariant eigvalsh eigvalsh' os os' r2 He B B').
Qed.

(* ------------------------------------------------------------------------- *)
(* Bingham average                                                           *)
(* ------------------------------------------------------------------------- *)
Lemma normalize_unit (v : V3) : dot3 v v = 1 -> @normalize NumR v = v.
Proof.
  intros H. d3 v. cbv [normalize norm3]. rewrite H. numR. rewrite sqrt_1.
  cbv [vx vy vz fst snd]. split_tuple; field.
Qed.

Lemma neg3_invol (v : V3) : neg3 (neg3 v) = v.
Proof. d3 v. cbv [neg3 scale3]. change (T NumR) with R in *. split_tuple; ring. Qed.

Definition up_to_sign (u v : V3) : Prop := u = v \/ u = neg3 v.

Lemma eig_spec_last S (e : EV) : eig_spec S e ->
  eigvec S (last_val e) (last_vec e) /\ vals_spec S (fst e).
Proof.
  destruct e as [[[l1 l2] l3] [[v1 v2] v3]]. intros (A & _ & _ & B & _). split; assumption.
Qed.

Theorem bingham_unit (eigh : S3 -> EV) os r :
  eig_spec (scatter os r) (eigh (scatter os r)) ->
  let b := bingham_average eigh os r in dot3 b b = 1.
Proof.
  intros H. apply eig_spec_last in H as [[_ N] _]. unfold bingham_average.
  now rewrite normalize_unit.
Qed.

Lemma roots_le_last l1 l2 l3 x : l1 <= l2 -> l2 <= l3 -> (l1 - x) * (l2 - x) * (l3 - x) = 0 -> x <= l3.
Proof.
  intros A B H. apply Rmult_integral in H as [H|H]; [apply Rmult_integral in H as [H|H]|]; lra.
Qed.

(* the mean axis is the oracle's last eigenvector: a unit eigenvector of the scatter
   matrix for its largest eigenvalue, and it maximises the quadratic form
   sum_g (a_g . u)^2 over unit vectors (the definition of the Bingham mean axis) *)
Theorem bingham_is_principal (eigh : S3 -> EV) os r :
  let S := scatter os r in
  eig_spec S (eigh S) ->
  let b := bingham_average eigh os r in
  let l := last_val (eigh S) in
  b = last_vec (eigh S) /\ symv S b = scale3 l b /\
  (forall x, charpoly S x = 0 -> x <= l) /\
  (forall u : V3, dot3 u u = 1 -> qf S u <= qf S b).
Proof.
  intros S H b l. subst b l. unfold bingham_average. fold S.
  destruct (eigh S) as [[[l1 l2] l3] [[v1 v2] v3]] eqn:E.
  pose proof H as (A & _ & _ & [B N] & _). cbn [last_vec last_val snd fst vz].
  rewrite normalize_unit by assumption. repeat split; try assumption.
  - intros x Hx. destruct A as [[A1 A2] A]. rewrite A in Hx. exact (roots_le_last l1 l2 l3 x A1 A2 Hx).
  - intros u Hu. pose proof (rayleigh_max _ _ _ _ _ _ _ u H) as Hr. rewrite Hu in Hr.
    unfold qf at 2. rewrite B, dot3_scale3_r, N. lra.
Qed.

Lemma normalize_neg3 (v : V3) : dot3 v v = 1 -> @normalize NumR (neg3 v) = neg3 (normalize v).
Proof.
  intros H. rewrite (normalize_unit v H). apply normalize_unit.
  unfold neg3. now rewrite dot3_scale3_r, dot3_scale3_l, H; lra.
Qed.

(* same scatter matrix (up to orthogonal congruence), simple largest eigenvalue:
   the last eigenvectors of two runs agree up to sign and the rotation *)
Lemma last_vec_congr (Q : M3) S (e e' : EV) : orthogonal Q ->
  eig_spec S e -> eig_spec (congr Q S) e' ->
  (let '(_, l2, l3) := fst e in l2 < l3) ->
  fst e' = fst e /\ up_to_sign (last_vec e') (mulv Q (last_vec e)).
Proof.
  intros HQ H H' Hs.
  destruct e as [[[l1 l2] l3] [[v1 v2] v3]]. destruct e' as [[[m1 m2] m3] [[w1 w2] w3]].
  cbn [fst last_vec snd] in *.
  pose proof (eig_spec_congr Q S _ _ _ _ HQ H) as Hc.
  assert (E: (m1, m2, m3) = (l1, l2, l3)).
  { apply (vals_unique (congr Q S)); [apply H'|apply Hc]. }
  injection E as -> -> ->. split; [reflexivity|].
  destruct Hc as (_ & _ & _ & B & _).
  destruct (top_unique _ _ _ _ _ _ _ _ H' Hs B) as [X|X]; unfold up_to_sign.
  - left. now rewrite X.
  - right. rewrite X. symmetry. apply neg3_invol.
Qed.

Definition I3 : M3 := ((1, 0, 0), (0, 1, 0), (0, 0, 1)).
Lemma orthogonal_id : orthogonal I3.
Proof. cbv [orthogonal gram id6 I3]; dunf. split_tuple; ring. Qed.
Lemma congr_id S : congr I3 S = S.
Proof. d6 S. cbv [congr symv I3]; dunf. split_tuple; ring. Qed.
Lemma mulv_id (v : V3) : mulv I3 v = v.
Proof. d3 v. cbv [I3]; dunf. split_tuple; ring. Qed.

Definition simple_top (e : EV) : Prop := let '(_, l2, l3) := fst e in l2 < l3.

Theorem bingham_corotates (eigh eigh' : S3 -> EV) (Q : M3) os r :
  orthogonal Q ->
  let os' := map (rotate_frame Q) os in
  eig_spec (scatter os r) (eigh (scatter os r)) ->
  eig_spec (scatter os' r) (eigh' (scatter os' r)) ->
  simple_top (eigh (scatter os r)) ->
  up_to_sign (bingham_average eigh' os' r) (mulv Q (bingham_average eigh os r)).
Proof.
  intros HQ os' H H' Hs. unfold bingham_average.
  pose proof (eig_spec_last _ _ H) as [[_ N] _]. pose proof (eig_spec_last _ _ H') as [[_ N'] _].
  rewrite !normalize_unit by assumption.
  subst os'. rewrite !scatter_R in *. rewrite scatterR_frame in *.
  now apply (last_vec_congr Q _ _ _ HQ H H' Hs).
Qed.

(* reordering / axis flips leave the scatter matrix unchanged; two runs of the routine
   then agree up to sign when the largest eigenvalue is simple *)
Theorem bingham_same_scatter (eigh eigh' : S3 -> EV) os os' r :
  Permutation os os' \/ Forall2 axes_flipped os os' ->
  eig_spec (scatter os r) (eigh (scatter os r)) ->
  eig_spec (scatter os' r) (eigh' (scatter os' r)) ->
  simple_top (eigh (scatter os r)) ->
  up_to_sign (bingham_average eigh' os' r) (bingham_average eigh os r).
Proof.
  intros He H H' Hs. unfold bingham_average.
  pose proof (eig_spec_last _ _ H) as [[_ N] _]. pose proof (eig_spec_last _ _ H') as [[_ N'] _].
  rewrite !normalize_unit by assumption.
  rewrite !scatter_R in *.
  assert (E: scatterR os' r = scatterR os r).
  { destruct He as [He|He]; [now rewrite (scatterR_perm _ _ r He)|now rewrite (scatterR_twofold _ _ r He)]. }
  rewrite E in *. rewrite <- (congr_id (scatterR os r)) in H'.
  destruct (last_vec_congr _ _ _ _ orthogonal_id H H' Hs) as [_ X]. rewrite mulv_id, congr_id in X. exact X.
Qed.

(* ------------------------------------------------------------------------- *)
(* finite strain                                                             *)
(* ------------------------------------------------------------------------- *)
Notation lcg := (@left_cauchy_green NumR).

(* u^T (F F^T) u = |F^T u|^2 *)
Lemma qf_lcg (Fm : M3) u : qf (lcg Fm) u = dot3 (mulv (transpose Fm) u) (mulv (transpose Fm) u).
Proof. dm Fm; d3 u; cbv [qf left_cauchy_green symv transpose]; dunf; ring. Qed.

Lemma lcg_psd (Fm : M3) u : 0 <= qf (lcg Fm) u.
Proof. rewrite qf_lcg. set (w := mulv _ _). d3 w. dunf. nra. Qed.

Lemma det6_lcg (Fm : M3) : det6 (lcg Fm) = det3 Fm * det3 Fm.
Proof. dm Fm; cbv [det6 left_cauchy_green det3]; dunf; ring. Qed.

Lemma lcg_left_rotation (Q Fm : M3) : lcg (mmul Q Fm) = congr Q (lcg Fm).
Proof. dm Q; dm Fm; cbv [left_cauchy_green mmul congr symv transpose]; dunf; tuple_ring. Qed.

Lemma lcg_right_rotation (Fm Q : M3) : orthogonal Q -> lcg (mmul Fm Q) = lcg Fm.
Proof.
  intros H. apply orthogonal_eqs in H. dm Q; dm Fm. destruct H as (H1 & H2 & H3 & H4 & H5 & H6).
  cbv [left_cauchy_green mmul transpose] in *; dunf. split_tuple; nsatz.
Qed.

Definition invertible (Fm : M3) : Prop := det3 Fm <> 0.

(* value = sqrt(largest eigenvalue of F F^T) - 1; the eigenvalue is the largest root of
   the characteristic polynomial, it is the squared stretch |F^T v|^2 along the returned
   unit axis v, no unit direction is stretched more, and it is positive for invertible F *)
Theorem fse_value (eigh : S3 -> EV) (Fm : M3) :
  let B := lcg Fm in
  eig_spec B (eigh B) ->
  let l := last_val (eigh B) in let v := last_vec (eigh B) in
  finite_strain eigh Fm = (sqrt l - 1, v) /\
  charpoly B l = 0 /\ (forall x, charpoly B x = 0 -> x <= l) /\
  symv B v = scale3 l v /\ dot3 v v = 1 /\
  dot3 (mulv (transpose Fm) v) (mulv (transpose Fm) v) = l /\
  (forall u : V3, dot3 u u = 1 -> dot3 (mulv (transpose Fm) u) (mulv (transpose Fm) u) <= l) /\
  0 <= l /\ (invertible Fm -> 0 < l).
Proof.
  intros B H l v. subst l v.
  destruct (eigh B) as [[[l1 l2] l3] [[v1 v2] v3]] eqn:E.
  pose proof H as ([[A1 A2] A] & _ & _ & [Bv N] & _). cbn [last_vec last_val snd fst vz].
  assert (Q3: qf B v3 = l3) by (unfold qf; rewrite Bv, dot3_scale3_r, N; lra).
  assert (P1: 0 <= l1) by (apply (psd_vals_nonneg B l1 l2 l3); [apply lcg_psd|apply H]).
  repeat split; try assumption.
  - unfold finite_strain. fold B. rewrite E. reflexivity.
  - rewrite A. ring.
  - intros x Hx. rewrite A in Hx. exact (roots_le_last l1 l2 l3 x A1 A2 Hx).
  - unfold B in Q3. now rewrite qf_lcg in Q3.
  - intros u Hu. rewrite <- qf_lcg. pose proof (rayleigh_max _ _ _ _ _ _ _ u H) as Hr.
    rewrite Hu in Hr. fold B. lra.
  - lra.
  - intros Hi. destruct (vals_coeffs B l1 l2 l3 (proj1 H)) as (_ & _ & D).
    unfold B in D. rewrite det6_lcg in D. unfold invertible in Hi.
    assert (0 < det3 Fm * det3 Fm) by nra.
    destruct (Req_dec l3 0) as [Z|Z]; [rewrite Z in D; nra|lra].
Qed.

(* F -> F Q: the same left Cauchy-Green tensor; two runs of the routine give the same
   value, and the same axis up to sign when the largest stretch is simple *)
Theorem fse_right_rotation (eigh eigh' : S3 -> EV) (Fm Q : M3) :
  orthogonal Q ->
  lcg (mmul Fm Q) = lcg Fm /\
  (eig_spec (lcg Fm) (eigh (lcg Fm)) ->
   eig_spec (lcg (mmul Fm Q)) (eigh' (lcg (mmul Fm Q))) ->
   fst (finite_strain eigh' (mmul Fm Q)) = fst (finite_strain eigh Fm) /\
   (simple_top (eigh (lcg Fm)) ->
    up_to_sign (snd (finite_strain eigh' (mmul Fm Q))) (snd (finite_strain eigh Fm)))).
Proof.
  intros HQ. pose proof (lcg_right_rotation Fm Q HQ) as E. split; [assumption|].
  intros H H'. unfold finite_strain. cbn [fst snd]. rewrite E in *.
  split.
  - unfold last_val.
    replace (fst (eigh' (lcg Fm))) with (fst (eigh (lcg Fm))); [reflexivity|].
    symmetry. apply (vals_unique (lcg Fm)); [apply (eig_spec_last _ _ H')|apply (eig_spec_last _ _ H)].
  - intros Hs. rewrite <- (congr_id (lcg Fm)) in H'.
    destruct (last_vec_congr _ _ _ _ orthogonal_id H H' Hs) as [_ X].
    rewrite mulv_id, congr_id in X. exact X.
Qed.

(* F -> Q F: B -> Q B Q^T; same value, axis co-rotates up to sign *)
Theorem fse_left_rotation (eigh eigh' : S3 -> EV) (Q Fm : M3) :
  lcg (mmul Q Fm) = congr Q (lcg Fm) /\
  (orthogonal Q ->
   eig_spec (lcg Fm) (eigh (lcg Fm)) ->
   eig_spec (lcg (mmul Q Fm)) (eigh' (lcg (mmul Q Fm))) ->
   fst (finite_strain eigh' (mmul Q Fm)) = fst (finite_strain eigh Fm) /\
   (simple_top (eigh (lcg Fm)) ->
    up_to_sign (snd (finite_strain eigh' (mmul Q Fm))) (mulv Q (snd (finite_strain eigh Fm))))).
Proof.
  split; [apply lcg_left_rotation|]. intros HQ H H'. unfold finite_strain. cbn [fst snd].
  rewrite lcg_left_rotation in *. split.
  - unfold last_val.
    replace (fst (eigh' (congr Q (lcg Fm)))) with (fst (eigh (lcg Fm))); [reflexivity|].
    symmetry. apply (vals_unique (congr Q (lcg Fm))); [apply (eig_spec_last _ _ H')|].
    apply vals_spec_congr; [assumption|apply (eig_spec_last _ _ H)].
  - intros Hs. exact (proj2 (last_vec_congr _ _ _ _ HQ H H' Hs)).
Qed.

(* the mix-up F^T F instead of F F^T does not co-rotate: witness *)
Lemma right_cauchy_green_refuted :
  exists (Q Fm : M3), orthogonal Q /\
    @right_cauchy_green NumR (mmul Q Fm) <> congr Q (@right_cauchy_green NumR Fm).
Proof.
  exists ((0, -1, 0), (1, 0, 0), (0, 0, 1)), ((1, 1, 0), (0, 1, 0), (0, 0, 1)). split.
  - cbv [orthogonal gram id6]; dunf. split_tuple; ring.
  - cbv [right_cauchy_green mmul congr symv transpose]; dunf. intros E.
    injection E; intros; lra.
Qed.

(* simple shear F = I + g e_y (x) e_x *)
Definition shear_F (g : R) : M3 := ((1, 0, 0), (g, 1, 0), (0, 0, 1)).

Lemma shear_facts g : 0 <= g ->
  let s := g / 2 in let t := sqrt (s * s + 1) + s in let mu := 1 + g * t in
  0 < t /\ t * t = g * t + 1 /\ 1 <= mu /\ mu * (2 + g * g - mu) = 1 /\ (0 < g -> 1 < mu).
Proof.
  intros Hg s t mu.
  assert (Hq: 0 <= s * s + 1) by nra.
  pose proof (sqrt_sqrt _ Hq) as Hs. pose proof (sqrt_pos (s * s + 1)) as Hp.
  set (q := sqrt (s * s + 1)) in *.
  assert (Hq1: 1 <= q) by nra.
  assert (Hs0: 0 <= s) by (subst s; lra).
  assert (Ht: 0 < t) by (subst t; lra).
  assert (Ht2: t * t = g * t + 1) by (subst t s; nra).
  assert (Hmu: 1 <= mu) by (subst mu; nra).
  repeat split; try assumption.
  - subst mu. nra.
  - intros. subst mu. nra.
Qed.

Lemma shear_vals g : 0 <= g ->
  let t := sqrt (g / 2 * (g / 2) + 1) + g / 2 in let mu := 1 + g * t in
  vals_spec (lcg (shear_F g)) (2 + g * g - mu, 1, mu).
Proof.
  intros Hg t mu. destruct (shear_facts g Hg) as (Ht & Ht2 & Hmu & Hp & _).
  fold t in Ht, Ht2, Hmu, Hp. fold mu in Hmu, Hp.
  apply coeffs_vals.
  - nra.
  - lra.
  - cbv [tr6 left_cauchy_green shear_F]; dunf. ring.
  - cbv [e2_6 left_cauchy_green shear_F]; dunf. nra.
  - cbv [det6 left_cauchy_green shear_F]; dunf. nra.
Qed.

Theorem fse_simple_shear (eigh : S3 -> EV) g : 0 <= g ->
  let B := lcg (shear_F g) in
  eig_spec B (eigh B) ->
  let theta := @angle_fse_simpleshear NumR (g / 2) * (PI / 180) in
  let ax : V3 := (cos theta, sin theta, 0) in
  tan theta = sqrt (g / 2 * (g / 2) + 1) + g / 2 /\
  last_val (eigh B) = 1 + g * tan theta /\
  eigvec B (last_val (eigh B)) ax /\
  (0 < g -> up_to_sign (snd (finite_strain eigh (shear_F g))) ax).
Proof.
  intros Hg B H theta ax.
  set (t := sqrt (g / 2 * (g / 2) + 1) + g / 2).
  assert (Eth: theta = atan t).
  { subst theta. cbv [angle_fse_simpleshear rad2deg]; numR. fold t. field. apply PI_neq0. }
  destruct (shear_facts g Hg) as (Ht & Ht2 & Hmu & Hp & Hgt). fold t in Ht, Ht2, Hmu, Hp, Hgt.
  set (mu := 1 + g * t) in *.
  pose proof (shear_vals g Hg) as Hv. fold t in Hv. fold mu in Hv. fold B in Hv.
  assert (El: fst (eigh B) = (2 + g * g - mu, 1, mu)).
  { apply (vals_unique B); [apply (eig_spec_last _ _ H)|assumption]. }
  assert (Etan: tan theta = t) by (rewrite Eth; apply tan_atan).
  assert (El3: last_val (eigh B) = mu) by (unfold last_val; rewrite El; reflexivity).
  assert (Hn: 0 < 1 + t * t) by nra.
  assert (Hsq: 0 < sqrt (1 + t * t)) by (apply sqrt_lt_R0; assumption).
  assert (Hss: sqrt (1 + t * t) * sqrt (1 + t * t) = 1 + t * t) by (apply sqrt_sqrt; lra).
  assert (Eax: ax = (1 / sqrt (1 + t * t), t / sqrt (1 + t * t), 0)).
  { subst ax. rewrite Eth, cos_atan, sin_atan. unfold Rsqr. reflexivity. }
  assert (Hev: eigvec B mu ax).
  { rewrite Eax. set (rr := sqrt (1 + t * t)) in *. assert (Hr0: rr <> 0) by lra. split.
    - cbv [B left_cauchy_green shear_F symv scale3]; dunf.
      split_tuple; field_simplify_eq; try assumption; subst mu; nra.
    - dunf. field_simplify_eq; try assumption. nra. }
  refine (conj _ (conj _ (conj _ _))).
  - exact Etan.
  - rewrite El3, Etan. reflexivity.
  - rewrite El3. exact Hev.
  - intros Hg0. unfold finite_strain. cbn [snd]. fold B.
    destruct (eigh B) as [[[l1 l2] l3] [[v1 v2] v3]] eqn:E.
    cbn [fst] in El. injection El as -> -> ->. cbn [last_vec snd].
    assert (Hs: 1 < mu) by (apply Hgt; assumption).
    destruct (top_unique _ _ _ _ _ _ _ ax H Hs Hev) as [X|X]; unfold up_to_sign.
    + left. now rewrite X.
    + right. rewrite X. symmetry. apply neg3_invol.
Qed.

(* ------------------------------------------------------------------------- *)
(* statements about the model's scatter (not the auxiliary scatterR)          *)
(* ------------------------------------------------------------------------- *)
Theorem scatter_perm os os' r : Permutation os os' -> @scatter NumR os r = scatter os' r.
Proof. intros. rewrite !scatter_R. now apply scatterR_perm. Qed.
Theorem scatter_twofold os os' r : Forall2 axes_flipped os os' -> @scatter NumR os r = scatter os' r.
Proof. intros. rewrite !scatter_R. now apply scatterR_twofold. Qed.
Theorem scatter_frame (Q : M3) os r :
  @scatter NumR (map (rotate_frame Q) os) r = congr Q (scatter os r).
Proof. rewrite !scatter_R. apply scatterR_frame. Qed.
Theorem scatter_trace os r : Forall unit_rows os -> tr6 (@scatter NumR os r) = INR (length os).
Proof. rewrite scatter_R. apply scatterR_trace. Qed.
Theorem scatter_eigs_nonneg os r l1 l2 l3 :
  vals_spec (@scatter NumR os r) (l1, l2, l3) -> 0 <= l1 /\ 0 <= l2 /\ 0 <= l3.
Proof.
  intros H. rewrite scatter_R in H.
  pose proof (psd_vals_nonneg _ _ _ _ (scatterR_psd os r) H). destruct H as [[A B] _]. lra.
Qed.

(* non-vacuity: a single grain aligned with the frame *)
Definition ex_eig : EV := ((0, 0, 1), ((0, 1, 0), (0, 0, 1), (1, 0, 0))).
Lemma nonvacuous_diag :
  (I3 :: nil) <> nil /\ Forall unit_rows (I3 :: nil) /\ orthogonal I3 /\ invertible I3 /\
  eig_spec (@scatter NumR (I3 :: nil) 0) ex_eig /\ simple_top ex_eig /\ anisotropic (fst ex_eig) /\
  eig_spec (lcg (shear_F 1)) ((3 - (1 + 1 * (sqrt (1 / 2 * (1 / 2) + 1) + 1 / 2)), 1,
                                1 + 1 * (sqrt (1 / 2 * (1 / 2) + 1) + 1 / 2)),
      (let t := sqrt (1 / 2 * (1 / 2) + 1) + 1 / 2 in let n := sqrt (1 + t * t) in
       ((t / n, - (1 / n), 0), (0, 0, 1), (1 / n, t / n, 0)))) /\
  axes_flipped I3 ((1, 0, 0), (0, -1, 0), (0, 0, -1)).
Proof.
  split; [discriminate|]. split.
  { constructor; [|constructor]. cbv [unit_rows I3]; dunf. repeat split; ring. }
  split; [apply orthogonal_id|]. split.
  { cbv [invertible det3 I3]. lra. }
  split.
  { rewrite scatter_R. cbv [scatterR fold_right rowv I3 add6 outer6 zero6 ex_eig eig_spec].
    refine (conj _ (conj _ (conj _ (conj _ (conj _ (conj _ _)))))).
    - split; [cbv [ascending]; lra|]. intros x. cbv [charpoly det6 shift6]. ring.
    - split; cbv [symv scale3]; dunf; [split_tuple|]; ring.
    - split; cbv [symv scale3]; dunf; [split_tuple|]; ring.
    - split; cbv [symv scale3]; dunf; [split_tuple|]; ring.
    - dunf; ring.
    - dunf; ring.
    - dunf; ring. }
  split; [cbv [simple_top ex_eig fst]; lra|]. split; [cbv [anisotropic ex_eig fst]; lra|].
  split.
  { pose proof (shear_vals 1 ltac:(lra)) as Hv. cbv zeta in Hv.
    destruct (shear_facts 1 ltac:(lra)) as (Ht & Ht2 & Hmu & Hp & _). cbv zeta in Ht, Ht2, Hmu, Hp.
    set (t := sqrt (1 / 2 * (1 / 2) + 1) + 1 / 2) in *.
    assert (Hn: 0 < 1 + t * t) by nra.
    assert (Hsq: 0 < sqrt (1 + t * t)) by (apply sqrt_lt_R0; assumption).
    assert (Hss: sqrt (1 + t * t) * sqrt (1 + t * t) = 1 + t * t) by (apply sqrt_sqrt; lra).
    cbv zeta. set (n := sqrt (1 + t * t)) in *. assert (Hn0: n <> 0) by lra.
    cbv [eig_spec].
    refine (conj _ (conj _ (conj _ (conj _ (conj _ (conj _ _)))))).
    - replace (3 - (1 + 1 * t)) with (2 + 1 * 1 - (1 + 1 * t)) by ring. exact Hv.
    - split; cbv [left_cauchy_green shear_F symv scale3]; dunf;
        [split_tuple|]; field_simplify_eq; try assumption; nra.
    - split; cbv [left_cauchy_green shear_F symv scale3]; dunf; [split_tuple|]; ring.
    - split; cbv [left_cauchy_green shear_F symv scale3]; dunf;
        [split_tuple|]; field_simplify_eq; try assumption; nra.
    - dunf; ring.
    - dunf; field_simplify_eq; try assumption; ring.
    - dunf; ring. }
  exists 1, (-1), (-1). cbv [sign I3 scale3]. repeat split; try (left; reflexivity); try (right; reflexivity).
  split_tuple; ring.
Qed.
