(* Model_voigt.v -- hand-written executable model of pydrex.minerals.voigt_averages
   (as the source is now: the single-crystal stiffness is looked up by *phase ordinal*,
   `phase_tensors[mineral.phase]`, the phase fraction by position of the phase in the
   assemblage) for any number of minerals, snapshots and grains.  The per-grain work is
   done by the *generated* kernels of Gen_tensors (voigt_to_elastic_tensor,
   elastic_tensor_to_voigt) and by rotate4, the loop form of the generated k_rotate (see
   below); only the validation and the triple loop are hand-written.
   Tied to the source by differential runs of the extracted code against
   pydrex.minerals.voigt_averages (harness/props/c10.py).  No proofs in this file. *)
From Coq Require Import ZArith List Bool Arith.
From PV Require Import Num.
From PV.gen Require Import Gen_tensors.
Import ListNotations.
Local Open Scope num_scope.

Section Model.
  Context {F : Num}.

  (* materialised table  [f 0; ...; f (n-1)] *)
  Definition tab (n : nat) (f : nat -> F) : arr F := mk_arr zero (map f (seq 0 n)).

  (* small 3x3 helpers (flat row-major) *)
  Definition transpose3 (a : arr F) : arr F :=
    mk_arr zero [a 0%nat; a 3%nat; a 6%nat; a 1%nat; a 4%nat; a 7%nat; a 2%nat; a 5%nat; a 8%nat].
  Definition matmul3 (a b : arr F) : arr F :=
    mk_arr zero
      [a 0%nat * b 0%nat + a 1%nat * b 3%nat + a 2%nat * b 6%nat;
       a 0%nat * b 1%nat + a 1%nat * b 4%nat + a 2%nat * b 7%nat;
       a 0%nat * b 2%nat + a 1%nat * b 5%nat + a 2%nat * b 8%nat;
       a 3%nat * b 0%nat + a 4%nat * b 3%nat + a 5%nat * b 6%nat;
       a 3%nat * b 1%nat + a 4%nat * b 4%nat + a 5%nat * b 7%nat;
       a 3%nat * b 2%nat + a 4%nat * b 5%nat + a 5%nat * b 8%nat;
       a 6%nat * b 0%nat + a 7%nat * b 3%nat + a 8%nat * b 6%nat;
       a 6%nat * b 1%nat + a 7%nat * b 4%nat + a 8%nat * b 7%nat;
       a 6%nat * b 2%nat + a 7%nat * b 5%nat + a 8%nat * b 8%nat].
  Definition eye3 : arr F := mk_arr zero [one; zero; zero; zero; one; zero; zero; zero; one].

  (* pydrex.tensors.rotate written with its loops (the generated k_rotate is the same
     function unrolled: 6561 products in one definition, which the OCaml compiler cannot
     digest).  This loop form is what is extracted and run against the implementation;
     Inst_tensors.rotate4_is_k_rotate (kernel-checked) ties it to the generated k_rotate.
     Accumulation order = the order of the Python loops (a, b, c, d nested). *)
  Definition idx4 : list (nat * nat * nat * nat) :=
    flat_map (fun a => flat_map (fun b => flat_map (fun c =>
      map (fun d => (a, b, c, d)) [0; 1; 2]) [0; 1; 2]) [0; 1; 2]) [0; 1; 2]%nat.
  Definition rotate4_comp (t r : arr F) (i j k l : nat) : F :=
    fold_left (fun acc abcd => let '(a, b, c, d) := abcd in
                 acc + r (3 * i + a)%nat * r (3 * j + b)%nat * r (3 * k + c)%nat * r (3 * l + d)%nat
                       * t (27 * a + 9 * b + 3 * c + d)%nat) idx4 zero.
  Definition rotate4 (t r : arr F) : arr F :=
    tab 81 (fun n => rotate4_comp t r (n / 27) ((n / 9) mod 3) ((n / 3) mod 3) (n mod 3)).

  (* a mineral as voigt_averages sees it *)
  Record mineral := mkMineral {
    m_phase : Z;                       (* MineralPhase ordinal *)
    m_ngrains : nat;                   (* the n_grains attribute *)
    m_orients : list (list (arr F));   (* per snapshot: the grains' 3x3 matrices *)
    m_fracs : list (list F) }.         (* per snapshot: the grains' volume fractions *)

  Fixpoint index_of (p : Z) (l : list Z) : option nat :=
    match l with
    | [] => None
    | q :: l' => if Z.eqb q p then Some O
                 else match index_of p l' with Some k => Some (S k) | None => None end
    end.

  Definition zeros36 : arr F := tab 36 (fun _ => zero).
  Definition add36 (a b : arr F) : arr F := tab 36 (fun k => a k + b k).
  Definition scale81 (t : arr F) (c : F) : arr F := tab 81 (fun k => t k * c).

  (* elastic_tensor_to_voigt(rotate(C4, A.transpose()) * f * phi) *)
  Definition grain_term (C4 o : arr F) (f phi : F) : arr F :=
    k_elastic_tensor_to_voigt (scale81 (scale81 (rotate4 C4 (transpose3 o)) f) phi).

  (* evaluation order of the innermost expression: phase_tensors[phase],
     orientations[i][n], fractions[i][n], phase_assemblage.index(phase), phase_fractions[.] *)
  Definition grain_val (ptensors : list (arr F)) (assemblage : list Z) (phis : list F)
             (m : mineral) (i n : nat) : res (arr F) :=
    if Z.ltb (m_phase m) 0 then Err IndexError else
    match nth_error ptensors (Z.to_nat (m_phase m)) with
    | None => Err IndexError
    | Some C4 =>
      match nth_error (nth i (m_orients m) []) n with
      | None => Err IndexError
      | Some o =>
        match nth_error (nth i (m_fracs m) []) n with
        | None => Err IndexError
        | Some f =>
          match index_of (m_phase m) assemblage with
          | None => Err ValueError
          | Some k =>
            match nth_error phis k with
            | None => Err IndexError
            | Some phi => Ok (grain_term C4 o f phi)
            end
          end
        end
      end
    end.

  (* average_tensors[i] += ... *)
  Definition grain_step (ptensors : list (arr F)) (assemblage : list Z) (phis : list F)
             (m : mineral) (i n : nat) (acc : arr F) : res (arr F) :=
    match grain_val ptensors assemblage phis m i n with
    | Err e => Err e
    | Ok v => Ok (add36 acc v)
    end.

  (* a loop with early exit on the first error *)
  Fixpoint loop {A X} (step : X -> A -> res A) (xs : list X) (acc : A) : res A :=
    match xs with
    | [] => Ok acc
    | x :: xs' => match step x acc with Err e => Err e | Ok acc' => loop step xs' acc' end
    end.

  Definition mineral_step (ptensors : list (arr F)) (assemblage : list Z) (phis : list F)
             (ngrains i : nat) (m : mineral) (acc : arr F) : res (arr F) :=
    loop (fun n a => grain_step ptensors assemblage phis m i n a) (seq 0 ngrains) acc.

  Definition snapshot_avg (ptensors : list (arr F)) (assemblage : list Z) (phis : list F)
             (ms : list mineral) (ngrains i : nat) : res (arr F) :=
    loop (mineral_step ptensors assemblage phis ngrains i) ms zeros36.

  Fixpoint all_ok {A} (l : list (res A)) : res (list A) :=
    match l with
    | [] => Ok []
    | Err e :: _ => Err e
    | Ok a :: l' => match all_ok l' with Err e => Err e | Ok r => Ok (a :: r) end
    end.

  (* tensors: the stiffness matrices in phase-ordinal order (StiffnessTensors.__iter__) *)
  Definition voigt_averages (ms : list mineral) (assemblage : list Z) (phis : list F)
             (tensors : list (arr F)) : res (list (arr F)) :=
    match ms with
    | [] => Err IndexError
    | m0 :: rest =>
      let ng := m_ngrains m0 in
      if negb (forallb (fun m => Nat.eqb (m_ngrains m) ng) rest) then Err ValueError else
      let nsteps := length (m_orients m0) in
      if negb (forallb (fun m => Nat.eqb (length (m_orients m)) nsteps) rest) then Err ValueError else
      if negb (forallb (fun m => Nat.eqb (length (m_fracs m)) nsteps) ms) then Err ValueError else
      let ptensors := map k_voigt_to_elastic_tensor tensors in
      all_ok (map (snapshot_avg ptensors assemblage phis ms ng) (seq 0 nsteps))
    end.
End Model.
