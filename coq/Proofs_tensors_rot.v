(* Proofs_tensors_rot.v -- the generated pydrex.tensors.rotate: transformation law,
   identity, composition, norm preservation, symmetry preservation.  Everything is
   derived from the 81 component lemmas (Proofs_tensors_rot0..8) and the algebra of
   mode products (Proofs_tensors_alg); k_rotate itself is never unfolded here. *)
From Coq Require Import Reals ZArith List Lra Lia.
From PV Require Import Num NumR Model_voigt Proofs_tensors_alg.
From PV Require Import Proofs_tensors_rot0 Proofs_tensors_rot1 Proofs_tensors_rot2
  Proofs_tensors_rot3 Proofs_tensors_rot4 Proofs_tensors_rot5 Proofs_tensors_rot6
  Proofs_tensors_rot7 Proofs_tensors_rot8.
From PV.gen Require Import Gen_tensors.
Import ListNotations.
Open Scope R_scope.

Notation RA := (arr NumR).

(* the generated 8-fold loop = four single-index products *)
Theorem rotate_is_mode_products (T Q : RA) : eq4b (t4 (k_rotate T Q)) (rot4 (t4 T) (mat3 Q)).
Proof.
  intros i j k l Hi Hj Hk Hl.
  destruct i as [|[|[|i]]]; [ | | | exfalso; lia ];
  (destruct j as [|[|[|j]]]; [ | | | exfalso; lia ]).
  - apply rotate_tie_00; assumption.
  - apply rotate_tie_01; assumption.
  - apply rotate_tie_02; assumption.
  - apply rotate_tie_10; assumption.
  - apply rotate_tie_11; assumption.
  - apply rotate_tie_12; assumption.
  - apply rotate_tie_20; assumption.
  - apply rotate_tie_21; assumption.
  - apply rotate_tie_22; assumption.
Qed.

(* T'_ijkl = sum_abcd R_ia R_jb R_kc R_ld T_abcd *)
Theorem rotate_transformation_law (T Q : RA) :
  eq4b (t4 (k_rotate T Q)) (rot4_law (t4 T) (mat3 Q)).
Proof.
  eapply eq4b_trans; [apply rotate_is_mode_products|]. apply eq4_eq4b, rot4_is_law.
Qed.

Lemma rotate_extT (T T' Q : RA) : eq4b (t4 T) (t4 T') -> eq4b (t4 (k_rotate T Q)) (t4 (k_rotate T' Q)).
Proof.
  intros H. eapply eq4b_trans; [apply rotate_is_mode_products|].
  eapply eq4b_trans; [apply rot4_extb, H|]. apply eq4b_sym, rotate_is_mode_products.
Qed.

Lemma rotate_extQ (T Q Q' : RA) : eq2b (mat3 Q) (mat3 Q') -> eq4b (t4 (k_rotate T Q)) (t4 (k_rotate T Q')).
Proof.
  intros H. eapply eq4b_trans; [apply rotate_is_mode_products|].
  eapply eq4b_trans; [apply rot4_extR, H|]. apply eq4b_sym, rotate_is_mode_products.
Qed.

Ltac nine a b Ha Hb :=
  destruct a as [|[|[|a]]]; [ | | | exfalso; lia ];
  (destruct b as [|[|[|b]]]; [ | | | exfalso; lia ]).

Lemma mat3_eye3 : eq2b (mat3 (@eye3 NumR)) id3.
Proof.
  intros a b Ha Hb; nine a b Ha Hb;
  cbv [mat3 eye3 mk_arr nth id3 Nat.eqb Nat.add Nat.mul]; numR; reflexivity.
Qed.

Lemma mat3_matmul3 (A B : RA) : eq2b (mat3 (matmul3 A B)) (mm (mat3 A) (mat3 B)).
Proof.
  intros a b Ha Hb; nine a b Ha Hb;
  cbv [mat3 matmul3 mk_arr nth mm sum3 Nat.add Nat.mul]; numR; ring.
Qed.

Lemma mat3_transpose3 (A : RA) : eq2b (mat3 (transpose3 A)) (tr3 (mat3 A)).
Proof.
  intros a b Ha Hb; nine a b Ha Hb;
  cbv [mat3 transpose3 mk_arr nth tr3 Nat.add Nat.mul]; reflexivity.
Qed.

Theorem rotate_id (T : RA) : eq4b (t4 (k_rotate T eye3)) (t4 T).
Proof.
  eapply eq4b_trans; [apply rotate_is_mode_products|].
  eapply eq4b_trans; [apply rot4_extR, mat3_eye3|]. apply rot4_id.
Qed.

Lemma eq2b_sym A B : eq2b A B -> eq2b B A.
Proof. intros H a b ? ?; symmetry; apply H; assumption. Qed.

(* rotate (rotate T R1) R2 = rotate T (R2 . R1), for ALL 3x3 matrices R1 R2 *)
Theorem rotate_compose (T R1 R2 : RA) :
  eq4b (t4 (k_rotate (k_rotate T R1) R2)) (t4 (k_rotate T (matmul3 R2 R1))).
Proof.
  eapply eq4b_trans; [apply rotate_is_mode_products|].
  eapply eq4b_trans; [apply rot4_extb, rotate_is_mode_products|].
  eapply eq4b_trans; [apply eq4_eq4b, rot4_compose|].
  eapply eq4b_trans; [|apply eq4b_sym, rotate_is_mode_products].
  apply rot4_extR, eq2b_sym, mat3_matmul3.
Qed.

(* squared Frobenius norm of a flat array of n entries *)
Definition sumsq (n : nat) (a : nat -> R) : R :=
  fold_right (fun k s => a k * a k + s) 0 (seq 0 n).

Lemma sumsq81_norm4 (a : nat -> R) : sumsq 81 a = norm4 (t4 a).
Proof.
  cbv [sumsq seq fold_right norm4 sum3 t4 Nat.add Nat.mul]. ring.
Qed.

(* R^T R = I  ->  || rotate T R || = || T || *)
Theorem rotate_norm (T Q : RA) : orth (mat3 Q) -> sumsq 81 (k_rotate T Q) = sumsq 81 T.
Proof.
  intros H. rewrite !sumsq81_norm4.
  rewrite (norm4_extb _ _ (rotate_is_mode_products T Q)). apply norm4_rot4, H.
Qed.

Theorem rotate_symmetries (T Q : RA) : elastic_sym (t4 T) -> elastic_sym (t4 (k_rotate T Q)).
Proof.
  intros H. pose proof (rot4_elastic_sym _ (mat3 Q) H) as (H1 & H2 & H3).
  pose proof (rotate_is_mode_products T Q) as E.
  repeat split.
  - eapply eq4b_trans; [apply sw12_b, E|]. eapply eq4b_trans; [apply H1|]. apply eq4b_sym, E.
  - eapply eq4b_trans; [apply sw34_b, E|]. eapply eq4b_trans; [apply H2|]. apply eq4b_sym, E.
  - eapply eq4b_trans; [apply swMaj_b, E|]. eapply eq4b_trans; [apply H3|]. apply eq4b_sym, E.
Qed.

(* linearity in the tensor (used by the Voigt average) *)
Theorem rotate_linear (T1 T2 T : RA) (c e : R) (Q : RA) :
  eq4b (t4 T) (fun a b p q => c * t4 T1 a b p q + e * t4 T2 a b p q) ->
  eq4b (t4 (k_rotate T Q))
       (fun a b p q => c * t4 (k_rotate T1 Q) a b p q + e * t4 (k_rotate T2 Q) a b p q).
Proof.
  intros H.
  eapply eq4b_trans; [apply rotate_is_mode_products|].
  eapply eq4b_trans; [apply rot4_extb, H|].
  eapply eq4b_trans; [apply eq4_eq4b, rot4_linear|].
  intros a b p q Ha Hb Hp Hq.
  rewrite (rotate_is_mode_products T1 Q a b p q), (rotate_is_mode_products T2 Q a b p q) by assumption.
  reflexivity.
Qed.
