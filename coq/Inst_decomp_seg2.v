(* Inst_decomp_seg2.v -- iteration 2 of the pairing loop of elasticity_components, as regenerated from the
   source (Gen_decomp.k_ec_sccs_col_2: every path of `if angle_eigvects < angle`, `dot_eigvects != 0`,
   np.sign, `int(abs(index_vij))`, the averaging and the normalisation), equals Model_decomp.sccs_col .. 2. *)
From Coq Require Import Reals ZArith List Bool Lra Lia.
From PV Require Import Num NumR Model_voigt Model_decomp Inst_decomp_base.
From PV.gen Require Import Gen_tensors Gen_decomp.
Import ListNotations.
Open Scope R_scope.

Theorem sccs_col_inst_2 : sccs_stmt (@k_ec_sccs_col_2 NumR) 2.
Proof. sccs_tac (@k_ec_sccs_col_2). Qed.
