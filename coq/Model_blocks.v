(* Model_blocks.v -- size-generic model of BLOCKED evaluation of a row-wise computation: a stack of rows is cut into
   consecutive blocks of b rows (the last block shorter: the tail), each block is evaluated separately and the results
   are concatenated.  `full_blocks` is the floor-division variant (only the length / b full blocks; seeded change C14f).
   No proofs in this file. *)
From Coq Require Import List Arith.
Import ListNotations.

Fixpoint chunks_aux {A} (fuel b : nat) (l : list A) : list (list A) :=
  match fuel with
  | 0 => []
  | S f => match l with
           | [] => []
           | _ => firstn b l :: chunks_aux f b (skipn b l)
           end
  end.

(* consecutive blocks of b rows, tail included *)
Definition chunks {A} (b : nat) (l : list A) : list (list A) := chunks_aux (length l) b l.

(* range(n // b): the full blocks only *)
Definition full_blocks {A} (b : nat) (l : list A) : list (list A) := firstn (length l / b) (chunks b l).

(* evaluate block by block and concatenate *)
Definition blocked {A B} (b : nat) (f : list A -> list B) (l : list A) : list B := concat (map f (chunks b l)).
Definition blocked_floor {A B} (b : nat) (f : list A -> list B) (l : list A) : list B := concat (map f (full_blocks b l)).
