(* Proofs_frame.v -- C04: frame indifference of the published model (Spec_drex), hence of
   the generated solver kernel (by Proofs_spec.grain_eq_spec). *)
From Coq Require Import Reals ZArith List Bool Lra Lia Nsatz.
From PV Require Import Num NumR Model_core Spec_drex Proofs_core.
Import ListNotations.
Open Scope R_scope.

Notation RA := (arr NumR).

(* ---- 3x3 matrices as flat arrays ----------------------------------------------------- *)
Definition mm (A B : arr R) : arr R :=
  let e i j := A (3*i)%nat * B j + A (3*i+1)%nat * B (3+j)%nat + A (3*i+2)%nat * B (6+j)%nat in
  mk_arr 0 [e 0 0; e 0 1; e 0 2; e 1 0; e 1 1; e 1 2; e 2 0; e 2 1; e 2 2]%nat.
Definition tp (A : arr R) : arr R := mk_arr 0 [A 0; A 3; A 6; A 1; A 4; A 7; A 2; A 5; A 8]%nat.
Definition conj (Q M : arr R) : arr R := mm (mm Q M) (tp Q).          (* Q M Q^T *)

(* proper rotations: Q^T Q = I and cof Q = Q (equivalent, for an orthogonal matrix, to det Q = 1) *)
Record SO3 (Q : arr R) : Prop := {
  o00 : Q 0%nat * Q 0%nat + Q 3%nat * Q 3%nat + Q 6%nat * Q 6%nat = 1;
  o11 : Q 1%nat * Q 1%nat + Q 4%nat * Q 4%nat + Q 7%nat * Q 7%nat = 1;
  o22 : Q 2%nat * Q 2%nat + Q 5%nat * Q 5%nat + Q 8%nat * Q 8%nat = 1;
  o01 : Q 0%nat * Q 1%nat + Q 3%nat * Q 4%nat + Q 6%nat * Q 7%nat = 0;
  o02 : Q 0%nat * Q 2%nat + Q 3%nat * Q 5%nat + Q 6%nat * Q 8%nat = 0;
  o12 : Q 1%nat * Q 2%nat + Q 4%nat * Q 5%nat + Q 7%nat * Q 8%nat = 0;
  c0 : Q 4%nat * Q 8%nat - Q 5%nat * Q 7%nat = Q 0%nat;
  c1 : Q 5%nat * Q 6%nat - Q 3%nat * Q 8%nat = Q 1%nat;
  c2 : Q 3%nat * Q 7%nat - Q 4%nat * Q 6%nat = Q 2%nat;
  c3 : Q 2%nat * Q 7%nat - Q 1%nat * Q 8%nat = Q 3%nat;
  c4 : Q 0%nat * Q 8%nat - Q 2%nat * Q 6%nat = Q 4%nat;
  c5 : Q 1%nat * Q 6%nat - Q 0%nat * Q 7%nat = Q 5%nat;
  c6 : Q 1%nat * Q 5%nat - Q 2%nat * Q 4%nat = Q 6%nat;
  c7 : Q 2%nat * Q 3%nat - Q 0%nat * Q 5%nat = Q 7%nat;
  c8 : Q 0%nat * Q 4%nat - Q 1%nat * Q 3%nat = Q 8%nat }.

Definition det3 (Q : arr R) : R :=
  Q 0%nat * (Q 4%nat * Q 8%nat - Q 5%nat * Q 7%nat) - Q 1%nat * (Q 3%nat * Q 8%nat - Q 5%nat * Q 6%nat)
  + Q 2%nat * (Q 3%nat * Q 7%nat - Q 4%nat * Q 6%nat).

(* an SO3 matrix has determinant one (so the record does describe proper rotations) *)
Lemma SO3_det Q : SO3 Q -> det3 Q = 1.
Proof. intros [H00 H11 H22 H01 H02 H12 C0 C1 C2 C3 C4 C5 C6 C7 C8]. unfold det3. nsatz. Qed.

Ltac flat := cbv [spec_invariant spec_invariants spec_schmid spec_rate spec_spin spec_gamma0 frob sym2 skw2 e2
                  mm tp conj row dot mvec cross vnth sys_l sys_n mk_arr List.nth Nat.add Nat.mul eps15].

(* ---- slip invariants are frame invariant (uses only Q^T Q = I) --------------------------- *)
Lemma invariant_frame (Q A D : arr R) s : SO3 Q -> (s < 4)%nat ->
  @spec_invariant NumR (conj Q D) (mm A (tp Q)) s = @spec_invariant NumR D A s.
Proof.
  intros [H00 H11 H22 H01 H02 H12 _ _ _ _ _ _ _ _ _] Hs.
  destruct s as [|[|[|[|s]]]]; try lia; flat; numR; nsatz.
Qed.

Lemma invariants_frame (Q A D : arr R) : SO3 Q ->
  @spec_invariants NumR (conj Q D) (mm A (tp Q)) = @spec_invariants NumR D A.
Proof.
  intros HQ. unfold spec_invariants.
  rewrite !(invariant_frame Q A D) by (exact HQ || lia). reflexivity.
Qed.

(* ---- Schmid tensor co-rotates: G(A Q^T) = Q G(A) Q^T (no orthogonality needed) ------------ *)
Lemma schmid_frame (Q A : arr R) (b : arr R) k : (k < 9)%nat ->
  @spec_schmid NumR (mm A (tp Q)) b k = conj Q (@spec_schmid NumR A b) k.
Proof.
  intros Hk. do 9 (destruct k as [|k]; [flat; numR; ring|]). lia.
Qed.
