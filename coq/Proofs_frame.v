(* Proofs_frame.v -- C04: frame indifference of the published model (Spec_drex), hence of
   the generated solver kernel (by Proofs_spec.grain_eq_spec). *)
From Coq Require Import Reals ZArith List Bool Lra Lia Nsatz.
From PV Require Import Num NumR Model_core Spec_drex Proofs_core.
Import ListNotations.
Open Scope R_scope.

Notation RA := (arr NumR).

(* ---- 3x3 matrices as flat arrays ----------------------------------------------------- *)
Definition mm (A B : arr R) : arr R :=
  let e i j := A (3*i)%nat * B j + A (3*i+1)%nat * B (3+j)%nat + A (3*i+2)%nat * B (6+j)%nat in
  mk_arr 0 [e 0 0; e 0 1; e 0 2; e 1 0; e 1 1; e 1 2; e 2 0; e 2 1; e 2 2]%nat.
Definition tp (A : arr R) : arr R := mk_arr 0 [A 0; A 3; A 6; A 1; A 4; A 7; A 2; A 5; A 8]%nat.
Definition conj (Q M : arr R) : arr R := mm (mm Q M) (tp Q).          (* Q M Q^T *)

(* proper rotations: Q^T Q = I and cof Q = Q (equivalent, for an orthogonal matrix, to det Q = 1) *)
Record SO3 (Q : arr R) : Prop := {
  o00 : Q 0%nat * Q 0%nat + Q 3%nat * Q 3%nat + Q 6%nat * Q 6%nat = 1;
  o11 : Q 1%nat * Q 1%nat + Q 4%nat * Q 4%nat + Q 7%nat * Q 7%nat = 1;
  o22 : Q 2%nat * Q 2%nat + Q 5%nat * Q 5%nat + Q 8%nat * Q 8%nat = 1;
  o01 : Q 0%nat * Q 1%nat + Q 3%nat * Q 4%nat + Q 6%nat * Q 7%nat = 0;
  o02 : Q 0%nat * Q 2%nat + Q 3%nat * Q 5%nat + Q 6%nat * Q 8%nat = 0;
  o12 : Q 1%nat * Q 2%nat + Q 4%nat * Q 5%nat + Q 7%nat * Q 8%nat = 0;
  c0 : Q 4%nat * Q 8%nat - Q 5%nat * Q 7%nat = Q 0%nat;
  c1 : Q 5%nat * Q 6%nat - Q 3%nat * Q 8%nat = Q 1%nat;
  c2 : Q 3%nat * Q 7%nat - Q 4%nat * Q 6%nat = Q 2%nat;
  c3 : Q 2%nat * Q 7%nat - Q 1%nat * Q 8%nat = Q 3%nat;
  c4 : Q 0%nat * Q 8%nat - Q 2%nat * Q 6%nat = Q 4%nat;
  c5 : Q 1%nat * Q 6%nat - Q 0%nat * Q 7%nat = Q 5%nat;
  c6 : Q 1%nat * Q 5%nat - Q 2%nat * Q 4%nat = Q 6%nat;
  c7 : Q 2%nat * Q 3%nat - Q 0%nat * Q 5%nat = Q 7%nat;
  c8 : Q 0%nat * Q 4%nat - Q 1%nat * Q 3%nat = Q 8%nat }.

Definition det3 (Q : arr R) : R :=
  Q 0%nat * (Q 4%nat * Q 8%nat - Q 5%nat * Q 7%nat) - Q 1%nat * (Q 3%nat * Q 8%nat - Q 5%nat * Q 6%nat)
  + Q 2%nat * (Q 3%nat * Q 7%nat - Q 4%nat * Q 6%nat).

(* an SO3 matrix has determinant one (so the record does describe proper rotations) *)
Lemma SO3_det Q : SO3 Q -> det3 Q = 1.
Proof.
  intros [H00 H11 H22 H01 H02 H12 C0 C1 C2 C3 C4 C5 C6 C7 C8]. unfold det3.
  (* det = first column of Q dotted with first column of cof Q = |column 0|^2 *)
  replace (Q 0%nat * (Q 4%nat * Q 8%nat - Q 5%nat * Q 7%nat) - Q 1%nat * (Q 3%nat * Q 8%nat - Q 5%nat * Q 6%nat)
           + Q 2%nat * (Q 3%nat * Q 7%nat - Q 4%nat * Q 6%nat))
    with (Q 0%nat * (Q 4%nat * Q 8%nat - Q 5%nat * Q 7%nat) + Q 3%nat * (Q 2%nat * Q 7%nat - Q 1%nat * Q 8%nat)
          + Q 6%nat * (Q 1%nat * Q 5%nat - Q 2%nat * Q 4%nat)) by ring.
  rewrite C0, C3, C6. exact H00.
Qed.

Ltac flat := cbv [spec_invariant spec_invariants spec_schmid spec_rate spec_spin spec_gamma0 frob sym2 skw2 e2
                  mm tp conj row dot mvec cross vnth sys_l sys_n mk_arr List.nth Nat.add Nat.mul eps15].

(* ---- slip invariants are frame invariant (uses only Q^T Q = I) --------------------------- *)
Ltac inv_frame_tac :=
  intros [H00 H11 H22 H01 H02 H12 _ _ _ _ _ _ _ _ _]; flat; numR; nsatz.

Lemma invariant_frame0 (Q A D : arr R) : SO3 Q ->
  @spec_invariant NumR (conj Q D) (mm A (tp Q)) 0 = @spec_invariant NumR D A 0.
Proof. inv_frame_tac. Qed.
Lemma invariant_frame1 (Q A D : arr R) : SO3 Q ->
  @spec_invariant NumR (conj Q D) (mm A (tp Q)) 1 = @spec_invariant NumR D A 1.
Proof. inv_frame_tac. Qed.
Lemma invariant_frame2 (Q A D : arr R) : SO3 Q ->
  @spec_invariant NumR (conj Q D) (mm A (tp Q)) 2 = @spec_invariant NumR D A 2.
Proof. inv_frame_tac. Qed.
Lemma invariant_frame3 (Q A D : arr R) : SO3 Q ->
  @spec_invariant NumR (conj Q D) (mm A (tp Q)) 3 = @spec_invariant NumR D A 3.
Proof. inv_frame_tac. Qed.

Lemma invariants_frame (Q A D : arr R) : SO3 Q ->
  @spec_invariants NumR (conj Q D) (mm A (tp Q)) = @spec_invariants NumR D A.
Proof.
  intros HQ. unfold spec_invariants.
  rewrite (invariant_frame0 Q A D HQ), (invariant_frame1 Q A D HQ), (invariant_frame2 Q A D HQ),
          (invariant_frame3 Q A D HQ). reflexivity.
Qed.

(* ---- Schmid tensor co-rotates: G(A Q^T) = Q G(A) Q^T (no orthogonality needed) ------------ *)
Lemma schmid_frame (Q A : arr R) (b : arr R) k : (k < 9)%nat ->
  @spec_schmid NumR (mm A (tp Q)) b k = conj Q (@spec_schmid NumR A b) k.
Proof.
  intros Hk. do 9 (destruct k as [|k]; [flat; numR; ring|]). lia.
Qed.

(* ---- the least-squares slip rate is frame invariant ---------------------------------------- *)
Definition F4 (G L : arr R) : R :=
  let s (M : arr R) i j := M (3*i+j)%nat + M (3*j+i)%nat in
  let t i j := s G i j * s L i j in
  t 0%nat 0%nat + t 0%nat 1%nat + t 0%nat 2%nat + t 1%nat 0%nat + t 1%nat 1%nat + t 1%nat 2%nat
  + t 2%nat 0%nat + t 2%nat 1%nat + t 2%nat 2%nat.
Lemma frob_F4 (G L : arr R) : @frob NumR (@sym2 NumR G) (@sym2 NumR L) = F4 G L / 4.
Proof. unfold F4. flat. numR. field. Qed.
Lemma F4_frame (Q G L : arr R) : SO3 Q -> F4 (conj Q G) (conj Q L) = F4 G L.
Proof.
  intros [H00 H11 H22 H01 H02 H12 _ _ _ _ _ _ _ _ _]. unfold F4. flat. numR. nsatz.
Qed.

Lemma gamma0_ext (G1 G2 L : arr R) : (forall k, (k < 9)%nat -> G1 k = G2 k) ->
  @spec_gamma0 NumR G1 L = @spec_gamma0 NumR G2 L.
Proof.
  intros H. cbv [spec_gamma0 frob sym2 e2 Nat.add Nat.mul].
  rewrite !(H 0%nat), !(H 1%nat), !(H 2%nat), !(H 3%nat), !(H 4%nat), !(H 5%nat), !(H 6%nat), !(H 7%nat),
          !(H 8%nat) by lia. reflexivity.
Qed.

Lemma gamma0_frame (Q G L : arr R) : SO3 Q ->
  @spec_gamma0 NumR (conj Q G) (conj Q L) = @spec_gamma0 NumR G L.
Proof.
  intros HQ. unfold spec_gamma0. rewrite !frob_F4, !(F4_frame Q _ _ HQ). reflexivity.
Qed.

(* ---- spin and orientation rate co-rotate (this is where det Q = 1 enters) ------------------- *)
Definition qv (Q : arr R) (v : R * R * R) : R * R * R :=
  let '(x, y, z) := v in
  (Q 0%nat * x + Q 1%nat * y + Q 2%nat * z, Q 3%nat * x + Q 4%nat * y + Q 5%nat * z,
   Q 6%nat * x + Q 7%nat * y + Q 8%nat * z).
Definition cofv (Q : arr R) (v : R * R * R) : R * R * R :=
  let '(x, y, z) := v in
  ((Q 4%nat * Q 8%nat - Q 5%nat * Q 7%nat) * x + (Q 5%nat * Q 6%nat - Q 3%nat * Q 8%nat) * y + (Q 3%nat * Q 7%nat - Q 4%nat * Q 6%nat) * z,
   (Q 2%nat * Q 7%nat - Q 1%nat * Q 8%nat) * x + (Q 0%nat * Q 8%nat - Q 2%nat * Q 6%nat) * y + (Q 1%nat * Q 6%nat - Q 0%nat * Q 7%nat) * z,
   (Q 1%nat * Q 5%nat - Q 2%nat * Q 4%nat) * x + (Q 2%nat * Q 3%nat - Q 0%nat * Q 5%nat) * y + (Q 0%nat * Q 4%nat - Q 1%nat * Q 3%nat) * z).

Lemma cofv_SO3 Q v : SO3 Q -> cofv Q v = qv Q v.
Proof.
  intros [_ _ _ _ _ _ C0 C1 C2 C3 C4 C5 C6 C7 C8]. destruct v as [[x y] z]. unfold cofv, qv.
  rewrite C0, C1, C2, C3, C4, C5, C6, C7, C8. reflexivity.
Qed.

Lemma cross_Q (Q : arr R) u v : @cross NumR (qv Q u) (qv Q v) = cofv Q (@cross NumR u v).
Proof.
  destruct u as [[u0 u1] u2], v as [[v0 v1] v2]. unfold cross, qv, cofv. numR.
  f_equal; [f_equal|]; ring.
Qed.

Lemma row_AQt (Q A : arr R) i : (i < 3)%nat -> @row NumR (mm A (tp Q)) i = qv Q (@row NumR A i).
Proof.
  intros Hi. destruct i as [|[|[|i]]]; try lia; cbv [row mm tp qv mk_arr List.nth Nat.add Nat.mul]; numR;
  (f_equal; [f_equal|]); ring.
Qed.

(* axial(skew(Q M Q^T)) = cof(Q) axial(skew M) for EVERY matrix Q *)
Lemma spin_frame (Q G L : arr R) g :
  @spec_spin NumR (conj Q G) (conj Q L) g = cofv Q (@spec_spin NumR G L g).
Proof.
  cbv [spec_spin skw2 e2 conj mm tp cofv mk_arr List.nth Nat.add Nat.mul]. numR.
  f_equal; [f_equal|]; field.
Qed.

Lemma spin_ext (G1 G2 L : arr R) g : (forall k, (k < 9)%nat -> G1 k = G2 k) ->
  @spec_spin NumR G1 L g = @spec_spin NumR G2 L g.
Proof.
  intros H. cbv [spec_spin skw2 e2 Nat.add Nat.mul].
  rewrite !(H 1%nat), !(H 2%nat), !(H 3%nat), !(H 5%nat), !(H 6%nat), !(H 7%nat) by lia. reflexivity.
Qed.

Definition vnth3 (v : R * R * R) (i : nat) : R :=
  let '(a, b, c) := v in match i with 0%nat => a | 1%nat => b | _ => c end.

(* rows of the rate: (dA/dt)' = (dA/dt) Q^T, i.e. row_i' = Q row_i *)
Lemma rate_frame (Q A G G' L : arr R) g : SO3 Q ->
  (forall k, (k < 9)%nat -> G' k = conj Q G k) ->
  forall k, (k < 9)%nat ->
  @spec_rate NumR (mm A (tp Q)) G' (conj Q L) g k = mm (@spec_rate NumR A G L g) (tp Q) k.
Proof.
  intros HQ HG k Hk.
  assert (Hrow : forall i, (i < 3)%nat ->
            @cross NumR (@spec_spin NumR G' (conj Q L) g) (@row NumR (mm A (tp Q)) i)
            = qv Q (@cross NumR (@spec_spin NumR G L g) (@row NumR A i))).
  { intros i Hi. rewrite (spin_ext G' (conj Q G) (conj Q L) g HG), spin_frame, row_AQt by exact Hi.
    rewrite (cofv_SO3 Q _ HQ), cross_Q. apply cofv_SO3. exact HQ. }
  unfold spec_rate. cbv zeta.
  rewrite (Hrow 0%nat), (Hrow 1%nat), (Hrow 2%nat) by lia.
  set (r0 := @cross NumR (@spec_spin NumR G L g) (@row NumR A 0)).
  set (r1 := @cross NumR (@spec_spin NumR G L g) (@row NumR A 1)).
  set (r2 := @cross NumR (@spec_spin NumR G L g) (@row NumR A 2)).
  destruct r0 as [[a0 a1] a2], r1 as [[b0 b1] b2], r2 as [[c0' c1'] c2'].
  do 9 (destruct k as [|k]; [cbv [vnth qv mm tp mk_arr List.nth Nat.add Nat.mul]; numR; ring|]). lia.
Qed.

(* ---- one grain: the published model is frame indifferent ------------------------------------ *)
Definition frame_related (Q : arr R) (r r' : res (arr R * R)) : Prop :=
  match r, r' with
  | Ok (Ad, E), Ok (Ad', E') => E' = E /\ forall k, (k < 9)%nat -> Ad' k = mm Ad (tp Q) k
  | Err e, Err e' => e = e'
  | _, _ => False
  end.

Lemma zeros_frame (Q : arr R) k : (k < 9)%nat -> @zeros9s NumR k = mm (@zeros9s NumR) (tp Q) k.
Proof.
  intros Hk. do 9 (destruct k as [|k]; [cbv [zeros9s mm tp mk_arr List.nth Nat.add Nat.mul]; numR; ring|]). lia.
Qed.

Lemma gamma0_frame' (Q A L : arr R) (b : arr R) : SO3 Q ->
  @spec_gamma0 NumR (@spec_schmid NumR (mm A (tp Q)) b) (conj Q L)
  = @spec_gamma0 NumR (@spec_schmid NumR A b) L.
Proof.
  intros HQ. rewrite (gamma0_ext _ (conj Q (@spec_schmid NumR A b)) _ (fun k Hk => schmid_frame Q A b k Hk)).
  apply gamma0_frame. exact HQ.
Qed.

Theorem spec_grain_frame ph fb (Q A D L : arr R) p n lam : SO3 Q ->
  frame_related Q (@spec_grain NumR ph fb A D L p n lam)
                  (@spec_grain NumR ph fb (mm A (tp Q)) (conj Q D) (conj Q L) p n lam).
Proof.
  intros HQ. unfold spec_grain. destruct (tau_table ph fb) as [tau|]; [|reflexivity].
  rewrite (invariants_frame Q A D HQ). set (inv := @spec_invariants NumR D A).
  destruct (all_zero4 inv); [split; [reflexivity|apply zeros_frame]|].
  destruct (Z.eqb ph 0).
  - destruct (all_zero4 (spec_activities tau inv)); [split; [reflexivity|apply zeros_frame]|].
    cbv zeta. rewrite (gamma0_frame' Q A L _ HQ). split; [reflexivity|].
    intros k Hk. apply rate_frame; [exact HQ | intros j Hj; apply schmid_frame; exact Hj | exact Hk].
  - cbv zeta. rewrite (gamma0_frame' Q A L _ HQ). split; [reflexivity|].
    intros k Hk. apply rate_frame; [exact HQ | intros j Hj; apply schmid_frame; exact Hj | exact Hk].
Qed.
