(* Entry_mindex.v -- flat-list entry points of Model_mindex for the extracted driver. *)
From Coq Require Import ZArith List Bool.
From PV Require Import Num Model_mindex.
From PV.gen Require Import Gen_mindex.
Import ListNotations.

Section Entry.
  Context {F : Num}.

  Definition q_of (l : list F) : @quat F :=
    (nth 0 l nzero, nth 1 l nzero, nth 2 l nzero, nth 3 l nzero).
  Definition l_of_q (q : @quat F) : list F := [qx q; qy q; qz q; qw q].
  Fixpoint quats_of (n : nat) (l : list F) : list (@quat F) :=
    match n with O => [] | S n' => q_of l :: quats_of n' (skipn 4 l) end.

  Definition variant_of (c : Z) : QuatVariant := if Z.eqb c 0 then Dropped else Hamilton.

  Definition with_lattice (c : Z) (k : Lattice -> res (list F)) : res (list F) :=
    match lattice_of_code c with Some s => k s | None => Err ValueError end.

  Definition run_qprod (v : Z) (xs : list F) : res (list F) :=
    Ok (l_of_q (qprod (variant_of v) (q_of xs) (q_of (skipn 4 xs)))).

  (* each operator as: tag (0 = quaternion, 1 = diagonal of the 4x4 matrix), 4 numbers *)
  Definition run_symops (sys : Z) (xs : list F) : res (list F) :=
    with_lattice sys (fun s =>
      Ok (flat_map (fun o => match o with
                             | Rot q => nzero :: l_of_q q
                             | Refl d => none :: l_of_q d
                             end) (symmetry_operations s))).

  (* geometry.misorientation_angles for one row: a quaternions against b quaternions *)
  Definition run_misangle (a b : nat) (xs : list F) : res (list F) :=
    let q1 := quats_of a xs in
    let q2 := quats_of b (skipn (4 * a) xs) in
    Ok [lmin (flat_map (fun p => map (fun q => ang1 p q) q2) q1)].

  Definition run_angles (v sys : Z) (n : nat) (xs : list F) : res (list F) :=
    with_lattice sys (fun s => Ok (angles (variant_of v) s (quats_of n xs))).

  Definition run_hist (n : nat) (xs : list F) : res (list F) := Ok (hist_density n xs).

  Definition run_random (sys : Z) (xs : list F) : res (list F) :=
    with_lattice sys (fun s =>
      match xs with
      | [lo; hi] => match misorientations_random lo hi s with Ok r => Ok [r] | Err e => Err e end
      | _ => Err OtherError
      end).

  Definition run_theory (sys : Z) (xs : list F) : res (list F) :=
    with_lattice sys (fun s => theory s).

  Definition run_mindex_angles (sys : Z) (xs : list F) : res (list F) :=
    with_lattice sys (fun s =>
      match mindex_of_angles s xs with Ok r => Ok [r] | Err e => Err e end).

  Definition run_mindex (v sys : Z) (n : nat) (xs : list F) : res (list F) :=
    with_lattice sys (fun s =>
      match mindex_quats (variant_of v) s (quats_of n xs) with Ok r => Ok [r] | Err e => Err e end).

  (* index followed by the pair angles, one pass *)
  Definition run_mindex_full (v sys : Z) (n : nat) (xs : list F) : res (list F) :=
    with_lattice sys (fun s =>
      let angs := angles (variant_of v) s (quats_of n xs) in
      match mindex_of_angles s angs with Ok r => Ok (r :: angs) | Err e => Err e end).

  Definition run_matq (xs : list F) : res (list F) := Ok (mat_of_quat (q_of xs)).

  (* ---- the GENERATED definitions (coq/gen/Gen_mindex.v), run next to the model and the implementation ---- *)
  Definition arr_of (l : list F) : arr F := mk_arr nzero l.

  Definition run_gen_qprod (xs : list F) : res (list F) :=
    Ok (arr_to_list 4 (k_quat_product (arr_of (firstn 4 xs)) (arr_of (skipn 4 xs)))).

  Definition gen_random_of (s : Lattice) : F -> F -> res F :=
    match s with
    | Triclinic => k_misorientations_random_triclinic | Monoclinic => k_misorientations_random_monoclinic
    | Orthorhombic => k_misorientations_random_orthorhombic | Rhombohedral => k_misorientations_random_rhombohedral
    | Tetragonal => k_misorientations_random_tetragonal | Hexagonal => k_misorientations_random_hexagonal
    end.
  Definition gen_index_of (s : Lattice) : arr F -> res F :=
    match s with
    | Triclinic => k_misorientation_index_triclinic | Monoclinic => k_misorientation_index_monoclinic
    | Orthorhombic => k_misorientation_index_orthorhombic | Rhombohedral => k_misorientation_index_rhombohedral
    | Tetragonal => k_misorientation_index_tetragonal | Hexagonal => k_misorientation_index_hexagonal
    end.

  Definition run_gen_random (sys : Z) (xs : list F) : res (list F) :=
    with_lattice sys (fun s =>
      match xs with
      | [lo; hi] => match gen_random_of s lo hi with Ok r => Ok [r] | Err e => Err e end
      | _ => Err OtherError
      end).

  (* the generated index of a given histogram (theta_max numbers) *)
  Definition run_gen_index (sys : Z) (xs : list F) : res (list F) :=
    with_lattice sys (fun s => match gen_index_of s (arr_of xs) with Ok r => Ok [r] | Err e => Err e end).

  (* the generated operator tables, in the format of run_symops (a 4x4 operator is given by its diagonal) *)
  Definition op4l (a : arr F) : list F := nzero :: arr_to_list 4 a.
  Definition op16l (a : arr F) : list F := [none; a 0%nat; a 5%nat; a 10%nat; a 15%nat].
  Definition run_gen_symops (sys : Z) (xs : list F) : res (list F) :=
    with_lattice sys (fun s =>
      Ok match s with
         | Triclinic => op4l k_symmetry_operations_triclinic
         | Monoclinic =>
             let '(o0, o1, o2, o3, o4, o5, o6) := k_symmetry_operations_monoclinic in
             op4l o0 ++ op4l o1 ++ op4l o2 ++ op4l o3 ++ op16l o4 ++ op16l o5 ++ op16l o6
         | Orthorhombic =>
             let '(o0, o1, o2, o3, o4, o5, o6) := k_symmetry_operations_orthorhombic in
             op4l o0 ++ op4l o1 ++ op4l o2 ++ op4l o3 ++ op16l o4 ++ op16l o5 ++ op16l o6
         | Rhombohedral =>
             let '(o0, o1, o2, o3, o4, o5, o6) := k_symmetry_operations_rhombohedral in
             op4l o0 ++ op4l o1 ++ op4l o2 ++ op4l o3 ++ op4l o4 ++ op4l o5 ++ op4l o6
         | Tetragonal =>
             let '(o0, o1, o2, o3, o4, o5, o6, o7, o8, o9) := k_symmetry_operations_tetragonal in
             op4l o0 ++ op4l o1 ++ op4l o2 ++ op4l o3 ++ op4l o4 ++ op4l o5 ++ op4l o6 ++ op4l o7 ++ op4l o8 ++ op4l o9
         | Hexagonal =>
             let '(o0, o1, o2, o3, o4, o5, o6, o7, o8, o9, o10, o11, o12, o13, o14, o15) := k_symmetry_operations_hexagonal in
             op4l o0 ++ op4l o1 ++ op4l o2 ++ op4l o3 ++ op4l o4 ++ op4l o5 ++ op4l o6 ++ op4l o7 ++ op4l o8 ++ op4l o9
             ++ op4l o10 ++ op4l o11 ++ op4l o12 ++ op4l o13 ++ op4l o14 ++ op4l o15
         end).
End Entry.
