(* Entry_mindex.v -- flat-list entry points of Model_mindex for the extracted driver. *)
From Coq Require Import ZArith List Bool.
From PV Require Import Num Model_mindex.
Import ListNotations.

Section Entry.
  Context {F : Num}.

  Definition q_of (l : list F) : @quat F :=
    (nth 0 l nzero, nth 1 l nzero, nth 2 l nzero, nth 3 l nzero).
  Definition l_of_q (q : @quat F) : list F := [qx q; qy q; qz q; qw q].
  Fixpoint quats_of (n : nat) (l : list F) : list (@quat F) :=
    match n with O => [] | S n' => q_of l :: quats_of n' (skipn 4 l) end.

  Definition variant_of (c : Z) : QuatVariant := if Z.eqb c 0 then Dropped else Hamilton.

  Definition with_lattice (c : Z) (k : Lattice -> res (list F)) : res (list F) :=
    match lattice_of_code c with Some s => k s | None => Err ValueError end.

  Definition run_qprod (v : Z) (xs : list F) : res (list F) :=
    Ok (l_of_q (qprod (variant_of v) (q_of xs) (q_of (skipn 4 xs)))).

  (* each operator as: tag (0 = quaternion, 1 = diagonal of the 4x4 matrix), 4 numbers *)
  Definition run_symops (sys : Z) (xs : list F) : res (list F) :=
    with_lattice sys (fun s =>
      Ok (flat_map (fun o => match o with
                             | Rot q => nzero :: l_of_q q
                             | Refl d => none :: l_of_q d
                             end) (symmetry_operations s))).

  (* geometry.misorientation_angles for one row: a quaternions against b quaternions *)
  Definition run_misangle (a b : nat) (xs : list F) : res (list F) :=
    let q1 := quats_of a xs in
    let q2 := quats_of b (skipn (4 * a) xs) in
    Ok [lmin (flat_map (fun p => map (fun q => ang1 p q) q2) q1)].

  Definition run_angles (v sys : Z) (n : nat) (xs : list F) : res (list F) :=
    with_lattice sys (fun s => Ok (angles (variant_of v) s (quats_of n xs))).

  Definition run_hist (n : nat) (xs : list F) : res (list F) := Ok (hist_density n xs).

  Definition run_random (sys : Z) (xs : list F) : res (list F) :=
    with_lattice sys (fun s =>
      match xs with
      | [lo; hi] => match misorientations_random lo hi s with Ok r => Ok [r] | Err e => Err e end
      | _ => Err OtherError
      end).

  Definition run_theory (sys : Z) (xs : list F) : res (list F) :=
    with_lattice sys (fun s => theory s).

  Definition run_mindex_angles (sys : Z) (xs : list F) : res (list F) :=
    with_lattice sys (fun s =>
      match mindex_of_angles s xs with Ok r => Ok [r] | Err e => Err e end).

  Definition run_mindex (v sys : Z) (n : nat) (xs : list F) : res (list F) :=
    with_lattice sys (fun s =>
      match mindex_quats (variant_of v) s (quats_of n xs) with Ok r => Ok [r] | Err e => Err e end).

  (* index followed by the pair angles, one pass *)
  Definition run_mindex_full (v sys : Z) (n : nat) (xs : list F) : res (list F) :=
    with_lattice sys (fun s =>
      let angs := angles (variant_of v) s (quats_of n xs) in
      match mindex_of_angles s angs with Ok r => Ok (r :: angs) | Err e => Err e end).

  Definition run_matq (xs : list F) : res (list F) := Ok (mat_of_quat (q_of xs)).
End Entry.
