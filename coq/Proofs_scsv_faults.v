(* Proofs_scsv_faults.v -- C16, the refusal clauses one by one and the cell level of the round trip.
   (1) one theorem per documented schema fault, over all schemas: save_scsv (any equal-length columns) and
       read_scsv raise SCSVError;
   (2) column count: a data set whose number of columns differs from the number of fields is never written
       (>= 1 row), and its first row is refused with SCSVError when the cells it shares with the fields are accepted;
   (3) the round trip of ONE cell, stated directly: every cell of each of the five types whose text the text layer
       reads back (NaN, infinities, negative zero, integers of any size, complex numbers included) is written and
       read back unchanged; a cell equal to the fill value is written as the missing marker and read back as the
       fill, for any fill ('' and NaN included). *)
From Coq Require Import String Ascii List ZArith Bool NArith Lia.
From PV Require Import Model_scsv Proofs_scsv.
Import ListNotations.
Open Scope string_scope.

Section Faults.
Variable O : oracles.

Definition refused (s : schema) : Prop :=
  (forall data, equal_lengths data -> save O s data = Err SCSV) /\
  (forall rows, read O (YLoaded s) rows = Err SCSV).

(* ---------------------------------------------------------------- (1) schema faults *)
Theorem refused_missing_key_delimiter : forall s, sdelim s = None -> refused s.
Proof. intros s H. apply invalid_schema_refused_proof. apply v_no_delimiter. exact H. Qed.

Theorem refused_missing_key_missing : forall s, smissing s = None -> refused s.
Proof. intros s H. apply invalid_schema_refused_proof. apply v_no_missing. exact H. Qed.

Theorem refused_missing_key_fields : forall s, sfields s = None -> refused s.
Proof. intros s H. apply invalid_schema_refused_proof. apply v_no_fields_key. exact H. Qed.

Theorem refused_no_fields : forall s, sfields s = Some [] -> refused s.
Proof. intros s H. apply invalid_schema_refused_proof. apply v_empty_fields. exact H. Qed.

Theorem refused_delimiter_equals_missing : forall s d, sdelim s = Some d -> smissing s = Some d -> refused s.
Proof. intros s d H1 H2. apply invalid_schema_refused_proof. eapply v_delim_eq_missing; eauto. Qed.

Theorem refused_delimiter_in_missing : forall s d m,
  sdelim s = Some d -> smissing s = Some m -> contains m d = true -> refused s.
Proof. intros s d m H1 H2 H3. apply invalid_schema_refused_proof. eapply v_delim_in_missing; eauto. Qed.

(* the faults of a field: all fields before it pass the checks *)
Theorem refused_name_not_identifier : forall s pre f post n,
  sfields s = Some (pre ++ f :: post)%list -> validate_fields O pre = Ok true ->
  fname f = Some (YStr n) -> o_is_ident O n = false -> refused s.
Proof.
  intros s pre f post n Hf Vp Hn Hi. apply invalid_schema_refused_proof.
  eapply v_field; eauto. eapply bad_name; eauto.
Qed.

Theorem refused_unknown_type : forall s pre f post n,
  sfields s = Some (pre ++ f :: post)%list -> validate_fields O pre = Ok true ->
  fname f = Some (YStr n) -> typemap (type_of f) = None -> refused s.
Proof.
  intros s pre f post n Hf Vp Hn Ht. apply invalid_schema_refused_proof.
  eapply v_field; eauto. eapply bad_type; eauto.
Qed.

Theorem refused_numeric_without_fill : forall s pre f post n t,
  sfields s = Some (pre ++ f :: post)%list -> validate_fields O pre = Ok true ->
  fname f = Some (YStr n) -> typemap (type_of f) = Some t -> (t = TInt \/ t = TFloat \/ t = TCplx) ->
  ffill f = None -> refused s.
Proof.
  intros s pre f post n t Hf Vp Hn Ht Hk Hfill. apply invalid_schema_refused_proof.
  eapply v_field; eauto. eapply no_fill; eauto.
  split; intro; subst t; destruct Hk as [K|[K|K]]; discriminate K.
Qed.

(* ---------------------------------------------------------------- (2) column count *)
(* a data set with at least one row whose number of columns differs from the number of fields is never written *)
Theorem wrong_column_count_never_written : forall s data rows fs,
  save O s data = Ok rows -> sfields s = Some fs -> nrows_of data <> 0 -> length data = length fs.
Proof.
  intros s data rows fs H Hf Hn.
  destruct (save_ok_only_if O s data rows H) as [EL [_ [d [m [fs' [tfs [_ [_ [Hf' [Et [_ A]]]]]]]]]]].
  rewrite Hf in Hf'. injection Hf' as <-.
  destruct data as [|c0 rest]; [contradiction|]. cbn [nrows_of] in *. cbn [equal_lengths] in EL.
  destruct (length c0) as [|n] eqn:L0; [contradiction|].
  assert (F : Forall (fun c => length c = S n) (c0 :: rest)).
  { constructor; [exact L0|]. eapply Forall_impl; [|exact EL]. intros c Hc. cbn beta in Hc. congruence. }
  destruct (heads_some n (c0 :: rest) F) as [hs [E Lh]]. cbn [zipn] in A. rewrite E in A.
  inversion A as [|? ? A0 _]; subst. rewrite <- Lh. rewrite (Forall2_len _ _ _ _ _ A0).
  unfold field_types in Et. clear - Et. revert tfs Et. induction fs as [|f r IH]; intros tfs Et; cbn [map_res] in Et.
  - injection Et as <-. reflexivity.
  - destruct (typemap (type_of f)); [|discriminate]. cbn [bind] in Et. destruct (map_res _ r) as [tr|]; [|discriminate].
    cbn [bind] in Et. injection Et as <-. cbn [length]. rewrite (IH tr eq_refl). reflexivity.
Qed.

(* ... and it is refused with SCSVError when the cells its first row shares with the fields are accepted
   (too many columns: the fields are exhausted first; too few: the cells are) *)
Theorem wrong_column_count_refused : forall s d m fs tfs c0 rest row0 R,
  validate_schema O s = Ok true -> sdelim s = Some d -> smissing s = Some m -> sfields s = Some fs ->
  field_types fs = Ok tfs -> o_delim_err O d = None ->
  Forall (fun c => length c = length c0) rest ->
  zipn (length c0) (c0 :: rest) = row0 :: R ->
  ((exists pre extra, row0 = (pre ++ extra)%list /\ Forall2 (accepted O m) pre tfs /\ extra <> []) \/
   (exists pre extra, tfs = (pre ++ extra)%list /\ Forall2 (accepted O m) row0 pre /\ extra <> [])) ->
  save O s (c0 :: rest) = Err SCSV.
Proof.
  intros s d m fs tfs c0 rest row0 R V Ed Em Ef Et Hd F Z W.
  eapply (invalid_data_refused_proof O s d m fs tfs c0 rest [] row0 R SCSV); eauto.
  - exists []. reflexivity.
  - destruct W as [[pre [extra [-> [A N]]]] | [pre [extra [-> [A N]]]]].
    + apply save_row_too_many; assumption.
    + apply save_row_too_few; assumption.
Qed.

(* ---------------------------------------------------------------- (3) one cell *)
(* the header that is read back gives the field the same fill value *)
Definition fill_faithful (t : ty) (v v' : yval) : Prop :=
  t = TBool \/ exists c, conv O t v = Ok c /\ read_fill O t v' = Ok c.

(* every representable cell, of each of the five types: what save_scsv writes for it is read back as the cell; the
   text is the missing marker exactly when the == / NaN chain selects the cell *)
Theorem cell_roundtrip : forall k m t v v' d,
  plain m = true -> cell_ok O k m t v d = true -> fill_faithful t v v' ->
  exists x, save_cell O m t v d = Ok x /\ parse_cell O t x m v' = Ok d /\
            (x = m <-> substituted O t v d = Ok true).
Proof.
  intros k m t v v' d Pm H Ff. exists (out_text O m t v d). split; [exact (save_cell_ok O k m t v d H)|]. split.
  - apply (parse_out_ok O k m t v v' d Pm H). split; [reflexivity|exact Ff].
  - destruct (cell_ok_subst O k m t v d H) as [b [S _]]. unfold out_text. rewrite S.
    unfold cell_ok in H. apply andb_true_iff in H. destruct H as [H _]. apply andb_true_iff in H. destruct H as [_ N].
    unfold cl_not_missing in N. apply negb_true_iff in N. apply String.eqb_neq in N.
    destruct b; split; intro X; try reflexivity; try congruence.
Qed.

(* what the clause "the text layer reads the cell's text back" asks, type by type: nothing for strings and booleans;
   for the numeric types exactly Python's documented guarantees int(str(z)) == z, float(repr(x)) == x (NaN,
   infinities, negative zero included: the token is compared, not the value), complex(str(c)) == c -- each checked
   on every number of every generated case *)
Lemma cell_eqb_refl : forall c, cell_eqb c c = true.
Proof.
  intros [s|z|f|b|re im]; cbn [cell_eqb].
  - apply String.eqb_refl.
  - apply Z.eqb_refl.
  - destruct f as [|[]|r]; try reflexivity. apply String.eqb_refl.
  - destruct b; reflexivity.
  - destruct re as [|[]|r], im as [|[]|r']; cbn [andb]; rewrite ?String.eqb_refl; reflexivity.
Qed.

Lemma res_cell_eqb_iff : forall r c, res_cell_eqb r c = true <-> r = Ok c.
Proof. intros r c. split; [apply res_cell_eqb_eq|]. intros ->. apply cell_eqb_refl. Qed.

Theorem text_clause_by_type :
  (forall s, cl_text_rt O TStr (CStr s) = true) /\
  (forall b, cl_text_rt O TBool (CBool b) = true) /\
  (forall z, cl_text_rt O TInt (CInt z) = true <-> o_int_of O (o_str_int O z) = Ok z) /\
  (forall f, cl_text_rt O TFloat (CFloat f) = true <-> o_float_of O (fstr f) = Ok f) /\
  (forall re im, cl_text_rt O TCplx (CCplx re im) = true <-> o_cplx_of O (o_str_cplx O re im) = Ok (re, im)).
Proof.
  repeat split.
  - intro s. cbn. apply String.eqb_refl.
  - intros [|]; reflexivity.
  - unfold cl_text_rt. rewrite res_cell_eqb_iff. cbn [conv pystr]. destruct (o_int_of O (o_str_int O z)); cbn [bind]; congruence.
  - unfold cl_text_rt. rewrite res_cell_eqb_iff. cbn [conv pystr]. intros ->. reflexivity.
  - unfold cl_text_rt. rewrite res_cell_eqb_iff. cbn [conv pystr]. destruct (o_float_of O (fstr f)); cbn [bind]; congruence.
  - unfold cl_text_rt. rewrite res_cell_eqb_iff. cbn [conv pystr]. intros ->. reflexivity.
  - unfold cl_text_rt. rewrite res_cell_eqb_iff. cbn [conv pystr].
    destruct (o_cplx_of O (o_str_cplx O re im)) as [[a b]|]; cbn [bind fst snd]; [|discriminate]. intro H. injection H as -> ->. reflexivity.
  - unfold cl_text_rt. rewrite res_cell_eqb_iff. cbn [conv pystr]. intros ->. reflexivity.
Qed.

(* a cell equal to the fill value: for ANY fill -- '' , NaN, numbers given as strings or as numbers -- of a field
   that is not boolean, the cell t(fill) is written as the missing marker, and the missing marker is read back as
   read_fill, i.e. as t(fill) again unless the fill is the text "NaN" (then as t(nan)) *)
Lemma conv_kind : forall t v c, conv O t v = Ok c -> kind_ok t c = true.
Proof.
  intros t v c H. destruct t, v as [|s|z|f|b|]; cbn [conv] in H; try discriminate H;
    try (injection H as <-; reflexivity);
    try (destruct f; try discriminate H; injection H as <-; reflexivity);
    repeat match type of H with
    | bind ?x _ = _ => destruct x eqn:?; cbn [bind] in H; try discriminate H
    end; try (injection H as <-; reflexivity).
Qed.

Lemma feq_refl_not_nan : forall f, f_isnan f = false -> feq f f = true.
Proof. intros [|[]|r] H; try discriminate H; try reflexivity. cbn [feq]. rewrite String.eqb_refl. reflexivity. Qed.

Theorem fill_cell_is_substituted : forall t v c, t <> TBool -> conv O t v = Ok c -> substituted O t v c = Ok true.
Proof.
  intros t v c Nb C. pose proof (conv_kind t v c C) as K. unfold substituted.
  destruct t; try congruence; destruct c; try discriminate K; rewrite C; cbn [bind cell_isnan cell_eq num_of num_eq].
  - rewrite String.eqb_refl. reflexivity.
  - rewrite Z.eqb_refl. reflexivity.
  - destruct (f_isnan f) eqn:N; cbn [bind]; [reflexivity|]. rewrite (feq_refl_not_nan f N). reflexivity.
  - destruct (f_isnan re) eqn:N1; cbn [orb bind]; [reflexivity|].
    destruct (f_isnan im) eqn:N2; cbn [orb bind]; [reflexivity|].
    rewrite (feq_refl_not_nan re N1), (feq_refl_not_nan im N2). reflexivity.
Qed.

Theorem fill_cell_roundtrip : forall m t v c,
  plain m = true -> t <> TBool -> conv O t v = Ok c ->
  (exists y, parse_cell O t (pystr O c) m v = Ok y) ->          (* the per-cell parse check of save_scsv passes *)
  save_cell O m t v c = Ok m /\ parse_cell O t m m v = read_fill O t v /\
  (is_NaN_text v = false -> parse_cell O t m m v = Ok c).
Proof.
  intros m t v c Pm Nb C [y P]. split; [|split].
  - unfold save_cell. rewrite P, (fill_cell_is_substituted t v c Nb C). reflexivity.
  - unfold parse_cell. rewrite (plain_strip _ Pm), String.eqb_refl. reflexivity.
  - intro N. unfold parse_cell, read_fill. rewrite (plain_strip _ Pm), String.eqb_refl, N. exact C.
Qed.

Definition fill_cell_roundtrip_stmt (m : string) (t : ty) (v : yval) (c : cell) : Prop :=
  conv O t v = Ok c /\ save_cell O m t v c = Ok m /\ parse_cell O t m m v = Ok c.

(* a NaN cell of a float / complex field whose fill is NaN (given as the text "NaN", as 'nan', as a float): written
   as the missing marker *)
Theorem nan_cell_is_substituted : forall t v d c,
  (t = TFloat \/ t = TCplx) -> cell_isnan d = Ok true -> conv O t v = Ok c -> cell_isnan c = Ok true ->
  substituted O t v d = Ok true.
Proof. intros t v d c [-> | ->] Hd C Hc; unfold substituted; rewrite Hd, C; cbn [bind]; rewrite Hc; reflexivity. Qed.

End Faults.

(* ---------------------------------------------------------------- by computation: the hypotheses are satisfiable *)
Local Open Scope string_scope.
Lemma fault_examples_proof :
  (* fill '' of a string field; NaN fill of a float field given as text; -0.0 fill: each written as the marker, read back *)
  fill_cell_roundtrip_stmt toyO "-" TStr (YStr "") (CStr "") /\
  fill_cell_roundtrip_stmt toyO "-" TFloat (YStr "NaN") (CFloat FNan) /\
  fill_cell_roundtrip_stmt toyO "-" TFloat (YStr "-0.0") (CFloat (FFin "-0.0")) /\
  fill_cell_roundtrip_stmt toyO "" TInt (YInt 5) (CInt 5) /\
  (* one column too many / one too few, first row otherwise accepted *)
  save toyO ex_schema (ex_data ++ [[CStr "x"; CStr "y"]])%list = Err SCSV /\
  save toyO ex_schema (removelast ex_data) = Err SCSV /\
  (* each schema fault on the example schema *)
  save toyO (mkSchema None (Some "-") (sfields ex_schema)) ex_data = Err SCSV /\
  save toyO (mkSchema (Some ",") (Some "a,b") (sfields ex_schema)) ex_data = Err SCSV /\
  save toyO (sch "," "-" [fld "bad name" "string" None]) [[CStr "x"]] = Err SCSV /\
  save toyO (sch "," "-" [fld "a" "decimal" None]) [[CStr "x"]] = Err SCSV /\
  save toyO (sch "," "-" [fld "a" "float" None]) [[CFloat FNan]] = Err SCSV.
Proof. unfold fill_cell_roundtrip_stmt. repeat split; reflexivity. Qed.
