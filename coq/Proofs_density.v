(* Proofs_density.v -- lemmas about Model_density (R instance): order independence, axial
   sign independence, normalisation, clipping, counting grid inside the unit disk, poles. *)
From Coq Require Import Reals ZArith List Bool Lra Lia Psatz Permutation.
From PV Require Import Num NumR Model_density Proofs_geometry.
From PV.gen Require Import Gen_geometry.
Import ListNotations.
Open Scope R_scope.

Notation V3 := (@vec3 NumR).

(* ------------------------------------------------------------------------- *)
(* sums                                                                      *)
(* ------------------------------------------------------------------------- *)
Definition rsum (l : list R) : R := fold_right Rplus 0 l.

Lemma fold_left_add_R (l : list R) (a : R) : fold_left (@add NumR) l a = a + rsum l.
Proof.
  revert a; induction l as [|x xs IH]; intros a; cbn [fold_left rsum fold_right].
  - numR. ring.
  - rewrite IH. numR. unfold rsum. ring.
Qed.

Lemma sum_list_R (l : list R) : @sum_list NumR l = rsum l.
Proof. unfold sum_list. rewrite fold_left_add_R. numR. ring. Qed.

Lemma rsum_perm l l' : Permutation l l' -> rsum l = rsum l'.
Proof.
  induction 1 as [|x l l' _ IH|x y l|l l' l'' _ IH1 _ IH2]; unfold rsum in *; cbn [fold_right] in *; lra.
Qed.

Lemma rsum_map_div (m : R) l : rsum (map (fun t => t / m) l) = rsum l / m.
Proof.
  induction l as [|x xs IH]; unfold rsum in *; cbn [map fold_right] in *.
  - unfold Rdiv. ring.
  - rewrite IH. unfold Rdiv. ring.
Qed.

Lemma Permutation_filter {A} (f : A -> bool) l l' :
  Permutation l l' -> Permutation (filter f l) (filter f l').
Proof.
  induction 1; cbn [filter].
  - constructor.
  - destruct (f x); [constructor|]; assumption.
  - destruct (f x), (f y); try apply Permutation_refl; apply perm_swap.
  - eapply Permutation_trans; eassumption.
Qed.

(* ------------------------------------------------------------------------- *)
(* kernels and totals: data order                                            *)
(* ------------------------------------------------------------------------- *)
Lemma kernel_apply_perm k sigma axial (cs cs' : list NumR) : Permutation cs cs' ->
  Permutation (fst (@kernel_apply NumR k sigma axial cs)) (fst (@kernel_apply NumR k sigma axial cs'))
  /\ snd (@kernel_apply NumR k sigma axial cs) = snd (@kernel_apply NumR k sigma axial cs').
Proof.
  intros P. unfold kernel_apply. rewrite (Permutation_length P).
  repeat match goal with |- context [Z.eqb k ?c] => destruct (Z.eqb k c) end;
    try destruct axial; cbn [fst snd]; split; try reflexivity;
    try (apply Permutation_map; try apply Permutation_filter; exact P).
Qed.

Lemma total_at_perm k sigma w axial (data data' : list V3) c : Permutation data data' ->
  @total_at NumR k sigma w axial data c = @total_at NumR k sigma w axial data' c.
Proof.
  intros P. unfold total_at.
  set (ps := if axial then _ else _).
  set (ps' := if axial then map nabs (map (fun d => dot3 d c) data') else _).
  assert (PP : Permutation ps ps').
  { subst ps ps'. destruct axial; repeat apply Permutation_map; exact P. }
  destruct (kernel_apply_perm k sigma axial ps ps' PP) as [Pd Es].
  destruct (kernel_apply k sigma axial ps) as [d s].
  destruct (kernel_apply k sigma axial ps') as [d' s'].
  cbn [fst snd] in *. subst s'.
  rewrite !sum_list_R. rewrite (rsum_perm _ _ (Permutation_map _ Pd)). reflexivity.
Qed.

Theorem density_perm_proof k sigma w axial g (data data' : list V3) :
  Permutation data data' ->
  @raw_totals NumR k sigma w axial g data = @raw_totals NumR k sigma w axial g data' /\
  @point_density NumR k sigma w axial g data = @point_density NumR k sigma w axial g data'.
Proof.
  intros P.
  assert (E : @raw_totals NumR k sigma w axial g data = @raw_totals NumR k sigma w axial g data').
  { unfold raw_totals. apply map_ext. intros c. apply total_at_perm, P. }
  split; [exact E|]. unfold point_density. rewrite E. reflexivity.
Qed.

(* ------------------------------------------------------------------------- *)
(* axial data: the sign of each datum                                        *)
(* ------------------------------------------------------------------------- *)
Definition flipped (d d' : V3) : Prop := d' = d \/ d' = @neg3 NumR d.

Lemma abs_dot_flip (d d' c : V3) : flipped d d' ->
  @nabs NumR (@dot3 NumR d' c) = @nabs NumR (@dot3 NumR d c).
Proof.
  intros [->| ->]; [reflexivity|].
  destruct d as [[x y] z], c as [[a b] e]. unfold neg3, dot3. numR.
  replace (- x * a + - y * b + - z * e) with (- (x * a + y * b + z * e)) by ring.
  apply Rabs_Ropp.
Qed.

Lemma abs_products_flip (data data' : list V3) c : Forall2 flipped data data' ->
  map (@nabs NumR) (map (fun d => @dot3 NumR d c) data')
  = map (@nabs NumR) (map (fun d => @dot3 NumR d c) data).
Proof.
  induction 1 as [|d d' l l' Hd _ IH]; [reflexivity|].
  cbn [map]. rewrite IH, (abs_dot_flip d d' c Hd). reflexivity.
Qed.

Theorem density_axial_sign_proof k sigma w g (data data' : list V3) :
  Forall2 flipped data data' ->
  @raw_totals NumR k sigma w true g data' = @raw_totals NumR k sigma w true g data /\
  @point_density NumR k sigma w true g data' = @point_density NumR k sigma w true g data.
Proof.
  intros Hf.
  assert (E : @raw_totals NumR k sigma w true g data' = @raw_totals NumR k sigma w true g data).
  { unfold raw_totals. apply map_ext. intros c. unfold total_at.
    rewrite (abs_products_flip data data' c Hf). reflexivity. }
  split; [exact E|]. unfold point_density. rewrite E. reflexivity.
Qed.

(* ------------------------------------------------------------------------- *)
(* normalisation and clipping                                                *)
(* ------------------------------------------------------------------------- *)
Lemma ofnat_R n : @ofnat NumR n = INR n.
Proof. unfold ofnat. numR. symmetry. apply INR_IZR_INZ. Qed.

Lemma mean_list_R (l : list R) : @mean_list NumR l = rsum l / INR (@length R l).
Proof. unfold mean_list. rewrite sum_list_R, ofnat_R. reflexivity. Qed.

Theorem density_mean_one_proof (ts : list R) :
  @mean_list NumR ts <> 0 -> @mean_list NumR (@normalise NumR ts) = 1.
Proof.
  intros Hm. unfold normalise. set (m := @mean_list NumR ts) in *.
  rewrite mean_list_R. numR. rewrite map_length, rsum_map_div.
  change (T NumR) with R in *.
  assert (Hl : INR (length ts) <> 0).
  { intros E. apply Hm. unfold m. rewrite mean_list_R, E. unfold Rdiv. rewrite Rinv_0. ring. }
  replace (rsum ts) with (m * INR (length ts)).
  - field. split; assumption.
  - unfold m. rewrite mean_list_R. field. exact Hl.
Qed.

Theorem density_nonneg_proof (ts : list R) : Forall (fun t => 0 <= t) (@clip NumR ts).
Proof.
  unfold clip. apply Forall_forall. intros t Ht. apply in_map_iff in Ht.
  destruct Ht as (u & <- & _). numR. destruct (Rltb u 0) eqn:E; bool2prop; lra.
Qed.

(* clipping only raises: the mean of the returned grid is >= 1 when the raw mean is positive *)
Lemma clip_ge (ts : list R) : Forall2 (fun t c => t <= c) ts (@clip NumR ts).
Proof.
  induction ts as [|t ts IH]; [constructor|]. cbn [clip map]. constructor; [|exact IH].
  numR. destruct (Rltb t 0) eqn:E; bool2prop; lra.
Qed.

(* ------------------------------------------------------------------------- *)
(* the counting grid                                                         *)
(* ------------------------------------------------------------------------- *)
Lemma counter_unit (rho h : R) :
  let '(x, y, z) := @counter NumR rho h in x * x + y * y + z * z = 1.
Proof.
  unfold counter.
  pose proof (to_cartesian_char (@npi NumR / @ofZ NumR 2 - rho)
                (@npi NumR / @ofZ NumR 2 - @asin_F NumR h) (@one NumR)) as C.
  destruct (@k_to_cartesian NumR _ _ _) as [[x y] z].
  destruct C as (Cx & Cy & Cz). rewrite Cx, Cy, Cz. numR.
  set (t := PI / 2 - _). set (p := PI / 2 - rho).
  pose proof (sin2_cos2 t) as Ht. pose proof (sin2_cos2 p) as Hp. unfold Rsqr in *.
  replace (1 * sin t * cos p * (1 * sin t * cos p) + 1 * sin t * sin p * (1 * sin t * sin p) +
           1 * cos t * (1 * cos t))
    with (sin t * sin t * (sin p * sin p + cos p * cos p) + cos t * cos t) by ring.
  rewrite Hp. lra.
Qed.

Lemma in_counters g c : In c (@counters NumR g) -> exists rho h, c = @counter NumR rho h.
Proof.
  unfold counters. intros H. apply in_flat_map in H. destruct H as (rho & _ & H).
  apply in_map_iff in H. destruct H as (h & <- & _). eauto.
Qed.

Lemma Forall2_map_In {A B C} (P : B -> C -> Prop) (f : A -> B) (h : A -> C) (l : list A) :
  (forall a, In a l -> P (f a) (h a)) -> Forall2 P (map f l) (map h l).
Proof.
  induction l as [|a l IH]; intros H; cbn [map]; constructor.
  - apply H. left. reflexivity.
  - apply IH. intros b Hb. apply H. right. exact Hb.
Qed.

Lemma length_flat_map_map {A B C} (f : A -> B -> C) (l1 : list A) (l2 : list B) :
  length (flat_map (fun a => map (f a) l2) l1) = (length l1 * length l2)%nat.
Proof.
  induction l1 as [|a l1 IH]; [reflexivity|].
  cbn [flat_map length]. rewrite app_length, map_length, IH. lia.
Qed.

Lemma lambert_pt_in_disk (c : V3) :
  (let '(x, y, z) := c in x * x + y * y + z * z = 1) ->
  fst (@lambert_pt NumR c) * fst (@lambert_pt NumR c)
  + snd (@lambert_pt NumR c) * snd (@lambert_pt NumR c) <= 1.
Proof.
  destruct c as [[x y] z]. intros Hu. unfold lambert_pt.
  destruct (lambert_in_disk_proof x y z Hu) as (X & Y & E & H).
  rewrite E. cbn [fst snd]. exact H.
Qed.

Theorem grid_in_disk_proof k sigma w axial g (data : list V3) :
  let pd := @point_density NumR k sigma w axial g data in
  Forall2 (fun X Y : R => X * X + Y * Y <= 1) (fst (fst pd)) (snd (fst pd)) /\
  length (fst (fst pd)) = (g * g)%nat /\ length (snd pd) = (g * g)%nat.
Proof.
  unfold point_density, clip, normalise, raw_totals. cbn [fst snd]. rewrite !map_length.
  assert (Hlen : length (@counters NumR g) = (g * g)%nat).
  { unfold counters. rewrite length_flat_map_map. unfold mgrid. rewrite !map_length, !seq_length.
    reflexivity. }
  repeat split; try exact Hlen.
  apply Forall2_map_In. intros c Hc. apply lambert_pt_in_disk.
  destruct (in_counters g c Hc) as (rho & h & ->). apply counter_unit.
Qed.

(* ------------------------------------------------------------------------- *)
(* the scale of each kernel (the divisor of every total)                     *)
(* ------------------------------------------------------------------------- *)
Lemma hundredth_pos : 0 < @one_hundredth NumR.
Proof. unfold one_hundredth. numR. lra. Qed.

Lemma kamb_arg_pos n s2 : 1 <= n -> 0 < s2 ->
  0 < n * (1 - s2 / (n + s2)) * (1 - (1 - s2 / (n + s2))).
Proof.
  intros Hn Hs.
  replace (1 - s2 / (n + s2)) with (n / (n + s2)) by (field; lra).
  replace (1 - n / (n + s2)) with (s2 / (n + s2)) by (field; lra).
  assert (0 < / (n + s2)) by (apply Rinv_0_lt_compat; lra).
  unfold Rdiv.
  apply Rmult_lt_0_compat; [apply Rmult_lt_0_compat; [lra | apply Rmult_lt_0_compat; lra]
                           | apply Rmult_lt_0_compat; lra].
Qed.

(* axial counting: positive for any non-empty data set and sigma <> 0, all five kernels *)
Theorem scale_pos_axial_proof k sigma (cs : list NumR) :
  cs <> [] -> sigma <> 0 -> 0 < snd (@kernel_apply NumR k sigma true cs).
Proof.
  intros Hcs Hs. unfold kernel_apply. rewrite ofnat_R.
  assert (Hn : 1 <= INR (length cs)).
  { destruct cs as [|c cs]; [contradiction|]. cbn [length]. rewrite S_INR.
    pose proof (pos_INR (length cs)). lra. }
  set (n := INR (length cs)) in *.
  assert (Hs2 : 0 < sigma * sigma) by nra.
  pose proof hundredth_pos as Hh.
  repeat match goal with |- context [Z.eqb k ?c] => destruct (Z.eqb k c) end; cbn [fst snd];
    unfold kamb_units, kamb_radius; numR.
  - apply sqrt_lt_R0, kamb_arg_pos; assumption.
  - nra.
  - apply sqrt_lt_R0.
    assert (0 < n / (sigma * sigma)) by (apply Rdiv_lt_0_compat; lra).
    set (q := n / (sigma * sigma)) in *.
    replace (2 * (1 + q) / 2 - 1) with q by field.
    apply Rdiv_lt_0_compat; nra.
  - apply sqrt_lt_R0, kamb_arg_pos; assumption.
  - apply sqrt_lt_R0, kamb_arg_pos; assumption.
Qed.

(* non-axial counting with the three Kamb-radius kernels: the scale is sqrt of a
   non-positive number (0 over R, NaN in binary64) as soon as n <= sigma^2 *)
Definition kamb_radius_kernel (k : Z) : Prop := (k = 0 \/ k = 3 \/ k = 4)%Z.

Lemma kamb_arg_nonaxial n s2 : 1 <= n -> 0 < s2 ->
  (s2 < n -> 0 < n * (1 - 2 * (s2 / (n + s2))) * (1 - (1 - 2 * (s2 / (n + s2))))) /\
  (n <= s2 -> n * (1 - 2 * (s2 / (n + s2))) * (1 - (1 - 2 * (s2 / (n + s2)))) <= 0).
Proof.
  intros Hn Hs.
  assert (Hi : 0 < / (n + s2)) by (apply Rinv_0_lt_compat; lra).
  replace (1 - 2 * (s2 / (n + s2))) with ((n - s2) * / (n + s2)) by (field; lra).
  replace (1 - (n - s2) * / (n + s2)) with (2 * s2 * / (n + s2)) by (field; lra).
  set (i := / (n + s2)) in *.
  split; intros H.
  - apply Rmult_lt_0_compat; [apply Rmult_lt_0_compat; [lra | apply Rmult_lt_0_compat; lra]
                             | apply Rmult_lt_0_compat; lra].
  - assert (0 <= n * ((s2 - n) * i) * (2 * s2 * i)).
    { apply Rmult_le_pos; [apply Rmult_le_pos; [lra | apply Rmult_le_pos; lra]
                          | apply Rmult_le_pos; lra]. }
    replace (n * ((n - s2) * i) * (2 * s2 * i)) with (- (n * ((s2 - n) * i) * (2 * s2 * i))) by ring.
    lra.
Qed.

Theorem scale_nonaxial_proof k sigma (cs : list NumR) :
  kamb_radius_kernel k -> cs <> [] -> sigma <> 0 ->
  (sigma * sigma < INR (length cs) -> 0 < snd (@kernel_apply NumR k sigma false cs)) /\
  (INR (length cs) <= sigma * sigma -> snd (@kernel_apply NumR k sigma false cs) = 0).
Proof.
  intros Hk Hcs Hs. unfold kernel_apply. rewrite ofnat_R.
  assert (Hn : 1 <= INR (length cs)).
  { destruct cs as [|c cs]; [contradiction|]. cbn [length]. rewrite S_INR.
    pose proof (pos_INR (length cs)). lra. }
  set (n := INR (length cs)) in *.
  assert (Hs2 : 0 < sigma * sigma) by nra.
  destruct (kamb_arg_nonaxial n (sigma * sigma) Hn Hs2) as [Hp Hz].
  destruct Hk as [->|[->| ->]]; cbn [Z.eqb fst snd Pos.eqb]; unfold kamb_units, kamb_radius; numR;
    (split; intros H; [apply sqrt_lt_R0, Hp, H | apply sqrt_neg_0, Hz, H]).
Qed.

(* ------------------------------------------------------------------------- *)
(* arcsin as modelled                                                        *)
(* ------------------------------------------------------------------------- *)
Lemma asin_F_R (h : R) : -1 <= h <= 1 -> @asin_F NumR h = asin h.
Proof. intros H. unfold asin_F. numR. rewrite asin_acos by exact H. reflexivity. Qed.

(* ------------------------------------------------------------------------- *)
(* poles for any number of orientations                                      *)
(* ------------------------------------------------------------------------- *)
Lemma poles_one_gen ax (A hkl : arr R) : valid_axes ax ->
  @poles_one NumR ax A hkl =
  match poles_gen ax A hkl with
  | Err e => Err e
  | Ok (x, y, z) => Ok (x 0%nat, y 0%nat, z 0%nat)
  end.
Proof. intros Hax. six ax Hax; reflexivity. Qed.

Definition unit_dir (ax : Z) (A hkl : arr R) : R * R * R :=
  (dirn A hkl (fst (axes_of ax)) / dnorm A hkl,
   dirn A hkl (snd (axes_of ax)) / dnorm A hkl,
   dirn A hkl (upward (axes_of ax)) / dnorm A hkl).

Lemma poles_one_char ax (A hkl : arr R) : valid_axes ax ->
  (dnorm A hkl <> 0 -> @poles_one NumR ax A hkl = Ok (unit_dir ax A hkl)) /\
  (dnorm A hkl = 0 -> @poles_one NumR ax A hkl = Err DivZero).
Proof.
  intros Hax. rewrite (poles_one_gen ax A hkl Hax). split; intros H.
  - destruct (poles_gen_char ax A hkl Hax H) as (px & py & pz & E & Hx & Hy & Hz).
    rewrite E. unfold unit_dir. rewrite Hx, Hy, Hz. reflexivity.
  - rewrite (poles_gen_zero ax A hkl Hax H). reflexivity.
Qed.

Theorem poles_are_direction_proof ax (As : list (arr R)) (hkl : arr R) ps : valid_axes ax ->
  @poles_all NumR ax As hkl = Ok ps ->
  Forall2 (fun A p => dnorm A hkl <> 0 /\ p = unit_dir ax A hkl) As ps.
Proof.
  intros Hax. revert ps. induction As as [|A As IH]; intros ps H; cbn [poles_all] in H.
  - injection H as <-. constructor.
  - destruct (poles_one_char ax A hkl Hax) as [Hnz Hz].
    destruct (Req_dec (dnorm A hkl) 0) as [E|E].
    + rewrite (Hz E) in H. discriminate.
    + rewrite (Hnz E) in H. destruct (@poles_all NumR ax As hkl) as [qs|e]; [|discriminate].
      injection H as <-. constructor; [split; [exact E|reflexivity]|]. apply IH. reflexivity.
Qed.

Lemma unit_dir_unit ax (A hkl : arr R) : valid_axes ax -> dnorm A hkl <> 0 ->
  let '(a, b, c) := unit_dir ax A hkl in a * a + b * b + c * c = 1.
Proof.
  intros Hax Hz. unfold unit_dir. pose proof (dnorm_sq A hkl) as Hs.
  six ax Hax; cbn [axes_of fst snd upward Nat.sub] in *; field_simplify_eq; try exact Hz; nra.
Qed.

Theorem poles_unit_proof ax (As : list (arr R)) (hkl : arr R) ps : valid_axes ax ->
  @poles_all NumR ax As hkl = Ok ps ->
  Forall (fun p : R * R * R => let '(a, b, c) := p in a * a + b * b + c * c = 1) ps.
Proof.
  intros Hax H. pose proof (poles_are_direction_proof ax As hkl ps Hax H) as F. clear H.
  induction F as [|A p As ps [Hn ->] _ IH]; constructor.
  - apply unit_dir_unit; assumption.
  - exact IH.
Qed.

(* totality: poles_all succeeds exactly when no orientation annihilates hkl *)
Theorem poles_total_proof ax (As : list (arr R)) (hkl : arr R) : valid_axes ax ->
  Forall (fun A => dnorm A hkl <> 0) As -> exists ps, @poles_all NumR ax As hkl = Ok ps.
Proof.
  intros Hax F. induction F as [|A As Hn _ [ps IH]]; cbn [poles_all].
  - eexists; reflexivity.
  - destruct (poles_one_char ax A hkl Hax) as [Hnz _]. rewrite (Hnz Hn), IH. eexists; reflexivity.
Qed.

(* ------------------------------------------------------------------------- *)
(* non-vacuity of the hypotheses used in Properties/C20.v                    *)
(* ------------------------------------------------------------------------- *)
Definition id9 : arr R := mk_arr 0 [1; 0; 0; 0; 1; 0; 0; 0; 1].
Definition e100 : arr R := mk_arr 0 [1; 0; 0].

Lemma C20_nonvacuous_proof :
  (1 <> 0 \/ 1 <> 0 \/ 1 <> 0) /\
  (6 / 10) * (6 / 10) + 0 * 0 + (8 / 10) * (8 / 10) = 1 /\ ~ tiny2 (6 / 10) 0 /\ tiny2 0 0 /\
  (1 / 2) * (1 / 2) + (1 / 2) * (1 / 2) <= 1 /\
  valid_axes 1 /\ dnorm id9 e100 <> 0 /\
  @mean_list NumR [1; 2] <> 0 /\ ([1] : list R) <> [] /\ 10 <> 0 /\
  kamb_radius_kernel 3 /\ INR (length [1; 1]) <= 10 * 10 /\
  Forall2 flipped [((1, 0, 0) : V3)] [@neg3 NumR (1, 0, 0)].
Proof.
  repeat split; try lra; try discriminate; try (unfold valid_axes; lia).
  - intros [H _]. unfold cut16 in H. rewrite Rabs_right in H by lra. lra.
  - rewrite Rabs_R0. apply cut16_pos.
  - rewrite Rabs_R0. apply cut16_pos.
  - unfold dnorm, dirn, id9, e100, mk_arr. cbn [nth Nat.add].
    apply sqrt_pos_ne. lra.
  - rewrite mean_list_R. unfold rsum. cbn [fold_right length INR]. lra.
  - right. left. reflexivity.
  - cbn [length INR]. lra.
  - constructor; [right; reflexivity|constructor].
Qed.
