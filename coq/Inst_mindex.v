(* Inst_mindex.v -- kernel-checked instance lemmas for the misorientation-index pipeline (tie T, C14).

   coq/gen/Gen_mindex.v is regenerated from the current source on every run by
   translator/specs_mindex.py.  The lemmas below state that each generated definition coincides
   with the hand-written generic model of Model_mindex.v, for ALL inputs:

     quat_product_inst        k_quat_product                      = qprod Dropped   (the product the source computes)
     lattice_table_inst       g_lattice_table                     = lattice_MN / theta_max, in enum order
     symops_inst_SYS          k_symmetry_operations_SYS           = symmetry_operations SYS   (operator by operator)
     misangles_inst_*         k_misorientation_angles_n_a_b       = row-wise minimum of ang1 over operator pairs
     hist_data_inst_SYS_n     k_misorientation_hist_data_SYS_n    = angles Dropped SYS [q0; ..]   (n = 2, 3 grains)
     hist_params_inst         g_hist_params                       = (theta_max, 0, theta_max)
     indices_inst_*           k_misorientation_indices_[pool_]l   = the per-snapshot values, in order

   (the density / index lemmas are in Inst_mindex_random.v and Inst_mindex_index.v.)
   An edit of the source changes Gen_mindex.v and one of these proofs stops compiling. *)
From Coq Require Import Reals ZArith List Bool Lra Lia.
From PV Require Import Num NumR Model_mindex Proofs_mindex.
From PV.gen Require Import Gen_mindex.
Import ListNotations.
Open Scope R_scope.

Notation A := (@mk_arr R 0).

Lemma cons_eq {X} (a b : X) l1 l2 : a = b -> l1 = l2 -> a :: l1 = b :: l2.
Proof. intros -> ->; reflexivity. Qed.
Lemma quat_eq (x y z w x' y' z' w' : R) :
  x = x' -> y = y' -> z = z' -> w = w' -> ((x, y, z, w) : Q4) = (x', y', z', w').
Proof. intros -> -> -> ->; reflexivity. Qed.

(* the quaternion stored at offset o of a flat array *)
Definition qat (a : arr R) (o : nat) : Q4 := (a o, a (S o), a (S (S o)), a (S (S (S o)))).
Definition lq (q : Q4) : list R := [qx q; qy q; qz q; qw q].

(* ------------------------------------------------------------------------- *)
(* utils.quat_product                                                        *)
(* ------------------------------------------------------------------------- *)
Lemma quat_product_inst (q1 q2 : arr R) :
  @k_quat_product NumR q1 q2 = A (lq (@qprod NumR Dropped (qat q1 0) (qat q2 0))).
Proof. reflexivity. Qed.

(* ... and it is NOT the Hamilton product: the generated definition contains cross(q1, q1) *)
Lemma gen_quat_product_refuted :
  (forall k, (k < 4)%nat -> @k_quat_product NumR (A [1; 0; 0; 0]) (A [0; 1; 0; 0]) k = 0) /\
  hmul (1, 0, 0, 0) (0, 1, 0, 0) = (0, 0, 1, 0).
Proof.
  split.
  - intros k Hk. rewrite quat_product_inst.
    do 4 (destruct k as [|k]; [cbv [mk_arr nth lq qat qprod qx qy qz qw fst snd]; numR; ring|]). lia.
  - apply dropped_product_refuted.
Qed.

(* ------------------------------------------------------------------------- *)
(* LatticeSystem.value, stats._max_misorientation                            *)
(* ------------------------------------------------------------------------- *)
Lemma lattice_table_inst :
  length g_lattice_table = 6%nat /\
  forall c s, lattice_of_code c = Some s ->
    nth (Z.to_nat c) g_lattice_table (0, 0, 0)%Z =
    (fst (lattice_MN s), snd (lattice_MN s), Z.of_nat (theta_max s)).
Proof.
  split; [reflexivity|]. intros c s H.
  destruct c as [|p|p]; try discriminate;
    repeat (destruct p as [p|p|]; try discriminate); inversion H; subst; reflexivity.
Qed.

Lemma max_misorientation_other_inst : g_max_misorientation_other_raises = true.
Proof. reflexivity. Qed.

Lemma hist_params_inst :
  length g_hist_params = 6%nat /\
  forall c s, lattice_of_code c = Some s ->
    nth (Z.to_nat c) g_hist_params (0, 0, 0)%Z = (Z.of_nat (theta_max s), 0%Z, Z.of_nat (theta_max s)).
Proof.
  split; [reflexivity|]. intros c s H.
  destruct c as [|p|p]; try discriminate;
    repeat (destruct p as [p|p|]; try discriminate); inversion H; subst; reflexivity.
Qed.

(* ------------------------------------------------------------------------- *)
(* geometry.symmetry_operations                                              *)
(* ------------------------------------------------------------------------- *)
(* a generated operator: 4 entries = rotation quaternion, 16 entries = 4x4 matrix, which must be
   diagonal to be a `Refl` of the model *)
Definition op4 (a : arr R) : OP := Rot (qat a 0).
Definition op16 (a : arr R) : OP := Refl ((a 0%nat, a 5%nat, a 10%nat, a 15%nat) : Q4).
Definition diag16 (a : arr R) : Prop :=
  forall i j, (i < 4)%nat -> (j < 4)%nat -> i <> j -> a (4 * i + j)%nat = 0.

Ltac ceq :=
  solve [ reflexivity
        | lra
        | match goal with |- ?f _ = ?f _ => apply f_equal; ceq end
        | match goal with |- _ / _ = _ / _ => apply f_equal2; ceq end ].

Ltac op_eq := cbv [op4 op16 qat mk_arr nth]; numR; first [ reflexivity | (f_equal; apply quat_eq; ceq) ].
Ltac ops_eq :=
  cbv [symmetry_operations rots rotq flat_map map app qid m1]; numR;
  repeat (apply cons_eq; [ op_eq | ]); reflexivity.

Ltac diag_tac :=
  intros i j Hi Hj Hij;
  do 4 (destruct i as [|i]; [ do 4 (destruct j as [|j]; [ first [ congruence | reflexivity ] | ]); lia | ]); lia.

Lemma symops_inst_triclinic :
  [op4 (@k_symmetry_operations_triclinic NumR)] = @symmetry_operations NumR Triclinic.
Proof. unfold k_symmetry_operations_triclinic. ops_eq. Qed.

Lemma symops_inst_monoclinic :
  let '(o0, o1, o2, o3, o4, o5, o6) := @k_symmetry_operations_monoclinic NumR in
  [op4 o0; op4 o1; op4 o2; op4 o3; op16 o4; op16 o5; op16 o6] = @symmetry_operations NumR Monoclinic
  /\ diag16 o4 /\ diag16 o5 /\ diag16 o6.
Proof.
  unfold k_symmetry_operations_monoclinic. cbv zeta.
  split; [ops_eq|]. repeat split; diag_tac.
Qed.

Lemma symops_inst_orthorhombic :
  let '(o0, o1, o2, o3, o4, o5, o6) := @k_symmetry_operations_orthorhombic NumR in
  [op4 o0; op4 o1; op4 o2; op4 o3; op16 o4; op16 o5; op16 o6] = @symmetry_operations NumR Orthorhombic
  /\ diag16 o4 /\ diag16 o5 /\ diag16 o6.
Proof.
  unfold k_symmetry_operations_orthorhombic. cbv zeta.
  split; [ops_eq|]. repeat split; diag_tac.
Qed.

Lemma symops_inst_rhombohedral :
  let '(o0, o1, o2, o3, o4, o5, o6) := @k_symmetry_operations_rhombohedral NumR in
  [op4 o0; op4 o1; op4 o2; op4 o3; op4 o4; op4 o5; op4 o6] = @symmetry_operations NumR Rhombohedral.
Proof. unfold k_symmetry_operations_rhombohedral. cbv zeta. ops_eq. Qed.

Lemma symops_inst_tetragonal :
  let '(o0, o1, o2, o3, o4, o5, o6, o7, o8, o9) := @k_symmetry_operations_tetragonal NumR in
  [op4 o0; op4 o1; op4 o2; op4 o3; op4 o4; op4 o5; op4 o6; op4 o7; op4 o8; op4 o9]
  = @symmetry_operations NumR Tetragonal.
Proof. unfold k_symmetry_operations_tetragonal. cbv zeta. ops_eq. Qed.

Lemma symops_inst_hexagonal :
  let '(o0, o1, o2, o3, o4, o5, o6, o7, o8, o9, o10, o11, o12, o13, o14, o15) :=
    @k_symmetry_operations_hexagonal NumR in
  [op4 o0; op4 o1; op4 o2; op4 o3; op4 o4; op4 o5; op4 o6; op4 o7; op4 o8; op4 o9; op4 o10; op4 o11;
   op4 o12; op4 o13; op4 o14; op4 o15] = @symmetry_operations NumR Hexagonal.
Proof. unfold k_symmetry_operations_hexagonal. cbv zeta. ops_eq. Qed.

Lemma symop_shapes_inst :
  g_symop_shapes = map (fun s => map (fun o => match o with Rot _ => 4%nat | Refl _ => 16%nat end)
                                     (@symmetry_operations NumR s))
                       [Triclinic; Monoclinic; Orthorhombic; Rhombohedral; Tetragonal; Hexagonal].
Proof. reflexivity. Qed.

(* ------------------------------------------------------------------------- *)
(* geometry.misorientation_angles                                            *)
(* ------------------------------------------------------------------------- *)
(* np.clip(x, -1, 1) = minimum(maximum(x, -1), 1), as generated *)
Definition gclip (x : R) : R :=
  let y := if Rltb x (-1) then -1 else x in if Rltb 1 y then 1 else y.
Lemma gclip_clip1 x : gclip x = @clip1 NumR x.
Proof.
  unfold gclip, clip1, m1; numR. unfold Rltb.
  destruct (Rlt_dec x (-1)), (Rlt_dec x (- (1))); try lra;
    repeat match goal with |- context [Rlt_dec ?a ?b] => destruct (Rlt_dec a b) end; lra.
Qed.

Definition ang1g (p q : Q4) : R := 2 * (acos (Rabs (gclip (qdot p q))) * (180 / PI)).
Lemma ang1g_ang1 p q : ang1g p q = @ang1 NumR p q.
Proof. unfold ang1g, ang1, rad2deg. rewrite gclip_clip1. reflexivity. Qed.

(* one row: minimum over all pairs (i outer, j inner) *)
Definition misrow (ang : Q4 -> Q4 -> R) (l1 l2 : list Q4) : R :=
  @lmin NumR (flat_map (fun p => map (fun q => ang p q) l2) l1).
Definition rowq (a : arr R) (r n : nat) : list Q4 :=
  map (fun j => qat a (4 * (r * n + j))) (seq 0 n).
Definition misangles (ang : Q4 -> Q4 -> R) (N Aa Bb : nat) (q1 q2 : arr R) : list R :=
  map (fun r => misrow ang (rowq q1 r Aa) (rowq q2 r Bb)) (seq 0 N).

Lemma misrow_ext (f g : Q4 -> Q4 -> R) l1 l2 : (forall p q, f p q = g p q) -> misrow f l1 l2 = misrow g l1 l2.
Proof.
  intros H. unfold misrow. f_equal. apply flat_map_ext_in'. intros p _. apply map_ext. intros q. apply H.
Qed.
Lemma misangles_g N Aa Bb q1 q2 : misangles ang1g N Aa Bb q1 q2 = misangles (@ang1 NumR) N Aa Bb q1 q2.
Proof. unfold misangles. apply map_ext. intros r. apply misrow_ext, ang1g_ang1. Qed.

(* both sides are first brought to the same explicit shape (a left nest of `fmin` over the pair
   expressions): plain `reflexivity` lets the kernel unfold `fmin` on one side only, which is
   exponential in the number of operator pairs *)
Ltac misang_tac :=
  intros; rewrite <- misangles_g;
  lazymatch goal with |- ?g _ _ _ = _ => unfold g end;
  cbv zeta;
  cbv [misangles misrow lmin flat_map map app seq fold_left rowq qat Nat.mul Nat.add];
  reflexivity.

Lemma misangles_inst_n1_a1_b1 q1 q2 :
  @k_misorientation_angles_n1_a1_b1 NumR q1 q2 = A (misangles (@ang1 NumR) 1 1 1 q1 q2).
Proof. misang_tac. Qed.
Lemma misangles_inst_n1_a1_b2 q1 q2 :
  @k_misorientation_angles_n1_a1_b2 NumR q1 q2 = A (misangles (@ang1 NumR) 1 1 2 q1 q2).
Proof. misang_tac. Qed.
Lemma misangles_inst_n1_a2_b1 q1 q2 :
  @k_misorientation_angles_n1_a2_b1 NumR q1 q2 = A (misangles (@ang1 NumR) 1 2 1 q1 q2).
Proof. misang_tac. Qed.
Lemma misangles_inst_n1_a2_b2 q1 q2 :
  @k_misorientation_angles_n1_a2_b2 NumR q1 q2 = A (misangles (@ang1 NumR) 1 2 2 q1 q2).
Proof. misang_tac. Qed.
Lemma misangles_inst_n1_a2_b3 q1 q2 :
  @k_misorientation_angles_n1_a2_b3 NumR q1 q2 = A (misangles (@ang1 NumR) 1 2 3 q1 q2).
Proof. misang_tac. Qed.
Lemma misangles_inst_n1_a3_b2 q1 q2 :
  @k_misorientation_angles_n1_a3_b2 NumR q1 q2 = A (misangles (@ang1 NumR) 1 3 2 q1 q2).
Proof. misang_tac. Qed.
Lemma misangles_inst_n2_a2_b2 q1 q2 :
  @k_misorientation_angles_n2_a2_b2 NumR q1 q2 = A (misangles (@ang1 NumR) 2 2 2 q1 q2).
Proof. misang_tac. Qed.
Lemma misangles_inst_n3_a1_b1 q1 q2 :
  @k_misorientation_angles_n3_a1_b1 NumR q1 q2 = A (misangles (@ang1 NumR) 3 1 1 q1 q2).
Proof. misang_tac. Qed.
(* the sizes misorientation_hist uses for 2 and 3 grains *)
Lemma misangles_inst_n1_a7_b7 q1 q2 :
  @k_misorientation_angles_n1_a7_b7 NumR q1 q2 = A (misangles (@ang1 NumR) 1 7 7 q1 q2).
Proof. misang_tac. Qed.
Lemma misangles_inst_n3_a7_b7 q1 q2 :
  @k_misorientation_angles_n3_a7_b7 NumR q1 q2 = A (misangles (@ang1 NumR) 3 7 7 q1 q2).
Proof. misang_tac. Qed.
Lemma misangles_inst_n1_a10_b10 q1 q2 :
  @k_misorientation_angles_n1_a10_b10 NumR q1 q2 = A (misangles (@ang1 NumR) 1 10 10 q1 q2).
Proof. misang_tac. Qed.
Lemma misangles_inst_n3_a10_b10 q1 q2 :
  @k_misorientation_angles_n3_a10_b10 NumR q1 q2 = A (misangles (@ang1 NumR) 3 10 10 q1 q2).
Proof. misang_tac. Qed.
Lemma misangles_inst_n1_a16_b16 q1 q2 :
  @k_misorientation_angles_n1_a16_b16 NumR q1 q2 = A (misangles (@ang1 NumR) 1 16 16 q1 q2).
Proof. misang_tac. Qed.

(* ------------------------------------------------------------------------- *)
(* stats.misorientation_hist up to np.histogram: the pair angles             *)
(* ------------------------------------------------------------------------- *)
Lemma flat_map_map {X Y Z} (g : X -> Y) (f : Y -> list Z) l : flat_map f (map g l) = flat_map (fun x => f (g x)) l.
Proof. induction l as [|a l IH]; cbn [map flat_map]; [reflexivity|]. now rewrite IH. Qed.

Lemma pair_angle_misrow v (ops : list OP) (q1 q2 : Q4) :
  @pair_angle NumR v ops q1 q2 =
  misrow (@ang1 NumR) (map (fun s => apply_op v s q1) ops) (map (fun t => apply_op v t q2) ops).
Proof.
  unfold pair_angle, misrow. f_equal. rewrite flat_map_map. apply flat_map_ext_in'. intros s _.
  now rewrite map_map.
Qed.

Ltac row_eq :=
  cbv [rowq map seq qat Nat.mul Nat.add mk_arr nth op4 op16 apply_op k_quat_product qprod qx qy qz qw fst snd];
  numR; repeat (apply cons_eq; [ apply quat_eq; ring | ]); reflexivity.

(* G: the generated definition, S: the generated operator table, HS: its instance lemma,
   HM: the instance lemma of the misorientation_angles kernel it calls *)
Ltac hist_data_tac G S HS HM :=
  intros; unfold G; cbv beta iota zeta delta [S]; rewrite HM;
  let H := fresh "H" in let H2 := fresh "H" in
  pose proof HS as H; cbv beta iota zeta delta [S] in H;
  lazymatch type of H with _ /\ _ => destruct H as [H2 _] | _ => rename H into H2 end;
  unfold angles; rewrite <- H2; cbv [pairs map app fst snd]; rewrite !pair_angle_misrow;
  apply (f_equal A); cbv [misangles seq map];
  repeat (apply cons_eq; [ apply f_equal2; row_eq | ]); reflexivity.

Lemma hist_data_inst_triclinic_n2 (quats : arr R) :
  @k_misorientation_hist_data_triclinic_n2 NumR quats =
  A (@angles NumR Dropped Triclinic [qat quats 0; qat quats 4]).
Proof.
  hist_data_tac (@k_misorientation_hist_data_triclinic_n2) (@k_symmetry_operations_triclinic)
                symops_inst_triclinic misangles_inst_n1_a1_b1.
Qed.
Lemma hist_data_inst_triclinic_n3 (quats : arr R) :
  @k_misorientation_hist_data_triclinic_n3 NumR quats =
  A (@angles NumR Dropped Triclinic [qat quats 0; qat quats 4; qat quats 8]).
Proof.
  hist_data_tac (@k_misorientation_hist_data_triclinic_n3) (@k_symmetry_operations_triclinic)
                symops_inst_triclinic misangles_inst_n3_a1_b1.
Qed.
Lemma hist_data_inst_monoclinic_n2 (quats : arr R) :
  @k_misorientation_hist_data_monoclinic_n2 NumR quats =
  A (@angles NumR Dropped Monoclinic [qat quats 0; qat quats 4]).
Proof.
  hist_data_tac (@k_misorientation_hist_data_monoclinic_n2) (@k_symmetry_operations_monoclinic)
                symops_inst_monoclinic misangles_inst_n1_a7_b7.
Qed.
Lemma hist_data_inst_monoclinic_n3 (quats : arr R) :
  @k_misorientation_hist_data_monoclinic_n3 NumR quats =
  A (@angles NumR Dropped Monoclinic [qat quats 0; qat quats 4; qat quats 8]).
Proof.
  hist_data_tac (@k_misorientation_hist_data_monoclinic_n3) (@k_symmetry_operations_monoclinic)
                symops_inst_monoclinic misangles_inst_n3_a7_b7.
Qed.
Lemma hist_data_inst_orthorhombic_n2 (quats : arr R) :
  @k_misorientation_hist_data_orthorhombic_n2 NumR quats =
  A (@angles NumR Dropped Orthorhombic [qat quats 0; qat quats 4]).
Proof.
  hist_data_tac (@k_misorientation_hist_data_orthorhombic_n2) (@k_symmetry_operations_orthorhombic)
                symops_inst_orthorhombic misangles_inst_n1_a7_b7.
Qed.
Lemma hist_data_inst_orthorhombic_n3 (quats : arr R) :
  @k_misorientation_hist_data_orthorhombic_n3 NumR quats =
  A (@angles NumR Dropped Orthorhombic [qat quats 0; qat quats 4; qat quats 8]).
Proof.
  hist_data_tac (@k_misorientation_hist_data_orthorhombic_n3) (@k_symmetry_operations_orthorhombic)
                symops_inst_orthorhombic misangles_inst_n3_a7_b7.
Qed.
Lemma hist_data_inst_rhombohedral_n2 (quats : arr R) :
  @k_misorientation_hist_data_rhombohedral_n2 NumR quats =
  A (@angles NumR Dropped Rhombohedral [qat quats 0; qat quats 4]).
Proof.
  hist_data_tac (@k_misorientation_hist_data_rhombohedral_n2) (@k_symmetry_operations_rhombohedral)
                symops_inst_rhombohedral misangles_inst_n1_a7_b7.
Qed.
Lemma hist_data_inst_rhombohedral_n3 (quats : arr R) :
  @k_misorientation_hist_data_rhombohedral_n3 NumR quats =
  A (@angles NumR Dropped Rhombohedral [qat quats 0; qat quats 4; qat quats 8]).
Proof.
  hist_data_tac (@k_misorientation_hist_data_rhombohedral_n3) (@k_symmetry_operations_rhombohedral)
                symops_inst_rhombohedral misangles_inst_n3_a7_b7.
Qed.
Lemma hist_data_inst_tetragonal_n2 (quats : arr R) :
  @k_misorientation_hist_data_tetragonal_n2 NumR quats =
  A (@angles NumR Dropped Tetragonal [qat quats 0; qat quats 4]).
Proof.
  hist_data_tac (@k_misorientation_hist_data_tetragonal_n2) (@k_symmetry_operations_tetragonal)
                symops_inst_tetragonal misangles_inst_n1_a10_b10.
Qed.
Lemma hist_data_inst_tetragonal_n3 (quats : arr R) :
  @k_misorientation_hist_data_tetragonal_n3 NumR quats =
  A (@angles NumR Dropped Tetragonal [qat quats 0; qat quats 4; qat quats 8]).
Proof.
  hist_data_tac (@k_misorientation_hist_data_tetragonal_n3) (@k_symmetry_operations_tetragonal)
                symops_inst_tetragonal misangles_inst_n3_a10_b10.
Qed.
Lemma hist_data_inst_hexagonal_n2 (quats : arr R) :
  @k_misorientation_hist_data_hexagonal_n2 NumR quats =
  A (@angles NumR Dropped Hexagonal [qat quats 0; qat quats 4]).
Proof.
  hist_data_tac (@k_misorientation_hist_data_hexagonal_n2) (@k_symmetry_operations_hexagonal)
                symops_inst_hexagonal misangles_inst_n1_a16_b16.
Qed.

(* ------------------------------------------------------------------------- *)
(* diagnostics.misorientation_indices (sequential stand-in for the pool)     *)
(* ------------------------------------------------------------------------- *)
Lemma indices_inst (m : arr R) :
  (forall k, (k < 1)%nat -> @k_misorientation_indices_l1 NumR m k = m k /\ @k_misorientation_indices_pool_l1 NumR m k = m k) /\
  (forall k, (k < 2)%nat -> @k_misorientation_indices_l2 NumR m k = m k /\ @k_misorientation_indices_pool_l2 NumR m k = m k) /\
  (forall k, (k < 3)%nat -> @k_misorientation_indices_l3 NumR m k = m k /\ @k_misorientation_indices_pool_l3 NumR m k = m k).
Proof.
  repeat split; try reflexivity;
    repeat (destruct k as [|k]; [reflexivity|]); lia.
Qed.
