(* Model_pyconfig.v -- semantics of the small Python subset in which the decision logic of
   pydrex.io's configuration parser is written (group `config`, C19).

   translator/specs_ioconfig.py reads the functions `_parse_phase`, `_parse_config_params`,
   `_parse_config_input_common` and `_parse_output_options` of the CURRENT source with Python's
   `ast` module and writes them, statement by statement, as Gallina terms over the primitives of
   this file (coq/gen/Gen_io_config.v, regenerated on every run; the translator fails closed on any
   construct outside the subset).  Inst_config.v then proves `generated = Model_config.<function>`.

   Values are the `value` type of the generated tables (Python / TOML values with binary64 floats).
   A computation is a `cres`: a value, or the exception it raises (`cerr`); `Unmodelled` marks an
   operation applied outside the domain this file describes -- it is never caught by an `except`
   clause, so it surfaces in every statement about the generated functions.

   Hand-written; the primitives that are not trivially the Python operation (np.sum's summation
   order, binary64 comparison, enum lookups) are the ones Model_config already uses and the
   correspondence run of harness/props/c19.py exercises.  No proofs in this file. *)
From Coq Require Import Floats ZArith String List Bool Ascii.
From PV.gen Require Import Gen_tables_params.
From PV Require Import Model_config.
Import ListNotations.
Open Scope string_scope.

(* ---------------------------------------------------------------- control *)
Definition cret {A} (a : A) : cres A := COk a.
Definition craise {A} (e : cerr) : cres A := CErr e.

Definition err_in (e : cerr) (l : list cerr) : bool :=
  existsb (fun x => match e, x with
                    | ConfigError, ConfigError | TypeErr, TypeErr | ValueErr, ValueErr | KeyErr, KeyErr
                    | AttributeErr, AttributeErr => true
                    | _, _ => false           (* Unmodelled is never caught *)
                    end) l.

(* try: body  except (caught...): handler *)
Definition ctry {A} (body : cres A) (caught : list cerr) (handler : cres A) : cres A :=
  match body with
  | COk a => COk a
  | CErr e => if err_in e caught then handler else CErr e
  end.

(* for x in l: st = body(st, x)   (the loop variables that are assigned form the state) *)
Fixpoint cfor {S} (l : list value) (body : S -> value -> cres S) (st : S) : cres S :=
  match l with
  | [] => COk st
  | x :: r => cbind (body st x) (fun st' => cfor r body st')
  end.

(* ---------------------------------------------------------------- classes (isinstance) *)
Inductive pycls := KFloat | KInt | KStr | KMineralPhase | KMineralFabric.

Definition isinst1 (v : value) (k : pycls) : bool :=
  match k, v with
  | KFloat, VFloat _ => true
  | KInt, VInt _ | KInt, VBool _ | KInt, VEnum _ _ _ => true       (* bool and IntEnum members are ints *)
  | KStr, VStr _ => true
  | KMineralPhase, VEnum c _ _ => String.eqb c "MineralPhase"
  | KMineralFabric, VEnum c _ _ => String.eqb c "MineralFabric"
  | _, _ => false
  end.
Definition py_isinstance (v : value) (ks : list pycls) : bool := existsb (isinst1 v) ks.

(* ---------------------------------------------------------------- containers *)
Definition py_truthy (v : value) : cres bool :=
  match v with
  | VBool b => COk b
  | VNone => COk false
  | VInt z => COk (negb (Z.eqb z 0))
  | VStr s => COk (negb (String.eqb s ""))
  | VList l | VTuple l => COk (negb (Nat.eqb (length l) 0))
  | VTable t => COk (negb (Nat.eqb (length t) 0))
  | _ => CErr Unmodelled
  end.

(* == between the values the translated functions compare (lengths, enumeration members) *)
Definition py_eqb (a b : value) : cres bool :=
  match a, b with
  | VInt x, VInt y => COk (Z.eqb x y)
  | VEnum _ _ x, VEnum _ _ y => COk (Z.eqb x y)                   (* IntEnum: by value *)
  | VStr x, VStr y => COk (String.eqb x y)
  | VJunk x, VJunk y => COk (String.eqb x y)
  | VEnum _ _ _, VJunk _ | VJunk _, VEnum _ _ _ => COk false
  | _, _ => CErr Unmodelled
  end.
Definition py_ne (a b : value) : cres bool := cbind (py_eqb a b) (fun x => COk (negb x)).

Fixpoint any_eq (x : value) (l : list value) : cres bool :=
  match l with
  | [] => COk false
  | y :: r => cbind (py_eqb x y) (fun b => if b then COk true else any_eq x r)
  end.

(* x in c *)
Definition py_in (x c : value) : cres bool :=
  match c with
  | VTable t => match x with VStr k => COk (mem k t) | _ => CErr Unmodelled end
  | VList l | VTuple l => any_eq x l
  | _ => CErr Unmodelled
  end.
Definition py_not_in (x c : value) : cres bool := cbind (py_in x c) (fun b => COk (negb b)).

(* c[k] *)
Definition py_getitem (c k : value) : cres value :=
  match c, k with
  | VTable t, VStr s => match get s t with Some v => COk v | None => CErr KeyErr end
  | VOpaque _ _, _ => CErr TypeErr                (* a function / loaded object is not subscriptable *)
  | _, _ => CErr Unmodelled
  end.

(* c[k] = v on a local name: the name is rebound to the updated dictionary *)
Definition py_setitem (c k v : value) : cres value :=
  match c, k with
  | VTable t, VStr s => COk (VTable (dset s v t))
  | _, _ => CErr Unmodelled
  end.

(* c.get(k, d): numbers, strings, None, lists, tuples, enumeration members and their attributes have no `.get`;
   what an opaque object (loaded file, callable) does is not modelled *)
Definition py_get (c k d : value) : cres value :=
  match c with
  | VTable t => match k with VStr s => COk (getd s t d) | _ => CErr Unmodelled end
  | VOpaque _ _ => CErr Unmodelled
  | _ => CErr AttributeErr
  end.

(* c.items() *)
Definition py_items (c : value) : cres (list value) :=
  match c with
  | VTable t => COk (map (fun kv => VTuple [VStr (fst kv); snd kv]) t)
  | _ => CErr Unmodelled
  end.

(* key, default = item *)
Definition py_unpack2 {A} (item : value) (k : value -> value -> cres A) : cres A :=
  match item with
  | VTuple [a; b] | VList [a; b] => k a b
  | _ => CErr Unmodelled
  end.

(* len(c), iteration, tuple(c), list(c) *)
Definition py_len (c : value) : cres value := cbind (len_of c) (fun n => COk (VInt (Z.of_nat n))).
Definition py_iter (c : value) : cres (list value) := seq_of c.
Definition py_tuple (c : value) : cres value := cbind (seq_of c) (fun l => COk (VTuple l)).
Definition py_list (c : value) : cres value := cbind (seq_of c) (fun l => COk (VList l)).

(* a + b where a is a string: concatenation (the text of an f-string is opaque), TypeError for a non-string b *)
Definition is_text (v : value) : bool :=
  match v with VStr _ => true | VOpaque t _ => String.eqb t "str" | _ => false end.
Definition py_add (a b : value) : cres value :=
  match a, b with
  | VStr x, VStr y => COk (VStr (x ++ y))
  | _, _ => if is_text a then (if is_text b then COk (VOpaque "str" []) else CErr TypeErr) else CErr Unmodelled
  end.

(* ---------------------------------------------------------------- numbers (binary64) *)
(* np.sum(x) *)
Definition py_np_sum (x : value) : cres value :=
  match x with
  | VList l | VTuple l => match nums l with Some xs => COk (VFloat (np_sum xs)) | None => CErr Unmodelled end
  | VInt _ | VFloat _ | VBool _ => match num_of x with Some f => COk (VFloat (np_sum [f])) | None => CErr Unmodelled end
  | _ => CErr Unmodelled
  end.
Definition py_sub (a b : value) : cres value :=
  match a, b with VFloat x, VFloat y => COk (VFloat (x - y)%float) | _, _ => CErr Unmodelled end.
Definition py_np_abs (a : value) : cres value :=
  match a with VFloat x => COk (VFloat (abs x)) | _ => CErr Unmodelled end.
Definition py_le (a b : value) : cres bool :=
  match a, b with VFloat x, VFloat y => COk (PrimFloat.leb x y) | _, _ => CErr Unmodelled end.

(* ---------------------------------------------------------------- enumerations *)
Definition members_of (cls : string) : list (string * Z) :=
  if String.eqb cls "MineralPhase" then phase_members
  else if String.eqb cls "MineralFabric" then fabric_members else [].

(* Cls[name] *)
Definition py_enum_item (cls : string) (k : value) : cres value :=
  match k with
  | VStr s => match get_member s (members_of cls) with Some z => COk (VEnum cls s z) | None => CErr KeyErr end
  | VList _ | VTable _ => CErr TypeErr                            (* unhashable *)
  | _ => CErr KeyErr
  end.

(* Cls(value) *)
Definition py_enum_call (cls : string) (v : value) : cres value :=
  let of_int z := match member_of_val z (members_of cls) with Some n => COk (VEnum cls n z) | None => CErr ValueErr end in
  match v with
  | VInt z => of_int z
  | VBool b => of_int (if b then 1 else 0)%Z
  | VEnum _ _ z => of_int z
  | _ => CErr ValueErr
  end.

(* getattr(Cls, name): members; every other attribute of the class is outside the model unless the name
   cannot be an attribute at all *)
Definition py_enum_getattr (cls : string) (name : value) : cres value :=
  match name with
  | VStr s =>
      match get_member s (members_of cls) with
      | Some z => COk (VEnum cls s z)
      | None => if String.prefix "olivine_" s || String.prefix "enstatite_" s then CErr AttributeErr else CErr Unmodelled
      end
  | _ => CErr TypeErr                      (* attribute name must be string *)
  end.

(* f-strings, type(x), log calls: the parts are evaluated (they may raise), the text is not modelled *)
Definition py_text (parts : list value) : value := VOpaque "str" [].
Definition py_type (x : value) : value := VOpaque "type" [].
