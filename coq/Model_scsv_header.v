(* Model_scsv_header.v -- the header writer of pydrex.io: `_yaml_quote` and the lines
   `write_scsv_header` emits (group `scsv`, C16).  Hand-written (tie H): tied to /repo by the
   correspondence of harness/props/c16.py (`_yaml_quote(x)` against `yaml_quote x` on every string
   of every case; the header block of every saved file byte-wise against `header_lines`).

   * `quote` / `unquote` over ANY alphabet with a decidable equality and a distinguished quote
     character: `quote s = ' ++ s with every ' doubled ++ '` is `_yaml_quote`; `unquote` is the
     scanner of a one-line YAML single-quoted flow scalar ('' is a quote, a lone ' ends the
     scalar, nothing may follow).
   * instances: `yaml_quote` on Coq strings = UTF-8 byte strings (the representation of Python
     `str` in Model_scsv), and `cp_quote` on lists of code points (N, the whole range
     0 .. 0x10FFFF and beyond); `utf8` relates the two.
   * `header_lines` = the lines written between the two `---` fences, without terminators.
   PyYAML stays an oracle; the only fact asked of it is the one `unquote` states (the value of a
   one-line single-quoted scalar), checked on every scalar of every case at run time.
   No proofs in this file. *)
From Coq Require Import String Ascii List Bool NArith ZArith.
From PV Require Import Model_scsv.
Import ListNotations.
Open Scope string_scope.

Section Quote.
  Variable A : Type.
  Variable eqb : A -> A -> bool.
  Variable q : A.

  (* str(s).replace("'", "''") *)
  Fixpoint esc (s : list A) : list A :=
    match s with
    | [] => []
    | c :: r => if eqb c q then q :: q :: esc r else c :: esc r
    end.

  (* "'" + ... + "'" *)
  Definition quote (s : list A) : list A := q :: (esc s ++ [q])%list.

  (* the text after the opening quote *)
  Fixpoint unesc (s : list A) : option (list A) :=
    match s with
    | [] => None                                         (* no closing quote *)
    | c :: r =>
        if eqb c q then
          match r with
          | [] => Some []                                (* the closing quote ends the text *)
          | c' :: r' => if eqb c' q then option_map (cons q) (unesc r') else None   (* text after the closing quote *)
          end
        else option_map (cons c) (unesc r)
    end.

  Definition unquote (s : list A) : option (list A) :=
    match s with
    | c :: r => if eqb c q then unesc r else None
    | [] => None
    end.
End Quote.

(* ---------------------------------------------------------------- UTF-8 byte strings *)
Definition apostrophe : ascii := "'"%char.

Definition yaml_quote (s : string) : string :=
  string_of_list_ascii (quote ascii Ascii.eqb apostrophe (list_ascii_of_string s)).
Definition yaml_unquote (s : string) : option string :=
  option_map string_of_list_ascii (unquote ascii Ascii.eqb apostrophe (list_ascii_of_string s)).

(* ---------------------------------------------------------------- code points *)
Definition cp_quote (s : list N) : list N := quote N N.eqb 39%N s.
Definition cp_unquote (s : list N) : option (list N) := unquote N N.eqb 39%N s.

(* UTF-8 encoding of one code point (generalised to 21 bits; surrogates are not special here) *)
Definition byte (n : N) : ascii := ascii_of_N n.
Definition utf8_cp (n : N) : list ascii :=
  if N.ltb n 128 then [byte n]
  else if N.ltb n 2048 then [byte (192 + N.div n 64); byte (128 + N.modulo n 64)]
  else if N.ltb n 65536 then [byte (224 + N.div n 4096); byte (128 + N.modulo (N.div n 64) 64); byte (128 + N.modulo n 64)]
  else [byte (240 + N.modulo (N.div n 262144) 8); byte (128 + N.modulo (N.div n 4096) 64);
        byte (128 + N.modulo (N.div n 64) 64); byte (128 + N.modulo n 64)].
Definition utf8 (s : list N) : list ascii := flat_map utf8_cp s.

(* ---------------------------------------------------------------- write_scsv_header *)
Section Header.
Variable O : oracles.

(* f"{fill}" of a fill that is not a str *)
Definition fill_text (v : yval) : res string :=
  match v with
  | YStr s => Ok (yaml_quote s)                 (* isinstance(fill, str): quoted *)
  | YInt z => Ok (o_str_int O z)
  | YFloat f => Ok (fstr f)
  | YBool b => Ok (if b then "True" else "False")
  | YNull => Ok "None"
  | YOther => Err EUnmodelled
  end.

(* the unit is free text: written as a quoted scalar like the other header strings (a unit such as '%', 'a: b', '[' is
   not a plain YAML scalar) *)
Definition unit_lines (unit : option string) : list string :=
  match unit with Some u => ["      unit: " ++ yaml_quote u] | None => [] end.
Definition comment_lines (comments : list string) : list string := map (fun c => "# " ++ c) comments.
Definition head_lines (d m : string) : list string :=
  ["schema:"; "  delimiter: " ++ yaml_quote d; "  missing: " ++ yaml_quote m; "  fields:"].

Definition field_lines (f : field) (unit : option string) : res (list string) :=
  match fname f with
  | Some (YStr n) =>
      fl <- match ffill f with
            | Some v => t <- fill_text v ;; Ok ["      fill: " ++ t]
            | None => Ok []
            end ;;
      Ok (("    - name: " ++ yaml_quote n) :: ("      type: " ++ type_of f) ::
          List.app (unit_lines unit) fl)
  | _ => Err EUnmodelled                        (* validation has refused such a field *)
  end.

Fixpoint fields_lines (fs : list field) (units : list (option string)) : res (list string) :=
  match fs with
  | [] => Ok []
  | f :: r =>
      a <- field_lines f (hd None units) ;;
      b <- fields_lines r (tl units) ;;
      Ok (a ++ b)%list
  end.

(* the lines between the fences; `units` = field.get("unit") per field (not part of `schema`,
   the code under study never looks at it elsewhere) *)
Definition header_lines (comments : list string) (s : schema) (units : list (option string)) : res (list string) :=
  v <- validate_schema O s ;;
  if negb v then Err SCSV else
  match sdelim s, smissing s, sfields s with
  | Some d, Some m, Some fs =>
      fl <- fields_lines fs units ;;
      Ok (List.app (comment_lines comments) (List.app (head_lines d m) fl))
  | _, _, _ => Err EUnmodelled
  end.
End Header.

(* the quoted scalar of a header line `<prefix>'...'` *)
Fixpoint drop_prefix (p s : string) : option string :=
  match p, s with
  | EmptyString, _ => Some s
  | String a p', String b s' => if Ascii.eqb a b then drop_prefix p' s' else None
  | _, _ => None
  end.
Definition scalar_of_line (prefix line : string) : option string :=
  match drop_prefix prefix line with Some r => yaml_unquote r | None => None end.
