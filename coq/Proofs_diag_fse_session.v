(* Proofs_diag_fse_session.v -- lemmas about Model_diag_fse_session: a history of finite_strain
   calls on live deformation-gradient objects that are updated in place between the calls.
   * the current source (memo = false), any numeric instance: every call of ANY history is the
     one-call function `Model_diag.finite_strain` of the contents its argument has at that time;
     independent of earlier calls, of the table of remembered matrices and of which object holds
     the values; calls modify nothing;
   * over the reals, on ONE object: after `F[...] = F @ Q` (Q orthogonal) the call hands LAPACK the
     SAME matrix and returns the same value and axis; after `F[...] = Q @ F` the same value and the
     axis co-rotated up to sign; after `F *= c` (c > 0) the stretch scales, value' + 1 = c (value + 1);
     after `F[...] = F.T` the same value (F^T F and F F^T have the same eigenvalues);
   * an implementation that remembers F.F^T per object is refuted by [call; overwrite; call]. *)
From Coq Require Import Reals ZArith List Bool Lra Lia.
From PV Require Import Num NumR Model_diag Proofs_diag Model_diag_session Proofs_diag_session Model_diag_fse_session.
Import ListNotations.

Section Any.
  Context {F : Num}.
  Variable eigh : @sym3 F -> @eigres F.

  Notation srun := (@frun F eigh).
  Notation spure := (@fpure_run F eigh).
  Notation sout1 := (@fpure_out F eigh).

  Lemma frun_false_pure (st : @fstore F) (c : @fcache F) (h : list (@fop F)) :
    srun false (st, c) h = spure st h.
  Proof.
    revert st c; induction h as [|o h IH]; intros st c; [reflexivity|].
    destruct o; cbn [frun fstep lcg_of fpure_run fpure_out fmutate app finite_strain fst snd];
      rewrite IH; reflexivity.
  Qed.

  Lemma fpure_run_app (st : @fstore F) (h h' : list (@fop F)) :
    spure st (h ++ h') = spure st h ++ spure (fstore_after st h) h'.
  Proof.
    revert st; induction h as [|o h IH]; intros st; [reflexivity|].
    cbn [app fpure_run fstore_after fold_left]. rewrite IH, app_assoc. reflexivity.
  Qed.

  Lemma fmutate_call (st : @fstore F) (o : @fop F) : is_update o = false -> fmutate st o = st.
  Proof. destruct o; cbn; intros H; try discriminate; reflexivity. Qed.

  Lemma fstore_after_filter (st : @fstore F) (h : list (@fop F)) :
    fstore_after st h = fstore_after st (filter is_update h).
  Proof.
    revert st; induction h as [|o h IH]; intros st; [reflexivity|].
    cbn [filter]. destruct (is_update o) eqn:E; cbn [fstore_after fold_left].
    - apply IH.
    - rewrite (fmutate_call _ _ E). apply IH.
  Qed.

  (* history and identity independence of one call *)
  Theorem fse_session_call_pure (st st' : @fstore F) (c c' : @fcache F) (h h' : list (@fop F)) (b b' : nat) :
    srun false (st, c) h = spure st h /\
    srun false (st, c) (h ++ [FStrain b]) = srun false (st, c) h ++ sout1 (fstore_after st h) (FStrain b) /\
    fstore_after st h = fstore_after st (filter is_update h) /\
    (fobj (fstore_after st h) b = fobj (fstore_after st' h') b' ->
     sout1 (fstore_after st h) (FStrain b) = sout1 (fstore_after st' h') (FStrain b')).
  Proof.
    split; [apply frun_false_pure|]. split.
    { rewrite !frun_false_pure, fpure_run_app. cbn [fpure_run]. now rewrite app_nil_r. }
    split; [apply fstore_after_filter|].
    intros E. cbn [fpure_out]. now rewrite E.
  Qed.

  Lemma fobj_set_same (st : @fstore F) b M : (b < length st)%nat -> fobj (set_obj st b M) b = M.
  Proof.
    revert b; induction st as [|x st IH]; intros b Hb; [cbn in Hb; lia|].
    destruct b; cbn [set_obj fobj nth]; [reflexivity|]. apply IH. cbn in Hb. lia.
  Qed.
End Any.

Open Scope R_scope.
Notation lcg := (@left_cauchy_green NumR).

(* ---- one object updated in place between two calls ---- *)
Section OneObject.
  Variable eigh : S3 -> EV.
  Variable st : @fstore NumR.
  Variable c : @fcache NumR.
  Variable b : nat.
  Hypothesis Hb : (b < length st)%nat.
  Let Fm := fobj st b.
  Let B := lcg Fm.

  Lemma two_calls (o : @fop NumR) G : is_update o = true -> fobj (fmutate st o) b = G ->
    frun eigh false (st, c) [FStrain b; o; FStrain b] =
    [OFse B (fst (finite_strain eigh Fm)) (snd (finite_strain eigh Fm));
     OFse (lcg G) (fst (finite_strain eigh G)) (snd (finite_strain eigh G))].
  Proof.
    intros Ho HG. rewrite frun_false_pure. cbn [fpure_run fpure_out app].
    destruct o; try discriminate Ho; cbn [fpure_out app fmutate] in *; rewrite HG; reflexivity.
  Qed.

  (* F[...] = F @ Q: LAPACK gets the same matrix, so the second call returns what the first did *)
  Theorem fse_session_right_rotation (Q : M3) : orthogonal Q ->
    exists v ax, frun eigh false (st, c) [FStrain b; FRight b Q; FStrain b] = [OFse B v ax; OFse B v ax] /\
                 (v, ax) = finite_strain eigh Fm.
  Proof.
    intros HQ. exists (fst (finite_strain eigh Fm)), (snd (finite_strain eigh Fm)). split.
    - rewrite (two_calls (FRight b Q) (mmul Fm Q) eq_refl) by (cbn [fmutate]; now apply fobj_set_same).
      unfold finite_strain. cbn [fst snd]. rewrite (lcg_right_rotation Fm Q HQ). reflexivity.
    - unfold finite_strain. reflexivity.
  Qed.

  (* F[...] = Q @ F: LAPACK gets Q B Q^T; same value, axis co-rotated up to sign *)
  Theorem fse_session_left_rotation (Q : M3) : orthogonal Q ->
    eig_spec B (eigh B) -> eig_spec (congr Q B) (eigh (congr Q B)) ->
    exists v ax ax', frun eigh false (st, c) [FStrain b; FLeft b Q; FStrain b] =
                       [OFse B v ax; OFse (congr Q B) v ax'] /\
                     (v, ax) = finite_strain eigh Fm /\
                     (simple_top (eigh B) -> up_to_sign ax' (mulv Q ax)).
  Proof.
    intros HQ H H'.
    destruct (fse_left_rotation eigh eigh Q Fm) as [E R]. fold B in E. rewrite <- E in H'.
    destruct (R HQ H H') as [V X].
    exists (fst (finite_strain eigh Fm)), (snd (finite_strain eigh Fm)), (snd (finite_strain eigh (mmul Q Fm))).
    split; [|split; [unfold finite_strain; reflexivity|exact X]].
    rewrite (two_calls (FLeft b Q) (mmul Q Fm) eq_refl) by (cbn [fmutate]; now apply fobj_set_same).
    rewrite E, V. reflexivity.
  Qed.
End OneObject.

(* ---- scaling and transposition ---- *)
Definition scale6 (k : R) (S : S3) : S3 :=
  let '(s00, s10, s11, s20, s21, s22) := S in (k * s00, k * s10, k * s11, k * s20, k * s21, k * s22).

Lemma lcg_scale (k : R) (Fm : M3) : lcg (@scale_m3 NumR k Fm) = scale6 (k * k) (lcg Fm).
Proof. dm Fm. cbv [left_cauchy_green scale_m3 scalev scale6]. dunf. split_tuple; ring. Qed.

Lemma vals_spec_scale6 (k : R) S l1 l2 l3 : 0 <= k ->
  vals_spec S (l1, l2, l3) -> vals_spec (scale6 k S) (k * l1, k * l2, k * l3).
Proof.
  intros Hk H. destruct (vals_coeffs _ _ _ _ H) as (Ht & He & Hd). destruct H as [[A1 A2] _].
  d6 S. cbv [tr6 e2_6 det6] in Ht, He, Hd.
  apply coeffs_vals; cbv [scale6 tr6 e2_6 det6]; try nra.
  transitivity (k * k * k * (s00 * (s11 * s22 - s21 * s21) - s10 * (s10 * s22 - s21 * s20) +
                             s20 * (s10 * s21 - s11 * s20))); [ring|].
  rewrite Hd. ring.
Qed.

(* F *= c with c > 0: every principal stretch is multiplied by c *)
Theorem fse_scale_value (eigh eigh' : S3 -> EV) (Fm : M3) (k : R) : 0 < k ->
  vals_spec (lcg Fm) (fst (eigh (lcg Fm))) ->
  vals_spec (lcg (@scale_m3 NumR k Fm)) (fst (eigh' (lcg (@scale_m3 NumR k Fm)))) ->
  fst (finite_strain eigh' (@scale_m3 NumR k Fm)) + 1 = k * (fst (finite_strain eigh Fm) + 1).
Proof.
  intros Hk H H'. unfold finite_strain. cbn [fst]. unfold last_val.
  destruct (fst (eigh (lcg Fm))) as [[l1 l2] l3] eqn:E.
  rewrite lcg_scale in H' |- *.
  pose proof (vals_spec_scale6 (k * k) _ _ _ _ ltac:(nra) H) as Hs.
  rewrite (vals_unique _ _ _ H' Hs). cbn [vz snd]. numR.
  assert (P3 : 0 <= l3).
  { pose proof (psd_vals_nonneg (lcg Fm) l1 l2 l3 (lcg_psd Fm) H). destruct H as [[? ?] _]. lra. }
  replace (k * k * l3) with (k * k * l3) by ring.
  rewrite sqrt_mult by nra. rewrite sqrt_square by lra. ring.
Qed.

(* F^T F and F F^T have the same characteristic polynomial *)
Lemma rcg_charpoly (Fm : M3) x : charpoly (@right_cauchy_green NumR Fm) x = charpoly (lcg Fm) x.
Proof. dm Fm. cbv [charpoly det6 shift6 right_cauchy_green left_cauchy_green]. dunf. ring. Qed.

Lemma lcg_transpose (Fm : M3) : lcg (transpose Fm) = @right_cauchy_green NumR Fm.
Proof. dm Fm. cbv [left_cauchy_green right_cauchy_green transpose]. dunf. reflexivity. Qed.

(* F[...] = F.T: the value is unchanged (the axis is not: it becomes a right stretch axis) *)
Theorem fse_transpose_value (eigh eigh' : S3 -> EV) (Fm : M3) :
  vals_spec (lcg Fm) (fst (eigh (lcg Fm))) ->
  vals_spec (lcg (transpose Fm)) (fst (eigh' (lcg (transpose Fm)))) ->
  fst (finite_strain eigh' (transpose Fm)) = fst (finite_strain eigh Fm).
Proof.
  intros H H'. unfold finite_strain. cbn [fst]. unfold last_val.
  replace (fst (eigh' (lcg (transpose Fm)))) with (fst (eigh (lcg Fm))); [reflexivity|].
  destruct (fst (eigh (lcg Fm))) as [[l1 l2] l3]. destruct (fst (eigh' (lcg (transpose Fm)))) as [[m1 m2] m3].
  destruct H as [[A1 A2] A]. destruct H' as [[A1' A2'] A'].
  symmetry. apply sorted_roots_unique; try assumption.
  intros x. rewrite <- (A x), <- (A' x), lcg_transpose. apply rcg_charpoly.
Qed.

(* an implementation that remembers F.F^T per object identity and never invalidates it *)
Definition F2 : M3 := ((2, 0, 0), (0, 1, 0), (0, 0, 1)).

Lemma fse_memo_refuted :
  exists (st : @fstore NumR) (h : list (@fop NumR)),
    forall (eigh : S3 -> EV),
      lcgs_of (frun eigh true (st, []) h) <> lcgs_of (fpure_run eigh st h) /\
      lcgs_of (frun eigh false (st, []) h) = lcgs_of (fpure_run eigh st h).
Proof.
  exists [I3], [FStrain 0; FSet 0 F2; FStrain 0]. intros eigh. split.
  - cbn [frun fstep lcg_of flookup fmutate set_obj fobj nth app Nat.eqb fpure_run fpure_out lcgs_of map].
    cbv [left_cauchy_green I3 F2]. dunf. intros E. injection E. intros. lra.
  - exact (f_equal _ (frun_false_pure eigh _ _ _)).
Qed.

Definition ex_eig_F2 : EV := ((1, 1, 4), ((0, 1, 0), (0, 0, 1), (1, 0, 0))).
Definition ex_eig_F2_swapped : EV := ((1, 1, 4), ((1, 0, 0), (0, 0, 1), (0, 1, 0))).

Lemma nonvacuous_fse_session :
  let st : @fstore NumR := [F2] in
  (0 < length st)%nat /\ orthogonal Iyx /\
  eig_spec (lcg (fobj st 0)) ex_eig_F2 /\ simple_top ex_eig_F2 /\
  eig_spec (congr Iyx (lcg (fobj st 0))) ex_eig_F2_swapped /\
  vals_spec (lcg (fobj st 0)) (fst ex_eig_F2) /\
  fobj (fstore_after st [FSet 0 I3; FStrain 0; FSet 0 F2]) 0 = fobj st 0.
Proof.
  cbv zeta. split; [cbn; lia|]. split.
  { cbv [orthogonal gram Iyx id6]. dunf. split_tuple; ring. }
  assert (E1 : eig_spec (lcg (fobj [F2] 0)) ex_eig_F2).
  { cbv [fobj nth left_cauchy_green F2 ex_eig_F2 eig_spec].
    refine (conj _ (conj _ (conj _ (conj _ (conj _ (conj _ _)))))).
    - split; [cbv [ascending]; lra|]. intros x. cbv [charpoly det6 shift6]. dunf. ring.
    - split; cbv [symv scale3]; dunf; [split_tuple|]; ring.
    - split; cbv [symv scale3]; dunf; [split_tuple|]; ring.
    - split; cbv [symv scale3]; dunf; [split_tuple|]; ring.
    - dunf; ring.
    - dunf; ring.
    - dunf; ring. }
  split; [exact E1|]. split; [cbv [simple_top ex_eig_F2 fst]; lra|]. split.
  { cbv [fobj nth left_cauchy_green F2 ex_eig_F2_swapped eig_spec congr Iyx].
    refine (conj _ (conj _ (conj _ (conj _ (conj _ (conj _ _)))))).
    - split; [cbv [ascending]; lra|]. intros x. cbv [charpoly det6 shift6 symv]. dunf. ring.
    - split; cbv [symv scale3]; dunf; [split_tuple|]; ring.
    - split; cbv [symv scale3]; dunf; [split_tuple|]; ring.
    - split; cbv [symv scale3]; dunf; [split_tuple|]; ring.
    - dunf; ring.
    - dunf; ring.
    - dunf; ring. }
  split; [exact (proj1 E1)|]. reflexivity.
Qed.
