(* Proofs_path.v -- C05 capstone: exact solutions of the texture ODE depend on the strain PATH only.
   Combines the scaling law of the vector field (Proofs_rhs.rhs_scaling), the positive
   homogeneity of the strain-rate scale (eigmax_homogeneous: the k-scaled history has scale
   k s(k t)) and the time-compression lemma for solutions (Proofs_flow.solution_rescale). *)
From Coq Require Import Reals ZArith List Bool Lra Lia.
From Coquelicot Require Import Hierarchy Derive.
From PV Require Import Num NumR Model_core Model_minerals Proofs_core Proofs_minerals Proofs_rhs Proofs_flow.
Import ListNotations.
Open Scope R_scope.

Section Path.
  Variables (regime ph fb : Z) (n : nat) (ass : list Z) (frs : list R) (Sd : list R) (p nn lam M : R).
  Variable Lh : R -> list R.          (* velocity-gradient history along the pathline, L(t, x(t)) *)
  Variable sh : R -> R.               (* its strain-rate scale (oracle: is_eigmax (sym L(t)) (sh t)) *)
  Hypothesis HL : forall t, length (Lh t) = 9%nat.

  Definition N := (9 + 10 * n)%nat.
  Definition ylist (y : nat -> R) : list R := map y (seq 0 N).

  (* component i of the vector field for velocity gradient L with scale s at state y *)
  Definition vf (L : list R) (s : R) (y : nat -> R) (i : nat) : R :=
    match @rhs NumR regime ph fb n ass frs L s Sd p nn lam M (ylist y) with
    | Ok out => nth i out 0
    | Err _ => 0
    end.

  Definition f (t : R) (y : nat -> R) (i : nat) : R := vf (Lh t) (sh t) y i.

  (* the history multiplied by k and compressed in time by 1/k; by eigmax_homogeneous its strain-rate
     scale is k * sh (k t) *)
  Definition f_scaled (k : R) (t : R) (y : nat -> R) (i : nat) : R :=
    vf (map (Rmult k) (Lh (k * t))) (k * sh (k * t)) y i.

  Lemma nth_map_scale k (l : list R) i : nth i (map (Rmult k) l) 0 = k * nth i l 0.
  Proof.
    revert i; induction l as [|x l IH]; intros [|i]; cbn [map nth]; try ring. apply IH.
  Qed.

  Lemma f_scaled_is_k_f k t y i : k <> 0 -> f_scaled k t y i = k * f (k * t) y i.
  Proof.
    intros Hk. unfold f_scaled, f, vf.
    rewrite (rhs_scaling regime ph fb n ass frs (Lh (k * t)) (sh (k * t)) Sd p nn lam M (ylist y) k (HL _) Hk).
    destruct (@rhs NumR regime ph fb n ass frs (Lh (k * t)) (sh (k * t)) Sd p nn lam M (ylist y)) as [out|e];
      cbn [res_map]; [apply nth_map_scale | ring].
  Qed.

  (* C05: if y(t) is an exact solution of the texture ODE for the history L on [a,b], then
     z(t) = y(k t) is an exact solution for the history k L(k t) on [a/k, b/k], and ends in the same
     state: same stored textures, same deformation gradient -- for every k > 0 *)
  Theorem strain_path_not_rate (y : nat -> R -> R) (a b k : R) :
    0 < k ->
    (forall i t, a <= t <= b -> is_derive (y i) t (f t (fun j => y j t) i)) ->
    (forall i t, a / k <= t <= b / k ->
       is_derive (z y k i) t (f_scaled k t (fun j => z y k j t) i))
    /\ (forall i, z y k i (b / k) = y i b).
  Proof.
    intros Hk Hsol. split.
    - intros i t Ht. rewrite f_scaled_is_k_f by lra.
      exact (solution_rescale f y a b k Hk Hsol i t Ht).
    - intros i. apply rescale_end_value. exact Hk.
  Qed.

  (* ---- C07: null forcing along exact solutions -------------------------------------------- *)
  Lemma all_zero_nth (l : list R) j : all_zero l -> nth j l 0 = 0.
  Proof.
    unfold all_zero. intros H. revert j. induction H as [|x l Hx Hl IH]; intros [|j]; cbn [nth]; auto.
  Qed.

  Lemma nth_skipn_add (k : nat) : forall (l : list R) j, nth (k + j) l 0 = nth j (skipn k l) 0.
  Proof.
    induction k as [|k IH]; intros l j; [reflexivity|].
    destruct l as [|x l]; cbn [Nat.add nth skipn]; [destruct j; reflexivity|apply IH].
  Qed.

  Lemma nth_skipn9 (l : list R) i : (9 <= i)%nat -> nth i l 0 = nth (i - 9) (skipn 9 l) 0.
  Proof.
    intros Hi. replace i with (9 + (i - 9))%nat at 1 by lia. apply nth_skipn_add.
  Qed.

  (* texture components (orientations and volume fractions: indices >= 9) have zero rate in the
     viscosity-bound regimes, for every velocity gradient ... *)
  Lemma vf_null_regime L s y i : (regime = 0 \/ regime = 7)%Z -> (9 <= i)%nat -> vf L s y i = 0.
  Proof.
    intros Hr Hi. unfold vf.
    destruct (@rhs NumR regime ph fb n ass frs L s Sd p nn lam M (ylist y)) as [out|e] eqn:Hrhs; [|reflexivity].
    rewrite nth_skipn9 by exact Hi. apply all_zero_nth.
    eapply rhs_null_regime; eassumption.
  Qed.

  (* ... and in every regime when the strain-rate scale is zero (e.g. a zero velocity gradient) *)
  Lemma vf_zero_scale L y i : (9 <= i)%nat -> vf L 0 y i = 0.
  Proof.
    intros Hi. unfold vf.
    destruct (@lookup_fraction NumR ph ass frs) as [phi|e] eqn:Hl.
    - destruct (rhs_zero_strain_rate regime ph fb n ass frs L Sd p nn lam M (ylist y) phi Hl) as [out [-> [_ Hz]]].
      rewrite nth_skipn9 by exact Hi. apply all_zero_nth. exact Hz.
    - unfold rhs. rewrite Hl. reflexivity.
  Qed.

  (* hence along any exact solution every orientation entry and every volume fraction is constant *)
  Theorem null_regime_texture_constant (y : nat -> R -> R) (a b : R) :
    (regime = 0 \/ regime = 7)%Z -> a <= b ->
    (forall i t, a <= t <= b -> is_derive (y i) t (f t (fun j => y j t) i)) ->
    forall i, (9 <= i)%nat -> y i b = y i a.
  Proof.
    intros Hr Hab Hsol i Hi. apply zero_derivative_constant; [exact Hab|].
    intros t Ht. rewrite <- (vf_null_regime (Lh t) (sh t) (fun j => y j t) i Hr Hi). apply Hsol. exact Ht.
  Qed.

  Theorem zero_strain_rate_texture_constant (y : nat -> R -> R) (a b : R) :
    a <= b -> (forall t, a <= t <= b -> sh t = 0) ->
    (forall i t, a <= t <= b -> is_derive (y i) t (f t (fun j => y j t) i)) ->
    forall i, (9 <= i)%nat -> y i b = y i a.
  Proof.
    intros Hab Hs Hsol i Hi. apply zero_derivative_constant; [exact Hab|].
    intros t Ht. rewrite <- (vf_zero_scale (Lh t) (fun j => y j t) i Hi).
    pose proof (Hsol i t Ht) as Hd. unfold f in Hd. rewrite (Hs t Ht) in Hd. exact Hd.
  Qed.
End Path.
