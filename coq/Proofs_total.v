(* Proofs_total.v -- C03 totality: in the dislocation-type regimes the generated solver
   never raises (no Err leaf is reachable) for any input with deformation exponent <> 0,
   for every valid (phase, fabric) pair, including grains on which no slip system can
   be activated. *)
From Coq Require Import Reals ZArith List Bool Lra Lia.
From PV Require Import Num NumR Model_core Proofs_core.
From PV.gen Require Import Gen_core.
Import ListNotations.
Open Scope R_scope.

(* the last index of argsort4 carries a maximal key *)
Lemma argsort4_max (v : arr NumR) :
  forall k, (k < 4)%nat -> v k <= v (pidx (argsort4 v) 3).
Proof.
  intros k Hk.
  unfold argsort4, ins_stable; numR.
  repeat match goal with
  | |- context [Rltb ?a ?b] => destruct (Rltb a b) eqn:?
  end; bool2prop;
  cbv [perm4_of_list pidx perm4_list nth];
  do 4 (destruct k as [|k]; [lra|]); lia.
Qed.

Lemma andb3_false (a b c : bool) : andb a (andb b c) = false -> a = false \/ b = false \/ c = false.
Proof. destruct a, b, c; cbn; auto. Qed.

Lemma Rabs_div_zero x t : x = 0 -> Rabs (x / t) = 0.
Proof. intros ->. unfold Rdiv. rewrite Rmult_0_l. apply Rabs_R0. Qed.

Lemma softest_total (G L : RA) : exists g, k_get_slip_rate_softest G L = Ok g.
Proof.
  unfold k_get_slip_rate_softest. numR.
  repeat match goal with
  | |- context [Rltb ?a ?b] => destruct (Rltb a b) eqn:?
  | |- context [Reqb ?a ?b] => destruct (Reqb a b) eqn:?
  end; bool2prop; try (eexists; reflexivity); exfalso; lra.
Qed.

(* ---- main totality theorem for one grain -------------------------------- *)
Definition valid_pair (ph fb : Z) : Prop :=
  (ph = 0 /\ (fb = 0 \/ fb = 1 \/ fb = 2 \/ fb = 3 \/ fb = 4))%Z \/ (ph = 1 /\ fb = 5)%Z.

Ltac abs_pos :=
  repeat match goal with
  | |- context [Rabs ?x] =>
      lazymatch goal with
      | H : 0 <= Rabs x |- _ => fail
      | _ => pose proof (Rabs_pos x)
      end
  | H0 : context [Rabs ?x] |- _ =>
      lazymatch goal with
      | H : 0 <= Rabs x |- _ => fail
      | _ => pose proof (Rabs_pos x)
      end
  end.

(* slip rates are Ok: the most active system has a positive key *)
Ltac rates_ok Hn :=
  match goal with
  | |- context [?f ?FF ?c (@argsort4 ?G ?v) ?n] =>
      let Hmax := fresh "Hmax" in
      pose proof (argsort4_max v) as Hmax;
      let r := fresh "r" in let Hr := fresh "Hr" in
      assert (exists r, f FF c (@argsort4 G v) n = Ok r) as [r Hr];
      [ unfold f;
        pose proof (Hmax 0%nat ltac:(lia)) as H0; pose proof (Hmax 1%nat ltac:(lia)) as H1;
        pose proof (Hmax 2%nat ltac:(lia)) as H2; pose proof (Hmax 3%nat ltac:(lia)) as H3;
        clear Hmax; numR; (let P := fresh "P" in let HP := fresh "HP" in
          remember (@argsort4 G v) as P eqn:HP in *; clear HP; destruct P);
        cbv [pidx perm4_list mk_arr nth] in *; numR; abs_pos;
        try (exfalso; lra);
        match goal with |- context [Reqb ?a 0] =>
          let He := fresh "He" in destruct (Reqb a 0) eqn:He; bool2prop;
          [ exfalso; (rewrite He in *; unfold Rdiv in *; rewrite ?Rmult_0_l, ?Rabs_R0 in *; lra)
          | eexists; reflexivity ] end
      | rewrite Hr; clear Hr Hmax ]
  end.

Ltac softest_ok :=
  match goal with
  | |- context [k_get_slip_rate_softest ?G ?L] =>
      let g := fresh "g" in let Hg := fresh "Hg" in
      destruct (softest_total G L) as [g Hg]; numR; rewrite Hg; clear Hg
  end.

Ltac energy_ok Hn :=
  match goal with
  | |- context [match ?f ?FF ?sr ?P ?g ?p ?n ?lam with Ok _ => _ | Err _ => _ end] =>
      let e := fresh "e" in let He := fresh "Hen" in
      assert (exists e, f FF sr P g p n lam = Ok e) as [e He];
      [ unfold f; destruct P; numR;
        (match goal with |- context [if Reqb ?a 0 then _ else _] =>
           let Hq := fresh "Hq" in destruct (Reqb a 0) eqn:Hq; bool2prop;
           [contradiction | eexists; reflexivity] end)
      | rewrite He; clear He ]
  end.

Theorem rotation_and_strain_total ph fb (A D L : RA) p n lam :
  n <> 0 -> valid_pair ph fb ->
  exists r, k_get_rotation_and_strain ph fb A D L p n lam = Ok r.
Proof.
  intros Hn Hv. unfold k_get_rotation_and_strain.
  destruct Hv as [[-> [->|[->|[->|[->| ->]]]]]|[-> ->]]; cbn [Z.eqb Pos.eqb];
  set (c := k_get_slip_invariants D A);
  (match goal with |- exists r, (if ?b then _ else _) = _ => destruct b eqn:Hall end;
   [eexists; reflexivity|]).
  (* olivine A..E *)
  1-5: (match goal with |- exists r, (if ?b then _ else _) = _ => destruct b eqn:Hact end;
        [eexists; reflexivity|]);
       apply andb3_false in Hact; numR;
       destruct Hact as [Hz|[Hz|Hz]]; bool2prop;
       rates_ok Hn; softest_ok; energy_ok Hn; eexists; reflexivity.
  (* enstatite *)
  numR. match goal with |- exists r, (if ?b then _ else _) = _ => destruct b end; softest_ok; energy_ok Hn; eexists; reflexivity.
Qed.

Lemma grains_total ph fb os (D L : RA) p n lam :
  n <> 0 -> valid_pair ph fb -> exists rs, grains ph fb os D L p n lam = Ok rs.
Proof.
  intros Hn Hv. induction os as [|o os [rs IH]]; cbn [grains].
  - eexists; reflexivity.
  - destruct (rotation_and_strain_total ph fb o D L p n lam Hn Hv) as [r Hr].
    rewrite Hr, IH. eexists; reflexivity.
Qed.

(* C03: the solver returns without raising for every input of a dislocation-type regime *)
Theorem derivs_total regime ph fb os fs (D L S : RA) p n lam M phi :
  dislocation_regime regime -> valid_pair ph fb -> n <> 0 ->
  exists v, @derivs NumR regime ph fb os fs D L S p n lam M phi = Ok v.
Proof.
  intros [->| ->] Hv Hn; cbn [derivs Z.eqb Pos.eqb];
  destruct (grains_total ph fb os D L p n lam Hn Hv) as [rs ->]; eexists; reflexivity.
Qed.

Lemma C03_nonvacuous_proof :
  dislocation_regime 4 /\ valid_pair 0 2 /\ (3.5 <> 0) /\
  rsum [0.5; 0.5; 0] = 1 /\ nth 2 [0.5; 0.5; 0] 0 = 0.
Proof.
  repeat split; try (cbn; lra).
  - left; reflexivity.
  - left; split; [reflexivity|]. right; right; left; reflexivity.
Qed.
