(* Proofs_mindex.v -- lemmas about Model_mindex over the real-number instance. *)
From Coq Require Import Reals ZArith List Bool Lra Lia Permutation Psatz.
From PV Require Import Num NumR Model_mindex.
Import ListNotations.
Open Scope R_scope.

Notation Q4 := (@quat NumR).
Notation OP := (@symop NumR).

Ltac dq q := let a := fresh "x" in let b := fresh "y" in let c := fresh "z" in let d := fresh "w" in
  destruct q as [[[a b] c] d].
Ltac qunf := cbv [qprod qdot qx qy qz qw fst snd] in *; numR.
Ltac split4 := repeat match goal with |- (_, _) = (_, _) => apply f_equal2 end.

Definition qnorm2 (q : Q4) : R := qdot q q.
Definition qneg (q : Q4) : Q4 := let '(x, y, z, w) := q in (- x, - y, - z, - w).
Definition hmul (p q : Q4) : Q4 := qprod Hamilton p q.

(* ------------------------------------------------------------------------- *)
(* the Hamilton product                                                      *)
(* ------------------------------------------------------------------------- *)
Lemma hamilton_norm p q : qnorm2 (hmul p q) = qnorm2 p * qnorm2 q.
Proof. dq p; dq q; unfold qnorm2, hmul; qunf; ring. Qed.
Lemma hamilton_left_isometry s p q : qdot (hmul s p) (hmul s q) = qnorm2 s * qdot p q.
Proof. dq s; dq p; dq q; unfold qnorm2, hmul; qunf; ring. Qed.
Lemma hamilton_right_isometry r p q : qdot (hmul p r) (hmul q r) = qnorm2 r * qdot p q.
Proof. dq r; dq p; dq q; unfold qnorm2, hmul; qunf; ring. Qed.
Lemma hamilton_assoc p q r : hmul (hmul p q) r = hmul p (hmul q r).
Proof. dq r; dq p; dq q; unfold hmul; qunf; split4; ring. Qed.
Lemma hamilton_id_l q : hmul qid q = q.
Proof. dq q; unfold hmul, qid; qunf; split4; ring. Qed.

(* rotation matrices: the matrix of a product is the product of the matrices *)
Definition mmul9 (a b : list R) : list R :=
  let e l i := nth i l 0 in
  [ e a 0%nat * e b 0%nat + e a 1%nat * e b 3%nat + e a 2%nat * e b 6%nat;
    e a 0%nat * e b 1%nat + e a 1%nat * e b 4%nat + e a 2%nat * e b 7%nat;
    e a 0%nat * e b 2%nat + e a 1%nat * e b 5%nat + e a 2%nat * e b 8%nat;
    e a 3%nat * e b 0%nat + e a 4%nat * e b 3%nat + e a 5%nat * e b 6%nat;
    e a 3%nat * e b 1%nat + e a 4%nat * e b 4%nat + e a 5%nat * e b 7%nat;
    e a 3%nat * e b 2%nat + e a 4%nat * e b 5%nat + e a 5%nat * e b 8%nat;
    e a 6%nat * e b 0%nat + e a 7%nat * e b 3%nat + e a 8%nat * e b 6%nat;
    e a 6%nat * e b 1%nat + e a 7%nat * e b 4%nat + e a 8%nat * e b 7%nat;
    e a 6%nat * e b 2%nat + e a 7%nat * e b 5%nat + e a 8%nat * e b 8%nat ].

Lemma mat_of_quat_hmul p q :
  @mat_of_quat NumR (hmul p q) = mmul9 (@mat_of_quat NumR p) (@mat_of_quat NumR q).
Proof.
  dq p; dq q. unfold hmul. cbv [mat_of_quat mmul9 nth qprod]. numR.
  repeat (apply f_equal2; [ring|]). reflexivity.
Qed.

(* the product computed by the source *)
Lemma dropped_product_refuted :
  @qprod NumR Dropped (1, 0, 0, 0) (0, 1, 0, 0) = (0, 0, 0, 0) /\
  hmul (1, 0, 0, 0) (0, 1, 0, 0) = (0, 0, 1, 0) /\
  qnorm2 (@qprod NumR Dropped (1, 0, 0, 0) (0, 1, 0, 0)) <> qnorm2 (1, 0, 0, 0) * qnorm2 (0, 1, 0, 0).
Proof.
  unfold hmul, qnorm2. qunf. repeat split; try (split4; ring). lra.
Qed.

(* ------------------------------------------------------------------------- *)
(* minimum of a list                                                         *)
(* ------------------------------------------------------------------------- *)
Lemma fmin_R a b : @fmin NumR a b = Rmin a b.
Proof.
  unfold fmin; numR. unfold Rltb, Rmin. destruct (Rlt_dec b a), (Rle_dec a b); lra.
Qed.

Lemma fold_fmin_spec l a :
  let m := fold_left (@fmin NumR) l a in
  (m = a \/ In m l) /\ m <= a /\ forall x, In x l -> m <= x.
Proof.
  revert a; induction l as [|b l IH]; intros a; cbn [fold_left].
  - cbn. repeat split; try lra; auto. intros x [].
  - specialize (IH (@fmin NumR a b)). cbv zeta in IH. destruct IH as (A & B & C).
    rewrite fmin_R in *. set (m := fold_left fmin l (Rmin a b)) in *. cbv zeta.
    pose proof (Rmin_l a b). pose proof (Rmin_r a b).
    repeat split.
    + destruct A as [A|A]; [|right; right; exact A].
      unfold Rmin in A. destruct (Rle_dec a b); [left|right; left]; congruence.
    + lra.
    + intros x [<-|Hx]; [lra|auto].
Qed.

Lemma lmin_spec (l : list R) : l <> [] -> In (@lmin NumR l) l /\ forall x, In x l -> @lmin NumR l <= x.
Proof.
  destruct l as [|a l]; [congruence|]. intros _. unfold lmin.
  destruct (fold_fmin_spec l a) as (A & B & C). split.
  - destruct A as [A|A]; [left; symmetry; exact A|right; exact A].
  - intros x [<-|Hx]; auto.
Qed.

Lemma lmin_same_set (l l' : list R) : l <> [] ->
  (forall x, In x l -> In x l') -> (forall x, In x l' -> In x l) -> @lmin NumR l = @lmin NumR l'.
Proof.
  intros Hne H1 H2.
  assert (Hne': l' <> []) by (destruct l as [|a l]; [congruence|]; intros E; specialize (H1 a (or_introl eq_refl)); rewrite E in H1; destruct H1).
  destruct (lmin_spec l Hne) as [A B]. destruct (lmin_spec l' Hne') as [A' B'].
  apply Rle_antisym; [apply B, H2, A'|apply B', H1, A].
Qed.

(* ------------------------------------------------------------------------- *)
(* pair angles                                                               *)
(* ------------------------------------------------------------------------- *)
Lemma qdot_comm (p q : Q4) : qdot p q = qdot q p.
Proof. dq p; dq q; qunf; ring. Qed.

Lemma ang1_dot (p q p' q' : Q4) : qdot p q = qdot p' q' -> @ang1 NumR p q = @ang1 NumR p' q'.
Proof. intros H. unfold ang1. now rewrite H. Qed.

Lemma ang1_sym (p q : Q4) : @ang1 NumR p q = @ang1 NumR q p.
Proof. apply ang1_dot, qdot_comm. Qed.

Lemma clip1_opp x : @clip1 NumR (- x) = - @clip1 NumR x.
Proof.
  unfold clip1, m1; numR. unfold Rltb.
  destruct (Rlt_dec (- x) (- (1))), (Rlt_dec 1 (- x)), (Rlt_dec x (- (1))), (Rlt_dec 1 x); lra.
Qed.

Lemma qdot_qneg_l (p q : Q4) : qdot (qneg p) q = - qdot p q.
Proof. dq p; dq q; cbv [qneg]; qunf; ring. Qed.

Lemma ang1_qneg_l (p q : Q4) : @ang1 NumR (qneg p) q = @ang1 NumR p q.
Proof.
  unfold ang1. rewrite qdot_qneg_l, clip1_opp. numR. now rewrite Rabs_Ropp.
Qed.
Lemma ang1_qneg_r (p q : Q4) : @ang1 NumR p (qneg q) = @ang1 NumR p q.
Proof. now rewrite ang1_sym, ang1_qneg_l, ang1_sym. Qed.

Definition angle_values (v : QuatVariant) (ops : list OP) (q1 q2 : Q4) : list R :=
  flat_map (fun s => map (fun t => @ang1 NumR (apply_op v s q1) (apply_op v t q2)) ops) ops.

Lemma pair_angle_values v ops q1 q2 : @pair_angle NumR v ops q1 q2 = @lmin NumR (angle_values v ops q1 q2).
Proof. reflexivity. Qed.

Lemma in_angle_values v ops q1 q2 x :
  In x (angle_values v ops q1 q2) <->
  exists s t, In s ops /\ In t ops /\ x = @ang1 NumR (apply_op v s q1) (apply_op v t q2).
Proof.
  unfold angle_values. rewrite in_flat_map. split.
  - intros (s & Hs & Hx). apply in_map_iff in Hx as (t & <- & Ht). eauto.
  - intros (s & t & Hs & Ht & ->). exists s; split; [assumption|]. apply in_map_iff. eauto.
Qed.

Lemma angle_values_nonempty v ops q1 q2 : ops <> [] -> angle_values v ops q1 q2 <> [].
Proof.
  destruct ops as [|o ops]; [congruence|]. intros _ E.
  assert (H: In (@ang1 NumR (apply_op v o q1) (apply_op v o q2)) (angle_values v (o :: ops) q1 q2)).
  { apply in_angle_values. exists o, o. cbn; auto. }
  rewrite E in H. destruct H.
Qed.

(* the misorientation angle is symmetric in the two grains (any variant, any operators) *)
Lemma pair_angle_sym v ops (q1 q2 : Q4) : ops <> [] ->
  @pair_angle NumR v ops q1 q2 = @pair_angle NumR v ops q2 q1.
Proof.
  intros Hne. rewrite !pair_angle_values. apply lmin_same_set.
  - now apply angle_values_nonempty.
  - intros x Hx. apply in_angle_values in Hx as (s & t & Hs & Ht & ->).
    apply in_angle_values. exists t, s. repeat split; try assumption. apply ang1_sym.
  - intros x Hx. apply in_angle_values in Hx as (s & t & Hs & Ht & ->).
    apply in_angle_values. exists t, s. repeat split; try assumption. apply ang1_sym.
Qed.

(* ------------------------------------------------------------------------- *)
(* unordered pairs and permutations                                          *)
(* ------------------------------------------------------------------------- *)
Lemma pairs_perm_map {A B} (f : A * A -> B) (l l' : list A) :
  (forall a b, f (a, b) = f (b, a)) -> Permutation l l' ->
  Permutation (map f (pairs l)) (map f (pairs l')).
Proof.
  intros Hf H. induction H.
  - constructor.
  - cbn [pairs]. rewrite !map_app, !map_map. apply Permutation_app; [|assumption].
    now apply Permutation_map.
  - cbn [pairs map app]. rewrite !map_app, !map_map. cbn [map]. rewrite (Hf y x).
    apply perm_skip. rewrite !app_assoc. apply Permutation_app_tail, Permutation_app_comm.
  - eapply Permutation_trans; eassumption.
Qed.

Lemma pairs_map {A B} (g : A -> B) (l : list A) :
  pairs (map g l) = map (fun p => (g (fst p), g (snd p))) (pairs l).
Proof.
  induction l as [|x l IH]; [reflexivity|]. cbn [pairs map].
  rewrite map_app, IH, !map_map. reflexivity.
Qed.

Lemma pairs_Forall2 {A} (Rl : A -> A -> Prop) (l l' : list A) : Forall2 Rl l l' ->
  Forall2 (fun p p' => Rl (fst p) (fst p') /\ Rl (snd p) (snd p')) (pairs l) (pairs l').
Proof.
  induction 1 as [|x x' l l' Hx Hl IH]; [constructor|]. cbn [pairs].
  apply Forall2_app; [|assumption].
  clear IH. induction Hl; cbn [map]; constructor; auto.
Qed.

Lemma filter_length_perm {A} (p : A -> bool) (l l' : list A) :
  Permutation l l' -> length (filter p l) = length (filter p l').
Proof.
  induction 1; cbn [filter]; try congruence.
  - destruct (p x); cbn [length]; congruence.
  - destruct (p x), (p y); reflexivity.
Qed.

Lemma hist_density_perm n (l l' : list R) :
  Permutation l l' -> @hist_density NumR n l = @hist_density NumR n l'.
Proof.
  intros H. unfold hist_density, hist_counts, count_bin.
  assert (E: map (fun k => Z.of_nat (length (filter (@in_bin NumR n k) l))) (seq 0 n)
           = map (fun k => Z.of_nat (length (filter (@in_bin NumR n k) l'))) (seq 0 n)).
  { apply map_ext. intros k. now rewrite (filter_length_perm _ _ _ H). }
  now rewrite E.
Qed.

Lemma symops_nonempty s : @symmetry_operations NumR s <> [].
Proof. destruct s; discriminate. Qed.

(* reordering the grains permutes the pair angles and leaves the index unchanged *)
Theorem angles_perm v s (qs qs' : list Q4) :
  Permutation qs qs' -> Permutation (@angles NumR v s qs) (@angles NumR v s qs').
Proof.
  intros H. unfold angles. apply pairs_perm_map; [|assumption].
  intros a b. cbn [fst snd]. apply pair_angle_sym, symops_nonempty.
Qed.

Theorem mindex_perm v s (qs qs' : list Q4) :
  Permutation qs qs' -> @mindex_quats NumR v s qs' = @mindex_quats NumR v s qs.
Proof.
  intros H. unfold mindex_quats, mindex_of_angles.
  now rewrite (hist_density_perm _ _ _ (angles_perm v s _ _ H)).
Qed.

(* ------------------------------------------------------------------------- *)
(* frame rotation and symmetry relabelling (Hamilton variant, proper operators)*)
(* ------------------------------------------------------------------------- *)
Definition is_rot (o : OP) : Prop := match o with Rot _ => True | Refl _ => False end.
Definition eqpm (p q : Q4) : Prop := p = q \/ p = qneg q.

Lemma flat_map_ext_in' {A B} (f g : A -> list B) l :
  (forall a, In a l -> f a = g a) -> flat_map f l = flat_map g l.
Proof.
  induction l as [|a l IH]; intros H; cbn [flat_map]; [reflexivity|].
  rewrite (H a (or_introl eq_refl)), IH; [reflexivity|]. intros b Hb. apply H. now right.
Qed.

Definition angles_ops (v : QuatVariant) (ops : list OP) (qs : list Q4) : list R :=
  map (fun pq => @pair_angle NumR v ops (fst pq) (snd pq)) (pairs qs).

Lemma angles_angles_ops v s qs : @angles NumR v s qs = angles_ops v (symmetry_operations s) qs.
Proof. reflexivity. Qed.

Lemma hmul_qneg_r p q : hmul p (qneg q) = qneg (hmul p q).
Proof. dq p; dq q; unfold hmul; cbv [qneg]; qunf; split4; ring. Qed.

Lemma ang1_eqpm (p p' q q' : Q4) : eqpm p' p -> eqpm q' q -> @ang1 NumR p' q' = @ang1 NumR p q.
Proof.
  intros [->| ->] [->| ->]; rewrite ?ang1_qneg_l, ?ang1_qneg_r; reflexivity.
Qed.

Lemma apply_rot_eqpm (o : OP) (p p' : Q4) : is_rot o -> eqpm p' p ->
  eqpm (apply_op Hamilton o p') (apply_op Hamilton o p).
Proof.
  destruct o as [s|d]; [|intros []]. intros _ [->| ->]; cbn [apply_op]; [left; reflexivity|].
  right. apply hmul_qneg_r.
Qed.

(* common right factor r (a rigid rotation of the sample frame), each quaternion possibly
   with the other sign *)
Lemma pair_angle_frame ops (r q1 q2 q1' q2' : Q4) :
  Forall is_rot ops -> qnorm2 r = 1 ->
  eqpm q1' (hmul q1 r) -> eqpm q2' (hmul q2 r) ->
  @pair_angle NumR Hamilton ops q1' q2' = @pair_angle NumR Hamilton ops q1 q2.
Proof.
  intros Hrot Hr H1 H2. unfold pair_angle. f_equal.
  apply flat_map_ext_in'. intros s Hs. apply map_ext_in. intros t Ht.
  rewrite Forall_forall in Hrot.
  rewrite (ang1_eqpm _ _ _ _ (apply_rot_eqpm s _ _ (Hrot s Hs) H1) (apply_rot_eqpm t _ _ (Hrot t Ht) H2)).
  destruct s as [s|]; [|destruct (Hrot _ Hs)]. destruct t as [t|]; [|destruct (Hrot _ Ht)].
  cbn [apply_op]. apply ang1_dot. fold (hmul s (hmul q1 r)) (hmul t (hmul q2 r)) (hmul s q1) (hmul t q2).
  rewrite <- !hamilton_assoc, hamilton_right_isometry, Hr. apply Rmult_1_l.
Qed.

Lemma map_pairs_Forall2 {A B} (Rl : A * A -> A * A -> Prop) (f : A * A -> B) l l' :
  Forall2 Rl l l' -> (forall p p', Rl p p' -> f p' = f p) -> map f l' = map f l.
Proof. induction 1; intros Hf; cbn [map]; [reflexivity|]. rewrite (Hf _ _ H), IHForall2; auto. Qed.

Theorem angles_frame_invariant ops (r : Q4) (qs qs' : list Q4) :
  Forall is_rot ops -> qnorm2 r = 1 ->
  Forall2 (fun q q' => eqpm q' (hmul q r)) qs qs' ->
  angles_ops Hamilton ops qs' = angles_ops Hamilton ops qs.
Proof.
  intros Hrot Hr H. unfold angles_ops.
  apply (map_pairs_Forall2 _ _ _ _ (pairs_Forall2 _ _ _ H)).
  intros p p' [A B]. now apply (pair_angle_frame ops r).
Qed.

(* relabelling by an operator u of a set closed under right multiplication by u *)
Definition closed_under (ops : list OP) (u : Q4) : Prop :=
  (forall s, In (Rot s) ops -> exists s', In (Rot s') ops /\ eqpm (hmul s u) s') /\
  (forall s', In (Rot s') ops -> exists s, In (Rot s) ops /\ eqpm (hmul s u) s').

Lemma eqpm_sym p q : eqpm p q -> eqpm q p.
Proof.
  intros [->| ->]; [left; reflexivity|right]. dq q. cbv [qneg]. split4; lra.
Qed.

Lemma hmul_qneg_l p q : hmul (qneg p) q = qneg (hmul p q).
Proof. dq p; dq q; unfold hmul; cbv [qneg]; qunf; split4; ring. Qed.

Lemma hmul_eqpm_l p p' q : eqpm p' p -> eqpm (hmul p' q) (hmul p q).
Proof. intros [->| ->]; [left; reflexivity|right; apply hmul_qneg_l]. Qed.

Lemma pair_angle_relabel ops (u q1 q1' q2 : Q4) :
  ops <> [] -> Forall is_rot ops -> closed_under ops u -> eqpm q1' (hmul u q1) ->
  @pair_angle NumR Hamilton ops q1' q2 = @pair_angle NumR Hamilton ops q1 q2.
Proof.
  intros Hne Hrot [C1 C2] H1. rewrite !pair_angle_values. rewrite Forall_forall in Hrot.
  apply lmin_same_set; [now apply angle_values_nonempty| |].
  - intros x Hx. apply in_angle_values in Hx as (s & t & Hs & Ht & ->).
    destruct s as [s|]; [|destruct (Hrot _ Hs)].
    destruct (C1 s Hs) as (s' & Hs' & E).
    apply in_angle_values. exists (Rot s'), t. repeat split; try assumption.
    cbn [apply_op]. apply ang1_eqpm; [|left; reflexivity].
    fold (hmul s q1') (hmul s' q1).
    assert (X: eqpm (hmul s q1') (hmul s (hmul u q1))) by (apply (apply_rot_eqpm (Rot s)); [exact I|assumption]).
    rewrite <- hamilton_assoc in X.
    destruct X as [->| ->]; destruct E as [->| ->]; rewrite ?hmul_qneg_l; unfold eqpm; auto.
    left. dq (hmul s' q1). cbv [qneg]. split4; lra.
  - intros x Hx. apply in_angle_values in Hx as (s' & t & Hs' & Ht & ->).
    destruct s' as [s'|]; [|destruct (Hrot _ Hs')].
    destruct (C2 s' Hs') as (s & Hs & E).
    apply in_angle_values. exists (Rot s), t. repeat split; try assumption.
    cbn [apply_op]. symmetry. apply ang1_eqpm; [|left; reflexivity].
    fold (hmul s q1') (hmul s' q1).
    assert (X: eqpm (hmul s q1') (hmul s (hmul u q1))) by (apply (apply_rot_eqpm (Rot s)); [exact I|assumption]).
    rewrite <- hamilton_assoc in X.
    destruct X as [->| ->]; destruct E as [->| ->]; rewrite ?hmul_qneg_l; unfold eqpm; auto.
    left. dq (hmul s' q1). cbv [qneg]. split4; lra.
Qed.

Theorem angles_symmetry_invariant ops (qs qs' : list Q4) :
  ops <> [] -> Forall is_rot ops ->
  Forall2 (fun q q' => exists u, In (Rot u) ops /\ closed_under ops u /\ eqpm q' (hmul u q)) qs qs' ->
  angles_ops Hamilton ops qs' = angles_ops Hamilton ops qs.
Proof.
  intros Hne Hrot H. unfold angles_ops.
  apply (map_pairs_Forall2 _ _ _ _ (pairs_Forall2 _ _ _ H)).
  intros [a b] [a' b'] [(u & _ & Cu & Eu) (w & _ & Cw & Ew)]. cbn [fst snd] in *.
  rewrite (pair_angle_relabel ops u a a' b' Hne Hrot Cu Eu).
  rewrite (pair_angle_sym Hamilton ops a b' Hne), (pair_angle_relabel ops w b b' a Hne Hrot Cw Ew).
  now apply pair_angle_sym.
Qed.

(* ------------------------------------------------------------------------- *)
(* range of the index                                                        *)
(* ------------------------------------------------------------------------- *)
Definition rsum (l : list R) : R := fold_right Rplus 0 l.

Lemma fold_left_add_R (l : list R) (a : R) : fold_left (@nadd NumR) l a = a + rsum l.
Proof.
  revert a; induction l as [|x xs IH]; intros a; cbn [fold_left rsum fold_right].
  - numR. ring.
  - rewrite IH. numR. unfold rsum. ring.
Qed.
Lemma msum_R (l : list R) : @msum NumR l = rsum l.
Proof. destruct l as [|x xs]; [reflexivity|]. unfold msum. rewrite fold_left_add_R. reflexivity. Qed.

Definition absdiff (t o : R) : R := Rabs (t - o).

Lemma sum_abs_bound th obs : Forall (Rle 0) th -> Forall (Rle 0) obs ->
  0 <= rsum (map2 absdiff th obs) <= rsum th + rsum obs.
Proof.
  intros Ht. revert obs. induction Ht as [|t th Ht0 Ht IH]; intros obs Ho.
  - cbn. destruct obs; cbn; [lra|]. inversion Ho; subst. clear -H1 H2.
    assert (0 <= rsum obs) by (induction H2; cbn; [lra|]; unfold rsum in *; lra). unfold rsum in *. lra.
  - destruct Ho as [|o obs Ho0 Ho]; cbn [map2 rsum fold_right].
    + assert (0 <= rsum th) by (clear -Ht; induction Ht; cbn; [lra|]; unfold rsum in *; lra).
      unfold rsum in *. lra.
    + specialize (IH obs Ho). unfold rsum in *. unfold absdiff at 1 3.
      unfold Rabs. destruct (Rcase_abs (t - o)); lra.
Qed.

(* for any non-negative densities: 0 <= M <= theta/(2 k) (sum th + sum obs) *)
Theorem mindex_range_abstract n (th obs : list R) :
  Forall (Rle 0) th -> Forall (Rle 0) obs ->
  let c := IZR (Z.of_nat n) / IZR (2 * Z.of_nat (length obs)) in
  0 <= @m_of NumR n th obs <= c * (rsum th + rsum obs).
Proof.
  intros Ht Ho c. unfold m_of. rewrite msum_R. numR. fold c.
  change (map2 (fun t o : R => Rabs (t - o)) th obs) with (map2 absdiff th obs).
  pose proof (sum_abs_bound th obs Ht Ho) as [A B].
  assert (Hc: 0 <= c).
  { unfold c. destruct (length obs) as [|k].
    - cbn. unfold Rdiv. rewrite Rinv_0. lra.
    - apply Rmult_le_pos; [apply IZR_le; lia|]. left. apply Rinv_0_lt_compat. apply IZR_lt. lia. }
  split; [apply Rmult_le_pos; assumption|]. apply Rmult_le_compat_l; assumption.
Qed.

(* the observed density: non-negative, sums to 1 when at least one angle is in range *)
Definition zsum (l : list Z) : Z := fold_right Z.add 0%Z l.
Lemma fold_left_Zadd l a : fold_left Z.add l a = (a + zsum l)%Z.
Proof. revert a; induction l as [|x l IH]; intros a; cbn; [lia|]. rewrite IH. unfold zsum. lia. Qed.

Lemma hist_counts_nonneg n (xs : list R) : Forall (fun c => (0 <= c)%Z) (@hist_counts NumR n xs).
Proof. unfold hist_counts. apply Forall_forall. intros c Hc. apply in_map_iff in Hc as (k & <- & _). unfold count_bin. lia. Qed.

Lemma hist_density_props n (xs : list R) :
  let tot := zsum (@hist_counts NumR n xs) in
  length (@hist_density NumR n xs) = n /\
  ((0 < tot)%Z -> Forall (Rle 0) (@hist_density NumR n xs) /\ rsum (@hist_density NumR n xs) = 1).
Proof.
  intros tot. unfold hist_density. rewrite fold_left_Zadd, Z.add_0_l. fold tot. split.
  - unfold hist_counts. now rewrite !map_length, seq_length.
  - intros Hpos. assert (Ht: 0 < IZR tot) by (apply IZR_lt; assumption).
    pose proof (hist_counts_nonneg n xs) as Hc. subst tot. revert Hc Hpos Ht.
    generalize (@hist_counts NumR n xs) as cs. intros cs Hc Hpos Ht. numR. split.
    + apply Forall_forall. intros d Hd. apply in_map_iff in Hd as (c & <- & Hin).
      rewrite Forall_forall in Hc. specialize (Hc c Hin). apply IZR_le in Hc.
      unfold Rdiv. rewrite Rinv_1, Rmult_1_r. apply Rmult_le_pos; [assumption|]. left. now apply Rinv_0_lt_compat.
    + assert (E: forall l, rsum (map (fun c => IZR c / 1 / IZR (zsum cs)) l) = IZR (zsum l) / IZR (zsum cs)).
      { induction l as [|c l IH]; cbn [map rsum fold_right zsum].
        - unfold Rdiv. ring.
        - fold (rsum (map (fun c => IZR c / 1 / IZR (zsum cs)) l)) (zsum l). rewrite IH, plus_IZR. field. lra. }
      rewrite E. field. lra.
Qed.

Lemma collect_length {A} (l : list (res A)) r : collect l = Ok r -> length r = length l.
Proof.
  revert r; induction l as [|[a|e] l IH]; intros r H; cbn [collect] in H; try discriminate.
  - inversion H; reflexivity.
  - destruct (collect l) as [r'|]; [|discriminate]. inversion H; subst. cbn. f_equal. now apply IH.
Qed.

Theorem mindex_range s (angs : list R) th m :
  @theory NumR s = Ok th -> Forall (Rle 0) th ->
  (0 < zsum (@hist_counts NumR (theta_max s) angs))%Z ->
  @mindex_of_angles NumR s angs = Ok m ->
  0 <= m <= (1 + rsum th) / 2.
Proof.
  intros Hth Hpos Htot Hm.
  assert (Em: m = @m_of NumR (theta_max s) th (@hist_density NumR (theta_max s) angs)).
  { unfold mindex_of_angles in Hm. rewrite Hth in Hm. congruence. }
  rewrite Em. clear Em Hm.
  destruct (hist_density_props (theta_max s) angs) as [Hlen Hd]. destruct (Hd Htot) as [Hnn Hone].
  pose proof (mindex_range_abstract (theta_max s) th _ Hpos Hnn) as Hr. cbv zeta in Hr.
  change (T NumR) with R in *. rewrite Hlen, Hone in Hr.
  assert (Ec: IZR (Z.of_nat (theta_max s)) / IZR (2 * Z.of_nat (theta_max s)) = 1 / 2).
  { rewrite mult_IZR. assert (0 < IZR (Z.of_nat (theta_max s))) by (apply IZR_lt; destruct s; cbn; lia). field. lra. }
  rewrite Ec in Hr. lra.
Qed.

(* ------------------------------------------------------------------------- *)
(* batched variant                                                           *)
(* ------------------------------------------------------------------------- *)
Lemma collect_map_Forall2 {A B} (f : A -> res B) l r :
  collect (map f l) = Ok r -> Forall2 (fun a b => f a = Ok b) l r.
Proof.
  revert r; induction l as [|a l IH]; intros r H; cbn [map collect] in H.
  - inversion H; constructor.
  - destruct (f a) as [b|] eqn:E; [|discriminate].
    destruct (collect (map f l)) as [r'|] eqn:E'; [|discriminate]. inversion H; subst.
    constructor; [assumption|]. now apply IH.
Qed.

Theorem batched_is_map (as_quat : list R -> Q4) v s stack ms :
  @misorientation_indices NumR as_quat v s stack = Ok ms ->
  Forall2 (fun os m => @misorientation_index NumR as_quat v s os = Ok m) stack ms.
Proof. apply collect_map_Forall2. Qed.

Theorem batched_error (as_quat : list R -> Q4) v s stack e :
  @misorientation_indices NumR as_quat v s stack = Err e ->
  exists os, In os stack /\ @misorientation_index NumR as_quat v s os = Err e.
Proof.
  unfold misorientation_indices. induction stack as [|os stack IH]; cbn [map collect]; [discriminate|].
  destruct (@misorientation_index NumR as_quat v s os) as [m|e'] eqn:E.
  - destruct (collect _) as [r|e'']; [discriminate|]. intros H; inversion H; subst.
    destruct (IH eq_refl) as (o & Ho & Eo). exists o; split; [now right|assumption].
  - intros H; inversion H; subst. exists os; split; [now left|assumption].
Qed.

(* ------------------------------------------------------------------------- *)
(* the orthorhombic / monoclinic operator list is not closed under composition *)
(* ------------------------------------------------------------------------- *)
Definition ortho_ops_exact : list OP :=
  [@Rot NumR (0, 0, 0, 1); @Rot NumR (0, 0, 1, 0); @Rot NumR (0, 1, 0, 0); @Rot NumR (1, 0, 0, 0);
   @Refl NumR (1, -1, -1, 1); @Refl NumR (1, -1, 1, -1); @Refl NumR (1, 1, -1, -1)].

Lemma ortho_ops_not_group :
  exists (s t : OP) (q : Q4), In s ortho_ops_exact /\ In t ortho_ops_exact /\
    forall u, In u ortho_ops_exact ->
      apply_op Hamilton s (apply_op Hamilton t q) <> apply_op Hamilton u q /\
      apply_op Hamilton s (apply_op Hamilton t q) <> qneg (apply_op Hamilton u q).
Proof.
  exists (@Rot NumR (1, 0, 0, 0)), (@Refl NumR (1, -1, -1, 1)), (1, 2, 3, 4).
  split; [cbn; tauto|]. split; [cbn; tauto|].
  intros u Hu. cbn [In ortho_ops_exact] in Hu.
  repeat (destruct Hu as [<-|Hu]); try destruct Hu;
    cbv [apply_op qprod qneg qx qy qz qw fst snd]; numR; split; intros E; injection E; intros; lra.
Qed.

(* non-vacuity: the four-group of two-fold rotations is closed *)
Definition d2_ops : list OP :=
  [@Rot NumR (0, 0, 0, 1); @Rot NumR (0, 0, 1, 0); @Rot NumR (0, 1, 0, 0); @Rot NumR (1, 0, 0, 0)].

Ltac try_cand c :=
  exists c; split; [cbn; tauto|];
  first [ left; unfold hmul; qunf; split4; ring
        | right; unfold hmul; cbv [qneg]; qunf; split4; ring ].

Lemma nonvacuous_mindex :
  Forall is_rot d2_ops /\ d2_ops <> [] /\ closed_under d2_ops (1, 0, 0, 0) /\
  In (@Rot NumR (1, 0, 0, 0)) d2_ops /\ qnorm2 (1 / 2, 1 / 2, 1 / 2, 1 / 2) = 1 /\
  (0 < zsum (@hist_counts NumR 180 (30%R :: nil)))%Z.
Proof.
  split; [repeat constructor|]. split; [discriminate|]. split.
  { split; intros s Hs; cbn [In d2_ops] in Hs;
      repeat (destruct Hs as [Hs|Hs]; [injection Hs as <-|]); try destruct Hs;
      first [ try_cand (0, 0, 0, 1) | try_cand (0, 0, 1, 0) | try_cand (0, 1, 0, 0) | try_cand (1, 0, 0, 0) ]. }
  split; [cbn; tauto|]. split; [unfold qnorm2; qunf; field|].
  assert (E: zsum (@hist_counts NumR 180 (30%R :: nil)) = 1%Z).
  { unfold hist_counts.
    assert (H: forall k, (k < 180)%nat -> @count_bin NumR 180 k [30] = if Nat.eqb k 30 then 1%Z else 0%Z).
    { intros k Hk. unfold count_bin, in_bin. cbn [filter]. numR.
      destruct (Nat.eqb_spec k 30) as [->|Hne].
      - cbn [Nat.eqb]. replace (Rleb (IZR (Z.of_nat 30)) 30) with true by (symmetry; apply Rleb_true; cbn; lra).
        replace (Rltb 30 (IZR (Z.of_nat 31))) with true by (symmetry; apply Rltb_true; cbn; lra). reflexivity.
      - destruct (Nat.lt_ge_cases k 30) as [Hlt|Hge].
        + replace (Nat.eqb (S k) 180) with false by (symmetry; apply Nat.eqb_neq; lia).
          replace (Rltb 30 (IZR (Z.of_nat (S k)))) with false.
          * now rewrite andb_false_r.
          * symmetry. apply Rltb_false. apply IZR_le. lia.
        + replace (Rleb (IZR (Z.of_nat k)) 30) with false; [reflexivity|].
          symmetry. apply Rleb_false. apply IZR_lt. lia. }
    assert (G: forall n a, (a + n <= 180)%nat ->
               zsum (map (fun k => @count_bin NumR 180 k [30]) (seq a n)) =
               zsum (map (fun k => if Nat.eqb k 30 then 1%Z else 0%Z) (seq a n))).
    { induction n as [|n IH]; intros a Ha; [reflexivity|]. cbn [seq map zsum fold_right].
      fold (zsum (map (fun k => @count_bin NumR 180 k [30]) (seq (S a) n))).
      fold (zsum (map (fun k => if Nat.eqb k 30 then 1%Z else 0%Z) (seq (S a) n))).
      rewrite IH by lia. rewrite H by lia. reflexivity. }
    rewrite G by lia. vm_compute. reflexivity. }
  rewrite E. lia.
Qed.
